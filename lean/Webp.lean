import Webp.Go.Basic
import Webp.Go.Canon
import Webp.Impl.Parser
import Webp.Impl.Demux
import Webp.Impl.Config
