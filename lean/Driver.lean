import Driver.Container
import Driver.RowPipe
import Driver.Anim
import Driver.Opts
import Driver.VP8L
import Driver.LTransform
import Driver.Alpha
import Driver.Import
