import Driver.Container
