import Driver.Container
import Driver.RowPipe
import Driver.Anim
import Driver.Opts
import Driver.VP8L
