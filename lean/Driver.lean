import Driver.Container
import Driver.RowPipe
import Driver.Anim
import Driver.Opts
