import Webp.Impl.VP8LWindow2
/-
  Implementation model of the LEVEL-0 SEQUENCE of the VP8L decoder on the window reader (property C03):
  /repo/internal/lossless/decode.go `decodeImageStream(xsize, ysize, true)` (transform loop, colour-cache
  info, `readHuffmanCodes(…, allowRecursion = true)`, `updateDecoder`) followed by the
  `decodeImageData` call of `DecodeVP8L`, and decode_transform.go `readTransform` — everything between
  `decodeHeader` and `applyInverseTransforms`, as far as the bit reader is concerned.

  Written over the reader interface `RdOps2` and three sub-decoders (`Subs`): `decodeSubImage`, the five
  `readHuffmanCode` calls + flag computation of one group, and the pixel loop `decodeImageData`.
  `goSubs` plugs in the models of Webp.Impl.VP8LWindow / VP8LWindow2 (`decodeEntropyImageGo`,
  `readGroupGo`, `decodePixelLoop (goSource …)`); `traceSubs` records them as markers.

  Deliberate simplifications, none silent:
   * `dec.transformsSeen` (a bit set) is the list of the types seen;
   * a transform is recorded as `XForm` = (type, XSize, Bits, the RAW sub-image): `expandColorMap`
     and the inverse transforms are pure functions of that (Webp/Impl/LTransform.lean, property C01);
   * the `for dec.br.ReadBits(1) == 1` loop has fuel 6 (a fifth transform cannot be new);
   * the overflow guards `… > (1<<30)/…` of `readHuffmanCodes` / `decodeSubImage` are not modelled
     (dimensions ≤ 2^14);
   * NOT MODELLED: the group REMAPPING of `readHuffmanCodes` (`numHTreeGroupsMax > 1000 ||
     numHTreeGroupsMax > xsize*ysize`): the model leaves through `remapNotModelled` there.

  Core Lean only.
-/
namespace Webp.Impl.VP8LWindow
open Webp.Go (Res)
open Webp.Spec.VP8L (Err subSampleSize)
open Webp.Impl.VP8LEntropy
open Webp.Impl.VP8LFastPaths (HTreeGroup)

/-- what `readTransform` leaves in `dec.transforms[i]`: `Type`, `XSize`, `Bits`, the raw sub-image
    (`numColors` entries for colour indexing) -/
structure XForm where
  ty : Nat
  xsize : Nat
  bits : Nat
  data : Array UInt32
  deriving Repr, DecidableEq, Inhabited

/-- the sub-decoders the level-0 sequence calls -/
structure Subs (ρ : Type) where
  /-- `dec.decodeSubImage(w, h)` -/
  subImage : Nat → Nat → ρ → Res Err (Array UInt32 × ρ)
  /-- the five `dec.readHuffmanCode(alphaSize)` calls and the flags of one mapped group -/
  group : Nat → ρ → Res Err (HTreeGroup × ρ)
  /-- `dec.decodeImageData(pixels, tw, height, height)` with the decoder state `updateDecoder` set up -/
  pixels : Array HTreeGroup → LoopParams → ρ → Res Err (Array UInt32 × ρ)

/-- what the level-0 sequence yields: the transforms in stream order, the width after them, the
    entropy-coded pixels -/
structure Level0 where
  transforms : Array XForm
  width : Nat
  pixels : Array UInt32
  deriving Repr, Inhabited

/-- the model's exit for the group remapping, which is not transcribed -/
def remapNotModelled : Err := .groupIndex

section generic
variable {ρ : Type} (ops : RdOps2 ρ) (S : Subs ρ)

/-- `bits` of a colour-indexing transform: 0 | 1 | 2 | 3 for `numColors` > 16 | > 4 | > 2 | else -/
def palBits (numColors : Nat) : Nat :=
  if numColors > 16 then 0 else if numColors > 4 then 1 else if numColors > 2 then 2 else 3

/-- `data, err := dec.decodeSubImage(w, h); if err != nil { return 0, err }; t.Data = data` and the
    `xsize` returned -/
def subXForm (ty xsize bits outW w h : Nat) (r : ρ) : Res Err ((XForm × Nat) × ρ) :=
  match S.subImage w h r with
  | .ok (data, r) => .ok (({ ty, xsize, bits, data }, outW), r)
  | .err e => .err e
  | .panic => .panic
  | .hang => .hang

/-- the `switch transformType` of `readTransform`:
    ```
    case PredictorTransform, CrossColorTransform:
      t.Bits = MinTransformBits + int(dec.br.ReadBits(NumTransformBits))
      data, err := dec.decodeSubImage(VP8LSubSampleSize(t.XSize, t.Bits), VP8LSubSampleSize(t.YSize, t.Bits))
    case ColorIndexingTransform:
      numColors := int(dec.br.ReadBits(8)) + 1
      bits = 0 | 1 | 2 | 3 for numColors > 16 | > 4 | > 2 | else
      palette, err := dec.decodeSubImage(numColors, 1)
      xsize = VP8LSubSampleSize(t.XSize, bits)
    case SubtractGreenTransform:
    ```
    returns the transform and the `xsize` for what follows -/
def transformData (ty xsize ysize : Nat) (r : ρ) : Res Err ((XForm × Nat) × ρ) :=
  if ty = 0 ∨ ty = 1 then
    let (b, r) := ops.readBits r 3
    subXForm S ty xsize (2 + b.toNat) xsize (subSampleSize xsize (2 + b.toNat)) (subSampleSize ysize (2 + b.toNat)) r
  else if ty = 3 then
    let (n, r) := ops.readBits r 8
    subXForm S ty xsize (palBits (n.toNat + 1)) (subSampleSize xsize (palBits (n.toNat + 1))) (n.toNat + 1) 1 r
  else .ok (({ ty, xsize, bits := 0, data := #[] }, xsize), r)

/-- `readTransform(xsize, ysize)`:
    ```
    transformType := TransformType(dec.br.ReadBits(2))
    if dec.transformsSeen&(1<<transformType) != 0 { return 0, ErrBitstream }
    dec.transformsSeen |= 1 << transformType
    … switch …
    ``` -/
def readTransformAt (seen : List Nat) (xsize ysize : Nat) (r : ρ) : Res Err ((XForm × Nat × Nat) × ρ) :=
  let (ty, r) := ops.readBits r 2
  if ty.toNat ∈ seen then .err .dupTransform
  else
    match transformData ops S ty.toNat xsize ysize r with
    | .ok ((x, xsize'), r) => .ok ((x, xsize', ty.toNat), r)
    | .err e => .err e
    | .panic => .panic
    | .hang => .hang

/-- `for dec.br.ReadBits(1) == 1 { transformXSize, err = dec.readTransform(transformXSize, transformYSize) }` -/
def transformLoop (ysize : Nat) : (fuel : Nat) → (xsize : Nat) → (seen : List Nat) → Array XForm → ρ →
    Res Err ((Array XForm × Nat) × ρ)
  | 0, _, _, _, _ => .hang
  | fuel + 1, xsize, seen, acc, r =>
    let (b, r) := ops.readBits r 1
    if b = 1 then
      match readTransformAt ops S seen xsize ysize (ops.note "<readTransform" r) with
      | .ok ((x, xsize', ty), r) => transformLoop ysize fuel xsize' (ty :: seen) (acc.push x) (ops.note ">" r)
      | .err e => .err e
      | .panic => .panic
      | .hang => .hang
    else .ok ((acc, xsize), r)

/-- `for i := 0; i < numHTreeGroupsMax; i++ { … five readHuffmanCode … }` (no remapping) -/
def groupsLoop (cb : Nat) : (n : Nat) → Array HTreeGroup → ρ → Res Err (Array HTreeGroup × ρ)
  | 0, acc, r => .ok (acc, r)
  | n + 1, acc, r =>
    match S.group cb r with
    | .ok (g, r) => groupsLoop cb n (acc.push g) r
    | .err e => .err e
    | .panic => .panic
    | .hang => .hang

/-- the single-group case of `readHuffmanCodes` after the meta bit, `updateDecoder`, and `decodeImageData`:
    ```
    if dec.br.IsEndOfStream() { return ErrBitstream }
    … for i := 0; i < numHTreeGroupsMax(= 1); i++ { … }
    ``` -/
def singleGroupPart (xsize ysize cb : Nat) (r : ρ) : Res Err (Array UInt32 × ρ) :=
  let (e, r) := ops.eos r
  if e then .err .eos
  else
    match S.group cb r with
    | .ok (g, r) =>
      S.pixels #[g] { width := xsize, height := ysize, cacheBits := cb,
                      huffmanXSize := subSampleSize xsize 0, numGroups := 1 } r
    | .err e => .err e
    | .panic => .panic
    | .hang => .hang

/-- `img, err := dec.decodeSubImage(w, h); if err != nil { return err }; k(img)` -/
def bindSub {β : Type} (w h : Nat) (r : ρ) (k : Array UInt32 → ρ → Res Err (β × ρ)) : Res Err (β × ρ) :=
  match S.subImage w h r with
  | .ok (img, r) => k img r
  | .err e => .err e
  | .panic => .panic
  | .hang => .hang

/-- the meta-code case after the meta image is decoded (see `metaPart`) -/
def metaBody (xsize ysize cb precision : Nat) (img : Array UInt32) (r : ρ) : Res Err (Array UInt32 × ρ) :=
  let entropy : Array Nat := img.map (fun (px : UInt32) => ((px >>> 8) &&& 0xffff).toNat)
  let nmax := entropy.foldl max 0 + 1
  if nmax > 1000 ∨ nmax > xsize * ysize then .err remapNotModelled
  else
    let (e, r) := ops.eos r
    if e then .err .eos
    else
      match groupsLoop S cb nmax #[] r with
      | .ok (gs, r) =>
        S.pixels gs { width := xsize, height := ysize, cacheBits := cb, subsampleBits := precision,
                      huffmanXSize := subSampleSize xsize precision, huffmanImage := entropy,
                      numGroups := nmax } r
      | .err e => .err e
      | .panic => .panic
      | .hang => .hang

/-- the meta-code case:
    ```
    huffmanPrecision := MinHuffmanBits + int(dec.br.ReadBits(NumHuffmanBits))
    subImage, err := dec.decodeSubImage(VP8LSubSampleSize(xsize, p), VP8LSubSampleSize(ysize, p))
    group := (subImage[i] >> 8) & 0xffff; numHTreeGroupsMax = max(group) + 1
    if numHTreeGroupsMax > 1000 || numHTreeGroupsMax > xsize*ysize { … remapping … }   // NOT MODELLED
    if dec.br.IsEndOfStream() { return ErrBitstream }
    for i := 0; i < numHTreeGroupsMax; i++ { … }
    ``` -/
def metaPart (xsize ysize cb : Nat) (r : ρ) : Res Err (Array UInt32 × ρ) :=
  let (p, r) := ops.readBits r 3
  bindSub S (subSampleSize xsize (2 + p.toNat)) (subSampleSize ysize (2 + p.toNat)) r
    (metaBody ops S xsize ysize cb (2 + p.toNat))

/-- `readHuffmanCodes(xsize, ysize, colorCacheBits, true)` … `decodeImageData`:
    `if allowRecursion && dec.br.ReadBits(1) == 1 { meta codes } …` -/
def codesPart (xsize ysize cb : Nat) (r : ρ) : Res Err (Array UInt32 × ρ) :=
  let (m, r) := ops.readBits r 1
  if m = 1 then metaPart ops S xsize ysize cb r else singleGroupPart ops S xsize ysize cb r

/-- the colour-cache info of `decodeImageStream` and everything after it -/
def cachePart (xsize ysize : Nat) (r : ρ) : Res Err (Array UInt32 × ρ) :=
  let (b, r) := ops.readBits r 1
  if b = 1 then
    let (c, r) := ops.readBits r 4
    if c.toNat < 1 ∨ c.toNat > 11 then .err .badCacheBits
    else codesPart ops S xsize ysize c.toNat (ops.note "<readHuffmanCodes" r)
  else codesPart ops S xsize ysize 0 (ops.note "<readHuffmanCodes" r)

/-- **the level-0 sequence**: `decodeImageStream(width, height, true)` and the `decodeImageData` call
    of `DecodeVP8L` -/
def decodeStreamAt (width height : Nat) (r : ρ) : Res Err (Level0 × ρ) :=
  match transformLoop ops S height 6 width [] #[] (ops.note "<loop" r) with
  | .ok ((ts, w), r) =>
    match cachePart ops S w height (ops.note ">" r) with
    | .ok (px, r) => .ok ({ transforms := ts, width := w, pixels := px }, r)
    | .err e => .err e
    | .panic => .panic
    | .hang => .hang
  | .err e => .err e
  | .panic => .panic
  | .hang => .hang

end generic

/-- the sub-decoders on the window reader -/
def goSubs : Subs Reader where
  subImage w h r := decodeEntropyImageGo w h r
  group cb r := readGroupGo cb r
  pixels gs p r := decodePixelLoop (goSource gs p.width) p r

/-- **the level-0 sequence on the window reader** -/
def decodeStreamGo (width height : Nat) (r : Reader) : Res Err (Level0 × Reader) :=
  decodeStreamAt goOps2 goSubs width height r

/-- `decodeHeader` after the signature byte (the reader is created over `data[1:]`):
    ```
    dec.Width = int(dec.br.ReadBits(14)) + 1; dec.Height = int(dec.br.ReadBits(14)) + 1
    dec.HasAlpha = dec.br.ReadBits(1) != 0
    version := dec.br.ReadBits(3); if version != 0 { return ErrBadVersion }
    if dec.br.IsEndOfStream() { return ErrBitstream }
    ``` -/
def readHeaderAt {ρ : Type} (ops : RdOps2 ρ) (r : ρ) : Res Err ((Nat × Nat × Bool) × ρ) :=
  let (w, r) := ops.readBits r 14
  let (h, r) := ops.readBits r 14
  let (a, r) := ops.readBits r 1
  let (v, r) := ops.readBits r 3
  if v ≠ 0 then .err .badVersion
  else
    let (e, r) := ops.eos r
    if e then .err .eos else .ok ((w.toNat + 1, h.toNat + 1, a ≠ 0), r)

/-- `decodeHeader` (after the signature byte) + the level-0 sequence -/
def decodePayloadGo (r : Reader) : Res Err ((Nat × Nat × Bool × Level0) × Reader) :=
  match readHeaderAt goOps2 r with
  | .ok ((w, h, a), r) =>
    match decodeStreamGo w h r with
    | .ok (l0, r) => .ok ((w, h, a, l0), r)
    | .err e => .err e
    | .panic => .panic
    | .hang => .hang
  | .err e => .err e
  | .panic => .panic
  | .hang => .hang

/-! ## the recording reader -/

/-- the sub-decoders as markers -/
def traceSubs : Subs (List String × List Nat) where
  subImage _ _ s := .ok (#[], (s.1 ++ ["<decodeSubImage"], s.2))
  group _ s := .ok (default, (s.1 ++ ["<group"], s.2))
  pixels _ _ s := .ok (#[], (s.1 ++ ["<decodeImageData"], s.2))

/-- `decodeHeader`: its reader calls -/
def headerShape : List (String × List String) :=
  [ ("", logOf (readHeaderAt traceOps2 ([], [0, 0, 0, 0]))) ]

/-- `decodeImageStream`, the level-0 paths (`<loop`: the transform loop; the script makes it end at once) -/
def streamShape : List (String × List String) :=
  [ ("isLevel0=T dec.br.ReadBits(1) == 1=T", logOf (decodeStreamAt traceOps2 traceSubs 1 1 ([], [0, 1, 1]))),
    ("isLevel0=T dec.br.ReadBits(1) == 1=F", logOf (decodeStreamAt traceOps2 traceSubs 1 1 ([], [0, 0]))) ]

/-- condition and body of the transform loop: one iteration (a subtract-green transform) followed by
    the condition read that ends the loop, which is dropped -/
def streamLoopShape : List (String × List String) :=
  [ ("", (logOf (transformLoop traceOps2 traceSubs 1 2 1 [] #[] ([], [1, 2, 0]))).dropLast) ]

/-- `readTransform`, per transform type (script: the type, then the size bits) -/
def transformShape : List (String × List String) :=
  [ ("transformType=PredictorTransform,CrossColorTransform", logOf (readTransformAt traceOps2 traceSubs [] 1 1 ([], [0, 0]))),
    ("transformType=ColorIndexingTransform", logOf (readTransformAt traceOps2 traceSubs [] 1 1 ([], [3, 0]))),
    ("transformType=SubtractGreenTransform", logOf (readTransformAt traceOps2 traceSubs [] 1 1 ([], [2]))) ]

end Webp.Impl.VP8LWindow
