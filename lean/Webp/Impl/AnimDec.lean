import Webp.Go.Basic
import Webp.Spec.Anim
/-
  Implementation model of `animation.AnimDecoder` (/repo/animation/animation.go,
  /repo/animation/frame.go): `NewAnimDecoder`, `isKeyFrame`, `NextFrame`, `Reset`,
  `compositeFrame`, `clearCanvas`, `applyDispose`, `fillRect`, `alphaBlendNRGBA`,
  `Frame.Bounds`, and the pieces of the Go standard library they rest on
  (`image.Rect`, `Rectangle.Intersect/Empty/Dx/Dy`, `(*image.NRGBA).NRGBAAt/SetNRGBA`).

  Conventions
  * Go `int` is a 64-bit two's-complement integer: values are `Int`, every `+`/`-` of the Go
    code is wrapped with `wrap`.  Frame offsets are arbitrary Go ints (an `Animation` can be
    built programmatically), so `Frame.Bounds`' overflow guard is modelled, not assumed away.
  * A frame's picture is an `*image.NRGBA` whose `Rect.Min` is `(0,0)` and whose stride is
    `4*fw` (what every decoder of this module and `toNRGBA` produce).  `compositeFrame` reads
    `src.NRGBAAt(sx, sy)` with `sx, sy` relative to 0, so a caller-supplied sub-image with a
    non-zero `Rect.Min` is *not* described by this model: the Go code then reads the wrong pixels
    (harness suite `animdec`, stream `subimage-origin`, finding `compositeFrame:subimage-origin`).
  * `uint32` arithmetic of `alphaBlendNRGBA` is `UInt32` (wrap-around), exactly as coded.
  Core Lean only.
-/
namespace Webp.Impl.AnimDec
open Webp.Go
open Webp.Spec.Anim (Px Canvas Frame)

/-! ### Go `int` -/

def maxInt : Int := 9223372036854775807

/-- two's-complement wrap of a 64-bit Go `int` result -/
@[inline] def wrap (x : Int) : Int :=
  (x + 9223372036854775808) % 18446744073709551616 - 9223372036854775808

/-- `x` is a value of Go's 64-bit `int` -/
def IsGoInt (x : Int) : Prop := -9223372036854775808 ≤ x ∧ x ≤ 9223372036854775807

instance (x : Int) : Decidable (IsGoInt x) := by unfold IsGoInt; infer_instance

/-- Every number of the animation is a Go `int`.  This is typing, not a restriction: the fields
    `CanvasWidth`, `CanvasHeight`, `OffsetX`, `OffsetY` and the picture's `Dx()`, `Dy()` are `int`s. -/
def GoTyped (w h : Nat) (frames : List Frame) : Prop :=
  IsGoInt w ∧ IsGoInt h ∧
  ∀ f ∈ frames, IsGoInt f.offX ∧ IsGoInt f.offY ∧ IsGoInt f.fw ∧ IsGoInt f.fh

/-- What `isKeyFrame` trusts: a frame whose bit-stream flag says "no alpha" has only opaque
    pixels (guaranteed by the demuxer + decoders: a VP8 frame without ALPH chunk, or a VP8L
    frame whose header alpha bit is 0, decodes to alpha 255 everywhere). -/
def FlagsConsistent (frames : List Frame) : Prop :=
  ∀ f ∈ frames, f.hasAlpha = false → ∀ sx sy, sx < f.fw → sy < f.fh → (f.at sx sy).a = 255

/-! ### package image: geometry -/

/-- `image.Rectangle{Min: Point{minX,minY}, Max: Point{maxX,maxY}}` -/
structure Rect where
  minX : Int
  minY : Int
  maxX : Int
  maxY : Int
  deriving DecidableEq, Repr, Inhabited

/-- `image.Rectangle{}` -/
def Rect.zero : Rect := ⟨0, 0, 0, 0⟩

/-- `image.Rect(x0, y0, x1, y1)`: canonicalises so that `Min ≤ Max`
    (`if x0 > x1 { x0, x1 = x1, x0 }`, likewise for y) -/
def mkRect (x0 y0 x1 y1 : Int) : Rect :=
  ⟨if x0 > x1 then x1 else x0, if y0 > y1 then y1 else y0,
   if x0 > x1 then x0 else x1, if y0 > y1 then y0 else y1⟩

/-- `Rectangle.Empty` -/
@[inline] def Rect.empty (r : Rect) : Bool := decide (r.minX ≥ r.maxX) || decide (r.minY ≥ r.maxY)

/-- `Rectangle.Dx` -/
@[inline] def Rect.dx (r : Rect) : Int := wrap (r.maxX - r.minX)
/-- `Rectangle.Dy` -/
@[inline] def Rect.dy (r : Rect) : Int := wrap (r.maxY - r.minY)

/-- `Rectangle.Intersect` -/
def Rect.intersect (r s : Rect) : Rect :=
  let r := if r.minX < s.minX then { r with minX := s.minX } else r
  let r := if r.minY < s.minY then { r with minY := s.minY } else r
  let r := if r.maxX > s.maxX then { r with maxX := s.maxX } else r
  let r := if r.maxY > s.maxY then { r with maxY := s.maxY } else r
  if r.empty then Rect.zero else r

/-! ### package image: `*image.NRGBA` with `Rect = (0,0)-(w,h)`, `Stride = 4*w` -/

/-- `Point{x,y}.In(p.Rect)` for `p.Rect = (0,0)-(w,h)` -/
@[inline] def inImage (w h : Nat) (x y : Int) : Bool :=
  decide (0 ≤ x) && decide (x < w) && decide (0 ≤ y) && decide (y < h)

/-- `p.NRGBAAt(x, y)`: the zero colour outside `p.Rect` -/
@[inline] def nrgbaAt (w h : Nat) (pix : Array Px) (x y : Int) : Px :=
  if inImage w h x y then pix.getD (y.toNat * w + x.toNat) Px.zero else Px.zero

/-- `p.SetNRGBA(x, y, c)`: no effect outside `p.Rect` -/
@[inline] def setNRGBA (w h : Nat) (pix : Array Px) (x y : Int) (c : Px) : Array Px :=
  if inImage w h x y then pix.setIfInBounds (y.toNat * w + x.toNat) c else pix

/-- `for v := lo; v < hi; v++ { s = body(v, s) }` -/
@[inline] def forRange {σ : Type} (lo hi : Int) (body : Int → σ → σ) (s : σ) : σ :=
  (List.range (hi - lo).toNat).foldl (fun s (k : Nat) => body (lo + (k : Int)) s) s

/-! ### frame.go -/

/-- `(*Frame).Bounds` (the picture's own bounds are `(0,0)-(fw,fh)`, so `b.Dx() = fw`) -/
def frameBounds (f : Frame) : Rect :=
  let w : Int := f.fw
  let h : Int := f.fh
  -- Protect against integer overflow.
  let maxX := wrap (f.offX + w)
  let maxY := wrap (f.offY + h)
  let maxX := if w > 0 ∧ maxX < f.offX then maxInt else maxX
  let maxY := if h > 0 ∧ maxY < f.offY then maxInt else maxY
  mkRect f.offX f.offY maxX maxY

/-! ### animation.go: blend -/

/-- the closure `blend` inside `alphaBlendNRGBA`, before the clamp:
    `v := (uint32(sc)*srcA + uint32(dc)*dstFactorA) * scale >> 24`
    (Go: `*` and `>>` have equal precedence and associate to the left) -/
@[inline] def blendV (srcA dstFactorA scale : UInt32) (sc dc : UInt8) : UInt32 :=
  ((sc.toUInt32 * srcA + dc.toUInt32 * dstFactorA) * scale) >>> 24

/-- the closure `blend` inside `alphaBlendNRGBA`: `if v > 255 { v = 255 }; return uint8(v)` -/
@[inline] def blendChan (srcA dstFactorA scale : UInt32) (sc dc : UInt8) : UInt8 :=
  let v := blendV srcA dstFactorA scale sc dc
  let v : UInt32 := if v > 255 then 255 else v
  v.toUInt8

/-- `dstFactorA := (dstA * (256 - srcA)) >> 8` -/
@[inline] def dstFactor (srcA dstA : UInt32) : UInt32 := (dstA * (256 - srcA)) >>> 8

/-- `alphaBlendNRGBA(src, dst)` in `uint32` arithmetic, including both early returns, the
    unreachable `blendA == 0` branch and the `v > 255` clamp -/
def alphaBlendNRGBA (src dst : Px) : Px :=
  if src.a == 0 then dst
  else if src.a == 255 || dst.a == 0 then src
  else
    let srcA : UInt32 := src.a.toUInt32
    let dstA : UInt32 := dst.a.toUInt32
    -- C: dst_factor_a = (dst_a * (256 - src_a)) >> 8
    let dstFactorA : UInt32 := dstFactor srcA dstA
    let blendA : UInt32 := srcA + dstFactorA
    if blendA == 0 then Px.zero
    else
      -- C: scale = (1 << 24) / blend_a
      let scale : UInt32 := ((1 : UInt32) <<< 24) / blendA
      ⟨blendChan srcA dstFactorA scale src.r dst.r,
       blendChan srcA dstFactorA scale src.g dst.g,
       blendChan srcA dstFactorA scale src.b dst.b,
       blendA.toUInt8⟩

/-! ### animation.go: canvas operations -/

/-- `clearCanvas`: every byte of `Pix` becomes 0 (size unchanged) -/
def clearCanvas (c : Canvas) : Canvas := Array.replicate c.size Px.zero

/-- `fillRect(canvas, rect, c)` -/
def fillRect (w h : Nat) (canvas : Canvas) (rect : Rect) (c : Px) : Canvas :=
  let rect := rect.intersect ⟨0, 0, w, h⟩
  forRange rect.minY rect.maxY (fun y canvas =>
    forRange rect.minX rect.maxX (fun x canvas => setNRGBA w h canvas x y c) canvas) canvas

/-- `applyDispose(canvas, f)` -/
def applyDispose (w h : Nat) (canvas : Canvas) (f : Frame) : Canvas :=
  if f.disposeBG then fillRect w h canvas (frameBounds f) Px.zero else canvas

/-- `(*AnimDecoder).compositeFrame` acting on `d.currFrame` -/
def compositeFrame (w h : Nat) (f : Frame) (curr : Canvas) : Canvas :=
  -- src := toNRGBA(f.Image); srcBounds := src.Bounds()  = (0,0)-(fw,fh)
  let rect := frameBounds f
  let srcDx : Int := f.fw
  let srcDy : Int := f.fh
  -- Clamp frame bounds to canvas dimensions
  let rect := rect.intersect ⟨0, 0, w, h⟩
  if rect.empty then curr
  else
    forRange rect.minY rect.maxY (fun y curr =>
      let sy := wrap (y - f.offY)
      if sy < 0 ∨ sy ≥ srcDy then curr   -- continue
      else
        forRange rect.minX rect.maxX (fun x curr =>
          let sx := wrap (x - f.offX)
          if sx < 0 ∨ sx ≥ srcDx then curr   -- continue
          else
            let srcPx := nrgbaAt f.fw f.fh f.px sx sy
            if f.blendNone then setNRGBA w h curr x y srcPx
            else
              let dstPx := nrgbaAt w h curr x y
              setNRGBA w h curr x y (alphaBlendNRGBA srcPx dstPx)) curr) curr

/-! ### animation.go: the decoder -/

/-- `AnimDecoder` (the `anim` field — canvas size and frames — is immutable and passed
    alongside) -/
structure State where
  curr : Canvas
  prevDisposed : Canvas
  pos : Nat
  prevWasKey : Bool
  prevDisposeBG : Bool
  prevBounds : Rect
  deriving DecidableEq, Repr, Inhabited

inductive Err where
  | canvas    -- NewAnimDecoder: invalid or too large canvas
  | noFrames  -- ErrNoFrames
  | nilImage  -- ErrNilImage (not reachable in this model: every `Frame` carries its picture)
  deriving DecidableEq, Repr, Inhabited

def Err.toString : Err → String
  | .canvas => "canvas" | .noFrames => "noFrames" | .nilImage => "nilImage"

/-- the decoder right after a successful `NewAnimDecoder` -/
def init (w h : Nat) : State :=
  { curr := Array.replicate (w * h) Px.zero
    prevDisposed := Array.replicate (w * h) Px.zero
    pos := 0, prevWasKey := false, prevDisposeBG := false, prevBounds := Rect.zero }

def maxCanvasArea : Nat := 1073741824

/-- `NewAnimDecoder` on Go ints `cw`, `ch`: error for non-positive sizes and for
    `uint64(cw)*uint64(ch) > 2^30`; when the `uint64` product wraps below the limit,
    `image.NewNRGBA` panics ("huge or negative dimensions"). -/
def newAnimDecoder (cw ch : Int) : Res Err State :=
  if cw ≤ 0 ∨ ch ≤ 0 then .err .canvas
  else
    let area := (cw.toNat * ch.toNat) % 18446744073709551616
    if area > maxCanvasArea then .err .canvas
    else if cw.toNat * ch.toNat > maxCanvasArea then .panic
    else .ok (init cw.toNat ch.toNat)

/-- `(*AnimDecoder).isKeyFrame(idx)` with `f = d.anim.Frames[idx]` -/
def isKeyFrame (w h : Nat) (f : Frame) (idx : Nat) (st : State) : Bool :=
  -- First frame is always a keyframe.
  if idx == 0 then true
  else
    let isFullFrame := f.offX == 0 && f.offY == 0 && (f.fw : Int) == (w : Int) && (f.fh : Int) == (h : Int)
    if isFullFrame && (!f.hasAlpha || f.blendNone) then true
    else if st.prevDisposeBG then
      let prevFull := st.prevBounds.minX == 0 && st.prevBounds.minY == 0 &&
        st.prevBounds.dx == (w : Int) && st.prevBounds.dy == (h : Int)
      if prevFull || st.prevWasKey then true else false
    else false

/-- body of `NextFrame` once `f = d.anim.Frames[d.pos]` is known to exist.
    `allowKey = true` is the code as written; `allowKey = false` forces the key-frame shortcut
    off for this call (used only to state `keyframe_irrelevant`). -/
def step (allowKey : Bool) (w h : Nat) (f : Frame) (st : State) : Canvas × State :=
  let keyFrame := allowKey && isKeyFrame w h f st.pos st
  -- Initialize currFrame.
  let curr := if keyFrame then clearCanvas st.curr
              else st.prevDisposed   -- copy(d.currFrame.Pix, d.prevFrameDisposed.Pix): equal lengths
  -- Composite the frame onto currFrame.
  let curr := compositeFrame w h f curr
  -- Snapshot the current canvas for the caller.
  let snap := curr
  -- Prepare prevFrameDisposed for the next iteration.
  let prevDisposed := applyDispose w h curr f
  (snap, { curr := curr, prevDisposed := prevDisposed, pos := st.pos + 1,
           prevWasKey := keyFrame, prevDisposeBG := f.disposeBG, prevBounds := frameBounds f })

/-- `(*AnimDecoder).NextFrame` -/
def nextFrameCore (allowKey : Bool) (w h : Nat) (frames : List Frame) (st : State) :
    Res Err (Canvas × State) :=
  match frames[st.pos]? with
  | none => .err .noFrames          -- !d.HasNext()
  | some f => .ok (step allowKey w h f st)

/-- `(*AnimDecoder).NextFrame` as written -/
def nextFrame (w h : Nat) (frames : List Frame) (st : State) : Res Err (Canvas × State) :=
  nextFrameCore true w h frames st

/-- `(*AnimDecoder).Reset` -/
def reset (st : State) : State :=
  { curr := clearCanvas st.curr, prevDisposed := clearCanvas st.prevDisposed, pos := 0,
    prevWasKey := false, prevDisposeBG := false, prevBounds := Rect.zero }

/-- call `NextFrame` up to `n` times (stops at the first error); `oracle i = false` forces the
    key-frame shortcut off for the frame at index `i` -/
def runN (oracle : Nat → Bool) (w h : Nat) (frames : List Frame) : Nat → State → List Canvas × State
  | 0, st => ([], st)
  | n + 1, st =>
    match nextFrameCore (oracle st.pos) w h frames st with
    | .ok (snap, st') =>
      let r := runN oracle w h frames n st'
      (snap :: r.1, r.2)
    | _ => ([], st)

/-- all snapshots of `for d.HasNext() { d.NextFrame() }` with some key-frame decisions forced off -/
def playAllO (oracle : Nat → Bool) (w h : Nat) (frames : List Frame) : List Canvas :=
  (runN oracle w h frames frames.length (init w h)).1

/-- all snapshots of `for d.HasNext() { d.NextFrame() }` on a fresh decoder -/
def playAll (w h : Nat) (frames : List Frame) : List Canvas :=
  playAllO (fun _ => true) w h frames

end Webp.Impl.AnimDec
