import Webp.Go.Basic
import Webp.Spec.Anim
import Webp.Impl.AnimDec
/-
  Implementation model of `animation.AnimEncoder` (/repo/animation/animation.go):
  `NewEncoder` (`clampLoopCount`, `sanitizeKeyframeOptions`), `AddFrame` → `addOptimizedFrame`
  (canvas placement, first frame, `isCanvasIdentical` → `increasePreviousDuration` with the
  duration-overflow filler frame, `countSinceKeyframe`/Kmax forcing, `encodeKeyframe`,
  `encodeSubFrame`: `findChangedRect`, `snapToEven`, `Intersect`, both blend predicates,
  `clearBlendedTranslucent`, the dispose-none / dispose-background candidates, the 90 % key-frame
  fall-back, the retroactive `SetFrameDisposeMode`), `encodeFrame` (mixed codec), `Close`
  (single-frame still shortcut); of /repo/webp.go `encodeFrameForAnimation`,
  `decodeFrameForAnimation`; of /repo/mux/mux.go `AddFrame`, `SetFrameDisposeMode`,
  `SetFrameDuration`, `FrameDuration`, `clampDuration`, `splitAlphaAndBitstream`.

  Conventions
  * The frame **codec is a parameter** (`Codec`): VP8L / VP8+ALPH encoders and decoders are
    arbitrary functions; theorems assume a contract (`CodecLossless` = property C01,
    `CodecAlphaExact` = properties C01/C07 restricted to alpha).  Quality is fixed inside the codec.
  * Every **size comparison** made by the encoder (`len(bsAlt) < len(bs)`, `len(bsBG) < len(bsNone)`,
    `len(bsKey) < len(bestBS)`, `len(simpleData) < len(animData)`) is an **oracle bit**
    (`StepOracle`, `stillSmaller`).  The decision procedure `step` therefore does not mention the
    codec at all: an emitted frame records the picture handed to the codec and which of the two
    codecs won; the bytes are computed from that by `EFrame.payload`.
  * Pictures handed to `AddFrame` are `*image.NRGBA` with `Rect.Min = (0,0)` and `Stride = 4*w`
    (`SubImage`).  A caller-supplied sub-image (other origin, larger stride) is **not** described:
    `cloneNRGBA`/`findChangedRect`/`extractSubImage` index `Pix` as if stride were `4*w`
    (harness suite `animenc`, stream `subimage`).
  * Codec and muxer errors are not modelled (`FrameEncoderFunc` is total on pictures of at least
    1×1; `muxer.AddFrame` fails only for empty data or beyond `MaxFrames = 10000` frames):
    `encodeAll` answers `none` when the frame limit was exceeded, i.e. when some `AddFrame`
    returned an error.  `AddRawFrame`/`NewBitstreamFrame` bypass the optimiser and are outside
    properties C08/C18.
  * Rectangle coordinates are Go `int`s that stay within `[0, 16384]` (`NewEncoder` rejects
    canvases above 16383), so `+`/`-` on them is exact; the counters `frameCount`,
    `countSinceKeyframe` and `prevMuxIndex` grow by one per call and are bounded by the muxer's
    frame limit, so `+ 1` on them is exact as well; durations, loop counts and Kmin/Kmax are
    arbitrary Go `int`s and their arithmetic is wrapped (`wrap`).
  * Three repairs of today are modelled as they are NOW; the pinned behaviour is available behind
    `Pins` (`blend`: no `clearBlendedTranslucent`; `filler`: `increasePreviousDuration` leaves
    `prevFrameRect`; `alpha`: `encodeFrameForAnimation` drops the ALPH payload).
  Core Lean only.
-/
namespace Webp.Impl.AnimEnc
open Webp.Go
open Webp.Spec.Anim (Px Canvas Frame)
open Webp.Impl.AnimDec (Rect mkRect wrap maxInt fillRect nrgbaAt)

/-! ### constants -/

/-- `maxDuration` (animation.go and mux.go): 24-bit maximum -/
def maxDuration : Int := 16777215
/-- `maxLoopCount` -/
def maxLoopCount : Int := 65535
/-- `maxCanvasDimension` -/
def maxCanvasDimension : Nat := 16383
/-- `container.MaxFrames` -/
def maxFrames : Nat := 10000

/-! ### pictures -/

/-- an `*image.NRGBA` with `Rect = (0,0)-(w,h)`, `Stride = 4*w`: `w*h` pixels, row-major -/
structure SubImage where
  w : Nat
  h : Nat
  px : Array Px
  deriving DecidableEq, Repr, Inhabited

/-- pixel `i` (row-major) -/
@[inline] def SubImage.at (s : SubImage) (i : Nat) : Px := s.px.getD i Px.zero

/-- `image.Rect(0, 0, e.width, e.height)` -/
def canvasRect (w h : Nat) : Rect := ⟨0, 0, w, h⟩

/-- `(x, y) ∈ r` for canvas coordinates -/
@[inline] def _root_.Webp.Impl.AnimDec.Rect.has (r : Rect) (x y : Nat) : Bool :=
  decide (r.minX ≤ (x : Int)) && decide ((x : Int) < r.maxX) &&
  decide (r.minY ≤ (y : Int)) && decide ((y : Int) < r.maxY)

/-- `addOptimizedFrame`, first lines: a picture whose size differs from the canvas is copied to
    `(0,0)` of a fresh transparent canvas (`copyImageRect`: rows and columns beyond the canvas are
    dropped); a picture of the canvas size is used as it is. -/
def placeOnCanvas (w h : Nat) (img : SubImage) : Canvas :=
  if img.w = w ∧ img.h = h then img.px
  else Array.ofFn (n := w * h) fun i =>
    let x := i.val % w
    let y := i.val / w
    if x < img.w ∧ y < img.h then img.at (y * img.w + x) else Px.zero

/-! ### NewEncoder -/

/-- `clampLoopCount` -/
def clampLoopCount (v : Int) : Int :=
  if v < 0 then 0 else if v > maxLoopCount then maxLoopCount else v

/-- `sanitizeKeyframeOptions(&kmin, &kmax)` on Go ints, returns `(kmin, kmax)` -/
def sanitizeKeyframeOptions (kmin kmax : Int) : Int × Int :=
  if kmax ≤ 0 then (maxInt - 1, maxInt)             -- *kmax = MaxInt; *kmin = *kmax - 1
  else if kmax = 1 then (0, 0)                       -- all frames are key frames
  else
    let kmin :=
      if kmin ≥ kmax then wrap (kmax - 1)
      else
        let kminLimit := wrap (kmax / 2 + 1)
        if kmin < kminLimit ∧ kminLimit < kmax then kminLimit else kmin
    -- const maxCachedFrames = 30
    let kmin := if wrap (kmax - kmin) > 30 then wrap (kmax - 30) else kmin
    (kmin, kmax)

/-! ### mux.go: the muxer as the encoder sees it -/

/-- `clampDuration` -/
def clampDuration (d : Int) : Int :=
  if d < 0 then 0 else if d > maxDuration then maxDuration else d

/-- One `muxFrame` of the muxer.  `img` is the picture that was handed to the codec and `useAlt`
    says whether the reversed codec's bit stream was the one kept (mixed mode): together they
    determine `muxFrame.data` (`EFrame.payload`).  The frame's size on the canvas is the size of
    `img` (the muxer reads it back from the bit stream). -/
structure EFrame where
  offX : Int
  offY : Int
  /-- `BlendMode == BlendNone` -/
  blendNone : Bool
  /-- `DisposeMode == DisposeBackground` -/
  disposeBG : Bool
  /-- `FrameOptions.Duration` -/
  dur : Int
  img : SubImage
  useAlt : Bool
  deriving DecidableEq, Repr, Inhabited

/-- the frame's rectangle on the canvas -/
def EFrame.rect (f : EFrame) : Rect := ⟨f.offX, f.offY, f.offX + f.img.w, f.offY + f.img.h⟩

/-- calls the encoder makes on its muxer -/
inductive MuxOp where
  /-- `muxer.AddFrame(data, &FrameOptions{…})` (duration not yet clamped) -/
  | addFrame (f : EFrame)
  /-- `muxer.SetFrameDisposeMode(idx, DisposeBackground)` -/
  | setDisposeBG (idx : Int)
  /-- `muxer.SetFrameDuration(idx, d)` -/
  | setDuration (idx : Int) (d : Int)
  deriving DecidableEq, Repr, Inhabited

namespace Mux

/-- `(*Muxer).AddFrame`: the duration is clamped -/
def addFrame (fs : List EFrame) (f : EFrame) : List EFrame :=
  fs ++ [{ f with dur := clampDuration f.dur }]

/-- `(*Muxer).SetFrameDisposeMode(index, DisposeBackground)` -/
def setFrameDisposeBG (fs : List EFrame) (idx : Int) : List EFrame :=
  if 0 ≤ idx ∧ idx < fs.length then fs.modify idx.toNat (fun f => { f with disposeBG := true }) else fs

/-- `(*Muxer).SetFrameDuration` -/
def setFrameDuration (fs : List EFrame) (idx : Int) (d : Int) : List EFrame :=
  if 0 ≤ idx ∧ idx < fs.length then fs.modify idx.toNat (fun f => { f with dur := clampDuration d }) else fs

/-- `(*Muxer).FrameDuration` -/
def frameDuration (fs : List EFrame) (idx : Int) : Int :=
  if 0 ≤ idx ∧ idx < fs.length then (fs.getD idx.toNat default).dur else 0

/-- `(*Muxer).NumFrames` -/
def numFrames (fs : List EFrame) : Int := fs.length

def apply (fs : List EFrame) : MuxOp → List EFrame
  | .addFrame f => addFrame fs f
  | .setDisposeBG idx => setFrameDisposeBG fs idx
  | .setDuration idx d => setFrameDuration fs idx d

def applyAll (fs : List EFrame) (ops : List MuxOp) : List EFrame := ops.foldl apply fs

end Mux

/-! ### findChangedRect -/

/-- `for i := i0; i < i0+n; i++ { if hit(i) { return i } }; return dflt` -/
def scanUp (hit : Nat → Bool) (dflt : Nat) : Nat → Nat → Nat
  | 0, _ => dflt
  | n + 1, i => if hit i then i else scanUp hit dflt n (i + 1)

/-- `for i := lo+n-1; i >= lo; i-- { if hit(i) { return i+1 } }; return dflt` -/
def scanDown (hit : Nat → Bool) (dflt lo : Nat) : Nat → Nat
  | 0 => dflt
  | n + 1 => if hit (lo + n) then lo + n + 1 else scanDown hit dflt lo n

/-- the four byte comparisons of the X scans: pixel `(x,y)` differs -/
@[inline] def pxDiff (w : Nat) (p c : Canvas) (x y : Nat) : Bool := p.px (y * w + x) != c.px (y * w + x)

/-- `!bytes.Equal(prev.Pix[off:off+rowLen], curr.Pix[off:off+rowLen])` -/
def rowDiff (w : Nat) (p c : Canvas) (y : Nat) : Bool := (List.range w).any fun x => pxDiff w p c x y

/-- the `for y := minY; y < maxY; y++` loop of `findChangedRect` (progressive narrowing):
    `n` rows remain, the next one is `y`; state `(minX, maxX)` -/
def narrowRows (w : Nat) (p c : Canvas) : Nat → Nat → Nat × Nat → Nat × Nat
  | 0, _, s => s
  | n + 1, y, (minX, maxX) =>
    -- Scan left, only up to current minX.
    let minX := scanUp (fun x => pxDiff w p c x y) minX minX 0
    -- Scan right, only beyond current maxX.
    let maxX := scanDown (fun x => pxDiff w p c x y) maxX maxX (w - maxX)
    -- Early exit: we've found the widest possible range.
    if minX = 0 ∧ maxX = w then (minX, maxX)
    else narrowRows w p c n (y + 1) (minX, maxX)

/-- `findChangedRect(prev, curr)` for two `w×h` canvases -/
def findChangedRect (w h : Nat) (p c : Canvas) : Rect :=
  if w = 0 ∨ h = 0 then Rect.zero
  else
    -- Find top boundary: first changed row.
    let minY := scanUp (rowDiff w p c) h h 0
    if minY = h then Rect.zero   -- identical
    else
      -- Find bottom boundary: last changed row.
      let maxY := scanDown (rowDiff w p c) (minY + 1) (minY + 1) (h - (minY + 1))
      -- Find X boundaries within changed rows (progressive narrowing).
      let s := narrowRows w p c (maxY - minY) minY (w, 0)
      if s.2 ≤ s.1 then Rect.zero
      else mkRect s.1 minY s.2 maxY

/-- `snapToEven`: `& 1` is `% 2`, `&^ 1` is `x - x % 2` -/
def snapToEven (r : Rect) : Rect :=
  let w := (r.maxX - r.minX) + r.minX % 2
  let h := (r.maxY - r.minY) + r.minY % 2
  let minX := r.minX - r.minX % 2
  let minY := r.minY - r.minY % 2
  mkRect minX minY (minX + w) (minY + h)

/-- the rectangle of one candidate: `findChangedRect`, the 1×1 replacement of an empty
    rectangle, `snapToEven`, `Intersect` with the canvas -/
def candidateRect (w h : Nat) (base curr : Canvas) : Rect :=
  let r := findChangedRect w h base curr
  let r := if r.empty then mkRect 0 0 1 1 else r
  (snapToEven r).intersect (canvasRect w h)

/-! ### blend predicates -/

/-- `for y := rect.Min.Y; y < rect.Max.Y; y++ { for x := rect.Min.X; x < rect.Max.X; x++ {
      if !ok(x,y) { return false } } }; return true` -/
def rectAll (r : Rect) (ok : Int → Int → Bool) : Bool :=
  (List.range (r.maxY - r.minY).toNat).all fun j =>
    (List.range (r.maxX - r.minX).toNat).all fun i => ok (r.minX + (i : Int)) (r.minY + (j : Int))

/-- `isLosslessBlendingPossible(src, dst, rect)` -/
def isLosslessBlendingPossible (w h : Nat) (src dst : Canvas) (rect : Rect) : Bool :=
  rectAll rect fun x y =>
    let srcPx := nrgbaAt w h src x y
    let dstPx := nrgbaAt w h dst x y
    !(dstPx.a != 255 && srcPx != dstPx)

/-- `qualityToMaxDiff(quality)` for `0 ≤ quality ≤ 100`.  The Go code computes
    `int(31*(1-v) + v + 0.5)` with `v = math.Pow(quality/100, 0.5)` in float64, i.e.
    `⌊31.5 − 3·√quality⌋`: the largest `n ≤ 31` with `36·quality ≤ (63 − 2n)²`.  `31.5 − 3√q` is
    never an integer (`36q` is even, `(2k+1)²` odd), so floating-point rounding cannot change the
    result; the harness compares all 101 values with the Go function. -/
def qualityToMaxDiff (quality : Nat) : Int :=
  ((List.range 32).foldl (fun best n => if 36 * quality ≤ (63 - 2 * n) * (63 - 2 * n) then n else best) 0 : Nat)

/-- the closure `abs` of `pixelsAreSimilar` -/
def absDiff (a b : UInt8) : Int :=
  let d : Int := (a.toNat : Int) - (b.toNat : Int)
  if d < 0 then -d else d

/-- `pixelsAreSimilar(src, dst, maxAllowedDiff)` -/
def pixelsAreSimilar (src dst : Px) (maxAllowedDiff : Int) : Bool :=
  if src.a != dst.a then false
  else
    let dstA : Int := (dst.a.toNat : Int)
    let threshold := maxAllowedDiff * 255
    decide (absDiff src.r dst.r * dstA ≤ threshold) &&
    decide (absDiff src.g dst.g * dstA ≤ threshold) &&
    decide (absDiff src.b dst.b * dstA ≤ threshold)

/-- `isLossyBlendingPossible(src, dst, rect, quality)` -/
def isLossyBlendingPossible (w h : Nat) (src dst : Canvas) (rect : Rect) (quality : Nat) : Bool :=
  let maxDiff := qualityToMaxDiff quality
  rectAll rect fun x y =>
    let srcPx := nrgbaAt w h src x y
    let dstPx := nrgbaAt w h dst x y
    !(dstPx.a != 255 && !pixelsAreSimilar srcPx dstPx maxDiff)

/-! ### sub-images -/

/-- `extractSubImage(src, rect)` for a rectangle inside the `cw`-wide canvas -/
def extractSubImage (cw : Nat) (src : Canvas) (rect : Rect) : SubImage :=
  let w := rect.maxX - rect.minX
  let h := rect.maxY - rect.minY
  if w ≤ 0 ∨ h ≤ 0 then ⟨1, 1, #[Px.zero]⟩
  else
    ⟨w.toNat, h.toNat, Array.ofFn (n := w.toNat * h.toNat) fun i =>
      src.px ((rect.minY.toNat + i.val / w.toNat) * cw + (rect.minX.toNat + i.val % w.toNat))⟩

/-- what `clearBlendedTranslucent` does to one pixel -/
@[inline] def clearPx (p : Px) : Px := if p.a != 0 && p.a != 255 then Px.zero else p

/-- `clearBlendedTranslucent(sub)` -/
def clearBlendedTranslucent (s : SubImage) : SubImage := { s with px := ⟨s.px.toList.map clearPx⟩ }

/-- `isCanvasIdentical(a, b)` for two non-nil canvases: `bytes.Equal(a.Pix, b.Pix)` -/
@[inline] def isCanvasIdentical (a b : Canvas) : Bool := a == b

/-! ### the encoder -/

/-- today's three repairs can be switched back to the pinned behaviour -/
structure Pins where
  /-- pinned: no `clearBlendedTranslucent` -/
  blend : Bool := false
  /-- pinned: `increasePreviousDuration` does not update `prevFrameRect` -/
  filler : Bool := false
  /-- pinned: `encodeFrameForAnimation` drops the ALPH payload of lossy frames -/
  alpha : Bool := false
  deriving DecidableEq, Repr, Inhabited

/-- the code as it is now -/
def Pins.none : Pins := {}

/-- immutable part of `AnimEncoder` after `NewEncoder` -/
structure Config where
  w : Nat
  h : Nat
  /-- `opts.Lossless` -/
  lossless : Bool
  /-- `opts.AllowMixed` -/
  allowMixed : Bool
  /-- `opts.Quality` (0..100) -/
  quality : Nat
  /-- `opts.Kmax` after `sanitizeKeyframeOptions` -/
  kmax : Int
  /-- `opts.LoopCount` after `clampLoopCount` -/
  loop : Int
  pins : Pins := {}
  deriving DecidableEq, Repr, Inhabited

/-- `NewEncoder(w, cw, ch, opts)`: `none` is the `nil` result for invalid canvas sizes -/
def newEncoder (cw ch : Int) (lossless allowMixed : Bool) (quality : Nat) (kmin kmax loop : Int)
    (pins : Pins := {}) : Option Config :=
  if cw ≤ 0 ∨ ch ≤ 0 ∨ cw > maxCanvasDimension ∨ ch > maxCanvasDimension then none
  else some { w := cw.toNat, h := ch.toNat, lossless, allowMixed, quality,
              kmax := (sanitizeKeyframeOptions kmin kmax).2, loop := clampLoopCount loop, pins }

/-- mutable part of `AnimEncoder` plus the muxer's frame list -/
structure EncState where
  /-- `e.prevCanvas` (meaningless while `frameCount = 0`, where Go holds `nil`) -/
  prevCanvas : Canvas
  /-- `e.prevFrameRect` -/
  prevRect : Rect
  /-- `e.prevMuxIndex` -/
  prevMuxIndex : Int
  /-- `e.countSinceKeyframe` -/
  countSinceKeyframe : Int
  /-- `e.frameCount` -/
  frameCount : Int
  /-- `e.muxer.frames` -/
  frames : List EFrame
  deriving DecidableEq, Repr, Inhabited

def EncState.init : EncState :=
  { prevCanvas := #[], prevRect := Rect.zero, prevMuxIndex := 0, countSinceKeyframe := 0,
    frameCount := 0, frames := [] }

/-- the size comparisons of one `AddFrame` call -/
structure StepOracle where
  /-- `encodeFrame(currCanvas)`: `len(bsAlt) < len(bs)` (first frame, key frame, 90 % fall-back) -/
  altKey : Bool
  /-- `encodeFrame(subImgNone)`: `len(bsAlt) < len(bs)` -/
  altNone : Bool
  /-- `encodeFrame(subImgBG)`: `len(bsAlt) < len(bs)` -/
  altBG : Bool
  /-- `encodeFrame(fillerImg)`: `len(bsAlt) < len(bs)` -/
  altFiller : Bool
  /-- `len(bsBG) < len(bsNone)` -/
  useBG : Bool
  /-- `len(bsKey) < len(bestBS)` -/
  keySmaller : Bool
  deriving DecidableEq, Repr, Inhabited

/-- `encodeFrame`: with `AllowMixed` the reversed codec's bit stream is kept when it is smaller -/
@[inline] def pickAlt (cfg : Config) (altSmaller : Bool) : Bool := cfg.allowMixed && altSmaller

/-- commit a list of muxer calls -/
@[inline] def commit (st : EncState) (ops : List MuxOp) : List EFrame := Mux.applyAll st.frames ops

/-- the frame of the first-frame path and of `encodeKeyframe`: the whole canvas, blend off -/
def keyFrame (cfg : Config) (curr : Canvas) (durMs : Int) (o : StepOracle) : EFrame :=
  { offX := 0, offY := 0, blendNone := true, disposeBG := false, dur := durMs,
    img := ⟨cfg.w, cfg.h, curr⟩, useAlt := pickAlt cfg o.altKey }

/-- first frame and `encodeKeyframe(currCanvas, durMS)`: a full-canvas frame, blend off -/
def encodeKeyframe (cfg : Config) (st : EncState) (curr : Canvas) (durMs : Int) (o : StepOracle) :
    EncState × List MuxOp :=
  let ops := [MuxOp.addFrame (keyFrame cfg curr durMs o)]
  let frames := commit st ops
  ({ prevCanvas := curr                                  -- cloneNRGBA(currCanvas)
     prevRect := canvasRect cfg.w cfg.h
     prevMuxIndex := Mux.numFrames frames - 1
     countSinceKeyframe := 0
     frameCount := st.frameCount + 1
     frames := frames }, ops)

/-- the 1×1 transparent filler frame of `increasePreviousDuration`, blend on -/
def fillerFrame (cfg : Config) (remainder : Int) (o : StepOracle) : EFrame :=
  { offX := 0, offY := 0, blendNone := false, disposeBG := false, dur := remainder,
    img := ⟨1, 1, #[Px.zero]⟩, useAlt := pickAlt cfg o.altFiller }

/-- `increasePreviousDuration(durMS)` -/
def increasePreviousDuration (cfg : Config) (st : EncState) (durMs : Int) (o : StepOracle) :
    EncState × List MuxOp :=
  let prevDur := Mux.frameDuration st.frames st.prevMuxIndex
  let newDur := wrap (prevDur + durMs)
  if newDur < maxDuration then
    -- Common case: just extend the previous frame's duration.
    let ops := [MuxOp.setDuration st.prevMuxIndex newDur]
    ({ st with frames := commit st ops }, ops)
  else
    -- Overflow: cap the previous frame and emit a 1x1 transparent filler frame.
    let remainder := wrap (newDur - maxDuration)
    let ops := [MuxOp.setDuration st.prevMuxIndex maxDuration,
                MuxOp.addFrame (fillerFrame cfg remainder o)]
    let frames := commit st ops
    ({ st with
       prevMuxIndex := Mux.numFrames frames - 1
       prevRect := if cfg.pins.filler then st.prevRect else mkRect 0 0 1 1
       frameCount := st.frameCount + 1
       countSinceKeyframe := st.countSinceKeyframe + 1
       frames := frames }, ops)

/-- blend decision of one candidate: `true` = `BlendAlpha` -/
def blendPossible (cfg : Config) (base curr : Canvas) (rect : Rect) : Bool :=
  if cfg.lossless then isLosslessBlendingPossible cfg.w cfg.h base curr rect
  else isLossyBlendingPossible cfg.w cfg.h base curr rect cfg.quality

/-- sub-image of one candidate: `extractSubImage` and, when it will be blended,
    `clearBlendedTranslucent` -/
def candidateImage (cfg : Config) (curr : Canvas) (rect : Rect) (blend : Bool) : SubImage :=
  let sub := extractSubImage cfg.w curr rect
  if blend && !cfg.pins.blend then clearBlendedTranslucent sub else sub

/-- the frame of one candidate of `encodeSubFrame`; `base` is the canvas the sub-frame will be
    drawn on (the previous canvas, or the previous canvas with the previous frame's rectangle
    cleared): rectangle, blend decision, (cleared) sub-image, mixed-codec choice -/
def candFrame (cfg : Config) (base curr : Canvas) (durMs : Int) (altSmaller : Bool) : EFrame :=
  let rect := candidateRect cfg.w cfg.h base curr
  let blend := blendPossible cfg base curr rect
  { offX := rect.minX, offY := rect.minY, blendNone := !blend, disposeBG := false, dur := durMs,
    img := candidateImage cfg curr rect blend, useAlt := pickAlt cfg altSmaller }

/-- `prevDisposedCanvas`: the previous canvas with the previous frame's rectangle cleared -/
def prevDisposed (cfg : Config) (st : EncState) : Canvas :=
  fillRect cfg.w cfg.h st.prevCanvas st.prevRect Px.zero

/-- `bestRect`: the rectangle of the chosen candidate (`useBG := len(bsBG) < len(bsNone)`) -/
def bestRect (cfg : Config) (st : EncState) (curr : Canvas) (o : StepOracle) : Rect :=
  if o.useBG then candidateRect cfg.w cfg.h (prevDisposed cfg st) curr
  else candidateRect cfg.w cfg.h st.prevCanvas curr

/-- the 90 % rule: `changedArea > canvasArea*9/10` and `len(bsKey) < len(bestBS)` -/
def keyFallback (cfg : Config) (best : Rect) (o : StepOracle) : Bool :=
  let canvasArea : Int := (cfg.w : Int) * (cfg.h : Int)
  let changedArea := (best.maxX - best.minX) * (best.maxY - best.minY)
  decide (changedArea > canvasArea * 9 / 10) && o.keySmaller

/-- `encodeSubFrame(currCanvas, durMS)` -/
def encodeSubFrame (cfg : Config) (st : EncState) (curr : Canvas) (durMs : Int) (o : StepOracle) :
    EncState × List MuxOp :=
  -- Candidate 1 (DISPOSE_NONE on the previous frame) is built on `st.prevCanvas`,
  -- candidate 2 (DISPOSE_BACKGROUND) on `prevDisposed cfg st`; see `candFrame`.
  -- If the changed area is very large, a full-canvas key frame when it is smaller:
  if keyFallback cfg (bestRect cfg st curr o) o then
    encodeKeyframe cfg st curr durMs o
  else if o.useBG then
    -- retroactively update the previous frame's dispose method, then add the frame
    let ops := [MuxOp.setDisposeBG st.prevMuxIndex,
                MuxOp.addFrame (candFrame cfg (prevDisposed cfg st) curr durMs o.altBG)]
    let frames := commit st ops
    ({ st with
       prevCanvas := curr
       prevRect := candidateRect cfg.w cfg.h (prevDisposed cfg st) curr
       prevMuxIndex := Mux.numFrames frames - 1
       frameCount := st.frameCount + 1
       frames := frames }, ops)
  else
    let ops := [MuxOp.addFrame (candFrame cfg st.prevCanvas curr durMs o.altNone)]
    let frames := commit st ops
    ({ st with
       prevCanvas := curr
       prevRect := candidateRect cfg.w cfg.h st.prevCanvas curr
       prevMuxIndex := Mux.numFrames frames - 1
       frameCount := st.frameCount + 1
       frames := frames }, ops)

/-- **one `AddFrame` call** (`addOptimizedFrame` after canvas placement): the state machine -/
def step (cfg : Config) (st : EncState) (curr : Canvas) (durMs : Int) (o : StepOracle) :
    EncState × List MuxOp :=
  if st.frameCount = 0 then
    -- First frame is always a full-canvas keyframe.
    encodeKeyframe cfg st curr durMs o
  else if isCanvasIdentical st.prevCanvas curr then
    increasePreviousDuration cfg st durMs o
  else
    let st := { st with countSinceKeyframe := st.countSinceKeyframe + 1 }
    -- forceKeyframe := e.countSinceKeyframe >= e.opts.Kmax
    if st.countSinceKeyframe ≥ cfg.kmax then encodeKeyframe cfg st curr durMs o
    else encodeSubFrame cfg st curr durMs o

/-- `AddFrame(img, duration)` with `durMs = int(duration / time.Millisecond)` -/
def addFrame (cfg : Config) (st : EncState) (img : SubImage) (durMs : Int) (o : StepOracle) :
    EncState × List MuxOp :=
  step cfg st (placeOnCanvas cfg.w cfg.h img) durMs o

/-- all `AddFrame` calls in order (`oracle i` belongs to call `i`) -/
def runFrom (cfg : Config) (oracle : Nat → StepOracle) :
    Nat → EncState → List (SubImage × Int) → EncState
  | _, st, [] => st
  | i, st, (img, d) :: rest => runFrom cfg oracle (i + 1) (addFrame cfg st img d (oracle i)).1 rest

def run (cfg : Config) (oracle : Nat → StepOracle) (inputs : List (SubImage × Int)) : EncState :=
  runFrom cfg oracle 0 EncState.init inputs

/-- what `Close` writes, as the demuxer will see it -/
structure Output where
  w : Nat
  h : Nat
  /-- ANIM loop count (`0` for a still image, which has no ANIM chunk) -/
  loop : Int
  /-- `true`: the single-frame still-image shortcut was taken -/
  still : Bool
  frames : List EFrame
  deriving DecidableEq, Repr, Inhabited

/-- the single frame the demuxer reports for a plain still image of `canvas`: no offset, no
    ANMF flags (blend = alpha, dispose = none), no duration -/
def stillFrame (cfg : Config) (canvas : Canvas) : EFrame :=
  { offX := 0, offY := 0, blendNone := false, disposeBG := false, dur := 0,
    img := ⟨cfg.w, cfg.h, canvas⟩, useAlt := false }

/-- `Close()`: with exactly one frame the picture is also encoded as a plain still image
    (`SimpleEncodeFunc(e.prevCanvas, Lossless, Quality)`, the configured codec, never mixed) and
    the smaller file is written (`stillSmaller` = `len(simpleData) < len(animData)`). -/
def close (cfg : Config) (st : EncState) (stillSmaller : Bool) : Output :=
  if st.frameCount = 1 ∧ stillSmaller then
    { w := cfg.w, h := cfg.h, loop := 0, still := true,
      frames := [stillFrame cfg st.prevCanvas] }
  else
    { w := cfg.w, h := cfg.h, loop := cfg.loop, still := false, frames := st.frames }

/-- `NewEncoder`-configured encoder fed with `inputs`, then `Close`.  `none`: nothing to write
    (`Assemble` fails without frames) or the muxer's frame limit was exceeded (an `AddFrame`
    returned an error). -/
def encodeAll (cfg : Config) (oracle : Nat → StepOracle) (stillSmaller : Bool)
    (inputs : List (SubImage × Int)) : Option Output :=
  let st := run cfg oracle inputs
  if st.frames.isEmpty ∨ st.frames.length > maxFrames then none
  else some (close cfg st stillSmaller)

/-! ### webp.go / mux.go: from picture to bytes and back -/

/-- the frame codec: the VP8L and VP8(+ALPH) encoders and decoders at the configured quality -/
structure Codec where
  /-- `encodeLossless(img, opts)` -/
  encLossless : SubImage → Bytes
  /-- `encodeLossyWithAlpha(img, opts)`: VP8 bit stream and ALPH payload (empty for an opaque picture) -/
  encLossy : SubImage → Bytes × Bytes
  /-- `decodeLossless(data)` as NRGBA -/
  decLossless : Bytes → SubImage
  /-- `decodeLossy(data, alphaData)` as NRGBA (`alphaData` empty: no alpha plane, all opaque) -/
  decLossy : Bytes → Bytes → SubImage

/-- the bytes `'A','L','P','H'` (literal, so that the kernel can compute with them) -/
def alphTag : Bytes := [0x41, 0x4c, 0x50, 0x48]

/-- `FourCCALPH`: `"ALPH"` read as a little-endian `uint32` -/
def fourCCALPH : Nat := 0x48504c41

/-- `"ALPH" + le32(len(alpha)) + alpha + pad + bs` -/
def alphPrefixed (alpha bs : Bytes) : Bytes :=
  alphTag ++ putLE32 alpha.length ++ alpha ++ (if alpha.length % 2 ≠ 0 then [0] else []) ++ bs

/-- `encodeFrameForAnimation(img, isLossless, quality)`; `pinAlpha`: the pinned code
    (`encodeLossy`, which threw the ALPH payload away) -/
def encodeFrameForAnimation (pinAlpha : Bool) (c : Codec) (isLossless : Bool) (img : SubImage) : Bytes :=
  if isLossless then c.encLossless img
  else
    let r := c.encLossy img
    if pinAlpha ∨ r.2.length = 0 then r.1 else alphPrefixed r.2 r.1

/-- `muxFrame.data` of an emitted frame -/
def EFrame.payload (cfg : Config) (c : Codec) (f : EFrame) : Bytes :=
  -- FrameEncoderFunc(img, lossless) or, when the reversed codec won, FrameEncoderFunc(img, !lossless)
  encodeFrameForAnimation cfg.pins.alpha c (if f.useAlt then !cfg.lossless else cfg.lossless) f.img

/-- `splitAlphaAndBitstream(data)` -/
def splitAlphaAndBitstream (data : Bytes) : Option Bytes × Bytes :=
  if data.length ≥ 8 ∧ le32 data 0 = fourCCALPH then
    let alphSize := le32 data 4
    let alphEnd := 8 + alphSize
    if alphEnd ≤ data.length then
      let alphaData := (data.take alphEnd).drop 8
      -- Skip padding byte if needed.
      let rest := if alphSize % 2 ≠ 0 ∧ alphEnd < data.length then alphEnd + 1 else alphEnd
      (some alphaData, data.drop rest)
    else (none, data)
  else (none, data)

/-- `decodeFrameForAnimation(bitstreamData, alphaData)` -/
def decodeFrameForAnimation (c : Codec) (bs : Bytes) (alpha : Bytes) : SubImage :=
  -- isLossless := len(bitstreamData) > 0 && bitstreamData[0] == 0x2f
  match bs with
  | b :: _ => if b = 0x2f then c.decLossless bs else c.decLossy bs alpha
  | [] => c.decLossy bs alpha

/-- a frame's bytes through the container and the decoder: the muxer splits the ALPH prefix off
    and writes `ALPH` and `VP8 `/`VP8L` sub-chunks, the demuxer hands both back
    (`FrameInfo.AlphaData`, `FrameInfo.Data`; property C14), `DecodeFrames` calls
    `FrameDecoderFunc(f.BitstreamData, f.AlphaData)` -/
def decodeFrame (c : Codec) (payload : Bytes) : SubImage :=
  let s := splitAlphaAndBitstream payload
  decodeFrameForAnimation c s.2 (s.1.getD [])

/-- the frame as `animation.DecodeBytes` + `DecodeFrames` present it to playback.  `hasAlpha`
    (not used by the specification of playback) is set when some decoded pixel is not opaque. -/
def EFrame.played (cfg : Config) (c : Codec) (f : EFrame) : Frame :=
  let img := decodeFrame c (f.payload cfg c)
  { offX := f.offX, offY := f.offY, fw := img.w, fh := img.h, px := img.px,
    blendNone := f.blendNone, disposeBG := f.disposeBG, hasAlpha := img.px.any (fun p => p.a != 255) }

/-- read, decode all frames, reconstruct the canvases in order -/
def playback (cfg : Config) (c : Codec) (out : Output) : List Canvas :=
  Webp.Spec.Anim.play out.w out.h (out.frames.map (EFrame.played cfg c))

/-! ### comparing pictures -/

/-- "equal, or both fully transparent" -/
@[inline] def pxEqv (a b : Px) : Bool := a == b || (a.a == 0 && b.a == 0)

/-- "same alpha" -/
@[inline] def pxAlphaEq (a b : Px) : Bool := a.a == b.a

/-- two `n`-pixel canvases agree pixel by pixel up to `r` -/
def canvasRel (r : Px → Px → Bool) (n : Nat) (a b : Canvas) : Bool :=
  (List.range n).all fun i => r (a.px i) (b.px i)

/-- two pictures agree up to `r`: same size, pixels related -/
def SubImage.Rel (r : Px → Px → Bool) (a b : SubImage) : Prop :=
  a.w = b.w ∧ a.h = b.h ∧ ∀ i, i < b.w * b.h → r (a.at i) (b.at i) = true

/-- consecutive-duplicate removal, one step: append `x` unless it is `e`-equal to the last kept -/
def dedupPush {α : Type} (e : α → α → Bool) (acc : List α) (x : α) : List α :=
  match acc.getLast? with
  | some l => if e l x then acc else acc ++ [x]
  | none => [x]

/-- consecutive-duplicate removal (keeps the first of every run) -/
def dedup {α : Type} (e : α → α → Bool) (l : List α) : List α := l.foldl (dedupPush e) []

/-- the same with display times: the durations of a run are added up -/
def dedupDurPush (e : Canvas → Canvas → Bool) (acc : List (Canvas × Int)) (x : Canvas × Int) :
    List (Canvas × Int) :=
  match acc.getLast? with
  | some l => if e l.1 x.1 then acc.dropLast ++ [(l.1, l.2 + x.2)] else acc ++ [x]
  | none => [x]

def dedupDur (e : Canvas → Canvas → Bool) (l : List (Canvas × Int)) : List (Canvas × Int) :=
  l.foldl (dedupDurPush e) []

/-- two lists agree element by element up to `e` -/
def listRel {α : Type} (e : α → α → Bool) : List α → List α → Bool
  | [], [] => true
  | a :: as, b :: bs => e a b && listRel e as bs
  | _, _ => false

/-! ### codec contracts -/

/-- the pictures the encoder hands to the codec: at least 1×1 and at most 16383×16383 (the limits
    of VP8 and VP8L; `NewEncoder` rejects larger canvases and every sub-image lies inside the
    canvas) -/
def Bounded (img : SubImage) : Prop := 1 ≤ img.w ∧ img.w ≤ 16383 ∧ 1 ≤ img.h ∧ img.h ≤ 16383

/-- both bit streams are well formed as far as the container and `decodeFrameForAnimation` care
    (facts of the VP8L / VP8 formats, property C02) -/
structure CodecWellFormed (c : Codec) : Prop where
  /-- a VP8L bit stream starts with the signature byte `0x2f` -/
  vp8l : ∀ img, Bounded img → ∃ t, c.encLossless img = 0x2f :: t
  /-- a VP8 key frame is not empty and bit 0 of its first byte (the key-frame bit) is 0 -/
  vp8 : ∀ img, Bounded img → ∃ b t, (c.encLossy img).1 = b :: t ∧ b.toNat % 2 = 0
  /-- `uint32(len(alpha))` does not truncate -/
  alphaLen : ∀ img, Bounded img → (c.encLossy img).2.length < 4294967296

/-- **property C01 as a contract**: a lossless frame decodes to the picture that was encoded
    (equal, or both pixels fully transparent) -/
structure CodecLossless (c : Codec) : Prop where
  vp8l : ∀ img, Bounded img → ∃ t, c.encLossless img = 0x2f :: t
  roundtrip : ∀ img, Bounded img → SubImage.Rel pxEqv (c.decLossless (c.encLossless img)) img

/-- **alpha is always coded losslessly** (properties C01/C07 restricted to the alpha channel):
    both codecs return exactly the source alpha plane; colour may change -/
structure CodecAlphaExact (c : Codec) : Prop where
  wf : CodecWellFormed c
  lossless : ∀ img, Bounded img → SubImage.Rel pxAlphaEq (c.decLossless (c.encLossless img)) img
  lossy : ∀ img, Bounded img →
    SubImage.Rel pxAlphaEq (c.decLossy (c.encLossy img).1 (c.encLossy img).2) img

/-- every frame the encoder configured by `cfg` can emit decodes, up to `r`, to the picture that
    was handed to the codec (`alt`: the reversed codec, only possible with `AllowMixed`) -/
def DecodesAll (r : Px → Px → Bool) (cfg : Config) (c : Codec) : Prop :=
  ∀ (img : SubImage) (alt : Bool), Bounded img → (alt = true → cfg.allowMixed = true) →
    SubImage.Rel r (decodeFrame c (encodeFrameForAnimation cfg.pins.alpha c
      (if alt then !cfg.lossless else cfg.lossless) img)) img

/-! ### a small concrete codec (witness that the contracts are satisfiable; used by the driver to
    play animations back and by the counterexample theorems) -/

namespace Toy

def pxBytes (p : Px) : Bytes := [p.r, p.g, p.b, p.a]

/-- "VP8L": `0x2f`, width and height (16 bit each), RGBA; colour of transparent pixels dropped -/
def encLossless (img : SubImage) : Bytes :=
  0x2f :: (putLE16 img.w ++ putLE16 img.h ++
    (List.range (img.w * img.h)).flatMap fun i =>
      let p := img.at i
      if p.a = 0 then [0, 0, 0, 0] else pxBytes p)

/-- "VP8": `0x00`, sizes, RGB with the low nibble dropped; "ALPH": the alpha plane unless opaque -/
def encLossy (img : SubImage) : Bytes × Bytes :=
  let n := img.w * img.h
  (0x00 :: (putLE16 img.w ++ putLE16 img.h ++
      (List.range n).flatMap fun i =>
        let p := img.at i
        [p.r &&& 0xf0, p.g &&& 0xf0, p.b &&& 0xf0]),
   if (List.range n).all (fun i => (img.at i).a = 255) then []
   else (List.range n).map fun i => (img.at i).a)

def decLossless (bs : Bytes) : SubImage :=
  let w := le16 bs 1
  let h := le16 bs 3
  ⟨w, h, Array.ofFn (n := w * h) fun i =>
    ⟨bs.getD (5 + 4 * i.val) 0, bs.getD (5 + 4 * i.val + 1) 0, bs.getD (5 + 4 * i.val + 2) 0,
     bs.getD (5 + 4 * i.val + 3) 0⟩⟩

def decLossy (bs alpha : Bytes) : SubImage :=
  let w := le16 bs 1
  let h := le16 bs 3
  ⟨w, h, Array.ofFn (n := w * h) fun i =>
    ⟨bs.getD (5 + 3 * i.val) 0, bs.getD (5 + 3 * i.val + 1) 0, bs.getD (5 + 3 * i.val + 2) 0,
     if alpha.length = 0 then 255 else alpha.getD i.val 0⟩⟩

def codec : Codec := ⟨encLossless, encLossy, decLossless, decLossy⟩

end Toy

end Webp.Impl.AnimEnc
