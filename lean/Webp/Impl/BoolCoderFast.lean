import Webp.Impl.BoolCoder
/-
  The register-cached variants of the boolean coder, statement by statement (core Lean only):

    writer_bool.go   PutBitBatchPacked  (what `TokenBuffer.EmitTokens` calls): `range_`, `value`, `nbBits` in
                                        locals, written back around `flush` and at the end
    decode_mb.go     fastBit, fastSigned, brLoad, brSync  (what `getCoeffsInline` / `parseIntraModeRow` inline):
                                        `Value`, `Range`, `Bits` in locals `brV`, `brR`, `brB`, written back
                                        by `brLoad` (Value, Bits) and `brSync` (all three)
-/
namespace Webp.Impl.BoolCoder
open Webp.Go (Bytes)

/-! ## `PutBitBatchPacked` -/

/-- the locals `r`, `v`, `nb` and the writer they are flushed through -/
structure BatchSt where
  w : BoolWriter
  r : Nat
  v : Nat
  nb : Int

/-- one iteration of the loop: `bit := data[i*2]`, `prob := int32(data[i*2+1])` -/
def batchStep (s : BatchSt) (bit : UInt8) (prob : UInt8) : BatchSt :=
  if s.w.panicked then s else
  let split := (s.r * prob.toNat) >>> 8
  if bit != 0 && decide (s.r < split + 1) then
    -- `r` negative: `kNorm[r]` panics
    { s with w := { s.w with panicked := true } }
  else
    let v := if bit != 0 then s.v + (split + 1) else s.v
    let r := if bit != 0 then s.r - (split + 1) else split
    if r < 127 then
      let shift := kNorm.getD r 0
      let r := kNewRange.getD r 0
      let v := v <<< shift
      let nb := s.nb + shift
      if nb > 0 then
        -- write back, flush, read back `value` and `nbBits`
        let w := flush { s.w with range := r, value := v, nbBits := nb }
        { w := w, r := r, v := w.value, nb := w.nbBits }
      else { s with r := r, v := v, nb := nb }
    else { s with r := r, v := v }

/-- the loop `for i := 0; i < count; i++` from index `i`, `n` iterations left -/
def batchLoop (data : Bytes) : (n i : Nat) → BatchSt → BatchSt
  | 0, _, s => s
  | n + 1, i, s => batchLoop data n (i + 1) (batchStep s (data.getD (i * 2) 0) (data.getD (i * 2 + 1) 0))

/-- **`PutBitBatchPacked(data, count)`**: nothing for `count ≤ 0`; the bounds hint `data[count*2-1]`
    panics on a short slice -/
def putBitBatchPacked (w : BoolWriter) (data : Bytes) (count : Int) : BoolWriter :=
  if count ≤ 0 then w
  else if w.panicked then w
  else if data.length < 2 * count.toNat then { w with panicked := true }
  else
    let s := batchLoop data count.toNat 0 { w := w, r := w.range, v := w.value, nb := w.nbBits }
    { s.w with range := s.r, value := s.v, nbBits := s.nb }

/-- the `(bit, prob)` pairs packed in `data[2i], data[2i+1]`, `i = from … from+n-1` -/
def unpackFrom (data : Bytes) : (n i : Nat) → List (Bool × Nat)
  | 0, _ => []
  | n + 1, i => (data.getD (i * 2) 0 != 0, (data.getD (i * 2 + 1) 0).toNat) :: unpackFrom data n (i + 1)

def unpack (data : Bytes) (count : Nat) : List (Bool × Nat) := unpackFrom data count 0

/-! ## the inlined reader of decode_mb.go -/

/-- the locals `brV`, `brR`, `brB` next to the `BoolReader` they were taken from -/
structure FastSt where
  br : BoolReader
  v : Nat
  r : Nat
  b : Int

/-- `uint(brB) & 63` -/
def sh63 (b : Int) : Nat := (b % 64).toNat

/-- the normalisation of `fastBit`: `if brR <= 0x7e { brB -= kVP8Log2Range[brR]; brR = kVP8NewRange[brR] }` -/
def fastNorm (bit : Bool) (v1 r1 : Nat) (b : Int) : Bool × Nat × Nat × Int :=
  if r1 ≤ 0x7e then (bit, v1, kNewRange.getD r1 0, b - kNorm.getD r1 0) else (bit, v1, r1, b)

/-- `fastBit(prob, brV, brR, brB)` -/
def fastBit (prob : Nat) (v r : Nat) (b : Int) : Bool × Nat × Nat × Int :=
  let split := wrap32 (r * prob) >>> 8
  let val := wrap32 (v >>> sh63 b)
  let bit : Bool := val > split
  let r1 := if bit then wrap32 (r + 2^32 - (split + 1)) else split
  let v1 := if bit then subU64 v (wrap64 ((split + 1) <<< sh63 b)) else v
  fastNorm bit v1 r1 b

/-- `fastSigned(v, brV, brR, brB)`: answers `(negative?, brV, brR, brB)`; Go returns `(v ^ mask) - mask` -/
def fastSigned (v r : Nat) (b : Int) : Bool × Nat × Nat × Int :=
  let split := r >>> 1
  let val := wrap32 (v >>> sh63 b)
  let mask : Bool := wrap32 (split + 2^32 - val) ≥ 2^31
  let r1 := wrap32 (r + (if mask then 2^32 - 1 else 0)) ||| 1
  let v1 := subU64 v (wrap64 ((if mask then split + 1 else 0) <<< sh63 b))
  (mask, v1, r1, b - 1)

/-- `brLoad(br, brV, brB)`: `br.Value = brV; br.Bits = brB; br.LoadNewBytes(); return br.Value, br.Bits` -/
def brLoad (s : FastSt) : FastSt :=
  let br := loadNewBytes { s.br with value := s.v, bits := s.b }
  { s with br := br, v := br.value, b := br.bits }

/-- `brSync(br, brV, brR, brB)` -/
def brSync (s : FastSt) : BoolReader := { s.br with value := s.v, range := s.r, bits := s.b }

/-- taking the registers into locals (`brV := br.Value` …) -/
def fastOpen (br : BoolReader) : FastSt := { br := br, v := br.value, r := br.range, b := br.bits }

/-- `if brB < 0 { brV, brB = brLoad(br, brV, brB) }; bit, brV, brR, brB = fastBit(prob, brV, brR, brB)` -/
def fastBitStep (s : FastSt) (prob : Nat) : Bool × FastSt :=
  let s := if s.b < 0 then brLoad s else s
  let q := fastBit prob s.v s.r s.b
  (q.1, { s with v := q.2.1, r := q.2.2.1, b := q.2.2.2 })

/-- the same with `fastSigned` -/
def fastSignedStep (s : FastSt) : Bool × FastSt :=
  let s := if s.b < 0 then brLoad s else s
  let q := fastSigned s.v s.r s.b
  (q.1, { s with v := q.2.1, r := q.2.2.1, b := q.2.2.2 })

/-- a run of `fastBit` steps, one per probability -/
def fastRun (s : FastSt) : List Nat → List Bool × FastSt
  | [] => ([], s)
  | p :: ps => ((fastBitStep s p).1 :: (fastRun (fastBitStep s p).2 ps).1, (fastRun (fastBitStep s p).2 ps).2)

/-- the same run with `GetBitAlt` on the reader itself -/
def readAltSt (r : BoolReader) : List Nat → List Bool × BoolReader
  | [] => ([], r)
  | p :: ps => ((getBitAlt r p).1 :: (readAltSt (getBitAlt r p).2 ps).1, (readAltSt (getBitAlt r p).2 ps).2)

end Webp.Impl.BoolCoder
