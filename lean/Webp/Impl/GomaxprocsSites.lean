/-
  The audited list of places where deepteams/webp reads `runtime.GOMAXPROCS`, with what the value
  is used for.  Audit result (each line was read in the source): at every site the worker count is
  only (a) clamped to the amount of work, (b) used in a partition formula proved exact in
  `Webp/Props/C12.lean` (`site_*` theorems), (c) passed to a routine that partitions with it, or
  (d) compared with 1 / `> 1 && size >= threshold` to choose between a serial loop and a fan-out of
  the SAME per-element function (argbToNRGBA, inverseTransform cross-colour, computeAlphas —
  `select-equal`).  No site selects between two different algorithms any more (the two that did,
  `lossy.EncodeFrame useParallel` and `HashChain.Fill`, were repaired).
  `Webp/Props/C12Sites.lean` proves that the extractor's view of the current sources equals this
  list: a new site or a changed use breaks the obligation and must be re-audited.
-/
namespace Webp.Impl.GomaxprocsSites


/-- (file:function, statement reading runtime.GOMAXPROCS, uses of the assigned variable) -/
def audited : List (String × String × List String) := [
  ("animation/animation.go:Animation.DecodeFramesParallel", "numWorkers := runtime.GOMAXPROCS(0)", ["cond numWorkers > len(toDecodeIdx)", "numWorkers = len(toDecodeIdx)", "cond w < numWorkers"]),
  ("internal/lossless/decode.go:argbToNRGBA", "numWorkers := runtime.GOMAXPROCS(0)", ["cond numWorkers > 1 && width*height >= minPixelsForParallel", "rowsPerWorker := height / numWorkers", "call wg.Add(… numWorkers …)", "cond w < numWorkers", "cond w == numWorkers-1"]),
  ("internal/lossless/decode_transform.go:inverseTransform", "numWorkers := runtime.GOMAXPROCS(0)", ["cond numWorkers > 1 && numPixels >= minPixelsForParallel", "call colorSpaceInverseTransformParallel(… numWorkers …)"]),
  ("internal/lossless/encode_histogram.go:histogramRemap", "numWorkers := runtime.GOMAXPROCS(0)", ["cond numWorkers > n", "numWorkers = n", "chunk := (n + numWorkers - 1) / numWorkers", "call wg.Add(… numWorkers …)", "cond w < numWorkers"]),
  ("internal/lossless/encode_histogram.go:parallelComputeHistogramCost", "numWorkers := runtime.GOMAXPROCS(0)", ["cond numWorkers > n", "numWorkers = n", "chunk := (n + numWorkers - 1) / numWorkers", "call wg.Add(… numWorkers …)", "cond w < numWorkers"]),
  ("internal/lossless/encode_predictor.go:ResidualImage", "numWorkers := runtime.GOMAXPROCS(0)", ["cond numWorkers > tileYSize", "numWorkers = tileYSize", "call wg.Add(… numWorkers …)", "rowsPerWorker := (tileYSize + numWorkers - 1) / numWorkers", "cond w < numWorkers"]),
  ("internal/lossless/encode_predictor.go:ColorSpaceTransform", "numWorkers := runtime.GOMAXPROCS(0)", ["cond numWorkers > tileYSize", "numWorkers = tileYSize", "call wg.Add(… numWorkers …)", "rowsPerWorker := (tileYSize + numWorkers - 1) / numWorkers", "cond w < numWorkers"]),
  ("internal/lossless/hashchain.go:HashChain.Fill", "numWorkers := runtime.GOMAXPROCS(0)", ["call hc.fillParallel(… numWorkers …)"]),
  ("internal/lossy/encode.go:VP8Encoder.importImage", "nWorkers := runtime.GOMAXPROCS(0) ; nUVWorkers := runtime.GOMAXPROCS(0)", ["cond nWorkers > padH", "nWorkers = padH", "cond wi < nWorkers", "startY := wi * padH / nWorkers", "endY := (wi + 1) * padH / nWorkers", "cond nUVWorkers > halfPadH", "nUVWorkers = halfPadH", "cond wi < nUVWorkers", "startPair := wi * halfPadH / nUVWorkers", "endPair := (wi + 1) * halfPadH / nUVWorkers"]),
  ("internal/lossy/encode_analysis.go:computeAlphas", "numWorkers := runtime.GOMAXPROCS(0)", ["cond numWorkers > total", "numWorkers = total", "cond numWorkers < 1", "numWorkers = 1", "cond numWorkers == 1", "rowsPerWorker := (enc.mbH + numWorkers - 1) / numWorkers", "cond wi < numWorkers"]),
  ("internal/lossy/encode_parallel.go:VP8Encoder.encodeFrameParallel", "numWorkers := runtime.GOMAXPROCS(0)", ["cond numWorkers > 6", "numWorkers = 6", "cond numWorkers > mbH", "numWorkers = mbH", "cond numWorkers < 1", "numWorkers = 1", "ps := getParallelState(numWorkers, mbW, mbH, enc.useDerr)", "call getParallelState(… numWorkers …)", "workers := ps.workers[:numWorkers]", "cond wi < numWorkers"])
]

end Webp.Impl.GomaxprocsSites
