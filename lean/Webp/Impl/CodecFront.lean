import Webp.Go.Basic
import Webp.Spec.VP8.Tables
import Webp.Impl.Alpha
/-
  Implementation model of the VP8 (lossy) decoder *front end*: everything between "the container
  parser hands over a chunk payload" and "the macroblock loop starts", plus the buffer-size
  arithmetic of `initFrame`, the plane slicing of `DecodeFrame` and the row slicing of
  /repo/webp.go `decodeLossy` / `buildYCbCr` / `buildNRGBA`.                       Core Lean only.

  Go                                                   model
  -------------------------------------------------    ------------------------------------------
  bitio.BoolReader (GetBit/GetValue/GetSignedValue/EOF) `BitSrc σ`: an ARBITRARY state machine
                                                        (`new`, `getBit`, `eof`); every theorem
                                                        quantifies over all of them, i.e. over all
                                                        bit strings a partition could decode to.
                                                        `GoBool.src` is the real reader, bit-exact.
  lossy.(*Decoder).parseHeaders                         `parseHeaders`
     frame tag / start code / dimensions                `frameTag`
     parseSegmentHeader, parseFilterHeader              `parseSegmentHeader`, `parseFilterHeader`
     parsePartitions                                    `parsePartitions` (+ `partLoop`)
     ParseQuant, parseProba                             `parseQuant`, `parseProba`
  lossy.(*Decoder).initFrame                            `initFrame` (pooled capacities = arbitrary `Caps`)
  lossy.DecodeFrame                                     `decodeFrame` (macroblock loop = oracle `mbOK`)
  webp.decodeLossy / buildYCbCr / buildNRGBA            `decodeLossy`, `buildYCbCr`, `buildNRGBA`

  Go's partiality is explicit: every `buf[a:b]`, `buf[i]`, table index and re-slice is a checked
  operation that answers `Res.panic` when Go would panic; every `make` goes through `alloc`, which
  (i) records the request in the log `Mem` and (ii) answers the distinguished error `Err.exhaust`
  when a single request exceeds the parameter `memCap` — so "memory is bounded" is a theorem
  (`Props/C05Codec`), not a convention.
-/
namespace Webp.Impl.CodecFront
open Webp.Go

/-! ## errors, allocation log -/

inductive Err where
  | truncated      -- "vp8: truncated header"            len(data) < 4
  | profile        -- "vp8: bad profile"                 3-bit field, values 4..7
  | notShown       -- "vp8: frame not displayable"
  | notKey         -- "vp8: not a keyframe"
  | truncPic       -- "vp8: truncated picture header"
  | signature      -- "vp8: bad signature"
  | zeroDim        -- "vp8: zero dimensions"
  | partLen        -- "vp8: bad partition length"
  | segEOF         -- "vp8: premature EOF in segment header"
  | partTable      -- "vp8: not enough data for partition sizes"
  | partSize       -- "vp8: partition %d size … exceeds remaining data"
  | tooLarge       -- "vp8: frame too large"                     (initFrame, 1<<28 luma bytes)
  | slabTooLarge   -- "vp8: frame buffers too large"             (initFrame, 1<<30 slab bytes)
  | mb             -- any error of the macroblock loop (`parseFrame`), not modelled
  | alpha          -- any error of `DecodeAlpha`
  | exhaust        -- model only: one `make` asked for more than `memCap` bytes
  deriving Repr, DecidableEq, Inhabited

def Err.toString : Err → String
  | .truncated => "truncated" | .profile => "profile" | .notShown => "notshown" | .notKey => "notkey"
  | .truncPic => "truncpic" | .signature => "signature" | .zeroDim => "zerodim" | .partLen => "partlen"
  | .segEOF => "segeof" | .partTable => "parttable" | .partSize => "partsize"
  | .tooLarge => "toolarge" | .slabTooLarge => "slabtoolarge" | .mb => "mb" | .alpha => "alpha"
  | .exhaust => "exhaust"

abbrev R := Res Err

/-- allocation log: bytes requested by each `make`, in program order -/
abbrev Mem := List Nat

/-- `make([]T, n)` with `bytes = n * sizeof(T)`: refused above `memCap`, otherwise logged. -/
@[inline] def alloc (memCap : Nat) (m : Mem) (bytes : Nat) : R Mem :=
  if bytes ≤ memCap then .ok (bytes :: m) else .err .exhaust

/-- Go `s[a:b]` on a slice of length `len` (strict: `b ≤ len`), lengths only. -/
@[inline] def sliceLen (len a b : Nat) : R Nat :=
  if a ≤ b ∧ b ≤ len then .ok (b - a) else .panic

/-- Go `s[:n]` for pooled re-use: legal up to the *capacity*. -/
@[inline] def reslice (cap n : Nat) : R Nat :=
  if n ≤ cap then .ok n else .panic

/-- constant-table index `t[i]` with a Go `int` index -/
@[inline] def tblAt (t : Array Nat) (i : Int) : R Nat :=
  if 0 ≤ i ∧ i.toNat < t.size then .ok (t.getD i.toNat 0) else .panic

/-! ## the boolean reader as an oracle -/

/-- What `parseHeaders` needs from `bitio.BoolReader`: a constructor over a byte slice, one
    decision at a probability, and the sticky EOF flag.  NOTHING is assumed about the three
    functions. -/
structure BitSrc (σ : Type) where
  new : Bytes → σ
  getBit : σ → Nat → Bool × σ
  eof : σ → Bool

variable {σ : Type}

/-- `GetValue(n)`: `for i := n-1; i >= 0; i-- { v |= GetBit(0x80) << i }` (MSB first) -/
def getValue (S : BitSrc σ) : (n : Nat) → σ → (acc : Nat) → Nat × σ
  | 0, s, acc => (acc, s)
  | n + 1, s, acc =>
    let r := S.getBit s 128
    getValue S n r.2 (2 * acc + (if r.1 then 1 else 0))

/-- `GetSignedValue(n)`: magnitude, then a sign decision -/
def getSignedValue (S : BitSrc σ) (n : Nat) (s : σ) : Int × σ :=
  let v := getValue S n s 0
  let r := S.getBit v.2 128
  (if r.1 then - (v.1 : Int) else (v.1 : Int), r.2)

/-- `k` times: `if GetBit(0x80) != 0 { x[i] = GetSignedValue(n) } else { x[i] = 0 }`.
    (parseFilterHeader leaves `x[i]` unchanged in the else branch; `acquireDecoder` resets the
    filter header, so unchanged = 0 there too.) -/
def optSignedN (S : BitSrc σ) (n : Nat) : (k : Nat) → σ → List Int × σ
  | 0, s => ([], s)
  | k + 1, s =>
    let f := S.getBit s 128
    let v := if f.1 then getSignedValue S n f.2 else ((0 : Int), f.2)
    let r := optSignedN S n k v.2
    (v.1 :: r.1, r.2)

/-- `k` times: `if GetBit(0x80) != 0 { p[i] = uint8(GetValue(8)) } else { p[i] = 255 }` -/
def optProbN (S : BitSrc σ) : (k : Nat) → σ → List Nat × σ
  | 0, s => ([], s)
  | k + 1, s =>
    let f := S.getBit s 128
    let v := if f.1 then getValue S 8 f.2 0 else (255, f.2)
    let r := optProbN S k v.2
    (v.1 % 256 :: r.1, r.2)

/-! ## headers -/

structure SegHdr where
  useSegment : Bool := false
  updateMap : Bool := false
  absoluteDelta : Bool := false
  quantizer : List Int := [0, 0, 0, 0]
  filterStrength : List Int := [0, 0, 0, 0]
  /-- `dec.proba.Segments` (255 after `ResetProba`) -/
  probs : List Nat := [255, 255, 255]
  deriving Repr, DecidableEq, Inhabited

structure FilterHdr where
  simple : Bool := false
  level : Nat := 0
  sharpness : Nat := 0
  useLFDelta : Bool := false
  refLFDelta : List Int := [0, 0, 0, 0]
  modeLFDelta : List Int := [0, 0, 0, 0]
  deriving Repr, DecidableEq, Inhabited

structure QuantMatrix where
  y1dc : Nat
  y1ac : Nat
  y2dc : Nat
  y2ac : Nat
  uvdc : Nat
  uvac : Nat
  uvQuant : Int
  deriving Repr, DecidableEq, Inhabited

/-- the 10 uncompressed bytes: frame tag, start code, dimensions -/
structure Tag where
  profile : Nat
  partLen : Nat
  width : Nat
  height : Nat
  xScale : Nat
  yScale : Nat
  /-- `buf` after `buf = buf[7:]`, i.e. `data[10:]` -/
  rest : Bytes
  deriving Repr, DecidableEq, Inhabited

/-- one token partition as `parsePartitions` slices it: absolute offset in `data`, bytes -/
structure Part where
  off : Nat
  bytes : Bytes
  deriving Repr, DecidableEq, Inhabited

structure Hdr where
  tag : Tag
  mbW : Nat
  mbH : Nat
  colorspace : Nat
  clampType : Nat
  seg : SegHdr
  filter : FilterHdr
  /-- 0 = off, 1 = simple, 2 = complex -/
  filterType : Nat
  numPartsMinusOne : Nat
  parts : List Part
  dqm : List QuantMatrix
  /-- 4·8·3·11 coefficient probabilities after `parseProba` -/
  coeffProbs : List Nat
  useSkipProba : Bool
  skipP : Nat
  deriving Repr, Inhabited

/-- Paragraph 9.1/9.2 part of `parseHeaders` (no boolean reader involved). -/
def frameTag (data : Bytes) : R Tag :=
  if data.length < 4 then .err .truncated else do
  let b0 ← idx data 0
  let b1 ← idx data 1
  let b2 ← idx data 2
  let bits := b0.toNat + b1.toNat * 256 + b2.toNat * 65536
  let keyFrame := bits % 2 = 0
  let profile := bits / 2 % 8
  let shown := bits / 16 % 2 ≠ 0
  let partLen := bits / 32
  if profile > 3 then .err .profile
  else if !shown then .err .notShown
  else if !keyFrame then .err .notKey
  else do
  let buf ← sliceFrom data 3
  if buf.length < 7 then .err .truncPic else do
  let s0 ← idx buf 0
  let s1 ← idx buf 1
  let s2 ← idx buf 2
  if s0 ≠ 0x9d ∨ s1 ≠ 0x01 ∨ s2 ≠ 0x2a then .err .signature else do
  let wb ← slice buf 3 5          -- binary.LittleEndian.Uint16(buf[3:5])
  let w0 ← idx wb 0
  let w1 ← idx wb 1
  let b4 ← idx buf 4
  let hb ← slice buf 5 7
  let h0 ← idx hb 0
  let h1 ← idx hb 1
  let b6 ← idx buf 6
  let width := (w0.toNat + w1.toNat * 256) % 16384
  let height := (h0.toNat + h1.toNat * 256) % 16384
  let rest ← sliceFrom buf 7
  if width = 0 ∨ height = 0 then .err .zeroDim
  else .ok { profile, partLen, width, height, xScale := b4.toNat / 64, yScale := b6.toNat / 64, rest }

/-- `parseSegmentHeader` -/
def parseSegmentHeader (S : BitSrc σ) (s : σ) : R (SegHdr × σ) :=
  let u := S.getBit s 128
  let r : SegHdr × σ :=
    if u.1 then
      let m := S.getBit u.2 128
      let d := S.getBit m.2 128
      let h1 : SegHdr × σ :=
        if d.1 then
          let a := S.getBit d.2 128
          let q := optSignedN S 7 4 a.2
          let f := optSignedN S 6 4 q.2
          ({ useSegment := true, updateMap := m.1, absoluteDelta := a.1, quantizer := q.1,
             filterStrength := f.1 }, f.2)
        else ({ useSegment := true, updateMap := m.1 }, d.2)
      if m.1 then
        let p := optProbN S 3 h1.2
        ({ h1.1 with probs := p.1 }, p.2)
      else h1
    else ({}, u.2)
  if S.eof r.2 then .err .segEOF else .ok r

/-- `parseFilterHeader` (also sets `dec.filterType`) -/
def parseFilterHeader (S : BitSrc σ) (s : σ) : (FilterHdr × Nat) × σ :=
  let sm := S.getBit s 128
  let lv := getValue S 6 sm.2 0
  let sh := getValue S 3 lv.2 0
  let ud := S.getBit sh.2 128
  let r : FilterHdr × σ :=
    if ud.1 then
      let up := S.getBit ud.2 128
      if up.1 then
        let rf := optSignedN S 6 4 up.2
        let md := optSignedN S 6 4 rf.2
        ({ simple := sm.1, level := lv.1, sharpness := sh.1, useLFDelta := true,
           refLFDelta := rf.1, modeLFDelta := md.1 }, md.2)
      else ({ simple := sm.1, level := lv.1, sharpness := sh.1, useLFDelta := true }, up.2)
    else ({ simple := sm.1, level := lv.1, sharpness := sh.1 }, ud.2)
  let ft := if r.1.level = 0 then 0 else if r.1.simple then 1 else 2
  ((r.1, ft), r.2)

/-- the loop of `parsePartitions`: `n` more sized partitions; `p` = index into `dec.parts`
    (an array of `MaxNumPartitions = 8`), `sz` the size table, `ps` = `partStart`,
    `off` = offset of `ps` in `data`. -/
def partLoop : (n : Nat) → (p : Nat) → (sz ps : Bytes) → (sizeLeft off : Nat) → (acc : List Part) →
    R (List Part × Bytes × Nat × Nat × Nat)
  | 0, p, _, ps, sizeLeft, off, acc => .ok (acc, ps, sizeLeft, off, p)
  | n + 1, p, sz, ps, sizeLeft, off, acc => do
    let z0 ← idx sz 0
    let z1 ← idx sz 1
    let z2 ← idx sz 2
    let psize := z0.toNat + z1.toNat * 256 + z2.toNat * 65536
    if psize > sizeLeft then .err .partSize else do
    if p ≥ 8 then .panic else do              -- dec.parts[p]
    let part ← slice ps 0 psize               -- partStart[:psize]
    let ps' ← sliceFrom ps psize              -- partStart[psize:]
    let sz' ← sliceFrom sz 3                  -- sz[3:]
    partLoop n (p + 1) sz' ps' (sizeLeft - psize) (off + psize) (acc ++ [{ off, bytes := part }])

/-- `parsePartitions(buf)`; `base` = offset of `buf` in `data`.  The token bool readers are
    created from the returned slices (`S.new`), nothing is read from them here. -/
def parsePartitions (S : BitSrc σ) (s : σ) (buf : Bytes) (base : Nat) : R ((Nat × List Part) × σ) :=
  let v := getValue S 2 s 0
  let numPartsMinusOne := (1 <<< v.1) - 1
  let lastPart := numPartsMinusOne
  if buf.length < 3 * lastPart then .err .partTable else do
  let partStart ← sliceFrom buf (lastPart * 3)
  let r ← partLoop lastPart 0 buf partStart partStart.length (base + lastPart * 3) []
  let (acc, ps, sizeLeft, off, p) := r
  if p ≥ 8 then .panic else do                -- dec.parts[lastPart]
  let last ← slice ps 0 sizeLeft              -- partStart[:sizeLeft]
  .ok ((numPartsMinusOne, acc ++ [{ off, bytes := last }]), v.2)

def clip (v mx : Int) : Int := if v < 0 then 0 else if v > mx then mx else v

/-- `readOptionalSigned(br, 4)` -/
def readOptionalSigned (S : BitSrc σ) (n : Nat) (s : σ) : Int × σ :=
  let f := S.getBit s 128
  if f.1 then getSignedValue S n f.2 else (0, f.2)

/-- the body of the `ParseQuant` loop for one quantiser index `q` -/
def quantMatrix (q d1 d2dc d2ac duvdc duvac : Int) : R QuantMatrix := do
  let y1dc ← tblAt Webp.Spec.VP8.Tables.dcQLookup (clip (q + d1) 127)
  let y1ac ← tblAt Webp.Spec.VP8.Tables.acQLookup (clip q 127)
  let y2dc ← tblAt Webp.Spec.VP8.Tables.dcQLookup (clip (q + d2dc) 127)
  let y2ac ← tblAt Webp.Spec.VP8.Tables.acQLookup (clip (q + d2ac) 127)
  let y2ac' := y2ac * 101581 / 65536
  let uvdc ← tblAt Webp.Spec.VP8.Tables.dcQLookup (clip (q + duvdc) 117)
  let uvac ← tblAt Webp.Spec.VP8.Tables.acQLookup (clip (q + duvac) 127)
  .ok { y1dc, y1ac, y2dc := y2dc * 2, y2ac := if y2ac' < 8 then 8 else y2ac', uvdc, uvac,
        uvQuant := q + duvac }

/-- `ParseQuant` -/
def parseQuant (S : BitSrc σ) (seg : SegHdr) (s : σ) : R (List QuantMatrix × σ) :=
  let b := getValue S 7 s 0
  let baseQ0 : Int := b.1
  let d1 := readOptionalSigned S 4 b.2
  let d2 := readOptionalSigned S 4 d1.2
  let d3 := readOptionalSigned S 4 d2.2
  let d4 := readOptionalSigned S 4 d3.2
  let d5 := readOptionalSigned S 4 d4.2
  let qOf (i : Nat) : Int :=
    if seg.useSegment then
      (if seg.absoluteDelta then seg.quantizer.getD i 0 else seg.quantizer.getD i 0 + baseQ0)
    else baseQ0
  if seg.useSegment then do
    let m0 ← quantMatrix (qOf 0) d1.1 d2.1 d3.1 d4.1 d5.1
    let m1 ← quantMatrix (qOf 1) d1.1 d2.1 d3.1 d4.1 d5.1
    let m2 ← quantMatrix (qOf 2) d1.1 d2.1 d3.1 d4.1 d5.1
    let m3 ← quantMatrix (qOf 3) d1.1 d2.1 d3.1 d4.1 d5.1
    .ok ([m0, m1, m2, m3], d5.2)
  else do
    let m0 ← quantMatrix baseQ0 d1.1 d2.1 d3.1 d4.1 d5.1
    .ok ([m0, m0, m0, m0], d5.2)                  -- dqm[i] = dqm[0]

/-- `parseProba`, the coefficient part: index `i` runs over `[t][b][c][p]` flattened -/
def probaLoop (S : BitSrc σ) : (n : Nat) → (i : Nat) → σ → List Nat × σ
  | 0, _, s => ([], s)
  | n + 1, i, s =>
    let f := S.getBit s (Webp.Spec.VP8.Tables.coeffUpdateProbs.getD i 255)
    let v := if f.1 then
               let x := getValue S 8 f.2 0
               (x.1 % 256, x.2)
             else (Webp.Spec.VP8.Tables.defaultCoeffProbs.getD i 0, f.2)
    let r := probaLoop S n (i + 1) v.2
    (v.1 :: r.1, r.2)

/-- `parseHeaders` -/
def parseHeaders (S : BitSrc σ) (data : Bytes) : R (Hdr × σ) := do
  let tag ← frameTag data
  let mbW := (tag.width + 15) / 16
  let mbH := (tag.height + 15) / 16
  let buf := tag.rest
  if tag.partLen > buf.length then .err .partLen else do
  let p0 ← slice buf 0 tag.partLen           -- buf[:partLen]
  let tokenBuf ← sliceFrom buf tag.partLen   -- buf[partLen:]
  let s := S.new p0
  let cs := S.getBit s 128
  let cl := S.getBit cs.2 128
  let sg ← parseSegmentHeader S cl.2
  let fl := parseFilterHeader S sg.2
  let pt ← parsePartitions S fl.2 tokenBuf (10 + tag.partLen)
  let dq ← parseQuant S sg.1 pt.2
  let up := S.getBit dq.2 128               -- 'update_proba' flag, ignored
  let pr := probaLoop S 1056 0 up.2
  let sk := S.getBit pr.2 128
  let sp := if sk.1 then getValue S 8 sk.2 0 else (0, sk.2)
  .ok ({ tag, mbW, mbH, colorspace := if cs.1 then 1 else 0, clampType := if cl.1 then 1 else 0,
         seg := sg.1, filter := fl.1.1, filterType := fl.1.2, numPartsMinusOne := pt.1.1,
         parts := pt.1.2, dqm := dq.1, coeffProbs := pr.1, useSkipProba := sk.1,
         skipP := sp.1 % 256 }, sp.2)

/-! ## initFrame -/

/-- capacities of the pooled buffers a `Decoder` taken from `lossyDecoderPool` arrives with
    (elements, resp. bytes for the slab) — arbitrary -/
structure Caps where
  yuvT : Nat := 0
  mbInfo : Nat := 0
  fInfo : Nat := 0
  mbData : Nat := 0
  slab : Nat := 0
  deriving Repr, DecidableEq, Inhabited

/-- `unsafe.Sizeof` of the element types (amd64/arm64): TopSamples 32, MB 2, FInfo 4,
    MBData 800 (= 768 + 1 + 16 + 1 + pad 2 + 4 + 4 + 1 + 1 + 1 + pad 1) -/
def szTopSamples : Nat := 32
def szMB : Nat := 2
def szFInfo : Nat := 4
def szMBData : Nat := 800
/-- `YUVSize = BPS*17 + BPS*9`, `BPS = 32` -/
def yuvSize : Nat := 832

/-- lengths of every working buffer after `initFrame` -/
structure Bufs where
  yuvT : Nat
  mbInfo : Nat
  fInfo : Nat
  mbData : Nat
  slab : Nat
  intraT : Nat
  yuvB : Nat
  cacheY : Nat
  cacheU : Nat
  cacheV : Nat
  cacheYStride : Nat
  cacheUVStride : Nat
  deriving Repr, DecidableEq, Inhabited

/-- `if cap(x) >= n { x = x[:n]; clear(x) } else { x = make([]T, n) }` -/
def reuseOrGrow (memCap : Nat) (m : Mem) (cap n elemSize : Nat) : R (Nat × Mem) :=
  if cap ≥ n then do
    let l ← reslice cap n
    .ok (l, m)
  else do
    let m ← alloc memCap m (n * elemSize)
    .ok (n, m)

/-- `initFrame` -/
def initFrame (memCap : Nat) (caps : Caps) (mbW mbH : Nat) (m : Mem) : R (Bufs × Mem) := do
  let (yuvT, m) ← reuseOrGrow memCap m caps.yuvT mbW szTopSamples
  let (mbInfo, m) ← reuseOrGrow memCap m caps.mbInfo (mbW + 1) szMB
  let (fInfo, m) ← reuseOrGrow memCap m caps.fInfo mbW szFInfo
  let (mbData, m) ← reuseOrGrow memCap m caps.mbData mbW szMBData
  let cacheYStride := 16 * mbW
  let cacheUVStride := 8 * mbW
  let totalRows := mbH
  let intraTSize := 4 * mbW
  let yuvBSize := yuvSize
  let cacheYSize := totalRows * 16 * cacheYStride
  let cacheUSize := totalRows * 8 * cacheUVStride
  let cacheVSize := cacheUSize
  if totalRows * 16 * cacheYStride > 2 ^ 28 then .err .tooLarge else
  let slabSize := intraTSize + yuvBSize + cacheYSize + cacheUSize + cacheVSize
  if slabSize > 2 ^ 30 then .err .slabTooLarge else do
  let (slab, m) ← reuseOrGrow memCap m caps.slab slabSize 1
  let off := 0
  let intraT ← sliceLen slab off (off + intraTSize)
  let off := off + intraTSize
  let yuvB ← sliceLen slab off (off + yuvBSize)
  let off := off + yuvBSize
  let cacheY ← sliceLen slab off (off + cacheYSize)
  let off := off + cacheYSize
  let cacheU ← sliceLen slab off (off + cacheUSize)
  let off := off + cacheUSize
  let cacheV ← sliceLen slab off (off + cacheVSize)
  .ok ({ yuvT, mbInfo, fInfo, mbData, slab, intraT, yuvB, cacheY, cacheU, cacheV,
         cacheYStride, cacheUVStride }, m)

/-! ## DecodeFrame -/

/-- what `DecodeFrame` returns (lengths of the plane slices) -/
structure Planes where
  width : Nat
  height : Nat
  yLen : Nat
  yStride : Nat
  uLen : Nat
  vLen : Nat
  uvStride : Nat
  deriving Repr, DecidableEq, Inhabited

/-- `DecodeFrame`; `mbOK` = "parseFrame returned nil" (the macroblock loop is not modelled; it
    changes no slice length). -/
def decodeFrame (S : BitSrc σ) (memCap : Nat) (caps : Caps) (data : Bytes) (mbOK : Bool) :
    R ((Hdr × Bufs × Planes) × Mem) := do
  let (h, _) ← parseHeaders S data
  let width := h.tag.width
  let height := h.tag.height
  let (b, m) ← initFrame memCap caps h.mbW h.mbH []
  if !mbOK then .err .mb else do
  let yStride := b.cacheYStride
  let uvStride := b.cacheUVStride
  let yLen ← sliceLen b.cacheY 0 (height * yStride)
  let uLen ← sliceLen b.cacheU 0 ((height + 1) / 2 * uvStride)
  let vLen ← sliceLen b.cacheV 0 ((height + 1) / 2 * uvStride)
  .ok ((h, b, { width, height, yLen, yStride, uLen, vLen, uvStride }), m)

/-! ## webp.go: buildYCbCr / buildNRGBA -/

/-- an image handed back to the caller: `Rect = (0,0)-(w,h)` and the backing lengths/strides -/
inductive Img where
  /-- `*image.YCbCr`, 4:2:0 -/
  | ycbcr (w h yLen cbLen crLen yStride cStride : Nat)
  /-- `*image.NRGBA` -/
  | nrgba (w h pixLen stride : Nat)
  /-- the typed-nil `*image.YCbCr` `buildYCbCr` returns above `1<<30` bytes (with a nil error!) -/
  | nilYCbCr
  deriving Repr, DecidableEq, Inhabited

/-- `buildYCbCr` -/
def buildYCbCr (memCap : Nat) (p : Planes) (m : Mem) : R (Img × Mem) :=
  let chromaH := (p.height + 1) / 2
  let yLen := p.height * p.yStride
  let cLen := chromaH * p.uvStride
  if yLen + 2 * cLen > 2 ^ 30 then .ok (.nilYCbCr, m) else do
  let m ← alloc memCap m (yLen + 2 * cLen)
  let bufLen := yLen + 2 * cLen
  let _ ← sliceLen bufLen 0 yLen                      -- buf[:yLen]
  let _ ← sliceLen p.yLen 0 yLen                      -- yPlane[:yLen]
  let _ ← sliceLen bufLen yLen (yLen + cLen)          -- buf[yLen:yLen+cLen]
  let _ ← sliceLen p.uLen 0 cLen                      -- uPlane[:cLen]
  let _ ← sliceLen bufLen (yLen + cLen) bufLen        -- buf[yLen+cLen:]
  let _ ← sliceLen p.vLen 0 cLen                      -- vPlane[:cLen]
  let y ← sliceLen bufLen 0 yLen
  let cb ← sliceLen bufLen yLen (yLen + cLen)
  let cr ← sliceLen bufLen (yLen + cLen) bufLen
  .ok (.ycbcr p.width p.height y cb cr p.yStride p.uvStride, m)

/-- `s[off : off+n]` -/
@[inline] def rowSlice (len off n : Nat) : R Unit :=
  if off + n ≤ len then .ok () else .panic

/-- the slice expressions evaluated by one `dsp.UpsampleLinePairNRGBA(...)` call of `buildNRGBA`:
    `yRow(top)`, `yRow(bot)`, `uRow(ct)`, `vRow(ct)`, `uRow(cb)`, `vRow(cb)`, `dstRow(top)`,
    `dstRow(bot)`, `aRow(top)`, `aRow(bot)` (`bot = none` ⇒ the Go argument is `nil`) -/
def linePair (p : Planes) (alphaLen pixLen stride : Nat) (top : Nat) (bot : Option Nat) (ct cb : Nat) :
    R Unit := do
  rowSlice p.yLen (top * p.yStride) p.width
  (match bot with | some b => rowSlice p.yLen (b * p.yStride) p.width | none => .ok ())
  rowSlice p.uLen (ct * p.uvStride) ((p.width + 1) / 2)
  rowSlice p.vLen (ct * p.uvStride) ((p.width + 1) / 2)
  rowSlice p.uLen (cb * p.uvStride) ((p.width + 1) / 2)
  rowSlice p.vLen (cb * p.uvStride) ((p.width + 1) / 2)
  rowSlice pixLen (top * stride) (p.width * 4)
  (match bot with | some b => rowSlice pixLen (b * stride) (p.width * 4) | none => .ok ())
  rowSlice alphaLen (top * p.width) p.width
  (match bot with | some b => rowSlice alphaLen (b * p.width) p.width | none => .ok ())

/-- `for y+2 < height { … ; y += 2 }` -/
def pairLoop (p : Planes) (alphaLen pixLen stride : Nat) : (fuel : Nat) → (y : Nat) → R Unit
  | 0, _ => .hang
  | fuel + 1, y =>
    if y + 2 < p.height then do
      linePair p alphaLen pixLen stride (y + 1) (some (y + 2)) (y / 2) (y / 2 + 1)
      pairLoop p alphaLen pixLen stride fuel (y + 2)
    else .ok ()

/-- `image.NewNRGBA(image.Rect(0,0,w,h))`: panics when `4*w*h` overflows `int` -/
def newNRGBA (memCap : Nat) (w h : Nat) (m : Mem) : R (Nat × Mem) :=
  if 4 * w * h > 9223372036854775807 then .panic else do
  let m ← alloc memCap m (4 * w * h)
  .ok (4 * w * h, m)

/-- `buildNRGBA` (the alpha plane is non-nil on this path, `alphaLen` its length) -/
def buildNRGBA (memCap : Nat) (p : Planes) (alphaLen : Nat) (m : Mem) : R (Img × Mem) := do
  let (pixLen, m) ← newNRGBA memCap p.width p.height m
  let stride := 4 * p.width
  let img := Img.nrgba p.width p.height pixLen stride
  if p.height = 1 then do
    linePair p alphaLen pixLen stride 0 none 0 0
    .ok (img, m)
  else do
    linePair p alphaLen pixLen stride 0 none 0 0
    pairLoop p alphaLen pixLen stride p.height 0
    if p.height % 2 = 0 then
      linePair p alphaLen pixLen stride (p.height - 1) none ((p.height - 1) / 2) ((p.height - 1) / 2)
    .ok (img, m)

/-- `decodeLossy(data, alphaData)`: `codec` is the VP8L decoder `DecodeAlpha` calls for
    compression method 1 (arbitrary). -/
def decodeLossy (S : BitSrc σ) (memCap : Nat) (caps : Caps) (codec : Webp.Impl.Alpha.Codec)
    (data alphaData : Bytes) (mbOK : Bool) : R (Img × Mem) := do
  let ((_, _, p), m) ← decodeFrame S memCap caps data mbOK
  if alphaData.length > 0 then
    match Webp.Impl.Alpha.decodeAlpha codec alphaData p.width p.height with
    | .ok plane => do
      let m ← alloc memCap m plane.size          -- raw = make([]byte, planeSize)
      buildNRGBA memCap p plane.size m
    | .err _ => .err .alpha
    | .panic => .panic
    | .hang => .hang
  else buildYCbCr memCap p m

/-! ## the real reader: /repo/internal/bitio/reader_bool.go, bit-exact -/

structure GoBool where
  value : UInt64 := 0
  /-- "range minus 1", kept in [127, 254] -/
  range : Nat := 254
  bits : Int := -8
  buf : ByteArray := ByteArray.empty
  pos : Nat := 0
  eof : Bool := false
  deriving Inhabited

namespace GoBool

/-- `x >> uint(n)` on `uint64` with a Go `int` count (`uint` of a negative count is huge ⇒ 0) -/
@[inline] def shr (x : UInt64) (n : Int) : UInt64 :=
  if 0 ≤ n ∧ n < 64 then x >>> n.toNat.toUInt64 else 0
@[inline] def shl (x : UInt64) (n : Int) : UInt64 :=
  if 0 ≤ n ∧ n < 64 then x <<< n.toNat.toUInt64 else 0

def loadFinalBytes (br : GoBool) : GoBool :=
  if br.pos < br.buf.size then
    { br with bits := br.bits + 8, value := (br.buf.get! br.pos).toUInt64 ||| (br.value <<< 8),
              pos := br.pos + 1 }
  else if !br.eof then { br with value := br.value <<< 8, bits := br.bits + 8, eof := true }
  else { br with bits := 0 }

def loadNewBytes (br : GoBool) : GoBool :=
  if br.pos + 8 ≤ br.buf.size then
    -- seven bytes, big-endian, into the low 56 bits
    let b (k : Nat) : UInt64 := (br.buf.get! (br.pos + k)).toUInt64
    let inp := (b 0 <<< 48) ||| (b 1 <<< 40) ||| (b 2 <<< 32) ||| (b 3 <<< 24) ||| (b 4 <<< 16)
               ||| (b 5 <<< 8) ||| b 6
    { br with value := inp ||| (br.value <<< 56), pos := br.pos + 7, bits := br.bits + 56 }
  else loadFinalBytes br

def new (data : Bytes) : GoBool :=
  loadNewBytes { buf := ByteArray.mk data.toArray }

/-- `GetBit(prob)` -/
def getBit (br : GoBool) (prob : Nat) : Bool × GoBool :=
  let range0 := br.range
  let br := if br.bits < 0 then loadNewBytes br else br
  let pos := br.bits
  let split := (range0 * prob) / 256 % 4294967296
  let value := (shr br.value pos).toNat % 4294967296
  let (bit, range1, v) :=
    if value > split then
      (true, range0 - split, br.value - shl (UInt64.ofNat (split + 1)) pos)
    else (false, split + 1, br.value)
  -- shift := 7 ^ (bits.Len32(range_) - 1)
  let shift := 7 ^^^ (Nat.log2 range1)
  let range2 := (range1 <<< shift) % 4294967296
  (bit, { br with value := v, bits := br.bits - shift, range := range2 - 1 })

/-- the real boolean reader as a `BitSrc` -/
def src : BitSrc GoBool := { new := new, getBit := getBit, eof := fun b => b.eof }

end GoBool

end Webp.Impl.CodecFront
