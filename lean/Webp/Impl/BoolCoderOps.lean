import Webp.Impl.BoolCoder
/-
  Mixed writer / reader calls of the boolean coder as one list of operations (what the VP8 syntax
  writer and parser do): each `Op` is one call on the `BoolWriter` and the call(s) on the
  `BoolReader` that read it back.  Core Lean only.
-/
namespace Webp.Impl.BoolCoder

inductive Op where
  /-- `PutBit(b, p)`            ↔  `GetBit(p)` -/
  | bit (b : Bool) (p : Nat)
  /-- `PutBitUniform(b)`        ↔  `GetBit(0x80)` -/
  | ubit (b : Bool)
  /-- `PutBits(v, n)`           ↔  `GetValue(n)` -/
  | bits (v n : Nat)
  /-- `PutSignedBits(v, n)`     ↔  `GetBit(0x80)`, and `GetSignedValue(n)` when that bit is set -/
  | sbits (v : Int) (n : Nat)
  deriving Repr, DecidableEq, Inhabited

/-- the writer call -/
def Op.write (w : BoolWriter) : Op → BoolWriter
  | .bit b p => putBit w b p
  | .ubit b => putBitUniform w b
  | .bits v n => putBits w v n
  | .sbits v n => putSignedBits w v n

/-- the reader call(s) for an operation of the same shape (the values of the argument are not used) -/
def Op.read (r : BoolReader) : Op → Op × BoolReader
  | .bit _ p => ((Op.bit (getBit r p).1 p), (getBit r p).2)
  | .ubit _ => (Op.ubit (getBit r 0x80).1, (getBit r 0x80).2)
  | .bits _ n => (Op.bits (getValue r n).1 n, (getValue r n).2)
  | .sbits _ n =>
    if (getBit r 0x80).1 then
      (Op.sbits (getSignedValue (getBit r 0x80).2 n).1 n, (getSignedValue (getBit r 0x80).2 n).2)
    else (Op.sbits 0 n, (getBit r 0x80).2)

def readOps (r : BoolReader) : List Op → List Op
  | [] => []
  | op :: ops => (op.read r).1 :: readOps (op.read r).2 ops

/-- what the callers in /repo respect: probabilities are bytes, `PutBits` writes 1..32 bits of a value
    that fits, `PutSignedBits` a magnitude that fits its `n ≤ 31` bits -/
def Op.Valid : Op → Prop
  | .bit _ p => p ≤ 255
  | .ubit _ => True
  | .bits v n => 1 ≤ n ∧ n ≤ 32 ∧ v < 2 ^ n
  | .sbits v n => n ≤ 31 ∧ v.natAbs < 2 ^ n

end Webp.Impl.BoolCoder
