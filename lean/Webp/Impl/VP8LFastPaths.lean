import Webp.Impl.VP8LEntropy
/-
  Implementation model of the LITERAL FAST PATHS of the VP8L pixel loop.

  Transcribed statement by statement from /repo/internal/lossless/decode_image.go:

    `readHuffmanCodes`   the part "Mapped group: read and store all 5 Huffman trees" after the five
                         `readHuffmanCode` calls (flag computation)                     → `mkGroup`
    `buildPackedTable`, `accumulateHCode`                                               → same names
    `readPackedSymbols`                                                                 → same name
    `decodeImageData`    the branches `IsTrivialCode`, `UsePackedTable`, `IsTrivialLiteral` and the
                         four-`ReadSymbol` literal branch                               → `readLiteralFast`,
                                                                                          `readLiteralGeneral`

  Constants (constants.go): HuffmanTableBits = 8, HuffmanTableMask = 0xff, HuffmanPackedBits = 6,
  HuffmanPackedTableSize = 64, NumLiteralCodes = 256, KLiteralMap = {0,1,1,1,0},
  bitsSpecialMarker = 0x100.

  Abstractions (all stated, none silent):
   * the bit reader is replaced by its look-ahead value `prefetch : Nat` (the stream bits from the
     current position on, LSB first, UNBOUNDED); `SetBitPos(BitPos()+n)` followed by `PrefetchBits()`
     is `prefetch >>> n`, and the number of bits consumed is returned next to the value.  The Go
     window is 32 bits wide after `FillBitWindow` (+ a re-fill between red and blue): every lookup
     uses at most 15 bits of it, so nothing is lost.  `IsEndOfStream` is NOT modelled here (see the
     report: part C);
   * Go `HuffmanCode{Bits uint8, Value uint16}` is `HCode` with `Nat` fields; `uint32(hcode.Value)`
     is `UInt32.ofNat`, exact because `Value < 2^16`;
   * a Go slice index out of range panics.  Here `cell t i = t.getD i {}`; the tables this is
     applied to are results of `buildTable 8 _`, which have at least 256 entries, and every index
     below is `… &&& 0xff` or `0` (proved: `Webp.Proofs.VP8LFastPaths.TSpec.size`).

  Core Lean only.
-/
namespace Webp.Impl.VP8LFastPaths
open Webp.Go (Res)
open Webp.Impl.VP8LEntropy

def huffmanTableBits : Nat := 8
def huffmanTableMask : Nat := (1 <<< huffmanTableBits) - 1
def huffmanPackedBits : Nat := 6
def huffmanPackedTableSize : Nat := 1 <<< huffmanPackedBits
def numLiteralCodes : Nat := 256
def bitsSpecialMarker : Nat := 0x100
/-- `KLiteralMap` -/
def kLiteralMap : List Nat := [0, 1, 1, 1, 0]
/-- `HuffAlpha` (HuffGreen = 0, HuffRed = 1, HuffBlue = 2, HuffAlpha = 3, HuffDist = 4) -/
def huffAlpha : Nat := 3

/-- `table[i]` (Go panics outside the slice; see the header) -/
def cell (t : Table) (i : Nat) : HCode := t.getD i {}

/-- `HuffmanCode32` : `(Bits int, Value uint32)` -/
abbrev HCode32 := Nat × UInt32

/-- `HTreeGroup` (`HTrees[0..4]` = green, red, blue, alpha, dist) -/
structure HTreeGroup where
  green : Table
  red : Table
  blue : Table
  alpha : Table
  dist : Table
  isTrivialLiteral : Bool := false
  literalARB : UInt32 := 0
  isTrivialCode : Bool := false
  usePackedTable : Bool := false
  packedTable : Array HCode32 := Array.replicate 64 (0, 0)
  deriving Repr, Inhabited

/-- `accumulateHCode(hcode, shift, huff)`: the new `*huff` and the returned `int(hcode.Bits)` -/
def accumulateHCode (hcode : HCode) (shift : Nat) (huff : HCode32) : HCode32 × Nat :=
  let huff : HCode32 := (huff.1 + hcode.bits, huff.2)                                   -- huff.Bits += int(hcode.Bits)
  let huff : HCode32 := (huff.1, huff.2 ||| (UInt32.ofNat hcode.value <<< shift.toUInt32)) -- huff.Value |= uint32(hcode.Value) << shift
  (huff, hcode.bits)

/-- the body of `for code := uint32(0); code < HuffmanPackedTableSize; code++`: the value stored in
    `group.PackedTable[code]` -/
def packedEntry (green red blue alpha : Table) (code : Nat) : HCode32 :=
  let bits := code
  let hcode := cell green (bits &&& huffmanTableMask)
  if hcode.value ≥ numLiteralCodes then
    (hcode.bits + bitsSpecialMarker, UInt32.ofNat hcode.value)
  else
    let huff : HCode32 := (0, 0)
    let (huff, n) := accumulateHCode hcode 8 huff
    let bits := bits >>> n
    let (huff, n) := accumulateHCode (cell red (bits &&& huffmanTableMask)) 16 huff
    let bits := bits >>> n
    let (huff, n) := accumulateHCode (cell blue (bits &&& huffmanTableMask)) 0 huff
    let bits := bits >>> n
    let (huff, _) := accumulateHCode (cell alpha (bits &&& huffmanTableMask)) 24 huff
    huff

/-- the `for code` loop of `buildPackedTable` -/
def packedLoop (green red blue alpha : Table) : (fuel : Nat) → (code : Nat) → Array HCode32 → Array HCode32
  | 0, _, pt => pt
  | f + 1, code, pt =>
    if code < huffmanPackedTableSize then
      packedLoop green red blue alpha f (code + 1) (pt.setIfInBounds code (packedEntry green red blue alpha code))
    else pt

/-- `buildPackedTable(group)` -/
def buildPackedTable (g : HTreeGroup) : HTreeGroup :=
  { g with packedTable := packedLoop g.green g.red g.blue g.alpha huffmanPackedTableSize 0 g.packedTable }

/-- the five results of `readHuffmanCode` -/
structure Tables5 where
  green : Table
  red : Table
  blue : Table
  alpha : Table
  dist : Table

structure MaxLens5 where
  green : Nat
  red : Nat
  blue : Nat
  alpha : Nat
  dist : Nat

/-- loop state of `for j := 0; j < HuffmanCodesPerMetaCode; j++` -/
structure FlagSt where
  isTrivialLiteral : Bool := true
  totalBits : Nat := 0
  maxBits : Nat := 0

/-- one iteration of the `j` loop after `readHuffmanCode` returned `(table, maxCodeLen)` -/
def flagStep (s : FlagSt) (j : Nat) (table : Table) (maxCodeLen : Nat) : FlagSt :=
  let isTrivialLiteral :=
    if s.isTrivialLiteral && kLiteralMap.getD j 0 == 1 then (cell table 0).bits == 0 else s.isTrivialLiteral
  let totalBits := s.totalBits + (cell table 0).bits
  let maxBits := if j ≤ huffAlpha then s.maxBits + maxCodeLen else s.maxBits
  { isTrivialLiteral, totalBits, maxBits }

/-- the flag computation of `readHuffmanCodes` for one mapped group -/
def mkGroup (t : Tables5) (m : MaxLens5) : HTreeGroup :=
  let s : FlagSt := {}
  let s := flagStep s 0 t.green m.green
  let s := flagStep s 1 t.red m.red
  let s := flagStep s 2 t.blue m.blue
  let s := flagStep s 3 t.alpha m.alpha
  let s := flagStep s 4 t.dist m.dist
  let g : HTreeGroup := { green := t.green, red := t.red, blue := t.blue, alpha := t.alpha, dist := t.dist }
  let g := { g with isTrivialLiteral := s.isTrivialLiteral }
  let g :=
    if s.isTrivialLiteral then
      let red := UInt32.ofNat (cell g.red 0).value
      let blue := UInt32.ofNat (cell g.blue 0).value
      let alpha := UInt32.ofNat (cell g.alpha 0).value
      let g := { g with literalARB := (alpha <<< 24) ||| (red <<< 16) ||| blue }
      if s.totalBits == 0 && decide ((cell g.green 0).value < numLiteralCodes) then
        { g with isTrivialCode := true,
                 literalARB := g.literalARB ||| (UInt32.ofNat (cell g.green 0).value <<< 8) }
      else g
    else g
  let g := { g with usePackedTable := !g.isTrivialCode && decide (s.maxBits < huffmanPackedBits) }
  if g.usePackedTable then buildPackedTable g else g

/-- `maxCodeLen` of `readHuffmanCode`: `for _, cl := range codeLengths { if cl > maxCodeLen { maxCodeLen = cl } }` -/
def maxLenOf (lens : Array Nat) : Nat := lens.foldl max 0

/-- what one trip through the literal part of the loop yields -/
inductive Out where
  /-- `data[pos] = argb`, `bits` consumed -/
  | literal (argb : UInt32) (bits : Nat)
  /-- the green symbol is not a literal (`code ≥ 256`): backward reference or cache index; `bits` consumed -/
  | code (green : Nat) (bits : Nat)
  deriving Repr, DecidableEq, Inhabited

/-- `readPackedSymbols(group, br)` with `br.PrefetchBits() = prefetch`:
    `(argb, greenCode, isLiteral)` and the increment passed to `SetBitPos` -/
def readPackedSymbols (g : HTreeGroup) (prefetch : Nat) : UInt32 × Nat × Bool × Nat :=
  let bits := prefetch &&& (huffmanPackedTableSize - 1)
  let code := g.packedTable.getD bits (0, 0)          -- fixed-size array of 64, `bits < 64`
  if code.1 < bitsSpecialMarker then
    (code.2, 0, true, code.1)
  else
    (0, code.2.toNat, false, code.1 - bitsSpecialMarker)

/-- sequencing of `ReadSymbol` results: `none` is the `bits < 0 → ErrBitstream` exit -/
def bindSym (r : Res TErr (Option (Nat × Nat))) (k : Nat → Nat → Res TErr (Option Out)) : Res TErr (Option Out) :=
  match r with
  | .ok (some (v, used)) => k v used
  | .ok none => .ok none
  | .err e => .err e
  | .panic => .panic
  | .hang => .hang

/-- red, blue, alpha by `ReadSymbol`, after green `code` used `used` bits -/
def readRBA (g : HTreeGroup) (prefetch : Nat) (code used : Nat) : Res TErr (Option Out) :=
  let prefetch := prefetch >>> used
  bindSym (readSymbolRaw huffmanTableBits g.red prefetch) fun redVal redBits =>
  let prefetch := prefetch >>> redBits
  bindSym (readSymbolRaw huffmanTableBits g.blue prefetch) fun blueVal blueBits =>
  let prefetch := prefetch >>> blueBits
  bindSym (readSymbolRaw huffmanTableBits g.alpha prefetch) fun alphaVal alphaBits =>
  .ok (some (.literal
    ((UInt32.ofNat alphaVal <<< 24) ||| (UInt32.ofNat redVal <<< 16) ||| (UInt32.ofNat code <<< 8) ||| UInt32.ofNat blueVal)
    (used + redBits + blueBits + alphaBits)))

/-- the GENERAL path: green, then (literal) red, blue, alpha by four `ReadSymbol` lookups -/
def readLiteralGeneral (g : HTreeGroup) (prefetch : Nat) : Res TErr (Option Out) :=
  bindSym (readSymbolRaw huffmanTableBits g.green prefetch) fun code used =>
  if code < numLiteralCodes then readRBA g prefetch code used
  else .ok (some (.code code used))

/-- what the loop of `decodeImageData` does with the flags -/
def readLiteralFast (g : HTreeGroup) (prefetch : Nat) : Res TErr (Option Out) :=
  if g.isTrivialCode then
    .ok (some (.literal g.literalARB 0))
  else if g.usePackedTable then
    let (argb, gc, isLit, used) := readPackedSymbols g prefetch
    if isLit then .ok (some (.literal argb used))
    else
      let code := gc
      if code < numLiteralCodes then
        -- unreachable for a packed entry (its `Value ≥ 256`), transcribed nevertheless
        if g.isTrivialLiteral then .ok (some (.literal (g.literalARB ||| (UInt32.ofNat code <<< 8)) used))
        else readRBA g prefetch code used
      else .ok (some (.code code used))
  else
    bindSym (readSymbolRaw huffmanTableBits g.green prefetch) fun code used =>
    if code < numLiteralCodes then
      if g.isTrivialLiteral then .ok (some (.literal (g.literalARB ||| (UInt32.ofNat code <<< 8)) used))
      else readRBA g prefetch code used
    else .ok (some (.code code used))

end Webp.Impl.VP8LFastPaths
