import Webp.Impl.RowPipe
/-
  Webp.Impl.Partition — the index-range formulas of the `sync.WaitGroup` fan-outs of
  deepteams/webp, each written exactly as coded (Go `int` arithmetic on non-negative values:
  `/` is floor division, like `Nat./`; no site comes near 2^63), and the channel work queue of
  `animation.DecodeFramesParallel`.  Core Lean only.
-/
namespace Webp.Impl.Partition
open Webp.Impl.RowPipe (upd)

/-- a fan-out: worker `i < n` is handed the half-open range `[st i, en i)`;
    the range is empty when `en i ≤ st i` (all sites use it as `for k := st; k < en; k++`) -/
structure Scheme where
  n  : Nat
  st : Nat → Nat
  en : Nat → Nat

/-- element `k` is processed by worker `i` -/
def Scheme.mem (S : Scheme) (i k : Nat) : Prop := S.st i ≤ k ∧ k < S.en i

instance (S : Scheme) (i k : Nat) : Decidable (S.mem i k) := by unfold Scheme.mem; infer_instance

/-- the ranges of the workers partition `[lo, hi)` exactly, in order -/
structure Exact (S : Scheme) (lo hi : Nat) : Prop where
  /-- every element is handed to some worker -/
  cover : ∀ k, lo ≤ k → k < hi → ∃ i, i < S.n ∧ S.mem i k
  /-- no worker is handed an element outside the range -/
  inRange : ∀ i k, i < S.n → S.mem i k → lo ≤ k ∧ k < hi
  /-- a lower-numbered worker gets strictly smaller elements (hence the ranges are disjoint) -/
  ordered : ∀ i j k k', i < j → j < S.n → S.mem i k → S.mem j k' → k < k'

/-! ### the formulas, by site -/

/-- **A** — proportional boundaries.
    /repo/internal/lossy/encode.go:765-766   `startY := wi * padH / nWorkers; endY := (wi + 1) * padH / nWorkers`
        (Y plane rows, `nWorkers = min(GOMAXPROCS, padH)`, `padH ≥ 16`)
    /repo/internal/lossy/encode.go:844-845   `startPair := wi * halfPadH / nUVWorkers; endPair := (wi + 1) * halfPadH / nUVWorkers`
        (U/V row pairs, `nUVWorkers = min(GOMAXPROCS, halfPadH)`, `halfPadH ≥ 8`) -/
def schemeA (H n : Nat) : Scheme where
  n := n
  st := fun i => i * H / n
  en := fun i => (i + 1) * H / n

/-- **C** — floor chunks, remainder to the last worker.
    /repo/internal/lossless/decode.go:347-354 (argbToNRGBA, `lo = 0`, `H = height`,
        `n = GOMAXPROCS > 1`, guard `width*height ≥ 100000`; `n` may exceed `height`)
        `rowsPerWorker := height / numWorkers; yStart := w * rowsPerWorker; yEnd := yStart + rowsPerWorker;
         if w == numWorkers-1 { yEnd = height }`
    /repo/internal/lossless/decode_transform.go:549-557 (colorSpaceInverseTransformParallel,
        `lo = yStart`, `H = numRows ≥ 1`, `n = min(GOMAXPROCS, numRows)`)
        `ys := yStart + w*rowsPerWorker; ye := ys + rowsPerWorker; if w == numWorkers-1 { ye = yEnd }` -/
def schemeC (lo H n : Nat) : Scheme where
  n := n
  st := fun i => lo + i * (H / n)
  en := fun i => if i = n - 1 then lo + H else lo + i * (H / n) + H / n

/-- **D** — ceiling chunks, clipped at the end; `start` itself is *not* clipped.
    /repo/internal/lossless/encode_predictor.go:403-409 and :733-739 (`lo = 0`, `H = tileYSize`,
        `n = min(GOMAXPROCS, tileYSize)`, guard `tileXSize*tileYSize ≥ 16`)
        `rowsPerWorker := (tileYSize + numWorkers - 1) / numWorkers; tyStart := w * rowsPerWorker;
         tyEnd := tyStart + rowsPerWorker; if tyEnd > tileYSize { tyEnd = tileYSize }`
    /repo/internal/lossless/encode_histogram.go:1265-1273 (`H = len(origHistos) ≥ 64`) and
        :1368-1376 (`H = len(histos) ≥ 256`), `n = min(GOMAXPROCS, H)`
        `chunk := (n + numWorkers - 1) / numWorkers; start := w * chunk; end := start + chunk; if end > n { end = n }`
    /repo/internal/lossy/encode_analysis.go:269-279 (computeAlphas, `H = mbH`,
        `n = min(GOMAXPROCS, mbH*mbW) ≥ 2`) — same formula followed by `if startY >= endY { break }`,
        see `schemeD_break`.
    /repo/internal/lossless/hashchain.go:346-354 (fillParallel, `lo = 1`, `H = size - 2`,
        `n = max(1, min(GOMAXPROCS, size/1000))`, guard `size > 50000`)
        `positionsPerWorker := (size - 2 + numWorkers - 1) / numWorkers; posStart := 1 + w*positionsPerWorker;
         posEnd := posStart + positionsPerWorker; if posEnd > size-1 { posEnd = size - 1 }` -/
def schemeD (lo H n : Nat) : Scheme where
  n := n
  st := fun i => lo + i * ((H + n - 1) / n)
  en := fun i => min (lo + i * ((H + n - 1) / n) + (H + n - 1) / n) (lo + H)

/-! ### per-element maps -/

/-- a log of element writes `out[k] = g k`, executed in list order; `g k` depends on `k` and
    on read-only input only -/
def runWrites {β : Type} (g : Nat → β) : (Nat → β) → List Nat → Nat → β
  | out, [] => out
  | out, k :: ks => runWrites g (upd out k (g k)) ks

/-- the serial loop `for k := lo; k < hi; k++ { out[k] = g(k) }` -/
def serialMap {β : Type} (g : Nat → β) (out : Nat → β) (lo hi : Nat) : Nat → β :=
  runWrites g out (List.range' lo (hi - lo))

/-- the writes of worker `i`, in its own program order -/
def workerLog (S : Scheme) (i : Nat) : List Nat := List.range' (S.st i) (S.en i - S.st i)

/-! ### the channel work queue of `animation.DecodeFramesParallel` (animation.go:219-253)

  `work` is a buffered channel filled with the indices to decode and closed; each of the
  `numWorkers` goroutines does `for idx := range work { results <- decode(idx) }`; the caller
  drains `results`.  Go's channel semantics deliver every sent value to exactly one receiver, so
  the multiset of results is fixed; only their *arrival order* depends on the schedule. -/

inductive DecRes (Img Err : Type) where
  | ok (img : Img)
  | err (e : Err)

/-- the collector loop
    `for r := range results { if r.err != nil && firstErr == nil { firstErr = r.err; continue };
                              if r.err == nil { a.Frames[r.idx].Image = r.img } }` -/
def collectStep {Img Err : Type} (acc : (Nat → Option Img) × Option Err)
    (r : Nat × DecRes Img Err) : (Nat → Option Img) × Option Err :=
  match r.2 with
  | .err e => if acc.2.isNone then (acc.1, some e) else acc
  | .ok img => (upd acc.1 r.1 (some img), acc.2)

def collect {Img Err : Type} (frames : Nat → Option Img) (rs : List (Nat × DecRes Img Err)) :
    (Nat → Option Img) × Option Err :=
  rs.foldl collectStep (frames, none)

end Webp.Impl.Partition
