import Webp.Impl.VP8Recon
import Webp.Impl.BoolCoderOps
/-
  The VP8 macroblock syntax at the level of BYTES (C06): the decision streams of `Webp.Impl.VP8Recon`
  pushed through the boolean writer model, and the decoder's parse functions drawing every decision
  from a `BoolReader` (`GetBit(prob)`), as decode_mb.go / decode_tree.go do.  Core Lean only.

  * `P α` is the shape every parse function of the decoder has: a decision tree whose inner nodes are
    "decode one boolean with the probability named by this slot" (`read sl k`), with early failure.
    `runS` runs a tree on the abstract decision stream of `VP8Recon` (the exact channel of
    `frame_syntax_roundtrip`), `runR prob` runs it on a `BoolReader`, resolving a slot to the byte
    `prob sl` the frame's probability tables hold for it.
  * `T.*` are the parse functions of `VP8Recon` written as such trees, statement for statement
    (`Webp.Proofs.VP8SyntaxTrees`: `runS (T.f …) = VP8Recon.f …`).
  * `prob : Slot → UInt8` is universally quantified in every theorem: whatever the coefficient,
    segment-map, skip and sub-block-mode probabilities of the frame are (default or adapted), both
    sides use the same bytes.  How the header carries them is not modelled here.
-/
namespace Webp.Impl.VP8SyntaxBytes
open Webp.Go (Bytes)
open Webp.Impl.VP8Recon Webp.Impl.BoolCoder

/-! ## decision trees -/

inductive P (α : Type) where
  | pure (a : α)
  | fail
  /-- decode one boolean with the probability of slot `sl`, continue with `k bit` -/
  | read (sl : Slot) (k : Bool → P α)

def P.bind {α β : Type} : P α → (α → P β) → P β
  | .pure a, f => f a
  | .fail, _ => .fail
  | .read sl k, f => .read sl (fun b => (k b).bind f)

instance : Monad P where
  pure := P.pure
  bind := P.bind

/-- one decision -/
def rd (sl : Slot) : P Bool := .read sl .pure

/-- a tree on the abstract decision stream (the reader names the slot; `VP8Recon.readBit`) -/
def runS {α : Type} : P α → Stream → Option (α × Stream)
  | .pure a, s => some (a, s)
  | .fail, _ => none
  | .read sl k, s => (readBit sl s).bind fun (b, s) => runS (k b) s

/-- a tree on a boolean reader: every decision is `GetBit(prob sl)` -/
def runR {α : Type} (prob : Slot → UInt8) : P α → BoolReader → Option (α × BoolReader)
  | .pure a, r => some (a, r)
  | .fail, _ => none
  | .read sl k, r => runR prob (k (getBit r (prob sl).toNat).1) (getBit r (prob sl).toNat).2

/-! ## the parse functions of the decoder as trees -/
namespace T

def readExtra : List Nat → Nat → P Nat
  | [], v => pure v
  | p :: ps, v => rd (.fixed p) >>= fun b => readExtra ps (v + v + b2n b)

def readLevel (p : Nat → Slot) : P Nat :=
  rd (p 2) >>= fun b2 =>
  if !b2 then pure 1 else
  rd (p 3) >>= fun b3 =>
  if !b3 then
    rd (p 4) >>= fun b4 =>
    if !b4 then pure 2 else
    rd (p 5) >>= fun b5 => pure (3 + b2n b5)
  else
    rd (p 6) >>= fun b6 =>
    if !b6 then
      rd (p 7) >>= fun b7 =>
      if !b7 then rd (.fixed 159) >>= fun b => pure (5 + b2n b)
      else
        rd (.fixed 165) >>= fun bh =>
        rd (.fixed 145) >>= fun bl => pure (7 + 2 * b2n bh + b2n bl)
    else
      rd (p 8) >>= fun bit1 =>
      rd (p (9 + b2n bit1)) >>= fun bit0 =>
      readExtra (catTab (2 * b2n bit1 + b2n bit0)) 0 >>= fun v =>
      pure (v + (3 + (8 <<< (2 * b2n bit1 + b2n bit0))))

def getLoop (t : Nat) (dq0 dq1 : Int) : (fuel n ctx : Nat) → (inner : Bool) → Coeffs → P (Nat × Coeffs)
  | 0, _, _, _, _ => .fail
  | fuel + 1, n, ctx, false, out =>
    if n ≥ 16 then pure (16, out)
    else
      rd (coefSlot t n ctx 0) >>= fun b =>
      if !b then pure (n, out) else getLoop t dq0 dq1 fuel n ctx true out
  | fuel + 1, n, ctx, true, out =>
    if h : n < 16 then
      rd (coefSlot t n ctx 1) >>= fun b =>
      if !b then
        (if n + 1 = 16 then pure (16, out) else getLoop t dq0 dq1 fuel (n + 1) 0 true out)
      else
        readLevel (coefSlot t n ctx) >>= fun v =>
        rd (.fixed 128) >>= fun neg =>
        getLoop t dq0 dq1 fuel (n + 1) (if v = 1 then 1 else 2) false
          (out.set (zz ⟨n, h⟩) (wrap16 ((if neg then -(v : Int) else (v : Int)) * (if n = 0 then dq0 else dq1))))
    else .fail

def getCoeffs (t ctx : Nat) (dq0 dq1 : Int) (first : Nat) (out : Coeffs) : P (Nat × Coeffs) :=
  getLoop t dq0 dq1 34 first ctx false out

/-- `VP8Recon.YSt` without the stream -/
structure YSt where
  tnz : Nat
  l : Nat
  nzCoeffs : Nat
  store : Nat → Coeffs

def decYRow (t first : Nat) (qm : QuantMatrix) (y : Nat) : List Nat → YSt → P YSt
  | [], st => pure st
  | x :: xs, st =>
    getCoeffs t (st.l + (st.tnz &&& 1)) qm.y1dc qm.y1ac first (st.store (4 * y + x)) >>= fun r =>
    decYRow t first qm y xs
      { tnz := (st.tnz >>> 1) ||| ((if r.1 > first then 1 else 0) <<< 7), l := if r.1 > first then 1 else 0
        nzCoeffs := nzCodeBits st.nzCoeffs r.1 (if r.2 0 ≠ 0 then 1 else 0)
        store := fun b' => if b' = 4 * y + x then r.2 else st.store b' }

structure YSt2 where
  tnz : Nat
  lnz : Nat
  nonZeroY : Nat
  store : Nat → Coeffs

def decYRows (t first : Nat) (qm : QuantMatrix) : List Nat → YSt2 → P YSt2
  | [], st => pure st
  | y :: ys, st =>
    decYRow t first qm y [0, 1, 2, 3]
      { tnz := st.tnz, l := st.lnz &&& 1, nzCoeffs := 0, store := st.store } >>= fun r =>
    decYRows t first qm ys
      { tnz := r.tnz >>> 4, lnz := (st.lnz >>> 1) ||| (r.l <<< 7)
        nonZeroY := ((st.nonZeroY <<< 8) ||| r.nzCoeffs) % 4294967296, store := r.store }

def decUVRow (qm : QuantMatrix) (base y : Nat) : List Nat → YSt → P YSt
  | [], st => pure st
  | x :: xs, st =>
    getCoeffs 2 (st.l + (st.tnz &&& 1)) qm.uvdc qm.uvac 0 (st.store (base + 2 * y + x)) >>= fun r =>
    decUVRow qm base y xs
      { tnz := (st.tnz >>> 1) ||| ((if r.1 > 0 then 1 else 0) <<< 3), l := if r.1 > 0 then 1 else 0
        nzCoeffs := nzCodeBits st.nzCoeffs r.1 (if r.2 0 ≠ 0 then 1 else 0)
        store := fun b' => if b' = base + 2 * y + x then r.2 else st.store b' }

structure UVSt where
  tnz : Nat
  lnz : Nat
  nzCoeffs : Nat
  store : Nat → Coeffs

def decUVRows (qm : QuantMatrix) (base : Nat) : List Nat → UVSt → P UVSt
  | [], st => pure st
  | y :: ys, st =>
    decUVRow qm base y [0, 1]
      { tnz := st.tnz, l := st.lnz &&& 1, nzCoeffs := st.nzCoeffs, store := st.store } >>= fun r =>
    decUVRows qm base ys
      { tnz := r.tnz >>> 2, lnz := (st.lnz >>> 1) ||| (r.l <<< 5), nzCoeffs := r.nzCoeffs, store := r.store }

/-- the Y2 block and the WHT step of `parseResiduals` -/
def parseY2 (K : Kernels) (qm : QuantMatrix) (isI4 : Bool) (n : NzCtx) : P ((Nat → Coeffs) × NzCtx) :=
  if isI4 then pure (fun _ => Coeffs.zero, n)
  else
    getCoeffs 1 (n.tnzDC + n.lnzDC) qm.y2dc qm.y2ac 0 Coeffs.zero >>= fun r =>
    pure (fun b => if h : b < 16 then
            Coeffs.zero.set 0 ((if r.1 > 1 then K.iwht r.2 else fun _ => wrap16 ((r.2 0 + 3) >>> 3)) ⟨b, h⟩)
          else Coeffs.zero,
          { n with tnzDC := if r.1 > 0 then 1 else 0, lnzDC := if r.1 > 0 then 1 else 0 })

/-- `parseResiduals`: coefficients, `NonZeroY`, `NonZeroUV`, the context it leaves -/
def parseResiduals (K : Kernels) (qm : QuantMatrix) (isI4 : Bool) (n : NzCtx) : P (ResData × NzCtx) :=
  parseY2 K qm isI4 n >>= fun r0 =>
  decYRows (if isI4 then 3 else 0) (if isI4 then 0 else 1) qm [0, 1, 2, 3]
    { tnz := n.tnz &&& 0x0f, lnz := n.lnz &&& 0x0f, nonZeroY := 0, store := r0.1 } >>= fun yr =>
  decUVRows qm 16 [0, 1] { tnz := n.tnz >>> 4, lnz := n.lnz >>> 4, nzCoeffs := 0, store := yr.store } >>= fun ur =>
  decUVRows qm 20 [0, 1] { tnz := n.tnz >>> 6, lnz := n.lnz >>> 6, nzCoeffs := 0, store := ur.store } >>= fun vr =>
  pure
    ({ coeffs := vr.store
       nonZeroY := yr.nonZeroY
       nonZeroUV := (ur.nzCoeffs <<< 0) % 4294967296 ||| (vr.nzCoeffs <<< 8) % 4294967296 },
     { tnz := (yr.tnz ||| ((ur.tnz <<< 4) <<< 0)) ||| ((vr.tnz <<< 4) <<< 2)
       lnz := ((yr.lnz >>> 4) ||| ((ur.lnz &&& 0xf0) <<< 0)) ||| ((vr.lnz &&& 0xf0) <<< 2)
       tnzDC := r0.2.tnzDC, lnzDC := r0.2.lnzDC })

/-- `decodeMB` -/
def parseTokens (K : Kernels) (qm : QuantMatrix) (isI4 skipFlag useSkip : Bool) (stale : Nat → Coeffs)
    (n : NzCtx) : P (ResData × NzCtx) :=
  if useSkip && skipFlag then pure (decSkipped stale, skipNz isI4 n) else parseResiduals K qm isI4 n

def readI4Loop (top left : Nat) : Nat → Int → P Nat
  | 0, _ => .fail
  | fuel + 1, i =>
    if i > 0 then
      rd (.bmode top left i.toNat) >>= fun b => readI4Loop top left fuel (treeAt (2 * i.toNat + b2n b))
    else pure (-i).toNat

def readI4Mode (top left : Nat) : P Nat :=
  rd (.bmode top left 0) >>= fun b =>
  readI4Loop top left 10 (treeAt (b2n b)) >>= fun m =>
  if m ≥ 10 then .fail else pure m

def readI16Mode : P Nat :=
  rd (.fixed 156) >>= fun b =>
  if b then rd (.fixed 128) >>= fun b => pure (if b then 1 else 3)
  else rd (.fixed 163) >>= fun b => pure (if b then 2 else 0)

def readUVMode : P Nat :=
  rd (.fixed 142) >>= fun b =>
  if !b then pure 0 else
  rd (.fixed 114) >>= fun b =>
  if !b then pure 2 else
  rd (.fixed 183) >>= fun b => pure (if b then 1 else 3)

def readSegmentID : P Nat :=
  rd (.seg 0) >>= fun b =>
  if !b then rd (.seg 1) >>= fun b => pure (b2n b)
  else rd (.seg 2) >>= fun b => pure (b2n b + 2)

def decI4Row (y : Nat) : List (Fin 4) → (Fin 4 → Nat) → Nat → (Fin 16 → Nat) → P ((Fin 4 → Nat) × Nat × (Fin 16 → Nat))
  | [], top, ymode, modes => pure (top, ymode, modes)
  | x :: xs, top, ymode, modes =>
    if h : 4 * y + x.val < 16 then
      readI4Mode (top x) ymode >>= fun mode =>
      decI4Row y xs (fun x' => if x' = x then mode else top x') mode
        (fun b => if b = ⟨4 * y + x.val, h⟩ then mode else modes b)
    else .fail

def decI4Rows : List (Fin 4) → ModeCtx → (Fin 16 → Nat) → P (ModeCtx × (Fin 16 → Nat))
  | [], m, modes => pure (m, modes)
  | y :: ys, m, modes =>
    decI4Row y.val (List.finRange 4) m.top (m.left y) modes >>= fun r =>
    decI4Rows ys { top := r.1, left := fun y' => if y' = y then r.2.1 else m.left y' } r.2.2

/-- `parseIntraModeRow`, one macroblock -/
def parseModes (updateMap useSkip : Bool) (prevModes : Fin 16 → Nat) (m : ModeCtx) : P (MBModes × ModeCtx) :=
  (if updateMap then readSegmentID else pure 0) >>= fun segment =>
  (if useSkip then rd .skip else pure false) >>= fun skip =>
  rd (.fixed 145) >>= fun b =>
  if b then
    readI16Mode >>= fun ymode =>
    readUVMode >>= fun uvmode =>
    pure ({ isI4 := false, imodes := fun b => if b.val = 0 then ymode else prevModes b
            uvmode := uvmode, segment := segment, skip := skip },
          { top := fun _ => ymode, left := fun _ => ymode })
  else
    decI4Rows (List.finRange 4) m prevModes >>= fun r =>
    readUVMode >>= fun uvmode =>
    pure ({ isI4 := true, imodes := r.2, uvmode := uvmode, segment := segment, skip := skip }, r.1)

end T

/-! ## the writer side: decision streams to bytes -/

/-- the `PutBit(bit, prob)` calls of a decision stream -/
def toOps (prob : Slot → UInt8) (s : Stream) : List Op := s.map fun d => Op.bit d.bit (prob d.slot).toNat

/-- the bytes of a partition: the header calls `hdr` (partition 0 only: segment, filter, quantiser,
    probability updates — any `PutBit`/`PutBitUniform`/`PutBits`/`PutSignedBits` calls), then one
    `PutBit` per decision, then `Finish` -/
def emitPartitionBytes (prob : Slot → UInt8) (hdr : List Op) (s : Stream) : Bytes :=
  finish ((hdr ++ toOps prob s).foldl Op.write newWriter)

/-- the reader calls for a list of operations, keeping the reader -/
def readOpsSt (r : BoolReader) : List Op → List Op × BoolReader
  | [] => ([], r)
  | op :: ops => ((op.read r).1 :: (readOpsSt (op.read r).2 ops).1, (readOpsSt (op.read r).2 ops).2)

/-! ## the frame -/

/-- `parseFrame` without the reconstruction, on boolean readers: `r0` reads partition 0 (positioned
    after the header), `rp p` token partition `p`.  Same statements as `VP8Recon.parseMBs`. -/
def parseMBsBytes (K : Kernels) (dqm : Fin 4 → QuantMatrix) (fs : FrameSyntax) (prob : Slot → UInt8) :
    List Nat → TokCtx → BoolReader → (Nat → BoolReader) → ColData → (Nat → MBModes × ResData) →
    Option ((Nat → MBModes × ResData) × BoolReader × (Nat → BoolReader))
  | [], _, r0, rp, _, out => some (out, r0, rp)
  | k :: ks, c, r0, rp, col, out =>
    let x := k % fs.mbW
    let y := k / fs.mbW
    let c := if x = 0 then c.rowStart else c
    (runR prob (T.parseModes fs.updateMap fs.useSkip (col.imodes x) (c.modes x)) r0).bind fun (mm, r0') =>
    let pi := y &&& (fs.numParts - 1)
    (runR prob (T.parseTokens K (dqm (segFin mm.1.segment)) mm.1.isI4 mm.1.skip fs.useSkip (col.coeffs x) (c.nz x))
      (rp pi)).bind fun (rn, rpi') =>
    parseMBsBytes K dqm fs prob ks ((c.setModes x mm.2).setNz x rn.2) r0'
      (fun p => if p = pi then rpi' else rp p)
      { imodes := fun x' => if x' = x then mm.1.imodes else col.imodes x'
        coeffs := fun x' => if x' = x then rn.1.coeffs else col.coeffs x' }
      (fun k' => if k' = k then (mm.1, rn.1) else out k')

/-- a frame as bytes: the header fields of `VP8Recon.EncodedFrame`, the header calls of partition 0
    (abstract: their shapes tell the decoder what to read), partition 0 and the token partitions -/
structure EncodedFrameBytes where
  w : Nat
  h : Nat
  qidx : QuantIdx
  numParts : Nat
  updateMap : Bool
  useSkip : Bool
  hdr : List Op
  part0 : Bytes
  parts : Nat → Bytes

/-- `emitFrame` down to bytes -/
def emitFrameBytes (f : EncFrame) (numParts : Nat) (updateMap : Bool) (prob : Slot → UInt8) (hdr : List Op) :
    EncodedFrameBytes :=
  let e := emitFrame f numParts updateMap
  { w := e.w, h := e.h, qidx := e.qidx, numParts := e.numParts, updateMap := e.updateMap, useSkip := e.useSkip
    hdr := hdr
    part0 := emitPartitionBytes prob hdr e.streams.part0
    parts := fun p => emitPartitionBytes prob [] (e.streams.parts p) }

/-- the decoder before the loop filter, from bytes (`VP8Recon.decodeFrameUnfiltered` with
    `parseMBsBytes`); also answers whether any partition reader raised `eof` -/
def decodeFrameUnfilteredBytes (K : Kernels) (prob : Slot → UInt8) (e : EncodedFrameBytes) (col0 : ColData) :
    Option (Frame × Bool) :=
  let mbW := mbCount e.w
  let mbH := mbCount e.h
  let fs : FrameSyntax := { mbW := mbW, numParts := e.numParts, updateMap := e.updateMap, useSkip := e.useSkip }
  let dflt : MBModes × ResData :=
    ({ isI4 := false, imodes := fun _ => 0, uvmode := 0, segment := 0, skip := false },
     { coeffs := fun _ => Coeffs.zero, nonZeroY := 0, nonZeroUV := 0 })
  let r0 := (readOpsSt (newReader e.part0) e.hdr).2
  (parseMBsBytes K (decQuantMatrix e.qidx) fs prob (List.range (mbW * mbH)) TokCtx.init r0
      (fun p => newReader (e.parts p)) col0 (fun _ => dflt)).map
    fun res =>
      let parsed := res.1
      let st := (List.range (mbW * mbH)).foldl (decStep K mbW mbH parsed)
        { y := DecPlane.init, u := DecPlane.init, v := DecPlane.init }
      ({ w := e.w, h := e.h, y := cropPlane e.w e.h st.y.cache
         u := cropPlane ((e.w + 1) / 2) ((e.h + 1) / 2) st.u.cache
         v := cropPlane ((e.w + 1) / 2) ((e.h + 1) / 2) st.v.cache },
       res.2.1.eof || (List.range e.numParts).any fun p => (res.2.2 p).eof)

end Webp.Impl.VP8SyntaxBytes
