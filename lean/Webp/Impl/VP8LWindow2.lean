import Webp.Impl.VP8LWindow
/-
  Implementation model of PREFIX-CODE READING of the VP8L decoder on the window reader, refill
  pattern included (property C03): /repo/internal/lossless/decode_image.go
  `readHuffmanCodeLengths` (lines 13–81) and `readHuffmanCode` (lines 86–166), statement by
  statement, over the reader interface of `Webp.Impl.VP8LWindow` extended by `ReadBits`.

  As there, the transcription is written once over an abstract reader (`RdOps2 ρ`) and used twice:
  `goOps2` (the real `LosslessReader` model: `readBits`, `fillBitWindow`, `prefetchBits`, `advance`,
  `isEndOfStream`) for the theorems, `traceOps2` (a recording reader) for the call shapes compared
  with what harness/cmd/extract/fills.go reads off the Go source (`Generated.Fills.readHuffmanCode*`).

  Go returns the single error `ErrBitstream` at every exit; the model names the exits with the
  specification's error classes where the cause is the same (`maxSymbol`, `repeatOverflow`,
  `codeSymbolRange`, `eos` for the `IsEndOfStream()` exits) and maps `BuildHuffmanTable`'s errors
  with `tErr`.  The scratch / buffer reuse (`dec.codeLengthsBuf`, `huffTableScratch`) only changes
  where the zeroed slices live.

  Core Lean only.
-/
namespace Webp.Impl.VP8LWindow
open Webp.Go (Res)
open Webp.Spec.VP8L (Err)
open Webp.Impl.VP8LEntropy

/-- the reader calls of the code reading: those of the pixel loop and `br.ReadBits(n)` -/
structure RdOps2 (ρ : Type) extends RdOps ρ where
  /-- `br.ReadBits(n)` -/
  readBits : ρ → Nat → UInt32 × ρ

/-- `BuildHuffmanTable`'s two errors as exits of the code reading (Go: both `ErrBitstream`-like) -/
def tErr : TErr → Err
  | .emptyCodeLengths => .codeEmpty
  | .invalidTree => .codeIncomplete

/-- `CodeLengthExtraBits` -/
def codeLengthExtraBits : Array Nat := #[2, 3, 7]
/-- `CodeLengthRepeatOffsets` -/
def codeLengthRepeatOffsets : Array Nat := #[3, 3, 11]

/-- loop variables of `readHuffmanCodeLengths`: `codeLengths`, `symbol`, `prevCodeLen` -/
structure CLState where
  codeLengths : Array Nat
  symbol : Nat
  prev : Nat
  deriving Repr, DecidableEq, Inhabited

/-- `for i := 0; i < repeatCount; i++ { codeLengths[symbol] = length; symbol++ }` -/
def fillRun (a : Array Nat) (symbol : Nat) : (repeatCount : Nat) → (length : Nat) → Array Nat
  | 0, _ => a
  | n + 1, length => fillRun (a.setIfInBounds symbol length) (symbol + 1) n length

section generic
variable {ρ : Type} (ops : RdOps2 ρ)

/-- the body of `for symbol < numSymbols` after `remaining--`:
    ```
    dec.br.FillBitWindow()
    prefetch := dec.br.PrefetchBits()
    entry := clTable[prefetch&LengthsTableMask]
    dec.br.SetBitPos(dec.br.BitPos() + int(entry.Bits))
    codeLen := int(entry.Value)
    if codeLen < CodeLengthLiterals { codeLengths[symbol] = codeLen; symbol++; if codeLen != 0 { prevCodeLen = codeLen } }
    else {
      slot := codeLen - CodeLengthLiterals
      extraBits := int(CodeLengthExtraBits[slot]); repeatOffset := int(CodeLengthRepeatOffsets[slot])
      repeatCount := int(dec.br.ReadBits(extraBits)) + repeatOffset
      if symbol+repeatCount > numSymbols { return nil, ErrBitstream }
      usePrev := codeLen == CodeLengthRepeatCode; length := 0; if usePrev { length = prevCodeLen }
      for i := 0; i < repeatCount; i++ { codeLengths[symbol] = length; symbol++ }
    }
    ```
    (an index outside `clTable` or `CodeLengthExtraBits` panics) -/
def clStep (clTable : Table) (numSymbols : Nat) (st : CLState) (r : ρ) : Res Err (CLState × ρ) :=
  let r := ops.fill r
  let (prefetch, r) := ops.prefetch r
  let i := prefetch.toNat &&& 127
  if h : i < clTable.size then
    let entry := clTable[i]
    let r := ops.advance r entry.bits
    let codeLen := entry.value
    if codeLen < 16 then
      .ok ({ codeLengths := st.codeLengths.setIfInBounds st.symbol codeLen, symbol := st.symbol + 1,
             prev := if codeLen ≠ 0 then codeLen else st.prev }, r)
    else
      let slot := codeLen - 16
      if slot < 3 then
        let extraBits := codeLengthExtraBits.getD slot 0
        let repeatOffset := codeLengthRepeatOffsets.getD slot 0
        let (v, r) := ops.readBits r extraBits
        let repeatCount := v.toNat + repeatOffset
        if st.symbol + repeatCount > numSymbols then .err .repeatOverflow
        else
          let length := if codeLen = 16 then st.prev else 0
          .ok ({ codeLengths := fillRun st.codeLengths st.symbol repeatCount length,
                 symbol := st.symbol + repeatCount, prev := st.prev }, r)
      else .panic
  else .panic

/-- `for symbol < numSymbols { if remaining == 0 { break }; remaining--; … }` (recursion on `remaining`) -/
def clLoop (clTable : Table) (numSymbols : Nat) : (remaining : Nat) → CLState → ρ → Res Err (CLState × ρ)
  | 0, st, r => .ok (st, r)
  | rem + 1, st, r =>
    if st.symbol < numSymbols then
      match clStep ops clTable numSymbols st r with
      | .ok (st, r) => clLoop clTable numSymbols rem st r
      | .err e => .err e
      | .panic => .panic
      | .hang => .hang
    else .ok (st, r)

/-- the `max_symbol` part of `readHuffmanCodeLengths` (see `readCodeLengthsGo`) -/
def clMaxSymbol (numSymbols : Nat) (r : ρ) : Res Err (Nat × ρ) :=
  let (b, r) := ops.readBits r 1
  if b = 1 then
    let (n, r) := ops.readBits r 3
    let lengthNbits := 2 + 2 * n.toNat
    let (m, r) := ops.readBits r lengthNbits
    let maxSymbol := 2 + m.toNat
    if maxSymbol > numSymbols then .err .maxSymbol else .ok (maxSymbol, r)
  else .ok (numSymbols, r)

/-- the loop and the final `IsEndOfStream` test of `readHuffmanCodeLengths` -/
def clTail (clTable : Table) (numSymbols maxSymbol : Nat) (r : ρ) : Res Err (Array Nat × ρ) :=
  let r := ops.note "<loop" r
  match clLoop ops clTable numSymbols maxSymbol
      { codeLengths := Array.replicate numSymbols 0, symbol := 0, prev := 8 } r with
  | .ok (st, r) =>
    let r := ops.note ">" r
    let (e, r) := ops.eos r
    if e then .err .eos else .ok (st.codeLengths, r)
  | .err e => .err e
  | .panic => .panic
  | .hang => .hang

/-- `readHuffmanCodeLengths(clTable, numSymbols)`:
    ```
    maxSymbol := numSymbols
    if dec.br.ReadBits(1) == 1 {
      lengthNbits := 2 + 2*int(dec.br.ReadBits(3))
      maxSymbol = 2 + int(dec.br.ReadBits(lengthNbits))
      if maxSymbol > numSymbols { return nil, ErrBitstream }
    }
    symbol := 0; remaining := maxSymbol
    for symbol < numSymbols { … }
    if dec.br.IsEndOfStream() { return nil, ErrBitstream }
    return codeLengths, nil
    ``` -/
def readCodeLengthsGo (clTable : Table) (numSymbols : Nat) (r : ρ) : Res Err (Array Nat × ρ) :=
  match clMaxSymbol ops numSymbols r with
  | .ok (maxSymbol, r) => clTail ops clTable numSymbols maxSymbol r
  | .err e => .err e
  | .panic => .panic
  | .hang => .hang

/-- `for i := 0; i < numCodes; i++ { clCodeLengths[CodeLengthCodeOrder[i]] = int(dec.br.ReadBits(3)) }` -/
def clclLoop : (n : Nat) → (i : Nat) → Array Nat → ρ → Array Nat × ρ
  | 0, _, a, r => (a, r)
  | n + 1, i, a, r =>
    let (v, r) := ops.readBits r 3
    clclLoop n (i + 1) (a.setIfInBounds (codeLengthCodeOrder.getD i 0) v.toNat) r

/-- `if dec.br.IsEndOfStream() { return nil, 0, ErrBitstream }` at the end of `readHuffmanCode` -/
def finishCode (codeLengths : Array Nat) (r : ρ) : Res Err (Array Nat × ρ) :=
  let (e, r) := ops.eos r
  if e then .err .eos else .ok (codeLengths, r)

/-- the `simpleCode == 1` branch of `readHuffmanCode` (see `readHuffmanCodeLens`) and the final test -/
def readSimpleCode (alphabetSize : Nat) (r : ρ) : Res Err (Array Nat × ρ) :=
  let (ns, r) := ops.readBits r 1
  let numSymbols := ns.toNat + 1
  let (firstSymbolLenCode, r) := ops.readBits r 1
  let symbolBits := if firstSymbolLenCode = 0 then 1 else 8
  let (s, r) := ops.readBits r symbolBits
  if s.toNat ≥ alphabetSize then .err .codeSymbolRange
  else
    let codeLengths := (Array.replicate alphabetSize 0).setIfInBounds s.toNat 1
    if numSymbols = 2 then
      let (s2, r) := ops.readBits r 8
      if s2.toNat ≥ alphabetSize then .err .codeSymbolRange
      else finishCode ops (codeLengths.setIfInBounds s2.toNat 1) r
    else finishCode ops codeLengths r

/-- the normal-code branch after the code-length-code lengths are read: `BuildHuffmanTableScratch(7, …)`,
    `readHuffmanCodeLengths`, the final test -/
def normalTail (alphabetSize : Nat) (clCodeLengths : Array Nat) (r : ρ) : Res Err (Array Nat × ρ) :=
  match buildTable 7 clCodeLengths with
  | .ok clTable =>
    let r := ops.note "<readHuffmanCodeLengths" r
    match readCodeLengthsGo ops clTable alphabetSize r with
    | .ok (codeLengths, r) => finishCode ops codeLengths (ops.note ">" r)
    | .err e => .err e
    | .panic => .panic
    | .hang => .hang
  | .err e => .err (tErr e)
  | .panic => .panic
  | .hang => .hang

/-- the normal-code branch of `readHuffmanCode` -/
def readNormalCode (alphabetSize : Nat) (r : ρ) : Res Err (Array Nat × ρ) :=
  let (n, r) := ops.readBits r 4
  let numCodes := if n.toNat + 4 > 19 then 19 else n.toNat + 4
  let r := ops.note "<loop" r
  let (clCodeLengths, r) := clclLoop ops numCodes 0 (Array.replicate 19 0) r
  let r := ops.note ">" r
  normalTail ops alphabetSize clCodeLengths r

/-- `readHuffmanCode(alphabetSize)` up to (not including) `maxCodeLen` / `BuildHuffmanTableScratch(8, …)`:
    the code lengths.
    ```
    simpleCode := dec.br.ReadBits(1)
    if simpleCode == 1 {
      numSymbols := int(dec.br.ReadBits(1)) + 1
      firstSymbolLenCode := dec.br.ReadBits(1)
      symbolBits = 1 or 8
      symbol := int(dec.br.ReadBits(symbolBits)); if symbol >= alphabetSize { return ErrBitstream }
      codeLengths[symbol] = 1
      if numSymbols == 2 { symbol2 := int(dec.br.ReadBits(8)); if symbol2 >= alphabetSize { … }; codeLengths[symbol2] = 1 }
    } else {
      numCodes := int(dec.br.ReadBits(4)) + 4; if numCodes > CodeLengthCodes { numCodes = CodeLengthCodes }
      for i := 0; i < numCodes; i++ { clCodeLengths[CodeLengthCodeOrder[i]] = int(dec.br.ReadBits(3)) }
      clTable, err := BuildHuffmanTableScratch(LengthsTableBits, clCodeLengths[:], …)
      decodedLengths, err := dec.readHuffmanCodeLengths(clTable, alphabetSize)
    }
    if dec.br.IsEndOfStream() { return nil, 0, ErrBitstream }
    ``` -/
def readHuffmanCodeLens (alphabetSize : Nat) (r : ρ) : Res Err (Array Nat × ρ) :=
  let (simpleCode, r) := ops.readBits r 1
  if simpleCode = 1 then readSimpleCode ops alphabetSize r else readNormalCode ops alphabetSize r

/-- `readHuffmanCode(alphabetSize)`: the table and `maxCodeLen` -/
def readHuffmanCodeAt (alphabetSize : Nat) (r : ρ) : Res Err ((Table × Nat) × ρ) :=
  match readHuffmanCodeLens ops alphabetSize r with
  | .ok (codeLengths, r) =>
    match buildTable 8 codeLengths with
    | .ok table => .ok ((table, Webp.Impl.VP8LFastPaths.maxLenOf codeLengths), r)
    | .err e => .err (tErr e)
    | .panic => .panic
    | .hang => .hang
  | .err e => .err e
  | .panic => .panic
  | .hang => .hang

end generic

/-- `*bitio.LosslessReader` -/
def goOps2 : RdOps2 Reader := { goOps with readBits := fun r n => r.readBits n }

/-- **`readHuffmanCode` on the window reader** (code lengths) -/
def readHuffmanCodeLensGo (alphabetSize : Nat) (r : Reader) : Res Err (Array Nat × Reader) :=
  readHuffmanCodeLens goOps2 alphabetSize r

/-- **`readHuffmanCode` on the window reader** -/
def readHuffmanCodeGo (alphabetSize : Nat) (r : Reader) : Res Err ((Table × Nat) × Reader) :=
  readHuffmanCodeAt goOps2 alphabetSize r

/-! ## one entropy-coded image on the window reader

`decodeSubImage` → `decodeImageStream(xsize, ysize, false)` (colour-cache info, `readHuffmanCodes`
without meta codes: one group, five `readHuffmanCode` calls and the flag computation = `mkGroup`,
`updateDecoder`) → `decodeImageData`. -/

/-- `readHuffmanCode` for each alphabet size in turn -/
def readCodesGo : List Nat → Reader → Res Err (List (Table × Nat) × Reader)
  | [], r => .ok ([], r)
  | a :: as, r =>
    match readHuffmanCodeGo a r with
    | .ok (tm, r) =>
      match readCodesGo as r with
      | .ok (l, r) => .ok (tm :: l, r)
      | .err e => .err e
      | .panic => .panic
      | .hang => .hang
    | .err e => .err e
    | .panic => .panic
    | .hang => .hang

/-- the mapped-group part of `readHuffmanCodes` for one group:
    ```
    for j := 0; j < HuffmanCodesPerMetaCode; j++ {
      alphaSize := kBaseAlphabetSize[j]; if j == 0 && colorCacheBits > 0 { alphaSize += 1 << colorCacheBits }
      table, maxCodeLen, err := dec.readHuffmanCode(alphaSize) … (flags: `mkGroup`)
    }
    ``` -/
def readGroupGo (colorCacheBits : Nat) (r : Reader) : Res Err (Webp.Impl.VP8LFastPaths.HTreeGroup × Reader) :=
  match readCodesGo [Webp.Spec.VP8L.greenAlphabetSize colorCacheBits, 256, 256, 256, 40] r with
  | .ok ([g, rd, b, a, d], r) =>
    .ok (Webp.Impl.VP8LFastPaths.mkGroup ⟨g.1, rd.1, b.1, a.1, d.1⟩ ⟨g.2, rd.2, b.2, a.2, d.2⟩, r)
  | .ok _ => .panic
  | .err e => .err e
  | .panic => .panic
  | .hang => .hang

/-- codes and pixels once the colour-cache bits are known -/
def imageBody (w h colorCacheBits : Nat) (r : Reader) : Res Err (Array UInt32 × Reader) :=
  match readGroupGo colorCacheBits r with
  | .ok (g, r) =>
    decodePixelLoop (goSource #[g] w)
      { width := w, height := h, cacheBits := colorCacheBits,
        huffmanXSize := Webp.Spec.VP8L.subSampleSize w 0, numGroups := 1 } r
  | .err e => .err e
  | .panic => .panic
  | .hang => .hang

/-- `decodeSubImage(xsize, ysize)`:
    ```
    colorCacheBits := 0
    if dec.br.ReadBits(1) == 1 {
      colorCacheBits = int(dec.br.ReadBits(4))
      if colorCacheBits < 1 || colorCacheBits > MaxCacheBits { return ErrBitstream }
    }
    dec.readHuffmanCodes(xsize, ysize, colorCacheBits, false); …; dec.updateDecoder(xsize, ysize)
    dec.decodeImageData(data, xsize, ysize, ysize)
    ``` -/
def decodeEntropyImageGo (w h : Nat) (r : Reader) : Res Err (Array UInt32 × Reader) :=
  if (r.readBits 1).1 = 1 then
    if ((r.readBits 1).2.readBits 4).1.toNat < 1 ∨ ((r.readBits 1).2.readBits 4).1.toNat > 11 then .err .badCacheBits
    else imageBody w h ((r.readBits 1).2.readBits 4).1.toNat ((r.readBits 1).2.readBits 4).2
  else imageBody w h 0 (r.readBits 1).2

/-! ## the recording reader -/

/-- records the calls; `ReadBits` returns the next value of a script (0 when exhausted) -/
def traceOps2 : RdOps2 (List String × List Nat) where
  fill s := (s.1 ++ ["FillBitWindow"], s.2)
  prefetch s := (UInt32.ofNat (s.2.headD 0), (s.1 ++ ["PrefetchBits"], s.2.tail))
  advance s _ := (s.1 ++ ["SetBitPos"], s.2)
  eos s := (false, (s.1 ++ ["IsEndOfStream"], s.2))
  note n s := (s.1 ++ [n], s.2)
  readBits s _ := (UInt32.ofNat (s.2.headD 0), (s.1 ++ ["ReadBits"], s.2.tail))

/-- drop what a loop / a callee did: everything after an opening marker `<…` up to its `>` -/
def stripInner : (depth : Nat) → List String → List String
  | _, [] => []
  | 0, x :: r => if x.startsWith "<" then x :: stripInner 1 r else x :: stripInner 0 r
  | d + 1, x :: r =>
    if x.startsWith "<" then stripInner (d + 2) r else if x = ">" then stripInner d r else stripInner (d + 1) r

def logOf {α : Type} (x : Res Err (α × (List String × List Nat))) : List String :=
  match x with
  | .ok (_, s) => stripInner 0 s.1
  | _ => ["<no result>"]

/-- a code-length table steering the recorder: entry `i` is symbol `i` in 1 bit (only indices 0…18 matter) -/
def clSteer : Table := (List.range 128).toArray.map fun i => ({ bits := 1, value := i } : HCode)

/-- the paths of `readHuffmanCode` that differ in their reader calls (loops are one marker, their
    bodies separate shapes), named by the decisions taken; script = the values `ReadBits` returns -/
def codeShape : List (String × List String) :=
  [ ("simpleCode == 1=T numSymbols == 2=T", logOf (readHuffmanCodeLens traceOps2 300 ([], [1, 1, 0, 0, 0]))),
    ("simpleCode == 1=T numSymbols == 2=F", logOf (readHuffmanCodeLens traceOps2 300 ([], [1, 0, 0, 0]))),
    ("simpleCode == 1=F", logOf (readHuffmanCodeLens traceOps2 2 ([], [0, 0, 0, 0, 1, 1]))) ]

/-- the body of the `numCodes` loop -/
def codeLoopShape : List (String × List String) :=
  [ ("", (clclLoop traceOps2 1 0 (Array.replicate 19 0) ([], [])).2.1) ]

/-- `readHuffmanCodeLengths`: around the loop -/
def lengthsShape : List (String × List String) :=
  [ ("dec.br.ReadBits(1) == 1=T", logOf (readCodeLengthsGo traceOps2 clSteer 2 ([], [1, 0, 0]))),
    ("dec.br.ReadBits(1) == 1=F", logOf (readCodeLengthsGo traceOps2 clSteer 0 ([], [0]))) ]

/-- `readHuffmanCodeLengths`: the loop body -/
def lengthsLoopShape : List (String × List String) :=
  [ ("codeLen < CodeLengthLiterals=T",
      logOf (clStep traceOps2 clSteer 40 { codeLengths := Array.replicate 40 0, symbol := 0, prev := 8 } ([], [3]))),
    ("codeLen < CodeLengthLiterals=F",
      logOf (clStep traceOps2 clSteer 40 { codeLengths := Array.replicate 40 0, symbol := 0, prev := 8 } ([], [17, 0]))) ]

end Webp.Impl.VP8LWindow
