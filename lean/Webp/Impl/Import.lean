import Webp.Go.Basic
/-
  Webp.Impl.Import — every place of deepteams/webp that reads pixels out of the caller's image
  (property C19), as index-level models over the Go representation of an `*image.NRGBA`
  (`Pix`, `Stride`, `Rect`).

  Go sources modelled (statement by statement, loops as `forN`, every `Pix[i]` as `ld`, which
  *panics* outside `[0, len)`; every store into a destination buffer as `wr`, likewise):

    /repo/encode.go
      validNRGBA / validRGBA                                    `validNRGBA`
      encodeLossless          (NRGBA fast path, RGBA fast path)  `encodeLosslessNRGBA`, `encodeLosslessRGBA`
      encodeLosslessToWriter  (NRGBA fast path, RGBA fast path)  `encodeLosslessToWriterNRGBA`, `…RGBA`
      … generic `color.NRGBAModel.Convert(img.At(..))` path       `losslessGeneric`
      imageHasAlpha           (NRGBA/RGBA fast path, generic)    `hasAlphaFast`, `hasAlphaGeneric`
      extractAlphaWith        (NRGBA/RGBA fast path, generic)    `extractAlphaFast`, `extractAlphaGeneric`
      cleanupTransparentAreaLossyWith copy-in (NRGBA `copy` of row slices, RGBA un-premultiply,
                               generic `SetNRGBA`)               `cleanupCopyNRGBA`, `cleanupCopyRGBA`, `cleanupCopyGeneric`
      sharpYUVConvert         (NRGBA/RGBA fast path, generic)    `sharpRGBFast`, `sharpRGBGeneric`
    /repo/internal/lossy/encode.go
      imageHasAlpha           (AND-reduction unrolled by 4)      `lossyHasAlphaFast`, `lossyHasAlphaGeneric`
      importImage  Y: parallel direct / serial direct (dither) / generic
                                                                 `yDirectPar`, `yDirectSer`, `yGeneric`
                   U/V: parallel direct row pairs / serial `extractRow` (direct, generic)
                                                                 `uvDirectPar`, `uvSerial`
    std-lib (image, image/color)
      (*NRGBA).PixOffset / NRGBAAt / SubImage, NewNRGBA, Rectangle.Intersect/Empty/In
      color.NRGBAModel.Convert on a color.RGBA                    `nrgbaModelRGBA`

  Conventions
  * Go `int` values are `Int`s without wrap-around.  This is exact under `Valid`: every
    intermediate lies between `0` and `len(Pix) < 2^63`, or between two coordinates of `Rect`
    (`valid_int_range` in Webp/Proofs/ImportBasic.lean spells the bounds out).
  * For `*image.NRGBA` (and `*image.RGBA`) `img.Bounds()` *is* `img.Rect`; the model keeps the two
    names (`Img.bounds`, `Img.rect`) so that the index expressions read like the Go text,
    e.g. `(y + bounds.Min.Y - nrgba.Rect.Min.Y)*nrgba.Stride + (bounds.Min.X - nrgba.Rect.Min.X)*4`.
  * Destination buffers come from pools (`argbPool`, the pooled `VP8Encoder`, `importUVWorkerPool`)
    and therefore hold *arbitrary stale data* when the import starts: every import takes the
    initial buffer as a parameter and the theorems hold for all of them.
  * The per-pixel colour conversions of the lossy import — `dsp.RGBToY`, `dsp.RGBToYRounding`,
    the pseudo-random generator `dsp.RandomBits`, and `dsp.AccumulateRGBA` + `dsp.ConvertRGBA32ToUV
    [Dithered]` applied to the planar buffers of one row pair — are UNINTERPRETED: they are the
    fields of `Conv`, and every theorem quantifies over all of them.  The random generator is a
    state transformer `σ → Int × σ` (read from /repo/internal/dsp/random.go: `RandomBits2`
    updates `rg.tab/index1/index2` from `rg` alone — the noise depends on the *sequence number*
    of the call, never on pixel data or memory layout).
  * The four parallel planar byte buffers `rBuf/gBuf/bBuf/aBuf` (always written together at the
    same index) are one `Array RGBA8`.  Row buffers have length exactly `padW` (a pooled worker
    may own longer ones; only `[0, padW)` of each is ever read).
  * The goroutine fan-out of the parallel paths is executed worker after worker
    (`nWorkers` arbitrary); that the workers' writes are disjoint is C10/C12's business
    (Webp.Impl.Partition).
  Core Lean only.
-/
namespace Webp.Impl.Import
open Webp.Go

/-- outcome of a piece of Go code: a value or a run-time panic -/
abbrev R := Res Unit

structure RGBA8 where
  r : UInt8
  g : UInt8
  b : UInt8
  a : UInt8
  deriving DecidableEq, Repr, Inhabited

def RGBA8.zero : RGBA8 := ⟨0, 0, 0, 0⟩

/-- `image.Rectangle` -/
structure Rect where
  minX : Int
  minY : Int
  maxX : Int
  maxY : Int
  deriving DecidableEq, Repr, Inhabited

/-- `Rectangle.Dx` -/
@[inline] def Rect.dx (r : Rect) : Int := r.maxX - r.minX
/-- `Rectangle.Dy` -/
@[inline] def Rect.dy (r : Rect) : Int := r.maxY - r.minY
/-- `Point{x,y}.In(r)` -/
@[inline] def Rect.contains (r : Rect) (x y : Int) : Bool :=
  decide (r.minX ≤ x) && decide (x < r.maxX) && decide (r.minY ≤ y) && decide (y < r.maxY)
/-- `Rectangle.Empty` -/
@[inline] def Rect.empty (r : Rect) : Bool := decide (r.minX ≥ r.maxX) || decide (r.minY ≥ r.maxY)

/-- `Rectangle.Intersect` -/
def Rect.intersect (r s : Rect) : Rect :=
  let r := if r.minX < s.minX then { r with minX := s.minX } else r
  let r := if r.minY < s.minY then { r with minY := s.minY } else r
  let r := if r.maxX > s.maxX then { r with maxX := s.maxX } else r
  let r := if r.maxY > s.maxY then { r with maxY := s.maxY } else r
  if r.empty then ⟨0, 0, 0, 0⟩ else r

/-- a Go `*image.NRGBA` or `*image.RGBA` value (the two types have the same layout; which of the
    two it is decides how the four bytes of a pixel are *interpreted*) -/
structure Img where
  pix : Array UInt8
  stride : Int
  rect : Rect
  deriving DecidableEq, Repr, Inhabited

namespace Img

/-- `(*image.NRGBA).Bounds` : `return p.Rect` -/
@[inline] def bounds (p : Img) : Rect := p.rect

/-- `(*image.NRGBA).PixOffset` -/
@[inline] def pixOffset (p : Img) (x y : Int) : Int :=
  (y - p.rect.minY) * p.stride + (x - p.rect.minX) * 4

/-- byte `i` of `Pix` for the total functions below (`0` outside; never used outside under `Valid`) -/
@[inline] def byte (p : Img) (i : Int) : UInt8 := p.pix.getD i.toNat 0

/-- `(*image.NRGBA).NRGBAAt` / `(*image.RGBA).RGBAAt`, including the panic of the three-index
    slice `p.Pix[i : i+4 : i+4]` (strict: `i+4 ≤ len`; Go checks `cap`, the harness pins `cap == len`) -/
def colorAt (p : Img) (x y : Int) : R RGBA8 :=
  if !(p.rect.contains x y) then .ok RGBA8.zero
  else
    let i := p.pixOffset x y
    if 0 ≤ i ∧ i + 4 ≤ p.pix.size then
      .ok ⟨p.byte i, p.byte (i + 1), p.byte (i + 2), p.byte (i + 3)⟩
    else .panic

/-- the colour `NRGBAAt(x, y)` *means*: total version of `colorAt` -/
def view (p : Img) (x y : Int) : RGBA8 :=
  if p.rect.contains x y then
    let i := p.pixOffset x y
    ⟨p.byte i, p.byte (i + 1), p.byte (i + 2), p.byte (i + 3)⟩
  else RGBA8.zero

/-- `Dx()`, `Dy()` as naturals -/
def w (p : Img) : Nat := p.rect.dx.toNat
def h (p : Img) : Nat := p.rect.dy.toNat

/-- `image.NewNRGBA(image.Rect(0, 0, w, h))` filled from a row-major RGBA byte list -/
def ofPixels (w h : Nat) (bytes : Array UInt8) : Img :=
  { pix := bytes, stride := 4 * w, rect := ⟨0, 0, w, h⟩ }

/-- `(*image.NRGBA).SubImage(r)`:
    `r = r.Intersect(p.Rect); if r.Empty() { return &NRGBA{} }; i := p.PixOffset(r.Min.X, r.Min.Y);
     return &NRGBA{Pix: p.Pix[i:], Stride: p.Stride, Rect: r}` -/
def subImage (p : Img) (r : Rect) : R Img :=
  let r := r.intersect p.rect
  if r.empty then .ok { pix := #[], stride := 0, rect := ⟨0, 0, 0, 0⟩ }
  else
    let i := p.pixOffset r.minX r.minY
    if 0 ≤ i ∧ i ≤ p.pix.size then
      .ok { pix := p.pix.extract i.toNat p.pix.size, stride := p.stride, rect := r }
    else .panic

end Img

/-! ### validity -/

/-- /repo/encode.go `validNRGBA(img, w, h)` (= `validRGBA`):
    `img.Stride >= w*4 && len(img.Pix) >= (h-1)*img.Stride+w*4` -/
def validNRGBA (img : Img) (w h : Int) : Bool :=
  decide (img.stride ≥ w * 4) && decide ((img.pix.size : Int) ≥ (h - 1) * img.stride + w * 4)

/-- `webp.MaxDimension` -/
def maxDimension : Int := 16383

/-- What holds of the image whenever a fast path runs: `Encode`'s dimension check passed
    (`0 < Dx, Dy ≤ MaxDimension`), and `validNRGBA(img, Dx, Dy)`.
    Every `*image.NRGBA` made by `image.NewNRGBA` and `SubImage` with a non-empty rectangle
    satisfies the second part (`ofPixels_valid`, `subImage_valid`); `len(Pix) < 2^63` is typing. -/
structure Valid (img : Img) : Prop where
  wpos : 0 < img.rect.dx
  hpos : 0 < img.rect.dy
  wmax : img.rect.dx ≤ maxDimension
  hmax : img.rect.dy ≤ maxDimension
  stride_ge : img.stride ≥ img.rect.dx * 4
  size_ge : (img.pix.size : Int) ≥ (img.rect.dy - 1) * img.stride + img.rect.dx * 4
  size_lt : img.pix.size < 2 ^ 63

instance (img : Img) : Decidable (Valid img) :=
  if h : 0 < img.rect.dx ∧ 0 < img.rect.dy ∧ img.rect.dx ≤ maxDimension ∧ img.rect.dy ≤ maxDimension ∧
      img.stride ≥ img.rect.dx * 4 ∧
      (img.pix.size : Int) ≥ (img.rect.dy - 1) * img.stride + img.rect.dx * 4 ∧ img.pix.size < 2 ^ 63
  then isTrue ⟨h.1, h.2.1, h.2.2.1, h.2.2.2.1, h.2.2.2.2.1, h.2.2.2.2.2.1, h.2.2.2.2.2.2⟩
  else isFalse fun v => h ⟨v.wpos, v.hpos, v.wmax, v.hmax, v.stride_ge, v.size_ge, v.size_lt⟩

/-! ### loops, loads, stores -/

/-- `for i := 0; i < n; i++ { s = body(i, s) }`; a panic in the body ends the loop -/
def forN {σ : Type} (n : Nat) (body : Nat → σ → R σ) (s : σ) : R σ :=
  match n with
  | 0 => .ok s
  | n + 1 => forN n body s >>= body n

/-- `for i := lo; i < hi; i++ { s = body(i, s) }` -/
def forRange {σ : Type} (lo hi : Nat) (body : Nat → σ → R σ) (s : σ) : R σ :=
  forN (hi - lo) (fun k s => body (lo + k) s) s

/-- `for y := lo; y < hi; y++` over Go ints -/
def forRangeI {σ : Type} (lo hi : Int) (body : Int → σ → R σ) (s : σ) : R σ :=
  forN (hi - lo).toNat (fun k s => body (lo + (k : Int)) s) s

/-- `pix[i]` -/
@[inline] def ld (pix : Array UInt8) (i : Int) : R UInt8 :=
  if 0 ≤ i ∧ i < pix.size then .ok (pix.getD i.toNat 0) else .panic

/-- `buf[i] = v` -/
@[inline] def wr {α : Type} (buf : Array α) (i : Int) (v : α) : R (Array α) :=
  if 0 ≤ i ∧ i < buf.size then .ok (buf.setIfInBounds i.toNat v) else .panic

/-- `buf[i]` on a destination buffer -/
@[inline] def rdBuf {α : Type} [Inhabited α] (buf : Array α) (i : Int) : R α :=
  if 0 ≤ i ∧ i < buf.size then .ok (buf.getD i.toNat default) else .panic

/-- the four loads `pix[off], pix[off+1], pix[off+2], pix[off+3]` of one pixel -/
@[inline] def ldPx (pix : Array UInt8) (off : Int) : R RGBA8 := do
  let r ← ld pix off
  let g ← ld pix (off + 1)
  let b ← ld pix (off + 2)
  let a ← ld pix (off + 3)
  pure ⟨r, g, b, a⟩

/-! ### pixel arithmetic -/

/-- `uint32(a)<<24 | uint32(r)<<16 | uint32(g)<<8 | uint32(b)` -/
@[inline] def packARGB (c : RGBA8) : UInt32 :=
  c.a.toUInt32 <<< 24 ||| c.r.toUInt32 <<< 16 ||| c.g.toUInt32 <<< 8 ||| c.b.toUInt32

/-- `uint8(uint16(c) * 255 / uint16(a))` (the product fits `uint16`: `255·255 = 65025`) -/
@[inline] def unpremulFast (a c : UInt8) : UInt8 :=
  (c.toUInt16 * 255 / a.toUInt16).toUInt8

/-- the un-premultiply of the RGBA fast path of `encodeLossless[ToWriter]`:
    `if a > 0 && a < 255 { r = uint8(uint16(r)*255/a16); … }` — alpha 0 keeps `r,g,b` as stored -/
def rgbaFastLossless (c : RGBA8) : RGBA8 :=
  if c.a > 0 ∧ c.a < 255 then
    ⟨unpremulFast c.a c.r, unpremulFast c.a c.g, unpremulFast c.a c.b, c.a⟩
  else c

/-- the un-premultiply of the RGBA branch of `cleanupTransparentAreaLossyWith`:
    alpha 0 → the zero pixel `NewNRGBA` left there; alpha 255 → copy; else `c*255/a` -/
def rgbaFastCleanup (c : RGBA8) : RGBA8 :=
  if c.a = 0 then RGBA8.zero
  else if c.a = 255 then ⟨c.r, c.g, c.b, 255⟩
  else ⟨unpremulFast c.a c.r, unpremulFast c.a c.g, unpremulFast c.a c.b, c.a⟩

/-- one channel of `color.NRGBAModel.Convert(color.RGBA{…})` for `0 < a < 255`:
    `c16 = c | c<<8; a16 = a | a<<8; uint8(((c16 * 0xffff) / a16) >> 8)` in `uint32` -/
@[inline] def unpremulGeneric (a c : UInt8) : UInt8 :=
  let c16 : UInt32 := c.toUInt32 ||| c.toUInt32 <<< 8
  let a16 : UInt32 := a.toUInt32 ||| a.toUInt32 <<< 8
  ((c16 * 0xffff / a16) >>> 8).toUInt8

/-- `color.NRGBAModel.Convert(color.RGBA{r,g,b,a}).(color.NRGBA)`
    ($GOROOT/src/image/color/color.go `nrgbaModel` ∘ `RGBA.RGBA`) -/
def nrgbaModelRGBA (c : RGBA8) : RGBA8 :=
  if c.a = 255 then ⟨c.r, c.g, c.b, 255⟩          -- a16 == 0xffff: uint8((c|c<<8) >> 8) = c
  else if c.a = 0 then RGBA8.zero
  else ⟨unpremulGeneric c.a c.r, unpremulGeneric c.a c.g, unpremulGeneric c.a c.b, c.a⟩

/-- `_, _, _, a := color.NRGBA{…}.RGBA(); a != 0xffff`  with `a = uint32(A) | uint32(A)<<8` -/
@[inline] def alpha16NotOpaque (c : RGBA8) : Bool :=
  (c.a.toUInt32 ||| c.a.toUInt32 <<< 8) != 0xffff

/-! ## /repo/encode.go — lossless import -/

/-- the NRGBA and RGBA branches of `encodeLossless`; `px` is what happens to the four loaded
    bytes before packing (`id` for NRGBA, `rgbaFastLossless` for RGBA).  `argb` is
    `ab.data[:pixelCount]` from `argbPool` (stale contents). -/
def losslessDirect (px : RGBA8 → RGBA8) (img : Img) (argb : Array UInt32) : R (Array UInt32) :=
  let bounds := img.bounds
  let width := bounds.dx
  let height := bounds.dy
  forN height.toNat (fun y argb =>
    let rowOff := ((y : Int) + bounds.minY - img.rect.minY) * img.stride + (bounds.minX - img.rect.minX) * 4
    forN width.toNat (fun x argb => do
      let off := rowOff + (x : Int) * 4
      let c ← ldPx img.pix off
      wr argb ((y : Int) * width + (x : Int)) (packARGB (px c))) argb) argb

/-- encode.go:638-645 -/
def encodeLosslessNRGBA (img : Img) (argb : Array UInt32) : R (Array UInt32) := losslessDirect id img argb
/-- encode.go:646-662 -/
def encodeLosslessRGBA (img : Img) (argb : Array UInt32) : R (Array UInt32) := losslessDirect rgbaFastLossless img argb
/-- encode.go:705-712 (the streaming twin; same text) -/
def encodeLosslessToWriterNRGBA (img : Img) (argb : Array UInt32) : R (Array UInt32) := losslessDirect id img argb
/-- encode.go:713-728 -/
def encodeLosslessToWriterRGBA (img : Img) (argb : Array UInt32) : R (Array UInt32) := losslessDirect rgbaFastLossless img argb

/-- encode.go:664-669 / 730-735: `c := color.NRGBAModel.Convert(img.At(bounds.Min.X+x, bounds.Min.Y+y))`;
    `atFn` is `NRGBAModel.Convert ∘ img.At` -/
def losslessGeneric (atFn : Int → Int → R RGBA8) (bounds : Rect) (argb : Array UInt32) : R (Array UInt32) :=
  let width := bounds.dx
  let height := bounds.dy
  forN height.toNat (fun y argb =>
    forN width.toNat (fun x argb => do
      let c ← atFn (bounds.minX + (x : Int)) (bounds.minY + (y : Int))
      wr argb ((y : Int) * width + (x : Int)) (packARGB c)) argb) argb

/-- closed form of an imported ARGB buffer: pixel `(x, y)` (relative to `bounds.Min`) at `y*w + x` -/
def argbOf (f : Nat → Nat → RGBA8) (w h : Nat) : Array UInt32 :=
  Array.ofFn (n := w * h) fun i => packARGB (f (i.val % w) (i.val / w))

/-! ## /repo/encode.go — imageHasAlpha -/

/-- encode.go:1134-1145 (NRGBA) = 1146-1157 (RGBA):
    `for y := b.Min.Y; y < b.Max.Y; y++ { off := (y-b.Min.Y)*Stride + 3; for x := 0; x < w; x++ {
       if Pix[off] != 255 { return true }; off += 4 } }; return false`.
    State: `(returned-true?, off)`. -/
def hasAlphaFast (img : Img) : R Bool :=
  let b := img.bounds
  let w := b.dx
  (forRangeI b.minY b.maxY (fun y found =>
    if found then .ok true else
    let off := (y - b.minY) * img.stride + 3
    (forN w.toNat (fun _ (st : Bool × Int) =>
      if st.1 then .ok st else do
        let v ← ld img.pix st.2
        if v != 255 then .ok (true, st.2) else .ok (false, st.2 + 4)) (false, off)) >>= fun st => .ok st.1)
    false)

/-- encode.go:1158-1166: `for y := b.Min.Y..b.Max.Y, x := b.Min.X..b.Max.X { _,_,_,a := img.At(x,y).RGBA();
    if a != 0xFFFF { return true } }` -/
def hasAlphaGeneric (atFn : Int → Int → R RGBA8) (b : Rect) : R Bool :=
  forRangeI b.minY b.maxY (fun y found =>
    if found then .ok true else
    forRangeI b.minX b.maxX (fun x found =>
      if found then .ok true else do
        let c ← atFn x y
        .ok (alpha16NotOpaque c)) false) false

/-- closed form: some pixel of the `w×h` picture has alpha ≠ 255 -/
def anyAlpha (f : Nat → Nat → RGBA8) (w h : Nat) : Bool :=
  (List.range h).any fun y => (List.range w).any fun x => (f x y).a != 255

/-! ## /repo/internal/lossy/encode.go — imageHasAlpha (no `validNRGBA` guard) -/

/-- lossy/encode.go:948-972 (NRGBA) = 973-996 (RGBA): per row `acc := 0xff`, AND of the alpha
    bytes four at a time (`rowOff+3, +7, +11, +15; rowOff += 16`), then one at a time;
    `if acc != 0xff { return true }`.  State of the row loops: `(acc, rowOff)`. -/
def lossyHasAlphaFast (img : Img) : R Bool :=
  let bounds := img.bounds
  let w := bounds.dx
  forRangeI bounds.minY bounds.maxY (fun y found =>
    if found then .ok true else do
    let rowOff := (y - img.rect.minY) * img.stride + (bounds.minX - img.rect.minX) * 4
    -- for ; x+4 <= w; x += 4
    let st ← forN (w.toNat / 4) (fun _ (st : UInt8 × Int) => do
      let a0 ← ld img.pix (st.2 + 3)
      let a1 ← ld img.pix (st.2 + 7)
      let a2 ← ld img.pix (st.2 + 11)
      let a3 ← ld img.pix (st.2 + 15)
      .ok (st.1 &&& a0 &&& a1 &&& a2 &&& a3, st.2 + 16)) ((0xff : UInt8), rowOff)
    -- for ; x < w; x++
    let st ← forN (w.toNat % 4) (fun _ (st : UInt8 × Int) => do
      let a0 ← ld img.pix (st.2 + 3)
      .ok (st.1 &&& a0, st.2 + 4)) st
    .ok (st.1 != 0xff)) false

/-- lossy/encode.go:997-1006 — same text as `hasAlphaGeneric` -/
def lossyHasAlphaGeneric (atFn : Int → Int → R RGBA8) (b : Rect) : R Bool := hasAlphaGeneric atFn b

/-! ## /repo/encode.go — extractAlphaWith (reached only with `hasAlpha = true`) -/

/-- encode.go:1249-1258 (NRGBA) = 1259-1268 (RGBA): `rowOff := (y+b.Min.Y-Rect.Min.Y)*Stride +
    (b.Min.X-Rect.Min.X)*4 + 3; for x { alpha[y*w+x] = Pix[rowOff]; rowOff += 4 }`.
    `alpha` is a fresh `make([]byte, w*h)`; the model still takes any initial contents. -/
def extractAlphaFast (img : Img) (alpha : Array UInt8) : R (Array UInt8) :=
  let b := img.bounds
  let w := b.dx
  let h := b.dy
  forN h.toNat (fun y alpha =>
    let rowOff := ((y : Int) + b.minY - img.rect.minY) * img.stride + (b.minX - img.rect.minX) * 4 + 3
    (forN w.toNat (fun x (st : Array UInt8 × Int) => do
      let v ← ld img.pix st.2
      let alpha ← wr st.1 ((y : Int) * w + (x : Int)) v
      .ok (alpha, st.2 + 4)) (alpha, rowOff)) >>= fun st => .ok st.1) alpha

/-- encode.go:1269-1275 -/
def extractAlphaGeneric (atFn : Int → Int → R RGBA8) (b : Rect) (alpha : Array UInt8) : R (Array UInt8) :=
  let w := b.dx
  let h := b.dy
  forN h.toNat (fun y alpha =>
    forN w.toNat (fun x alpha => do
      let c ← atFn (b.minX + (x : Int)) (b.minY + (y : Int))
      wr alpha ((y : Int) * w + (x : Int)) c.a) alpha) alpha

def alphaOf (f : Nat → Nat → RGBA8) (w h : Nat) : Array UInt8 :=
  Array.ofFn (n := w * h) fun i => (f (i.val % w) (i.val / w)).a

/-! ## /repo/encode.go — cleanupTransparentAreaLossyWith, copy-in

  `nrgba := image.NewNRGBA(image.Rect(0, 0, width, height))` is a *fresh* buffer (stride `4*width`,
  all zero); everything after the copy-in (`smoothenBlockNRGBA`, `flattenBlockNRGBA`) reads and
  writes `nrgba` only — the caller's `Pix` appears on the right-hand side of `copy` / in index
  expressions only. -/

/-- Go `l[a:b]` on an `Array` (strict: `b ≤ len`) -/
@[inline] def sliceArr {α : Type} (l : Array α) (a b : Int) : R (Array α) :=
  if 0 ≤ a ∧ a ≤ b ∧ b ≤ l.size then .ok (l.extract a.toNat b.toNat) else .panic

/-- `copy(dst[a:a+n], src)` with `len(src) = n`: elements `a … a+n-1` of `dst` are replaced -/
def copyInto {α : Type} (dst : Array α) (a : Nat) (src : Array α) : Array α :=
  dst.extract 0 a ++ src ++ dst.extract (a + src.size) dst.size

/-- encode.go:798-803: `copy(nrgba.Pix[dstOff:dstOff+width*4], src.Pix[srcOff:srcOff+width*4])` per row -/
def cleanupCopyNRGBA (src : Img) (dstPix : Array UInt8) : R (Array UInt8) :=
  let bounds := src.bounds
  let width := bounds.dx
  let height := bounds.dy
  let dstStride := 4 * width
  forN height.toNat (fun y dstPix => do
    let srcOff := ((y : Int) + bounds.minY - src.rect.minY) * src.stride + (bounds.minX - src.rect.minX) * 4
    let dstOff := (y : Int) * dstStride
    let s ← sliceArr src.pix srcOff (srcOff + width * 4)
    let _ ← sliceArr dstPix dstOff (dstOff + width * 4)
    .ok (copyInto dstPix dstOff.toNat s)) dstPix

/-- store of one pixel at byte offset `doff` of the copy (`nrgba.Pix[doff..doff+3] = …`, `SetNRGBA`) -/
def wrPx (dst : Array UInt8) (doff : Int) (c : RGBA8) : R (Array UInt8) := do
  let d ← wr dst doff c.r
  let d ← wr d (doff + 1) c.g
  let d ← wr d (doff + 2) c.b
  wr d (doff + 3) c.a

/-- encode.go:804-827: the RGBA branch writes `rgbaFastCleanup` of the loaded pixel (for `a == 0`
    nothing is written: the fresh buffer is zero there — the model writes the zero pixel) -/
def cleanupCopyRGBA (src : Img) (dstPix : Array UInt8) : R (Array UInt8) :=
  let bounds := src.bounds
  let width := bounds.dx
  let height := bounds.dy
  let dstStride := 4 * width
  forN height.toNat (fun y dstPix =>
    let srcOff := ((y : Int) + bounds.minY - src.rect.minY) * src.stride + (bounds.minX - src.rect.minX) * 4
    let dstOff := (y : Int) * dstStride
    forN width.toNat (fun x dstPix => do
      let soff := srcOff + (x : Int) * 4
      let doff := dstOff + (x : Int) * 4
      let c ← ldPx src.pix soff
      wrPx dstPix doff (rgbaFastCleanup c)) dstPix) dstPix

/-- encode.go:828-835: `nrgba.SetNRGBA(x, y, NRGBAModel.Convert(img.At(Min.X+x, Min.Y+y)))` -/
def cleanupCopyGeneric (atFn : Int → Int → R RGBA8) (bounds : Rect) (dstPix : Array UInt8) : R (Array UInt8) :=
  let width := bounds.dx
  let height := bounds.dy
  let dstStride := 4 * width
  forN height.toNat (fun y dstPix =>
    forN width.toNat (fun x dstPix => do
      let c ← atFn (bounds.minX + (x : Int)) (bounds.minY + (y : Int))
      wrPx dstPix ((y : Int) * dstStride + (x : Int) * 4) c) dstPix) dstPix

/-- closed form: tightly packed row-major RGBA bytes of the `w×h` picture -/
def bytesOf (f : Nat → Nat → RGBA8) (w h : Nat) : Array UInt8 :=
  Array.ofFn (n := w * h * 4) fun i =>
    let c := f (i.val / 4 % w) (i.val / 4 / w)
    match i.val % 4 with
    | 0 => c.r
    | 1 => c.g
    | 2 => c.b
    | _ => c.a

/-! ## /repo/encode.go — sharpYUVConvert: packed RGB, 3 bytes per pixel -/

/-- encode.go:1189-1200 (NRGBA) = 1201-1212 (RGBA: the *premultiplied* bytes are copied as they are):
    `srcOff := …; dstOff := y*rgbStride; for x { rgb[dstOff..+2] = Pix[srcOff..+2]; srcOff += 4; dstOff += 3 }` -/
def sharpRGBFast (img : Img) (rgb : Array UInt8) : R (Array UInt8) :=
  let bounds := img.bounds
  let w := bounds.dx
  let h := bounds.dy
  let rgbStride := w * 3
  forN h.toNat (fun y rgb =>
    let srcOff := ((y : Int) + bounds.minY - img.rect.minY) * img.stride + (bounds.minX - img.rect.minX) * 4
    let dstOff := (y : Int) * rgbStride
    (forN w.toNat (fun _ (st : Array UInt8 × Int × Int) => do
      let (rgb, srcOff, dstOff) := st
      let r ← ld img.pix srcOff
      let rgb ← wr rgb dstOff r
      let g ← ld img.pix (srcOff + 1)
      let rgb ← wr rgb (dstOff + 1) g
      let b ← ld img.pix (srcOff + 2)
      let rgb ← wr rgb (dstOff + 2) b
      .ok (rgb, srcOff + 4, dstOff + 3)) (rgb, srcOff, dstOff)) >>= fun st => .ok st.1) rgb

/-- encode.go:1213-1223 -/
def sharpRGBGeneric (atFn : Int → Int → R RGBA8) (bounds : Rect) (rgb : Array UInt8) : R (Array UInt8) :=
  let w := bounds.dx
  let h := bounds.dy
  let rgbStride := w * 3
  forN h.toNat (fun y rgb =>
    forN w.toNat (fun x rgb => do
      let c ← atFn (bounds.minX + (x : Int)) (bounds.minY + (y : Int))
      let off := (y : Int) * rgbStride + (x : Int) * 3
      let rgb ← wr rgb (off + 0) c.r
      let rgb ← wr rgb (off + 1) c.g
      wr rgb (off + 2) c.b) rgb) rgb

def rgbOf (f : Nat → Nat → RGBA8) (w h : Nat) : Array UInt8 :=
  Array.ofFn (n := w * h * 3) fun i =>
    let c := f (i.val / 3 % w) (i.val / 3 / w)
    match i.val % 3 with
    | 0 => c.r
    | 1 => c.g
    | _ => c.b

/-! ## /repo/internal/lossy/encode.go — importImage -/

/-- the uninterpreted colour conversions (see the header) -/
structure Conv (Y UV σ : Type) where
  /-- `dsp.RGBToY(int(r), int(g), int(b))` -/
  rgbToY : UInt8 → UInt8 → UInt8 → Y
  /-- `dsp.RGBToYRounding(r, g, b, rounding)` -/
  rgbToYR : UInt8 → UInt8 → UInt8 → Int → Y
  /-- `dsp.RandomBits(rg, dsp.YUVFix)`: the value and the generator's next state -/
  rnd : σ → Int × σ
  /-- `dsp.AccumulateRGBA(planarR, planarG, planarB, planarA, padW, tmpRGB, padW)` followed by
      `dsp.ConvertRGBA32ToUV(tmpRGB, u, v, uvWidth)`: the `u`/`v` values of one chroma row -/
  uv : Array RGBA8 → UV
  /-- … followed by `dsp.ConvertRGBA32ToUVDithered(tmpRGB, u, v, uvWidth, rg)` -/
  uvD : Array RGBA8 → σ → UV × σ

/-- `mbW := (w + 15) >> 4; padW := mbW * 16` -/
def pad16 (w : Int) : Nat := ((w + 15) / 16 * 16).toNat

/-- `if sy >= h { sy = h - 1 }` -/
@[inline] def clampTo (v n : Int) : Int := if v ≥ n then n - 1 else v

section Lossy
variable {Y UV σ : Type} (cv : Conv Y UV σ)

/-- lossy/encode.go:757-792, the non-dithered direct path.  `nWorkers` is `min(GOMAXPROCS, padH)`
    (any value ≥ 1).  Worker `wi` handles rows `[wi*padH/nWorkers, (wi+1)*padH/nWorkers)`:
    `RGBToY` of the `w` pixels of source row `min(y, h-1)`, then
    `val := yPlane[dstBase+w-1]` replicated to the right.  `yStride = padW`. -/
def yDirectPar [Inhabited Y] (nWorkers : Nat) (img : Img) (yPlane : Array Y) : R (Array Y) :=
  let bounds := img.bounds
  let w := bounds.dx
  let h := bounds.dy
  let padW := pad16 w
  let padH := pad16 h
  let yStride : Int := padW
  forN nWorkers (fun wi yPlane =>
    let startY := wi * padH / nWorkers
    let endY := (wi + 1) * padH / nWorkers
    let srcBase := (bounds.minY - img.rect.minY) * img.stride + (bounds.minX - img.rect.minX) * 4
    forRange startY endY (fun y yPlane => do
      let sy := clampTo (y : Int) h
      let rowOff := srcBase + sy * img.stride
      let dstBase := (y : Int) * yStride
      let yPlane ← forN w.toNat (fun x yPlane => do
        let off := rowOff + (x : Int) * 4
        let r ← ld img.pix off
        let g ← ld img.pix (off + 1)
        let b ← ld img.pix (off + 2)
        wr yPlane (dstBase + (x : Int)) (cv.rgbToY r g b)) yPlane
      -- Edge replication for padding.
      if (padW : Int) > w then do
        let val ← rdBuf yPlane (dstBase + w - 1)
        forRange w.toNat padW (fun x yPlane => wr yPlane (dstBase + (x : Int)) val) yPlane
      else .ok yPlane) yPlane) yPlane

/-- lossy/encode.go:793-809, the dithered direct path (serial): every `(y, x)` of the padded plane,
    source coordinates clamped, one `RandomBits` draw per sample in row-major order -/
def yDirectSer (img : Img) (st : Array Y × σ) : R (Array Y × σ) :=
  let bounds := img.bounds
  let w := bounds.dx
  let h := bounds.dy
  let padW := pad16 w
  let padH := pad16 h
  let yStride : Int := padW
  forN padH (fun y st =>
    let sy0 := (y : Int) + bounds.minY
    let sy := if sy0 ≥ bounds.minY + h then bounds.minY + h - 1 else sy0
    let rowOff := (sy - img.rect.minY) * img.stride + (bounds.minX - img.rect.minX) * 4
    forN padW (fun x (st : Array Y × σ) => do
      let sx := clampTo (x : Int) w
      let off := rowOff + sx * 4
      let r ← ld img.pix off
      let g ← ld img.pix (off + 1)
      let b ← ld img.pix (off + 2)
      let d := cv.rnd st.2          -- (noise, next generator state)
      let yPlane ← wr st.1 ((y : Int) * yStride + (x : Int)) (cv.rgbToYR r g b d.1)
      .ok (yPlane, d.2)) st) st

/-- lossy/encode.go:810-830, the generic path; `rg = none` ⇔ `rg == nil` (no dithering) -/
def yGeneric (atFn : Int → Int → R RGBA8) (bounds : Rect) (st : Array Y × Option σ) : R (Array Y × Option σ) :=
  let w := bounds.dx
  let h := bounds.dy
  let padW := pad16 w
  let padH := pad16 h
  let yStride : Int := padW
  forN padH (fun y st =>
    let sy0 := (y : Int) + bounds.minY
    let sy := if sy0 ≥ bounds.minY + h then bounds.minY + h - 1 else sy0
    forN padW (fun x (st : Array Y × Option σ) => do
      let sx0 := (x : Int) + bounds.minX
      let sx := if sx0 ≥ bounds.minX + w then bounds.minX + w - 1 else sx0
      let c ← atFn sx sy
      match st.2 with
      | some rg =>
        let d := cv.rnd rg
        let yPlane ← wr st.1 ((y : Int) * yStride + (x : Int)) (cv.rgbToYR c.r c.g c.b d.1)
        .ok (yPlane, some d.2)
      | none =>
        let yPlane ← wr st.1 ((y : Int) * yStride + (x : Int)) (cv.rgbToY c.r c.g c.b)
        .ok (yPlane, none)) st) st

/-- the `k`-th and following draws of the generator -/
def drawsFrom (rnd : σ → Int × σ) (s : σ) : Nat → σ
  | 0 => s
  | k + 1 => (rnd (drawsFrom rnd s k)).2

/-- closed forms of the Y plane: sample `(x, y)` of the padded plane is the conversion of the
    picture's pixel `(min x (w-1), min y (h-1))` -/
def yOf (f : Nat → Nat → RGBA8) (w h padW padH : Nat) : Array Y :=
  Array.ofFn (n := padW * padH) fun i =>
    let c := f (min (i.val % padW) (w - 1)) (min (i.val / padW) (h - 1))
    cv.rgbToY c.r c.g c.b

def yOfDither (f : Nat → Nat → RGBA8) (w h padW padH : Nat) (rg : σ) : Array Y :=
  Array.ofFn (n := padW * padH) fun i =>
    let c := f (min (i.val % padW) (w - 1)) (min (i.val / padW) (h - 1))
    cv.rgbToYR c.r c.g c.b (cv.rnd (drawsFrom cv.rnd rg i.val)).1

/-! ### U/V: row extraction -/

/-- the closure `extractRow(srcY, rBuf, gBuf, bBuf, aBuf)`, direct branch (lossy/encode.go:721-738) -/
def extractRowDirect (img : Img) (srcY : Int) (buf : Array RGBA8) : R (Array RGBA8) :=
  let bounds := img.bounds
  let w := bounds.dx
  let h := bounds.dy
  let padW := pad16 w
  let sy0 := srcY + bounds.minY
  let sy := if sy0 ≥ bounds.minY + h then bounds.minY + h - 1 else sy0
  let rowOff := (sy - img.rect.minY) * img.stride + (bounds.minX - img.rect.minX) * 4
  forN padW (fun x buf => do
    let sx := clampTo (x : Int) w
    let off := rowOff + sx * 4
    let c ← ldPx img.pix off
    wr buf (x : Int) c) buf

/-- `extractRow`, generic branch (lossy/encode.go:739-751) -/
def extractRowGeneric (atFn : Int → Int → R RGBA8) (bounds : Rect) (srcY : Int) (buf : Array RGBA8) : R (Array RGBA8) :=
  let w := bounds.dx
  let h := bounds.dy
  let padW := pad16 w
  let sy0 := srcY + bounds.minY
  let sy := if sy0 ≥ bounds.minY + h then bounds.minY + h - 1 else sy0
  forN padW (fun x buf => do
    let sx0 := (x : Int) + bounds.minX
    let sx := if sx0 ≥ bounds.minX + w then bounds.minX + w - 1 else sx0
    let c ← atFn sx sy
    wr buf (x : Int) c) buf

/-- the inlined extraction of the parallel path (lossy/encode.go:859-885): `w` pixels of source
    row `min(srcY, h-1)`, then `rBuf[x] = rBuf[w-1]` for `x ∈ [w, padW)` -/
def extractRowPar (img : Img) (srcY : Nat) (buf : Array RGBA8) : R (Array RGBA8) := do
  let bounds := img.bounds
  let w := bounds.dx
  let h := bounds.dy
  let padW := pad16 w
  let srcBase := (bounds.minY - img.rect.minY) * img.stride + (bounds.minX - img.rect.minX) * 4
  let sy := clampTo (srcY : Int) h
  let rowOff := srcBase + sy * img.stride
  let buf ← forN w.toNat (fun x buf => do
    let off := rowOff + (x : Int) * 4
    let c ← ldPx img.pix off
    wr buf (x : Int) c) buf
  if (padW : Int) > w then
    forRange w.toNat padW (fun x buf => do
      let c ← rdBuf buf (w - 1)
      wr buf (x : Int) c) buf
  else .ok buf

/-- `copy(planarX[:padW], rowX[0]); copy(planarX[padW:], rowX[1])`, and for alpha: the two rows
    if `hasAlpha`, else the `0xff` the planar alpha buffer was filled with before the loop -/
def mkPlanar (hasAlpha : Bool) (row0 row1 : Array RGBA8) : Array RGBA8 :=
  (row0 ++ row1).map fun c => if hasAlpha then c else { c with a := 0xff }

/-- closed form of an extracted row -/
def rowOf (f : Nat → Nat → RGBA8) (w h padW : Nat) (srcY : Nat) : Array RGBA8 :=
  Array.ofFn (n := padW) fun x => f (min x.val (w - 1)) (min srcY (h - 1))

/-- closed form of the planar buffers of row pair `y` -/
def planarOf (f : Nat → Nat → RGBA8) (w h padW : Nat) (hasAlpha : Bool) (y : Nat) : Array RGBA8 :=
  mkPlanar hasAlpha (rowOf f w h padW (2 * y)) (rowOf f w h padW (2 * y + 1))

/-- lossy/encode.go:836-902, the non-dithered direct U/V path.  Worker `wi` handles pairs
    `[wi*halfPadH/n, (wi+1)*halfPadH/n)`; `rows` are the worker's pooled `rowX[0], rowX[1]` buffers
    (stale); the result is the chroma row of every pair (`uPlane[y*uvStride:]`, `vPlane[…]`). -/
def uvDirectPar (nWorkers : Nat) (hasAlpha : Bool) (img : Img)
    (rows : Array RGBA8 × Array RGBA8) (uvPlane : Array UV) : R (Array UV) :=
  let bounds := img.bounds
  let padH := pad16 bounds.dy
  let halfPadH := padH / 2
  (forN nWorkers (fun wi (st : (Array RGBA8 × Array RGBA8) × Array UV) =>
    let startPair := wi * halfPadH / nWorkers
    let endPair := (wi + 1) * halfPadH / nWorkers
    forRange startPair endPair (fun y st => do
      let row0 ← extractRowPar img (y * 2 + 0) st.1.1
      let row1 ← extractRowPar img (y * 2 + 1) st.1.2
      let planar := mkPlanar hasAlpha row0 row1
      let uvPlane ← wr st.2 (y : Int) (cv.uv planar)
      .ok ((row0, row1), uvPlane)) st) (rows, uvPlane)) >>= fun st => .ok st.2

/-- lossy/encode.go:903-941, the serial U/V path (dithered direct, or generic with or without
    dithering); `extract` is `extractRowDirect img` or `extractRowGeneric atFn bounds` -/
def uvSerial (extract : Int → Array RGBA8 → R (Array RGBA8)) (hasAlpha : Bool) (bounds : Rect)
    (rows : Array RGBA8 × Array RGBA8) (st : Array UV × Option σ) : R (Array UV × Option σ) :=
  let padH := pad16 bounds.dy
  let halfPadH := padH / 2
  (forN halfPadH (fun y (st : (Array RGBA8 × Array RGBA8) × Array UV × Option σ) => do
    let row0 ← extract ((y : Int) * 2) st.1.1
    let row1 ← extract ((y : Int) * 2 + 1) st.1.2
    let planar := mkPlanar hasAlpha row0 row1
    match st.2.2 with
    | some rg =>
      let d := cv.uvD planar rg
      let uvPlane ← wr st.2.1 (y : Int) d.1
      .ok ((row0, row1), uvPlane, some d.2)
    | none =>
      let uvPlane ← wr st.2.1 (y : Int) (cv.uv planar)
      .ok ((row0, row1), uvPlane, none)) (rows, st)) >>= fun st => .ok st.2

/-- closed form of the chroma rows without dithering -/
def uvOf (f : Nat → Nat → RGBA8) (w h padW halfPadH : Nat) (hasAlpha : Bool) : Array UV :=
  Array.ofFn (n := halfPadH) fun y => cv.uv (planarOf f w h padW hasAlpha y.val)

/-- generator state before chroma row `y` of the dithered path -/
def uvStateAt (f : Nat → Nat → RGBA8) (w h padW : Nat) (hasAlpha : Bool) (rg : σ) : Nat → σ
  | 0 => rg
  | y + 1 => (cv.uvD (planarOf f w h padW hasAlpha y) (uvStateAt f w h padW hasAlpha rg y)).2

/-- closed form of the chroma rows with dithering, generator state `rg` at the first row -/
def uvOfDither (f : Nat → Nat → RGBA8) (w h padW halfPadH : Nat) (hasAlpha : Bool) (rg : σ) : Array UV :=
  Array.ofFn (n := halfPadH) fun y =>
    (cv.uvD (planarOf f w h padW hasAlpha y.val) (uvStateAt cv f w h padW hasAlpha rg y.val)).1

end Lossy

/-! ## the picture an embedding shows -/

/-- pixel `(x, y)` relative to `bounds.Min`, through `NRGBAAt` -/
def Img.rel (img : Img) (x y : Nat) : RGBA8 := img.view (img.rect.minX + (x : Int)) (img.rect.minY + (y : Int))

/-- the generic `At()` of an `*image.NRGBA` behind an interface (`NRGBAModel.Convert` is the
    identity on `color.NRGBA`) -/
def Img.atNRGBA (img : Img) : Int → Int → R RGBA8 := img.colorAt

/-- the generic `At()` of an `*image.RGBA` followed by `NRGBAModel.Convert` -/
def Img.atRGBA (img : Img) (x y : Int) : R RGBA8 :=
  match img.colorAt x y with
  | .ok c => .ok (nrgbaModelRGBA c)
  | .err e => .err e
  | .panic => .panic
  | .hang => .hang

/-! ## everything `Encode` reads out of an `*image.NRGBA`, in one record -/

/-- the (stale) destination buffers the imports write into -/
structure Bufs (Y UV : Type) where
  argbBuffered : Array UInt32
  argbStreaming : Array UInt32
  alpha : Array UInt8
  cleanup : Array UInt8
  sharp : Array UInt8
  yPlain : Array Y
  yDither : Array Y
  uvPlain : Array UV
  uvDither : Array UV
  rows : Array RGBA8 × Array RGBA8

/-- buffer sizes as allocated by the Go code for a `w×h` picture -/
structure Bufs.Sized {Y UV : Type} (b : Bufs Y UV) (w h : Nat) : Prop where
  argbBuffered : b.argbBuffered.size = w * h
  argbStreaming : b.argbStreaming.size = w * h
  alpha : b.alpha.size = w * h
  cleanup : b.cleanup.size = w * h * 4
  sharp : b.sharp.size = w * h * 3
  yPlain : b.yPlain.size = pad16 (w : Int) * pad16 (h : Int)
  yDither : b.yDither.size = pad16 (w : Int) * pad16 (h : Int)
  uvPlain : b.uvPlain.size = pad16 (h : Int) / 2
  uvDither : b.uvDither.size = pad16 (h : Int) / 2
  rows0 : b.rows.1.size = pad16 (w : Int)
  rows1 : b.rows.2.size = pad16 (w : Int)

/-- every array / flag derived from the caller's pixels, for lossless and lossy, with and
    without dithering (everything downstream of the import takes only these and the options) -/
structure Imported (Y UV σ : Type) where
  argbBuffered : Array UInt32          -- encodeLossless
  argbStreaming : Array UInt32         -- encodeLosslessToWriter
  hasAlpha : Bool                      -- webp.imageHasAlpha
  lossyHasAlpha : Bool                 -- lossy.imageHasAlpha
  alpha : Array UInt8                  -- extractAlphaWith
  cleanup : Array UInt8                -- copy-in of cleanupTransparentAreaLossyWith
  sharp : Array UInt8                  -- RGB handed to sharpyuv.Convert
  yPlain : Array Y                     -- importImage, no dithering
  uvPlain : Array UV
  yDither : Array Y                    -- importImage, dithering (Preprocessing & 2)
  uvDither : Array UV
  rgAfter : Option σ                   -- generator state after the dithered import

/-- all fast paths on an `*image.NRGBA`; `nwY`, `nwUV` are the worker counts of the two parallel
    loops, `haFlag` the `hasAlpha` flag handed to `importImage`, `rg` the initial `VP8Random` -/
def importAll {Y UV σ : Type} [Inhabited Y] (cv : Conv Y UV σ) (nwY nwUV : Nat) (haFlag : Bool) (rg : σ)
    (img : Img) (b : Bufs Y UV) : R (Imported Y UV σ) := do
  let argbB ← encodeLosslessNRGBA img b.argbBuffered
  let argbS ← encodeLosslessToWriterNRGBA img b.argbStreaming
  let ha ← hasAlphaFast img
  let lha ← lossyHasAlphaFast img
  let alpha ← extractAlphaFast img b.alpha
  let cleanup ← cleanupCopyNRGBA img b.cleanup
  let sharp ← sharpRGBFast img b.sharp
  let yP ← yDirectPar cv nwY img b.yPlain
  let uvP ← uvDirectPar cv nwUV haFlag img b.rows b.uvPlain
  let yD ← yDirectSer cv img (b.yDither, rg)
  let uvD ← uvSerial cv (extractRowDirect img) haFlag img.bounds b.rows (b.uvDither, some yD.2)
  pure { argbBuffered := argbB, argbStreaming := argbS, hasAlpha := ha, lossyHasAlpha := lha,
         alpha := alpha, cleanup := cleanup, sharp := sharp, yPlain := yP, uvPlain := uvP,
         yDither := yD.1, uvDither := uvD.1, rgAfter := uvD.2 }

/-- all generic `At()`-based paths; `atFn = NRGBAModel.Convert ∘ img.At` -/
def genericAll {Y UV σ : Type} (cv : Conv Y UV σ) (haFlag : Bool) (rg : σ)
    (atFn : Int → Int → R RGBA8) (bounds : Rect) (b : Bufs Y UV) : R (Imported Y UV σ) := do
  let argbB ← losslessGeneric atFn bounds b.argbBuffered
  let argbS ← losslessGeneric atFn bounds b.argbStreaming
  let ha ← hasAlphaGeneric atFn bounds
  let lha ← lossyHasAlphaGeneric atFn bounds
  let alpha ← extractAlphaGeneric atFn bounds b.alpha
  let cleanup ← cleanupCopyGeneric atFn bounds b.cleanup
  let sharp ← sharpRGBGeneric atFn bounds b.sharp
  let yP ← yGeneric cv atFn bounds (b.yPlain, none)
  let uvP ← uvSerial cv (extractRowGeneric atFn bounds) haFlag bounds b.rows (b.uvPlain, none)
  let yD ← yGeneric cv atFn bounds (b.yDither, some rg)
  let uvD ← uvSerial cv (extractRowGeneric atFn bounds) haFlag bounds b.rows (b.uvDither, yD.2)
  pure { argbBuffered := argbB, argbStreaming := argbS, hasAlpha := ha, lossyHasAlpha := lha,
         alpha := alpha, cleanup := cleanup, sharp := sharp, yPlain := yP.1, uvPlain := uvP.1,
         yDither := yD.1, uvDither := uvD.1, rgAfter := uvD.2 }

/-- closed form: what the import of the `w×h` picture `f` is -/
def importedOf {Y UV σ : Type} (cv : Conv Y UV σ) (haFlag : Bool) (rg : σ)
    (f : Nat → Nat → RGBA8) (w h : Nat) : Imported Y UV σ :=
  let PW := pad16 (w : Int)
  let PH := pad16 (h : Int)
  let rg1 := drawsFrom cv.rnd rg (PW * PH)
  { argbBuffered := argbOf f w h, argbStreaming := argbOf f w h,
    hasAlpha := anyAlpha f w h, lossyHasAlpha := anyAlpha f w h,
    alpha := alphaOf f w h, cleanup := bytesOf f w h, sharp := rgbOf f w h,
    yPlain := yOf cv f w h PW PH, uvPlain := uvOf cv f w h PW (PH / 2) haFlag,
    yDither := yOfDither cv f w h PW PH rg,
    uvDither := uvOfDither cv f w h PW (PH / 2) haFlag rg1,
    rgAfter := some (uvStateAt cv f w h PW haFlag rg1 (PH / 2)) }

end Webp.Impl.Import
