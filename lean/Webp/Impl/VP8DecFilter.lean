import Webp.Go.Basic
/-
  Implementation model of the VP8 decoder's loop-filter PARAMETERS (/repo/internal/lossy):

    decode_frame.go  precomputeFilterStrengths   per (segment, i4x4): FLimit, FILevel, HevThresh, FInner
    decode_mb.go     decodeMB (filter bookkeeping) `*finfo = fstrengths[Segment&3][IsI4x4]; FInner ||= !skip`
                                                  with `skip = (NonZeroY | NonZeroUV) == 0` for parsed macroblocks
    decode_frame.go  doFilter (thresholds only)   macroblock edges `limit + 4`, sub-block edges `limit`,
                                                  nothing when `limit == 0`

  statement by statement.  Core Lean only.  `uint8(x)` is `x % 256` (Go conversion of a
  non-negative int); the fields of an entry that `precomputeFilterStrengths` does not write
  (`FILevel`, `HevThresh` when the level is 0) keep what the decoder held before (`prev`).
-/
namespace Webp.Impl.VP8DecFilter

/-- `FilterHeader` (the fields the strengths depend on) -/
structure FilterHdr where
  level : Int
  sharpness : Int
  useLFDelta : Bool
  refLFDelta0 : Int
  modeLFDelta0 : Int
  deriving Repr, DecidableEq, Inhabited

/-- `SegmentHeader` (the fields the strengths depend on); `filterStrength` holds `int8`s -/
structure SegHdr where
  useSegment : Bool
  absoluteDelta : Bool
  filterStrength : Nat → Int
  deriving Inhabited

/-- `FInfo` -/
structure FInfo where
  fLimit : Nat := 0
  fILevel : Nat := 0
  fInner : Bool := false
  hevThresh : Nat := 0
  deriving Repr, DecidableEq, Inhabited

/-- Go `uint8(v)` for an `int` -/
def u8 (v : Int) : Nat := (v % 256).toNat

/-- the segment-adjusted level, clamped to 0..63 -/
def baseLevel (seg : SegHdr) (hdr : FilterHdr) (s : Nat) : Int :=
  let b : Int :=
    if seg.useSegment then
      (if !seg.absoluteDelta then seg.filterStrength s + hdr.level else seg.filterStrength s)
    else hdr.level
  if b < 0 then 0 else if b > 63 then 63 else b

/-- the level of a macroblock of segment `s`, `i4x4` or not -/
def mbLevel (seg : SegHdr) (hdr : FilterHdr) (s : Nat) (i4x4 : Bool) : Int :=
  let level := baseLevel seg hdr s
  let level :=
    if hdr.useLFDelta then
      (level + hdr.refLFDelta0) + (if i4x4 then hdr.modeLFDelta0 else 0)
    else level
  if level < 0 then 0 else if level > 63 then 63 else level

/-- `ilevel` for a level > 0 -/
def interiorLevel (hdr : FilterHdr) (level : Int) : Int :=
  let ilevel := level
  let ilevel :=
    if hdr.sharpness > 0 then
      let il := if hdr.sharpness > 4 then ilevel >>> 2 else ilevel >>> 1
      if il > 9 - hdr.sharpness then 9 - hdr.sharpness else il
    else ilevel
  if ilevel < 1 then 1 else ilevel

/-- one entry `dec.fstrengths[s][i4x4]` after `precomputeFilterStrengths` (`prev`: the entry before) -/
def strength (seg : SegHdr) (hdr : FilterHdr) (s : Nat) (i4x4 : Bool) (prev : FInfo) : FInfo :=
  let level := mbLevel seg hdr s i4x4
  if level > 0 then
    let ilevel := interiorLevel hdr level
    { fILevel := u8 ilevel
      fLimit := u8 (2 * level + ilevel)
      hevThresh := if level ≥ 40 then 2 else if level ≥ 15 then 1 else 0
      fInner := i4x4 }
  else
    { prev with fLimit := 0, fInner := i4x4 }

/-- decode.go `parseFilterHeader`: `dec.filterType` -/
def filterTypeOf (level : Int) (simple : Bool) : Int := if level = 0 then 0 else if simple then 1 else 2

/-- `precomputeFilterStrengths`: the whole table `dec.fstrengths` (`prev`: the table before; it is
    left alone when the frame is not filtered) -/
def precompute (seg : SegHdr) (hdr : FilterHdr) (filterType : Int) (prev : Nat → Bool → FInfo) : Nat → Bool → FInfo :=
  if filterType ≤ 0 then prev else fun s i4 => strength seg hdr s i4 (prev s i4)

/-- `skip` as `decodeMB` computes it for the loop filter: the flag (when the frame uses skip
    flags), else "no non-zero coefficient" BY VALUE (`NonZeroY | NonZeroUV`, the 2-bit codes) -/
def filterSkip (useSkipProba skipFlag : Bool) (nonZeroY nonZeroUV : Nat) : Bool :=
  if useSkipProba && skipFlag then true else (nonZeroY ||| nonZeroUV) == 0

/-- `dec.fInfo[mbX]` after `decodeMB` -/
def mbFInfo (seg : SegHdr) (hdr : FilterHdr) (segment : Nat) (isI4 : Bool) (skip : Bool) (prev : FInfo) : FInfo :=
  let f := strength seg hdr (segment &&& 3) isI4 prev
  { f with fInner := f.fInner || !skip }

/-- the thresholds `doFilter` hands to the edge filters: `(macroblock edges, sub-block edges, ilevel, hev)`;
    `none` when the macroblock is not filtered (`limit == 0`) -/
def edgeParams (f : FInfo) : Option (Nat × Nat × Nat × Nat) :=
  if f.fLimit = 0 then none else some (f.fLimit + 4, f.fLimit, f.fILevel, f.hevThresh)

end Webp.Impl.VP8DecFilter
