import Webp.Spec.LTransform
/-
  VP8L transform layer and LZ77 value codes — IMPLEMENTATION model (core Lean only).

  Forward transforms as the Go encoder computes them, *given the encoder's choices as
  parameters* (predictor mode per tile, multipliers per tile, the palette): the searches
  (`ResidualImage` phase 1, `findBestMultipliers`, `ColorIndexBuild`) are heuristics and are not
  modelled — their results enter as arbitrary tile images / palettes.

    internal/lossless/encode_predictor.go   SubtractGreen, applyColorTransformPixel/…Tile,
                                            copyImageWithPrediction, predictPixel, subPixels, avg2,
                                            selectPred, clampAddSubFull/Half, ApplyPaletteTransform
    internal/lossless/decode_transform.go   addPixels, average2, selectPredictor,
                                            clampedAddSubtractFull/Half, predictorInverseTransform,
                                            colorSpaceInverseTransform, colorIndexInverseTransform,
                                            applyInverseTransforms (repaired and pinned variants)
    internal/dsp/lossless_dsp.go            addGreenToBlueAndRedGo
    internal/lossless/constants.go          PrefixEncodeNoLUT, PlaneCodeToDistance
    internal/lossless/hashchain.go          DistanceToPlaneCode, planeToCodeLUT

  Reachability from `webp.Encode` (what is and is not modelled):
  * `/repo/encode.go` always passes `NearLosslessQuality: 100`, so `ApplyNearLossless` never runs;
    it is excluded.  (`internal/lossy/alpha.go` also passes 100.)
  * `copyImageWithPrediction` of this port has **no** `exact` / `used_subtract_green` /
    near-lossless parameters (libwebp's has): invisible pixels are not special-cased in the
    predictor.  Fully transparent pixels are zeroed *before* the transforms by
    `cleanupTransparentAreaLossless` (unless `Exact`), which is outside this layer.
  * encoder transform orders: `[subtractGreen?, predictor?, crossColor?]` or `[colorIndex]` or
    `[colorIndex, predictor]` (predictor on the packed width).  The chain theorem covers every
    list.
  * the scratch rows of `copyImageWithPrediction` (`upperRow`/`currentRow`, `width+1` entries so
    that `upperRow[width]` is the first pixel of the current row) only serve to read ORIGINAL
    pixels while `out` is being written; since `out` is a different slice from `argb` the model
    reads the original array directly with flat index arithmetic (`i−w+1`).  The tie is the
    correspondence suite.
  * the tile loops (`for x < xEnd` per tile run, `applyColorTransformTile` per tile) are flattened
    to one function of the pixel index: inside a run `x >> bits` is constant.
  * defensive paths for truncated tile data (`len(tData) < tilesPerRow*tilesPerCol`) are
    unreachable after a successful `decodeSubImage` and are not modelled (missing tile words read
    as 0).
-/
namespace Webp.Impl.LTransform
open Webp.Spec.LTransform (Px argbBlack chA chR chG chB mk sext8 byteOfInt tileAt subSampleSize
  paletteBits Xf)

/-! ## word-level pixel arithmetic (mask tricks) -/

/-- decode_transform.go `addPixels` -/
def addPixels (a b : Px) : Px :=
  let alphaAndGreen := (a &&& 0xff00ff00) + (b &&& 0xff00ff00)
  let redAndBlue := (a &&& 0x00ff00ff) + (b &&& 0x00ff00ff)
  (alphaAndGreen &&& 0xff00ff00) ||| (redAndBlue &&& 0x00ff00ff)

/-- encode_predictor.go `subPixels` (bias constants stop the borrow between channels) -/
def subPixels (a b : Px) : Px :=
  let alphaAndGreen := 0x00ff00ff + (a &&& 0xff00ff00) - (b &&& 0xff00ff00)
  let redAndBlue := 0xff00ff00 + (a &&& 0x00ff00ff) - (b &&& 0x00ff00ff)
  (alphaAndGreen &&& 0xff00ff00) ||| (redAndBlue &&& 0x00ff00ff)

/-- decode_transform.go `average2` = encode_predictor.go `avg2` -/
def average2 (a b : Px) : Px := (((a ^^^ b) &&& 0xfefefefe) >>> 1) + (a &&& b)

/-- `int32((p >> shift) & 0xff)` -/
def chanAt (p : Px) (shift : UInt32) : Int := (((p >>> shift) &&& 0xff).toNat : Int)

/-- encode_predictor.go `clampByte` / the inline clamp of the decoder -/
def clampByte (v : Int) : UInt8 := if v < 0 then 0 else if v > 255 then 255 else UInt8.ofNat v.toNat

/-- `clampAddSubFull` (encoder) = `clampedAddSubtractFull` (decoder): loop over the four shifts,
    `result |= uint32(clamp(va+vb-vc)) << shift` -/
def clampAddSubFull (a b c : Px) : Px :=
  [0, 8, 16, 24].foldl (fun res (sh : UInt32) =>
    res ||| ((clampByte (chanAt a sh + chanAt b sh - chanAt c sh)).toUInt32 <<< sh)) 0

/-- `clampAddSubHalf` (encoder) = `clampedAddSubtractHalf` (decoder); Go's `/` truncates -/
def clampAddSubHalf (avg c : Px) : Px :=
  [0, 8, 16, 24].foldl (fun res (sh : UInt32) =>
    res ||| ((clampByte (chanAt avg sh + Int.tdiv (chanAt avg sh - chanAt c sh) 2)).toUInt32 <<< sh)) 0

/-- `selectPred` (encoder) = `selectPredictor` (decoder), unrolled over the four channels -/
def selectPred (left top topLeft : Px) : Px :=
  let ab (v : Int) : Int := if v < 0 then -v else v
  let ac0 := ab (chanAt top 0 - chanAt topLeft 0)
  let bc0 := ab (chanAt left 0 - chanAt topLeft 0)
  let ac1 := ab (chanAt top 8 - chanAt topLeft 8)
  let bc1 := ab (chanAt left 8 - chanAt topLeft 8)
  let ac2 := ab (chanAt top 16 - chanAt topLeft 16)
  let bc2 := ab (chanAt left 16 - chanAt topLeft 16)
  let ac3 := ab (chanAt top 24 - chanAt topLeft 24)
  let bc3 := ab (chanAt left 24 - chanAt topLeft 24)
  let pa := (bc0 - ac0) + (bc1 - ac1) + (bc2 - ac2) + (bc3 - ac3)
  if pa ≤ 0 then top else left

/-- encode_predictor.go `predictPixel` (modes ≥ 14: `default: return ARGBBlack`) -/
def predictPixel (mode : Nat) (left top topRight topLeft : Px) : Px :=
  match mode with
  | 0 => argbBlack
  | 1 => left
  | 2 => top
  | 3 => topRight
  | 4 => topLeft
  | 5 => average2 (average2 left topRight) top
  | 6 => average2 left topLeft
  | 7 => average2 left top
  | 8 => average2 topLeft top
  | 9 => average2 top topRight
  | 10 => average2 (average2 left topLeft) (average2 top topRight)
  | 11 => selectPred left top topLeft
  | 12 => clampAddSubFull left top topLeft
  | 13 => clampAddSubHalf (average2 left top) topLeft
  | _ => argbBlack

/-! ## subtract green -/

/-- encode_predictor.go `SubtractGreen`, one pixel -/
def subtractGreenPx (p : UInt32) : UInt32 :=
  let green : UInt32 := (p >>> 8) &&& 0xff
  let red : UInt32 := (((p >>> 16) &&& 0xff) - green) &&& 0xff
  let blue : UInt32 := ((p &&& 0xff) - green) &&& 0xff
  ((p &&& 0xff00ff00) ||| (red <<< (16 : UInt32))) ||| blue

def subtractGreen (px : Array Px) : Array Px := px.map subtractGreenPx

/-- dsp `addGreenToBlueAndRedGo`, one pixel (red and blue in one addition) -/
def addGreenPx (p : UInt32) : UInt32 :=
  let green : UInt32 := (p >>> 8) &&& 0xff
  let redBlue : UInt32 := ((p &&& 0x00ff00ff) + green * 0x00010001) &&& 0x00ff00ff
  (p &&& 0xff00ff00) ||| redBlue

/-- decode_transform.go `addGreenToBlueAndRed` with `src ≠ dst` (copy, then in place) -/
def addGreenToBlueAndRed (px : Array Px) : Array Px := px.map addGreenPx

/-! ## cross-colour -/

/-- `encColorTransformDelta`: `int8((int32(m) * int32(int8(color))) >> 5)` — the product is
    truncated to `int8` (it can reach 512) -/
def encColorTransformDelta (m c : UInt8) : Int := sext8 (byteOfInt ((sext8 m * sext8 c) >>> 5))

/-- `applyColorTransformPixel` with the multipliers taken from the packed tile word
    (`packMultipliers`: g2r = bits 0..7, g2b = 8..15, r2b = 16..23).  Blue uses the ORIGINAL red. -/
def applyColorTransformPixel (m p : UInt32) : UInt32 :=
  let green := chG p
  let red := chR p
  let blue := chB p
  let newRed : Int := ((red.toNat : Int) - encColorTransformDelta (chB m) green) % 256
  let newBlue : Int := ((blue.toNat : Int) - encColorTransformDelta (chG m) green) % 256
  let newBlue : Int := (newBlue - encColorTransformDelta (chR m) red) % 256
  let r32 : UInt32 := (byteOfInt newRed).toUInt32
  let b32 : UInt32 := (byteOfInt newBlue).toUInt32
  ((p &&& 0xff00ff00) ||| (r32 <<< (16 : UInt32))) ||| b32

/-- `ColorSpaceTransform`, apply part, with the chosen multipliers `tiles` -/
def crossColorFwd (w bits : Nat) (tiles px : Array Px) : Array Px :=
  px.mapIdx fun i p => applyColorTransformPixel (tileAt w bits tiles i) p

/-- the pixel body of `colorSpaceInverseTransform` (int32 arithmetic, `& 0xff`, mask compose) -/
def colorSpaceInvPx (m p : UInt32) : UInt32 :=
  let g2r := sext8 (chB m)
  let g2b := sext8 (chG m)
  let r2b := sext8 (chR m)
  let green := sext8 (chG p)
  let red : Int := (((p >>> 16) &&& 0xff).toNat : Int)
  let blue : Int := ((p &&& 0xff).toNat : Int)
  let red := (red + ((g2r * green) >>> 5)) % 256
  let blue := blue + ((g2b * green) >>> 5)
  let blue := (blue + ((r2b * sext8 (byteOfInt red)) >>> 5)) % 256
  let r32 : UInt32 := (byteOfInt red).toUInt32
  let b32 : UInt32 := (byteOfInt blue).toUInt32
  ((p &&& 0xff00ff00) ||| (r32 <<< (16 : UInt32))) ||| b32

def colorSpaceInverse (w bits : Nat) (tiles px : Array Px) : Array Px :=
  px.mapIdx fun i p => colorSpaceInvPx (tileAt w bits tiles i) p

/-! ## predictor -/

/-- mode as `copyImageWithPrediction` reads it: `(modes[...] >> 8) & 0xff` — EIGHT bits -/
def modeFwd (t : Px) : Nat := ((t >>> 8) &&& 0xff).toNat

/-- mode as `predictorInverseTransform` reads it: `(tData[...] >> 8) & 0xf` — FOUR bits -/
def modeDec (t : Px) : Nat := ((t >>> 8) &&& 0xf).toNat

/-- prediction of `copyImageWithPrediction` for pixel `i` from the ORIGINAL pixels `g`,
    including its edge overrides (row 0: black / left; column 0: top) -/
def fwdPredictAt (w bits : Nat) (tiles : Array Px) (g : Nat → Px) (i : Nat) : Px :=
  if i / w = 0 then
    (if i % w = 0 then argbBlack else g (i - 1))
  else if i % w = 0 then g (i - w)
  else predictPixel (modeFwd (tileAt w bits tiles i)) (g (i - 1)) (g (i - w)) (g (i - w + 1)) (g (i - w - 1))

/-- `copyImageWithPrediction`: residual = pixel − prediction(original neighbours) -/
def predictFwd (w bits : Nat) (tiles px : Array Px) : Array Px :=
  px.mapIdx fun i p => subPixels p (fwdPredictAt w bits tiles (fun j => px.getD j 0) i)

/-- prediction of `predictorInverseTransform` for the pixel at column `x ≥ 1` of row `y ≥ 1`, with
    the row slices of the Go code: `outRow = out[y*w:]`, `topRow = out[y*w-w:]`,
    `topLeftRow[x-1] = out[y*w-w+x-1]`; modes 3, 5, 9, 10 read `outRow[0]` instead of
    `topRow[x+1]` at the last column (the `safeEnd` split of the specialised loops). -/
def decPredict (mode w : Nat) (out : Nat → Px) (y x : Nat) : Px :=
  let outRow := fun k => out (y * w + k)
  let topRow := fun k => out (y * w - w + k)
  let tr := if x < w - 1 then topRow (x + 1) else outRow 0
  match mode with
  | 0 => argbBlack
  | 1 => outRow (x - 1)
  | 2 => topRow x
  | 3 => tr
  | 4 => topRow (x - 1)
  | 5 => average2 (average2 (outRow (x - 1)) tr) (topRow x)
  | 6 => average2 (outRow (x - 1)) (topRow (x - 1))
  | 7 => average2 (outRow (x - 1)) (topRow x)
  | 8 => average2 (topRow (x - 1)) (topRow x)
  | 9 => average2 (topRow x) tr
  | 10 => average2 (average2 (outRow (x - 1)) (topRow (x - 1))) (average2 (topRow x) tr)
  | 11 => selectPred (outRow (x - 1)) (topRow x) (topRow (x - 1))
  | 12 => clampAddSubFull (outRow (x - 1)) (topRow x) (topRow (x - 1))
  | 13 => clampAddSubHalf (average2 (outRow (x - 1)) (topRow x)) (topRow (x - 1))
  | _ => argbBlack

/-- what `predictorInverseTransform` adds to the residual of pixel `i` -/
def decPredictAt (w bits : Nat) (tiles : Array Px) (out : Nat → Px) (i : Nat) : Px :=
  let y := i / w
  let x := i % w
  if y = 0 then (if x = 0 then argbBlack else out (i - 1))   -- first row: black, then L
  else if x = 0 then out (y * w - w)                          -- outRow[0] ← topRow[0]
  else decPredict (modeDec (tileAt w bits tiles i)) w out y x

def predictorInverseLoop (w bits : Nat) (tiles inp : Array Px) : Nat → Array Px → Array Px
  | 0, out => out
  | k + 1, out =>
    let i := out.size
    predictorInverseLoop w bits tiles inp k
      (out.push (addPixels (inp.getD i 0) (decPredictAt w bits tiles (fun j => out.getD j 0) i)))

/-- `predictorInverseTransform` (in ≠ out) -/
def predictorInverse (w bits : Nat) (tiles inp : Array Px) : Array Px :=
  predictorInverseLoop w bits tiles inp inp.size #[]

/-! ## colour indexing -/

/-- `invLookup[c]` of `ApplyPaletteTransform`: the map is filled in palette order, so a colour
    occurring twice keeps its LAST index; a colour not in the palette reads 0 -/
def lookupFrom : List Px → Px → Nat → Nat → Nat
  | [], _, _, acc => acc
  | p :: r, c, i, acc => lookupFrom r c (i + 1) (if p = c then i else acc)

def paletteLookup (pal : Array Px) (c : Px) : Nat := lookupFrom pal.toList c 0 0

/-- one packed word: `packed[..] = ARGBBlack` at `bitPos == 0`, then
    `packed[..] |= (idx & bitMask) << (8 + bitPos)` for the pixels of the word, left to right -/
def packRun (bpp : Nat) : List Nat → UInt32 → Px → Px
  | [], _, code => code
  | i :: r, xsub, code =>
    packRun bpp r (xsub + 1)
      (code ||| (((UInt32.ofNat i) &&& UInt32.ofNat ((1 <<< bpp) - 1)) <<< (8 + xsub * UInt32.ofNat bpp)))

/-- `ApplyPaletteTransform`: index lookup and packing; returns the packed image of width
    `subSampleSize w bits` (`(width + pixelsPerWord − 1) / pixelsPerWord`) -/
def paletteFwd (pal : Array Px) (w h : Nat) (px : Array Px) : Array Px :=
  let bits := paletteBits pal.size
  let ppw := 1 <<< bits
  let bpp := 8 >>> bits
  let wp := subSampleSize w bits
  ((List.range (wp * h)).map fun k =>
    let y := k / wp
    let xw := k % wp
    if ppw = 1 then
      argbBlack ||| (UInt32.ofNat (paletteLookup pal (px.getD (y * w + xw) 0)) <<< 8)
    else
      packRun bpp ((List.range (min ppw (w - xw * ppw))).map fun j =>
        paletteLookup pal (px.getD (y * w + xw * ppw + j) 0)) 0 argbBlack).toArray

/-- the colour map the decoder builds (`expandColorMap`): `1 << (8 >> bits)` entries,
    zero-filled beyond the palette -/
def expandedMap (pal : Array Px) : Array Px :=
  let n := 1 <<< (8 >>> paletteBits pal.size)
  ((List.range n).map fun i => pal.getD i 0).toArray

/-- `colorIndexInverseTransform` with `src ≠ dst`, sequential as coded: a word is fetched when
    `x & countMask == 0`, then shifted right by `bitsPerPixel` per pixel; `dst` is written only
    when `idx < len(colorMap)`.  State: pixels left, column, source offset, current word.  -/
def colorIndexLoop (cmap : Array Px) (bits w : Nat) (src : Array Px) :
    Nat → Nat → Nat → UInt32 → Array Px → Array Px
  | 0, _, _, _, dst => dst
  | n + 1, x, srcOff, packed, dst =>
    let fetch := x % (1 <<< bits) = 0
    let packed := if fetch then (src.getD srcOff 0 >>> 8) &&& 0xff else packed
    let srcOff := if fetch then srcOff + 1 else srcOff
    let idx := (packed &&& UInt32.ofNat ((1 <<< (8 >>> bits)) - 1)).toNat
    let dst := dst.push (if idx < cmap.size then cmap.getD idx 0 else 0)
    colorIndexLoop cmap bits w src n (if x + 1 = w then 0 else x + 1) srcOff
      (packed >>> UInt32.ofNat (8 >>> bits)) dst

/-- `colorIndexInverseTransform` into a fresh (zeroed) destination -/
def colorIndexInverse (pal : Array Px) (w h : Nat) (src : Array Px) : Array Px :=
  colorIndexLoop (expandedMap pal) (paletteBits pal.size) w src (w * h) 0 0 0 #[]

/-- **Pinned (pre-repair) behaviour**: `colorIndexInverseTransform` with `src` and `dst` the SAME
    slice, as `applyInverseTransforms` called it for every inverse after the first: pixel
    `dstOff` is written before word `srcOff ≤ dstOff` of the same buffer is read. -/
def colorIndexInPlaceLoop (cmap : Array Px) (bits w : Nat) :
    Nat → Nat → Nat → Nat → UInt32 → Array Px → Array Px
  | 0, _, _, _, _, buf => buf
  | n + 1, x, srcOff, dstOff, packed, buf =>
    let fetch := x % (1 <<< bits) = 0
    let packed := if fetch then (buf.getD srcOff 0 >>> 8) &&& 0xff else packed
    let srcOff := if fetch then srcOff + 1 else srcOff
    let idx := (packed &&& UInt32.ofNat ((1 <<< (8 >>> bits)) - 1)).toNat
    let buf := if idx < cmap.size then buf.setIfInBounds dstOff (cmap.getD idx 0) else buf
    colorIndexInPlaceLoop cmap bits w n (if x + 1 = w then 0 else x + 1) srcOff (dstOff + 1)
      (packed >>> UInt32.ofNat (8 >>> bits)) buf

def colorIndexInvInPlace (pal : Array Px) (w h : Nat) (buf : Array Px) : Array Px :=
  colorIndexInPlaceLoop (expandedMap pal) (paletteBits pal.size) w (w * h) 0 0 0 0 buf

/-! ## transform lists -/

/-- one forward transform of the encoder with explicit parameters; returns the new pixels
    (the new working width is `t.widthAfter w`) -/
def forward1 : Xf → (w h : Nat) → Array Px → Array Px
  | .predictor bits tiles, w, _, px => predictFwd w bits tiles px
  | .crossColor bits tiles, w, _, px => crossColorFwd w bits tiles px
  | .subtractGreen, _, _, px => subtractGreen px
  | .colorIndex pal, w, h, px => paletteFwd pal w h px

/-- apply the transforms in encoder order; `w` is the image width, the result is the pixel
    array handed to the entropy coder -/
def applyForward (h : Nat) : List Xf → Nat → Array Px → Array Px
  | [], _, px => px
  | t :: ts, w, px => applyForward h ts (t.widthAfter w) (forward1 t w h px)

/-- `inverseTransform` as coded (`in ≠ out`) -/
def inverse1 : Xf → (w h : Nat) → Array Px → Array Px
  | .predictor bits tiles, w, _, px => predictorInverse w bits tiles px
  | .crossColor bits tiles, w, _, px => colorSpaceInverse w bits tiles px
  | .subtractGreen, _, _, px => addGreenToBlueAndRed px
  | .colorIndex pal, w, h, px => colorIndexInverse pal w h px

/-- REPAIRED `applyInverseTransforms`: the two buffers alternate, so every inverse runs with
    `in ≠ out` and the whole is a composition of pure functions, last transform first -/
def applyInverseTransforms (h : Nat) : List Xf → Nat → Array Px → Array Px
  | [], _, px => px
  | t :: ts, w, px => inverse1 t w h (applyInverseTransforms h ts (t.widthAfter w) px)

/-- PINNED `applyInverseTransforms` (before the repair): only the inverse applied first (the
    last transform of the stream) had `in ≠ out`; every later one ran on one buffer.  In place
    is harmless for the three size-preserving inverses (each output pixel depends on the input
    pixel of the same index and on earlier *outputs*), so only the colour-index inverse is
    modelled in place; `isLast` says whether the transform is the last of the stream. -/
def applyInverseTransformsPinned (h : Nat) : List Xf → Nat → Array Px → Array Px
  | [], _, px => px
  | [t], w, px => inverse1 t w h px
  | .colorIndex pal :: ts, w, px =>
    let inner := applyInverseTransformsPinned h ts (Xf.widthAfter (.colorIndex pal) w) px
    -- the buffer has w*h entries; the packed data occupies its first wp*h entries
    (colorIndexInvInPlace pal w h (inner ++ Array.replicate (w * h - inner.size) 0)).extract 0 (w * h)
  | t :: ts, w, px => inverse1 t w h (applyInverseTransformsPinned h ts (t.widthAfter w) px)

/-! ## LZ77 value codes -/

/-- `bitsLog2Floor` -/
def bitsLog2Floor (n : Nat) : Nat := Nat.log2 n

/-- `PrefixEncodeNoLUT(distance)` for a 1-based value: (symbol, number of extra bits, extra value) -/
def prefixEncode (distance : Nat) : Nat × Nat × Nat :=
  let d := distance - 1
  if d < 2 then (d, 0, 0)
  else
    let highestBit := bitsLog2Floor d
    let secondHighestBit := (d >>> (highestBit - 1)) &&& 1
    let extraBits := highestBit - 1
    let extraBitsValue := d &&& ((1 <<< extraBits) - 1)
    (2 * highestBit + secondHighestBit, extraBits, extraBitsValue)

/-- `getCopyDistance` / `getCopyLength` (and their inlined copies in `decodePixels`), the
    `ReadBits(extraBits)` result passed as `extra` -/
def getCopyDistance (sym extra : Nat) : Nat :=
  if sym < 4 then sym + 1
  else
    let extraBits := (sym - 2) >>> 1
    let offset := (2 + (sym &&& 1)) <<< extraBits
    offset + extra + 1

/-- `planeToCodeLUT` as built by hashchain.go `init()`: 128 zeroed entries, then for
    `i = 0..119`: `lut[yoff*16 + 8 - xoff] = i` with `yoff = code >> 4`, `xoff = 8 - (code & 0xf)` -/
def planeToCodeInit : List Nat → Nat → List Nat → List Nat
  | [], _, lut => lut
  | code :: r, i, lut =>
    let yoff := code >>> 4
    let xoff : Int := 8 - ((code &&& 0xf : Nat) : Int)
    planeToCodeInit r (i + 1) (lut.set (((yoff * 16 : Nat) : Int) + 8 - xoff).toNat i)

def planeToCodeLUTInit : List Nat :=
  planeToCodeInit Webp.Spec.LTransform.codeToPlane 0 (List.replicate 128 0)

/-- the value of `planeToCodeLUT` after `init()` (= `planeToCodeLUTInit`, theorem
    `planeToCodeLUT_init`; also compared with the Go table at run time by the driver op
    `lttab`) -/
def planeToCodeLUT : List Nat := [
  96, 73, 55, 39, 23, 13, 5, 1, 0, 0, 0, 0, 0, 0, 0, 0,
  101, 78, 58, 42, 26, 16, 8, 2, 0, 3, 9, 17, 27, 43, 59, 79,
  102, 86, 62, 46, 32, 20, 10, 6, 4, 7, 11, 21, 33, 47, 63, 87,
  105, 90, 70, 52, 37, 28, 18, 14, 12, 15, 19, 29, 38, 53, 71, 91,
  110, 99, 82, 66, 48, 35, 30, 24, 22, 25, 31, 36, 49, 67, 83, 100,
  115, 108, 94, 76, 64, 50, 44, 40, 34, 41, 45, 51, 65, 77, 95, 109,
  118, 113, 103, 92, 80, 68, 60, 56, 54, 57, 61, 69, 81, 93, 104, 114,
  119, 116, 111, 106, 97, 88, 84, 74, 72, 75, 85, 89, 98, 107, 112, 117]

/-- `DistanceToPlaneCode(xsize, dist)` (Go `int` arithmetic, no overflow for VP8L sizes) -/
def distanceToPlaneCode (xsize dist : Nat) : Nat :=
  let yoffset := dist / xsize
  let xoffset := dist - yoffset * xsize
  if xoffset ≤ 8 ∧ yoffset < 8 then
    planeToCodeLUT.getD (yoffset * 16 + 8 - xoffset) 0 + 1
  else if (xoffset : Int) > (xsize : Int) - 8 ∧ yoffset < 7 then
    planeToCodeLUT.getD ((yoffset + 1) * 16 + 8 + (xsize - xoffset)) 0 + 1
  else dist + 120

/-- `PlaneCodeToDistance(xsize, planeCode)` as coded: `planeCode ≤ 0 → 1`, the overflow guard
    `yoffset > 0 && xsize > (1<<30)/yoffset → 1`, and `dist < 1 → 1` -/
def planeCodeToDistance (xsize : Nat) (planeCode : Int) : Nat :=
  if planeCode ≤ 0 then 1
  else if planeCode > 120 then (planeCode - 120).toNat
  else
    let distCode := Webp.Spec.LTransform.codeToPlane.getD (planeCode.toNat - 1) 0
    let yoffset := distCode >>> 4
    let xoffset : Int := 8 - ((distCode &&& 0xf : Nat) : Int)
    if yoffset > 0 ∧ xsize > (1 <<< 30) / yoffset then 1
    else
      let dist : Int := (yoffset * xsize : Nat) + xoffset
      if dist < 1 then 1 else dist.toNat

end Webp.Impl.LTransform
