import Webp.Impl.VP8LEntropyMeta
import Webp.Impl.Import
import Webp.Impl.Writer
import Webp.Impl.Config
/-
  Implementation model of the LOSSLESS path of the public API (property C01, stage 3):

    webp.Encode (encode.go:424-467) with `opts.Lossless`:
        import (encodeLossless / encodeLosslessToWriter, encode.go:657-708 / 730-774: every Go image type
                → non-premultiplied ARGB; models and their agreement: `Webp.Impl.Import`, property C19)
        if !opts.Exact { cleanupTransparentAreaLossless(argb) }                  encode.go:710, 776, 982-988
        lossless.Encode(argb, w, h, cfg)   → the plan-parametrised emitter `streamBytesMeta`
        container: streaming header + bitstream + pad (no metadata) | writeRIFF (metadata)
                                                                      `Webp.Impl.Writer.encodeContainer`
    webp.Decode (webp.go:188-219):
        container.NewParser → frames[0] → `decodeFrame`: `frame.IsLossless` → `lossless.DecodeVP8L(frame.Payload)`
                                                                      `Webp.Impl.Config.decodeTarget`
        DecodeVP8L = bitstream decoder + `argbToNRGBA(pixels, width, height)` (decode.go:340-411)

  The bitstream decoder inside `decodeVP8L` below is the SPECIFICATION decoder `Webp.Spec.VP8L.decode`;
  that Go's `DecodeVP8L` computes the same pixels is property C03 (Props/C03*.lean + suites `vp8l`,
  `vp8lwindow`, `vp8lentropy`), not repeated here.

  Core Lean only.
-/
namespace Webp.Impl.LosslessAPI
open Webp.Go
open Webp.Impl.VP8LEntropy (StreamPlanMeta streamBytesMeta)

/-- encode.go:982-988 `for i, v := range argb { if v>>24 == 0 { argb[i] = 0x00000000 } }` -/
def cleanupTransparentAreaLossless (argb : Array UInt32) : Array UInt32 :=
  argb.map fun (v : UInt32) => if v >>> 24 = 0 then 0 else v

/-- `if !opts.Exact { cleanupTransparentAreaLossless(argb) }`: pixels with alpha 0 become transparent
    black unless `Exact` -/
def norm (exact : Bool) (argb : Array UInt32) : Array UInt32 :=
  if exact then argb else cleanupTransparentAreaLossless argb

/-- the ARGB buffer every import path of `Encode` produces for a `w × h` picture showing the
    non-premultiplied colours `f x y` (`Webp.Impl.Import.argbOf`; fast paths = generic path: C19) -/
def importARGB (f : Nat → Nat → Import.RGBA8) (w h : Nat) : Array UInt32 := Import.argbOf f w h

/-- The container part of `Encode` on the lossless path with the bit stream of plan `sp`
    (`w h` = `img.Bounds().Dx(), Dy()`; `m` = `opts.ICC/EXIF/XMP`): streaming path without
    metadata, buffered `writeRIFF(…, nil, imgW, imgH, opts)` with metadata. -/
def encodeAPIWith (sp : StreamPlanMeta) (w h : Nat) (m : Writer.Meta) : Writer.R Bytes :=
  Writer.encodeContainer true (streamBytesMeta sp).data.toList [] (w : Int) (h : Int) m

/-- `*image.NRGBA` as `image.NewNRGBA(image.Rect(0, 0, w, h))` makes it: `Stride = 4*w` -/
structure NRGBA where
  w : Nat
  h : Nat
  pix : Array UInt8
  deriving Repr, DecidableEq, Inhabited

/-- `(*image.NRGBA).NRGBAAt(x, y)` for `(x, y)` inside the rectangle: `Pix[y*Stride + x*4 ..]` -/
def NRGBA.at (img : NRGBA) (x y : Nat) : Import.RGBA8 :=
  let o := y * (4 * img.w) + x * 4
  ⟨img.pix.getD o 0, img.pix.getD (o + 1) 0, img.pix.getD (o + 2) 0, img.pix.getD (o + 3) 0⟩

/-- `dst[off+0] = uint8(argb >> 16); dst[off+1] = uint8(argb >> 8); dst[off+2] = uint8(argb);
    dst[off+3] = uint8(argb >> 24)` -/
def nrgbaByte (argb : UInt32) (k : Nat) : UInt8 :=
  if k = 0 then (argb >>> 16).toUInt8 else if k = 1 then (argb >>> 8).toUInt8
  else if k = 2 then argb.toUInt8 else (argb >>> 24).toUInt8

/-- decode.go:340-411 `argbToNRGBA(pixels, width, height)`: closed form (pixel `i` → bytes `4i..4i+3`;
    `Stride = 4*width`, so rows are contiguous).  The row slicing `pixels[y*width : y*width+width]`
    needs `len(pixels) ≥ width*height` — the decoder's invariant (`decode_dims`), its memory safety
    is C05 (`Webp.Impl.CodecFrontL.argbToNRGBA`). -/
def argbToNRGBA (pixels : Array UInt32) (w h : Nat) : NRGBA :=
  { w := w, h := h,
    pix := Array.ofFn (n := 4 * (w * h)) fun i => nrgbaByte (pixels.getD (i.val / 4) 0) (i.val % 4) }

inductive DecErr where
  | container      -- "webp: parsing container"
  | noFrames       -- ErrNoFrames
  | lossless       -- "webp: lossless decode"
  | lossy          -- the lossy codec is not part of this model
  deriving Repr, DecidableEq, Inhabited

/-- `lossless.DecodeVP8L(data)`: bit-stream decoder, then `argbToNRGBA(out, dec.Width, dec.Height)` -/
def decodeVP8L (payload : Bytes) : Res DecErr NRGBA :=
  match Webp.Spec.VP8L.decode (ByteArray.mk payload.toArray) with
  | .ok img => .ok (argbToNRGBA img.pixels img.width img.height)
  | .err _ => .err .lossless
  | .panic => .panic
  | .hang => .hang

/-- webp.go `decodeBytes` → `decodeFrame` → `decodeLossless` -/
def decodeAPI (data : Bytes) : Res DecErr NRGBA :=
  match Config.decodeTarget data with
  | .ok none => .err .noFrames
  | .ok (some t) => if t.isLossless then decodeVP8L t.payload else .err .lossy
  | .err _ => .err .container
  | .panic => .panic
  | .hang => .hang

end Webp.Impl.LosslessAPI
