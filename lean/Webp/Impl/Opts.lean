import Webp.Go.Basic
/-
  Implementation model of the option handling in /repo/encode.go (property C20):

    EncoderOptions, DefaultOptions, OptionsForPreset, validateConfig, resolve*,
    the front end of Encode (nil / dimension checks, lossless / lossy dispatch, hasMetadata),
    the propagation block of encodeLossyWithAlpha into lossy.EncodeConfig (on top of
    lossy.DefaultConfig), the alpha option mapping into lossy.AlphaEncoderConfig and the
    lossless.EncoderConfig literal of encodeLossless / encodeLosslessToWriter.

  `front` returns what the codecs *receive* (the resolved configuration); the codecs
  themselves are not part of this model.

  Modelling decisions
  * Go `int` is modelled by `Int` (unbounded ⊇ int64).  The code only compares these ints with
    constants, copies them, and tests bit 1 of `Preprocessing`; no arithmetic that could wrap.
  * `float32` (`Quality`, `TargetPSNR`) is `F32`: `nan | posInf | negInf | fin neg m e` with value
    `(-1)^neg · m · 2^e` (an exact dyadic; every finite float32 — normal, subnormal, ±0 — is of this
    form, `F32.ofBits` decodes the IEEE-754 bit pattern).  The code only uses `< 0`, `> 0`,
    `> 100`, `math.IsNaN`, `math.IsInf`, `int(x)` and plain copies on them; these are defined
    exactly below.  **No float arithmetic is modelled**: the dithering amplitude
    `1.0 + (0.5-1.0)*x2*x2` (x = Quality/100) enters the resolved configuration as an opaque
    function of `Quality`, represented by its argument (`dithering := some Quality`), i.e. as a
    free function symbol.  Equalities of resolved configurations proved in this model therefore
    hold for whatever that function computes; nothing is claimed about the amplitude's range.
  * Metadata (`ICC`, `EXIF`, `XMP`) are `Option Nat`: `none` = nil slice, `some n` = non-nil
    slice of length `n`.  The code only uses `len(..)`, so nil and empty behave the same
    (the doc comments say "When non-nil": see `Props/C20.lean`, `empty_nonnil_metadata_not_extended`).
  * The image enters only through what the front end reads from it: `img == nil`,
    `Bounds().Dx()/Dy()` (Go ints, may be ≤ 0) and `imageHasAlpha(img)`.
-/
namespace Webp.Impl.Opts
open Webp.Go

/-! ## float32 -/

/-- a float32 value: NaN, ±Inf, or the exact dyadic `(-1)^neg · m · 2^e` (±0 is `m = 0`). -/
inductive F32 where
  | nan
  | posInf
  | negInf
  | fin (neg : Bool) (m : Nat) (e : Int)
  deriving Repr, DecidableEq, Inhabited

namespace F32

/-- decode an IEEE-754 binary32 bit pattern -/
def ofBits (bits : Nat) : F32 :=
  let s := bits / 2147483648 % 2 == 1
  let ex := bits / 8388608 % 256
  let m := bits % 8388608
  if ex = 255 then (if m = 0 then (if s then negInf else posInf) else nan)
  else if ex = 0 then fin s m (-149)
  else fin s (8388608 + m) ((ex : Int) - 150)

/-- `+0.0` -/
def zero : F32 := fin false 0 0

/-- the float32 with integer value `n` (exact for the small constants the code uses: 75) -/
def ofNat (n : Nat) : F32 := fin false n 0

/-- `math.IsNaN(float64(x))` -/
def isNaN : F32 → Bool
  | nan => true
  | _ => false

/-- `math.IsInf(float64(x), 0)` -/
def isInf : F32 → Bool
  | posInf => true
  | negInf => true
  | _ => false

/-- Go `x < 0` (false for NaN and for ±0) -/
def ltZero : F32 → Bool
  | negInf => true
  | fin neg m _ => neg && m != 0
  | _ => false

/-- Go `x > 0` (false for NaN and for ±0) -/
def gtZero : F32 → Bool
  | posInf => true
  | fin neg m _ => !neg && m != 0
  | _ => false

/-- magnitude comparison `m · 2^e > k` on exact naturals -/
def magGt (m : Nat) (e : Int) (k : Nat) : Bool :=
  if 0 ≤ e then decide (k < m * 2 ^ e.toNat) else decide (k * 2 ^ (-e).toNat < m)

/-- Go `x > k` for a non-negative integer constant `k` (false for NaN) -/
def gtNat (x : F32) (k : Nat) : Bool :=
  match x with
  | posInf => true
  | fin neg m e => !neg && magGt m e k
  | _ => false

/-- ⌊m · 2^e⌋ -/
def magFloor (m : Nat) (e : Int) : Nat :=
  if 0 ≤ e then m * 2 ^ e.toNat else m / 2 ^ (-e).toNat

/-- Go `int(x)`: truncation toward zero.  Only meaningful for finite values in `int` range; the
    code calls it only after `validateConfig` has established `0 ≤ x ≤ 100`.  For NaN/±Inf (Go:
    implementation-defined) the model returns 0; `front` never evaluates it there. -/
def toInt : F32 → Int
  | fin neg m e => if neg then -((magFloor m e : Nat) : Int) else ((magFloor m e : Nat) : Int)
  | _ => 0

/-- strip factors of two from the mantissa (`fuel` ≥ number of trailing zero bits) -/
def normMag : Nat → Nat → Int → Nat × Int
  | 0, m, e => (m, e)
  | fuel + 1, m, e => if m = 0 then (0, 0) else if m % 2 = 0 then normMag fuel (m / 2) (e + 1) else (m, e)

/-- canonical text, never a decimal float: `±<odd mantissa>p<exponent>` (`±0p0` for zeros) -/
def toStr : F32 → String
  | nan => "nan"
  | posInf => "+inf"
  | negInf => "-inf"
  | fin neg m e =>
    let (m', e') := normMag 64 m e
    s!"{if neg then "-" else "+"}{m'}p{e'}"

end F32

/-! ## EncoderOptions -/

/-- encode.go `EncoderOptions`, field by field. -/
structure Opts where
  lossless : Bool
  quality : F32
  method : Int
  preset : Int
  useSharpYUV : Bool
  exact : Bool
  targetSize : Int
  targetPSNR : F32
  preprocessing : Int
  snsStrength : Int
  filterStrength : Int
  filterSharpness : Int
  filterType : Int
  partitions : Int
  segments : Int
  pass : Int
  emulateJpegSize : Bool
  qMin : Int
  qMax : Int
  alphaCompression : Int
  alphaFiltering : Int
  alphaQuality : Int
  icc : Option Nat
  exif : Option Nat
  xmp : Option Nat
  deriving Repr, DecidableEq, Inhabited

/-- Go zero value `EncoderOptions{}` -/
def zeroOptions : Opts :=
  { lossless := false, quality := F32.zero, method := 0, preset := 0, useSharpYUV := false,
    exact := false, targetSize := 0, targetPSNR := F32.zero, preprocessing := 0,
    snsStrength := 0, filterStrength := 0, filterSharpness := 0, filterType := 0,
    partitions := 0, segments := 0, pass := 0, emulateJpegSize := false, qMin := 0, qMax := 0,
    alphaCompression := 0, alphaFiltering := 0, alphaQuality := 0,
    icc := none, exif := none, xmp := none }

/-- encode.go `DefaultOptions()` -/
def defaultOptions : Opts :=
  { zeroOptions with
    quality := F32.ofNat 75
    lossless := false
    method := 4
    snsStrength := -1
    filterStrength := -1
    filterSharpness := 0
    filterType := -1
    partitions := 0
    segments := -1
    pass := -1
    qMin := 0
    qMax := -1
    alphaCompression := -1
    alphaFiltering := -1
    alphaQuality := -1 }

/-- bit 1 of a two's-complement Go int (`v & 2 != 0`) -/
def bit1 (v : Int) : Bool := (v / 2) % 2 == 1

/-- Go `v &^ 2` -/
def clearBit1 (v : Int) : Int := if bit1 v then v - 2 else v

/-- Go `v | 2` -/
def setBit1 (v : Int) : Int := if bit1 v then v else v + 2

/-- encode.go `OptionsForPreset(preset, quality)`; `preset` is the Go `Preset` int
    (0 Default, 1 Picture, 2 Photo, 3 Drawing, 4 Icon, 5 Text; any other value falls through the
    `switch` like `PresetDefault`). -/
def optionsForPreset (preset : Int) (quality : F32) : Opts :=
  let o := { defaultOptions with quality := quality, preset := preset }
  if preset = 1 then
    { o with snsStrength := 80, filterSharpness := 4, filterStrength := 35,
             preprocessing := clearBit1 o.preprocessing }
  else if preset = 2 then
    { o with snsStrength := 80, filterSharpness := 3, filterStrength := 30,
             preprocessing := setBit1 o.preprocessing }
  else if preset = 3 then
    { o with snsStrength := 25, filterSharpness := 6, filterStrength := 10 }
  else if preset = 4 then
    { o with snsStrength := 0, filterStrength := 0, preprocessing := clearBit1 o.preprocessing }
  else if preset = 5 then
    { o with snsStrength := 0, filterStrength := 0, preprocessing := clearBit1 o.preprocessing,
             segments := 2 }
  else o

/-! ## errors -/

/-- which check rejected the call (one constructor per `return fmt.Errorf` of the front end) -/
inductive Err where
  | nilWriter | nilImage
  | quality | method | targetSize | targetPSNR | preprocessing | preset
  | snsStrength | filterStrength | filterSharpness | filterType | partitions | segments | pass
  | qMinMax | alphaCompression | alphaFiltering | alphaQuality
  | icc | exif | xmp
  | dimsEmpty | dimsTooLarge
  deriving Repr, DecidableEq, Inhabited

def Err.toString : Err → String
  | .nilWriter => "nilWriter" | .nilImage => "nilImage"
  | .quality => "Quality" | .method => "Method" | .targetSize => "TargetSize"
  | .targetPSNR => "TargetPSNR" | .preprocessing => "Preprocessing" | .preset => "Preset"
  | .snsStrength => "SNSStrength" | .filterStrength => "FilterStrength"
  | .filterSharpness => "FilterSharpness" | .filterType => "FilterType"
  | .partitions => "Partitions" | .segments => "Segments" | .pass => "Pass"
  | .qMinMax => "QMinQMax" | .alphaCompression => "AlphaCompression"
  | .alphaFiltering => "AlphaFiltering" | .alphaQuality => "AlphaQuality"
  | .icc => "ICC" | .exif => "EXIF" | .xmp => "XMP"
  | .dimsEmpty => "dimsEmpty" | .dimsTooLarge => "dimsTooLarge"

/-! ## resolve* -/

def resolveSNSStrength (v : Int) : Int := if v < 0 then 50 else v
def resolveFilterStrength (v : Int) : Int := if v < 0 then 60 else v
def resolveFilterType (v : Int) : Int := if v < 0 then 1 else v
def resolveSegments (v : Int) : Int := if v < 0 then 4 else v
def resolvePass (v : Int) : Int := if v < 0 then 1 else v
def resolveQMax (v : Int) : Int := if v < 0 then 100 else v
def resolveAlphaCompression (v : Int) : Int := if v < 0 then 1 else v
def resolveAlphaFiltering (v : Int) : Int := if v < 0 then 1 else v
def resolveAlphaQuality (v : Int) : Int := if v < 0 then 100 else v

/-! ## validateConfig -/

/-- `maxEncoderMetadataSize` -/
def maxEncoderMetadataSize : Nat := 100 * 1024 * 1024

/-- Go `len(s)` of a possibly-nil slice -/
def lenOf : Option Nat → Nat
  | none => 0
  | some n => n

/-- encode.go `validateConfig`: `none` = nil error, `some e` = the first failing check. -/
def validateConfig (o : Opts) : Option Err :=
  if o.quality.ltZero || o.quality.gtNat 100 || o.quality.isNaN || o.quality.isInf then some .quality
  else if o.method < 0 ∨ o.method > 6 then some .method
  else if o.targetSize < 0 then some .targetSize
  else if o.targetPSNR.ltZero || o.targetPSNR.isNaN || o.targetPSNR.isInf then some .targetPSNR
  else if o.preprocessing < 0 ∨ o.preprocessing > 3 then some .preprocessing
  else if o.preset < 0 ∨ o.preset > 5 then some .preset
  else if o.snsStrength > 100 then some .snsStrength
  else if o.filterStrength > 100 then some .filterStrength
  else if o.filterSharpness < 0 ∨ o.filterSharpness > 7 then some .filterSharpness
  else if o.filterType > 1 then some .filterType
  else if o.partitions < 0 ∨ o.partitions > 3 then some .partitions
  else if o.segments > 4 then some .segments
  else if o.pass > 10 then some .pass
  else if o.qMin < 0 ∨ resolveQMax o.qMax > 100 ∨ o.qMin > resolveQMax o.qMax then some .qMinMax
  else if o.alphaCompression > 1 then some .alphaCompression
  else if o.alphaFiltering > 2 then some .alphaFiltering
  else if o.alphaQuality > 100 then some .alphaQuality
  else if lenOf o.icc > maxEncoderMetadataSize then some .icc
  else if lenOf o.exif > maxEncoderMetadataSize then some .exif
  else if lenOf o.xmp > maxEncoderMetadataSize then some .xmp
  else none

/-! ## resolved configurations -/

/-- internal/lossy `EncodeConfig`, every field.  `dithering = none` is the zero value `0.0`;
    `some q` is the amplitude computed from `Quality = q` (opaque, see the header). -/
structure LossyCfg where
  quality : Int
  targetSize : Int
  targetPSNR : F32
  method : Int
  snsStrength : Int
  filterStrength : Int
  filterSharpness : Int
  filterType : Int
  partitions : Int
  segments : Int
  pass : Int
  preprocessing : Int
  dithering : Option F32
  qMin : Int
  qMax : Int
  hasAlpha : Int
  deriving Repr, DecidableEq, Inhabited

/-- internal/lossy `DefaultConfig(quality)` (fields not listed in the Go literal are zero). -/
def defaultConfig (quality : Int) : LossyCfg :=
  let q := if quality < 0 then 0 else quality
  let q := if q > 100 then 100 else q
  { quality := q, targetSize := 0, targetPSNR := F32.zero, method := 4, snsStrength := 50,
    filterStrength := 60, filterSharpness := 0, filterType := 1, partitions := 0, segments := 4,
    pass := 1, preprocessing := 0, dithering := none, qMin := 0, qMax := 100, hasAlpha := 0 }

/-- the statements of `encodeLossyWithAlpha` from `cfg := lossy.DefaultConfig(..)` up to the
    `NewEncoder` call, in source order, with the `>= 0` / `> 0` conditions as coded. -/
def propagate (o : Opts) (hasAlpha : Bool) : LossyCfg :=
  let cfg := defaultConfig o.quality.toInt
  let cfg := { cfg with method := o.method }
  let cfg := if o.targetSize > 0 then { cfg with targetSize := o.targetSize } else cfg
  let cfg := if o.targetPSNR.gtZero then { cfg with targetPSNR := o.targetPSNR } else cfg
  let cfg := { cfg with qMin := o.qMin }
  let cfg := { cfg with qMax := resolveQMax o.qMax }
  let cfg := if o.snsStrength ≥ 0 then { cfg with snsStrength := o.snsStrength } else cfg
  let cfg := if o.filterStrength ≥ 0 then { cfg with filterStrength := o.filterStrength } else cfg
  let cfg := { cfg with filterSharpness := o.filterSharpness }
  let cfg := if o.filterType ≥ 0 then { cfg with filterType := o.filterType } else cfg
  let cfg := { cfg with partitions := o.partitions }
  let cfg := if o.segments > 0 then { cfg with segments := o.segments } else cfg
  let cfg := if o.pass > 0 then { cfg with pass := o.pass } else cfg
  let cfg := { cfg with preprocessing := o.preprocessing }
  let cfg := if bit1 o.preprocessing then { cfg with dithering := some o.quality } else cfg
  { cfg with hasAlpha := if hasAlpha then 1 else 0 }

/-- internal/lossy `AlphaEncoderConfig` -/
structure AlphaCfg where
  quality : Int
  method : Int
  filter : Int
  effortLevel : Int
  deriving Repr, DecidableEq, Inhabited

/-- lossy.AlphaFilterMode{None,Fast,Best} -/
def alphaFilterModeNone : Int := 0
def alphaFilterModeFast : Int := 4
def alphaFilterModeBest : Int := 5

/-- the alpha option mapping of `encodeLossyWithAlpha` -/
def alphaConfig (o : Opts) : AlphaCfg :=
  let alphaComp := resolveAlphaCompression o.alphaCompression
  let alphaFilt := resolveAlphaFiltering o.alphaFiltering
  let alphaQual := resolveAlphaQuality o.alphaQuality
  let alphaMethod : Int := if alphaComp = 0 then 0 else 1
  let alphaFilterMode :=
    if alphaFilt = 0 then alphaFilterModeNone
    else if alphaFilt = 2 then alphaFilterModeBest
    else alphaFilterModeFast
  { quality := alphaQual, method := alphaMethod, filter := alphaFilterMode, effortLevel := o.method }

/-- what the front end of `Encode` hands on: everything the rest of the pipeline reads from
    the options (plus the image facts the front end established). -/
inductive Resolved where
  /-- `encodeLossyWithAlpha`: `cfg`, `alphaCfg` (built iff the image has alpha), the flags read
      outside the configs, and what `writeRIFF` reads (metadata lengths). -/
  | lossy (w h : Int) (cfg : LossyCfg) (acfg : Option AlphaCfg) (exact useSharpYUV hasMetadata : Bool)
      (icc exif xmp : Nat)
  /-- `encodeLossless{,ToWriter}`: `lossless.EncoderConfig{int(Quality), Method, 100}` -/
  | lossless (w h : Int) (quality method nearLossless : Int) (exact hasMetadata : Bool)
      (icc exif xmp : Nat)
  deriving Repr, DecidableEq, Inhabited

/-- what the front end reads from the writer and the image -/
structure ImgDims where
  writerNil : Bool := false
  imgNil : Bool := false
  /-- `img.Bounds().Dx()` -/
  w : Int
  /-- `img.Bounds().Dy()` -/
  h : Int
  /-- `imageHasAlpha(img)` -/
  hasAlpha : Bool := false
  deriving Repr, DecidableEq, Inhabited

/-- `MaxDimension` -/
def maxDimension : Int := 16383

/-- `len(opts.ICC) > 0 || len(opts.EXIF) > 0 || len(opts.XMP) > 0` -/
def hasMetadata (o : Opts) : Bool :=
  decide (lenOf o.icc > 0) || decide (lenOf o.exif > 0) || decide (lenOf o.xmp > 0)

/-- the `if opts.Lossless { … }` dispatch of `Encode` with what each branch builds:
    `encodeLossless{,ToWriter}`'s `lcfg` literal, or `encodeLossyWithAlpha`'s `cfg` / `alphaCfg`. -/
def dispatch (o : Opts) (d : ImgDims) : Resolved :=
  if o.lossless then
    .lossless d.w d.h o.quality.toInt o.method 100 o.exact (hasMetadata o)
      (lenOf o.icc) (lenOf o.exif) (lenOf o.xmp)
  else
    .lossy d.w d.h (propagate o d.hasAlpha)
      (if d.hasAlpha then some (alphaConfig o) else none)
      o.exact o.useSharpYUV (hasMetadata o) (lenOf o.icc) (lenOf o.exif) (lenOf o.xmp)

/-- encode.go `Encode` up to the codec calls. -/
def front (opts : Option Opts) (d : ImgDims) : Res Err Resolved :=
  if d.writerNil then .err .nilWriter
  else if d.imgNil then .err .nilImage
  else
    let o := match opts with
      | none => defaultOptions
      | some o => o
    match validateConfig o with
    | some e => .err e
    | none =>
      if d.w ≤ 0 ∨ d.h ≤ 0 then .err .dimsEmpty
      else if d.w > maxDimension ∨ d.h > maxDimension then .err .dimsTooLarge
      else .ok (dispatch o d)

/-! ## documentation constants (copied by hand from the `EncoderOptions` doc comments; the
    suite `opts` re-extracts them from /repo/encode.go with go/ast and compares, op `optdoc`) -/

/-- fields whose doc comment has a sentence "(or any value < 0) is treated as N" -/
inductive SField where
  | snsStrength | filterStrength | filterType | segments | pass | qMax
  | alphaCompression | alphaFiltering | alphaQuality
  deriving Repr, DecidableEq, Inhabited

def SField.all : List SField :=
  [.snsStrength, .filterStrength, .filterType, .segments, .pass, .qMax,
   .alphaCompression, .alphaFiltering, .alphaQuality]

def SField.name : SField → String
  | .snsStrength => "SNSStrength" | .filterStrength => "FilterStrength"
  | .filterType => "FilterType" | .segments => "Segments" | .pass => "Pass" | .qMax => "QMax"
  | .alphaCompression => "AlphaCompression" | .alphaFiltering => "AlphaFiltering"
  | .alphaQuality => "AlphaQuality"

/-- "The default value -1 (or any value < 0) is treated as N." -/
def docDefault : SField → Int
  | .snsStrength => 50
  | .filterStrength => 60
  | .filterType => 1
  | .segments => 4
  | .pass => 1
  | .qMax => 100
  | .alphaCompression => 1
  | .alphaFiltering => 1
  | .alphaQuality => 100

/-- "(lo-hi, default d)" sentences of the doc comments: field, lo, hi, default -/
def docRanges : List (String × Int × Int × Int) :=
  [("Quality", 0, 100, 75), ("Method", 0, 6, 4), ("SNSStrength", 0, 100, 50),
   ("FilterStrength", 0, 100, 60), ("FilterSharpness", 0, 7, 0), ("Partitions", 0, 3, 0),
   ("Segments", 1, 4, 4), ("Pass", 1, 10, 1), ("QMin", 0, 100, 0), ("QMax", 0, 100, 100)]

/-- the documented meaning of a value of a sentinel field: negative (and, for Segments and Pass,
    zero — `validateConfig`'s comment and error text "0 or -1 for default") means the documented
    default, anything else means itself. -/
def docMeaning (f : SField) (v : Int) : Int :=
  match f with
  | .segments | .pass => if v ≤ 0 then docDefault f else v
  | _ => if v < 0 then docDefault f else v

/-! ## what the codecs assume, and the documented acceptance predicate -/

/-- finite and `0 ≤ x ≤ 100` -/
def F32.InRange0to100 (x : F32) : Prop :=
  x.ltZero = false ∧ x.gtNat 100 = false ∧ x.isNaN = false ∧ x.isInf = false

/-- finite and `0 ≤ x` -/
def F32.FiniteNonneg (x : F32) : Prop :=
  x.ltZero = false ∧ x.isNaN = false ∧ x.isInf = false

/-- ranges internal/lossy assumes of an `EncodeConfig` (the field comments of the struct; the
    codec additionally clamps Segments, Pass, FilterSharpness and the partition count, and reads
    `QMax ≤ 0` as 100 in `initPassStats`, but nothing else). -/
structure LossyCfg.InDomain (c : LossyCfg) : Prop where
  quality : 0 ≤ c.quality ∧ c.quality ≤ 100
  targetSize : 0 ≤ c.targetSize
  targetPSNR : c.targetPSNR.FiniteNonneg
  method : 0 ≤ c.method ∧ c.method ≤ 6
  snsStrength : 0 ≤ c.snsStrength ∧ c.snsStrength ≤ 100
  filterStrength : 0 ≤ c.filterStrength ∧ c.filterStrength ≤ 100
  filterSharpness : 0 ≤ c.filterSharpness ∧ c.filterSharpness ≤ 7
  filterType : 0 ≤ c.filterType ∧ c.filterType ≤ 1
  partitions : 0 ≤ c.partitions ∧ c.partitions ≤ 3
  segments : 1 ≤ c.segments ∧ c.segments ≤ 4
  pass : 1 ≤ c.pass ∧ c.pass ≤ 10
  preprocessing : 0 ≤ c.preprocessing ∧ c.preprocessing ≤ 3
  /-- dithering is computed exactly when bit 1 of Preprocessing is set, and then from an
      in-range Quality -/
  dithering : (c.dithering.isSome = bit1 c.preprocessing) ∧ ∀ q, c.dithering = some q → q.InRange0to100
  qMinMax : 0 ≤ c.qMin ∧ c.qMin ≤ c.qMax ∧ c.qMax ≤ 100
  hasAlpha : c.hasAlpha = 0 ∨ c.hasAlpha = 1

/-- ranges `lossy.EncodeAlpha` assumes of an `AlphaEncoderConfig` -/
structure AlphaCfg.InDomain (a : AlphaCfg) : Prop where
  quality : 0 ≤ a.quality ∧ a.quality ≤ 100
  method : a.method = 0 ∨ a.method = 1
  filter : a.filter = alphaFilterModeNone ∨ a.filter = alphaFilterModeFast ∨ a.filter = alphaFilterModeBest
  effortLevel : 0 ≤ a.effortLevel ∧ a.effortLevel ≤ 6

def DimsOk (w h : Int) : Prop := 1 ≤ w ∧ w ≤ 16383 ∧ 1 ≤ h ∧ h ≤ 16383

def MetaOk (hm : Bool) (icc exif xmp : Nat) : Prop :=
  (hm = true ↔ 0 < icc + exif + xmp) ∧
  icc ≤ maxEncoderMetadataSize ∧ exif ≤ maxEncoderMetadataSize ∧ xmp ≤ maxEncoderMetadataSize

/-- the resolved configuration is inside the ranges the codecs assume -/
def InCodecDomain : Resolved → Prop
  | .lossy w h cfg acfg _ _ hm icc exif xmp =>
    DimsOk w h ∧ cfg.InDomain ∧ (∀ a, acfg = some a → a.InDomain) ∧
    (acfg.isSome = true ↔ cfg.hasAlpha = 1) ∧ MetaOk hm icc exif xmp
  | .lossless w h q m nl _ hm icc exif xmp =>
    DimsOk w h ∧ (0 ≤ q ∧ q ≤ 100) ∧ (0 ≤ m ∧ m ≤ 6) ∧ nl = 100 ∧ MetaOk hm icc exif xmp

/-- the documented domain of `EncoderOptions` (ranges of the doc comments; negative sentinels
    and, for Segments / Pass, zero are inside it) -/
structure DocValid (o : Opts) : Prop where
  quality : o.quality.InRange0to100
  method : 0 ≤ o.method ∧ o.method ≤ 6
  targetSize : 0 ≤ o.targetSize
  targetPSNR : o.targetPSNR.FiniteNonneg
  preprocessing : 0 ≤ o.preprocessing ∧ o.preprocessing ≤ 3
  preset : 0 ≤ o.preset ∧ o.preset ≤ 5
  snsStrength : o.snsStrength ≤ 100
  filterStrength : o.filterStrength ≤ 100
  filterSharpness : 0 ≤ o.filterSharpness ∧ o.filterSharpness ≤ 7
  filterType : o.filterType ≤ 1
  partitions : 0 ≤ o.partitions ∧ o.partitions ≤ 3
  segments : o.segments ≤ 4
  pass : o.pass ≤ 10
  qMinMax : 0 ≤ o.qMin ∧ o.qMin ≤ docMeaning .qMax o.qMax ∧ docMeaning .qMax o.qMax ≤ 100
  alphaCompression : o.alphaCompression ≤ 1
  alphaFiltering : o.alphaFiltering ≤ 2
  alphaQuality : o.alphaQuality ≤ 100
  icc : lenOf o.icc ≤ maxEncoderMetadataSize
  exif : lenOf o.exif ≤ maxEncoderMetadataSize
  xmp : lenOf o.xmp ≤ maxEncoderMetadataSize

/-- fields the lossless path reads (everything else is invisible to it after validation) -/
def losslessView (o : Opts) : Bool × F32 × Int × Bool × Option Nat × Option Nat × Option Nat :=
  (o.lossless, o.quality, o.method, o.exact, o.icc, o.exif, o.xmp)

end Webp.Impl.Opts
