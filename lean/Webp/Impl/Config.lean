import Webp.Impl.Parser
/-
  Implementation model of the header-query glue in /repo/webp.go:
  `GetFeatures`, `DecodeConfig`, and the container-level part of `Decode`
  (which frame is decoded and which Go image type comes back).
-/
namespace Webp.Impl.Config
open Webp.Go Webp.Impl.Parser

inductive ColorModel where | nrgba | ycbcr
  deriving Repr, DecidableEq, Inhabited

structure PubFeatures where
  width : Nat
  height : Nat
  hasAlpha : Bool
  hasAnimation : Bool
  format : String
  loopCount : Nat
  frameCount : Nat
  deriving Repr, DecidableEq, Inhabited

/-- webp.go GetFeatures (after `container.NewParser`).  A still without any image chunk is
    rejected (the repaired code: `FrameCount` is "1 for still images"). -/
def getFeatures (data : Bytes) : R PubFeatures := do
  let p ← parse data
  if p.frames.length = 0 ∧ !p.features.hasAnim then .err .other
  else
  pure {
    width := p.features.width, height := p.features.height, hasAlpha := p.features.hasAlpha,
    hasAnimation := p.features.hasAnim, frameCount := p.frames.length,
    loopCount := p.features.loopCount,
    format := match p.features.format with
      | .vp8 => "lossy" | .vp8l => "lossless" | .vp8x => "extended" | .undefined => "unknown" }

structure ImgConfig where
  model : ColorModel
  width : Nat
  height : Nat
  deriving Repr, DecidableEq, Inhabited

/-- the colour model `DecodeConfig` derives.  `lenTest = false` is the pinned original
    (`frames[0].AlphaData == nil`), `true` the repaired code (`len(AlphaData) == 0`). -/
def configModel (lenTest : Bool) (p : State) : ColorModel :=
  match p.frames with
  | f :: _ =>
    let noAlpha := if lenTest then (f.alphaData.getD []).length = 0 else f.alphaData.isNone
    if !f.isLossless ∧ noAlpha then .ycbcr else .nrgba
  | [] => if !p.features.hasAlpha then .ycbcr else .nrgba

def decodeConfigWith (lenTest : Bool) (data : Bytes) : R ImgConfig := do
  let p ← parse data
  if p.frames.length = 0 ∧ !p.features.hasAnim then .err .other
  else
  pure { model := configModel lenTest p, width := p.features.width, height := p.features.height }

/-- what `Decode` hands to the codecs, and the Go image type it returns on codec success -/
structure DecodeTarget where
  isLossless : Bool
  payload : Bytes
  alpha : Bytes          -- `len(alphaData) > 0` ⇒ ALPH decoded; empty ⇒ none
  model : ColorModel
  width : Nat            -- dimensions the container parser derived from the bitstream header
  height : Nat
  deriving Repr, DecidableEq, Inhabited

/-- webp.go decodeBytes up to the codec call; `none` = ErrNoFrames -/
def decodeTarget (data : Bytes) : R (Option DecodeTarget) := do
  let p ← parse data
  match p.frames with
  | [] => pure none
  | f :: _ =>
    let a := f.alphaData.getD []
    pure (some {
      isLossless := f.isLossless, payload := f.payload.getD [], alpha := a,
      model := if f.isLossless then .nrgba else if a.length > 0 then .nrgba else .ycbcr,
      width := f.width, height := f.height })

end Webp.Impl.Config
