import Generated.Fingerprints
/-
  Webp.Impl.Transcribed — which Go functions of /repo the hand-written models TRANSCRIBE (or, for
  the group `vp8DecodeGo`, which Go functions are the implementation side of a differential oracle
  whose reference is a spec model), each with the fingerprint its source text had when the model was
  last validated against it.  Core Lean only.  HAND-MAINTAINED.

  A fingerprint (see /verif/harness/cmd/extract/fingerprints.go) is the first 16 hex digits of
  SHA-256 over the function declaration with comments and layout removed and locals renamed
  v1, v2, … in declaration order; it is regenerated from /repo on every run into
  `Generated.Fingerprints` (`table` / `lookup` as strings, `fn.«key»` as numbers).  The theorems
  `model_current_Cxx` (Webp/Props/CxxCurrent.lean) state that no entry of `expected_Cxx` is stale.
  They say NOTHING about meaning: they record that the text a model was written from is still the
  text in /repo.  A harmless rewrite that goes beyond renaming locals or reformatting trips them
  too; the model then has to be re-validated and the expectation updated.

  An entry `fp! "pkg.Recv.Name" 0x<hash>` is the triple
  `("pkg.Recv.Name", Generated.Fingerprints.fn.«pkg.Recv.Name», 0x<hash>)`: key, fingerprint on this
  run (the generated constant of that name; for a key that is neither listed in
  harness/cmd/extract/fingerprints_list.go nor reached from a listed function there is no such
  constant and the component is 0 = "missing"), fingerprint at validation time.
  (Numbers, not strings: string equality is very slow in the kernel.  0 means "missing".)

  Layout.  One hand-written list `X_roots` per model file ("group") or per property
  (`extra_Cxx_roots`: functions named in the property's anchors in /verif/properties.jsonl, or shown
  relevant by a seeded change, that are not in one of its groups).  Each is completed mechanically:
  `X_deps` = every declaration the entries of `X_roots` REACH inside their package — functions they
  call (transitively), package-level constants and variables used on the way (keys `pkg.const:Name`,
  `pkg.var:Name`) — and `X = X_roots ++ X_deps`.  The `X_deps` lists and the recorded entries they
  refer to (namespace `dep`) are written by tools/update_fingerprints.py from
  `Generated.Fingerprints.deps`; do not edit them by hand.  Why explicit entries and not one combined
  hash per listed function: the failing theorem then names exactly the helper or constant that
  changed, and the Lean side needs no second notion of fingerprint.  The call graph can only change
  when the text of a listed or reached function changes, which makes an entry stale; so between two
  runs of the tool the `X_deps` lists are complete.
  `expected_Cxx` = the groups of the models the property's theorem modules import, of the codecs its
  inputs pass through, or whose Go functions its anchors name, ++ `extra_Cxx`.

  Maintenance.  After an INTENDED change of a listed Go function: re-validate the model against the
  new text (read the diff, adapt the model, run the property's suites), then run
  /verif/tools/update_fingerprints.py, which rewrites the hashes below from the current
  Generated/Fingerprints.lean and prints what changed.  ./check never runs that tool.
  A newly transcribed function needs an entry in an `X_roots` list here AND in
  harness/cmd/extract/fingerprints_list.go (then run the tool: it fills in `X_deps`).
-/
namespace Webp.Impl.Transcribed

/-- key, fingerprint now, fingerprint when the model was validated -/
abbrev Entry := String × Nat × Nat

open Lean in
/-- `fp! "key" 0xHASH` = `("key", Generated.Fingerprints.fn.«key», 0xHASH)`; when the extractor emitted
    no constant of that name on this run (a reached helper that was deleted or renamed, a key that is
    not fingerprinted) the middle component is `0`, i.e. "missing", so that the entry is reported as
    stale by name instead of breaking the elaboration of this file -/
macro "fp!" k:str h:num : term => do
  let n := Name.str `Generated.Fingerprints.fn k.getString
  if (← Macro.hasDecl n) then `(($k, $(mkIdent n), $h)) else `(($k, (0 : Nat), $h))

/-- keys of the entries whose current fingerprint differs from the recorded one -/
def stale (expected : List Entry) : List String :=
  (expected.filter (fun e => e.2.1 != e.2.2)).map (·.1)

/-! ## closure entries

  One recorded entry per declaration that some list below REACHES without listing it: same-package
  functions called (transitively) by a listed function, package-level constants and variables they
  use (key forms `pkg.Name`, `pkg.Recv.Name`, `pkg.const:Name`, `pkg.var:Name`).  Which keys a list
  reaches is `Generated.Fingerprints.deps`; the `…_deps` lists below refer to these entries. -/

-- BEGIN closure entries (written by tools/update_fingerprints.py — do not edit by hand)
namespace dep
def «animation.Animation.DecodeFrames» : Entry := fp! "animation.Animation.DecodeFrames" 0x4b216a8b4a7737e1
def «animation.Frame.Bounds» : Entry := fp! "animation.Frame.Bounds" 0x2371a71e4d603889
def «animation.argbToNRGBA» : Entry := fp! "animation.argbToNRGBA" 0x89274599b13ca87a
def «animation.bitstreamFrame.Bounds» : Entry := fp! "animation.bitstreamFrame.Bounds" 0xec8d240fc958c1b3
def «animation.clampLoopCount» : Entry := fp! "animation.clampLoopCount" 0xda63291eb0d677a4
def «animation.const:BlendAlpha» : Entry := fp! "animation.const:BlendAlpha" 0xf21784852f927ebc
def «animation.const:BlendNone» : Entry := fp! "animation.const:BlendNone" 0x6123147b99b7d208
def «animation.const:DisposeBackground» : Entry := fp! "animation.const:DisposeBackground" 0x8e35191fa558464d
def «animation.const:DisposeNone» : Entry := fp! "animation.const:DisposeNone" 0x2256f1a6eb716a51
def «animation.const:maxCanvasArea» : Entry := fp! "animation.const:maxCanvasArea" 0xd2f66fbd36f3476c
def «animation.const:maxCanvasDimension» : Entry := fp! "animation.const:maxCanvasDimension" 0x2be158cf9977122f
def «animation.const:maxDuration» : Entry := fp! "animation.const:maxDuration" 0x45e6d396033cdabd
def «animation.const:maxInputSize» : Entry := fp! "animation.const:maxInputSize" 0x2c0a31f9bda331ed
def «animation.const:maxLoopCount» : Entry := fp! "animation.const:maxLoopCount" 0xd5a9f1596416f11b
def «animation.fillRect» : Entry := fp! "animation.fillRect" 0x35289ba0284d6fde
def «animation.nrgbaToARGB» : Entry := fp! "animation.nrgbaToARGB" 0xf539c1bfe7e9d02f
def «animation.sanitizeKeyframeOptions» : Entry := fp! "animation.sanitizeKeyframeOptions" 0x77eff691921a42b3
def «animation.toNRGBA» : Entry := fp! "animation.toNRGBA" 0x3a9203454c43ee91
def «animation.var:ErrNilImage» : Entry := fp! "animation.var:ErrNilImage" 0x77d3ad0fad65f125
def «animation.var:ErrNoDecoder» : Entry := fp! "animation.var:ErrNoDecoder" 0x5ba36a027c85a39c
def «animation.var:ErrNoFrames» : Entry := fp! "animation.var:ErrNoFrames" 0xbe6fc3d2c69cc28f
def «animation.var:FrameDecoderFunc» : Entry := fp! "animation.var:FrameDecoderFunc" 0xfe25418b1de0164b
def «animation.var:FrameEncoderFunc» : Entry := fp! "animation.var:FrameEncoderFunc" 0xb137b95e4e9d918a
def «animation.var:SimpleEncodeFunc» : Entry := fp! "animation.var:SimpleEncodeFunc" 0x774101cc2c48c5df
def «internal/bitio.LosslessReader.PrefetchBits» : Entry := fp! "internal/bitio.LosslessReader.PrefetchBits" 0x8e78ebb0f6d45615
def «internal/bitio.LosslessReader.setEndOfStream» : Entry := fp! "internal/bitio.LosslessReader.setEndOfStream" 0xa63a7c6dc946d591
def «internal/bitio.LosslessReader.shiftBytes» : Entry := fp! "internal/bitio.LosslessReader.shiftBytes" 0x4198adfccfb0ebb7
def «internal/bitio.boolToInt» : Entry := fp! "internal/bitio.boolToInt" 0x4b3ccb225cbbd8fe
def «internal/bitio.const:boolBITS» : Entry := fp! "internal/bitio.const:boolBITS" 0x0f977e5e2d29cc17
def «internal/bitio.const:vp8lLBits» : Entry := fp! "internal/bitio.const:vp8lLBits" 0x3a0eea19fea6312d
def «internal/bitio.const:vp8lMaxNumBitRead» : Entry := fp! "internal/bitio.const:vp8lMaxNumBitRead" 0xcae53010e421fe20
def «internal/bitio.const:vp8lWBits» : Entry := fp! "internal/bitio.const:vp8lWBits" 0x3e623914f2ae8de0
def «internal/bitio.const:writerBits» : Entry := fp! "internal/bitio.const:writerBits" 0xfd9b93cb9deb8b55
def «internal/bitio.const:writerBytes» : Entry := fp! "internal/bitio.const:writerBytes" 0xdd61d4c6b8064cf5
def «internal/bitio.var:kBitMask» : Entry := fp! "internal/bitio.var:kBitMask" 0x558276dd857983df
def «internal/bitio.var:kNewRange» : Entry := fp! "internal/bitio.var:kNewRange" 0x46aaba9425968787
def «internal/bitio.var:kNorm» : Entry := fp! "internal/bitio.var:kNorm" 0x176329885de8dfbd
def «internal/bitio.var:kVP8Log2Range» : Entry := fp! "internal/bitio.var:kVP8Log2Range" 0x08954ed36497c24c
def «internal/bitio.var:kVP8NewRange» : Entry := fp! "internal/bitio.var:kVP8NewRange" 0x901792f8c49c8a1e
def «internal/container.FourCCString» : Entry := fp! "internal/container.FourCCString" 0x0f3ef46a045eeb2f
def «internal/container.const:ANIMChunkSize» : Entry := fp! "internal/container.const:ANIMChunkSize" 0x0d622592e5690b6a
def «internal/container.const:ANMFChunkSize» : Entry := fp! "internal/container.const:ANMFChunkSize" 0xb0e33744a3a2a2e3
def «internal/container.const:AllValidFlags» : Entry := fp! "internal/container.const:AllValidFlags" 0xb285ba93185ff236
def «internal/container.const:AlphaFlag» : Entry := fp! "internal/container.const:AlphaFlag" 0x221d098177e0ffea
def «internal/container.const:AnimationFlag» : Entry := fp! "internal/container.const:AnimationFlag" 0x9dd80f85f18b4e4e
def «internal/container.const:BlendNone» : Entry := fp! "internal/container.const:BlendNone" 0x9b1ff78661d34a98
def «internal/container.const:ChunkHeaderSize» : Entry := fp! "internal/container.const:ChunkHeaderSize" 0x088ffaa2bf2588ac
def «internal/container.const:DisposeBackground» : Entry := fp! "internal/container.const:DisposeBackground" 0x6295d8318f3fae9a
def «internal/container.const:EXIFFlag» : Entry := fp! "internal/container.const:EXIFFlag" 0x5b7e86a22798ff4d
def «internal/container.const:FormatVP8» : Entry := fp! "internal/container.const:FormatVP8" 0x683855ed08dce469
def «internal/container.const:FormatVP8L» : Entry := fp! "internal/container.const:FormatVP8L" 0x22cac7152884fb62
def «internal/container.const:FormatVP8X» : Entry := fp! "internal/container.const:FormatVP8X" 0x3baacd360d5a6b26
def «internal/container.const:ICCPFlag» : Entry := fp! "internal/container.const:ICCPFlag" 0x489f1646c888f92d
def «internal/container.const:MaxChunkPayload» : Entry := fp! "internal/container.const:MaxChunkPayload" 0xcdc688f798461019
def «internal/container.const:MaxChunks» : Entry := fp! "internal/container.const:MaxChunks" 0xf6f99943b10506f5
def «internal/container.const:MaxFrames» : Entry := fp! "internal/container.const:MaxFrames" 0xec2cbb270d77ad39
def «internal/container.const:MaxImageArea» : Entry := fp! "internal/container.const:MaxImageArea" 0x8a71354d05472ff9
def «internal/container.const:MaxMetadataSize» : Entry := fp! "internal/container.const:MaxMetadataSize" 0xfadef4830f34cdba
def «internal/container.const:RIFFHeaderSize» : Entry := fp! "internal/container.const:RIFFHeaderSize" 0x21ac4f511d934add
def «internal/container.const:VP8FrameHeaderSize» : Entry := fp! "internal/container.const:VP8FrameHeaderSize" 0x57e3dba5982fbeab
def «internal/container.const:VP8LFrameHeaderSize» : Entry := fp! "internal/container.const:VP8LFrameHeaderSize" 0xa2805741b49a71f9
def «internal/container.const:VP8LMagicByte» : Entry := fp! "internal/container.const:VP8LMagicByte" 0x7f5e064b72e42f72
def «internal/container.const:VP8LVersion» : Entry := fp! "internal/container.const:VP8LVersion" 0xc01fdba6fba70be6
def «internal/container.const:VP8Signature» : Entry := fp! "internal/container.const:VP8Signature" 0x2ebc448861d99938
def «internal/container.const:VP8XChunkSize» : Entry := fp! "internal/container.const:VP8XChunkSize" 0x48c5d505fb29a844
def «internal/container.const:XMPFlag» : Entry := fp! "internal/container.const:XMPFlag" 0xf17991c0620ac1bc
def «internal/container.var:ErrInvalidChunk» : Entry := fp! "internal/container.var:ErrInvalidChunk" 0x22905f48093a9fc1
def «internal/container.var:ErrInvalidFlags» : Entry := fp! "internal/container.var:ErrInvalidFlags" 0x51beea15ab5cd8db
def «internal/container.var:ErrInvalidImage» : Entry := fp! "internal/container.var:ErrInvalidImage" 0x15ef174154fd41a7
def «internal/container.var:ErrInvalidRIFF» : Entry := fp! "internal/container.var:ErrInvalidRIFF" 0x183e7929537199f8
def «internal/container.var:ErrInvalidVP8X» : Entry := fp! "internal/container.var:ErrInvalidVP8X" 0xd2bd9a72c727b67b
def «internal/container.var:ErrInvalidWebP» : Entry := fp! "internal/container.var:ErrInvalidWebP" 0xef3f6fca3b842f87
def «internal/container.var:ErrTooLarge» : Entry := fp! "internal/container.var:ErrTooLarge" 0x5b135d47c5824ddf
def «internal/container.var:ErrTruncated» : Entry := fp! "internal/container.var:ErrTruncated" 0xe49b5ab58bc56a2d
def «internal/container.var:ErrUnsupported» : Entry := fp! "internal/container.var:ErrUnsupported" 0x0cb45b71511d8ba0
def «internal/container.var:FourCCALPH» : Entry := fp! "internal/container.var:FourCCALPH" 0xe6a0e9b4269603e2
def «internal/container.var:FourCCANIM» : Entry := fp! "internal/container.var:FourCCANIM" 0x672e86218951addc
def «internal/container.var:FourCCANMF» : Entry := fp! "internal/container.var:FourCCANMF" 0x152947919863e44d
def «internal/container.var:FourCCEXIF» : Entry := fp! "internal/container.var:FourCCEXIF" 0xe00d23d16ebd7747
def «internal/container.var:FourCCICCP» : Entry := fp! "internal/container.var:FourCCICCP" 0xd0f9e8e2835a286d
def «internal/container.var:FourCCRIFF» : Entry := fp! "internal/container.var:FourCCRIFF" 0x9e5e124fee8ff00b
def «internal/container.var:FourCCVP8» : Entry := fp! "internal/container.var:FourCCVP8" 0xe8ce796cfed82d47
def «internal/container.var:FourCCVP8L» : Entry := fp! "internal/container.var:FourCCVP8L" 0x88426fc7ea5b3b38
def «internal/container.var:FourCCVP8X» : Entry := fp! "internal/container.var:FourCCVP8X" 0x8ed5fca0b70ffef6
def «internal/container.var:FourCCWEBP» : Entry := fp! "internal/container.var:FourCCWEBP" 0x8d3ca48e9b0a635a
def «internal/container.var:FourCCXMP» : Entry := fp! "internal/container.var:FourCCXMP" 0xfcef79f3947e0fa0
def «internal/dsp.Clip8b» : Entry := fp! "internal/dsp.Clip8b" 0x2149951e95093e83
def «internal/dsp.Init» : Entry := fp! "internal/dsp.Init" 0x33f2eea4c9ebffa3
def «internal/dsp.Kabs0» : Entry := fp! "internal/dsp.Kabs0" 0x8cb6d6808ce0d416
def «internal/dsp.Kclip1» : Entry := fp! "internal/dsp.Kclip1" 0x1705458b67ac2573
def «internal/dsp.Ksclip1» : Entry := fp! "internal/dsp.Ksclip1" 0x3c07d429c203dc6e
def «internal/dsp.Ksclip2» : Entry := fp! "internal/dsp.Ksclip2" 0x9463b769943b057f
def «internal/dsp.YUVToB» : Entry := fp! "internal/dsp.YUVToB" 0x45ef69afbb5169e4
def «internal/dsp.YUVToG» : Entry := fp! "internal/dsp.YUVToG" 0x03fa375bcb49c523
def «internal/dsp.YUVToR» : Entry := fp! "internal/dsp.YUVToR" 0x635996e7558f3f75
def «internal/dsp.YUVToRGB» : Entry := fp! "internal/dsp.YUVToRGB" 0x8a31841169aa14ad
def «internal/dsp.abs» : Entry := fp! "internal/dsp.abs" 0x8573db51f91c713e
def «internal/dsp.addGreenToBlueAndRedAVX2» : Entry := fp! "internal/dsp.addGreenToBlueAndRedAVX2" 0xbf78d0cd0e6c8640
def «internal/dsp.addGreenToBlueAndRedGo» : Entry := fp! "internal/dsp.addGreenToBlueAndRedGo" 0x1bf73c4ae5f257d5
def «internal/dsp.addGreenToBlueAndRedNEON» : Entry := fp! "internal/dsp.addGreenToBlueAndRedNEON" 0x8c806fee726d1f74
def «internal/dsp.addGreenToBlueAndRedSSE2» : Entry := fp! "internal/dsp.addGreenToBlueAndRedSSE2" 0xbfd509e93adebdb9
def «internal/dsp.avg2» : Entry := fp! "internal/dsp.avg2" 0xaf10a2348114dbe0
def «internal/dsp.avg3» : Entry := fp! "internal/dsp.avg3" 0xe5608bfda1e67715
def «internal/dsp.b2i» : Entry := fp! "internal/dsp.b2i" 0x00e39e6a050abcf5
def «internal/dsp.const:BPS» : Entry := fp! "internal/dsp.const:BPS" 0x4411a0e0db0fd725
def «internal/dsp.const:abs0Offset» : Entry := fp! "internal/dsp.const:abs0Offset" 0xba2f1f2940c82c02
def «internal/dsp.const:c1» : Entry := fp! "internal/dsp.const:c1" 0x6a95cf388c662970
def «internal/dsp.const:c2» : Entry := fp! "internal/dsp.const:c2" 0x8bac83552800005c
def «internal/dsp.const:clip1Offset» : Entry := fp! "internal/dsp.const:clip1Offset" 0xf2dedf1b5d1d1666
def «internal/dsp.const:kBBias» : Entry := fp! "internal/dsp.const:kBBias" 0x6987b588dd909cc1
def «internal/dsp.const:kBCb» : Entry := fp! "internal/dsp.const:kBCb" 0x625d687b81ffc276
def «internal/dsp.const:kGBias» : Entry := fp! "internal/dsp.const:kGBias" 0x1d238225d22d17d9
def «internal/dsp.const:kGCb» : Entry := fp! "internal/dsp.const:kGCb" 0x770fe718c4e50506
def «internal/dsp.const:kGCr» : Entry := fp! "internal/dsp.const:kGCr" 0x350bbda37753c3dc
def «internal/dsp.const:kRBias» : Entry := fp! "internal/dsp.const:kRBias" 0x424bbbe7ff19bf99
def «internal/dsp.const:kRCr» : Entry := fp! "internal/dsp.const:kRCr" 0x9ab5f622b28b7232
def «internal/dsp.const:kYScale» : Entry := fp! "internal/dsp.const:kYScale" 0x7f8d2af7007f74a1
def «internal/dsp.const:sclip1Offset» : Entry := fp! "internal/dsp.const:sclip1Offset" 0xd9ecd6acd29c563d
def «internal/dsp.const:sclip2Offset» : Entry := fp! "internal/dsp.const:sclip2Offset" 0x4fc1d2aadde72486
def «internal/dsp.const:vp8RandomDitherFix» : Entry := fp! "internal/dsp.const:vp8RandomDitherFix" 0x94cd9ad232ee0138
def «internal/dsp.const:vp8RandomTableSize» : Entry := fp! "internal/dsp.const:vp8RandomTableSize" 0x1be4cdfc2a6da668
def «internal/dsp.const:yuvFix» : Entry := fp! "internal/dsp.const:yuvFix" 0xc519d1506d5bc6da
def «internal/dsp.const:yuvFix2» : Entry := fp! "internal/dsp.const:yuvFix2" 0xa5863edfef860084
def «internal/dsp.const:yuvMask» : Entry := fp! "internal/dsp.const:yuvMask" 0x4674e8ac53042d8e
def «internal/dsp.cpuidAVX2Check» : Entry := fp! "internal/dsp.cpuidAVX2Check" 0xd7abab8337c921eb
def «internal/dsp.dc16» : Entry := fp! "internal/dsp.dc16" 0xc47849710a807d49
def «internal/dsp.dc16NEON» : Entry := fp! "internal/dsp.dc16NEON" 0x4a171c75e7c7fc99
def «internal/dsp.dc16NoLeft» : Entry := fp! "internal/dsp.dc16NoLeft" 0x07e14eb07b9d6a4f
def «internal/dsp.dc16NoTop» : Entry := fp! "internal/dsp.dc16NoTop" 0xefd9b73d9ba3fea7
def «internal/dsp.dc16NoTopLeft» : Entry := fp! "internal/dsp.dc16NoTopLeft" 0xce8c3fe59c56cb17
def «internal/dsp.dc16SSE2» : Entry := fp! "internal/dsp.dc16SSE2" 0xaaeb6ed007757593
def «internal/dsp.dc16asmNEON» : Entry := fp! "internal/dsp.dc16asmNEON" 0x02d3e82632063006
def «internal/dsp.dc16asmSSE2» : Entry := fp! "internal/dsp.dc16asmSSE2" 0x76d70bf06904a9bb
def «internal/dsp.dc4» : Entry := fp! "internal/dsp.dc4" 0x4ed2c997e867fff1
def «internal/dsp.dc8uv» : Entry := fp! "internal/dsp.dc8uv" 0x712ce9c72b182f61
def «internal/dsp.dc8uvNEON» : Entry := fp! "internal/dsp.dc8uvNEON" 0x024147bfde4aab3f
def «internal/dsp.dc8uvNoLeft» : Entry := fp! "internal/dsp.dc8uvNoLeft" 0x7e537c9cc6adf5a1
def «internal/dsp.dc8uvNoTop» : Entry := fp! "internal/dsp.dc8uvNoTop" 0xa93ccb9d172f51e2
def «internal/dsp.dc8uvNoTopLeft» : Entry := fp! "internal/dsp.dc8uvNoTopLeft" 0xe1e95bd118325ef4
def «internal/dsp.dc8uvSSE2» : Entry := fp! "internal/dsp.dc8uvSSE2" 0x955e930350155d66
def «internal/dsp.dc8uvasmNEON» : Entry := fp! "internal/dsp.dc8uvasmNEON" 0x4f2c83963ccd8ee1
def «internal/dsp.dc8uvasmSSE2» : Entry := fp! "internal/dsp.dc8uvasmSSE2" 0x50f89b21f2de49d0
def «internal/dsp.fTransform» : Entry := fp! "internal/dsp.fTransform" 0x5827adfade404d7b
def «internal/dsp.fTransform2» : Entry := fp! "internal/dsp.fTransform2" 0xbe1a9dcee59894d7
def «internal/dsp.fTransform2AVX2» : Entry := fp! "internal/dsp.fTransform2AVX2" 0x562fa5537447c99c
def «internal/dsp.fTransformAVX2» : Entry := fp! "internal/dsp.fTransformAVX2" 0x8fe74ae9e54a148f
def «internal/dsp.fTransformSSE2» : Entry := fp! "internal/dsp.fTransformSSE2" 0xfb14f8981a70b79b
def «internal/dsp.fTransformWHT» : Entry := fp! "internal/dsp.fTransformWHT" 0x51990f7b8cb20757
def «internal/dsp.fTransformWHTNEON» : Entry := fp! "internal/dsp.fTransformWHTNEON" 0x9afc498aa7ab9f34
def «internal/dsp.fTransformWHTSSE2» : Entry := fp! "internal/dsp.fTransformWHTSSE2" 0x0fa604d5d04928f2
def «internal/dsp.hd4» : Entry := fp! "internal/dsp.hd4" 0x0550b10e1848ee9f
def «internal/dsp.he16» : Entry := fp! "internal/dsp.he16" 0xc097acc60b2dc055
def «internal/dsp.he16NEON» : Entry := fp! "internal/dsp.he16NEON" 0x01a01043010e336d
def «internal/dsp.he16SSE2» : Entry := fp! "internal/dsp.he16SSE2" 0x49af479d3bd30bf6
def «internal/dsp.he16asmNEON» : Entry := fp! "internal/dsp.he16asmNEON" 0xf77099656f6f7d30
def «internal/dsp.he16asmSSE2» : Entry := fp! "internal/dsp.he16asmSSE2" 0xf43734ff711501a6
def «internal/dsp.he4» : Entry := fp! "internal/dsp.he4" 0xdb139959ca6b744d
def «internal/dsp.he8uv» : Entry := fp! "internal/dsp.he8uv" 0x1703537427f2cd41
def «internal/dsp.he8uvNEON» : Entry := fp! "internal/dsp.he8uvNEON" 0x6d90d5c3ecf59574
def «internal/dsp.he8uvSSE2» : Entry := fp! "internal/dsp.he8uvSSE2" 0x2fe5e8dddf6c3158
def «internal/dsp.he8uvasmNEON» : Entry := fp! "internal/dsp.he8uvasmNEON" 0xdeb94eea6a708491
def «internal/dsp.he8uvasmSSE2» : Entry := fp! "internal/dsp.he8uvasmSSE2" 0xd911da54910a6a2a
def «internal/dsp.hu4» : Entry := fp! "internal/dsp.hu4" 0xa1a751a777816ff3
def «internal/dsp.iTransform» : Entry := fp! "internal/dsp.iTransform" 0x24afee0de2eaadd4
def «internal/dsp.iTransformAVX2» : Entry := fp! "internal/dsp.iTransformAVX2" 0x877ce8a1c5acefca
def «internal/dsp.iTransformNEON» : Entry := fp! "internal/dsp.iTransformNEON" 0xfa8061da7043cb7d
def «internal/dsp.iTransformOne» : Entry := fp! "internal/dsp.iTransformOne" 0x6129a3b298a8d380
def «internal/dsp.iTransformOneAVX2» : Entry := fp! "internal/dsp.iTransformOneAVX2" 0x91f69810657a0847
def «internal/dsp.iTransformOneNEON» : Entry := fp! "internal/dsp.iTransformOneNEON" 0x63520b5875fff2d1
def «internal/dsp.iTransformOneSSE2» : Entry := fp! "internal/dsp.iTransformOneSSE2" 0x60fda2eb21683bf1
def «internal/dsp.iTransformSSE2» : Entry := fp! "internal/dsp.iTransformSSE2" 0x0dfeafad180cc907
def «internal/dsp.initClipTables» : Entry := fp! "internal/dsp.initClipTables" 0x788ac4af6caf3878
def «internal/dsp.initLevelCosts» : Entry := fp! "internal/dsp.initLevelCosts" 0xfe60855f42fb3b6e
def «internal/dsp.initLosslessPredictors» : Entry := fp! "internal/dsp.initLosslessPredictors" 0xe6d57743fa5d48f5
def «internal/dsp.initPredictors» : Entry := fp! "internal/dsp.initPredictors" 0x69800a57e922eb96
def «internal/dsp.initSSIM» : Entry := fp! "internal/dsp.initSSIM" 0x56ebd121c3432e46
def «internal/dsp.initScanTable» : Entry := fp! "internal/dsp.initScanTable" 0x37022c8257c81a7c
def «internal/dsp.initYUVTables» : Entry := fp! "internal/dsp.initYUVTables" 0xbff96ccb66366ca0
def «internal/dsp.lAbs» : Entry := fp! "internal/dsp.lAbs" 0x74cfbc8df33f0733
def «internal/dsp.lAverage2» : Entry := fp! "internal/dsp.lAverage2" 0xe7063160c3df110d
def «internal/dsp.lAverage3» : Entry := fp! "internal/dsp.lAverage3" 0xf06c0fae556a8d5e
def «internal/dsp.lAverage4» : Entry := fp! "internal/dsp.lAverage4" 0x719b765a27158179
def «internal/dsp.lClamp» : Entry := fp! "internal/dsp.lClamp" 0x479b315c90c3c517
def «internal/dsp.lClampedAddSubtractFull» : Entry := fp! "internal/dsp.lClampedAddSubtractFull" 0xfce4dfae058bd33d
def «internal/dsp.lClampedAddSubtractHalf» : Entry := fp! "internal/dsp.lClampedAddSubtractHalf" 0xc28965ef30f6ec55
def «internal/dsp.lSelect» : Entry := fp! "internal/dsp.lSelect" 0x75f820a73b2e2315
def «internal/dsp.ld4» : Entry := fp! "internal/dsp.ld4" 0xe588de0b7fc21991
def «internal/dsp.loadUV» : Entry := fp! "internal/dsp.loadUV" 0xbaab60d134aec456
def «internal/dsp.mul1» : Entry := fp! "internal/dsp.mul1" 0x4efa0e79c96d0476
def «internal/dsp.mul2» : Entry := fp! "internal/dsp.mul2" 0x3ccf5716eb7729b1
def «internal/dsp.multHi» : Entry := fp! "internal/dsp.multHi" 0x6a9d717a70bc843b
def «internal/dsp.pred0» : Entry := fp! "internal/dsp.pred0" 0x025fe0e93ad9ae6d
def «internal/dsp.pred1» : Entry := fp! "internal/dsp.pred1" 0xaf0c3ae85c0c9277
def «internal/dsp.pred10» : Entry := fp! "internal/dsp.pred10" 0x3148ad3ef0e80799
def «internal/dsp.pred11» : Entry := fp! "internal/dsp.pred11" 0x09514c052c7d4a88
def «internal/dsp.pred12» : Entry := fp! "internal/dsp.pred12" 0x94cad009969f1e03
def «internal/dsp.pred13» : Entry := fp! "internal/dsp.pred13" 0xf281e0e380bb2786
def «internal/dsp.pred2» : Entry := fp! "internal/dsp.pred2" 0x81561a2c4d02a8cd
def «internal/dsp.pred3» : Entry := fp! "internal/dsp.pred3" 0x25434d7ca734e873
def «internal/dsp.pred4» : Entry := fp! "internal/dsp.pred4" 0x77dbf07ee499cc4e
def «internal/dsp.pred5» : Entry := fp! "internal/dsp.pred5" 0x6980191c88be3861
def «internal/dsp.pred6» : Entry := fp! "internal/dsp.pred6" 0x04c6f8c927df56f3
def «internal/dsp.pred7» : Entry := fp! "internal/dsp.pred7" 0x5a15daeada21be64
def «internal/dsp.pred8» : Entry := fp! "internal/dsp.pred8" 0x3d63fcb87326ecaa
def «internal/dsp.pred9» : Entry := fp! "internal/dsp.pred9" 0x8f01073931e8fcb2
def «internal/dsp.rd4» : Entry := fp! "internal/dsp.rd4" 0xbeabfa01f7722a97
def «internal/dsp.simpleVFilter16AVX2» : Entry := fp! "internal/dsp.simpleVFilter16AVX2" 0x99eca2e83b0e2298
def «internal/dsp.simpleVFilter16SSE2» : Entry := fp! "internal/dsp.simpleVFilter16SSE2" 0xb72760db6e40a788
def «internal/dsp.sse16x16» : Entry := fp! "internal/dsp.sse16x16" 0xdbe928d33eb0548a
def «internal/dsp.sse16x16AVX2» : Entry := fp! "internal/dsp.sse16x16AVX2" 0xdc8647df4e4c7d3f
def «internal/dsp.sse16x16NEON» : Entry := fp! "internal/dsp.sse16x16NEON" 0xf0547cf0bd747395
def «internal/dsp.sse16x16SSE2» : Entry := fp! "internal/dsp.sse16x16SSE2" 0x31d1cd1c5ce604e3
def «internal/dsp.sse4x4» : Entry := fp! "internal/dsp.sse4x4" 0xb02f46cd7a724f6f
def «internal/dsp.sse4x4NEON» : Entry := fp! "internal/dsp.sse4x4NEON" 0x8dd61f522fa890a5
def «internal/dsp.sse4x4SSE2» : Entry := fp! "internal/dsp.sse4x4SSE2" 0x88886b8f1eff9d22
def «internal/dsp.store» : Entry := fp! "internal/dsp.store" 0x65471a5764d12578
def «internal/dsp.subtractGreenAVX2» : Entry := fp! "internal/dsp.subtractGreenAVX2" 0x34afabc136f3d8b2
def «internal/dsp.subtractGreenGo» : Entry := fp! "internal/dsp.subtractGreenGo" 0xb067e37112d3aa78
def «internal/dsp.subtractGreenNEON» : Entry := fp! "internal/dsp.subtractGreenNEON" 0xbca260d3d95a0120
def «internal/dsp.subtractGreenSSE2» : Entry := fp! "internal/dsp.subtractGreenSSE2" 0x6e42f2bc63831c1a
def «internal/dsp.tDisto4x4AVX2» : Entry := fp! "internal/dsp.tDisto4x4AVX2" 0xcc16a8a8c03883fe
def «internal/dsp.tDisto4x4Go» : Entry := fp! "internal/dsp.tDisto4x4Go" 0x95c76ff88f253e73
def «internal/dsp.tDisto4x4SSE2» : Entry := fp! "internal/dsp.tDisto4x4SSE2" 0x024ba9908bd392e7
def «internal/dsp.tTransform» : Entry := fp! "internal/dsp.tTransform" 0x14873e5fa4134148
def «internal/dsp.tm16» : Entry := fp! "internal/dsp.tm16" 0x094a7601a2240172
def «internal/dsp.tm16NEON» : Entry := fp! "internal/dsp.tm16NEON" 0x0e65e83be9f0ad5f
def «internal/dsp.tm16SSE2» : Entry := fp! "internal/dsp.tm16SSE2" 0x6a368df2b81f09bb
def «internal/dsp.tm16asmNEON» : Entry := fp! "internal/dsp.tm16asmNEON" 0x61232e90e1c824ee
def «internal/dsp.tm16asmSSE2» : Entry := fp! "internal/dsp.tm16asmSSE2" 0xd042fe8310c0fc4e
def «internal/dsp.tm4» : Entry := fp! "internal/dsp.tm4" 0x851e98d53c9232f8
def «internal/dsp.tm8uv» : Entry := fp! "internal/dsp.tm8uv" 0x9948e98674dbc3df
def «internal/dsp.tm8uvNEON» : Entry := fp! "internal/dsp.tm8uvNEON" 0x578d67fd0b610c5a
def «internal/dsp.tm8uvSSE2» : Entry := fp! "internal/dsp.tm8uvSSE2" 0x5e4ea47032f3df50
def «internal/dsp.tm8uvasmNEON» : Entry := fp! "internal/dsp.tm8uvasmNEON" 0x1f7fbf2cbddece1d
def «internal/dsp.tm8uvasmSSE2» : Entry := fp! "internal/dsp.tm8uvasmSSE2" 0x884538c1025f32e0
def «internal/dsp.transformAC3» : Entry := fp! "internal/dsp.transformAC3" 0x3b85dbfac7c6d0b0
def «internal/dsp.transformDC» : Entry := fp! "internal/dsp.transformDC" 0x237283ba7d39ad2e
def «internal/dsp.transformDCUV» : Entry := fp! "internal/dsp.transformDCUV" 0x283cbfc993d54cf7
def «internal/dsp.transformOne» : Entry := fp! "internal/dsp.transformOne" 0x865c0eca4b1fdf6c
def «internal/dsp.transformTwo» : Entry := fp! "internal/dsp.transformTwo" 0x81fb1ad72015c2a3
def «internal/dsp.transformTwoDecAVX2» : Entry := fp! "internal/dsp.transformTwoDecAVX2" 0xffeed82e8c155741
def «internal/dsp.transformTwoDecNEON» : Entry := fp! "internal/dsp.transformTwoDecNEON" 0xdd06e87ec9c43d49
def «internal/dsp.transformTwoDecSSE2» : Entry := fp! "internal/dsp.transformTwoDecSSE2" 0x53d066385c0e8f17
def «internal/dsp.transformUV» : Entry := fp! "internal/dsp.transformUV" 0x91fc8c49c305a673
def «internal/dsp.transformUVAVX2» : Entry := fp! "internal/dsp.transformUVAVX2" 0x26250eec1f9721cb
def «internal/dsp.transformUVNEON» : Entry := fp! "internal/dsp.transformUVNEON" 0x213da097e896e1a1
def «internal/dsp.transformUVSSE2» : Entry := fp! "internal/dsp.transformUVSSE2" 0x0a399ab255a11a3f
def «internal/dsp.transformWHT» : Entry := fp! "internal/dsp.transformWHT" 0x364717cdd07c6033
def «internal/dsp.transformWHTNEON» : Entry := fp! "internal/dsp.transformWHTNEON" 0xcd4c94f522c2e209
def «internal/dsp.transformWHTSSE2» : Entry := fp! "internal/dsp.transformWHTSSE2" 0xaa755eaffd14f22c
def «internal/dsp.upsampleLinePairNRGBAGo» : Entry := fp! "internal/dsp.upsampleLinePairNRGBAGo" 0x9aa0915e5ac814e4
def «internal/dsp.var:AddGreenToBlueAndRedFunc» : Entry := fp! "internal/dsp.var:AddGreenToBlueAndRedFunc" 0x451a344419ffbfb7
def «internal/dsp.var:DspScan» : Entry := fp! "internal/dsp.var:DspScan" 0x47ae821d84632902
def «internal/dsp.var:DspScanUV» : Entry := fp! "internal/dsp.var:DspScanUV" 0xcbaddac1869cb8ca
def «internal/dsp.var:FTransform» : Entry := fp! "internal/dsp.var:FTransform" 0x8071d99fe7bbba66
def «internal/dsp.var:FTransform2» : Entry := fp! "internal/dsp.var:FTransform2" 0x8f1d7cc9dc055d2d
def «internal/dsp.var:FTransformWHT» : Entry := fp! "internal/dsp.var:FTransformWHT" 0x3a4f8f7093b5bf52
def «internal/dsp.var:ITransform» : Entry := fp! "internal/dsp.var:ITransform" 0x55d9ea7e4c756769
def «internal/dsp.var:LosslessPredictors» : Entry := fp! "internal/dsp.var:LosslessPredictors" 0x130dc0a9aa176806
def «internal/dsp.var:PredChroma8» : Entry := fp! "internal/dsp.var:PredChroma8" 0xf062ec6d82b6296e
def «internal/dsp.var:PredLuma16» : Entry := fp! "internal/dsp.var:PredLuma16" 0x50b5242ae6f0b410
def «internal/dsp.var:PredLuma4» : Entry := fp! "internal/dsp.var:PredLuma4" 0x23d0ae2f9123e1a6
def «internal/dsp.var:SSE16x16» : Entry := fp! "internal/dsp.var:SSE16x16" 0xcb501c32a7781196
def «internal/dsp.var:SSE4x4» : Entry := fp! "internal/dsp.var:SSE4x4" 0x0f51c3cbf5c8e7a6
def «internal/dsp.var:SubtractGreenFunc» : Entry := fp! "internal/dsp.var:SubtractGreenFunc" 0xeb7b2571634fb985
def «internal/dsp.var:Transform» : Entry := fp! "internal/dsp.var:Transform" 0x2b2192179c877545
def «internal/dsp.var:TransformAC3» : Entry := fp! "internal/dsp.var:TransformAC3" 0x51f969b82894731d
def «internal/dsp.var:TransformDC» : Entry := fp! "internal/dsp.var:TransformDC" 0x57602fe703f44b85
def «internal/dsp.var:TransformDCUV» : Entry := fp! "internal/dsp.var:TransformDCUV" 0x783cf496b93cc2e9
def «internal/dsp.var:TransformUV» : Entry := fp! "internal/dsp.var:TransformUV" 0xc48547dbaa8eb1bd
def «internal/dsp.var:TransformWHT» : Entry := fp! "internal/dsp.var:TransformWHT" 0xb6372314e6278067
def «internal/dsp.var:VP8LevelFixedCosts» : Entry := fp! "internal/dsp.var:VP8LevelFixedCosts" 0xab0d6f2b778fbaaa
def «internal/dsp.var:abs0» : Entry := fp! "internal/dsp.var:abs0" 0xd66604c2bf37ac70
def «internal/dsp.var:clip1» : Entry := fp! "internal/dsp.var:clip1" 0xb4a5805d4604866b
def «internal/dsp.var:hasAVX2» : Entry := fp! "internal/dsp.var:hasAVX2" 0xe7601f2a7263d325
def «internal/dsp.var:kRandomTable» : Entry := fp! "internal/dsp.var:kRandomTable" 0x3211a8ef34c6cab4
def «internal/dsp.var:kWeightY» : Entry := fp! "internal/dsp.var:kWeightY" 0xee2eebb8b6fea0df
def «internal/dsp.var:sclip1» : Entry := fp! "internal/dsp.var:sclip1" 0x086f8deb23844fc1
def «internal/dsp.var:sclip2» : Entry := fp! "internal/dsp.var:sclip2" 0xeecde30768ccd13a
def «internal/dsp.var:vp8LevelFixedCostsTable» : Entry := fp! "internal/dsp.var:vp8LevelFixedCostsTable" 0x98c6867af470bc46
def «internal/dsp.var:vp8kClip» : Entry := fp! "internal/dsp.var:vp8kClip" 0xa9c043548d1ea263
def «internal/dsp.var:vp8kClip4Bits» : Entry := fp! "internal/dsp.var:vp8kClip4Bits" 0xe8481119264feb35
def «internal/dsp.ve16» : Entry := fp! "internal/dsp.ve16" 0x6ac0cb7a72deabb6
def «internal/dsp.ve16NEON» : Entry := fp! "internal/dsp.ve16NEON" 0xecc22a0c959b8576
def «internal/dsp.ve16SSE2» : Entry := fp! "internal/dsp.ve16SSE2" 0xd221a57f50b4281d
def «internal/dsp.ve16asmNEON» : Entry := fp! "internal/dsp.ve16asmNEON" 0x8bd61bb6719a94bd
def «internal/dsp.ve16asmSSE2» : Entry := fp! "internal/dsp.ve16asmSSE2" 0x109b83b1750678d1
def «internal/dsp.ve4» : Entry := fp! "internal/dsp.ve4" 0x865849e4d5c17bd5
def «internal/dsp.ve8uv» : Entry := fp! "internal/dsp.ve8uv" 0xbee1191884022146
def «internal/dsp.ve8uvNEON» : Entry := fp! "internal/dsp.ve8uvNEON" 0x77a3ceb1e87dc7d7
def «internal/dsp.ve8uvSSE2» : Entry := fp! "internal/dsp.ve8uvSSE2" 0xc709819e388023de
def «internal/dsp.ve8uvasmNEON» : Entry := fp! "internal/dsp.ve8uvasmNEON" 0x011b8c1a8c3efc14
def «internal/dsp.ve8uvasmSSE2» : Entry := fp! "internal/dsp.ve8uvasmSSE2" 0xb0842d12cd707106
def «internal/dsp.vl4» : Entry := fp! "internal/dsp.vl4" 0x155dbc72e1f219ef
def «internal/dsp.vr4» : Entry := fp! "internal/dsp.vr4" 0x10946fd14950043d
def «internal/dsp.yuvPackedToNRGBABatchAVX2» : Entry := fp! "internal/dsp.yuvPackedToNRGBABatchAVX2" 0x5b058b79903046a1
def «internal/dsp.yuvPackedToNRGBABatchSSE2» : Entry := fp! "internal/dsp.yuvPackedToNRGBABatchSSE2" 0xe7c021fe8a1f11f6
def «internal/lossless.ApplyNearLossless» : Entry := fp! "internal/lossless.ApplyNearLossless" 0xf7afe806a2ac661c
def «internal/lossless.ApplyPaletteTransform» : Entry := fp! "internal/lossless.ApplyPaletteTransform" 0xc7e27aa2d709c02e
def «internal/lossless.BackwardReferences2DLocality» : Entry := fp! "internal/lossless.BackwardReferences2DLocality" 0xa250f28edc484b32
def «internal/lossless.BackwardReferencesLz77» : Entry := fp! "internal/lossless.BackwardReferencesLz77" 0xa5fa063de2af0ea4
def «internal/lossless.BackwardReferencesLz77Box» : Entry := fp! "internal/lossless.BackwardReferencesLz77Box" 0x91ca3eb9aad371d3
def «internal/lossless.BackwardReferencesRle» : Entry := fp! "internal/lossless.BackwardReferencesRle" 0x2aee9b4c2fae4b1d
def «internal/lossless.BackwardRefs.Add» : Entry := fp! "internal/lossless.BackwardRefs.Add" 0x5c64d92ab558f780
def «internal/lossless.BackwardRefs.Len» : Entry := fp! "internal/lossless.BackwardRefs.Len" 0xcd0aa05c80b06a51
def «internal/lossless.BackwardRefs.Refs» : Entry := fp! "internal/lossless.BackwardRefs.Refs" 0xc0ba16400fac07e0
def «internal/lossless.BackwardRefs.Reset» : Entry := fp! "internal/lossless.BackwardRefs.Reset" 0x55a8f1c5bddc9a43
def «internal/lossless.BackwardRefsWithLocalCache» : Entry := fp! "internal/lossless.BackwardRefsWithLocalCache" 0x950f58ccc2bd21f0
def «internal/lossless.BuildCodeLengthTokens» : Entry := fp! "internal/lossless.BuildCodeLengthTokens" 0x02444363aec74b2c
def «internal/lossless.BuildCodeLengthTokensScratch» : Entry := fp! "internal/lossless.BuildCodeLengthTokensScratch" 0x2472fd9408a4e98d
def «internal/lossless.BuildHuffmanTableScratch» : Entry := fp! "internal/lossless.BuildHuffmanTableScratch" 0xeae64f6489ea4c1f
def «internal/lossless.CachePixel» : Entry := fp! "internal/lossless.CachePixel" 0x2d449fdcc59689f3
def «internal/lossless.CalculateBestCacheSize» : Entry := fp! "internal/lossless.CalculateBestCacheSize" 0x5028818c7ea2ec66
def «internal/lossless.ColorCache.Contains» : Entry := fp! "internal/lossless.ColorCache.Contains" 0x1237de9d633fe048
def «internal/lossless.ColorCache.HashPix» : Entry := fp! "internal/lossless.ColorCache.HashPix" 0xe1c3568b621396fa
def «internal/lossless.ColorCache.Insert» : Entry := fp! "internal/lossless.ColorCache.Insert" 0xbae54310ed06fa49
def «internal/lossless.ColorCache.Lookup» : Entry := fp! "internal/lossless.ColorCache.Lookup" 0xa60743a9aeb8d6cf
def «internal/lossless.ColorCache.Reset» : Entry := fp! "internal/lossless.ColorCache.Reset" 0x37326803261a9758
def «internal/lossless.ColorIndexBuild» : Entry := fp! "internal/lossless.ColorIndexBuild" 0x4d7993d5f16e6e83
def «internal/lossless.ColorSpaceTransform» : Entry := fp! "internal/lossless.ColorSpaceTransform" 0xafd9d90b258e6b34
def «internal/lossless.CopyPixel» : Entry := fp! "internal/lossless.CopyPixel" 0xfb200e55fd0013bf
def «internal/lossless.CreateHuffmanTreeScratch» : Entry := fp! "internal/lossless.CreateHuffmanTreeScratch" 0x20585713546e1515
def «internal/lossless.Decoder.applyInverseTransforms» : Entry := fp! "internal/lossless.Decoder.applyInverseTransforms" 0x3d47c423f2c66f0b
def «internal/lossless.Decoder.decodeHeader» : Entry := fp! "internal/lossless.Decoder.decodeHeader" 0xf48ce041e0ec8c61
def «internal/lossless.Decoder.decodeImageData» : Entry := fp! "internal/lossless.Decoder.decodeImageData" 0xface28a325742152
def «internal/lossless.Decoder.decodeImageStream» : Entry := fp! "internal/lossless.Decoder.decodeImageStream" 0xa89562674f52d4c9
def «internal/lossless.Decoder.decodeSubImage» : Entry := fp! "internal/lossless.Decoder.decodeSubImage" 0x8727b4c422d4cbc8
def «internal/lossless.Decoder.getHTreeGroup» : Entry := fp! "internal/lossless.Decoder.getHTreeGroup" 0xd26ef5b07d2865d8
def «internal/lossless.Decoder.getMetaIndex» : Entry := fp! "internal/lossless.Decoder.getMetaIndex" 0x2a2f9ed793bef621
def «internal/lossless.Decoder.huffTableScratch» : Entry := fp! "internal/lossless.Decoder.huffTableScratch" 0xf06b55ca44fee099
def «internal/lossless.Decoder.readHuffmanCode» : Entry := fp! "internal/lossless.Decoder.readHuffmanCode" 0x8f6b9bb571b5245d
def «internal/lossless.Decoder.readHuffmanCodeLengths» : Entry := fp! "internal/lossless.Decoder.readHuffmanCodeLengths" 0x03a76dff6b6d47d4
def «internal/lossless.Decoder.readHuffmanCodes» : Entry := fp! "internal/lossless.Decoder.readHuffmanCodes" 0x3635e6f7425b3c09
def «internal/lossless.Decoder.readTransform» : Entry := fp! "internal/lossless.Decoder.readTransform" 0xa7604f17566de0d1
def «internal/lossless.Decoder.updateDecoder» : Entry := fp! "internal/lossless.Decoder.updateDecoder" 0x46a52b79ce2c17b8
def «internal/lossless.DefaultEncoderConfig» : Entry := fp! "internal/lossless.DefaultEncoderConfig" 0xbc0fdbec252f99bf
def «internal/lossless.DistanceToPlaneCode» : Entry := fp! "internal/lossless.DistanceToPlaneCode" 0x7cbd05cd440a141d
def «internal/lossless.Encoder.analyze» : Entry := fp! "internal/lossless.Encoder.analyze" 0x55adab9c673c3577
def «internal/lossless.Encoder.applyPaletteTransform» : Entry := fp! "internal/lossless.Encoder.applyPaletteTransform" 0xa9496cb913a7244b
def «internal/lossless.Encoder.applyTransforms» : Entry := fp! "internal/lossless.Encoder.applyTransforms" 0x3176f71390052bd5
def «internal/lossless.Encoder.encodePalette» : Entry := fp! "internal/lossless.Encoder.encodePalette" 0x597a4fae4d3fb7c9
def «internal/lossless.Encoder.encodeStream» : Entry := fp! "internal/lossless.Encoder.encodeStream" 0xe6d4c65aa60c28aa
def «internal/lossless.Encoder.encodeSubImage» : Entry := fp! "internal/lossless.Encoder.encodeSubImage" 0xb5bfcbe0fb0b68ea
def «internal/lossless.Encoder.storeImageData» : Entry := fp! "internal/lossless.Encoder.storeImageData" 0x8adbe784f4c4761c
def «internal/lossless.Encoder.storeSubImageData» : Entry := fp! "internal/lossless.Encoder.storeSubImageData" 0xd8b82d725935bec2
def «internal/lossless.Encoder.writeTransformData» : Entry := fp! "internal/lossless.Encoder.writeTransformData" 0xf746e59ed5fac3af
def «internal/lossless.GetBackwardReferences» : Entry := fp! "internal/lossless.GetBackwardReferences" 0xec482a030d58b6ef
def «internal/lossless.GetBackwardReferencesWithScratch» : Entry := fp! "internal/lossless.GetBackwardReferencesWithScratch" 0x1c6eac4bd29bacc4
def «internal/lossless.GetHistoImageSymbols» : Entry := fp! "internal/lossless.GetHistoImageSymbols" 0xd86eb4566668ab72
def «internal/lossless.GetWindowSizeForHashChain» : Entry := fp! "internal/lossless.GetWindowSizeForHashChain" 0x4f7f82b258661408
def «internal/lossless.HashChain.Fill» : Entry := fp! "internal/lossless.HashChain.Fill" 0x31868e57d6b7da4b
def «internal/lossless.HashChain.GetLength» : Entry := fp! "internal/lossless.HashChain.GetLength" 0xb6d4de3a655b953a
def «internal/lossless.HashChain.GetOffset» : Entry := fp! "internal/lossless.HashChain.GetOffset" 0xffc81a06829e1e32
def «internal/lossless.HashChain.fillParallel» : Entry := fp! "internal/lossless.HashChain.fillParallel" 0x7faa9efe4e666803
def «internal/lossless.HashChain.fillSerial» : Entry := fp! "internal/lossless.HashChain.fillSerial" 0xdd3f8c0ca622e8a4
def «internal/lossless.HistoSet.Get» : Entry := fp! "internal/lossless.HistoSet.Get" 0xf8bee4663f92aacd
def «internal/lossless.HistoSet.Size» : Entry := fp! "internal/lossless.HistoSet.Size" 0x27370ebdb5bdd3cf
def «internal/lossless.HistoSet.clearAll» : Entry := fp! "internal/lossless.HistoSet.clearAll" 0xb1e25516a20a93a9
def «internal/lossless.HistoSet.remove» : Entry := fp! "internal/lossless.HistoSet.remove" 0xca9079f143d69116
def «internal/lossless.Histogram.AddRefs» : Entry := fp! "internal/lossless.Histogram.AddRefs" 0xbaccd6418b141e59
def «internal/lossless.Histogram.AddSingle» : Entry := fp! "internal/lossless.Histogram.AddSingle" 0xeb370978a9ce537f
def «internal/lossless.Histogram.Clear» : Entry := fp! "internal/lossless.Histogram.Clear" 0x712a0fd88ec2d1fe
def «internal/lossless.Histogram.computeHistogramCost» : Entry := fp! "internal/lossless.Histogram.computeHistogramCost" 0xe69dea88b363a008
def «internal/lossless.Histogram.copyFrom» : Entry := fp! "internal/lossless.Histogram.copyFrom" 0x3b77a719785d9abc
def «internal/lossless.Histogram.population» : Entry := fp! "internal/lossless.Histogram.population" 0x465e153a4a69d1fa
def «internal/lossless.Histogram.resetStats» : Entry := fp! "internal/lossless.Histogram.resetStats" 0x9045c9dc8f5f9378
def «internal/lossless.HuffmanScratch.AllocTree» : Entry := fp! "internal/lossless.HuffmanScratch.AllocTree" 0x11fc7187e8bd268d
def «internal/lossless.HuffmanScratch.ResetTreePool» : Entry := fp! "internal/lossless.HuffmanScratch.ResetTreePool" 0xd75e4e0020b6ef35
def «internal/lossless.LiteralPixel» : Entry := fp! "internal/lossless.LiteralPixel" 0x99850c594cc34de1
def «internal/lossless.NearLosslessBits» : Entry := fp! "internal/lossless.NearLosslessBits" 0xd203a9d182af1f54
def «internal/lossless.NewBackwardRefs» : Entry := fp! "internal/lossless.NewBackwardRefs" 0xf88966b8653466df
def «internal/lossless.NewColorCache» : Entry := fp! "internal/lossless.NewColorCache" 0x147e74f0fc609cca
def «internal/lossless.NewHashChain» : Entry := fp! "internal/lossless.NewHashChain" 0x3e8fa35f52b5ac64
def «internal/lossless.NewHistogram» : Entry := fp! "internal/lossless.NewHistogram" 0x294b27acd61f7987
def «internal/lossless.PixOrCopy.Argb» : Entry := fp! "internal/lossless.PixOrCopy.Argb" 0x6574422231d88d29
def «internal/lossless.PixOrCopy.CacheIndex» : Entry := fp! "internal/lossless.PixOrCopy.CacheIndex" 0x48103543f868a0e5
def «internal/lossless.PixOrCopy.Distance» : Entry := fp! "internal/lossless.PixOrCopy.Distance" 0xd64f6212de605ed8
def «internal/lossless.PixOrCopy.IsCacheIdx» : Entry := fp! "internal/lossless.PixOrCopy.IsCacheIdx" 0x72538d6347b03220
def «internal/lossless.PixOrCopy.IsCopy» : Entry := fp! "internal/lossless.PixOrCopy.IsCopy" 0x57266f37d2e2c1e2
def «internal/lossless.PixOrCopy.IsLiteral» : Entry := fp! "internal/lossless.PixOrCopy.IsLiteral" 0xc7f85e424bf44448
def «internal/lossless.PixOrCopy.Length» : Entry := fp! "internal/lossless.PixOrCopy.Length" 0x03c79b72487115e0
def «internal/lossless.PlaneCodeToDistance» : Entry := fp! "internal/lossless.PlaneCodeToDistance" 0xe80d0822bde0c387
def «internal/lossless.PopulationCost» : Entry := fp! "internal/lossless.PopulationCost" 0xe613c93635a227c7
def «internal/lossless.PrefixEncodeBitsNoLUT» : Entry := fp! "internal/lossless.PrefixEncodeBitsNoLUT" 0x0af82b408d6ee608
def «internal/lossless.PrefixEncodeNoLUT» : Entry := fp! "internal/lossless.PrefixEncodeNoLUT" 0x689d81e057d3da19
def «internal/lossless.ReadSymbol» : Entry := fp! "internal/lossless.ReadSymbol" 0x69e32bfcf8c46287
def «internal/lossless.ResidualImage» : Entry := fp! "internal/lossless.ResidualImage" 0x61fc2ce633a8ff06
def «internal/lossless.ReuseColorCache» : Entry := fp! "internal/lossless.ReuseColorCache" 0xe6c53d899ae5bb95
def «internal/lossless.StoreHuffmanCodeScratch» : Entry := fp! "internal/lossless.StoreHuffmanCodeScratch" 0x8c95dfd72b2f0573
def «internal/lossless.StoreHuffmanTreeOfHuffmanTreeToBitMask» : Entry := fp! "internal/lossless.StoreHuffmanTreeOfHuffmanTreeToBitMask" 0x2995672801320f58
def «internal/lossless.StoreHuffmanTreeToBitMask» : Entry := fp! "internal/lossless.StoreHuffmanTreeToBitMask" 0xbb2846bdac905493
def «internal/lossless.SubtractGreen» : Entry := fp! "internal/lossless.SubtractGreen" 0xb1e25eaccf6437c4
def «internal/lossless.VP8LSubSampleSize» : Entry := fp! "internal/lossless.VP8LSubSampleSize" 0x7be6781b6b955825
def «internal/lossless.accumulateHCode» : Entry := fp! "internal/lossless.accumulateHCode" 0xf44f68e817f52029
def «internal/lossless.acquireDecoder» : Entry := fp! "internal/lossless.acquireDecoder" 0x73efacba07a27fb1
def «internal/lossless.acquireEncoder» : Entry := fp! "internal/lossless.acquireEncoder" 0x731378e2e5d97c30
def «internal/lossless.addGreenToBlueAndRed» : Entry := fp! "internal/lossless.addGreenToBlueAndRed" 0x6361e5bd3a956f60
def «internal/lossless.addPixels» : Entry := fp! "internal/lossless.addPixels" 0x704384510638a805
def «internal/lossless.addSingleLiteralWithCostModel» : Entry := fp! "internal/lossless.addSingleLiteralWithCostModel" 0x8ac23847653ddefe
def «internal/lossless.allocateHistoSetReuse» : Entry := fp! "internal/lossless.allocateHistoSetReuse" 0x64df1fc865a96456
def «internal/lossless.applyColorTransformPixel» : Entry := fp! "internal/lossless.applyColorTransformPixel" 0x151aa0caa0e8742c
def «internal/lossless.applyColorTransformTile» : Entry := fp! "internal/lossless.applyColorTransformTile" 0x183b5611471383a8
def «internal/lossless.argbHasAlpha» : Entry := fp! "internal/lossless.argbHasAlpha" 0xab7003d387ee9714
def «internal/lossless.argbSliceToBytes» : Entry := fp! "internal/lossless.argbSliceToBytes" 0x36df35b96ffe1f09
def «internal/lossless.argbToNRGBA» : Entry := fp! "internal/lossless.argbToNRGBA" 0x83b414181bfe68b3
def «internal/lossless.argbToNRGBARows» : Entry := fp! "internal/lossless.argbToNRGBARows" 0xf8fd6c00764f6b0a
def «internal/lossless.assignCodeLengths» : Entry := fp! "internal/lossless.assignCodeLengths" 0x0a81056553a620be
def «internal/lossless.average2» : Entry := fp! "internal/lossless.average2" 0xcea11dfd93a59559
def «internal/lossless.avg2» : Entry := fp! "internal/lossless.avg2" 0x446cbbd3b8ab6066
def «internal/lossless.backwardReferencesHashChainDistanceOnly» : Entry := fp! "internal/lossless.backwardReferencesHashChainDistanceOnly" 0x4fe5a6c3a36403a3
def «internal/lossless.backwardReferencesHashChainFollowChosenPath» : Entry := fp! "internal/lossless.backwardReferencesHashChainFollowChosenPath" 0x19615c75352c6dc5
def «internal/lossless.backwardReferencesTraceBackwardsWithDist» : Entry := fp! "internal/lossless.backwardReferencesTraceBackwardsWithDist" 0xff80b4a313165089
def «internal/lossless.bitsEntropyRefine» : Entry := fp! "internal/lossless.bitsEntropyRefine" 0xe49fbdf1ab8ee271
def «internal/lossless.bitsLog2Floor» : Entry := fp! "internal/lossless.bitsLog2Floor" 0xbe26fa8e08be8a28
def «internal/lossless.buildHuffmanTableSize» : Entry := fp! "internal/lossless.buildHuffmanTableSize" 0x053b6fa796c93b64
def «internal/lossless.buildPackedTable» : Entry := fp! "internal/lossless.buildPackedTable" 0xa1e27ca6a7bffe08
def «internal/lossless.buildTreeAndExtractLengths» : Entry := fp! "internal/lossless.buildTreeAndExtractLengths" 0x82bb7e5ed05b94f4
def «internal/lossless.bytesToARGBSlice» : Entry := fp! "internal/lossless.bytesToARGBSlice" 0x8748b22b23a51d17
def «internal/lossless.cacheBitsForEncoder» : Entry := fp! "internal/lossless.cacheBitsForEncoder" 0x40dc597a94197606
def «internal/lossless.clampAddSubFull» : Entry := fp! "internal/lossless.clampAddSubFull" 0xa50ee7c1bbc5c807
def «internal/lossless.clampAddSubHalf» : Entry := fp! "internal/lossless.clampAddSubHalf" 0x3556d71e189fa4ca
def «internal/lossless.clampBits» : Entry := fp! "internal/lossless.clampBits" 0x4a8843e49bde25c0
def «internal/lossless.clampByte» : Entry := fp! "internal/lossless.clampByte" 0x7fb89861620bbad2
def «internal/lossless.clampedAddSubtractFull» : Entry := fp! "internal/lossless.clampedAddSubtractFull" 0xd4a39602197f4994
def «internal/lossless.clampedAddSubtractHalf» : Entry := fp! "internal/lossless.clampedAddSubtractHalf" 0xdd4ffad4c57cc9b3
def «internal/lossless.clearHuffmanTreeIfOnlyOneSymbol» : Entry := fp! "internal/lossless.clearHuffmanTreeIfOnlyOneSymbol" 0x91ad8901948000f8
def «internal/lossless.closestDiscretizedArgb» : Entry := fp! "internal/lossless.closestDiscretizedArgb" 0x5d4a2f7c452b3df4
def «internal/lossless.codeRepeatedValues» : Entry := fp! "internal/lossless.codeRepeatedValues" 0x1b557168320610a7
def «internal/lossless.codeRepeatedZeros» : Entry := fp! "internal/lossless.codeRepeatedZeros" 0x55981a7cb94cccaf
def «internal/lossless.colorIndexInverseTransform» : Entry := fp! "internal/lossless.colorIndexInverseTransform" 0x44fadfc26c8ffbdc
def «internal/lossless.colorSpaceInverseTransform» : Entry := fp! "internal/lossless.colorSpaceInverseTransform" 0xa54855962ec555e3
def «internal/lossless.colorSpaceInverseTransformParallel» : Entry := fp! "internal/lossless.colorSpaceInverseTransformParallel" 0xc8613aa706e393bc
def «internal/lossless.const:ARGBBlack» : Entry := fp! "internal/lossless.const:ARGBBlack" 0x98c7794c2a811a27
def «internal/lossless.const:CodeLengthCodes» : Entry := fp! "internal/lossless.const:CodeLengthCodes" 0xf8d9f7baec374401
def «internal/lossless.const:CodeLengthLiterals» : Entry := fp! "internal/lossless.const:CodeLengthLiterals" 0xf32fc441646dff7b
def «internal/lossless.const:CodeLengthRepeatCode» : Entry := fp! "internal/lossless.const:CodeLengthRepeatCode" 0x4efbc1af0fc9675e
def «internal/lossless.const:CodeToPlaneCodesCount» : Entry := fp! "internal/lossless.const:CodeToPlaneCodesCount" 0x7a3c91380896a71c
def «internal/lossless.const:ColorIndexingTransform» : Entry := fp! "internal/lossless.const:ColorIndexingTransform" 0x6106b59fe2b096b8
def «internal/lossless.const:CrossColorTransform» : Entry := fp! "internal/lossless.const:CrossColorTransform" 0x68b728cd5fe54f11
def «internal/lossless.const:DefaultCodeLength» : Entry := fp! "internal/lossless.const:DefaultCodeLength" 0x3aa4f0e42e81a71a
def «internal/lossless.const:HuffAlpha» : Entry := fp! "internal/lossless.const:HuffAlpha" 0x8dbf2ecc611511a6
def «internal/lossless.const:HuffBlue» : Entry := fp! "internal/lossless.const:HuffBlue" 0xb5baeffee172cd05
def «internal/lossless.const:HuffDist» : Entry := fp! "internal/lossless.const:HuffDist" 0xbd0d1e946dde1bca
def «internal/lossless.const:HuffGreen» : Entry := fp! "internal/lossless.const:HuffGreen" 0x147f8905d100e498
def «internal/lossless.const:HuffRed» : Entry := fp! "internal/lossless.const:HuffRed" 0x5d905852275f0457
def «internal/lossless.const:HuffmanCodesPerMetaCode» : Entry := fp! "internal/lossless.const:HuffmanCodesPerMetaCode" 0xf659d937a1add352
def «internal/lossless.const:HuffmanPackedBits» : Entry := fp! "internal/lossless.const:HuffmanPackedBits" 0xc107326ef1443990
def «internal/lossless.const:HuffmanPackedTableSize» : Entry := fp! "internal/lossless.const:HuffmanPackedTableSize" 0xd864364fc1e267a1
def «internal/lossless.const:HuffmanTableBits» : Entry := fp! "internal/lossless.const:HuffmanTableBits" 0x3472a229eeefedce
def «internal/lossless.const:HuffmanTableMask» : Entry := fp! "internal/lossless.const:HuffmanTableMask" 0xc51207ff4f48b4b1
def «internal/lossless.const:LengthsTableBits» : Entry := fp! "internal/lossless.const:LengthsTableBits" 0xe14a99a473aff095
def «internal/lossless.const:LengthsTableMask» : Entry := fp! "internal/lossless.const:LengthsTableMask" 0x6370ae368d8614a9
def «internal/lossless.const:MaxAllowedCodeLength» : Entry := fp! "internal/lossless.const:MaxAllowedCodeLength" 0xf7a226591e17ae19
def «internal/lossless.const:MaxCacheBits» : Entry := fp! "internal/lossless.const:MaxCacheBits" 0x916c545bd031db1b
def «internal/lossless.const:MaxPaletteSize» : Entry := fp! "internal/lossless.const:MaxPaletteSize" 0x2958b084ab2b7f70
def «internal/lossless.const:MinHuffmanBits» : Entry := fp! "internal/lossless.const:MinHuffmanBits" 0xb2d9f3203a98b8f0
def «internal/lossless.const:MinTransformBits» : Entry := fp! "internal/lossless.const:MinTransformBits" 0x2d01193a02e6b69d
def «internal/lossless.const:NumDistanceCodes» : Entry := fp! "internal/lossless.const:NumDistanceCodes" 0x74ce481f9d271b9e
def «internal/lossless.const:NumHuffmanBits» : Entry := fp! "internal/lossless.const:NumHuffmanBits" 0xc718f27ced3340e1
def «internal/lossless.const:NumLengthCodes» : Entry := fp! "internal/lossless.const:NumLengthCodes" 0x65b052b0350d0333
def «internal/lossless.const:NumLiteralCodes» : Entry := fp! "internal/lossless.const:NumLiteralCodes" 0x0f8596783eb3b736
def «internal/lossless.const:NumTransformBits» : Entry := fp! "internal/lossless.const:NumTransformBits" 0xad9a1c8acfff7154
def «internal/lossless.const:PredictorTransform» : Entry := fp! "internal/lossless.const:PredictorTransform" 0xf7eee30c23c74d3f
def «internal/lossless.const:SubtractGreenTransform» : Entry := fp! "internal/lossless.const:SubtractGreenTransform" 0x481d625f3c7ec70a
def «internal/lossless.const:TransformPresent» : Entry := fp! "internal/lossless.const:TransformPresent" 0xaa31773becf0b239
def «internal/lossless.const:VP8LHeaderSize» : Entry := fp! "internal/lossless.const:VP8LHeaderSize" 0x1560a49923ff5e42
def «internal/lossless.const:VP8LImageSizeBits» : Entry := fp! "internal/lossless.const:VP8LImageSizeBits" 0x3d362203dd9788c6
def «internal/lossless.const:VP8LMagicByte» : Entry := fp! "internal/lossless.const:VP8LMagicByte" 0x7f5e064b72e42f72
def «internal/lossless.const:VP8LVersion» : Entry := fp! "internal/lossless.const:VP8LVersion" 0xc01fdba6fba70be6
def «internal/lossless.const:VP8LVersionBits» : Entry := fp! "internal/lossless.const:VP8LVersionBits" 0x3ecc51e102c54513
def «internal/lossless.const:binSize» : Entry := fp! "internal/lossless.const:binSize" 0xa932669c547efdf4
def «internal/lossless.const:bitsSpecialMarker» : Entry := fp! "internal/lossless.const:bitsSpecialMarker" 0xec631d44ab78f98c
def «internal/lossless.const:costCacheIntervalSizeMax» : Entry := fp! "internal/lossless.const:costCacheIntervalSizeMax" 0x58a52e31836e7f25
def «internal/lossless.const:fastSLog2LUTSize» : Entry := fp! "internal/lossless.const:fastSLog2LUTSize" 0xcdf9c4e6ae7b7013
def «internal/lossless.const:hashBits» : Entry := fp! "internal/lossless.const:hashBits" 0xd871307357420348
def «internal/lossless.const:hashSize» : Entry := fp! "internal/lossless.const:hashSize" 0xee90ee948bae556f
def «internal/lossless.const:histAlpha» : Entry := fp! "internal/lossless.const:histAlpha" 0xe1aa5734b7424793
def «internal/lossless.const:histBlue» : Entry := fp! "internal/lossless.const:histBlue" 0x76cd1277052f87d3
def «internal/lossless.const:histDistance» : Entry := fp! "internal/lossless.const:histDistance" 0xe689b7c811c73093
def «internal/lossless.const:histLiteral» : Entry := fp! "internal/lossless.const:histLiteral" 0x9d354677498170c6
def «internal/lossless.const:histRed» : Entry := fp! "internal/lossless.const:histRed" 0x61b352a624ba29ca
def «internal/lossless.const:kHashMul» : Entry := fp! "internal/lossless.const:kHashMul" 0xa7f91311ecf0da1f
def «internal/lossless.const:kHashMultiplierHi» : Entry := fp! "internal/lossless.const:kHashMultiplierHi" 0xc35d3137039f7e00
def «internal/lossless.const:kHashMultiplierLo» : Entry := fp! "internal/lossless.const:kHashMultiplierLo" 0x18b0ed982ca5c022
def «internal/lossless.const:kLZ77Box» : Entry := fp! "internal/lossless.const:kLZ77Box" 0xfba7363454b3a0ed
def «internal/lossless.const:kLZ77RLE» : Entry := fp! "internal/lossless.const:kLZ77RLE" 0x269cd6b6ea51cd82
def «internal/lossless.const:kLZ77Standard» : Entry := fp! "internal/lossless.const:kLZ77Standard" 0xb2da7316e286e7ce
def «internal/lossless.const:maxColorCacheBitsEnc» : Entry := fp! "internal/lossless.const:maxColorCacheBitsEnc" 0xe79723f496cc2477
def «internal/lossless.const:maxHistoGreedy» : Entry := fp! "internal/lossless.const:maxHistoGreedy" 0x20ea9668b29088ac
def «internal/lossless.const:maxHuffImageSize» : Entry := fp! "internal/lossless.const:maxHuffImageSize" 0x1351d4975ccab57c
def «internal/lossless.const:maxHuffmanBits» : Entry := fp! "internal/lossless.const:maxHuffmanBits" 0xd16200f93e022958
def «internal/lossless.const:maxLength» : Entry := fp! "internal/lossless.const:maxLength" 0x249a8ca1f7c4f5e5
def «internal/lossless.const:maxLengthBits» : Entry := fp! "internal/lossless.const:maxLengthBits" 0x1aed5eb450dfe8e0
def «internal/lossless.const:maxLimitBits» : Entry := fp! "internal/lossless.const:maxLimitBits" 0xd868d9b6c1b0a7cc
def «internal/lossless.const:minDimForNearLossless» : Entry := fp! "internal/lossless.const:minDimForNearLossless" 0x234024bc825e607c
def «internal/lossless.const:minLength» : Entry := fp! "internal/lossless.const:minLength" 0x693e79018c3b1fe1
def «internal/lossless.const:minPixelsForParallel» : Entry := fp! "internal/lossless.const:minPixelsForParallel" 0x4b47c7a65e775a6b
def «internal/lossless.const:modeCacheIdx» : Entry := fp! "internal/lossless.const:modeCacheIdx" 0xcd93cbe8bac1d54e
def «internal/lossless.const:modeCopy» : Entry := fp! "internal/lossless.const:modeCopy" 0xf346f893b1107103
def «internal/lossless.const:modeLiteral» : Entry := fp! "internal/lossless.const:modeLiteral" 0x094d9e819cd23a80
def «internal/lossless.const:nonTrivialSym» : Entry := fp! "internal/lossless.const:nonTrivialSym" 0x02fe81bbf1de8e43
def «internal/lossless.const:numArgbCacheRows» : Entry := fp! "internal/lossless.const:numArgbCacheRows" 0x650546dc6e4b56e0
def «internal/lossless.const:numPartitions» : Entry := fp! "internal/lossless.const:numPartitions" 0x74b28d2f434d3d88
def «internal/lossless.const:numPredictors» : Entry := fp! "internal/lossless.const:numPredictors" 0x200d982d16f9f2ea
def «internal/lossless.const:windowOffsetsMaxSize» : Entry := fp! "internal/lossless.const:windowOffsetsMaxSize" 0xd4459a7df84ccd72
def «internal/lossless.const:windowSize» : Entry := fp! "internal/lossless.const:windowSize" 0x496ac61388662e21
def «internal/lossless.const:windowSizeBits» : Entry := fp! "internal/lossless.const:windowSizeBits" 0x5513b99a23941485
def «internal/lossless.convertPopulationCountToBitEstimates» : Entry := fp! "internal/lossless.convertPopulationCountToBitEstimates" 0x94cb6820a196199d
def «internal/lossless.copyBlock32» : Entry := fp! "internal/lossless.copyBlock32" 0xf03c489b21d96299
def «internal/lossless.copyImageWithPrediction» : Entry := fp! "internal/lossless.copyImageWithPrediction" 0x15470999fec8cb33
def «internal/lossless.costManager.allocInterval» : Entry := fp! "internal/lossless.costManager.allocInterval" 0x35a2c80eaac8a96c
def «internal/lossless.costManager.connectIntervals» : Entry := fp! "internal/lossless.costManager.connectIntervals" 0x968d4eb490df0ba7
def «internal/lossless.costManager.freeInterval» : Entry := fp! "internal/lossless.costManager.freeInterval" 0x95270b7d776fc1c6
def «internal/lossless.costManager.insertInterval» : Entry := fp! "internal/lossless.costManager.insertInterval" 0xe4bc5e759367bbfd
def «internal/lossless.costManager.popInterval» : Entry := fp! "internal/lossless.costManager.popInterval" 0x9c1ce92e0986b8c1
def «internal/lossless.costManager.positionOrphanInterval» : Entry := fp! "internal/lossless.costManager.positionOrphanInterval" 0x65c96c64acfd55d3
def «internal/lossless.costManager.pushInterval» : Entry := fp! "internal/lossless.costManager.pushInterval" 0x97fd4d95625d837d
def «internal/lossless.costManager.updateCost» : Entry := fp! "internal/lossless.costManager.updateCost" 0x602dee43dcf5b07c
def «internal/lossless.costManager.updateCostAtIndex» : Entry := fp! "internal/lossless.costManager.updateCostAtIndex" 0xf94fb6871767721e
def «internal/lossless.costManager.updateCostPerInterval» : Entry := fp! "internal/lossless.costManager.updateCostPerInterval" 0x3f14c1ebee94445e
def «internal/lossless.costModelTrace.build» : Entry := fp! "internal/lossless.costModelTrace.build" 0x2ceb76cc9a240242
def «internal/lossless.costModelTrace.getCacheCost» : Entry := fp! "internal/lossless.costModelTrace.getCacheCost" 0x039fe4ce002aa824
def «internal/lossless.costModelTrace.getDistanceCost» : Entry := fp! "internal/lossless.costModelTrace.getDistanceCost" 0x3fcde0c4c23b81cd
def «internal/lossless.costModelTrace.getLengthCost» : Entry := fp! "internal/lossless.costModelTrace.getLengthCost" 0x1cc45faa3d57c194
def «internal/lossless.costModelTrace.getLiteralCost» : Entry := fp! "internal/lossless.costModelTrace.getLiteralCost" 0x3921b7565e78197e
def «internal/lossless.dominantCostRange.update» : Entry := fp! "internal/lossless.dominantCostRange.update" 0x0eb32cd51f02be6e
def «internal/lossless.encColorTransformDelta» : Entry := fp! "internal/lossless.encColorTransformDelta" 0xcfb6326e973d4aa6
def «internal/lossless.estimateEntropy» : Entry := fp! "internal/lossless.estimateEntropy" 0x7a53d593a421565a
def «internal/lossless.expandColorMap» : Entry := fp! "internal/lossless.expandColorMap" 0x575a8cf50e270740
def «internal/lossless.extraCost» : Entry := fp! "internal/lossless.extraCost" 0x894326b4891a5159
def «internal/lossless.extractClusterCenters» : Entry := fp! "internal/lossless.extractClusterCenters" 0xdb41a9414919fda0
def «internal/lossless.fastSLog2» : Entry := fp! "internal/lossless.fastSLog2" 0xa7b87014d39261cb
def «internal/lossless.fillMatchRange» : Entry := fp! "internal/lossless.fillMatchRange" 0x980166b6afac43e5
def «internal/lossless.finalHuffmanCost» : Entry := fp! "internal/lossless.finalHuffmanCost" 0x8fe0d988caeb8138
def «internal/lossless.findBestMultiplier» : Entry := fp! "internal/lossless.findBestMultiplier" 0x136fd7681750614c
def «internal/lossless.findBestMultipliers» : Entry := fp! "internal/lossless.findBestMultipliers" 0xbfb0d6bef532050a
def «internal/lossless.findClosestDiscretized» : Entry := fp! "internal/lossless.findClosestDiscretized" 0x17d833cc2b834296
def «internal/lossless.findMatchLength» : Entry := fp! "internal/lossless.findMatchLength" 0x324d82651300819b
def «internal/lossless.fixPair» : Entry := fp! "internal/lossless.fixPair" 0x649b581c8a606309
def «internal/lossless.generateCanonicalCodes» : Entry := fp! "internal/lossless.generateCanonicalCodes" 0x17df4405d68ae7b3
def «internal/lossless.getARGBIndex» : Entry := fp! "internal/lossless.getARGBIndex" 0x6f127e20cbc8b78e
def «internal/lossless.getBinIDForEntropy» : Entry := fp! "internal/lossless.getBinIDForEntropy" 0x0027a1bab3354012
def «internal/lossless.getCombineCostFactor» : Entry := fp! "internal/lossless.getCombineCostFactor" 0xc83404f1033f80d7
def «internal/lossless.getCombinedEntropy» : Entry := fp! "internal/lossless.getCombinedEntropy" 0x79fe47ee8e100335
def «internal/lossless.getCombinedEntropyUnrefined» : Entry := fp! "internal/lossless.getCombinedEntropyUnrefined" 0xf8c227aba5ab8333
def «internal/lossless.getCombinedHistogramEntropy» : Entry := fp! "internal/lossless.getCombinedHistogramEntropy" 0x82d4bc0c95c71466
def «internal/lossless.getEntropyUnrefined» : Entry := fp! "internal/lossless.getEntropyUnrefined" 0xa46f620a88e8070f
def «internal/lossless.getEntropyUnrefinedHelper» : Entry := fp! "internal/lossless.getEntropyUnrefinedHelper" 0x9e08d2fc4be0f6af
def «internal/lossless.getHistoBinIndex» : Entry := fp! "internal/lossless.getHistoBinIndex" 0xea94d69092ffd20d
def «internal/lossless.getHistoBits» : Entry := fp! "internal/lossless.getHistoBits" 0x9337d5a01ed28c4c
def «internal/lossless.getMaxItersForQuality» : Entry := fp! "internal/lossless.getMaxItersForQuality" 0xf676d87a4768bf2b
def «internal/lossless.getNextKey» : Entry := fp! "internal/lossless.getNextKey" 0xba42335c27534752
def «internal/lossless.getPixPairHash64» : Entry := fp! "internal/lossless.getPixPairHash64" 0xf2333259dd955c29
def «internal/lossless.getPixPairHash64Values» : Entry := fp! "internal/lossless.getPixPairHash64Values" 0x5617408f4053b6b1
def «internal/lossless.getTransformBits» : Entry := fp! "internal/lossless.getTransformBits" 0xd8dd792162547644
def «internal/lossless.histoQueue.popAt» : Entry := fp! "internal/lossless.histoQueue.popAt" 0x9853e8f107db299e
def «internal/lossless.histoQueue.push» : Entry := fp! "internal/lossless.histoQueue.push" 0xd923f022d4c217fd
def «internal/lossless.histoQueue.size» : Entry := fp! "internal/lossless.histoQueue.size" 0x5c527eb821302ff5
def «internal/lossless.histoQueue.updateHead» : Entry := fp! "internal/lossless.histoQueue.updateHead" 0x239c88542ed45591
def «internal/lossless.histogramAdd» : Entry := fp! "internal/lossless.histogramAdd" 0x5eef64c69582a5c0
def «internal/lossless.histogramAddEvalThresh» : Entry := fp! "internal/lossless.histogramAddEvalThresh" 0xcc2a4347f19e770b
def «internal/lossless.histogramAddThresh» : Entry := fp! "internal/lossless.histogramAddThresh" 0xbe810bbd1b901b3e
def «internal/lossless.histogramBuild» : Entry := fp! "internal/lossless.histogramBuild" 0x72aae853e05f424f
def «internal/lossless.histogramCombineEntropyBin» : Entry := fp! "internal/lossless.histogramCombineEntropyBin" 0x264ebfc2d8159aec
def «internal/lossless.histogramCombineGreedy» : Entry := fp! "internal/lossless.histogramCombineGreedy" 0x73e984e3ef951cbd
def «internal/lossless.histogramCombineStochastic» : Entry := fp! "internal/lossless.histogramCombineStochastic" 0x92242ba403bf0f68
def «internal/lossless.histogramEstimateBitsFromRefsScratch» : Entry := fp! "internal/lossless.histogramEstimateBitsFromRefsScratch" 0x3ecf18236a26213b
def «internal/lossless.histogramEstimateBitsUint64» : Entry := fp! "internal/lossless.histogramEstimateBitsUint64" 0x4a0cbffe9e166c7c
def «internal/lossless.histogramNumCodes» : Entry := fp! "internal/lossless.histogramNumCodes" 0xb9039fb67a96a96b
def «internal/lossless.histogramRemap» : Entry := fp! "internal/lossless.histogramRemap" 0x864f3b324bdf4c37
def «internal/lossless.initialHuffmanCost» : Entry := fp! "internal/lossless.initialHuffmanCost" 0xab053e18cbc09764
def «internal/lossless.inverseTransform» : Entry := fp! "internal/lossless.inverseTransform" 0xf8d7cd3656e7c5a1
def «internal/lossless.isNear» : Entry := fp! "internal/lossless.isNear" 0x67d2bbb365675522
def «internal/lossless.isSmooth» : Entry := fp! "internal/lossless.isSmooth" 0x52ba8bcb9f95125e
def «internal/lossless.lehmerRand» : Entry := fp! "internal/lossless.lehmerRand" 0x5bbf6183fab4334e
def «internal/lossless.maxFindCopyLength» : Entry := fp! "internal/lossless.maxFindCopyLength" 0x9a1222ecf392437b
def «internal/lossless.multiplierCost» : Entry := fp! "internal/lossless.multiplierCost" 0x816943bd0303281e
def «internal/lossless.nearLosslessPass» : Entry := fp! "internal/lossless.nearLosslessPass" 0x0187c3a7fdc00265
def «internal/lossless.newCostManager» : Entry := fp! "internal/lossless.newCostManager" 0x8bd12dc544d6ec27
def «internal/lossless.newCostModelTrace» : Entry := fp! "internal/lossless.newCostModelTrace" 0xc0d0e667db38fa8e
def «internal/lossless.newDominantCostRange» : Entry := fp! "internal/lossless.newDominantCostRange" 0x2d99cd0760664554
def «internal/lossless.nextTableBitSize» : Entry := fp! "internal/lossless.nextTableBitSize" 0xe6faae51b535735f
def «internal/lossless.nodeHeap.Len» : Entry := fp! "internal/lossless.nodeHeap.Len" 0x251b150e4e4803f1
def «internal/lossless.nodeHeap.heapInit» : Entry := fp! "internal/lossless.nodeHeap.heapInit" 0x45e8ee267c8ed277
def «internal/lossless.nodeHeap.less» : Entry := fp! "internal/lossless.nodeHeap.less" 0x459fc42701158f08
def «internal/lossless.nodeHeap.pop» : Entry := fp! "internal/lossless.nodeHeap.pop" 0xabd0461694f322be
def «internal/lossless.nodeHeap.push» : Entry := fp! "internal/lossless.nodeHeap.push" 0xbd84409dc09956a1
def «internal/lossless.nodeHeap.siftDown» : Entry := fp! "internal/lossless.nodeHeap.siftDown" 0x2b721ec871bb8074
def «internal/lossless.nodeHeap.swap» : Entry := fp! "internal/lossless.nodeHeap.swap" 0x308f4c5d3d6cf6a3
def «internal/lossless.optimizeSampling» : Entry := fp! "internal/lossless.optimizeSampling" 0xc3a0d8d905430fc8
def «internal/lossless.packMultipliers» : Entry := fp! "internal/lossless.packMultipliers" 0x1b2251c455d9fd02
def «internal/lossless.paletteCodeBits» : Entry := fp! "internal/lossless.paletteCodeBits" 0xca5341b0d315af09
def «internal/lossless.parallelComputeHistogramCost» : Entry := fp! "internal/lossless.parallelComputeHistogramCost" 0x8dfdc93d537930ee
def «internal/lossless.populationCost» : Entry := fp! "internal/lossless.populationCost" 0x440221d7461862c2
def «internal/lossless.predictPixel» : Entry := fp! "internal/lossless.predictPixel" 0x41ab5a5cbec14002
def «internal/lossless.predictorInverseTransform» : Entry := fp! "internal/lossless.predictorInverseTransform" 0xc6ecaa9431b511d5
def «internal/lossless.readPackedSymbols» : Entry := fp! "internal/lossless.readPackedSymbols" 0xcada2b847a2db7db
def «internal/lossless.releaseDecoder» : Entry := fp! "internal/lossless.releaseDecoder" 0x2a43743b8597d39e
def «internal/lossless.releaseEncoder» : Entry := fp! "internal/lossless.releaseEncoder" 0x5d3cc46cbe294693
def «internal/lossless.removeUnusedHistograms» : Entry := fp! "internal/lossless.removeUnusedHistograms" 0xfb81932011c19abc
def «internal/lossless.replicateValue» : Entry := fp! "internal/lossless.replicateValue" 0x28110c4d4970dfaf
def «internal/lossless.reverseBits» : Entry := fp! "internal/lossless.reverseBits" 0x8525511f268e229f
def «internal/lossless.selectPred» : Entry := fp! "internal/lossless.selectPred" 0x232d2c75beb5800d
def «internal/lossless.selectPredictor» : Entry := fp! "internal/lossless.selectPredictor" 0xb9dc39b68ce06a4a
def «internal/lossless.storeFullHuffmanCodeScratch» : Entry := fp! "internal/lossless.storeFullHuffmanCodeScratch" 0x6bdbcd9cc72267cf
def «internal/lossless.storeSimpleHuffmanCode» : Entry := fp! "internal/lossless.storeSimpleHuffmanCode" 0xe14fe120e08ebf0f
def «internal/lossless.subPixels» : Entry := fp! "internal/lossless.subPixels" 0xe1ddccfe20ad7518
def «internal/lossless.subPixelsEnc» : Entry := fp! "internal/lossless.subPixelsEnc" 0x903d146e0b7a4a23
def «internal/lossless.tileTracker.merge» : Entry := fp! "internal/lossless.tileTracker.merge" 0xfa81e8d3be5869e0
def «internal/lossless.tileTracker.swapRemove» : Entry := fp! "internal/lossless.tileTracker.swapRemove" 0x34692abac375ac0d
def «internal/lossless.traceBackwards» : Entry := fp! "internal/lossless.traceBackwards" 0x1e9c5d626dec81b0
def «internal/lossless.var:CodeLengthCodeOrder» : Entry := fp! "internal/lossless.var:CodeLengthCodeOrder" 0x6a71f0cc58c7325d
def «internal/lossless.var:CodeLengthExtraBits» : Entry := fp! "internal/lossless.var:CodeLengthExtraBits" 0xe2ddd757b269b293
def «internal/lossless.var:CodeLengthRepeatOffsets» : Entry := fp! "internal/lossless.var:CodeLengthRepeatOffsets" 0xb0ead1cd31a7cd27
def «internal/lossless.var:CodeToPlane» : Entry := fp! "internal/lossless.var:CodeToPlane" 0xcf8a5da7a688ea18
def «internal/lossless.var:ErrBadSignature» : Entry := fp! "internal/lossless.var:ErrBadSignature" 0x920f02760e72e20e
def «internal/lossless.var:ErrBadVersion» : Entry := fp! "internal/lossless.var:ErrBadVersion" 0x5905b8aefb48779c
def «internal/lossless.var:ErrBitstream» : Entry := fp! "internal/lossless.var:ErrBitstream" 0xb15785eca187349a
def «internal/lossless.var:ErrEmptyCodeLengths» : Entry := fp! "internal/lossless.var:ErrEmptyCodeLengths" 0xf4ec55a0936074d6
def «internal/lossless.var:ErrImageTooLarge» : Entry := fp! "internal/lossless.var:ErrImageTooLarge" 0x3d2e7691666e4c93
def «internal/lossless.var:ErrInvalidTree» : Entry := fp! "internal/lossless.var:ErrInvalidTree" 0xc0e34aaf81f40255
def «internal/lossless.var:KLiteralMap» : Entry := fp! "internal/lossless.var:KLiteralMap" 0x090c9bd4994b750d
def «internal/lossless.var:fastSLog2LUT» : Entry := fp! "internal/lossless.var:fastSLog2LUT" 0xebf0ac96317d1269
def «internal/lossless.var:kBaseAlphabetSize» : Entry := fp! "internal/lossless.var:kBaseAlphabetSize" 0x02a0da1b68d3a6a0
def «internal/lossless.var:losslessDecoderPool» : Entry := fp! "internal/lossless.var:losslessDecoderPool" 0xbd8bb93d6d5015ac
def «internal/lossless.var:losslessEncoderPool» : Entry := fp! "internal/lossless.var:losslessEncoderPool" 0xf931fdec45e6ec26
def «internal/lossless.var:multiplierDeltaByteLUT» : Entry := fp! "internal/lossless.var:multiplierDeltaByteLUT" 0x3bd0c24a2c2abc58
def «internal/lossless.var:planeToCodeLUT» : Entry := fp! "internal/lossless.var:planeToCodeLUT" 0xb4d8d424e7bc55af
def «internal/lossless.writeHuffmanCode» : Entry := fp! "internal/lossless.writeHuffmanCode" 0xbb743e63d829bc40
def «internal/lossy.Decoder.decodeMB» : Entry := fp! "internal/lossy.Decoder.decodeMB" 0x14cd709595f4f4c0
def «internal/lossy.Decoder.doFilter» : Entry := fp! "internal/lossy.Decoder.doFilter" 0x03447b47c533beff
def «internal/lossy.Decoder.filterRowAt» : Entry := fp! "internal/lossy.Decoder.filterRowAt" 0xa49bddb16e72bb5b
def «internal/lossy.Decoder.initFrame» : Entry := fp! "internal/lossy.Decoder.initFrame" 0x690a8c48506f66ea
def «internal/lossy.Decoder.initScanline» : Entry := fp! "internal/lossy.Decoder.initScanline" 0x872a7fca75c3ed27
def «internal/lossy.Decoder.parseFilterHeader» : Entry := fp! "internal/lossy.Decoder.parseFilterHeader" 0xca9adfbba28d138f
def «internal/lossy.Decoder.parseFrame» : Entry := fp! "internal/lossy.Decoder.parseFrame" 0xc7a933f1bc45e6e0
def «internal/lossy.Decoder.parseHeaders» : Entry := fp! "internal/lossy.Decoder.parseHeaders" 0x2d0b0a4e64fe87af
def «internal/lossy.Decoder.parseIntraModeRow» : Entry := fp! "internal/lossy.Decoder.parseIntraModeRow" 0x907d3df5a7487c5a
def «internal/lossy.Decoder.parsePartitions» : Entry := fp! "internal/lossy.Decoder.parsePartitions" 0xf81891a20822b56c
def «internal/lossy.Decoder.parseResiduals» : Entry := fp! "internal/lossy.Decoder.parseResiduals" 0x486cef17dab7b497
def «internal/lossy.Decoder.parseSegmentHeader» : Entry := fp! "internal/lossy.Decoder.parseSegmentHeader" 0x216c491ad5d42b6a
def «internal/lossy.Decoder.precomputeFilterStrengths» : Entry := fp! "internal/lossy.Decoder.precomputeFilterStrengths" 0x29d12a0306b8f0b8
def «internal/lossy.Decoder.reconstructRow» : Entry := fp! "internal/lossy.Decoder.reconstructRow" 0xcd18bbb2eb4b0d25
def «internal/lossy.DequantCoeffs» : Entry := fp! "internal/lossy.DequantCoeffs" 0x1561ef35b35a2eb8
def «internal/lossy.MBIterator.Export» : Entry := fp! "internal/lossy.MBIterator.Export" 0x14019dfc824910e6
def «internal/lossy.MBIterator.FillPredContext» : Entry := fp! "internal/lossy.MBIterator.FillPredContext" 0xed7d04c4ee6376f0
def «internal/lossy.MBIterator.FillPredictionContext» : Entry := fp! "internal/lossy.MBIterator.FillPredictionContext" 0xff60051e8bbcfb99
def «internal/lossy.MBIterator.GetTopModes» : Entry := fp! "internal/lossy.MBIterator.GetTopModes" 0x6bba709e2c042c89
def «internal/lossy.MBIterator.Import» : Entry := fp! "internal/lossy.MBIterator.Import" 0xea1f4e187ace3afa
def «internal/lossy.MBIterator.IsDone» : Entry := fp! "internal/lossy.MBIterator.IsDone" 0x2eae71cce1142e66
def «internal/lossy.MBIterator.Next» : Entry := fp! "internal/lossy.MBIterator.Next" 0xa713cc4b1b5f45a7
def «internal/lossy.MBIterator.SaveTopModes» : Entry := fp! "internal/lossy.MBIterator.SaveTopModes" 0x3fa3c23f17a59b09
def «internal/lossy.MBIterator.resetLeftContext» : Entry := fp! "internal/lossy.MBIterator.resetLeftContext" 0x99a24de84d3e2afe
def «internal/lossy.ParseQuant» : Entry := fp! "internal/lossy.ParseQuant" 0x69547494a70a55c5
def «internal/lossy.PickBestI16Mode» : Entry := fp! "internal/lossy.PickBestI16Mode" 0xbf6b512c25117bfb
def «internal/lossy.PickBestI4Mode» : Entry := fp! "internal/lossy.PickBestI4Mode" 0xffb4274cba82a27a
def «internal/lossy.PickBestUVMode» : Entry := fp! "internal/lossy.PickBestUVMode" 0x953fbd3b37f1aa27
def «internal/lossy.QuantizeCoeffs» : Entry := fp! "internal/lossy.QuantizeCoeffs" 0x9d5f204a89bc1ad4
def «internal/lossy.RDScore» : Entry := fp! "internal/lossy.RDScore" 0x48f7d753f503d62a
def «internal/lossy.ReleaseDecoder» : Entry := fp! "internal/lossy.ReleaseDecoder" 0x5e51ca865e7dae59
def «internal/lossy.ResetProba» : Entry := fp! "internal/lossy.ResetProba" 0xd08825b0e929bd2b
def «internal/lossy.TokenBuffer.EmitTokens» : Entry := fp! "internal/lossy.TokenBuffer.EmitTokens" 0xc4c419e2830f93db
def «internal/lossy.TokenBuffer.EmitTokensPartitioned» : Entry := fp! "internal/lossy.TokenBuffer.EmitTokensPartitioned" 0x615500966ad8cbfd
def «internal/lossy.TokenBuffer.Init» : Entry := fp! "internal/lossy.TokenBuffer.Init" 0x97bef2513558d2e3
def «internal/lossy.TokenBuffer.MarkMBStart» : Entry := fp! "internal/lossy.TokenBuffer.MarkMBStart" 0xf124fe6f4541e3f9
def «internal/lossy.TokenBuffer.RecordCoeffs» : Entry := fp! "internal/lossy.TokenBuffer.RecordCoeffs" 0x45cf37761670cddb
def «internal/lossy.TokenBuffer.RecordToken» : Entry := fp! "internal/lossy.TokenBuffer.RecordToken" 0x94c0a157b39ae2a2
def «internal/lossy.TokenBuffer.Reset» : Entry := fp! "internal/lossy.TokenBuffer.Reset" 0x338647bf305df811
def «internal/lossy.TokenBuffer.addPage» : Entry := fp! "internal/lossy.TokenBuffer.addPage" 0x5f03fb3db8db57b5
def «internal/lossy.TokenBuffer.recordLevelVP8» : Entry := fp! "internal/lossy.TokenBuffer.recordLevelVP8" 0xb7bbfbf9bc688f4c
def «internal/lossy.TokenBuffer.tokenCount» : Entry := fp! "internal/lossy.TokenBuffer.tokenCount" 0xbe53e3de8446c167
def «internal/lossy.TokenCostForCoeffs» : Entry := fp! "internal/lossy.TokenCostForCoeffs" 0x918570946113cda6
def «internal/lossy.TrellisQuantizeBlock» : Entry := fp! "internal/lossy.TrellisQuantizeBlock" 0xbd731a5b811c07b3
def «internal/lossy.VP8Encoder.InitIterator» : Entry := fp! "internal/lossy.VP8Encoder.InitIterator" 0xd00bb1f62f338cfc
def «internal/lossy.VP8Encoder.PickBestI16ModeRD» : Entry := fp! "internal/lossy.VP8Encoder.PickBestI16ModeRD" 0xe891cf99d1a34651
def «internal/lossy.VP8Encoder.PickBestI4ModeRD» : Entry := fp! "internal/lossy.VP8Encoder.PickBestI4ModeRD" 0xc166998431dda9be
def «internal/lossy.VP8Encoder.PickBestI4ModeRDTrellis» : Entry := fp! "internal/lossy.VP8Encoder.PickBestI4ModeRDTrellis" 0xfe5d658baea44c00
def «internal/lossy.VP8Encoder.PickBestUVModeRD» : Entry := fp! "internal/lossy.VP8Encoder.PickBestUVModeRD" 0x84151ca8f7f316a7
def «internal/lossy.VP8Encoder.adjustQuantForTarget» : Entry := fp! "internal/lossy.VP8Encoder.adjustQuantForTarget" 0x973ba38679700ec3
def «internal/lossy.VP8Encoder.allocateBuffers» : Entry := fp! "internal/lossy.VP8Encoder.allocateBuffers" 0xab291cd4210a78eb
def «internal/lossy.VP8Encoder.analysis» : Entry := fp! "internal/lossy.VP8Encoder.analysis" 0xbb3bd89f3141d0a2
def «internal/lossy.VP8Encoder.assembleFrame» : Entry := fp! "internal/lossy.VP8Encoder.assembleFrame" 0xb0fac7bd9270457e
def «internal/lossy.VP8Encoder.buildSegmentHeader» : Entry := fp! "internal/lossy.VP8Encoder.buildSegmentHeader" 0xa416ac6b28b06792
def «internal/lossy.VP8Encoder.collectAllStats» : Entry := fp! "internal/lossy.VP8Encoder.collectAllStats" 0x1d0299c8f5a665b8
def «internal/lossy.VP8Encoder.collectMBStats» : Entry := fp! "internal/lossy.VP8Encoder.collectMBStats" 0x965be58140d1debf
def «internal/lossy.VP8Encoder.computeStats» : Entry := fp! "internal/lossy.VP8Encoder.computeStats" 0x69d5692ac8941f5d
def «internal/lossy.VP8Encoder.correctDCValues» : Entry := fp! "internal/lossy.VP8Encoder.correctDCValues" 0x64d9e1859321fbe8
def «internal/lossy.VP8Encoder.emitFrame» : Entry := fp! "internal/lossy.VP8Encoder.emitFrame" 0x29a6d3bb1525df9f
def «internal/lossy.VP8Encoder.emitPartition0» : Entry := fp! "internal/lossy.VP8Encoder.emitPartition0" 0xf6cfee7f08cd08d8
def «internal/lossy.VP8Encoder.emitTokenPartitions» : Entry := fp! "internal/lossy.VP8Encoder.emitTokenPartitions" 0x0431ab2920e6fedc
def «internal/lossy.VP8Encoder.encodeFrame» : Entry := fp! "internal/lossy.VP8Encoder.encodeFrame" 0xbf531c0793dbc470
def «internal/lossy.VP8Encoder.encodeFrameParallel» : Entry := fp! "internal/lossy.VP8Encoder.encodeFrameParallel" 0xe9284025720335ec
def «internal/lossy.VP8Encoder.encodeI16Residuals» : Entry := fp! "internal/lossy.VP8Encoder.encodeI16Residuals" 0x725c616ae4162995
def «internal/lossy.VP8Encoder.encodeI4Residuals» : Entry := fp! "internal/lossy.VP8Encoder.encodeI4Residuals" 0x034aec3d5fce8103
def «internal/lossy.VP8Encoder.encodeResiduals» : Entry := fp! "internal/lossy.VP8Encoder.encodeResiduals" 0x557f39441ac954f8
def «internal/lossy.VP8Encoder.encodeRow» : Entry := fp! "internal/lossy.VP8Encoder.encodeRow" 0x785a17019aedc49a
def «internal/lossy.VP8Encoder.encodeUVResiduals» : Entry := fp! "internal/lossy.VP8Encoder.encodeUVResiduals" 0xab67d2c104336f9d
def «internal/lossy.VP8Encoder.importImage» : Entry := fp! "internal/lossy.VP8Encoder.importImage" 0xdcbead9ae5c81b42
def «internal/lossy.VP8Encoder.importYCbCr» : Entry := fp! "internal/lossy.VP8Encoder.importYCbCr" 0x2c90d78613403233
def «internal/lossy.VP8Encoder.initEncoderParams» : Entry := fp! "internal/lossy.VP8Encoder.initEncoderParams" 0xa12e062c76e89079
def «internal/lossy.VP8Encoder.initPassStats» : Entry := fp! "internal/lossy.VP8Encoder.initPassStats" 0xbcd995291864d78f
def «internal/lossy.VP8Encoder.initSegments» : Entry := fp! "internal/lossy.VP8Encoder.initSegments" 0x7cfa6a4d50323136
def «internal/lossy.VP8Encoder.pickBestMode» : Entry := fp! "internal/lossy.VP8Encoder.pickBestMode" 0xfd26cd955d33de3a
def «internal/lossy.VP8Encoder.reconstructMB» : Entry := fp! "internal/lossy.VP8Encoder.reconstructMB" 0xc2ce2c0e619be98b
def «internal/lossy.VP8Encoder.recordAllTokens» : Entry := fp! "internal/lossy.VP8Encoder.recordAllTokens" 0x9e7fc64d34eab2a0
def «internal/lossy.VP8Encoder.recordMBTokens» : Entry := fp! "internal/lossy.VP8Encoder.recordMBTokens" 0xb124212ca74aa0de
def «internal/lossy.VP8Encoder.refreshProbas» : Entry := fp! "internal/lossy.VP8Encoder.refreshProbas" 0xfab4488e65cba4a9
def «internal/lossy.VP8Encoder.rerecordAllTokens» : Entry := fp! "internal/lossy.VP8Encoder.rerecordAllTokens" 0x9234a00e5d1f2f2b
def «internal/lossy.VP8Encoder.resetForReuse» : Entry := fp! "internal/lossy.VP8Encoder.resetForReuse" 0x8c9d2f78b6de5265
def «internal/lossy.VP8Encoder.restoreSourcePixels» : Entry := fp! "internal/lossy.VP8Encoder.restoreSourcePixels" 0x8759dbed41b44ef5
def «internal/lossy.VP8Encoder.saveSourcePixels» : Entry := fp! "internal/lossy.VP8Encoder.saveSourcePixels" 0x46863c1558a1f6e7
def «internal/lossy.VP8Encoder.setSegmentParams» : Entry := fp! "internal/lossy.VP8Encoder.setSegmentParams" 0x256b7156d9832eb3
def «internal/lossy.VP8Encoder.setSegmentProbas» : Entry := fp! "internal/lossy.VP8Encoder.setSegmentProbas" 0x8e2039b8659fab35
def «internal/lossy.VP8Encoder.setupFilterStrength» : Entry := fp! "internal/lossy.VP8Encoder.setupFilterStrength" 0x4f5bf1f620ffbb1f
def «internal/lossy.VP8Encoder.simplifySegments» : Entry := fp! "internal/lossy.VP8Encoder.simplifySegments" 0xc1fa716ea22faa5e
def «internal/lossy.VP8Encoder.statLoop» : Entry := fp! "internal/lossy.VP8Encoder.statLoop" 0xcb7593ee62a0c4b8
def «internal/lossy.VP8Encoder.storeDiffusionErrors» : Entry := fp! "internal/lossy.VP8Encoder.storeDiffusionErrors" 0x465493361a3c2eba
def «internal/lossy.VP8Encoder.tryI4Modes» : Entry := fp! "internal/lossy.VP8Encoder.tryI4Modes" 0xa588e785a4f797f2
def «internal/lossy.VP8Encoder.tryI4ModesRD» : Entry := fp! "internal/lossy.VP8Encoder.tryI4ModesRD" 0xb8289657481d219f
def «internal/lossy.VP8Encoder.updateNZContext» : Entry := fp! "internal/lossy.VP8Encoder.updateNZContext" 0x6b38d2e1902733d1
def «internal/lossy.VP8Encoder.writeCoeffProba» : Entry := fp! "internal/lossy.VP8Encoder.writeCoeffProba" 0x18f5209870aa9d91
def «internal/lossy.VP8Encoder.writeFilterHeader» : Entry := fp! "internal/lossy.VP8Encoder.writeFilterHeader" 0x41dff051abbc20ed
def «internal/lossy.VP8Encoder.writeMBModes» : Entry := fp! "internal/lossy.VP8Encoder.writeMBModes" 0x2eda066cff52b8af
def «internal/lossy.VP8Encoder.writeQuantParams» : Entry := fp! "internal/lossy.VP8Encoder.writeQuantParams" 0xf5b9f864b6dc9f29
def «internal/lossy.VP8Encoder.writeSegmentHeader» : Entry := fp! "internal/lossy.VP8Encoder.writeSegmentHeader" 0x9dfe319dafa87b7a
def «internal/lossy.abs» : Entry := fp! "internal/lossy.abs" 0xdef51228dbb218b5
def «internal/lossy.acquireDecoder» : Entry := fp! "internal/lossy.acquireDecoder" 0x150b38a57a16dc7e
def «internal/lossy.alphaUnfilterGradient» : Entry := fp! "internal/lossy.alphaUnfilterGradient" 0xeb24c3ac6f7e7536
def «internal/lossy.alphaUnfilterHorizontal» : Entry := fp! "internal/lossy.alphaUnfilterHorizontal" 0x534f02f0837cd3d7
def «internal/lossy.alphaUnfilterHorizontalRow» : Entry := fp! "internal/lossy.alphaUnfilterHorizontalRow" 0xe75d8bf9a7b354d3
def «internal/lossy.alphaUnfilterVertical» : Entry := fp! "internal/lossy.alphaUnfilterVertical" 0x35794c7cffaa3e56
def «internal/lossy.alphaVP8LStream» : Entry := fp! "internal/lossy.alphaVP8LStream" 0xa584bcb425594381
def «internal/lossy.assignSegments» : Entry := fp! "internal/lossy.assignSegments" 0x492f4798563e412d
def «internal/lossy.b2i» : Entry := fp! "internal/lossy.b2i" 0x00e39e6a050abcf5
def «internal/lossy.boolToIntEnc» : Entry := fp! "internal/lossy.boolToIntEnc" 0x33e72bcea95d26f8
def «internal/lossy.brLoad» : Entry := fp! "internal/lossy.brLoad" 0x56b6dc395b4072ec
def «internal/lossy.brSync» : Entry := fp! "internal/lossy.brSync" 0xd406afe22fd37e42
def «internal/lossy.branchCost» : Entry := fp! "internal/lossy.branchCost" 0xa1d5407fa17dfd77
def «internal/lossy.checkMode» : Entry := fp! "internal/lossy.checkMode" 0x283fb73655e49092
def «internal/lossy.clamp255» : Entry := fp! "internal/lossy.clamp255" 0x403f2acb84b0f5a7
def «internal/lossy.clampInt» : Entry := fp! "internal/lossy.clampInt" 0x36557d74c015ad18
def «internal/lossy.clip» : Entry := fp! "internal/lossy.clip" 0x123880c144584ac1
def «internal/lossy.collectCoeffStats» : Entry := fp! "internal/lossy.collectCoeffStats" 0xf3e720be7cac6293
def «internal/lossy.collectHistogramAlphaWith» : Entry := fp! "internal/lossy.collectHistogramAlphaWith" 0x285f0ff0b03ce473
def «internal/lossy.collectLevelStats» : Entry := fp! "internal/lossy.collectLevelStats" 0x5255e0d951184038
def «internal/lossy.computeAlphas» : Entry := fp! "internal/lossy.computeAlphas" 0x060c454d74a79b24
def «internal/lossy.computeAlphasSerial» : Entry := fp! "internal/lossy.computeAlphasSerial" 0xf39bf9017e8e2182
def «internal/lossy.computeMBAlphaDCT» : Entry := fp! "internal/lossy.computeMBAlphaDCT" 0x077d139c40b20224
def «internal/lossy.computeMBAlphaDCTWith» : Entry := fp! "internal/lossy.computeMBAlphaDCTWith" 0xff5a35593297b89e
def «internal/lossy.computeMBAlphaDCTWorker» : Entry := fp! "internal/lossy.computeMBAlphaDCTWorker" 0x4fd4d4a23817a301
def «internal/lossy.computeMBUVAlphaDCT» : Entry := fp! "internal/lossy.computeMBUVAlphaDCT" 0xb734b73e6ce8463a
def «internal/lossy.computeMBUVAlphaDCTWith» : Entry := fp! "internal/lossy.computeMBUVAlphaDCTWith" 0x074967e7fd802c84
def «internal/lossy.computeMBUVAlphaDCTWorker» : Entry := fp! "internal/lossy.computeMBUVAlphaDCTWorker" 0x2880e034dea230e5
def «internal/lossy.const:AlphaFilterGradient» : Entry := fp! "internal/lossy.const:AlphaFilterGradient" 0xd45c097c2aa6283a
def «internal/lossy.const:AlphaFilterHorizontal» : Entry := fp! "internal/lossy.const:AlphaFilterHorizontal" 0x8e4d6bcd41bc47be
def «internal/lossy.const:AlphaFilterModeFast» : Entry := fp! "internal/lossy.const:AlphaFilterModeFast" 0x991f0470911dc8cc
def «internal/lossy.const:AlphaFilterModeNone» : Entry := fp! "internal/lossy.const:AlphaFilterModeNone" 0x9431541d92e8c0cc
def «internal/lossy.const:AlphaFilterNone» : Entry := fp! "internal/lossy.const:AlphaFilterNone" 0x60c5908f284959f1
def «internal/lossy.const:AlphaFilterVertical» : Entry := fp! "internal/lossy.const:AlphaFilterVertical" 0xca451f4c4afb0253
def «internal/lossy.const:AlphaLosslessCompression» : Entry := fp! "internal/lossy.const:AlphaLosslessCompression" 0x4c7a86f9ab2f8fbc
def «internal/lossy.const:AlphaNoCompression» : Entry := fp! "internal/lossy.const:AlphaNoCompression" 0xed496885bce8fb7e
def «internal/lossy.const:BDCPred» : Entry := fp! "internal/lossy.const:BDCPred" 0x32398b37ccff920d
def «internal/lossy.const:BDCPredNoLeft» : Entry := fp! "internal/lossy.const:BDCPredNoLeft" 0x54d0f4e216171a6b
def «internal/lossy.const:BDCPredNoTop» : Entry := fp! "internal/lossy.const:BDCPredNoTop" 0x32e76572d15800af
def «internal/lossy.const:BDCPredNoTopLeft» : Entry := fp! "internal/lossy.const:BDCPredNoTopLeft" 0xfe942b8020d29c3f
def «internal/lossy.const:BHDPred» : Entry := fp! "internal/lossy.const:BHDPred" 0x105232020e0591d3
def «internal/lossy.const:BHEPred» : Entry := fp! "internal/lossy.const:BHEPred" 0x659dd6c17676a355
def «internal/lossy.const:BHUPred» : Entry := fp! "internal/lossy.const:BHUPred" 0xd582570c2703dad9
def «internal/lossy.const:BLDPred» : Entry := fp! "internal/lossy.const:BLDPred" 0x459e2e5f402eacc2
def «internal/lossy.const:BPS» : Entry := fp! "internal/lossy.const:BPS" 0x4411a0e0db0fd725
def «internal/lossy.const:BRDPred» : Entry := fp! "internal/lossy.const:BRDPred" 0x723f239202320c47
def «internal/lossy.const:BTMPred» : Entry := fp! "internal/lossy.const:BTMPred" 0xe55f319eaceadd8e
def «internal/lossy.const:BVEPred» : Entry := fp! "internal/lossy.const:BVEPred" 0xfde5c44a7844ad95
def «internal/lossy.const:BVLPred» : Entry := fp! "internal/lossy.const:BVLPred" 0xdb4f07392a4128d2
def «internal/lossy.const:BVRPred» : Entry := fp! "internal/lossy.const:BVRPred" 0xb7da1bb53f44623c
def «internal/lossy.const:DCPred» : Entry := fp! "internal/lossy.const:DCPred" 0x78533fc30b9a8f2c
def «internal/lossy.const:HPred» : Entry := fp! "internal/lossy.const:HPred" 0x3a84e8de5aa4b8b8
def «internal/lossy.const:MBFeatureTreeProbs» : Entry := fp! "internal/lossy.const:MBFeatureTreeProbs" 0x1329021e7f0fc4e7
def «internal/lossy.const:MaxNumPartitions» : Entry := fp! "internal/lossy.const:MaxNumPartitions" 0x57c7fb72a379c5de
def «internal/lossy.const:NumBModes» : Entry := fp! "internal/lossy.const:NumBModes" 0x4a1d42c4cdd04953
def «internal/lossy.const:NumBands» : Entry := fp! "internal/lossy.const:NumBands" 0x8a5e62eeeda40021
def «internal/lossy.const:NumCTX» : Entry := fp! "internal/lossy.const:NumCTX" 0x5d3dd98c87356f86
def «internal/lossy.const:NumMBSegments» : Entry := fp! "internal/lossy.const:NumMBSegments" 0x48e1ea0489c978e1
def «internal/lossy.const:NumModeLFDeltas» : Entry := fp! "internal/lossy.const:NumModeLFDeltas" 0xc9a598d14a4d9b0c
def «internal/lossy.const:NumPredModes» : Entry := fp! "internal/lossy.const:NumPredModes" 0x94f39bc2c79907b6
def «internal/lossy.const:NumProbas» : Entry := fp! "internal/lossy.const:NumProbas" 0x1b09b4541b6c5174
def «internal/lossy.const:NumRefLFDeltas» : Entry := fp! "internal/lossy.const:NumRefLFDeltas" 0x3934d161b34e6c1f
def «internal/lossy.const:NumTypes» : Entry := fp! "internal/lossy.const:NumTypes" 0xdf44662daac5fdb5
def «internal/lossy.const:TMPred» : Entry := fp! "internal/lossy.const:TMPred" 0xf82554d8bfb036b2
def «internal/lossy.const:UOff» : Entry := fp! "internal/lossy.const:UOff" 0x6fef6d03c7690eda
def «internal/lossy.const:VOff» : Entry := fp! "internal/lossy.const:VOff" 0x497b4c3801a9e4f2
def «internal/lossy.const:VPred» : Entry := fp! "internal/lossy.const:VPred" 0x29d290db1be44b96
def «internal/lossy.const:YOff» : Entry := fp! "internal/lossy.const:YOff" 0x0434fe48d0842ce1
def «internal/lossy.const:YUVSize» : Entry := fp! "internal/lossy.const:YUVSize" 0x25f0d3a5f6870f6f
def «internal/lossy.const:alphaFilterLast» : Entry := fp! "internal/lossy.const:alphaFilterLast" 0x479f89cd16e740f9
def «internal/lossy.const:alphaPreprocessedLevels» : Entry := fp! "internal/lossy.const:alphaPreprocessedLevels" 0xd59300ca4bf9fa3d
def «internal/lossy.const:alphaScale» : Entry := fp! "internal/lossy.const:alphaScale" 0x18c45369f005289c
def «internal/lossy.const:derrC1» : Entry := fp! "internal/lossy.const:derrC1" 0xa9f4f43123325211
def «internal/lossy.const:derrC2» : Entry := fp! "internal/lossy.const:derrC2" 0xc2ba7891754e3b74
def «internal/lossy.const:derrDScale» : Entry := fp! "internal/lossy.const:derrDScale" 0xeea36bf821c1e1c1
def «internal/lossy.const:derrDShift» : Entry := fp! "internal/lossy.const:derrDShift" 0x89f67493afe1bff4
def «internal/lossy.const:flatnessLimitI16» : Entry := fp! "internal/lossy.const:flatnessLimitI16" 0x3b39a2ad83b66a7d
def «internal/lossy.const:flatnessLimitI4» : Entry := fp! "internal/lossy.const:flatnessLimitI4" 0x0220b0ecfd267714
def «internal/lossy.const:flatnessLimitUV» : Entry := fp! "internal/lossy.const:flatnessLimitUV" 0xde597de60fbe4c97
def «internal/lossy.const:flatnessPenalty» : Entry := fp! "internal/lossy.const:flatnessPenalty" 0x0c0b3f31acb6a37e
def «internal/lossy.const:fstrengthCutoff» : Entry := fp! "internal/lossy.const:fstrengthCutoff" 0x6dafab49d439110f
def «internal/lossy.const:maxAlpha» : Entry := fp! "internal/lossy.const:maxAlpha" 0x49af8c248c265692
def «internal/lossy.const:maxCoeffThresh» : Entry := fp! "internal/lossy.const:maxCoeffThresh" 0xeb11d7d2123d0da3
def «internal/lossy.const:maxIntra16Mode» : Entry := fp! "internal/lossy.const:maxIntra16Mode" 0xc563e259511f629d
def «internal/lossy.const:maxItersKMeans» : Entry := fp! "internal/lossy.const:maxItersKMeans" 0x7b41a6eea645980a
def «internal/lossy.const:maxPartition0Size» : Entry := fp! "internal/lossy.const:maxPartition0Size" 0x3e6315a443ce72bd
def «internal/lossy.const:maxPartitionSize» : Entry := fp! "internal/lossy.const:maxPartitionSize" 0x3c1004150985e9a2
def «internal/lossy.const:minRefreshCount» : Entry := fp! "internal/lossy.const:minRefreshCount" 0x3c2604104e3ab39a
def «internal/lossy.const:rdDistoMult» : Entry := fp! "internal/lossy.const:rdDistoMult" 0x114d23618f088aa4
def «internal/lossy.const:tokenPageSize» : Entry := fp! "internal/lossy.const:tokenPageSize" 0xd0c6e5ba0c55eba6
def «internal/lossy.dequantCoeffsGo» : Entry := fp! "internal/lossy.dequantCoeffsGo" 0x8f5bed0319984d42
def «internal/lossy.dequantCoeffsSSE2» : Entry := fp! "internal/lossy.dequantCoeffsSSE2" 0xa5a5dc3774ce366b
def «internal/lossy.doSimpleFilter2» : Entry := fp! "internal/lossy.doSimpleFilter2" 0x01fa77a162aa75ee
def «internal/lossy.doSimpleFilter4» : Entry := fp! "internal/lossy.doSimpleFilter4" 0x5edfb78511bf3b06
def «internal/lossy.doSimpleFilter6» : Entry := fp! "internal/lossy.doSimpleFilter6" 0x960dee2a28f4e7ac
def «internal/lossy.doTransform» : Entry := fp! "internal/lossy.doTransform" 0x6410bfb238cc1c67
def «internal/lossy.doTransformDCBlock» : Entry := fp! "internal/lossy.doTransformDCBlock" 0x177a0bd4e1111ae1
def «internal/lossy.doUVTransform» : Entry := fp! "internal/lossy.doUVTransform" 0x6adc9120aa8de603
def «internal/lossy.encodeI16ResidualsParallel» : Entry := fp! "internal/lossy.encodeI16ResidualsParallel" 0xdb760bd9bb684f5f
def «internal/lossy.encodeI4ResidualsParallel» : Entry := fp! "internal/lossy.encodeI4ResidualsParallel" 0xdbbd159569019a37
def «internal/lossy.encodeResidualsParallel» : Entry := fp! "internal/lossy.encodeResidualsParallel" 0xbc5401d47b1dce84
def «internal/lossy.encodeUVResidualsParallel» : Entry := fp! "internal/lossy.encodeUVResidualsParallel" 0x4a92b2b26b386ad0
def «internal/lossy.exportParallel» : Entry := fp! "internal/lossy.exportParallel" 0x09da722b8bc3a505
def «internal/lossy.fastBit» : Entry := fp! "internal/lossy.fastBit" 0xeec6feac2babb492
def «internal/lossy.fastSigned» : Entry := fp! "internal/lossy.fastSigned" 0x5def6b59201c8d4d
def «internal/lossy.fastVariableLevelCost» : Entry := fp! "internal/lossy.fastVariableLevelCost" 0x2e4d012fef7af70c
def «internal/lossy.fillBytes» : Entry := fp! "internal/lossy.fillBytes" 0x594b2a8e18fd6244
def «internal/lossy.fillPredContextParallel» : Entry := fp! "internal/lossy.fillPredContextParallel" 0x2d12a6b9c1a3976a
def «internal/lossy.filterLoop24HAt» : Entry := fp! "internal/lossy.filterLoop24HAt" 0x354df9c0fac2b5a9
def «internal/lossy.filterLoop24VAt» : Entry := fp! "internal/lossy.filterLoop24VAt" 0xef619ca4c2ef5f0f
def «internal/lossy.filterLoop26At» : Entry := fp! "internal/lossy.filterLoop26At" 0x7b8ca0156db01393
def «internal/lossy.filterLoop26HAt» : Entry := fp! "internal/lossy.filterLoop26HAt" 0xd97fd4e8a63bd7ba
def «internal/lossy.filterLoop26VAt» : Entry := fp! "internal/lossy.filterLoop26VAt" 0x8641e5846e5fd956
def «internal/lossy.filterStrengthFromDelta» : Entry := fp! "internal/lossy.filterStrengthFromDelta" 0x6dc172f9e79616eb
def «internal/lossy.generateI16Prediction» : Entry := fp! "internal/lossy.generateI16Prediction" 0x59902b343665d52f
def «internal/lossy.getBoolWriter» : Entry := fp! "internal/lossy.getBoolWriter" 0xa40ca9cffd8b79db
def «internal/lossy.getCoeffsInline» : Entry := fp! "internal/lossy.getCoeffsInline" 0x4b5693d9ffcc7d97
def «internal/lossy.getImportUVWorker» : Entry := fp! "internal/lossy.getImportUVWorker" 0xa690f484de048da3
def «internal/lossy.getMaxI4RDModes» : Entry := fp! "internal/lossy.getMaxI4RDModes" 0x71c4eecf3918d000
def «internal/lossy.getPSNR» : Entry := fp! "internal/lossy.getPSNR" 0xb5a62c6b1424b80d
def «internal/lossy.getParallelState» : Entry := fp! "internal/lossy.getParallelState" 0xf716f40f33a2e6cf
def «internal/lossy.hFilter16iAt» : Entry := fp! "internal/lossy.hFilter16iAt" 0x6e021535365a9b9e
def «internal/lossy.hFilter8iAt» : Entry := fp! "internal/lossy.hFilter8iAt" 0xfbd9d48eb2456fb6
def «internal/lossy.i4SubtreeContains» : Entry := fp! "internal/lossy.i4SubtreeContains" 0x404ad63d7c3d378b
def «internal/lossy.imageHasAlpha» : Entry := fp! "internal/lossy.imageHasAlpha" 0xe14937ed8e191b9a
def «internal/lossy.importBlock» : Entry := fp! "internal/lossy.importBlock" 0xdd29a1cde692befc
def «internal/lossy.importBlockParallel» : Entry := fp! "internal/lossy.importBlockParallel" 0xc7616111b493f6c8
def «internal/lossy.initRowWorker» : Entry := fp! "internal/lossy.initRowWorker" 0x815bf44952a33299
def «internal/lossy.initSegmentQuant» : Entry := fp! "internal/lossy.initSegmentQuant" 0x02944d529a02706f
def «internal/lossy.isFlat» : Entry := fp! "internal/lossy.isFlat" 0xcd516e60b0825361
def «internal/lossy.isFlatSource16» : Entry := fp! "internal/lossy.isFlatSource16" 0xea4482b6d50d6c75
def «internal/lossy.isHEV» : Entry := fp! "internal/lossy.isHEV" 0xa4727306f2449aab
def «internal/lossy.maxInt» : Entry := fp! "internal/lossy.maxInt" 0x78dd2890f2d124db
def «internal/lossy.needsFilter2At» : Entry := fp! "internal/lossy.needsFilter2At" 0x08522ea7eeb7f81f
def «internal/lossy.needsLeft4» : Entry := fp! "internal/lossy.needsLeft4" 0x1b7a5b123fd7ee9b
def «internal/lossy.needsTop4» : Entry := fp! "internal/lossy.needsTop4" 0x5ddb8f7e3a579810
def «internal/lossy.newRowSync» : Entry := fp! "internal/lossy.newRowSync" 0xd025aa1d2e02ed81
def «internal/lossy.nzCodeBits» : Entry := fp! "internal/lossy.nzCodeBits" 0xa0eb092d268c46ad
def «internal/lossy.nzCountACSSE2» : Entry := fp! "internal/lossy.nzCountACSSE2" 0x6681d41a23cc2e31
def «internal/lossy.optimizeProba» : Entry := fp! "internal/lossy.optimizeProba" 0x40eca6f4f9241f50
def «internal/lossy.parseProba» : Entry := fp! "internal/lossy.parseProba" 0x0e591a027be741c7
def «internal/lossy.passStats.computeNextQ» : Entry := fp! "internal/lossy.passStats.computeNextQ" 0xdd3b1d96e4276079
def «internal/lossy.pickBestI16ModeRDParallel» : Entry := fp! "internal/lossy.pickBestI16ModeRDParallel" 0xdea6af8e9fb70409
def «internal/lossy.pickBestI4ModeRDParallel» : Entry := fp! "internal/lossy.pickBestI4ModeRDParallel" 0x5e7fa49e0ef6572f
def «internal/lossy.pickBestI4ModeRDTrellisParallel» : Entry := fp! "internal/lossy.pickBestI4ModeRDTrellisParallel" 0xf3bd410db8ac31dc
def «internal/lossy.pickBestModeParallel» : Entry := fp! "internal/lossy.pickBestModeParallel" 0xa8dcb31891d8bdc2
def «internal/lossy.pickBestUVModeRDParallel» : Entry := fp! "internal/lossy.pickBestUVModeRDParallel" 0xbcbbad20087c3cd6
def «internal/lossy.putBoolWriter» : Entry := fp! "internal/lossy.putBoolWriter" 0xda087df5b1234e5b
def «internal/lossy.putParallelState» : Entry := fp! "internal/lossy.putParallelState" 0x9bda47d7951dcb03
def «internal/lossy.qualityToCompression» : Entry := fp! "internal/lossy.qualityToCompression" 0x83de498f69336fe0
def «internal/lossy.qualityToQIndex» : Entry := fp! "internal/lossy.qualityToQIndex" 0x8f3fd3be36d63d8f
def «internal/lossy.quantizeACAVX2» : Entry := fp! "internal/lossy.quantizeACAVX2" 0x9f58591fa7743c97
def «internal/lossy.quantizeACSSE2» : Entry := fp! "internal/lossy.quantizeACSSE2" 0x4aa5222fe6582eee
def «internal/lossy.quantizeCoeffsGo» : Entry := fp! "internal/lossy.quantizeCoeffsGo" 0x33c7d61f38ec3859
def «internal/lossy.quantizeSingle» : Entry := fp! "internal/lossy.quantizeSingle" 0x4141121cda8adac0
def «internal/lossy.readOptionalSigned» : Entry := fp! "internal/lossy.readOptionalSigned" 0xcaac2caa5c29b5c6
def «internal/lossy.reconstructMBParallel» : Entry := fp! "internal/lossy.reconstructMBParallel" 0x1dacbf3468390da3
def «internal/lossy.rowSync.signal» : Entry := fp! "internal/lossy.rowSync.signal" 0xd7c548f6ac951e4b
def «internal/lossy.rowSync.waitFor» : Entry := fp! "internal/lossy.rowSync.waitFor" 0xa371ebe1e222cfce
def «internal/lossy.sclip1» : Entry := fp! "internal/lossy.sclip1" 0x67a706bf4f2f098e
def «internal/lossy.sclip2» : Entry := fp! "internal/lossy.sclip2" 0x087f0052e012115d
def «internal/lossy.setupSegment» : Entry := fp! "internal/lossy.setupSegment" 0xb33f9725a187baec
def «internal/lossy.simpleHFilter16At» : Entry := fp! "internal/lossy.simpleHFilter16At" 0x596cac6d0c0d91bd
def «internal/lossy.simpleHFilter16iAt» : Entry := fp! "internal/lossy.simpleHFilter16iAt" 0xfa2871718cfc819e
def «internal/lossy.smoothSegmentMap» : Entry := fp! "internal/lossy.smoothSegmentMap" 0xe10fe5a56abbd66e
def «internal/lossy.tryI4ModesParallel» : Entry := fp! "internal/lossy.tryI4ModesParallel" 0x1ee8f37520ce65e9
def «internal/lossy.tryI4ModesRDParallel» : Entry := fp! "internal/lossy.tryI4ModesRDParallel" 0xf85bb373d9b887a0
def «internal/lossy.updateNZContextParallel» : Entry := fp! "internal/lossy.updateNZContextParallel" 0xdb7d41d3d19eccc6
def «internal/lossy.vFilter16iAt» : Entry := fp! "internal/lossy.vFilter16iAt" 0xd429393dc1187a5c
def «internal/lossy.vFilter8iAt» : Entry := fp! "internal/lossy.vFilter8iAt" 0x9ea6de509720ae83
def «internal/lossy.var:CoeffsProba0» : Entry := fp! "internal/lossy.var:CoeffsProba0" 0x193ded23d281a207
def «internal/lossy.var:CoeffsUpdateProba» : Entry := fp! "internal/lossy.var:CoeffsUpdateProba" 0xcaf41db91b2b49f9
def «internal/lossy.var:ErrPartition0Overflow» : Entry := fp! "internal/lossy.var:ErrPartition0Overflow" 0x7fd844b993513206
def «internal/lossy.var:ErrPartitionOverflow» : Entry := fp! "internal/lossy.var:ErrPartitionOverflow" 0xfd704e5992088baf
def «internal/lossy.var:KAcTable» : Entry := fp! "internal/lossy.var:KAcTable" 0xa131b1c8598901cb
def «internal/lossy.var:KAcTable2» : Entry := fp! "internal/lossy.var:KAcTable2" 0x094c0d6fe7fa0ffd
def «internal/lossy.var:KBModesProba» : Entry := fp! "internal/lossy.var:KBModesProba" 0x08f1742d6a1e0755
def «internal/lossy.var:KBands» : Entry := fp! "internal/lossy.var:KBands" 0x5ca2e0ee438381c2
def «internal/lossy.var:KCat3» : Entry := fp! "internal/lossy.var:KCat3" 0x7852d675dd5cbfa3
def «internal/lossy.var:KCat4» : Entry := fp! "internal/lossy.var:KCat4" 0xc0e7a3ace6231383
def «internal/lossy.var:KCat5» : Entry := fp! "internal/lossy.var:KCat5" 0x4ca94a104cacdfa3
def «internal/lossy.var:KCat6» : Entry := fp! "internal/lossy.var:KCat6" 0xb9eab31d4551ca26
def «internal/lossy.var:KDcTable» : Entry := fp! "internal/lossy.var:KDcTable" 0xf04c4e87f64a3fd1
def «internal/lossy.var:KYModesIntra4» : Entry := fp! "internal/lossy.var:KYModesIntra4" 0x98e5212842bc6afb
def «internal/lossy.var:KZigzag» : Entry := fp! "internal/lossy.var:KZigzag" 0x47ceeb7af8fc589e
def «internal/lossy.var:VP8FixedCostsI4» : Entry := fp! "internal/lossy.var:VP8FixedCostsI4" 0xb1c15a208a7ef0c6
def «internal/lossy.var:boolWriterPool» : Entry := fp! "internal/lossy.var:boolWriterPool" 0x9cb30db05e0fd806
def «internal/lossy.var:encoderPool» : Entry := fp! "internal/lossy.var:encoderPool" 0x9beddf68cdf96936
def «internal/lossy.var:errPrematureEOF» : Entry := fp! "internal/lossy.var:errPrematureEOF" 0xf4dfed8244dca697
def «internal/lossy.var:importUVWorkerPool» : Entry := fp! "internal/lossy.var:importUVWorkerPool" 0x0cdbeff12606c96e
def «internal/lossy.var:kBiasMatrices» : Entry := fp! "internal/lossy.var:kBiasMatrices" 0x47385be2dd23fa46
def «internal/lossy.var:kCat3456» : Entry := fp! "internal/lossy.var:kCat3456" 0xfec1240ffab8c66d
def «internal/lossy.var:kFreqSharpening» : Entry := fp! "internal/lossy.var:kFreqSharpening" 0x4d4bd0fd763fbbdd
def «internal/lossy.var:kLevelsFromDelta» : Entry := fp! "internal/lossy.var:kLevelsFromDelta" 0x956c41bce8a13e70
def «internal/lossy.var:kReverseZigzag» : Entry := fp! "internal/lossy.var:kReverseZigzag" 0x44a1a6568992120c
def «internal/lossy.var:kScan» : Entry := fp! "internal/lossy.var:kScan" 0x7ed0bdb8f5957b53
def «internal/lossy.var:kVP8Log2Range» : Entry := fp! "internal/lossy.var:kVP8Log2Range" 0x08954ed36497c24c
def «internal/lossy.var:kVP8NewRange» : Entry := fp! "internal/lossy.var:kVP8NewRange" 0x901792f8c49c8a1e
def «internal/lossy.var:kWeightTrellis» : Entry := fp! "internal/lossy.var:kWeightTrellis" 0x960dff6e9c4ba3a7
def «internal/lossy.var:lossyDecoderPool» : Entry := fp! "internal/lossy.var:lossyDecoderPool" 0xf236063f9681f924
def «internal/lossy.var:modeFixedCost16» : Entry := fp! "internal/lossy.var:modeFixedCost16" 0x9042735fa81772dc
def «internal/lossy.var:modeFixedCostUV» : Entry := fp! "internal/lossy.var:modeFixedCostUV" 0x2f48e72b6c2a05ca
def «internal/lossy.var:parallelPool» : Entry := fp! "internal/lossy.var:parallelPool" 0x430432ad339457c0
def «internal/lossy.var:vp8LevelCodes» : Entry := fp! "internal/lossy.var:vp8LevelCodes" 0xae412fb5028f2181
def «internal/lossy.variableLevelCost» : Entry := fp! "internal/lossy.variableLevelCost" 0xbb2db2c684502e13
def «internal/lossy.writeI16Mode» : Entry := fp! "internal/lossy.writeI16Mode" 0x308305ac2015ec98
def «internal/lossy.writeI4ModeBits» : Entry := fp! "internal/lossy.writeI4ModeBits" 0x9b0992e68d816d7f
def «internal/lossy.writeSegmentID» : Entry := fp! "internal/lossy.writeSegmentID" 0xd048bfaf4181b193
def «internal/lossy.writeUVMode» : Entry := fp! "internal/lossy.writeUVMode" 0x84ee91ef4dc0b073
def «internal/pool.const:Size16K» : Entry := fp! "internal/pool.const:Size16K" 0x3aafc99950de10a6
def «internal/pool.const:Size1K» : Entry := fp! "internal/pool.const:Size1K" 0x61849a4f01eb885c
def «internal/pool.const:Size256B» : Entry := fp! "internal/pool.const:Size256B" 0x899d72d3cbb516c9
def «internal/pool.const:Size256K» : Entry := fp! "internal/pool.const:Size256K" 0xbb488440f0568fa2
def «internal/pool.const:Size4K» : Entry := fp! "internal/pool.const:Size4K" 0xa975880ca2c22303
def «internal/pool.const:Size64K» : Entry := fp! "internal/pool.const:Size64K" 0x4c0ded47386b4db1
def «internal/pool.var:pools» : Entry := fp! "internal/pool.var:pools" 0x3d2944769557b2d6
def «mux.ReadChunkHeader» : Entry := fp! "mux.ReadChunkHeader" 0xdc8bd880160b87ad
def «mux.chunkTotalSize» : Entry := fp! "mux.chunkTotalSize" 0x0a45fa5968fe1de3
def «mux.const:BlendAlpha» : Entry := fp! "mux.const:BlendAlpha" 0x9762304d5bef40bb
def «mux.const:BlendNone» : Entry := fp! "mux.const:BlendNone" 0xffd2d518928544c9
def «mux.const:DisposeBackground» : Entry := fp! "mux.const:DisposeBackground" 0x2fcf17fcb6869213
def «mux.const:DisposeNone» : Entry := fp! "mux.const:DisposeNone" 0xe0b5d75eef53a6c4
def «mux.const:FormatExtended» : Entry := fp! "mux.const:FormatExtended" 0x274f84dab43eec9c
def «mux.const:FormatLossless» : Entry := fp! "mux.const:FormatLossless" 0xe0ec926799d01bbe
def «mux.const:FormatLossy» : Entry := fp! "mux.const:FormatLossy" 0x7ee3c1c25bd44d74
def «mux.const:flagAlpha» : Entry := fp! "mux.const:flagAlpha" 0x12e6720de41971f4
def «mux.const:flagAnimation» : Entry := fp! "mux.const:flagAnimation" 0xcc65b3d5d743405b
def «mux.const:flagEXIF» : Entry := fp! "mux.const:flagEXIF" 0x07dab520cdb4d566
def «mux.const:flagICCP» : Entry := fp! "mux.const:flagICCP" 0x4dbc97304f4f97ae
def «mux.const:flagXMP» : Entry := fp! "mux.const:flagXMP" 0x1770a7a7cd764b4b
def «mux.const:maxDuration» : Entry := fp! "mux.const:maxDuration" 0x45e6d396033cdabd
def «mux.const:maxFrames» : Entry := fp! "mux.const:maxFrames" 0x35cad97ca395a613
def «mux.const:maxLoopCount» : Entry := fp! "mux.const:maxLoopCount" 0xd5a9f1596416f11b
def «mux.const:maxMetadataSize» : Entry := fp! "mux.const:maxMetadataSize" 0x15baf0bf04b7ded9
def «mux.detectBitstreamType» : Entry := fp! "mux.detectBitstreamType" 0x30bcf9f9e1eb55d5
def «mux.fourCCString» : Entry := fp! "mux.fourCCString" 0xa7dc97991d1be58e
def «mux.frameDataHasAlpha» : Entry := fp! "mux.frameDataHasAlpha" 0xcc46f13a018b857b
def «mux.frameDimensions» : Entry := fp! "mux.frameDimensions" 0x38856e8b4f1fa706
def «mux.frameSubChunksSize» : Entry := fp! "mux.frameSubChunksSize" 0xd6be2256e98a5d5b
def «mux.parseVP8Dimensions» : Entry := fp! "mux.parseVP8Dimensions" 0x268fdb7adff30e7b
def «mux.parseVP8LDimensions» : Entry := fp! "mux.parseVP8LDimensions" 0x61f0c0845ea0b791
def «mux.putLE24» : Entry := fp! "mux.putLE24" 0xa5105e69c50efca9
def «mux.splitAlphaAndBitstream» : Entry := fp! "mux.splitAlphaAndBitstream" 0x1007b96affd10327
def «mux.var:ErrChunkNotFound» : Entry := fp! "mux.var:ErrChunkNotFound" 0x00337ba1b810f91d
def «mux.var:ErrChunkTooLarge» : Entry := fp! "mux.var:ErrChunkTooLarge" 0xacf86c14b09e2e3a
def «mux.var:ErrFrameEmpty» : Entry := fp! "mux.var:ErrFrameEmpty" 0x17bfe09182d8a5bc
def «mux.var:ErrFrameOutRange» : Entry := fp! "mux.var:ErrFrameOutRange" 0x7857d156641d445d
def «mux.var:ErrInvalidANIM» : Entry := fp! "mux.var:ErrInvalidANIM" 0x60dccb096a3fea95
def «mux.var:ErrInvalidANMF» : Entry := fp! "mux.var:ErrInvalidANMF" 0x1e62458291e35377
def «mux.var:ErrInvalidChunkHeader» : Entry := fp! "mux.var:ErrInvalidChunkHeader" 0x9df836c1f154bc20
def «mux.var:ErrInvalidFrame» : Entry := fp! "mux.var:ErrInvalidFrame" 0x91461571e797f75c
def «mux.var:ErrInvalidRIFF» : Entry := fp! "mux.var:ErrInvalidRIFF" 0xf5eb96a65e15e456
def «mux.var:ErrInvalidVP8X» : Entry := fp! "mux.var:ErrInvalidVP8X" 0x2ac2475d8b1239b4
def «mux.var:ErrMetadataTooLarge» : Entry := fp! "mux.var:ErrMetadataTooLarge" 0x869cb15f4605e646
def «mux.var:ErrMuxValidation» : Entry := fp! "mux.var:ErrMuxValidation" 0x57805913c014b179
def «mux.var:ErrNoFrames» : Entry := fp! "mux.var:ErrNoFrames" 0x60f9871e4fce4aa6
def «mux.var:ErrNoImage» : Entry := fp! "mux.var:ErrNoImage" 0x15666504327f4d93
def «mux.var:ErrTooManyFrames» : Entry := fp! "mux.var:ErrTooManyFrames" 0x255711ae2cf7b2a4
def «mux.var:ErrTruncated» : Entry := fp! "mux.var:ErrTruncated" 0x92621e336807cc3f
def «mux.var:FourCCALPH» : Entry := fp! "mux.var:FourCCALPH" 0xae30859577853cd6
def «mux.var:FourCCANIM» : Entry := fp! "mux.var:FourCCANIM" 0x63503fce273f1ebe
def «mux.var:FourCCANMF» : Entry := fp! "mux.var:FourCCANMF" 0x0ce6bf81393086da
def «mux.var:FourCCEXIF» : Entry := fp! "mux.var:FourCCEXIF" 0x3dd82b2fd2ee5073
def «mux.var:FourCCICCP» : Entry := fp! "mux.var:FourCCICCP" 0x7f17aa5a7a223cee
def «mux.var:FourCCRIFF» : Entry := fp! "mux.var:FourCCRIFF" 0x07ac178239d6bcb3
def «mux.var:FourCCVP8» : Entry := fp! "mux.var:FourCCVP8" 0x19fad62655f7c743
def «mux.var:FourCCVP8L» : Entry := fp! "mux.var:FourCCVP8L" 0xe8d4ba16336896ee
def «mux.var:FourCCVP8X» : Entry := fp! "mux.var:FourCCVP8X" 0x0405fe8578ec26f7
def «mux.var:FourCCWEBP» : Entry := fp! "mux.var:FourCCWEBP" 0xf9611d38a706ab66
def «mux.var:FourCCXMP» : Entry := fp! "mux.var:FourCCXMP" 0x53119e6de500121e
def «mux.writeChunkHeader» : Entry := fp! "mux.writeChunkHeader" 0x4e4654c91c97dc4f
def «mux.writeDataChunk» : Entry := fp! "mux.writeDataChunk" 0x22df9bd4c1606da2
def «webp.Decode» : Entry := fp! "webp.Decode" 0xbe238ad2ba062760
def «webp.DecodeConfig» : Entry := fp! "webp.DecodeConfig" 0x1e80bfcb198757c8
def «webp.DefaultOptions» : Entry := fp! "webp.DefaultOptions" 0x53d9fac968b32db8
def «webp.Encode» : Entry := fp! "webp.Encode" 0x8e4ded1f16dc5c62
def «webp.buildNRGBA» : Entry := fp! "webp.buildNRGBA" 0xd8549ce286e88cbd
def «webp.buildYCbCr» : Entry := fp! "webp.buildYCbCr" 0x58eabdcf5af51de5
def «webp.cleanupTransparentAreaLossless» : Entry := fp! "webp.cleanupTransparentAreaLossless" 0xd627a929fac7ead8
def «webp.cleanupTransparentAreaLossyWith» : Entry := fp! "webp.cleanupTransparentAreaLossyWith" 0xcd1ba902115978a8
def «webp.const:MaxDimension» : Entry := fp! "webp.const:MaxDimension" 0xea69fb074b0ec3bd
def «webp.const:MaxInputSize» : Entry := fp! "webp.const:MaxInputSize" 0x2b0d1cd600b02bc1
def «webp.const:PresetDefault» : Entry := fp! "webp.const:PresetDefault" 0xb73f18ab21471aec
def «webp.const:PresetDrawing» : Entry := fp! "webp.const:PresetDrawing" 0x40887f8fd3453b59
def «webp.const:PresetIcon» : Entry := fp! "webp.const:PresetIcon" 0x226dca483d4c17fd
def «webp.const:PresetPhoto» : Entry := fp! "webp.const:PresetPhoto" 0x17ec06d057b7f8ee
def «webp.const:PresetPicture» : Entry := fp! "webp.const:PresetPicture" 0xeb8478f9fbc0c839
def «webp.const:PresetText» : Entry := fp! "webp.const:PresetText" 0x40f9252437e69346
def «webp.decodeBytes» : Entry := fp! "webp.decodeBytes" 0xf741524a9c987ae2
def «webp.decodeFrame» : Entry := fp! "webp.decodeFrame" 0x4504283f57fb7308
def «webp.decodeFrameForAnimation» : Entry := fp! "webp.decodeFrameForAnimation" 0x5a3305f5ec7df470
def «webp.decodeLossless» : Entry := fp! "webp.decodeLossless" 0xb111a1f0359d1a1b
def «webp.decodeLossy» : Entry := fp! "webp.decodeLossy" 0x7eeae068373756e5
def «webp.encodeFrameForAnimation» : Entry := fp! "webp.encodeFrameForAnimation" 0x02ee76939f088a51
def «webp.encodeLossless» : Entry := fp! "webp.encodeLossless" 0x6c24a9390e67cfb9
def «webp.encodeLosslessToWriter» : Entry := fp! "webp.encodeLosslessToWriter" 0x8286e0b6f714af06
def «webp.encodeLossyWithAlpha» : Entry := fp! "webp.encodeLossyWithAlpha" 0x08226ead4703904f
def «webp.extractAlphaWith» : Entry := fp! "webp.extractAlphaWith" 0xc43ac4477c1543f8
def «webp.flattenBlockNRGBA» : Entry := fp! "webp.flattenBlockNRGBA" 0xe455778406f45ea6
def «webp.imageHasAlpha» : Entry := fp! "webp.imageHasAlpha" 0xeb9a644ac8463430
def «webp.putLE24» : Entry := fp! "webp.putLE24" 0x882766cad7dd57f2
def «webp.readAll» : Entry := fp! "webp.readAll" 0x5cacae5d8c177606
def «webp.resolveAlphaCompression» : Entry := fp! "webp.resolveAlphaCompression" 0x51fbf9804a5d9271
def «webp.resolveAlphaFiltering» : Entry := fp! "webp.resolveAlphaFiltering" 0x4f12e7e5864c74cd
def «webp.resolveAlphaQuality» : Entry := fp! "webp.resolveAlphaQuality" 0xec83d6f3bf8a094e
def «webp.resolveQMax» : Entry := fp! "webp.resolveQMax" 0xdeb8bcc08bfa7566
def «webp.rgbaIsOpaque» : Entry := fp! "webp.rgbaIsOpaque" 0x3ed934f2ea928e7c
def «webp.rgbaToNRGBA» : Entry := fp! "webp.rgbaToNRGBA" 0x11f368d18243aaa2
def «webp.sharpYUVConvert» : Entry := fp! "webp.sharpYUVConvert" 0x890569e2b5163fdb
def «webp.simpleEncodeForAnimation» : Entry := fp! "webp.simpleEncodeForAnimation" 0xebb862eff8531dd0
def «webp.smoothenBlockNRGBA» : Entry := fp! "webp.smoothenBlockNRGBA" 0x01128043f846d8ed
def «webp.validNRGBA» : Entry := fp! "webp.validNRGBA" 0x0e2d86462118b20b
def «webp.validRGBA» : Entry := fp! "webp.validRGBA" 0x7abbe05cc21ac79f
def «webp.validateConfig» : Entry := fp! "webp.validateConfig" 0xa6eaf5880aafb153
def «webp.var:ErrNoFrames» : Entry := fp! "webp.var:ErrNoFrames" 0xe762bed86d6ea34a
def «webp.var:argbPool» : Entry := fp! "webp.var:argbPool" 0xbef24bd22ece0489
def «webp.writeRIFF» : Entry := fp! "webp.writeRIFF" 0xd83298f126f9e0d2
def «webp.writeRIFFExtended» : Entry := fp! "webp.writeRIFFExtended" 0x83c1a0beea12662f
def «webp.writeRIFFSimple» : Entry := fp! "webp.writeRIFFSimple" 0x847d7dd7e0f78046
def «webp.ycbcrToNRGBA» : Entry := fp! "webp.ycbcrToNRGBA" 0xcf2cd1bbf410183d
end dep
-- END closure entries

/-! ## groups: one per model file -/

/-- Webp/Impl/AnimDec.lean (animation.AnimDecoder: playback) -/
def animDec_roots : List Entry := [
  fp! "animation.NewAnimDecoder" 0xface9b38d3731f4b,
  fp! "animation.AnimDecoder.HasNext" 0xbe43a9a689206ae8,
  fp! "animation.AnimDecoder.isKeyFrame" 0xd2edb88c5b5ab08d,
  fp! "animation.AnimDecoder.NextFrame" 0xa50ac2585c3282a1,
  fp! "animation.AnimDecoder.Reset" 0xf7eee29af49ed6b3,
  fp! "animation.AnimDecoder.compositeFrame" 0xb53272c08c8b1261,
  fp! "animation.clearCanvas" 0x1bddb77d0df8b594,
  fp! "animation.frameWidth" 0xc4ab8a290d59a983,
  fp! "animation.frameHeight" 0x60aeef78220a4259,
  fp! "animation.applyDispose" 0xae715df68f01eb71,
  fp! "animation.fillRect" 0x35289ba0284d6fde,
  fp! "animation.alphaBlendNRGBA" 0x2dab353d7af36f6b,
  fp! "animation.Frame.Bounds" 0x2371a71e4d603889,
  fp! "animation.toNRGBA" 0x3a9203454c43ee91
]
-- BEGIN deps animDec (written by tools/update_fingerprints.py — do not edit by hand)
def animDec_deps : List Entry := [
  dep.«animation.bitstreamFrame.Bounds»,
  dep.«animation.const:BlendNone»,
  dep.«animation.const:DisposeBackground»,
  dep.«animation.const:DisposeNone»,
  dep.«animation.const:maxCanvasArea»,
  dep.«animation.var:ErrNilImage»,
  dep.«animation.var:ErrNoFrames»
]
-- END deps animDec
def animDec : List Entry := animDec_roots ++ animDec_deps

/-- Webp/Impl/AnimEnc.lean (animation.AnimEncoder, the muxer as it sees it, frame codec glue) -/
def animEnc_roots : List Entry := [
  fp! "animation.NewEncoder" 0x87445bda2a3edb65,
  fp! "animation.clampLoopCount" 0xda63291eb0d677a4,
  fp! "animation.sanitizeKeyframeOptions" 0x77eff691921a42b3,
  fp! "animation.AnimEncoder.AddFrame" 0x273b738d661fb4ef,
  fp! "animation.AnimEncoder.addOptimizedFrame" 0x7c929f628b7737f4,
  fp! "animation.AnimEncoder.encodeFrame" 0x0b51920d8216df86,
  fp! "animation.AnimEncoder.encodeKeyframe" 0x5f964d3b3b12a9bd,
  fp! "animation.AnimEncoder.encodeSubFrame" 0x72c2c4026f514f92,
  fp! "animation.AnimEncoder.increasePreviousDuration" 0xa5be56c86d2d45a8,
  fp! "animation.AnimEncoder.Close" 0xb95353744d73d5ad,
  fp! "animation.findChangedRect" 0x0d116b6af7726b62,
  fp! "animation.snapToEven" 0xd2d8736999cbf510,
  fp! "animation.extractSubImage" 0xac960fad5659f214,
  fp! "animation.cloneNRGBA" 0x360a8ec47b5bc2c6,
  fp! "animation.copyImageRect" 0x60807f8b7c5a3d13,
  fp! "animation.isCanvasIdentical" 0x80d87800545ec7ea,
  fp! "animation.isLosslessBlendingPossible" 0x411264892eea2eec,
  fp! "animation.isLossyBlendingPossible" 0x0a977c4abfe720a8,
  fp! "animation.qualityToMaxDiff" 0xcf40060cc4f5be81,
  fp! "animation.pixelsAreSimilar" 0x598b0c9a9c559ab3,
  fp! "animation.clearBlendedTranslucent" 0xd8f412c97ef1797c,
  fp! "animation.DecodeBytes" 0x81d573a1cbad1e0d,
  fp! "animation.Animation.DecodeFrames" 0x4b216a8b4a7737e1,
  fp! "webp.encodeFrameForAnimation" 0x02ee76939f088a51,
  fp! "webp.simpleEncodeForAnimation" 0xebb862eff8531dd0,
  fp! "webp.decodeFrameForAnimation" 0x5a3305f5ec7df470,
  fp! "mux.Muxer.AddFrame" 0xc94aac49361eb33a,
  fp! "mux.Muxer.SetFrameDisposeMode" 0xea99ac171ca7993d,
  fp! "mux.Muxer.SetFrameDuration" 0x852aef7dc0230135,
  fp! "mux.Muxer.FrameDuration" 0x1fc3dea3fb265410,
  fp! "mux.Muxer.NumFrames" 0x2a6c06d9445db642,
  fp! "mux.clampDuration" 0x5995aa90fb914945,
  fp! "mux.splitAlphaAndBitstream" 0x1007b96affd10327
]
-- BEGIN deps animEnc (written by tools/update_fingerprints.py — do not edit by hand)
def animEnc_deps : List Entry := [
  dep.«animation.Frame.Bounds»,
  dep.«animation.argbToNRGBA»,
  dep.«animation.bitstreamFrame.Bounds»,
  dep.«animation.const:BlendAlpha»,
  dep.«animation.const:BlendNone»,
  dep.«animation.const:DisposeBackground»,
  dep.«animation.const:DisposeNone»,
  dep.«animation.const:maxCanvasDimension»,
  dep.«animation.const:maxDuration»,
  dep.«animation.const:maxLoopCount»,
  dep.«animation.fillRect»,
  dep.«animation.nrgbaToARGB»,
  dep.«animation.toNRGBA»,
  dep.«animation.var:ErrNoDecoder»,
  dep.«animation.var:FrameDecoderFunc»,
  dep.«animation.var:FrameEncoderFunc»,
  dep.«animation.var:SimpleEncodeFunc»,
  dep.«mux.const:maxDuration»,
  dep.«mux.var:ErrFrameEmpty»,
  dep.«mux.var:FourCCALPH»,
  dep.«webp.DefaultOptions»,
  dep.«webp.Encode»,
  dep.«webp.buildNRGBA»,
  dep.«webp.buildYCbCr»,
  dep.«webp.cleanupTransparentAreaLossless»,
  dep.«webp.cleanupTransparentAreaLossyWith»,
  dep.«webp.const:MaxDimension»,
  dep.«webp.const:PresetDefault»,
  dep.«webp.const:PresetText»,
  dep.«webp.decodeLossless»,
  dep.«webp.decodeLossy»,
  dep.«webp.encodeLossless»,
  dep.«webp.encodeLosslessToWriter»,
  dep.«webp.encodeLossyWithAlpha»,
  dep.«webp.extractAlphaWith»,
  dep.«webp.flattenBlockNRGBA»,
  dep.«webp.imageHasAlpha»,
  dep.«webp.putLE24»,
  dep.«webp.resolveAlphaCompression»,
  dep.«webp.resolveAlphaFiltering»,
  dep.«webp.resolveAlphaQuality»,
  dep.«webp.resolveQMax»,
  dep.«webp.rgbaIsOpaque»,
  dep.«webp.rgbaToNRGBA»,
  dep.«webp.sharpYUVConvert»,
  dep.«webp.smoothenBlockNRGBA»,
  dep.«webp.validNRGBA»,
  dep.«webp.validRGBA»,
  dep.«webp.validateConfig»,
  dep.«webp.var:argbPool»,
  dep.«webp.writeRIFF»,
  dep.«webp.writeRIFFExtended»,
  dep.«webp.writeRIFFSimple»,
  dep.«webp.ycbcrToNRGBA»
]
-- END deps animEnc
def animEnc : List Entry := animEnc_roots ++ animEnc_deps

/-- Webp/Impl/BoolCoder.lean, writer half (internal/bitio/writer_bool.go) -/
def boolWriter_roots : List Entry := [
  fp! "internal/bitio.NewBoolWriter" 0x2f1f5e2dac597332,
  fp! "internal/bitio.BoolWriter.Reset" 0x5977808e724088b6,
  fp! "internal/bitio.BoolWriter.PutBit" 0xe5835ea59d32e8b9,
  fp! "internal/bitio.BoolWriter.PutBitUniform" 0x3539c79a5c3fe3de,
  fp! "internal/bitio.BoolWriter.PutBitBatchPacked" 0x8229f48db0db1b1c,
  fp! "internal/bitio.BoolWriter.PutBits" 0x2beeb9e4c3d9e52c,
  fp! "internal/bitio.BoolWriter.PutSignedBits" 0xcd0c989de32031be,
  fp! "internal/bitio.BoolWriter.flush" 0x4414c8c7954961f2,
  fp! "internal/bitio.BoolWriter.Finish" 0xf3c08fadfde4a0ab
]
-- BEGIN deps boolWriter (written by tools/update_fingerprints.py — do not edit by hand)
def boolWriter_deps : List Entry := [
  dep.«internal/bitio.boolToInt»,
  dep.«internal/bitio.var:kNewRange»,
  dep.«internal/bitio.var:kNorm»
]
-- END deps boolWriter
def boolWriter : List Entry := boolWriter_roots ++ boolWriter_deps

/-- Webp/Impl/BoolCoder.lean, reader half (internal/bitio/reader_bool.go) -/
def boolReader_roots : List Entry := [
  fp! "internal/bitio.NewBoolReader" 0x6ed19273fda561a9,
  fp! "internal/bitio.BoolReader.loadNewBytes" 0x10af2e4f1756fde4,
  fp! "internal/bitio.BoolReader.loadFinalBytes" 0x904d2f94cdfebb03,
  fp! "internal/bitio.BoolReader.GetBit" 0xc4e68d12354706da,
  fp! "internal/bitio.BoolReader.GetBitAlt" 0xa0f49bb2cc5d5ada,
  fp! "internal/bitio.BoolReader.GetSigned" 0x624debea8b8b9335,
  fp! "internal/bitio.BoolReader.GetValue" 0x78d059ec4149b964,
  fp! "internal/bitio.BoolReader.GetSignedValue" 0x498581157d2c94e5,
  fp! "internal/bitio.BoolReader.EOF" 0x53aaa85314ac7b5c
]
-- BEGIN deps boolReader (written by tools/update_fingerprints.py — do not edit by hand)
def boolReader_deps : List Entry := [
  dep.«internal/bitio.const:boolBITS»,
  dep.«internal/bitio.var:kVP8Log2Range»,
  dep.«internal/bitio.var:kVP8NewRange»
]
-- END deps boolReader
def boolReader : List Entry := boolReader_roots ++ boolReader_deps

/-- Webp/Impl/CodecFront.lean (VP8 decoder front end, buffer arithmetic, row slicing of webp.go) -/
def codecFront_roots : List Entry := [
  fp! "internal/lossy.DecodeFrame" 0x0cbe1247c056a9e7,
  fp! "internal/lossy.acquireDecoder" 0x150b38a57a16dc7e,
  fp! "internal/lossy.Decoder.parseHeaders" 0x2d0b0a4e64fe87af,
  fp! "internal/lossy.Decoder.parseSegmentHeader" 0x216c491ad5d42b6a,
  fp! "internal/lossy.Decoder.parseFilterHeader" 0xca9adfbba28d138f,
  fp! "internal/lossy.Decoder.parsePartitions" 0xf81891a20822b56c,
  fp! "internal/lossy.Decoder.initFrame" 0x690a8c48506f66ea,
  fp! "internal/lossy.ParseQuant" 0x69547494a70a55c5,
  fp! "internal/lossy.readOptionalSigned" 0xcaac2caa5c29b5c6,
  fp! "internal/lossy.parseProba" 0x0e591a027be741c7,
  fp! "internal/lossy.ResetProba" 0xd08825b0e929bd2b,
  fp! "webp.decodeLossy" 0x7eeae068373756e5,
  fp! "webp.buildYCbCr" 0x58eabdcf5af51de5,
  fp! "webp.buildNRGBA" 0xd8549ce286e88cbd,
  fp! "internal/dsp.UpsampleLinePairNRGBA" 0x64c0b8cef50f722c
]
-- BEGIN deps codecFront (written by tools/update_fingerprints.py — do not edit by hand)
def codecFront_deps : List Entry := [
  dep.«internal/dsp.YUVToB»,
  dep.«internal/dsp.YUVToG»,
  dep.«internal/dsp.YUVToR»,
  dep.«internal/dsp.YUVToRGB»,
  dep.«internal/dsp.const:kBBias»,
  dep.«internal/dsp.const:kBCb»,
  dep.«internal/dsp.const:kGBias»,
  dep.«internal/dsp.const:kGCb»,
  dep.«internal/dsp.const:kGCr»,
  dep.«internal/dsp.const:kRBias»,
  dep.«internal/dsp.const:kRCr»,
  dep.«internal/dsp.const:kYScale»,
  dep.«internal/dsp.const:yuvFix2»,
  dep.«internal/dsp.const:yuvMask»,
  dep.«internal/dsp.loadUV»,
  dep.«internal/dsp.multHi»,
  dep.«internal/dsp.upsampleLinePairNRGBAGo»,
  dep.«internal/dsp.var:hasAVX2»,
  dep.«internal/dsp.var:vp8kClip»,
  dep.«internal/dsp.yuvPackedToNRGBABatchAVX2»,
  dep.«internal/dsp.yuvPackedToNRGBABatchSSE2»,
  dep.«internal/lossy.Decoder.decodeMB»,
  dep.«internal/lossy.Decoder.doFilter»,
  dep.«internal/lossy.Decoder.filterRowAt»,
  dep.«internal/lossy.Decoder.initScanline»,
  dep.«internal/lossy.Decoder.parseFrame»,
  dep.«internal/lossy.Decoder.parseIntraModeRow»,
  dep.«internal/lossy.Decoder.parseResiduals»,
  dep.«internal/lossy.Decoder.precomputeFilterStrengths»,
  dep.«internal/lossy.Decoder.reconstructRow»,
  dep.«internal/lossy.ReleaseDecoder»,
  dep.«internal/lossy.abs»,
  dep.«internal/lossy.b2i»,
  dep.«internal/lossy.brLoad»,
  dep.«internal/lossy.brSync»,
  dep.«internal/lossy.checkMode»,
  dep.«internal/lossy.clamp255»,
  dep.«internal/lossy.clip»,
  dep.«internal/lossy.const:BDCPred»,
  dep.«internal/lossy.const:BDCPredNoLeft»,
  dep.«internal/lossy.const:BDCPredNoTop»,
  dep.«internal/lossy.const:BDCPredNoTopLeft»,
  dep.«internal/lossy.const:BHDPred»,
  dep.«internal/lossy.const:BHEPred»,
  dep.«internal/lossy.const:BHUPred»,
  dep.«internal/lossy.const:BLDPred»,
  dep.«internal/lossy.const:BPS»,
  dep.«internal/lossy.const:BRDPred»,
  dep.«internal/lossy.const:BTMPred»,
  dep.«internal/lossy.const:BVEPred»,
  dep.«internal/lossy.const:BVLPred»,
  dep.«internal/lossy.const:BVRPred»,
  dep.«internal/lossy.const:DCPred»,
  dep.«internal/lossy.const:HPred»,
  dep.«internal/lossy.const:MBFeatureTreeProbs»,
  dep.«internal/lossy.const:NumBModes»,
  dep.«internal/lossy.const:NumBands»,
  dep.«internal/lossy.const:NumCTX»,
  dep.«internal/lossy.const:NumMBSegments»,
  dep.«internal/lossy.const:NumModeLFDeltas»,
  dep.«internal/lossy.const:NumProbas»,
  dep.«internal/lossy.const:NumRefLFDeltas»,
  dep.«internal/lossy.const:NumTypes»,
  dep.«internal/lossy.const:TMPred»,
  dep.«internal/lossy.const:UOff»,
  dep.«internal/lossy.const:VOff»,
  dep.«internal/lossy.const:VPred»,
  dep.«internal/lossy.const:YOff»,
  dep.«internal/lossy.const:YUVSize»,
  dep.«internal/lossy.doSimpleFilter2»,
  dep.«internal/lossy.doSimpleFilter4»,
  dep.«internal/lossy.doSimpleFilter6»,
  dep.«internal/lossy.doTransform»,
  dep.«internal/lossy.doTransformDCBlock»,
  dep.«internal/lossy.doUVTransform»,
  dep.«internal/lossy.fastBit»,
  dep.«internal/lossy.fastSigned»,
  dep.«internal/lossy.fillBytes»,
  dep.«internal/lossy.filterLoop24HAt»,
  dep.«internal/lossy.filterLoop24VAt»,
  dep.«internal/lossy.filterLoop26At»,
  dep.«internal/lossy.filterLoop26HAt»,
  dep.«internal/lossy.filterLoop26VAt»,
  dep.«internal/lossy.getCoeffsInline»,
  dep.«internal/lossy.hFilter16iAt»,
  dep.«internal/lossy.hFilter8iAt»,
  dep.«internal/lossy.isHEV»,
  dep.«internal/lossy.needsFilter2At»,
  dep.«internal/lossy.nzCodeBits»,
  dep.«internal/lossy.sclip1»,
  dep.«internal/lossy.sclip2»,
  dep.«internal/lossy.simpleHFilter16At»,
  dep.«internal/lossy.simpleHFilter16iAt»,
  dep.«internal/lossy.vFilter16iAt»,
  dep.«internal/lossy.vFilter8iAt»,
  dep.«internal/lossy.var:CoeffsProba0»,
  dep.«internal/lossy.var:CoeffsUpdateProba»,
  dep.«internal/lossy.var:KAcTable»,
  dep.«internal/lossy.var:KBModesProba»,
  dep.«internal/lossy.var:KBands»,
  dep.«internal/lossy.var:KCat3»,
  dep.«internal/lossy.var:KCat4»,
  dep.«internal/lossy.var:KCat5»,
  dep.«internal/lossy.var:KCat6»,
  dep.«internal/lossy.var:KDcTable»,
  dep.«internal/lossy.var:KYModesIntra4»,
  dep.«internal/lossy.var:KZigzag»,
  dep.«internal/lossy.var:errPrematureEOF»,
  dep.«internal/lossy.var:kCat3456»,
  dep.«internal/lossy.var:kScan»,
  dep.«internal/lossy.var:kVP8Log2Range»,
  dep.«internal/lossy.var:kVP8NewRange»,
  dep.«internal/lossy.var:lossyDecoderPool»
]
-- END deps codecFront
def codecFront : List Entry := codecFront_roots ++ codecFront_deps

/-- Webp/Impl/CodecFrontL.lean (VP8L decoder front end, allocation sizes, copy guards) -/
def codecFrontL_roots : List Entry := [
  fp! "internal/lossless.DecodeVP8L" 0xc0cdc94041ff097c,
  fp! "internal/lossless.Decoder.decodeHeader" 0xf48ce041e0ec8c61,
  fp! "internal/lossless.Decoder.decodeImageStream" 0xa89562674f52d4c9,
  fp! "internal/lossless.Decoder.decodeSubImage" 0x8727b4c422d4cbc8,
  fp! "internal/lossless.Decoder.updateDecoder" 0x46a52b79ce2c17b8,
  fp! "internal/lossless.Decoder.readTransform" 0xa7604f17566de0d1,
  fp! "internal/lossless.expandColorMap" 0x575a8cf50e270740,
  fp! "internal/lossless.Decoder.readHuffmanCodes" 0x3635e6f7425b3c09,
  fp! "internal/lossless.Decoder.readHuffmanCode" 0x8f6b9bb571b5245d,
  fp! "internal/lossless.Decoder.readHuffmanCodeLengths" 0x03a76dff6b6d47d4,
  fp! "internal/lossless.Decoder.decodeImageData" 0xface28a325742152,
  fp! "internal/lossless.copyBlock32" 0xf03c489b21d96299,
  fp! "internal/lossless.getCopyDistance" 0x3615c5bee94a5e3d,
  fp! "internal/lossless.getCopyLength" 0x24d9ba89d4802363,
  fp! "internal/lossless.PlaneCodeToDistance" 0xe80d0822bde0c387,
  fp! "internal/lossless.VP8LSubSampleSize" 0x7be6781b6b955825,
  fp! "internal/lossless.Decoder.applyInverseTransforms" 0x3d47c423f2c66f0b,
  fp! "internal/lossless.argbSliceToBytes" 0x36df35b96ffe1f09,
  fp! "internal/lossless.bytesToARGBSlice" 0x8748b22b23a51d17,
  fp! "internal/lossless.argbToNRGBA" 0x83b414181bfe68b3,
  fp! "internal/lossless.argbToNRGBARows" 0xf8fd6c00764f6b0a,
  fp! "internal/bitio.LosslessReader.ReadBits" 0xbd7944ab83ba1053,
  fp! "internal/bitio.LosslessReader.IsEndOfStream" 0xbe3eb360ee02fc14
]
-- BEGIN deps codecFrontL (written by tools/update_fingerprints.py — do not edit by hand)
def codecFrontL_deps : List Entry := [
  dep.«internal/bitio.LosslessReader.PrefetchBits»,
  dep.«internal/bitio.LosslessReader.setEndOfStream»,
  dep.«internal/bitio.LosslessReader.shiftBytes»,
  dep.«internal/bitio.const:vp8lLBits»,
  dep.«internal/bitio.const:vp8lMaxNumBitRead»,
  dep.«internal/bitio.var:kBitMask»,
  dep.«internal/lossless.BuildHuffmanTableScratch»,
  dep.«internal/lossless.ColorCache.HashPix»,
  dep.«internal/lossless.ColorCache.Insert»,
  dep.«internal/lossless.ColorCache.Lookup»,
  dep.«internal/lossless.Decoder.getHTreeGroup»,
  dep.«internal/lossless.Decoder.getMetaIndex»,
  dep.«internal/lossless.Decoder.huffTableScratch»,
  dep.«internal/lossless.ReadSymbol»,
  dep.«internal/lossless.accumulateHCode»,
  dep.«internal/lossless.acquireDecoder»,
  dep.«internal/lossless.addGreenToBlueAndRed»,
  dep.«internal/lossless.addPixels»,
  dep.«internal/lossless.average2»,
  dep.«internal/lossless.buildHuffmanTableSize»,
  dep.«internal/lossless.buildPackedTable»,
  dep.«internal/lossless.clampedAddSubtractFull»,
  dep.«internal/lossless.clampedAddSubtractHalf»,
  dep.«internal/lossless.colorIndexInverseTransform»,
  dep.«internal/lossless.colorSpaceInverseTransform»,
  dep.«internal/lossless.colorSpaceInverseTransformParallel»,
  dep.«internal/lossless.const:CodeLengthCodes»,
  dep.«internal/lossless.const:CodeLengthLiterals»,
  dep.«internal/lossless.const:CodeLengthRepeatCode»,
  dep.«internal/lossless.const:CodeToPlaneCodesCount»,
  dep.«internal/lossless.const:ColorIndexingTransform»,
  dep.«internal/lossless.const:CrossColorTransform»,
  dep.«internal/lossless.const:DefaultCodeLength»,
  dep.«internal/lossless.const:HuffAlpha»,
  dep.«internal/lossless.const:HuffBlue»,
  dep.«internal/lossless.const:HuffDist»,
  dep.«internal/lossless.const:HuffGreen»,
  dep.«internal/lossless.const:HuffRed»,
  dep.«internal/lossless.const:HuffmanCodesPerMetaCode»,
  dep.«internal/lossless.const:HuffmanPackedBits»,
  dep.«internal/lossless.const:HuffmanPackedTableSize»,
  dep.«internal/lossless.const:HuffmanTableBits»,
  dep.«internal/lossless.const:HuffmanTableMask»,
  dep.«internal/lossless.const:LengthsTableBits»,
  dep.«internal/lossless.const:LengthsTableMask»,
  dep.«internal/lossless.const:MaxAllowedCodeLength»,
  dep.«internal/lossless.const:MaxCacheBits»,
  dep.«internal/lossless.const:MinHuffmanBits»,
  dep.«internal/lossless.const:MinTransformBits»,
  dep.«internal/lossless.const:NumDistanceCodes»,
  dep.«internal/lossless.const:NumHuffmanBits»,
  dep.«internal/lossless.const:NumLengthCodes»,
  dep.«internal/lossless.const:NumLiteralCodes»,
  dep.«internal/lossless.const:NumTransformBits»,
  dep.«internal/lossless.const:PredictorTransform»,
  dep.«internal/lossless.const:SubtractGreenTransform»,
  dep.«internal/lossless.const:VP8LHeaderSize»,
  dep.«internal/lossless.const:VP8LImageSizeBits»,
  dep.«internal/lossless.const:VP8LMagicByte»,
  dep.«internal/lossless.const:VP8LVersion»,
  dep.«internal/lossless.const:VP8LVersionBits»,
  dep.«internal/lossless.const:bitsSpecialMarker»,
  dep.«internal/lossless.const:kHashMul»,
  dep.«internal/lossless.const:minPixelsForParallel»,
  dep.«internal/lossless.const:numArgbCacheRows»,
  dep.«internal/lossless.getARGBIndex»,
  dep.«internal/lossless.getNextKey»,
  dep.«internal/lossless.inverseTransform»,
  dep.«internal/lossless.nextTableBitSize»,
  dep.«internal/lossless.predictorInverseTransform»,
  dep.«internal/lossless.readPackedSymbols»,
  dep.«internal/lossless.releaseDecoder»,
  dep.«internal/lossless.replicateValue»,
  dep.«internal/lossless.selectPredictor»,
  dep.«internal/lossless.var:CodeLengthCodeOrder»,
  dep.«internal/lossless.var:CodeLengthExtraBits»,
  dep.«internal/lossless.var:CodeLengthRepeatOffsets»,
  dep.«internal/lossless.var:CodeToPlane»,
  dep.«internal/lossless.var:ErrBadSignature»,
  dep.«internal/lossless.var:ErrBadVersion»,
  dep.«internal/lossless.var:ErrBitstream»,
  dep.«internal/lossless.var:ErrEmptyCodeLengths»,
  dep.«internal/lossless.var:ErrInvalidTree»,
  dep.«internal/lossless.var:KLiteralMap»,
  dep.«internal/lossless.var:kBaseAlphabetSize»,
  dep.«internal/lossless.var:losslessDecoderPool»
]
-- END deps codecFrontL
def codecFrontL : List Entry := codecFrontL_roots ++ codecFrontL_deps

/-- Webp/Impl/Config.lean (header-query glue of webp.go) -/
def config_roots : List Entry := [
  fp! "webp.GetFeatures" 0x3ef20086477bf4dd,
  fp! "webp.DecodeConfig" 0x1e80bfcb198757c8,
  fp! "webp.Decode" 0xbe238ad2ba062760,
  fp! "webp.decodeBytes" 0xf741524a9c987ae2,
  fp! "webp.decodeFrame" 0x4504283f57fb7308,
  fp! "webp.decodeLossless" 0xb111a1f0359d1a1b,
  fp! "webp.readAll" 0x5cacae5d8c177606,
  fp! "webp.init" 0xff3433fac0c13526
]
-- BEGIN deps config (written by tools/update_fingerprints.py — do not edit by hand)
def config_deps : List Entry := [
  dep.«webp.DefaultOptions»,
  dep.«webp.Encode»,
  dep.«webp.buildNRGBA»,
  dep.«webp.buildYCbCr»,
  dep.«webp.cleanupTransparentAreaLossless»,
  dep.«webp.cleanupTransparentAreaLossyWith»,
  dep.«webp.const:MaxDimension»,
  dep.«webp.const:MaxInputSize»,
  dep.«webp.const:PresetDefault»,
  dep.«webp.const:PresetText»,
  dep.«webp.decodeFrameForAnimation»,
  dep.«webp.decodeLossy»,
  dep.«webp.encodeFrameForAnimation»,
  dep.«webp.encodeLossless»,
  dep.«webp.encodeLosslessToWriter»,
  dep.«webp.encodeLossyWithAlpha»,
  dep.«webp.extractAlphaWith»,
  dep.«webp.flattenBlockNRGBA»,
  dep.«webp.imageHasAlpha»,
  dep.«webp.putLE24»,
  dep.«webp.resolveAlphaCompression»,
  dep.«webp.resolveAlphaFiltering»,
  dep.«webp.resolveAlphaQuality»,
  dep.«webp.resolveQMax»,
  dep.«webp.rgbaIsOpaque»,
  dep.«webp.rgbaToNRGBA»,
  dep.«webp.sharpYUVConvert»,
  dep.«webp.simpleEncodeForAnimation»,
  dep.«webp.smoothenBlockNRGBA»,
  dep.«webp.validNRGBA»,
  dep.«webp.validRGBA»,
  dep.«webp.validateConfig»,
  dep.«webp.var:ErrNoFrames»,
  dep.«webp.var:argbPool»,
  dep.«webp.writeRIFF»,
  dep.«webp.writeRIFFExtended»,
  dep.«webp.writeRIFFSimple»,
  dep.«webp.ycbcrToNRGBA»
]
-- END deps config
def config : List Entry := config_roots ++ config_deps

/-- Webp/Impl/Demux.lean (mux.NewDemuxer) -/
def demux_roots : List Entry := [
  fp! "mux.ReadChunkHeader" 0xdc8bd880160b87ad,
  fp! "mux.ReadChunk" 0x68d92311e7e20f8e,
  fp! "mux.NewDemuxer" 0xd3b6ec9ff48e0cb1,
  fp! "mux.Demuxer.parse" 0x31bdb2d290464e5f,
  fp! "mux.Demuxer.parseSimpleVP8" 0x03e48e1a7e445a33,
  fp! "mux.Demuxer.parseSimpleVP8L" 0x47eaa26891360e5f,
  fp! "mux.Demuxer.parseExtended" 0x98370cb3cd4532ef,
  fp! "mux.Demuxer.parseANIM" 0x872f8ee713edbe88,
  fp! "mux.Demuxer.parseANMF" 0x189cba55f7c02bf0,
  fp! "mux.Demuxer.parseSingleExtendedFrame" 0x7571c52b6d8513ce,
  fp! "mux.parseVP8Dimensions" 0x268fdb7adff30e7b,
  fp! "mux.parseVP8LDimensions" 0x61f0c0845ea0b791,
  fp! "mux.frameDataHasAlpha" 0xcc46f13a018b857b,
  fp! "mux.frameDimensions" 0x38856e8b4f1fa706,
  fp! "mux.splitAlphaAndBitstream" 0x1007b96affd10327,
  fp! "mux.Demuxer.GetChunk" 0x02aa5b42e3c6e39c,
  fp! "mux.Demuxer.GetFeatures" 0x09b76449ab132c63,
  fp! "mux.Demuxer.NumFrames" 0x7d42e1587892098d,
  fp! "mux.Demuxer.Frame" 0x066de3b764574144,
  fp! "mux.Demuxer.LoopCount" 0xe9274ca29149cf17,
  fp! "mux.Demuxer.BackgroundColor" 0x6bbd28dd1c261792
]
-- BEGIN deps demux (written by tools/update_fingerprints.py — do not edit by hand)
def demux_deps : List Entry := [
  dep.«mux.const:BlendAlpha»,
  dep.«mux.const:BlendNone»,
  dep.«mux.const:DisposeBackground»,
  dep.«mux.const:DisposeNone»,
  dep.«mux.const:FormatExtended»,
  dep.«mux.const:FormatLossless»,
  dep.«mux.const:FormatLossy»,
  dep.«mux.const:flagAlpha»,
  dep.«mux.const:flagAnimation»,
  dep.«mux.const:flagEXIF»,
  dep.«mux.const:flagICCP»,
  dep.«mux.const:flagXMP»,
  dep.«mux.const:maxFrames»,
  dep.«mux.const:maxMetadataSize»,
  dep.«mux.fourCCString»,
  dep.«mux.var:ErrChunkNotFound»,
  dep.«mux.var:ErrChunkTooLarge»,
  dep.«mux.var:ErrFrameOutRange»,
  dep.«mux.var:ErrInvalidANIM»,
  dep.«mux.var:ErrInvalidANMF»,
  dep.«mux.var:ErrInvalidChunkHeader»,
  dep.«mux.var:ErrInvalidFrame»,
  dep.«mux.var:ErrInvalidRIFF»,
  dep.«mux.var:ErrInvalidVP8X»,
  dep.«mux.var:ErrMetadataTooLarge»,
  dep.«mux.var:ErrNoImage»,
  dep.«mux.var:ErrTooManyFrames»,
  dep.«mux.var:ErrTruncated»,
  dep.«mux.var:FourCCALPH»,
  dep.«mux.var:FourCCANIM»,
  dep.«mux.var:FourCCANMF»,
  dep.«mux.var:FourCCEXIF»,
  dep.«mux.var:FourCCICCP»,
  dep.«mux.var:FourCCRIFF»,
  dep.«mux.var:FourCCVP8»,
  dep.«mux.var:FourCCVP8L»,
  dep.«mux.var:FourCCVP8X»,
  dep.«mux.var:FourCCWEBP»,
  dep.«mux.var:FourCCXMP»
]
-- END deps demux
def demux : List Entry := demux_roots ++ demux_deps

/-- Webp/Impl/Import.lean (every place that reads pixels out of the caller's image) -/
def importPix_roots : List Entry := [
  fp! "webp.validNRGBA" 0x0e2d86462118b20b,
  fp! "webp.validRGBA" 0x7abbe05cc21ac79f,
  fp! "webp.rgbaIsOpaque" 0x3ed934f2ea928e7c,
  fp! "webp.rgbaToNRGBA" 0x11f368d18243aaa2,
  fp! "webp.encodeLossless" 0x6c24a9390e67cfb9,
  fp! "webp.encodeLosslessToWriter" 0x8286e0b6f714af06,
  fp! "webp.imageHasAlpha" 0xeb9a644ac8463430,
  fp! "webp.extractAlphaWith" 0xc43ac4477c1543f8,
  fp! "webp.cleanupTransparentAreaLossy" 0x81a9e1b9dd4f1d8f,
  fp! "webp.cleanupTransparentAreaLossyWith" 0xcd1ba902115978a8,
  fp! "webp.smoothenBlockNRGBA" 0x01128043f846d8ed,
  fp! "webp.flattenBlockNRGBA" 0xe455778406f45ea6,
  fp! "webp.cleanupTransparentAreaLossless" 0xd627a929fac7ead8,
  fp! "webp.sharpYUVConvert" 0x890569e2b5163fdb,
  fp! "internal/lossy.imageHasAlpha" 0xe14937ed8e191b9a,
  fp! "internal/lossy.VP8Encoder.importImage" 0xdcbead9ae5c81b42,
  fp! "internal/lossy.VP8Encoder.importYCbCr" 0x2c90d78613403233,
  fp! "internal/lossy.getImportUVWorker" 0xa690f484de048da3,
  fp! "internal/dsp.RandomBits" 0x3ba30af3b22302b0,
  fp! "internal/dsp.RandomBits2" 0x6069485d3343bdb3
]
-- BEGIN deps importPix (written by tools/update_fingerprints.py — do not edit by hand)
def importPix_deps : List Entry := [
  dep.«internal/dsp.const:vp8RandomDitherFix»,
  dep.«internal/dsp.const:vp8RandomTableSize»,
  dep.«internal/lossy.var:importUVWorkerPool»,
  dep.«webp.var:argbPool»
]
-- END deps importPix
def importPix : List Entry := importPix_roots ++ importPix_deps

/-- Webp/Impl/Mux.lean (mux.Muxer as a state machine, Assemble) -/
def muxer_roots : List Entry := [
  fp! "mux.NewMuxer" 0x9f13310eaba2db8d,
  fp! "mux.Muxer.SetICCProfile" 0x752fe4c0aeb73945,
  fp! "mux.Muxer.SetEXIF" 0x3b847c6a8f55c9bc,
  fp! "mux.Muxer.SetXMP" 0xaba8198155cf45d5,
  fp! "mux.Muxer.SetBackgroundColor" 0xfa764e2934455beb,
  fp! "mux.Muxer.SetLoopCount" 0xf5b506147117fcff,
  fp! "mux.Muxer.SetCanvasSize" 0x7f5e68691fc0b70b,
  fp! "mux.clampDuration" 0x5995aa90fb914945,
  fp! "mux.Muxer.AddFrame" 0xc94aac49361eb33a,
  fp! "mux.Muxer.SetFrameDisposeMode" 0xea99ac171ca7993d,
  fp! "mux.Muxer.SetFrameDuration" 0x852aef7dc0230135,
  fp! "mux.Muxer.FrameDuration" 0x1fc3dea3fb265410,
  fp! "mux.Muxer.FrameBlendMode" 0x1362300eb8bbd941,
  fp! "mux.Muxer.NumFrames" 0x2a6c06d9445db642,
  fp! "mux.Muxer.AddChunk" 0x1f2e59fd6f4305bc,
  fp! "mux.Muxer.isAnimated" 0x40f794617d816244,
  fp! "mux.Muxer.needsVP8X" 0x33e09b923f0d5577,
  fp! "mux.Muxer.hasDistinctCanvas" 0x4629156a5d39a06e,
  fp! "mux.Muxer.hasAlphaChunk" 0xecbfcd43a3afa5c6,
  fp! "mux.Muxer.Assemble" 0x205889e1f2db223c,
  fp! "mux.Muxer.validate" 0xe2839dbb341a026e,
  fp! "mux.Muxer.hasAlpha" 0xd5d4b2f75b38fd5c,
  fp! "mux.Muxer.assembleSimple" 0xdb809244c5194308,
  fp! "mux.Muxer.assembleExtended" 0xb697a6101778ff7c,
  fp! "mux.splitAlphaAndBitstream" 0x1007b96affd10327,
  fp! "mux.Muxer.writeANMFChunk" 0xf123819aadca3c0d,
  fp! "mux.Muxer.canvasSize" 0x8bd0cf6f9bfdae4b,
  fp! "mux.frameDimensions" 0x38856e8b4f1fa706,
  fp! "mux.detectBitstreamType" 0x30bcf9f9e1eb55d5,
  fp! "mux.frameSubChunksSize" 0xd6be2256e98a5d5b,
  fp! "mux.subChunkSize" 0x0973f4937abeb2ba,
  fp! "mux.chunkTotalSize" 0x0a45fa5968fe1de3,
  fp! "mux.writeDataChunk" 0x22df9bd4c1606da2,
  fp! "mux.putLE24" 0xa5105e69c50efca9,
  fp! "mux.writeChunkHeader" 0x4e4654c91c97dc4f
]
-- BEGIN deps muxer (written by tools/update_fingerprints.py — do not edit by hand)
def muxer_deps : List Entry := [
  dep.«mux.const:BlendAlpha»,
  dep.«mux.const:BlendNone»,
  dep.«mux.const:DisposeBackground»,
  dep.«mux.const:flagAlpha»,
  dep.«mux.const:flagAnimation»,
  dep.«mux.const:flagEXIF»,
  dep.«mux.const:flagICCP»,
  dep.«mux.const:flagXMP»,
  dep.«mux.const:maxDuration»,
  dep.«mux.const:maxLoopCount»,
  dep.«mux.const:maxMetadataSize»,
  dep.«mux.parseVP8Dimensions»,
  dep.«mux.parseVP8LDimensions»,
  dep.«mux.var:ErrFrameEmpty»,
  dep.«mux.var:ErrInvalidFrame»,
  dep.«mux.var:ErrMuxValidation»,
  dep.«mux.var:ErrNoFrames»,
  dep.«mux.var:FourCCALPH»,
  dep.«mux.var:FourCCANIM»,
  dep.«mux.var:FourCCANMF»,
  dep.«mux.var:FourCCEXIF»,
  dep.«mux.var:FourCCICCP»,
  dep.«mux.var:FourCCRIFF»,
  dep.«mux.var:FourCCVP8»,
  dep.«mux.var:FourCCVP8L»,
  dep.«mux.var:FourCCVP8X»,
  dep.«mux.var:FourCCWEBP»,
  dep.«mux.var:FourCCXMP»
]
-- END deps muxer
def muxer : List Entry := muxer_roots ++ muxer_deps

/-- Webp/Impl/Opts.lean (option handling of encode.go) -/
def opts_roots : List Entry := [
  fp! "webp.DefaultOptions" 0x53d9fac968b32db8,
  fp! "webp.OptionsForPreset" 0x082ea38bd4fb5ca2,
  fp! "webp.validateConfig" 0xa6eaf5880aafb153,
  fp! "webp.resolveSNSStrength" 0xccc47825970bd500,
  fp! "webp.resolveFilterStrength" 0xdc0069e5d3a936a0,
  fp! "webp.resolveFilterType" 0xac74aaf65d2adcd0,
  fp! "webp.resolveSegments" 0xdbb85bbf36675ca9,
  fp! "webp.resolvePass" 0xec0c3faa6d05ecef,
  fp! "webp.resolveQMax" 0xdeb8bcc08bfa7566,
  fp! "webp.resolveAlphaCompression" 0x51fbf9804a5d9271,
  fp! "webp.resolveAlphaFiltering" 0x4f12e7e5864c74cd,
  fp! "webp.resolveAlphaQuality" 0xec83d6f3bf8a094e,
  fp! "webp.Encode" 0x8e4ded1f16dc5c62,
  fp! "webp.encodeLossyWithAlpha" 0x08226ead4703904f,
  fp! "webp.encodeLossy" 0x008407f1596aa1cc,
  fp! "webp.encodeLossless" 0x6c24a9390e67cfb9,
  fp! "webp.encodeLosslessToWriter" 0x8286e0b6f714af06,
  fp! "webp.imageHasAlpha" 0xeb9a644ac8463430,
  fp! "internal/lossy.DefaultConfig" 0x5a579fd3528df278,
  fp! "internal/lossy.NewEncoder" 0x242437fa11374545,
  fp! "internal/lossy.VP8Encoder.initEncoderParams" 0xa12e062c76e89079,
  fp! "internal/lossless.Encode" 0xc7e5c5025edd39bb,
  fp! "internal/lossless.EncodeToWriter" 0x5cc4843276807858,
  fp! "internal/lossless.DefaultEncoderConfig" 0xbc0fdbec252f99bf,
  fp! "animation.NewEncoder" 0x87445bda2a3edb65
]
-- BEGIN deps opts (written by tools/update_fingerprints.py — do not edit by hand)
def opts_deps : List Entry := [
  dep.«animation.clampLoopCount»,
  dep.«animation.const:maxCanvasDimension»,
  dep.«animation.const:maxLoopCount»,
  dep.«animation.nrgbaToARGB»,
  dep.«animation.sanitizeKeyframeOptions»,
  dep.«internal/lossless.ApplyNearLossless»,
  dep.«internal/lossless.ApplyPaletteTransform»,
  dep.«internal/lossless.BackwardReferences2DLocality»,
  dep.«internal/lossless.BackwardReferencesLz77»,
  dep.«internal/lossless.BackwardReferencesLz77Box»,
  dep.«internal/lossless.BackwardReferencesRle»,
  dep.«internal/lossless.BackwardRefs.Add»,
  dep.«internal/lossless.BackwardRefs.Len»,
  dep.«internal/lossless.BackwardRefs.Refs»,
  dep.«internal/lossless.BackwardRefs.Reset»,
  dep.«internal/lossless.BackwardRefsWithLocalCache»,
  dep.«internal/lossless.BuildCodeLengthTokens»,
  dep.«internal/lossless.BuildCodeLengthTokensScratch»,
  dep.«internal/lossless.CachePixel»,
  dep.«internal/lossless.CalculateBestCacheSize»,
  dep.«internal/lossless.ColorCache.Contains»,
  dep.«internal/lossless.ColorCache.HashPix»,
  dep.«internal/lossless.ColorCache.Insert»,
  dep.«internal/lossless.ColorCache.Lookup»,
  dep.«internal/lossless.ColorCache.Reset»,
  dep.«internal/lossless.ColorIndexBuild»,
  dep.«internal/lossless.ColorSpaceTransform»,
  dep.«internal/lossless.CopyPixel»,
  dep.«internal/lossless.CreateHuffmanTreeScratch»,
  dep.«internal/lossless.DistanceToPlaneCode»,
  dep.«internal/lossless.Encoder.analyze»,
  dep.«internal/lossless.Encoder.applyPaletteTransform»,
  dep.«internal/lossless.Encoder.applyTransforms»,
  dep.«internal/lossless.Encoder.encodePalette»,
  dep.«internal/lossless.Encoder.encodeStream»,
  dep.«internal/lossless.Encoder.encodeSubImage»,
  dep.«internal/lossless.Encoder.storeImageData»,
  dep.«internal/lossless.Encoder.storeSubImageData»,
  dep.«internal/lossless.Encoder.writeTransformData»,
  dep.«internal/lossless.GetBackwardReferences»,
  dep.«internal/lossless.GetBackwardReferencesWithScratch»,
  dep.«internal/lossless.GetHistoImageSymbols»,
  dep.«internal/lossless.GetWindowSizeForHashChain»,
  dep.«internal/lossless.HashChain.Fill»,
  dep.«internal/lossless.HashChain.GetLength»,
  dep.«internal/lossless.HashChain.GetOffset»,
  dep.«internal/lossless.HashChain.fillParallel»,
  dep.«internal/lossless.HashChain.fillSerial»,
  dep.«internal/lossless.HistoSet.Get»,
  dep.«internal/lossless.HistoSet.Size»,
  dep.«internal/lossless.HistoSet.clearAll»,
  dep.«internal/lossless.HistoSet.remove»,
  dep.«internal/lossless.Histogram.AddRefs»,
  dep.«internal/lossless.Histogram.AddSingle»,
  dep.«internal/lossless.Histogram.Clear»,
  dep.«internal/lossless.Histogram.computeHistogramCost»,
  dep.«internal/lossless.Histogram.copyFrom»,
  dep.«internal/lossless.Histogram.population»,
  dep.«internal/lossless.Histogram.resetStats»,
  dep.«internal/lossless.HuffmanScratch.AllocTree»,
  dep.«internal/lossless.HuffmanScratch.ResetTreePool»,
  dep.«internal/lossless.LiteralPixel»,
  dep.«internal/lossless.NearLosslessBits»,
  dep.«internal/lossless.NewBackwardRefs»,
  dep.«internal/lossless.NewColorCache»,
  dep.«internal/lossless.NewHashChain»,
  dep.«internal/lossless.NewHistogram»,
  dep.«internal/lossless.PixOrCopy.Argb»,
  dep.«internal/lossless.PixOrCopy.CacheIndex»,
  dep.«internal/lossless.PixOrCopy.Distance»,
  dep.«internal/lossless.PixOrCopy.IsCacheIdx»,
  dep.«internal/lossless.PixOrCopy.IsCopy»,
  dep.«internal/lossless.PixOrCopy.IsLiteral»,
  dep.«internal/lossless.PixOrCopy.Length»,
  dep.«internal/lossless.PopulationCost»,
  dep.«internal/lossless.PrefixEncodeBitsNoLUT»,
  dep.«internal/lossless.PrefixEncodeNoLUT»,
  dep.«internal/lossless.ResidualImage»,
  dep.«internal/lossless.ReuseColorCache»,
  dep.«internal/lossless.StoreHuffmanCodeScratch»,
  dep.«internal/lossless.StoreHuffmanTreeOfHuffmanTreeToBitMask»,
  dep.«internal/lossless.StoreHuffmanTreeToBitMask»,
  dep.«internal/lossless.SubtractGreen»,
  dep.«internal/lossless.VP8LSubSampleSize»,
  dep.«internal/lossless.acquireEncoder»,
  dep.«internal/lossless.addSingleLiteralWithCostModel»,
  dep.«internal/lossless.allocateHistoSetReuse»,
  dep.«internal/lossless.applyColorTransformPixel»,
  dep.«internal/lossless.applyColorTransformTile»,
  dep.«internal/lossless.argbHasAlpha»,
  dep.«internal/lossless.assignCodeLengths»,
  dep.«internal/lossless.avg2»,
  dep.«internal/lossless.backwardReferencesHashChainDistanceOnly»,
  dep.«internal/lossless.backwardReferencesHashChainFollowChosenPath»,
  dep.«internal/lossless.backwardReferencesTraceBackwardsWithDist»,
  dep.«internal/lossless.bitsEntropyRefine»,
  dep.«internal/lossless.bitsLog2Floor»,
  dep.«internal/lossless.buildTreeAndExtractLengths»,
  dep.«internal/lossless.cacheBitsForEncoder»,
  dep.«internal/lossless.clampAddSubFull»,
  dep.«internal/lossless.clampAddSubHalf»,
  dep.«internal/lossless.clampBits»,
  dep.«internal/lossless.clampByte»,
  dep.«internal/lossless.clearHuffmanTreeIfOnlyOneSymbol»,
  dep.«internal/lossless.closestDiscretizedArgb»,
  dep.«internal/lossless.codeRepeatedValues»,
  dep.«internal/lossless.codeRepeatedZeros»,
  dep.«internal/lossless.const:ARGBBlack»,
  dep.«internal/lossless.const:CodeLengthCodes»,
  dep.«internal/lossless.const:CodeLengthRepeatCode»,
  dep.«internal/lossless.const:CodeToPlaneCodesCount»,
  dep.«internal/lossless.const:ColorIndexingTransform»,
  dep.«internal/lossless.const:CrossColorTransform»,
  dep.«internal/lossless.const:HuffmanCodesPerMetaCode»,
  dep.«internal/lossless.const:MaxAllowedCodeLength»,
  dep.«internal/lossless.const:MaxCacheBits»,
  dep.«internal/lossless.const:MaxPaletteSize»,
  dep.«internal/lossless.const:MinHuffmanBits»,
  dep.«internal/lossless.const:MinTransformBits»,
  dep.«internal/lossless.const:NumDistanceCodes»,
  dep.«internal/lossless.const:NumHuffmanBits»,
  dep.«internal/lossless.const:NumLengthCodes»,
  dep.«internal/lossless.const:NumLiteralCodes»,
  dep.«internal/lossless.const:NumTransformBits»,
  dep.«internal/lossless.const:PredictorTransform»,
  dep.«internal/lossless.const:SubtractGreenTransform»,
  dep.«internal/lossless.const:TransformPresent»,
  dep.«internal/lossless.const:VP8LImageSizeBits»,
  dep.«internal/lossless.const:VP8LMagicByte»,
  dep.«internal/lossless.const:VP8LVersion»,
  dep.«internal/lossless.const:VP8LVersionBits»,
  dep.«internal/lossless.const:binSize»,
  dep.«internal/lossless.const:costCacheIntervalSizeMax»,
  dep.«internal/lossless.const:fastSLog2LUTSize»,
  dep.«internal/lossless.const:hashBits»,
  dep.«internal/lossless.const:hashSize»,
  dep.«internal/lossless.const:histAlpha»,
  dep.«internal/lossless.const:histBlue»,
  dep.«internal/lossless.const:histDistance»,
  dep.«internal/lossless.const:histLiteral»,
  dep.«internal/lossless.const:histRed»,
  dep.«internal/lossless.const:kHashMul»,
  dep.«internal/lossless.const:kHashMultiplierHi»,
  dep.«internal/lossless.const:kHashMultiplierLo»,
  dep.«internal/lossless.const:kLZ77Box»,
  dep.«internal/lossless.const:kLZ77RLE»,
  dep.«internal/lossless.const:kLZ77Standard»,
  dep.«internal/lossless.const:maxColorCacheBitsEnc»,
  dep.«internal/lossless.const:maxHistoGreedy»,
  dep.«internal/lossless.const:maxHuffImageSize»,
  dep.«internal/lossless.const:maxHuffmanBits»,
  dep.«internal/lossless.const:maxLength»,
  dep.«internal/lossless.const:maxLengthBits»,
  dep.«internal/lossless.const:maxLimitBits»,
  dep.«internal/lossless.const:minDimForNearLossless»,
  dep.«internal/lossless.const:minLength»,
  dep.«internal/lossless.const:modeCacheIdx»,
  dep.«internal/lossless.const:modeCopy»,
  dep.«internal/lossless.const:modeLiteral»,
  dep.«internal/lossless.const:nonTrivialSym»,
  dep.«internal/lossless.const:numPartitions»,
  dep.«internal/lossless.const:numPredictors»,
  dep.«internal/lossless.const:windowOffsetsMaxSize»,
  dep.«internal/lossless.const:windowSize»,
  dep.«internal/lossless.const:windowSizeBits»,
  dep.«internal/lossless.convertPopulationCountToBitEstimates»,
  dep.«internal/lossless.copyImageWithPrediction»,
  dep.«internal/lossless.costManager.allocInterval»,
  dep.«internal/lossless.costManager.connectIntervals»,
  dep.«internal/lossless.costManager.freeInterval»,
  dep.«internal/lossless.costManager.insertInterval»,
  dep.«internal/lossless.costManager.popInterval»,
  dep.«internal/lossless.costManager.positionOrphanInterval»,
  dep.«internal/lossless.costManager.pushInterval»,
  dep.«internal/lossless.costManager.updateCost»,
  dep.«internal/lossless.costManager.updateCostAtIndex»,
  dep.«internal/lossless.costManager.updateCostPerInterval»,
  dep.«internal/lossless.costModelTrace.build»,
  dep.«internal/lossless.costModelTrace.getCacheCost»,
  dep.«internal/lossless.costModelTrace.getDistanceCost»,
  dep.«internal/lossless.costModelTrace.getLengthCost»,
  dep.«internal/lossless.costModelTrace.getLiteralCost»,
  dep.«internal/lossless.dominantCostRange.update»,
  dep.«internal/lossless.encColorTransformDelta»,
  dep.«internal/lossless.estimateEntropy»,
  dep.«internal/lossless.extraCost»,
  dep.«internal/lossless.extractClusterCenters»,
  dep.«internal/lossless.fastSLog2»,
  dep.«internal/lossless.fillMatchRange»,
  dep.«internal/lossless.finalHuffmanCost»,
  dep.«internal/lossless.findBestMultiplier»,
  dep.«internal/lossless.findBestMultipliers»,
  dep.«internal/lossless.findClosestDiscretized»,
  dep.«internal/lossless.findMatchLength»,
  dep.«internal/lossless.fixPair»,
  dep.«internal/lossless.generateCanonicalCodes»,
  dep.«internal/lossless.getBinIDForEntropy»,
  dep.«internal/lossless.getCombineCostFactor»,
  dep.«internal/lossless.getCombinedEntropy»,
  dep.«internal/lossless.getCombinedEntropyUnrefined»,
  dep.«internal/lossless.getCombinedHistogramEntropy»,
  dep.«internal/lossless.getEntropyUnrefined»,
  dep.«internal/lossless.getEntropyUnrefinedHelper»,
  dep.«internal/lossless.getHistoBinIndex»,
  dep.«internal/lossless.getHistoBits»,
  dep.«internal/lossless.getMaxItersForQuality»,
  dep.«internal/lossless.getPixPairHash64»,
  dep.«internal/lossless.getPixPairHash64Values»,
  dep.«internal/lossless.getTransformBits»,
  dep.«internal/lossless.histoQueue.popAt»,
  dep.«internal/lossless.histoQueue.push»,
  dep.«internal/lossless.histoQueue.size»,
  dep.«internal/lossless.histoQueue.updateHead»,
  dep.«internal/lossless.histogramAdd»,
  dep.«internal/lossless.histogramAddEvalThresh»,
  dep.«internal/lossless.histogramAddThresh»,
  dep.«internal/lossless.histogramBuild»,
  dep.«internal/lossless.histogramCombineEntropyBin»,
  dep.«internal/lossless.histogramCombineGreedy»,
  dep.«internal/lossless.histogramCombineStochastic»,
  dep.«internal/lossless.histogramEstimateBitsFromRefsScratch»,
  dep.«internal/lossless.histogramEstimateBitsUint64»,
  dep.«internal/lossless.histogramNumCodes»,
  dep.«internal/lossless.histogramRemap»,
  dep.«internal/lossless.initialHuffmanCost»,
  dep.«internal/lossless.isNear»,
  dep.«internal/lossless.isSmooth»,
  dep.«internal/lossless.lehmerRand»,
  dep.«internal/lossless.maxFindCopyLength»,
  dep.«internal/lossless.multiplierCost»,
  dep.«internal/lossless.nearLosslessPass»,
  dep.«internal/lossless.newCostManager»,
  dep.«internal/lossless.newCostModelTrace»,
  dep.«internal/lossless.newDominantCostRange»,
  dep.«internal/lossless.nodeHeap.Len»,
  dep.«internal/lossless.nodeHeap.heapInit»,
  dep.«internal/lossless.nodeHeap.less»,
  dep.«internal/lossless.nodeHeap.pop»,
  dep.«internal/lossless.nodeHeap.push»,
  dep.«internal/lossless.nodeHeap.siftDown»,
  dep.«internal/lossless.nodeHeap.swap»,
  dep.«internal/lossless.optimizeSampling»,
  dep.«internal/lossless.packMultipliers»,
  dep.«internal/lossless.paletteCodeBits»,
  dep.«internal/lossless.parallelComputeHistogramCost»,
  dep.«internal/lossless.populationCost»,
  dep.«internal/lossless.predictPixel»,
  dep.«internal/lossless.releaseEncoder»,
  dep.«internal/lossless.removeUnusedHistograms»,
  dep.«internal/lossless.reverseBits»,
  dep.«internal/lossless.selectPred»,
  dep.«internal/lossless.storeFullHuffmanCodeScratch»,
  dep.«internal/lossless.storeSimpleHuffmanCode»,
  dep.«internal/lossless.subPixels»,
  dep.«internal/lossless.subPixelsEnc»,
  dep.«internal/lossless.tileTracker.merge»,
  dep.«internal/lossless.tileTracker.swapRemove»,
  dep.«internal/lossless.traceBackwards»,
  dep.«internal/lossless.var:CodeLengthCodeOrder»,
  dep.«internal/lossless.var:CodeLengthExtraBits»,
  dep.«internal/lossless.var:ErrImageTooLarge»,
  dep.«internal/lossless.var:fastSLog2LUT»,
  dep.«internal/lossless.var:losslessEncoderPool»,
  dep.«internal/lossless.var:multiplierDeltaByteLUT»,
  dep.«internal/lossless.var:planeToCodeLUT»,
  dep.«internal/lossless.writeHuffmanCode»,
  dep.«internal/lossy.ResetProba»,
  dep.«internal/lossy.TokenBuffer.Init»,
  dep.«internal/lossy.TokenBuffer.Reset»,
  dep.«internal/lossy.TokenBuffer.addPage»,
  dep.«internal/lossy.VP8Encoder.allocateBuffers»,
  dep.«internal/lossy.VP8Encoder.importImage»,
  dep.«internal/lossy.VP8Encoder.initSegments»,
  dep.«internal/lossy.VP8Encoder.resetForReuse»,
  dep.«internal/lossy.clampInt»,
  dep.«internal/lossy.const:BPS»,
  dep.«internal/lossy.const:MaxNumPartitions»,
  dep.«internal/lossy.const:NumBands»,
  dep.«internal/lossy.const:NumCTX»,
  dep.«internal/lossy.const:NumMBSegments»,
  dep.«internal/lossy.const:NumProbas»,
  dep.«internal/lossy.const:NumTypes»,
  dep.«internal/lossy.const:YUVSize»,
  dep.«internal/lossy.getImportUVWorker»,
  dep.«internal/lossy.imageHasAlpha»,
  dep.«internal/lossy.initSegmentQuant»,
  dep.«internal/lossy.maxInt»,
  dep.«internal/lossy.qualityToCompression»,
  dep.«internal/lossy.qualityToQIndex»,
  dep.«internal/lossy.setupSegment»,
  dep.«internal/lossy.var:CoeffsProba0»,
  dep.«internal/lossy.var:KAcTable»,
  dep.«internal/lossy.var:KAcTable2»,
  dep.«internal/lossy.var:KBands»,
  dep.«internal/lossy.var:KDcTable»,
  dep.«internal/lossy.var:encoderPool»,
  dep.«internal/lossy.var:importUVWorkerPool»,
  dep.«internal/lossy.var:kBiasMatrices»,
  dep.«internal/lossy.var:kFreqSharpening»,
  dep.«webp.cleanupTransparentAreaLossless»,
  dep.«webp.cleanupTransparentAreaLossyWith»,
  dep.«webp.const:MaxDimension»,
  dep.«webp.const:PresetDefault»,
  dep.«webp.const:PresetDrawing»,
  dep.«webp.const:PresetIcon»,
  dep.«webp.const:PresetPhoto»,
  dep.«webp.const:PresetPicture»,
  dep.«webp.const:PresetText»,
  dep.«webp.extractAlphaWith»,
  dep.«webp.flattenBlockNRGBA»,
  dep.«webp.putLE24»,
  dep.«webp.rgbaIsOpaque»,
  dep.«webp.rgbaToNRGBA»,
  dep.«webp.sharpYUVConvert»,
  dep.«webp.smoothenBlockNRGBA»,
  dep.«webp.validNRGBA»,
  dep.«webp.validRGBA»,
  dep.«webp.var:argbPool»,
  dep.«webp.writeRIFF»,
  dep.«webp.writeRIFFExtended»,
  dep.«webp.writeRIFFSimple»
]
-- END deps opts
def opts : List Entry := opts_roots ++ opts_deps

/-- Webp/Impl/Parser.lean (container.NewParser) -/
def parser_roots : List Entry := [
  fp! "internal/container.FourCC" 0x64b4671b43fd1c8c,
  fp! "internal/container.ReadLE16" 0x5fd0395e7048a4d2,
  fp! "internal/container.ReadLE32" 0x19f762b304399c71,
  fp! "internal/container.NewParser" 0x29a84977fccb746b,
  fp! "internal/container.Parser.parse" 0xbf20ea0cc00851ef,
  fp! "internal/container.Parser.parseSingleImage" 0xa414498f05508bb2,
  fp! "internal/container.Parser.parseVP8X" 0x3f10af3a5714ad57,
  fp! "internal/container.Parser.parseVP8XChunks" 0x9a25964109be743b,
  fp! "internal/container.Parser.parseExtSingleImage" 0xc520815921d9d0d6,
  fp! "internal/container.parseANMF" 0x5a4380b6a9e1f78c,
  fp! "internal/container.parseFrameSubChunks" 0xaa752e92b1a69f2a,
  fp! "internal/container.parseVP8Header" 0xf6c3e6531ba8cf28,
  fp! "internal/container.parseVP8LHeader" 0xb25f9677830bb2af,
  fp! "internal/container.readLE24" 0x7f1ec596bb0ea703,
  fp! "internal/container.copyBytes" 0x37f4be8a200ee277,
  fp! "internal/container.ParseRIFFHeader" 0x43925edc027086fc,
  fp! "internal/container.ReadChunkHeader" 0x22074fa78e232bc9,
  fp! "internal/container.PaddedSize" 0x8795090f2fd902f7
]
-- BEGIN deps parser (written by tools/update_fingerprints.py — do not edit by hand)
def parser_deps : List Entry := [
  dep.«internal/container.FourCCString»,
  dep.«internal/container.const:ANIMChunkSize»,
  dep.«internal/container.const:ANMFChunkSize»,
  dep.«internal/container.const:AllValidFlags»,
  dep.«internal/container.const:AlphaFlag»,
  dep.«internal/container.const:AnimationFlag»,
  dep.«internal/container.const:BlendNone»,
  dep.«internal/container.const:ChunkHeaderSize»,
  dep.«internal/container.const:DisposeBackground»,
  dep.«internal/container.const:EXIFFlag»,
  dep.«internal/container.const:FormatVP8»,
  dep.«internal/container.const:FormatVP8L»,
  dep.«internal/container.const:FormatVP8X»,
  dep.«internal/container.const:ICCPFlag»,
  dep.«internal/container.const:MaxChunkPayload»,
  dep.«internal/container.const:MaxChunks»,
  dep.«internal/container.const:MaxFrames»,
  dep.«internal/container.const:MaxImageArea»,
  dep.«internal/container.const:MaxMetadataSize»,
  dep.«internal/container.const:RIFFHeaderSize»,
  dep.«internal/container.const:VP8FrameHeaderSize»,
  dep.«internal/container.const:VP8LFrameHeaderSize»,
  dep.«internal/container.const:VP8LMagicByte»,
  dep.«internal/container.const:VP8LVersion»,
  dep.«internal/container.const:VP8Signature»,
  dep.«internal/container.const:VP8XChunkSize»,
  dep.«internal/container.const:XMPFlag»,
  dep.«internal/container.var:ErrInvalidChunk»,
  dep.«internal/container.var:ErrInvalidFlags»,
  dep.«internal/container.var:ErrInvalidImage»,
  dep.«internal/container.var:ErrInvalidRIFF»,
  dep.«internal/container.var:ErrInvalidVP8X»,
  dep.«internal/container.var:ErrInvalidWebP»,
  dep.«internal/container.var:ErrTooLarge»,
  dep.«internal/container.var:ErrTruncated»,
  dep.«internal/container.var:ErrUnsupported»,
  dep.«internal/container.var:FourCCALPH»,
  dep.«internal/container.var:FourCCANIM»,
  dep.«internal/container.var:FourCCANMF»,
  dep.«internal/container.var:FourCCEXIF»,
  dep.«internal/container.var:FourCCICCP»,
  dep.«internal/container.var:FourCCRIFF»,
  dep.«internal/container.var:FourCCVP8»,
  dep.«internal/container.var:FourCCVP8L»,
  dep.«internal/container.var:FourCCVP8X»,
  dep.«internal/container.var:FourCCWEBP»,
  dep.«internal/container.var:FourCCXMP»
]
-- END deps parser
def parser : List Entry := parser_roots ++ parser_deps

/-- Webp/Impl/Partition.lean + Webp/Impl/GomaxprocsSites.lean (WaitGroup fan-outs and their index ranges) -/
def partition_roots : List Entry := [
  fp! "animation.Animation.DecodeFramesParallel" 0xc909414b1409d41b,
  fp! "internal/lossless.argbToNRGBA" 0x83b414181bfe68b3,
  fp! "internal/lossless.argbToNRGBARows" 0xf8fd6c00764f6b0a,
  fp! "internal/lossless.inverseTransform" 0xf8d7cd3656e7c5a1,
  fp! "internal/lossless.colorSpaceInverseTransformParallel" 0xc8613aa706e393bc,
  fp! "internal/lossless.colorSpaceInverseTransform" 0xa54855962ec555e3,
  fp! "internal/lossless.findBestMultipliers" 0xbfb0d6bef532050a,
  fp! "internal/lossless.findBestMultiplier" 0x136fd7681750614c,
  fp! "internal/lossless.multiplierCost" 0x816943bd0303281e,
  fp! "internal/lossless.histogramRemap" 0x864f3b324bdf4c37,
  fp! "internal/lossless.parallelComputeHistogramCost" 0x8dfdc93d537930ee,
  fp! "internal/lossless.ResidualImage" 0x61fc2ce633a8ff06,
  fp! "internal/lossless.ColorSpaceTransform" 0xafd9d90b258e6b34,
  fp! "internal/lossless.HashChain.Fill" 0x31868e57d6b7da4b,
  fp! "internal/lossless.HashChain.fillParallel" 0x7faa9efe4e666803,
  fp! "internal/lossless.HashChain.fillSerial" 0xdd3f8c0ca622e8a4,
  fp! "internal/lossy.VP8Encoder.importImage" 0xdcbead9ae5c81b42,
  fp! "internal/lossy.computeAlphas" 0x060c454d74a79b24,
  fp! "internal/lossy.computeAlphasSerial" 0xf39bf9017e8e2182,
  fp! "internal/lossy.VP8Encoder.encodeFrameParallel" 0xe9284025720335ec,
  fp! "internal/lossy.VP8Encoder.EncodeFrame" 0xa0bfd91be2c1e645,
  fp! "internal/lossless.GetHistoImageSymbols" 0xd86eb4566668ab72,
  fp! "internal/lossless.removeUnusedHistograms" 0xfb81932011c19abc,
  fp! "internal/lossless.histogramCombineEntropyBin" 0x264ebfc2d8159aec,
  fp! "internal/lossless.histogramCombineStochastic" 0x92242ba403bf0f68,
  fp! "internal/lossless.histogramCombineGreedy" 0x73e984e3ef951cbd,
  fp! "internal/lossless.fillMatchRange" 0x980166b6afac43e5,
  fp! "internal/lossless.GetWindowSizeForHashChain" 0x4f7f82b258661408,
  fp! "internal/lossless.copyImageWithPrediction" 0x15470999fec8cb33,
  fp! "internal/lossy.computeMBAlphaDCTWith" 0xff5a35593297b89e,
  fp! "internal/lossy.computeMBUVAlphaDCTWith" 0x074967e7fd802c84,
  fp! "internal/lossy.collectHistogramAlphaWith" 0x285f0ff0b03ce473
]
-- BEGIN deps partition (written by tools/update_fingerprints.py — do not edit by hand)
def partition_deps : List Entry := [
  dep.«animation.Animation.DecodeFrames»,
  dep.«animation.var:ErrNoDecoder»,
  dep.«animation.var:FrameDecoderFunc»,
  dep.«internal/lossless.HistoSet.clearAll»,
  dep.«internal/lossless.HistoSet.remove»,
  dep.«internal/lossless.Histogram.AddSingle»,
  dep.«internal/lossless.Histogram.Clear»,
  dep.«internal/lossless.Histogram.computeHistogramCost»,
  dep.«internal/lossless.Histogram.copyFrom»,
  dep.«internal/lossless.Histogram.population»,
  dep.«internal/lossless.Histogram.resetStats»,
  dep.«internal/lossless.NewHistogram»,
  dep.«internal/lossless.PixOrCopy.Argb»,
  dep.«internal/lossless.PixOrCopy.CacheIndex»,
  dep.«internal/lossless.PixOrCopy.Distance»,
  dep.«internal/lossless.PixOrCopy.IsCacheIdx»,
  dep.«internal/lossless.PixOrCopy.IsCopy»,
  dep.«internal/lossless.PixOrCopy.IsLiteral»,
  dep.«internal/lossless.PixOrCopy.Length»,
  dep.«internal/lossless.PrefixEncodeBitsNoLUT»,
  dep.«internal/lossless.VP8LSubSampleSize»,
  dep.«internal/lossless.addGreenToBlueAndRed»,
  dep.«internal/lossless.addPixels»,
  dep.«internal/lossless.allocateHistoSetReuse»,
  dep.«internal/lossless.applyColorTransformPixel»,
  dep.«internal/lossless.applyColorTransformTile»,
  dep.«internal/lossless.average2»,
  dep.«internal/lossless.avg2»,
  dep.«internal/lossless.bitsEntropyRefine»,
  dep.«internal/lossless.bitsLog2Floor»,
  dep.«internal/lossless.clampAddSubFull»,
  dep.«internal/lossless.clampAddSubHalf»,
  dep.«internal/lossless.clampByte»,
  dep.«internal/lossless.clampedAddSubtractFull»,
  dep.«internal/lossless.clampedAddSubtractHalf»,
  dep.«internal/lossless.colorIndexInverseTransform»,
  dep.«internal/lossless.const:ARGBBlack»,
  dep.«internal/lossless.const:CodeLengthCodes»,
  dep.«internal/lossless.const:ColorIndexingTransform»,
  dep.«internal/lossless.const:CrossColorTransform»,
  dep.«internal/lossless.const:NumDistanceCodes»,
  dep.«internal/lossless.const:NumLengthCodes»,
  dep.«internal/lossless.const:NumLiteralCodes»,
  dep.«internal/lossless.const:PredictorTransform»,
  dep.«internal/lossless.const:SubtractGreenTransform»,
  dep.«internal/lossless.const:binSize»,
  dep.«internal/lossless.const:fastSLog2LUTSize»,
  dep.«internal/lossless.const:hashBits»,
  dep.«internal/lossless.const:histAlpha»,
  dep.«internal/lossless.const:histBlue»,
  dep.«internal/lossless.const:histDistance»,
  dep.«internal/lossless.const:histLiteral»,
  dep.«internal/lossless.const:histRed»,
  dep.«internal/lossless.const:kHashMultiplierHi»,
  dep.«internal/lossless.const:kHashMultiplierLo»,
  dep.«internal/lossless.const:maxHistoGreedy»,
  dep.«internal/lossless.const:maxLength»,
  dep.«internal/lossless.const:maxLengthBits»,
  dep.«internal/lossless.const:minPixelsForParallel»,
  dep.«internal/lossless.const:modeCacheIdx»,
  dep.«internal/lossless.const:modeCopy»,
  dep.«internal/lossless.const:modeLiteral»,
  dep.«internal/lossless.const:nonTrivialSym»,
  dep.«internal/lossless.const:numPartitions»,
  dep.«internal/lossless.const:numPredictors»,
  dep.«internal/lossless.const:windowSize»,
  dep.«internal/lossless.const:windowSizeBits»,
  dep.«internal/lossless.dominantCostRange.update»,
  dep.«internal/lossless.encColorTransformDelta»,
  dep.«internal/lossless.estimateEntropy»,
  dep.«internal/lossless.extractClusterCenters»,
  dep.«internal/lossless.fastSLog2»,
  dep.«internal/lossless.finalHuffmanCost»,
  dep.«internal/lossless.findMatchLength»,
  dep.«internal/lossless.fixPair»,
  dep.«internal/lossless.getARGBIndex»,
  dep.«internal/lossless.getBinIDForEntropy»,
  dep.«internal/lossless.getCombineCostFactor»,
  dep.«internal/lossless.getCombinedEntropy»,
  dep.«internal/lossless.getCombinedEntropyUnrefined»,
  dep.«internal/lossless.getCombinedHistogramEntropy»,
  dep.«internal/lossless.getEntropyUnrefined»,
  dep.«internal/lossless.getEntropyUnrefinedHelper»,
  dep.«internal/lossless.getHistoBinIndex»,
  dep.«internal/lossless.getMaxItersForQuality»,
  dep.«internal/lossless.getPixPairHash64»,
  dep.«internal/lossless.getPixPairHash64Values»,
  dep.«internal/lossless.histoQueue.popAt»,
  dep.«internal/lossless.histoQueue.push»,
  dep.«internal/lossless.histoQueue.size»,
  dep.«internal/lossless.histoQueue.updateHead»,
  dep.«internal/lossless.histogramAdd»,
  dep.«internal/lossless.histogramAddEvalThresh»,
  dep.«internal/lossless.histogramAddThresh»,
  dep.«internal/lossless.histogramBuild»,
  dep.«internal/lossless.histogramNumCodes»,
  dep.«internal/lossless.initialHuffmanCost»,
  dep.«internal/lossless.lehmerRand»,
  dep.«internal/lossless.maxFindCopyLength»,
  dep.«internal/lossless.newDominantCostRange»,
  dep.«internal/lossless.packMultipliers»,
  dep.«internal/lossless.populationCost»,
  dep.«internal/lossless.predictPixel»,
  dep.«internal/lossless.predictorInverseTransform»,
  dep.«internal/lossless.selectPred»,
  dep.«internal/lossless.selectPredictor»,
  dep.«internal/lossless.subPixels»,
  dep.«internal/lossless.tileTracker.merge»,
  dep.«internal/lossless.tileTracker.swapRemove»,
  dep.«internal/lossless.var:fastSLog2LUT»,
  dep.«internal/lossless.var:multiplierDeltaByteLUT»,
  dep.«internal/lossy.DequantCoeffs»,
  dep.«internal/lossy.MBIterator.Export»,
  dep.«internal/lossy.MBIterator.FillPredContext»,
  dep.«internal/lossy.MBIterator.FillPredictionContext»,
  dep.«internal/lossy.MBIterator.GetTopModes»,
  dep.«internal/lossy.MBIterator.Import»,
  dep.«internal/lossy.MBIterator.IsDone»,
  dep.«internal/lossy.MBIterator.Next»,
  dep.«internal/lossy.MBIterator.SaveTopModes»,
  dep.«internal/lossy.MBIterator.resetLeftContext»,
  dep.«internal/lossy.PickBestI16Mode»,
  dep.«internal/lossy.PickBestI4Mode»,
  dep.«internal/lossy.PickBestUVMode»,
  dep.«internal/lossy.QuantizeCoeffs»,
  dep.«internal/lossy.RDScore»,
  dep.«internal/lossy.TokenBuffer.EmitTokens»,
  dep.«internal/lossy.TokenBuffer.EmitTokensPartitioned»,
  dep.«internal/lossy.TokenBuffer.MarkMBStart»,
  dep.«internal/lossy.TokenBuffer.RecordCoeffs»,
  dep.«internal/lossy.TokenBuffer.RecordToken»,
  dep.«internal/lossy.TokenBuffer.Reset»,
  dep.«internal/lossy.TokenBuffer.addPage»,
  dep.«internal/lossy.TokenBuffer.recordLevelVP8»,
  dep.«internal/lossy.TokenBuffer.tokenCount»,
  dep.«internal/lossy.TokenCostForCoeffs»,
  dep.«internal/lossy.TrellisQuantizeBlock»,
  dep.«internal/lossy.VP8Encoder.InitIterator»,
  dep.«internal/lossy.VP8Encoder.PickBestI16ModeRD»,
  dep.«internal/lossy.VP8Encoder.PickBestI4ModeRD»,
  dep.«internal/lossy.VP8Encoder.PickBestI4ModeRDTrellis»,
  dep.«internal/lossy.VP8Encoder.PickBestUVModeRD»,
  dep.«internal/lossy.VP8Encoder.adjustQuantForTarget»,
  dep.«internal/lossy.VP8Encoder.analysis»,
  dep.«internal/lossy.VP8Encoder.assembleFrame»,
  dep.«internal/lossy.VP8Encoder.buildSegmentHeader»,
  dep.«internal/lossy.VP8Encoder.collectAllStats»,
  dep.«internal/lossy.VP8Encoder.collectMBStats»,
  dep.«internal/lossy.VP8Encoder.computeStats»,
  dep.«internal/lossy.VP8Encoder.correctDCValues»,
  dep.«internal/lossy.VP8Encoder.emitFrame»,
  dep.«internal/lossy.VP8Encoder.emitPartition0»,
  dep.«internal/lossy.VP8Encoder.emitTokenPartitions»,
  dep.«internal/lossy.VP8Encoder.encodeFrame»,
  dep.«internal/lossy.VP8Encoder.encodeI16Residuals»,
  dep.«internal/lossy.VP8Encoder.encodeI4Residuals»,
  dep.«internal/lossy.VP8Encoder.encodeResiduals»,
  dep.«internal/lossy.VP8Encoder.encodeRow»,
  dep.«internal/lossy.VP8Encoder.encodeUVResiduals»,
  dep.«internal/lossy.VP8Encoder.initPassStats»,
  dep.«internal/lossy.VP8Encoder.pickBestMode»,
  dep.«internal/lossy.VP8Encoder.reconstructMB»,
  dep.«internal/lossy.VP8Encoder.recordAllTokens»,
  dep.«internal/lossy.VP8Encoder.recordMBTokens»,
  dep.«internal/lossy.VP8Encoder.refreshProbas»,
  dep.«internal/lossy.VP8Encoder.rerecordAllTokens»,
  dep.«internal/lossy.VP8Encoder.restoreSourcePixels»,
  dep.«internal/lossy.VP8Encoder.saveSourcePixels»,
  dep.«internal/lossy.VP8Encoder.setSegmentParams»,
  dep.«internal/lossy.VP8Encoder.setSegmentProbas»,
  dep.«internal/lossy.VP8Encoder.setupFilterStrength»,
  dep.«internal/lossy.VP8Encoder.simplifySegments»,
  dep.«internal/lossy.VP8Encoder.statLoop»,
  dep.«internal/lossy.VP8Encoder.storeDiffusionErrors»,
  dep.«internal/lossy.VP8Encoder.tryI4Modes»,
  dep.«internal/lossy.VP8Encoder.tryI4ModesRD»,
  dep.«internal/lossy.VP8Encoder.updateNZContext»,
  dep.«internal/lossy.VP8Encoder.writeCoeffProba»,
  dep.«internal/lossy.VP8Encoder.writeFilterHeader»,
  dep.«internal/lossy.VP8Encoder.writeMBModes»,
  dep.«internal/lossy.VP8Encoder.writeQuantParams»,
  dep.«internal/lossy.VP8Encoder.writeSegmentHeader»,
  dep.«internal/lossy.abs»,
  dep.«internal/lossy.assignSegments»,
  dep.«internal/lossy.boolToIntEnc»,
  dep.«internal/lossy.branchCost»,
  dep.«internal/lossy.checkMode»,
  dep.«internal/lossy.clampInt»,
  dep.«internal/lossy.collectCoeffStats»,
  dep.«internal/lossy.collectLevelStats»,
  dep.«internal/lossy.computeMBAlphaDCT»,
  dep.«internal/lossy.computeMBAlphaDCTWorker»,
  dep.«internal/lossy.computeMBUVAlphaDCT»,
  dep.«internal/lossy.computeMBUVAlphaDCTWorker»,
  dep.«internal/lossy.const:BDCPred»,
  dep.«internal/lossy.const:BDCPredNoLeft»,
  dep.«internal/lossy.const:BDCPredNoTop»,
  dep.«internal/lossy.const:BDCPredNoTopLeft»,
  dep.«internal/lossy.const:BHDPred»,
  dep.«internal/lossy.const:BHEPred»,
  dep.«internal/lossy.const:BHUPred»,
  dep.«internal/lossy.const:BLDPred»,
  dep.«internal/lossy.const:BPS»,
  dep.«internal/lossy.const:BRDPred»,
  dep.«internal/lossy.const:BTMPred»,
  dep.«internal/lossy.const:BVEPred»,
  dep.«internal/lossy.const:BVLPred»,
  dep.«internal/lossy.const:BVRPred»,
  dep.«internal/lossy.const:DCPred»,
  dep.«internal/lossy.const:HPred»,
  dep.«internal/lossy.const:MBFeatureTreeProbs»,
  dep.«internal/lossy.const:NumBModes»,
  dep.«internal/lossy.const:NumBands»,
  dep.«internal/lossy.const:NumCTX»,
  dep.«internal/lossy.const:NumMBSegments»,
  dep.«internal/lossy.const:NumModeLFDeltas»,
  dep.«internal/lossy.const:NumPredModes»,
  dep.«internal/lossy.const:NumProbas»,
  dep.«internal/lossy.const:NumRefLFDeltas»,
  dep.«internal/lossy.const:NumTypes»,
  dep.«internal/lossy.const:TMPred»,
  dep.«internal/lossy.const:UOff»,
  dep.«internal/lossy.const:VOff»,
  dep.«internal/lossy.const:VPred»,
  dep.«internal/lossy.const:YOff»,
  dep.«internal/lossy.const:YUVSize»,
  dep.«internal/lossy.const:alphaScale»,
  dep.«internal/lossy.const:derrC1»,
  dep.«internal/lossy.const:derrC2»,
  dep.«internal/lossy.const:derrDScale»,
  dep.«internal/lossy.const:derrDShift»,
  dep.«internal/lossy.const:flatnessLimitI16»,
  dep.«internal/lossy.const:flatnessLimitI4»,
  dep.«internal/lossy.const:flatnessLimitUV»,
  dep.«internal/lossy.const:flatnessPenalty»,
  dep.«internal/lossy.const:fstrengthCutoff»,
  dep.«internal/lossy.const:maxAlpha»,
  dep.«internal/lossy.const:maxCoeffThresh»,
  dep.«internal/lossy.const:maxIntra16Mode»,
  dep.«internal/lossy.const:maxItersKMeans»,
  dep.«internal/lossy.const:maxPartition0Size»,
  dep.«internal/lossy.const:maxPartitionSize»,
  dep.«internal/lossy.const:minRefreshCount»,
  dep.«internal/lossy.const:rdDistoMult»,
  dep.«internal/lossy.const:tokenPageSize»,
  dep.«internal/lossy.dequantCoeffsGo»,
  dep.«internal/lossy.dequantCoeffsSSE2»,
  dep.«internal/lossy.encodeI16ResidualsParallel»,
  dep.«internal/lossy.encodeI4ResidualsParallel»,
  dep.«internal/lossy.encodeResidualsParallel»,
  dep.«internal/lossy.encodeUVResidualsParallel»,
  dep.«internal/lossy.exportParallel»,
  dep.«internal/lossy.fastVariableLevelCost»,
  dep.«internal/lossy.fillPredContextParallel»,
  dep.«internal/lossy.filterStrengthFromDelta»,
  dep.«internal/lossy.generateI16Prediction»,
  dep.«internal/lossy.getBoolWriter»,
  dep.«internal/lossy.getImportUVWorker»,
  dep.«internal/lossy.getMaxI4RDModes»,
  dep.«internal/lossy.getPSNR»,
  dep.«internal/lossy.getParallelState»,
  dep.«internal/lossy.i4SubtreeContains»,
  dep.«internal/lossy.imageHasAlpha»,
  dep.«internal/lossy.importBlock»,
  dep.«internal/lossy.importBlockParallel»,
  dep.«internal/lossy.initRowWorker»,
  dep.«internal/lossy.initSegmentQuant»,
  dep.«internal/lossy.isFlat»,
  dep.«internal/lossy.isFlatSource16»,
  dep.«internal/lossy.maxInt»,
  dep.«internal/lossy.needsLeft4»,
  dep.«internal/lossy.needsTop4»,
  dep.«internal/lossy.newRowSync»,
  dep.«internal/lossy.nzCountACSSE2»,
  dep.«internal/lossy.optimizeProba»,
  dep.«internal/lossy.passStats.computeNextQ»,
  dep.«internal/lossy.pickBestI16ModeRDParallel»,
  dep.«internal/lossy.pickBestI4ModeRDParallel»,
  dep.«internal/lossy.pickBestI4ModeRDTrellisParallel»,
  dep.«internal/lossy.pickBestModeParallel»,
  dep.«internal/lossy.pickBestUVModeRDParallel»,
  dep.«internal/lossy.putBoolWriter»,
  dep.«internal/lossy.putParallelState»,
  dep.«internal/lossy.qualityToCompression»,
  dep.«internal/lossy.quantizeACAVX2»,
  dep.«internal/lossy.quantizeACSSE2»,
  dep.«internal/lossy.quantizeCoeffsGo»,
  dep.«internal/lossy.quantizeSingle»,
  dep.«internal/lossy.reconstructMBParallel»,
  dep.«internal/lossy.rowSync.signal»,
  dep.«internal/lossy.rowSync.waitFor»,
  dep.«internal/lossy.setupSegment»,
  dep.«internal/lossy.smoothSegmentMap»,
  dep.«internal/lossy.tryI4ModesParallel»,
  dep.«internal/lossy.tryI4ModesRDParallel»,
  dep.«internal/lossy.updateNZContextParallel»,
  dep.«internal/lossy.var:CoeffsProba0»,
  dep.«internal/lossy.var:CoeffsUpdateProba»,
  dep.«internal/lossy.var:ErrPartition0Overflow»,
  dep.«internal/lossy.var:ErrPartitionOverflow»,
  dep.«internal/lossy.var:KAcTable»,
  dep.«internal/lossy.var:KAcTable2»,
  dep.«internal/lossy.var:KBModesProba»,
  dep.«internal/lossy.var:KBands»,
  dep.«internal/lossy.var:KCat3»,
  dep.«internal/lossy.var:KCat4»,
  dep.«internal/lossy.var:KCat5»,
  dep.«internal/lossy.var:KCat6»,
  dep.«internal/lossy.var:KDcTable»,
  dep.«internal/lossy.var:KYModesIntra4»,
  dep.«internal/lossy.var:KZigzag»,
  dep.«internal/lossy.var:VP8FixedCostsI4»,
  dep.«internal/lossy.var:boolWriterPool»,
  dep.«internal/lossy.var:importUVWorkerPool»,
  dep.«internal/lossy.var:kBiasMatrices»,
  dep.«internal/lossy.var:kFreqSharpening»,
  dep.«internal/lossy.var:kLevelsFromDelta»,
  dep.«internal/lossy.var:kReverseZigzag»,
  dep.«internal/lossy.var:kWeightTrellis»,
  dep.«internal/lossy.var:modeFixedCost16»,
  dep.«internal/lossy.var:modeFixedCostUV»,
  dep.«internal/lossy.var:parallelPool»,
  dep.«internal/lossy.var:vp8LevelCodes»,
  dep.«internal/lossy.variableLevelCost»,
  dep.«internal/lossy.writeI16Mode»,
  dep.«internal/lossy.writeI4ModeBits»,
  dep.«internal/lossy.writeSegmentID»,
  dep.«internal/lossy.writeUVMode»
]
-- END deps partition
def partition : List Entry := partition_roots ++ partition_deps

/-- Webp/Impl/Pool.lean + Webp/Impl/PoolFields.lean (object reuse: get / reset / work / put) -/
def pool_roots : List Entry := [
  fp! "internal/lossless.Encode" 0xc7e5c5025edd39bb,
  fp! "internal/lossless.EncodeToWriter" 0x5cc4843276807858,
  fp! "internal/lossless.acquireEncoder" 0x731378e2e5d97c30,
  fp! "internal/lossless.releaseEncoder" 0x5d3cc46cbe294693,
  fp! "internal/lossless.DecodeVP8L" 0xc0cdc94041ff097c,
  fp! "internal/lossless.acquireDecoder" 0x73efacba07a27fb1,
  fp! "internal/lossless.releaseDecoder" 0x2a43743b8597d39e,
  fp! "internal/lossy.NewEncoder" 0x242437fa11374545,
  fp! "internal/lossy.NewEncoderFromYUV" 0xd84466fd678ed2de,
  fp! "internal/lossy.ReleaseEncoder" 0xa0324108bcd7d797,
  fp! "internal/lossy.VP8Encoder.resetForReuse" 0x8c9d2f78b6de5265,
  fp! "internal/lossy.VP8Encoder.allocateBuffers" 0xab291cd4210a78eb,
  fp! "internal/lossy.DecodeFrame" 0x0cbe1247c056a9e7,
  fp! "internal/lossy.acquireDecoder" 0x150b38a57a16dc7e,
  fp! "internal/lossy.ReleaseDecoder" 0x5e51ca865e7dae59,
  fp! "internal/lossy.Decoder.initFrame" 0x690a8c48506f66ea,
  fp! "internal/lossy.getParallelState" 0xf716f40f33a2e6cf,
  fp! "internal/lossy.putParallelState" 0x9bda47d7951dcb03,
  fp! "internal/lossy.newRowSync" 0xd025aa1d2e02ed81,
  fp! "internal/lossy.getBoolWriter" 0xa40ca9cffd8b79db,
  fp! "internal/lossy.putBoolWriter" 0xda087df5b1234e5b,
  fp! "internal/lossy.getImportUVWorker" 0xa690f484de048da3,
  fp! "internal/lossy.TokenBuffer.Reset" 0x338647bf305df811,
  fp! "internal/lossy.TokenBuffer.Init" 0x97bef2513558d2e3,
  fp! "webp.encodeLossless" 0x6c24a9390e67cfb9,
  fp! "webp.encodeLosslessToWriter" 0x8286e0b6f714af06,
  fp! "webp.decodeLossy" 0x7eeae068373756e5,
  fp! "webp.buildYCbCr" 0x58eabdcf5af51de5,
  fp! "internal/pool.bucketIndex" 0x46e07ac8366926da,
  fp! "internal/pool.Get" 0x08712f61db9cf5b3,
  fp! "internal/pool.Put" 0xe5c830665ac7c327,
  fp! "internal/bitio.BoolWriter.Reset" 0x5977808e724088b6
]
-- BEGIN deps pool (written by tools/update_fingerprints.py — do not edit by hand)
def pool_deps : List Entry := [
  dep.«internal/lossless.ApplyNearLossless»,
  dep.«internal/lossless.ApplyPaletteTransform»,
  dep.«internal/lossless.BackwardReferences2DLocality»,
  dep.«internal/lossless.BackwardReferencesLz77»,
  dep.«internal/lossless.BackwardReferencesLz77Box»,
  dep.«internal/lossless.BackwardReferencesRle»,
  dep.«internal/lossless.BackwardRefs.Add»,
  dep.«internal/lossless.BackwardRefs.Len»,
  dep.«internal/lossless.BackwardRefs.Refs»,
  dep.«internal/lossless.BackwardRefs.Reset»,
  dep.«internal/lossless.BackwardRefsWithLocalCache»,
  dep.«internal/lossless.BuildCodeLengthTokens»,
  dep.«internal/lossless.BuildCodeLengthTokensScratch»,
  dep.«internal/lossless.BuildHuffmanTableScratch»,
  dep.«internal/lossless.CachePixel»,
  dep.«internal/lossless.CalculateBestCacheSize»,
  dep.«internal/lossless.ColorCache.Contains»,
  dep.«internal/lossless.ColorCache.HashPix»,
  dep.«internal/lossless.ColorCache.Insert»,
  dep.«internal/lossless.ColorCache.Lookup»,
  dep.«internal/lossless.ColorCache.Reset»,
  dep.«internal/lossless.ColorIndexBuild»,
  dep.«internal/lossless.ColorSpaceTransform»,
  dep.«internal/lossless.CopyPixel»,
  dep.«internal/lossless.CreateHuffmanTreeScratch»,
  dep.«internal/lossless.Decoder.applyInverseTransforms»,
  dep.«internal/lossless.Decoder.decodeHeader»,
  dep.«internal/lossless.Decoder.decodeImageData»,
  dep.«internal/lossless.Decoder.decodeImageStream»,
  dep.«internal/lossless.Decoder.decodeSubImage»,
  dep.«internal/lossless.Decoder.getHTreeGroup»,
  dep.«internal/lossless.Decoder.getMetaIndex»,
  dep.«internal/lossless.Decoder.huffTableScratch»,
  dep.«internal/lossless.Decoder.readHuffmanCode»,
  dep.«internal/lossless.Decoder.readHuffmanCodeLengths»,
  dep.«internal/lossless.Decoder.readHuffmanCodes»,
  dep.«internal/lossless.Decoder.readTransform»,
  dep.«internal/lossless.Decoder.updateDecoder»,
  dep.«internal/lossless.DefaultEncoderConfig»,
  dep.«internal/lossless.DistanceToPlaneCode»,
  dep.«internal/lossless.Encoder.analyze»,
  dep.«internal/lossless.Encoder.applyPaletteTransform»,
  dep.«internal/lossless.Encoder.applyTransforms»,
  dep.«internal/lossless.Encoder.encodePalette»,
  dep.«internal/lossless.Encoder.encodeStream»,
  dep.«internal/lossless.Encoder.encodeSubImage»,
  dep.«internal/lossless.Encoder.storeImageData»,
  dep.«internal/lossless.Encoder.storeSubImageData»,
  dep.«internal/lossless.Encoder.writeTransformData»,
  dep.«internal/lossless.GetBackwardReferences»,
  dep.«internal/lossless.GetBackwardReferencesWithScratch»,
  dep.«internal/lossless.GetHistoImageSymbols»,
  dep.«internal/lossless.GetWindowSizeForHashChain»,
  dep.«internal/lossless.HashChain.Fill»,
  dep.«internal/lossless.HashChain.GetLength»,
  dep.«internal/lossless.HashChain.GetOffset»,
  dep.«internal/lossless.HashChain.fillParallel»,
  dep.«internal/lossless.HashChain.fillSerial»,
  dep.«internal/lossless.HistoSet.Get»,
  dep.«internal/lossless.HistoSet.Size»,
  dep.«internal/lossless.HistoSet.clearAll»,
  dep.«internal/lossless.HistoSet.remove»,
  dep.«internal/lossless.Histogram.AddRefs»,
  dep.«internal/lossless.Histogram.AddSingle»,
  dep.«internal/lossless.Histogram.Clear»,
  dep.«internal/lossless.Histogram.computeHistogramCost»,
  dep.«internal/lossless.Histogram.copyFrom»,
  dep.«internal/lossless.Histogram.population»,
  dep.«internal/lossless.Histogram.resetStats»,
  dep.«internal/lossless.HuffmanScratch.AllocTree»,
  dep.«internal/lossless.HuffmanScratch.ResetTreePool»,
  dep.«internal/lossless.LiteralPixel»,
  dep.«internal/lossless.NearLosslessBits»,
  dep.«internal/lossless.NewBackwardRefs»,
  dep.«internal/lossless.NewColorCache»,
  dep.«internal/lossless.NewHashChain»,
  dep.«internal/lossless.NewHistogram»,
  dep.«internal/lossless.PixOrCopy.Argb»,
  dep.«internal/lossless.PixOrCopy.CacheIndex»,
  dep.«internal/lossless.PixOrCopy.Distance»,
  dep.«internal/lossless.PixOrCopy.IsCacheIdx»,
  dep.«internal/lossless.PixOrCopy.IsCopy»,
  dep.«internal/lossless.PixOrCopy.IsLiteral»,
  dep.«internal/lossless.PixOrCopy.Length»,
  dep.«internal/lossless.PlaneCodeToDistance»,
  dep.«internal/lossless.PopulationCost»,
  dep.«internal/lossless.PrefixEncodeBitsNoLUT»,
  dep.«internal/lossless.PrefixEncodeNoLUT»,
  dep.«internal/lossless.ReadSymbol»,
  dep.«internal/lossless.ResidualImage»,
  dep.«internal/lossless.ReuseColorCache»,
  dep.«internal/lossless.StoreHuffmanCodeScratch»,
  dep.«internal/lossless.StoreHuffmanTreeOfHuffmanTreeToBitMask»,
  dep.«internal/lossless.StoreHuffmanTreeToBitMask»,
  dep.«internal/lossless.SubtractGreen»,
  dep.«internal/lossless.VP8LSubSampleSize»,
  dep.«internal/lossless.accumulateHCode»,
  dep.«internal/lossless.addGreenToBlueAndRed»,
  dep.«internal/lossless.addPixels»,
  dep.«internal/lossless.addSingleLiteralWithCostModel»,
  dep.«internal/lossless.allocateHistoSetReuse»,
  dep.«internal/lossless.applyColorTransformPixel»,
  dep.«internal/lossless.applyColorTransformTile»,
  dep.«internal/lossless.argbHasAlpha»,
  dep.«internal/lossless.argbSliceToBytes»,
  dep.«internal/lossless.argbToNRGBA»,
  dep.«internal/lossless.argbToNRGBARows»,
  dep.«internal/lossless.assignCodeLengths»,
  dep.«internal/lossless.average2»,
  dep.«internal/lossless.avg2»,
  dep.«internal/lossless.backwardReferencesHashChainDistanceOnly»,
  dep.«internal/lossless.backwardReferencesHashChainFollowChosenPath»,
  dep.«internal/lossless.backwardReferencesTraceBackwardsWithDist»,
  dep.«internal/lossless.bitsEntropyRefine»,
  dep.«internal/lossless.bitsLog2Floor»,
  dep.«internal/lossless.buildHuffmanTableSize»,
  dep.«internal/lossless.buildPackedTable»,
  dep.«internal/lossless.buildTreeAndExtractLengths»,
  dep.«internal/lossless.bytesToARGBSlice»,
  dep.«internal/lossless.cacheBitsForEncoder»,
  dep.«internal/lossless.clampAddSubFull»,
  dep.«internal/lossless.clampAddSubHalf»,
  dep.«internal/lossless.clampBits»,
  dep.«internal/lossless.clampByte»,
  dep.«internal/lossless.clampedAddSubtractFull»,
  dep.«internal/lossless.clampedAddSubtractHalf»,
  dep.«internal/lossless.clearHuffmanTreeIfOnlyOneSymbol»,
  dep.«internal/lossless.closestDiscretizedArgb»,
  dep.«internal/lossless.codeRepeatedValues»,
  dep.«internal/lossless.codeRepeatedZeros»,
  dep.«internal/lossless.colorIndexInverseTransform»,
  dep.«internal/lossless.colorSpaceInverseTransform»,
  dep.«internal/lossless.colorSpaceInverseTransformParallel»,
  dep.«internal/lossless.const:ARGBBlack»,
  dep.«internal/lossless.const:CodeLengthCodes»,
  dep.«internal/lossless.const:CodeLengthLiterals»,
  dep.«internal/lossless.const:CodeLengthRepeatCode»,
  dep.«internal/lossless.const:CodeToPlaneCodesCount»,
  dep.«internal/lossless.const:ColorIndexingTransform»,
  dep.«internal/lossless.const:CrossColorTransform»,
  dep.«internal/lossless.const:DefaultCodeLength»,
  dep.«internal/lossless.const:HuffAlpha»,
  dep.«internal/lossless.const:HuffBlue»,
  dep.«internal/lossless.const:HuffDist»,
  dep.«internal/lossless.const:HuffGreen»,
  dep.«internal/lossless.const:HuffRed»,
  dep.«internal/lossless.const:HuffmanCodesPerMetaCode»,
  dep.«internal/lossless.const:HuffmanPackedBits»,
  dep.«internal/lossless.const:HuffmanPackedTableSize»,
  dep.«internal/lossless.const:HuffmanTableBits»,
  dep.«internal/lossless.const:HuffmanTableMask»,
  dep.«internal/lossless.const:LengthsTableBits»,
  dep.«internal/lossless.const:LengthsTableMask»,
  dep.«internal/lossless.const:MaxAllowedCodeLength»,
  dep.«internal/lossless.const:MaxCacheBits»,
  dep.«internal/lossless.const:MaxPaletteSize»,
  dep.«internal/lossless.const:MinHuffmanBits»,
  dep.«internal/lossless.const:MinTransformBits»,
  dep.«internal/lossless.const:NumDistanceCodes»,
  dep.«internal/lossless.const:NumHuffmanBits»,
  dep.«internal/lossless.const:NumLengthCodes»,
  dep.«internal/lossless.const:NumLiteralCodes»,
  dep.«internal/lossless.const:NumTransformBits»,
  dep.«internal/lossless.const:PredictorTransform»,
  dep.«internal/lossless.const:SubtractGreenTransform»,
  dep.«internal/lossless.const:TransformPresent»,
  dep.«internal/lossless.const:VP8LHeaderSize»,
  dep.«internal/lossless.const:VP8LImageSizeBits»,
  dep.«internal/lossless.const:VP8LMagicByte»,
  dep.«internal/lossless.const:VP8LVersion»,
  dep.«internal/lossless.const:VP8LVersionBits»,
  dep.«internal/lossless.const:binSize»,
  dep.«internal/lossless.const:bitsSpecialMarker»,
  dep.«internal/lossless.const:costCacheIntervalSizeMax»,
  dep.«internal/lossless.const:fastSLog2LUTSize»,
  dep.«internal/lossless.const:hashBits»,
  dep.«internal/lossless.const:hashSize»,
  dep.«internal/lossless.const:histAlpha»,
  dep.«internal/lossless.const:histBlue»,
  dep.«internal/lossless.const:histDistance»,
  dep.«internal/lossless.const:histLiteral»,
  dep.«internal/lossless.const:histRed»,
  dep.«internal/lossless.const:kHashMul»,
  dep.«internal/lossless.const:kHashMultiplierHi»,
  dep.«internal/lossless.const:kHashMultiplierLo»,
  dep.«internal/lossless.const:kLZ77Box»,
  dep.«internal/lossless.const:kLZ77RLE»,
  dep.«internal/lossless.const:kLZ77Standard»,
  dep.«internal/lossless.const:maxColorCacheBitsEnc»,
  dep.«internal/lossless.const:maxHistoGreedy»,
  dep.«internal/lossless.const:maxHuffImageSize»,
  dep.«internal/lossless.const:maxHuffmanBits»,
  dep.«internal/lossless.const:maxLength»,
  dep.«internal/lossless.const:maxLengthBits»,
  dep.«internal/lossless.const:maxLimitBits»,
  dep.«internal/lossless.const:minDimForNearLossless»,
  dep.«internal/lossless.const:minLength»,
  dep.«internal/lossless.const:minPixelsForParallel»,
  dep.«internal/lossless.const:modeCacheIdx»,
  dep.«internal/lossless.const:modeCopy»,
  dep.«internal/lossless.const:modeLiteral»,
  dep.«internal/lossless.const:nonTrivialSym»,
  dep.«internal/lossless.const:numArgbCacheRows»,
  dep.«internal/lossless.const:numPartitions»,
  dep.«internal/lossless.const:numPredictors»,
  dep.«internal/lossless.const:windowOffsetsMaxSize»,
  dep.«internal/lossless.const:windowSize»,
  dep.«internal/lossless.const:windowSizeBits»,
  dep.«internal/lossless.convertPopulationCountToBitEstimates»,
  dep.«internal/lossless.copyBlock32»,
  dep.«internal/lossless.copyImageWithPrediction»,
  dep.«internal/lossless.costManager.allocInterval»,
  dep.«internal/lossless.costManager.connectIntervals»,
  dep.«internal/lossless.costManager.freeInterval»,
  dep.«internal/lossless.costManager.insertInterval»,
  dep.«internal/lossless.costManager.popInterval»,
  dep.«internal/lossless.costManager.positionOrphanInterval»,
  dep.«internal/lossless.costManager.pushInterval»,
  dep.«internal/lossless.costManager.updateCost»,
  dep.«internal/lossless.costManager.updateCostAtIndex»,
  dep.«internal/lossless.costManager.updateCostPerInterval»,
  dep.«internal/lossless.costModelTrace.build»,
  dep.«internal/lossless.costModelTrace.getCacheCost»,
  dep.«internal/lossless.costModelTrace.getDistanceCost»,
  dep.«internal/lossless.costModelTrace.getLengthCost»,
  dep.«internal/lossless.costModelTrace.getLiteralCost»,
  dep.«internal/lossless.dominantCostRange.update»,
  dep.«internal/lossless.encColorTransformDelta»,
  dep.«internal/lossless.estimateEntropy»,
  dep.«internal/lossless.expandColorMap»,
  dep.«internal/lossless.extraCost»,
  dep.«internal/lossless.extractClusterCenters»,
  dep.«internal/lossless.fastSLog2»,
  dep.«internal/lossless.fillMatchRange»,
  dep.«internal/lossless.finalHuffmanCost»,
  dep.«internal/lossless.findBestMultiplier»,
  dep.«internal/lossless.findBestMultipliers»,
  dep.«internal/lossless.findClosestDiscretized»,
  dep.«internal/lossless.findMatchLength»,
  dep.«internal/lossless.fixPair»,
  dep.«internal/lossless.generateCanonicalCodes»,
  dep.«internal/lossless.getARGBIndex»,
  dep.«internal/lossless.getBinIDForEntropy»,
  dep.«internal/lossless.getCombineCostFactor»,
  dep.«internal/lossless.getCombinedEntropy»,
  dep.«internal/lossless.getCombinedEntropyUnrefined»,
  dep.«internal/lossless.getCombinedHistogramEntropy»,
  dep.«internal/lossless.getEntropyUnrefined»,
  dep.«internal/lossless.getEntropyUnrefinedHelper»,
  dep.«internal/lossless.getHistoBinIndex»,
  dep.«internal/lossless.getHistoBits»,
  dep.«internal/lossless.getMaxItersForQuality»,
  dep.«internal/lossless.getNextKey»,
  dep.«internal/lossless.getPixPairHash64»,
  dep.«internal/lossless.getPixPairHash64Values»,
  dep.«internal/lossless.getTransformBits»,
  dep.«internal/lossless.histoQueue.popAt»,
  dep.«internal/lossless.histoQueue.push»,
  dep.«internal/lossless.histoQueue.size»,
  dep.«internal/lossless.histoQueue.updateHead»,
  dep.«internal/lossless.histogramAdd»,
  dep.«internal/lossless.histogramAddEvalThresh»,
  dep.«internal/lossless.histogramAddThresh»,
  dep.«internal/lossless.histogramBuild»,
  dep.«internal/lossless.histogramCombineEntropyBin»,
  dep.«internal/lossless.histogramCombineGreedy»,
  dep.«internal/lossless.histogramCombineStochastic»,
  dep.«internal/lossless.histogramEstimateBitsFromRefsScratch»,
  dep.«internal/lossless.histogramEstimateBitsUint64»,
  dep.«internal/lossless.histogramNumCodes»,
  dep.«internal/lossless.histogramRemap»,
  dep.«internal/lossless.initialHuffmanCost»,
  dep.«internal/lossless.inverseTransform»,
  dep.«internal/lossless.isNear»,
  dep.«internal/lossless.isSmooth»,
  dep.«internal/lossless.lehmerRand»,
  dep.«internal/lossless.maxFindCopyLength»,
  dep.«internal/lossless.multiplierCost»,
  dep.«internal/lossless.nearLosslessPass»,
  dep.«internal/lossless.newCostManager»,
  dep.«internal/lossless.newCostModelTrace»,
  dep.«internal/lossless.newDominantCostRange»,
  dep.«internal/lossless.nextTableBitSize»,
  dep.«internal/lossless.nodeHeap.Len»,
  dep.«internal/lossless.nodeHeap.heapInit»,
  dep.«internal/lossless.nodeHeap.less»,
  dep.«internal/lossless.nodeHeap.pop»,
  dep.«internal/lossless.nodeHeap.push»,
  dep.«internal/lossless.nodeHeap.siftDown»,
  dep.«internal/lossless.nodeHeap.swap»,
  dep.«internal/lossless.optimizeSampling»,
  dep.«internal/lossless.packMultipliers»,
  dep.«internal/lossless.paletteCodeBits»,
  dep.«internal/lossless.parallelComputeHistogramCost»,
  dep.«internal/lossless.populationCost»,
  dep.«internal/lossless.predictPixel»,
  dep.«internal/lossless.predictorInverseTransform»,
  dep.«internal/lossless.readPackedSymbols»,
  dep.«internal/lossless.removeUnusedHistograms»,
  dep.«internal/lossless.replicateValue»,
  dep.«internal/lossless.reverseBits»,
  dep.«internal/lossless.selectPred»,
  dep.«internal/lossless.selectPredictor»,
  dep.«internal/lossless.storeFullHuffmanCodeScratch»,
  dep.«internal/lossless.storeSimpleHuffmanCode»,
  dep.«internal/lossless.subPixels»,
  dep.«internal/lossless.subPixelsEnc»,
  dep.«internal/lossless.tileTracker.merge»,
  dep.«internal/lossless.tileTracker.swapRemove»,
  dep.«internal/lossless.traceBackwards»,
  dep.«internal/lossless.var:CodeLengthCodeOrder»,
  dep.«internal/lossless.var:CodeLengthExtraBits»,
  dep.«internal/lossless.var:CodeLengthRepeatOffsets»,
  dep.«internal/lossless.var:CodeToPlane»,
  dep.«internal/lossless.var:ErrBadSignature»,
  dep.«internal/lossless.var:ErrBadVersion»,
  dep.«internal/lossless.var:ErrBitstream»,
  dep.«internal/lossless.var:ErrEmptyCodeLengths»,
  dep.«internal/lossless.var:ErrImageTooLarge»,
  dep.«internal/lossless.var:ErrInvalidTree»,
  dep.«internal/lossless.var:KLiteralMap»,
  dep.«internal/lossless.var:fastSLog2LUT»,
  dep.«internal/lossless.var:kBaseAlphabetSize»,
  dep.«internal/lossless.var:losslessDecoderPool»,
  dep.«internal/lossless.var:losslessEncoderPool»,
  dep.«internal/lossless.var:multiplierDeltaByteLUT»,
  dep.«internal/lossless.var:planeToCodeLUT»,
  dep.«internal/lossless.writeHuffmanCode»,
  dep.«internal/lossy.Decoder.decodeMB»,
  dep.«internal/lossy.Decoder.doFilter»,
  dep.«internal/lossy.Decoder.filterRowAt»,
  dep.«internal/lossy.Decoder.initScanline»,
  dep.«internal/lossy.Decoder.parseFilterHeader»,
  dep.«internal/lossy.Decoder.parseFrame»,
  dep.«internal/lossy.Decoder.parseHeaders»,
  dep.«internal/lossy.Decoder.parseIntraModeRow»,
  dep.«internal/lossy.Decoder.parsePartitions»,
  dep.«internal/lossy.Decoder.parseResiduals»,
  dep.«internal/lossy.Decoder.parseSegmentHeader»,
  dep.«internal/lossy.Decoder.precomputeFilterStrengths»,
  dep.«internal/lossy.Decoder.reconstructRow»,
  dep.«internal/lossy.ParseQuant»,
  dep.«internal/lossy.ResetProba»,
  dep.«internal/lossy.TokenBuffer.addPage»,
  dep.«internal/lossy.VP8Encoder.importImage»,
  dep.«internal/lossy.VP8Encoder.importYCbCr»,
  dep.«internal/lossy.VP8Encoder.initEncoderParams»,
  dep.«internal/lossy.VP8Encoder.initSegments»,
  dep.«internal/lossy.abs»,
  dep.«internal/lossy.b2i»,
  dep.«internal/lossy.brLoad»,
  dep.«internal/lossy.brSync»,
  dep.«internal/lossy.checkMode»,
  dep.«internal/lossy.clamp255»,
  dep.«internal/lossy.clampInt»,
  dep.«internal/lossy.clip»,
  dep.«internal/lossy.const:BDCPred»,
  dep.«internal/lossy.const:BDCPredNoLeft»,
  dep.«internal/lossy.const:BDCPredNoTop»,
  dep.«internal/lossy.const:BDCPredNoTopLeft»,
  dep.«internal/lossy.const:BHDPred»,
  dep.«internal/lossy.const:BHEPred»,
  dep.«internal/lossy.const:BHUPred»,
  dep.«internal/lossy.const:BLDPred»,
  dep.«internal/lossy.const:BPS»,
  dep.«internal/lossy.const:BRDPred»,
  dep.«internal/lossy.const:BTMPred»,
  dep.«internal/lossy.const:BVEPred»,
  dep.«internal/lossy.const:BVLPred»,
  dep.«internal/lossy.const:BVRPred»,
  dep.«internal/lossy.const:DCPred»,
  dep.«internal/lossy.const:HPred»,
  dep.«internal/lossy.const:MBFeatureTreeProbs»,
  dep.«internal/lossy.const:MaxNumPartitions»,
  dep.«internal/lossy.const:NumBModes»,
  dep.«internal/lossy.const:NumBands»,
  dep.«internal/lossy.const:NumCTX»,
  dep.«internal/lossy.const:NumMBSegments»,
  dep.«internal/lossy.const:NumModeLFDeltas»,
  dep.«internal/lossy.const:NumProbas»,
  dep.«internal/lossy.const:NumRefLFDeltas»,
  dep.«internal/lossy.const:NumTypes»,
  dep.«internal/lossy.const:TMPred»,
  dep.«internal/lossy.const:UOff»,
  dep.«internal/lossy.const:VOff»,
  dep.«internal/lossy.const:VPred»,
  dep.«internal/lossy.const:YOff»,
  dep.«internal/lossy.const:YUVSize»,
  dep.«internal/lossy.doSimpleFilter2»,
  dep.«internal/lossy.doSimpleFilter4»,
  dep.«internal/lossy.doSimpleFilter6»,
  dep.«internal/lossy.doTransform»,
  dep.«internal/lossy.doTransformDCBlock»,
  dep.«internal/lossy.doUVTransform»,
  dep.«internal/lossy.fastBit»,
  dep.«internal/lossy.fastSigned»,
  dep.«internal/lossy.fillBytes»,
  dep.«internal/lossy.filterLoop24HAt»,
  dep.«internal/lossy.filterLoop24VAt»,
  dep.«internal/lossy.filterLoop26At»,
  dep.«internal/lossy.filterLoop26HAt»,
  dep.«internal/lossy.filterLoop26VAt»,
  dep.«internal/lossy.getCoeffsInline»,
  dep.«internal/lossy.hFilter16iAt»,
  dep.«internal/lossy.hFilter8iAt»,
  dep.«internal/lossy.imageHasAlpha»,
  dep.«internal/lossy.initRowWorker»,
  dep.«internal/lossy.initSegmentQuant»,
  dep.«internal/lossy.isHEV»,
  dep.«internal/lossy.maxInt»,
  dep.«internal/lossy.needsFilter2At»,
  dep.«internal/lossy.nzCodeBits»,
  dep.«internal/lossy.parseProba»,
  dep.«internal/lossy.qualityToCompression»,
  dep.«internal/lossy.qualityToQIndex»,
  dep.«internal/lossy.readOptionalSigned»,
  dep.«internal/lossy.sclip1»,
  dep.«internal/lossy.sclip2»,
  dep.«internal/lossy.setupSegment»,
  dep.«internal/lossy.simpleHFilter16At»,
  dep.«internal/lossy.simpleHFilter16iAt»,
  dep.«internal/lossy.vFilter16iAt»,
  dep.«internal/lossy.vFilter8iAt»,
  dep.«internal/lossy.var:CoeffsProba0»,
  dep.«internal/lossy.var:CoeffsUpdateProba»,
  dep.«internal/lossy.var:KAcTable»,
  dep.«internal/lossy.var:KAcTable2»,
  dep.«internal/lossy.var:KBModesProba»,
  dep.«internal/lossy.var:KBands»,
  dep.«internal/lossy.var:KCat3»,
  dep.«internal/lossy.var:KCat4»,
  dep.«internal/lossy.var:KCat5»,
  dep.«internal/lossy.var:KCat6»,
  dep.«internal/lossy.var:KDcTable»,
  dep.«internal/lossy.var:KYModesIntra4»,
  dep.«internal/lossy.var:KZigzag»,
  dep.«internal/lossy.var:boolWriterPool»,
  dep.«internal/lossy.var:encoderPool»,
  dep.«internal/lossy.var:errPrematureEOF»,
  dep.«internal/lossy.var:importUVWorkerPool»,
  dep.«internal/lossy.var:kBiasMatrices»,
  dep.«internal/lossy.var:kCat3456»,
  dep.«internal/lossy.var:kFreqSharpening»,
  dep.«internal/lossy.var:kScan»,
  dep.«internal/lossy.var:kVP8Log2Range»,
  dep.«internal/lossy.var:kVP8NewRange»,
  dep.«internal/lossy.var:lossyDecoderPool»,
  dep.«internal/lossy.var:parallelPool»,
  dep.«internal/pool.const:Size16K»,
  dep.«internal/pool.const:Size1K»,
  dep.«internal/pool.const:Size256B»,
  dep.«internal/pool.const:Size256K»,
  dep.«internal/pool.const:Size4K»,
  dep.«internal/pool.const:Size64K»,
  dep.«internal/pool.var:pools»,
  dep.«webp.buildNRGBA»,
  dep.«webp.cleanupTransparentAreaLossless»,
  dep.«webp.validNRGBA»,
  dep.«webp.validRGBA»,
  dep.«webp.var:argbPool»
]
-- END deps pool
def pool : List Entry := pool_roots ++ pool_deps

/-- Webp/Impl/RowPipe.lean + Webp/Impl/RowSync.lean (row-pipelined lossy encoder) -/
def rowPipe_roots : List Entry := [
  fp! "internal/lossy.getParallelState" 0xf716f40f33a2e6cf,
  fp! "internal/lossy.putParallelState" 0x9bda47d7951dcb03,
  fp! "internal/lossy.newRowSync" 0xd025aa1d2e02ed81,
  fp! "internal/lossy.rowSync.waitFor" 0xa371ebe1e222cfce,
  fp! "internal/lossy.rowSync.signal" 0xd7c548f6ac951e4b,
  fp! "internal/lossy.initRowWorker" 0x815bf44952a33299,
  fp! "internal/lossy.VP8Encoder.encodeFrameParallel" 0xe9284025720335ec,
  fp! "internal/lossy.VP8Encoder.encodeRow" 0x785a17019aedc49a,
  fp! "internal/lossy.updateNZContextParallel" 0xdb7d41d3d19eccc6,
  fp! "internal/lossy.importBlockParallel" 0xc7616111b493f6c8,
  fp! "internal/lossy.fillPredContextParallel" 0x2d12a6b9c1a3976a,
  fp! "internal/lossy.pickBestModeParallel" 0xa8dcb31891d8bdc2,
  fp! "internal/lossy.exportParallel" 0x09da722b8bc3a505,
  fp! "internal/lossy.VP8Encoder.recordAllTokens" 0x9e7fc64d34eab2a0,
  fp! "internal/lossy.VP8Encoder.refreshProbas" 0xfab4488e65cba4a9
]
-- BEGIN deps rowPipe (written by tools/update_fingerprints.py — do not edit by hand)
def rowPipe_deps : List Entry := [
  dep.«internal/lossy.DequantCoeffs»,
  dep.«internal/lossy.MBIterator.IsDone»,
  dep.«internal/lossy.MBIterator.Next»,
  dep.«internal/lossy.MBIterator.resetLeftContext»,
  dep.«internal/lossy.PickBestI16Mode»,
  dep.«internal/lossy.PickBestI4Mode»,
  dep.«internal/lossy.PickBestUVMode»,
  dep.«internal/lossy.QuantizeCoeffs»,
  dep.«internal/lossy.RDScore»,
  dep.«internal/lossy.TokenBuffer.MarkMBStart»,
  dep.«internal/lossy.TokenBuffer.RecordCoeffs»,
  dep.«internal/lossy.TokenBuffer.RecordToken»,
  dep.«internal/lossy.TokenBuffer.addPage»,
  dep.«internal/lossy.TokenBuffer.recordLevelVP8»,
  dep.«internal/lossy.TokenBuffer.tokenCount»,
  dep.«internal/lossy.TokenCostForCoeffs»,
  dep.«internal/lossy.TrellisQuantizeBlock»,
  dep.«internal/lossy.VP8Encoder.InitIterator»,
  dep.«internal/lossy.VP8Encoder.collectAllStats»,
  dep.«internal/lossy.VP8Encoder.collectMBStats»,
  dep.«internal/lossy.VP8Encoder.recordMBTokens»,
  dep.«internal/lossy.branchCost»,
  dep.«internal/lossy.checkMode»,
  dep.«internal/lossy.collectCoeffStats»,
  dep.«internal/lossy.collectLevelStats»,
  dep.«internal/lossy.const:BDCPred»,
  dep.«internal/lossy.const:BDCPredNoLeft»,
  dep.«internal/lossy.const:BDCPredNoTop»,
  dep.«internal/lossy.const:BDCPredNoTopLeft»,
  dep.«internal/lossy.const:BHDPred»,
  dep.«internal/lossy.const:BHEPred»,
  dep.«internal/lossy.const:BHUPred»,
  dep.«internal/lossy.const:BLDPred»,
  dep.«internal/lossy.const:BPS»,
  dep.«internal/lossy.const:BRDPred»,
  dep.«internal/lossy.const:BTMPred»,
  dep.«internal/lossy.const:BVEPred»,
  dep.«internal/lossy.const:BVLPred»,
  dep.«internal/lossy.const:BVRPred»,
  dep.«internal/lossy.const:DCPred»,
  dep.«internal/lossy.const:HPred»,
  dep.«internal/lossy.const:NumBModes»,
  dep.«internal/lossy.const:NumBands»,
  dep.«internal/lossy.const:NumCTX»,
  dep.«internal/lossy.const:NumPredModes»,
  dep.«internal/lossy.const:NumProbas»,
  dep.«internal/lossy.const:NumTypes»,
  dep.«internal/lossy.const:TMPred»,
  dep.«internal/lossy.const:UOff»,
  dep.«internal/lossy.const:VOff»,
  dep.«internal/lossy.const:VPred»,
  dep.«internal/lossy.const:YOff»,
  dep.«internal/lossy.const:YUVSize»,
  dep.«internal/lossy.const:flatnessLimitI16»,
  dep.«internal/lossy.const:flatnessLimitI4»,
  dep.«internal/lossy.const:flatnessLimitUV»,
  dep.«internal/lossy.const:flatnessPenalty»,
  dep.«internal/lossy.const:minRefreshCount»,
  dep.«internal/lossy.const:rdDistoMult»,
  dep.«internal/lossy.const:tokenPageSize»,
  dep.«internal/lossy.dequantCoeffsGo»,
  dep.«internal/lossy.dequantCoeffsSSE2»,
  dep.«internal/lossy.encodeI16ResidualsParallel»,
  dep.«internal/lossy.encodeI4ResidualsParallel»,
  dep.«internal/lossy.encodeResidualsParallel»,
  dep.«internal/lossy.encodeUVResidualsParallel»,
  dep.«internal/lossy.fastVariableLevelCost»,
  dep.«internal/lossy.getMaxI4RDModes»,
  dep.«internal/lossy.importBlock»,
  dep.«internal/lossy.isFlat»,
  dep.«internal/lossy.isFlatSource16»,
  dep.«internal/lossy.needsLeft4»,
  dep.«internal/lossy.needsTop4»,
  dep.«internal/lossy.nzCountACSSE2»,
  dep.«internal/lossy.optimizeProba»,
  dep.«internal/lossy.pickBestI16ModeRDParallel»,
  dep.«internal/lossy.pickBestI4ModeRDParallel»,
  dep.«internal/lossy.pickBestI4ModeRDTrellisParallel»,
  dep.«internal/lossy.pickBestUVModeRDParallel»,
  dep.«internal/lossy.quantizeACAVX2»,
  dep.«internal/lossy.quantizeACSSE2»,
  dep.«internal/lossy.quantizeCoeffsGo»,
  dep.«internal/lossy.reconstructMBParallel»,
  dep.«internal/lossy.tryI4ModesParallel»,
  dep.«internal/lossy.tryI4ModesRDParallel»,
  dep.«internal/lossy.var:CoeffsProba0»,
  dep.«internal/lossy.var:CoeffsUpdateProba»,
  dep.«internal/lossy.var:KBands»,
  dep.«internal/lossy.var:KCat3»,
  dep.«internal/lossy.var:KCat4»,
  dep.«internal/lossy.var:KCat5»,
  dep.«internal/lossy.var:KCat6»,
  dep.«internal/lossy.var:KZigzag»,
  dep.«internal/lossy.var:VP8FixedCostsI4»,
  dep.«internal/lossy.var:kReverseZigzag»,
  dep.«internal/lossy.var:kWeightTrellis»,
  dep.«internal/lossy.var:modeFixedCost16»,
  dep.«internal/lossy.var:modeFixedCostUV»,
  dep.«internal/lossy.var:parallelPool»,
  dep.«internal/lossy.var:vp8LevelCodes»,
  dep.«internal/lossy.variableLevelCost»
]
-- END deps rowPipe
def rowPipe : List Entry := rowPipe_roots ++ rowPipe_deps

/-- Webp/Impl/VP8Kernels.lean (portable-Go DSP kernels and the quantiser) -/
def vp8Kernels_roots : List Entry := [
  fp! "internal/dsp.Clip8b" 0x2149951e95093e83,
  fp! "internal/dsp.initClipTables" 0x788ac4af6caf3878,
  fp! "internal/dsp.mul1" 0x4efa0e79c96d0476,
  fp! "internal/dsp.mul2" 0x3ccf5716eb7729b1,
  fp! "internal/dsp.store" 0x65471a5764d12578,
  fp! "internal/dsp.transformOne" 0x865c0eca4b1fdf6c,
  fp! "internal/dsp.transformTwo" 0x81fb1ad72015c2a3,
  fp! "internal/dsp.transformDC" 0x237283ba7d39ad2e,
  fp! "internal/dsp.transformAC3" 0x3b85dbfac7c6d0b0,
  fp! "internal/dsp.transformUV" 0x91fc8c49c305a673,
  fp! "internal/dsp.transformDCUV" 0x283cbfc993d54cf7,
  fp! "internal/dsp.transformWHT" 0x364717cdd07c6033,
  fp! "internal/dsp.iTransform" 0x24afee0de2eaadd4,
  fp! "internal/dsp.iTransformOne" 0x6129a3b298a8d380,
  fp! "internal/dsp.fTransform" 0x5827adfade404d7b,
  fp! "internal/dsp.fTransform2" 0xbe1a9dcee59894d7,
  fp! "internal/dsp.fTransformWHT" 0x51990f7b8cb20757,
  fp! "internal/dsp.FTransformDirect" 0xd0bbbd5e3ed4f22b,
  fp! "internal/dsp.ITransformDirect" 0x21cda04f43bfc5d1,
  fp! "internal/dsp.needsFilter" 0xb232e377f927e8c8,
  fp! "internal/dsp.needsFilter2" 0xab54669107427b6e,
  fp! "internal/dsp.hev" 0xce8912b99f91c9bb,
  fp! "internal/dsp.doFilter2" 0x50276edf072ec0f2,
  fp! "internal/dsp.doFilter4" 0x003efc42094aaa21,
  fp! "internal/dsp.doFilter6" 0x3669a3f5e9c6dbb4,
  fp! "internal/dsp.simpleVFilter16Go" 0x2b1adfb4e1e089f9,
  fp! "internal/dsp.SimpleVFilter16" 0xe389d5e03228bdbc,
  fp! "internal/dsp.SimpleHFilter16" 0x5b97ad15c8a9706d,
  fp! "internal/dsp.filterLoop26" 0x7bd2dabd16941806,
  fp! "internal/dsp.filterLoop24" 0xe8b391ae33f75ee4,
  fp! "internal/dsp.avg3" 0xe5608bfda1e67715,
  fp! "internal/dsp.avg2" 0xaf10a2348114dbe0,
  fp! "internal/dsp.dc16" 0xc47849710a807d49,
  fp! "internal/dsp.tm16" 0x094a7601a2240172,
  fp! "internal/dsp.ve16" 0x6ac0cb7a72deabb6,
  fp! "internal/dsp.he16" 0xc097acc60b2dc055,
  fp! "internal/dsp.dc16NoTop" 0xefd9b73d9ba3fea7,
  fp! "internal/dsp.dc16NoLeft" 0x07e14eb07b9d6a4f,
  fp! "internal/dsp.dc16NoTopLeft" 0xce8c3fe59c56cb17,
  fp! "internal/dsp.dc8uv" 0x712ce9c72b182f61,
  fp! "internal/dsp.tm8uv" 0x9948e98674dbc3df,
  fp! "internal/dsp.ve8uv" 0xbee1191884022146,
  fp! "internal/dsp.he8uv" 0x1703537427f2cd41,
  fp! "internal/dsp.dc8uvNoTop" 0xa93ccb9d172f51e2,
  fp! "internal/dsp.dc8uvNoLeft" 0x7e537c9cc6adf5a1,
  fp! "internal/dsp.dc8uvNoTopLeft" 0xe1e95bd118325ef4,
  fp! "internal/dsp.dc4" 0x4ed2c997e867fff1,
  fp! "internal/dsp.tm4" 0x851e98d53c9232f8,
  fp! "internal/dsp.ve4" 0x865849e4d5c17bd5,
  fp! "internal/dsp.he4" 0xdb139959ca6b744d,
  fp! "internal/dsp.rd4" 0xbeabfa01f7722a97,
  fp! "internal/dsp.vr4" 0x10946fd14950043d,
  fp! "internal/dsp.ld4" 0xe588de0b7fc21991,
  fp! "internal/dsp.vl4" 0x155dbc72e1f219ef,
  fp! "internal/dsp.hd4" 0x0550b10e1848ee9f,
  fp! "internal/dsp.hu4" 0xa1a751a777816ff3,
  fp! "internal/dsp.PredLuma4Direct" 0xdd52a9768b1f82fd,
  fp! "internal/dsp.PredLuma16Direct" 0xdc6b7230aea1766f,
  fp! "internal/dsp.PredChroma8Direct" 0xadba2b5cddfb75ff,
  fp! "internal/dsp.initPredictors" 0x69800a57e922eb96,
  fp! "internal/dsp.multHi" 0x6a9d717a70bc843b,
  fp! "internal/dsp.initYUVTables" 0xbff96ccb66366ca0,
  fp! "internal/dsp.clip" 0xad032878a2d8d5f5,
  fp! "internal/dsp.YUVToR" 0x635996e7558f3f75,
  fp! "internal/dsp.YUVToG" 0x03fa375bcb49c523,
  fp! "internal/dsp.YUVToB" 0x45ef69afbb5169e4,
  fp! "internal/dsp.loadUV" 0xbaab60d134aec456,
  fp! "internal/dsp.UpsampleLinePair" 0x640449326daeee11,
  fp! "internal/dsp.upsampleLinePairNRGBAGo" 0x9aa0915e5ac814e4,
  fp! "internal/dsp.UpsampleLinePairNRGBA" 0x64c0b8cef50f722c,
  fp! "internal/dsp.SSE" 0x4e1195849a3d306f,
  fp! "internal/dsp.sse4x4" 0xb02f46cd7a724f6f,
  fp! "internal/dsp.sse16x16" 0xdbe928d33eb0548a,
  fp! "internal/dsp.SSE4x4Direct" 0xd48a5fe82d804a4b,
  fp! "internal/dsp.SSE16x16Direct" 0x30cc765c429ebfc5,
  fp! "internal/dsp.tTransform" 0x14873e5fa4134148,
  fp! "internal/dsp.tDisto4x4Go" 0x95c76ff88f253e73,
  fp! "internal/dsp.TDisto4x4" 0xecae6611e47e9417,
  fp! "internal/dsp.addGreenToBlueAndRedGo" 0x1bf73c4ae5f257d5,
  fp! "internal/dsp.subtractGreenGo" 0xb067e37112d3aa78,
  fp! "internal/dsp.AddGreenToBlueAndRed" 0xd524534fc735d3d4,
  fp! "internal/dsp.SubtractGreen" 0x997ff0db0994cb8c,
  fp! "internal/dsp.Init" 0x33f2eea4c9ebffa3,
  fp! "internal/lossy.nzCodeBits" 0xa0eb092d268c46ad,
  fp! "internal/lossy.doTransform" 0x6410bfb238cc1c67,
  fp! "internal/lossy.doTransformDCBlock" 0x177a0bd4e1111ae1,
  fp! "internal/lossy.doUVTransform" 0x6adc9120aa8de603,
  fp! "internal/lossy.quantizeCoeffsGo" 0x33c7d61f38ec3859,
  fp! "internal/lossy.dequantCoeffsGo" 0x8f5bed0319984d42,
  fp! "internal/lossy.QuantizeCoeffs" 0x9d5f204a89bc1ad4,
  fp! "internal/lossy.DequantCoeffs" 0x1561ef35b35a2eb8
]
-- BEGIN deps vp8Kernels (written by tools/update_fingerprints.py — do not edit by hand)
def vp8Kernels_deps : List Entry := [
  dep.«internal/dsp.Kabs0»,
  dep.«internal/dsp.Kclip1»,
  dep.«internal/dsp.Ksclip1»,
  dep.«internal/dsp.Ksclip2»,
  dep.«internal/dsp.YUVToRGB»,
  dep.«internal/dsp.abs»,
  dep.«internal/dsp.b2i»,
  dep.«internal/dsp.const:BPS»,
  dep.«internal/dsp.const:abs0Offset»,
  dep.«internal/dsp.const:c1»,
  dep.«internal/dsp.const:c2»,
  dep.«internal/dsp.const:clip1Offset»,
  dep.«internal/dsp.const:kBBias»,
  dep.«internal/dsp.const:kBCb»,
  dep.«internal/dsp.const:kGBias»,
  dep.«internal/dsp.const:kGCb»,
  dep.«internal/dsp.const:kGCr»,
  dep.«internal/dsp.const:kRBias»,
  dep.«internal/dsp.const:kRCr»,
  dep.«internal/dsp.const:kYScale»,
  dep.«internal/dsp.const:sclip1Offset»,
  dep.«internal/dsp.const:sclip2Offset»,
  dep.«internal/dsp.const:yuvFix2»,
  dep.«internal/dsp.const:yuvMask»,
  dep.«internal/dsp.dc16asmNEON»,
  dep.«internal/dsp.dc16asmSSE2»,
  dep.«internal/dsp.dc8uvasmNEON»,
  dep.«internal/dsp.dc8uvasmSSE2»,
  dep.«internal/dsp.fTransformAVX2»,
  dep.«internal/dsp.fTransformSSE2»,
  dep.«internal/dsp.he16asmNEON»,
  dep.«internal/dsp.he16asmSSE2»,
  dep.«internal/dsp.he8uvasmNEON»,
  dep.«internal/dsp.he8uvasmSSE2»,
  dep.«internal/dsp.iTransformOneAVX2»,
  dep.«internal/dsp.iTransformOneSSE2»,
  dep.«internal/dsp.initLevelCosts»,
  dep.«internal/dsp.initLosslessPredictors»,
  dep.«internal/dsp.initSSIM»,
  dep.«internal/dsp.initScanTable»,
  dep.«internal/dsp.lAbs»,
  dep.«internal/dsp.lAverage2»,
  dep.«internal/dsp.lAverage3»,
  dep.«internal/dsp.lAverage4»,
  dep.«internal/dsp.lClamp»,
  dep.«internal/dsp.lClampedAddSubtractFull»,
  dep.«internal/dsp.lClampedAddSubtractHalf»,
  dep.«internal/dsp.lSelect»,
  dep.«internal/dsp.pred0»,
  dep.«internal/dsp.pred1»,
  dep.«internal/dsp.pred10»,
  dep.«internal/dsp.pred11»,
  dep.«internal/dsp.pred12»,
  dep.«internal/dsp.pred13»,
  dep.«internal/dsp.pred2»,
  dep.«internal/dsp.pred3»,
  dep.«internal/dsp.pred4»,
  dep.«internal/dsp.pred5»,
  dep.«internal/dsp.pred6»,
  dep.«internal/dsp.pred7»,
  dep.«internal/dsp.pred8»,
  dep.«internal/dsp.pred9»,
  dep.«internal/dsp.simpleVFilter16AVX2»,
  dep.«internal/dsp.simpleVFilter16SSE2»,
  dep.«internal/dsp.sse16x16AVX2»,
  dep.«internal/dsp.sse16x16NEON»,
  dep.«internal/dsp.sse16x16SSE2»,
  dep.«internal/dsp.sse4x4NEON»,
  dep.«internal/dsp.sse4x4SSE2»,
  dep.«internal/dsp.tDisto4x4AVX2»,
  dep.«internal/dsp.tDisto4x4SSE2»,
  dep.«internal/dsp.tm16asmNEON»,
  dep.«internal/dsp.tm16asmSSE2»,
  dep.«internal/dsp.tm8uvasmNEON»,
  dep.«internal/dsp.tm8uvasmSSE2»,
  dep.«internal/dsp.var:AddGreenToBlueAndRedFunc»,
  dep.«internal/dsp.var:DspScan»,
  dep.«internal/dsp.var:DspScanUV»,
  dep.«internal/dsp.var:FTransform»,
  dep.«internal/dsp.var:FTransform2»,
  dep.«internal/dsp.var:FTransformWHT»,
  dep.«internal/dsp.var:ITransform»,
  dep.«internal/dsp.var:LosslessPredictors»,
  dep.«internal/dsp.var:PredChroma8»,
  dep.«internal/dsp.var:PredLuma16»,
  dep.«internal/dsp.var:PredLuma4»,
  dep.«internal/dsp.var:SSE16x16»,
  dep.«internal/dsp.var:SSE4x4»,
  dep.«internal/dsp.var:SubtractGreenFunc»,
  dep.«internal/dsp.var:Transform»,
  dep.«internal/dsp.var:TransformAC3»,
  dep.«internal/dsp.var:TransformDC»,
  dep.«internal/dsp.var:TransformDCUV»,
  dep.«internal/dsp.var:TransformUV»,
  dep.«internal/dsp.var:TransformWHT»,
  dep.«internal/dsp.var:VP8LevelFixedCosts»,
  dep.«internal/dsp.var:abs0»,
  dep.«internal/dsp.var:clip1»,
  dep.«internal/dsp.var:hasAVX2»,
  dep.«internal/dsp.var:kWeightY»,
  dep.«internal/dsp.var:sclip1»,
  dep.«internal/dsp.var:sclip2»,
  dep.«internal/dsp.var:vp8LevelFixedCostsTable»,
  dep.«internal/dsp.var:vp8kClip»,
  dep.«internal/dsp.var:vp8kClip4Bits»,
  dep.«internal/dsp.ve16asmNEON»,
  dep.«internal/dsp.ve16asmSSE2»,
  dep.«internal/dsp.ve8uvasmNEON»,
  dep.«internal/dsp.ve8uvasmSSE2»,
  dep.«internal/dsp.yuvPackedToNRGBABatchAVX2»,
  dep.«internal/dsp.yuvPackedToNRGBABatchSSE2»,
  dep.«internal/lossy.const:BPS»,
  dep.«internal/lossy.dequantCoeffsSSE2»,
  dep.«internal/lossy.nzCountACSSE2»,
  dep.«internal/lossy.quantizeACAVX2»,
  dep.«internal/lossy.quantizeACSSE2»,
  dep.«internal/lossy.var:kReverseZigzag»
]
-- END deps vp8Kernels
def vp8Kernels : List Entry := vp8Kernels_roots ++ vp8Kernels_deps

/-- Webp/Impl/VP8LFastPaths.lean (literal fast paths of the VP8L pixel loop) -/
def vp8lFastPaths_roots : List Entry := [
  fp! "internal/lossless.Decoder.readHuffmanCodes" 0x3635e6f7425b3c09,
  fp! "internal/lossless.buildPackedTable" 0xa1e27ca6a7bffe08,
  fp! "internal/lossless.accumulateHCode" 0xf44f68e817f52029,
  fp! "internal/lossless.readPackedSymbols" 0xcada2b847a2db7db,
  fp! "internal/lossless.Decoder.decodeImageData" 0xface28a325742152,
  fp! "internal/lossless.ReadSymbol" 0x69e32bfcf8c46287
]
-- BEGIN deps vp8lFastPaths (written by tools/update_fingerprints.py — do not edit by hand)
def vp8lFastPaths_deps : List Entry := [
  dep.«internal/lossless.BuildHuffmanTableScratch»,
  dep.«internal/lossless.ColorCache.HashPix»,
  dep.«internal/lossless.ColorCache.Insert»,
  dep.«internal/lossless.ColorCache.Lookup»,
  dep.«internal/lossless.Decoder.decodeImageStream»,
  dep.«internal/lossless.Decoder.decodeSubImage»,
  dep.«internal/lossless.Decoder.getHTreeGroup»,
  dep.«internal/lossless.Decoder.getMetaIndex»,
  dep.«internal/lossless.Decoder.huffTableScratch»,
  dep.«internal/lossless.Decoder.readHuffmanCode»,
  dep.«internal/lossless.Decoder.readHuffmanCodeLengths»,
  dep.«internal/lossless.Decoder.readTransform»,
  dep.«internal/lossless.Decoder.updateDecoder»,
  dep.«internal/lossless.PlaneCodeToDistance»,
  dep.«internal/lossless.VP8LSubSampleSize»,
  dep.«internal/lossless.argbSliceToBytes»,
  dep.«internal/lossless.buildHuffmanTableSize»,
  dep.«internal/lossless.bytesToARGBSlice»,
  dep.«internal/lossless.const:CodeLengthCodes»,
  dep.«internal/lossless.const:CodeLengthLiterals»,
  dep.«internal/lossless.const:CodeLengthRepeatCode»,
  dep.«internal/lossless.const:CodeToPlaneCodesCount»,
  dep.«internal/lossless.const:ColorIndexingTransform»,
  dep.«internal/lossless.const:CrossColorTransform»,
  dep.«internal/lossless.const:DefaultCodeLength»,
  dep.«internal/lossless.const:HuffAlpha»,
  dep.«internal/lossless.const:HuffBlue»,
  dep.«internal/lossless.const:HuffDist»,
  dep.«internal/lossless.const:HuffGreen»,
  dep.«internal/lossless.const:HuffRed»,
  dep.«internal/lossless.const:HuffmanCodesPerMetaCode»,
  dep.«internal/lossless.const:HuffmanPackedBits»,
  dep.«internal/lossless.const:HuffmanPackedTableSize»,
  dep.«internal/lossless.const:HuffmanTableBits»,
  dep.«internal/lossless.const:HuffmanTableMask»,
  dep.«internal/lossless.const:LengthsTableBits»,
  dep.«internal/lossless.const:LengthsTableMask»,
  dep.«internal/lossless.const:MaxAllowedCodeLength»,
  dep.«internal/lossless.const:MaxCacheBits»,
  dep.«internal/lossless.const:MinHuffmanBits»,
  dep.«internal/lossless.const:MinTransformBits»,
  dep.«internal/lossless.const:NumDistanceCodes»,
  dep.«internal/lossless.const:NumHuffmanBits»,
  dep.«internal/lossless.const:NumLengthCodes»,
  dep.«internal/lossless.const:NumLiteralCodes»,
  dep.«internal/lossless.const:NumTransformBits»,
  dep.«internal/lossless.const:PredictorTransform»,
  dep.«internal/lossless.const:SubtractGreenTransform»,
  dep.«internal/lossless.const:bitsSpecialMarker»,
  dep.«internal/lossless.const:kHashMul»,
  dep.«internal/lossless.copyBlock32»,
  dep.«internal/lossless.expandColorMap»,
  dep.«internal/lossless.getNextKey»,
  dep.«internal/lossless.nextTableBitSize»,
  dep.«internal/lossless.replicateValue»,
  dep.«internal/lossless.var:CodeLengthCodeOrder»,
  dep.«internal/lossless.var:CodeLengthExtraBits»,
  dep.«internal/lossless.var:CodeLengthRepeatOffsets»,
  dep.«internal/lossless.var:CodeToPlane»,
  dep.«internal/lossless.var:ErrBitstream»,
  dep.«internal/lossless.var:ErrEmptyCodeLengths»,
  dep.«internal/lossless.var:ErrInvalidTree»,
  dep.«internal/lossless.var:KLiteralMap»,
  dep.«internal/lossless.var:kBaseAlphabetSize»
]
-- END deps vp8lFastPaths
def vp8lFastPaths : List Entry := vp8lFastPaths_roots ++ vp8lFastPaths_deps

/-- Webp/Impl/Writer.lean (RIFF writers of encode.go, lossless trailer, VP8 frame assembler) -/
def writer_roots : List Entry := [
  fp! "webp.writeRIFF" 0xd83298f126f9e0d2,
  fp! "webp.writeRIFFSimple" 0x847d7dd7e0f78046,
  fp! "webp.writeRIFFExtended" 0x83c1a0beea12662f,
  fp! "webp.putLE24" 0x882766cad7dd57f2,
  fp! "webp.encodeLosslessToWriter" 0x8286e0b6f714af06,
  fp! "webp.Encode" 0x8e4ded1f16dc5c62,
  fp! "internal/lossless.EncodeToWriter" 0x5cc4843276807858,
  fp! "internal/lossless.Encode" 0xc7e5c5025edd39bb,
  fp! "internal/lossy.VP8Encoder.assembleFrame" 0xb0fac7bd9270457e,
  fp! "internal/lossy.VP8Encoder.emitFrame" 0x29a6d3bb1525df9f,
  fp! "internal/lossy.AssembleRIFF" 0xc94e9105c60d0f50,
  fp! "internal/container.PutLE16" 0x9321ff0e8ba7f277,
  fp! "internal/container.PutLE32" 0x02c4652ec0de62e6
]
-- BEGIN deps writer (written by tools/update_fingerprints.py — do not edit by hand)
def writer_deps : List Entry := [
  dep.«internal/lossless.ApplyNearLossless»,
  dep.«internal/lossless.ApplyPaletteTransform»,
  dep.«internal/lossless.BackwardReferences2DLocality»,
  dep.«internal/lossless.BackwardReferencesLz77»,
  dep.«internal/lossless.BackwardReferencesLz77Box»,
  dep.«internal/lossless.BackwardReferencesRle»,
  dep.«internal/lossless.BackwardRefs.Add»,
  dep.«internal/lossless.BackwardRefs.Len»,
  dep.«internal/lossless.BackwardRefs.Refs»,
  dep.«internal/lossless.BackwardRefs.Reset»,
  dep.«internal/lossless.BackwardRefsWithLocalCache»,
  dep.«internal/lossless.BuildCodeLengthTokens»,
  dep.«internal/lossless.BuildCodeLengthTokensScratch»,
  dep.«internal/lossless.CachePixel»,
  dep.«internal/lossless.CalculateBestCacheSize»,
  dep.«internal/lossless.ColorCache.Contains»,
  dep.«internal/lossless.ColorCache.HashPix»,
  dep.«internal/lossless.ColorCache.Insert»,
  dep.«internal/lossless.ColorCache.Lookup»,
  dep.«internal/lossless.ColorCache.Reset»,
  dep.«internal/lossless.ColorIndexBuild»,
  dep.«internal/lossless.ColorSpaceTransform»,
  dep.«internal/lossless.CopyPixel»,
  dep.«internal/lossless.CreateHuffmanTreeScratch»,
  dep.«internal/lossless.DefaultEncoderConfig»,
  dep.«internal/lossless.DistanceToPlaneCode»,
  dep.«internal/lossless.Encoder.analyze»,
  dep.«internal/lossless.Encoder.applyPaletteTransform»,
  dep.«internal/lossless.Encoder.applyTransforms»,
  dep.«internal/lossless.Encoder.encodePalette»,
  dep.«internal/lossless.Encoder.encodeStream»,
  dep.«internal/lossless.Encoder.encodeSubImage»,
  dep.«internal/lossless.Encoder.storeImageData»,
  dep.«internal/lossless.Encoder.storeSubImageData»,
  dep.«internal/lossless.Encoder.writeTransformData»,
  dep.«internal/lossless.GetBackwardReferences»,
  dep.«internal/lossless.GetBackwardReferencesWithScratch»,
  dep.«internal/lossless.GetHistoImageSymbols»,
  dep.«internal/lossless.GetWindowSizeForHashChain»,
  dep.«internal/lossless.HashChain.Fill»,
  dep.«internal/lossless.HashChain.GetLength»,
  dep.«internal/lossless.HashChain.GetOffset»,
  dep.«internal/lossless.HashChain.fillParallel»,
  dep.«internal/lossless.HashChain.fillSerial»,
  dep.«internal/lossless.HistoSet.Get»,
  dep.«internal/lossless.HistoSet.Size»,
  dep.«internal/lossless.HistoSet.clearAll»,
  dep.«internal/lossless.HistoSet.remove»,
  dep.«internal/lossless.Histogram.AddRefs»,
  dep.«internal/lossless.Histogram.AddSingle»,
  dep.«internal/lossless.Histogram.Clear»,
  dep.«internal/lossless.Histogram.computeHistogramCost»,
  dep.«internal/lossless.Histogram.copyFrom»,
  dep.«internal/lossless.Histogram.population»,
  dep.«internal/lossless.Histogram.resetStats»,
  dep.«internal/lossless.HuffmanScratch.AllocTree»,
  dep.«internal/lossless.HuffmanScratch.ResetTreePool»,
  dep.«internal/lossless.LiteralPixel»,
  dep.«internal/lossless.NearLosslessBits»,
  dep.«internal/lossless.NewBackwardRefs»,
  dep.«internal/lossless.NewColorCache»,
  dep.«internal/lossless.NewHashChain»,
  dep.«internal/lossless.NewHistogram»,
  dep.«internal/lossless.PixOrCopy.Argb»,
  dep.«internal/lossless.PixOrCopy.CacheIndex»,
  dep.«internal/lossless.PixOrCopy.Distance»,
  dep.«internal/lossless.PixOrCopy.IsCacheIdx»,
  dep.«internal/lossless.PixOrCopy.IsCopy»,
  dep.«internal/lossless.PixOrCopy.IsLiteral»,
  dep.«internal/lossless.PixOrCopy.Length»,
  dep.«internal/lossless.PopulationCost»,
  dep.«internal/lossless.PrefixEncodeBitsNoLUT»,
  dep.«internal/lossless.PrefixEncodeNoLUT»,
  dep.«internal/lossless.ResidualImage»,
  dep.«internal/lossless.ReuseColorCache»,
  dep.«internal/lossless.StoreHuffmanCodeScratch»,
  dep.«internal/lossless.StoreHuffmanTreeOfHuffmanTreeToBitMask»,
  dep.«internal/lossless.StoreHuffmanTreeToBitMask»,
  dep.«internal/lossless.SubtractGreen»,
  dep.«internal/lossless.VP8LSubSampleSize»,
  dep.«internal/lossless.acquireEncoder»,
  dep.«internal/lossless.addSingleLiteralWithCostModel»,
  dep.«internal/lossless.allocateHistoSetReuse»,
  dep.«internal/lossless.applyColorTransformPixel»,
  dep.«internal/lossless.applyColorTransformTile»,
  dep.«internal/lossless.argbHasAlpha»,
  dep.«internal/lossless.assignCodeLengths»,
  dep.«internal/lossless.avg2»,
  dep.«internal/lossless.backwardReferencesHashChainDistanceOnly»,
  dep.«internal/lossless.backwardReferencesHashChainFollowChosenPath»,
  dep.«internal/lossless.backwardReferencesTraceBackwardsWithDist»,
  dep.«internal/lossless.bitsEntropyRefine»,
  dep.«internal/lossless.bitsLog2Floor»,
  dep.«internal/lossless.buildTreeAndExtractLengths»,
  dep.«internal/lossless.cacheBitsForEncoder»,
  dep.«internal/lossless.clampAddSubFull»,
  dep.«internal/lossless.clampAddSubHalf»,
  dep.«internal/lossless.clampBits»,
  dep.«internal/lossless.clampByte»,
  dep.«internal/lossless.clearHuffmanTreeIfOnlyOneSymbol»,
  dep.«internal/lossless.closestDiscretizedArgb»,
  dep.«internal/lossless.codeRepeatedValues»,
  dep.«internal/lossless.codeRepeatedZeros»,
  dep.«internal/lossless.const:ARGBBlack»,
  dep.«internal/lossless.const:CodeLengthCodes»,
  dep.«internal/lossless.const:CodeLengthRepeatCode»,
  dep.«internal/lossless.const:CodeToPlaneCodesCount»,
  dep.«internal/lossless.const:ColorIndexingTransform»,
  dep.«internal/lossless.const:CrossColorTransform»,
  dep.«internal/lossless.const:HuffmanCodesPerMetaCode»,
  dep.«internal/lossless.const:MaxAllowedCodeLength»,
  dep.«internal/lossless.const:MaxCacheBits»,
  dep.«internal/lossless.const:MaxPaletteSize»,
  dep.«internal/lossless.const:MinHuffmanBits»,
  dep.«internal/lossless.const:MinTransformBits»,
  dep.«internal/lossless.const:NumDistanceCodes»,
  dep.«internal/lossless.const:NumHuffmanBits»,
  dep.«internal/lossless.const:NumLengthCodes»,
  dep.«internal/lossless.const:NumLiteralCodes»,
  dep.«internal/lossless.const:NumTransformBits»,
  dep.«internal/lossless.const:PredictorTransform»,
  dep.«internal/lossless.const:SubtractGreenTransform»,
  dep.«internal/lossless.const:TransformPresent»,
  dep.«internal/lossless.const:VP8LImageSizeBits»,
  dep.«internal/lossless.const:VP8LMagicByte»,
  dep.«internal/lossless.const:VP8LVersion»,
  dep.«internal/lossless.const:VP8LVersionBits»,
  dep.«internal/lossless.const:binSize»,
  dep.«internal/lossless.const:costCacheIntervalSizeMax»,
  dep.«internal/lossless.const:fastSLog2LUTSize»,
  dep.«internal/lossless.const:hashBits»,
  dep.«internal/lossless.const:hashSize»,
  dep.«internal/lossless.const:histAlpha»,
  dep.«internal/lossless.const:histBlue»,
  dep.«internal/lossless.const:histDistance»,
  dep.«internal/lossless.const:histLiteral»,
  dep.«internal/lossless.const:histRed»,
  dep.«internal/lossless.const:kHashMul»,
  dep.«internal/lossless.const:kHashMultiplierHi»,
  dep.«internal/lossless.const:kHashMultiplierLo»,
  dep.«internal/lossless.const:kLZ77Box»,
  dep.«internal/lossless.const:kLZ77RLE»,
  dep.«internal/lossless.const:kLZ77Standard»,
  dep.«internal/lossless.const:maxColorCacheBitsEnc»,
  dep.«internal/lossless.const:maxHistoGreedy»,
  dep.«internal/lossless.const:maxHuffImageSize»,
  dep.«internal/lossless.const:maxHuffmanBits»,
  dep.«internal/lossless.const:maxLength»,
  dep.«internal/lossless.const:maxLengthBits»,
  dep.«internal/lossless.const:maxLimitBits»,
  dep.«internal/lossless.const:minDimForNearLossless»,
  dep.«internal/lossless.const:minLength»,
  dep.«internal/lossless.const:modeCacheIdx»,
  dep.«internal/lossless.const:modeCopy»,
  dep.«internal/lossless.const:modeLiteral»,
  dep.«internal/lossless.const:nonTrivialSym»,
  dep.«internal/lossless.const:numPartitions»,
  dep.«internal/lossless.const:numPredictors»,
  dep.«internal/lossless.const:windowOffsetsMaxSize»,
  dep.«internal/lossless.const:windowSize»,
  dep.«internal/lossless.const:windowSizeBits»,
  dep.«internal/lossless.convertPopulationCountToBitEstimates»,
  dep.«internal/lossless.copyImageWithPrediction»,
  dep.«internal/lossless.costManager.allocInterval»,
  dep.«internal/lossless.costManager.connectIntervals»,
  dep.«internal/lossless.costManager.freeInterval»,
  dep.«internal/lossless.costManager.insertInterval»,
  dep.«internal/lossless.costManager.popInterval»,
  dep.«internal/lossless.costManager.positionOrphanInterval»,
  dep.«internal/lossless.costManager.pushInterval»,
  dep.«internal/lossless.costManager.updateCost»,
  dep.«internal/lossless.costManager.updateCostAtIndex»,
  dep.«internal/lossless.costManager.updateCostPerInterval»,
  dep.«internal/lossless.costModelTrace.build»,
  dep.«internal/lossless.costModelTrace.getCacheCost»,
  dep.«internal/lossless.costModelTrace.getDistanceCost»,
  dep.«internal/lossless.costModelTrace.getLengthCost»,
  dep.«internal/lossless.costModelTrace.getLiteralCost»,
  dep.«internal/lossless.dominantCostRange.update»,
  dep.«internal/lossless.encColorTransformDelta»,
  dep.«internal/lossless.estimateEntropy»,
  dep.«internal/lossless.extraCost»,
  dep.«internal/lossless.extractClusterCenters»,
  dep.«internal/lossless.fastSLog2»,
  dep.«internal/lossless.fillMatchRange»,
  dep.«internal/lossless.finalHuffmanCost»,
  dep.«internal/lossless.findBestMultiplier»,
  dep.«internal/lossless.findBestMultipliers»,
  dep.«internal/lossless.findClosestDiscretized»,
  dep.«internal/lossless.findMatchLength»,
  dep.«internal/lossless.fixPair»,
  dep.«internal/lossless.generateCanonicalCodes»,
  dep.«internal/lossless.getBinIDForEntropy»,
  dep.«internal/lossless.getCombineCostFactor»,
  dep.«internal/lossless.getCombinedEntropy»,
  dep.«internal/lossless.getCombinedEntropyUnrefined»,
  dep.«internal/lossless.getCombinedHistogramEntropy»,
  dep.«internal/lossless.getEntropyUnrefined»,
  dep.«internal/lossless.getEntropyUnrefinedHelper»,
  dep.«internal/lossless.getHistoBinIndex»,
  dep.«internal/lossless.getHistoBits»,
  dep.«internal/lossless.getMaxItersForQuality»,
  dep.«internal/lossless.getPixPairHash64»,
  dep.«internal/lossless.getPixPairHash64Values»,
  dep.«internal/lossless.getTransformBits»,
  dep.«internal/lossless.histoQueue.popAt»,
  dep.«internal/lossless.histoQueue.push»,
  dep.«internal/lossless.histoQueue.size»,
  dep.«internal/lossless.histoQueue.updateHead»,
  dep.«internal/lossless.histogramAdd»,
  dep.«internal/lossless.histogramAddEvalThresh»,
  dep.«internal/lossless.histogramAddThresh»,
  dep.«internal/lossless.histogramBuild»,
  dep.«internal/lossless.histogramCombineEntropyBin»,
  dep.«internal/lossless.histogramCombineGreedy»,
  dep.«internal/lossless.histogramCombineStochastic»,
  dep.«internal/lossless.histogramEstimateBitsFromRefsScratch»,
  dep.«internal/lossless.histogramEstimateBitsUint64»,
  dep.«internal/lossless.histogramNumCodes»,
  dep.«internal/lossless.histogramRemap»,
  dep.«internal/lossless.initialHuffmanCost»,
  dep.«internal/lossless.isNear»,
  dep.«internal/lossless.isSmooth»,
  dep.«internal/lossless.lehmerRand»,
  dep.«internal/lossless.maxFindCopyLength»,
  dep.«internal/lossless.multiplierCost»,
  dep.«internal/lossless.nearLosslessPass»,
  dep.«internal/lossless.newCostManager»,
  dep.«internal/lossless.newCostModelTrace»,
  dep.«internal/lossless.newDominantCostRange»,
  dep.«internal/lossless.nodeHeap.Len»,
  dep.«internal/lossless.nodeHeap.heapInit»,
  dep.«internal/lossless.nodeHeap.less»,
  dep.«internal/lossless.nodeHeap.pop»,
  dep.«internal/lossless.nodeHeap.push»,
  dep.«internal/lossless.nodeHeap.siftDown»,
  dep.«internal/lossless.nodeHeap.swap»,
  dep.«internal/lossless.optimizeSampling»,
  dep.«internal/lossless.packMultipliers»,
  dep.«internal/lossless.paletteCodeBits»,
  dep.«internal/lossless.parallelComputeHistogramCost»,
  dep.«internal/lossless.populationCost»,
  dep.«internal/lossless.predictPixel»,
  dep.«internal/lossless.releaseEncoder»,
  dep.«internal/lossless.removeUnusedHistograms»,
  dep.«internal/lossless.reverseBits»,
  dep.«internal/lossless.selectPred»,
  dep.«internal/lossless.storeFullHuffmanCodeScratch»,
  dep.«internal/lossless.storeSimpleHuffmanCode»,
  dep.«internal/lossless.subPixels»,
  dep.«internal/lossless.subPixelsEnc»,
  dep.«internal/lossless.tileTracker.merge»,
  dep.«internal/lossless.tileTracker.swapRemove»,
  dep.«internal/lossless.traceBackwards»,
  dep.«internal/lossless.var:CodeLengthCodeOrder»,
  dep.«internal/lossless.var:CodeLengthExtraBits»,
  dep.«internal/lossless.var:ErrImageTooLarge»,
  dep.«internal/lossless.var:fastSLog2LUT»,
  dep.«internal/lossless.var:losslessEncoderPool»,
  dep.«internal/lossless.var:multiplierDeltaByteLUT»,
  dep.«internal/lossless.var:planeToCodeLUT»,
  dep.«internal/lossless.writeHuffmanCode»,
  dep.«internal/lossy.TokenBuffer.EmitTokens»,
  dep.«internal/lossy.TokenBuffer.EmitTokensPartitioned»,
  dep.«internal/lossy.TokenBuffer.Reset»,
  dep.«internal/lossy.TokenBuffer.addPage»,
  dep.«internal/lossy.TokenBuffer.tokenCount»,
  dep.«internal/lossy.VP8Encoder.emitPartition0»,
  dep.«internal/lossy.VP8Encoder.emitTokenPartitions»,
  dep.«internal/lossy.VP8Encoder.writeCoeffProba»,
  dep.«internal/lossy.VP8Encoder.writeFilterHeader»,
  dep.«internal/lossy.VP8Encoder.writeMBModes»,
  dep.«internal/lossy.VP8Encoder.writeQuantParams»,
  dep.«internal/lossy.VP8Encoder.writeSegmentHeader»,
  dep.«internal/lossy.boolToIntEnc»,
  dep.«internal/lossy.const:BDCPred»,
  dep.«internal/lossy.const:BHDPred»,
  dep.«internal/lossy.const:BHEPred»,
  dep.«internal/lossy.const:BHUPred»,
  dep.«internal/lossy.const:BLDPred»,
  dep.«internal/lossy.const:BRDPred»,
  dep.«internal/lossy.const:BTMPred»,
  dep.«internal/lossy.const:BVEPred»,
  dep.«internal/lossy.const:BVLPred»,
  dep.«internal/lossy.const:BVRPred»,
  dep.«internal/lossy.const:DCPred»,
  dep.«internal/lossy.const:HPred»,
  dep.«internal/lossy.const:MBFeatureTreeProbs»,
  dep.«internal/lossy.const:NumBModes»,
  dep.«internal/lossy.const:NumBands»,
  dep.«internal/lossy.const:NumCTX»,
  dep.«internal/lossy.const:NumMBSegments»,
  dep.«internal/lossy.const:NumModeLFDeltas»,
  dep.«internal/lossy.const:NumProbas»,
  dep.«internal/lossy.const:NumRefLFDeltas»,
  dep.«internal/lossy.const:NumTypes»,
  dep.«internal/lossy.const:TMPred»,
  dep.«internal/lossy.const:VPred»,
  dep.«internal/lossy.const:maxPartition0Size»,
  dep.«internal/lossy.const:maxPartitionSize»,
  dep.«internal/lossy.const:tokenPageSize»,
  dep.«internal/lossy.getBoolWriter»,
  dep.«internal/lossy.i4SubtreeContains»,
  dep.«internal/lossy.putBoolWriter»,
  dep.«internal/lossy.var:CoeffsProba0»,
  dep.«internal/lossy.var:CoeffsUpdateProba»,
  dep.«internal/lossy.var:ErrPartition0Overflow»,
  dep.«internal/lossy.var:ErrPartitionOverflow»,
  dep.«internal/lossy.var:KBModesProba»,
  dep.«internal/lossy.var:KYModesIntra4»,
  dep.«internal/lossy.var:boolWriterPool»,
  dep.«internal/lossy.writeI16Mode»,
  dep.«internal/lossy.writeI4ModeBits»,
  dep.«internal/lossy.writeSegmentID»,
  dep.«internal/lossy.writeUVMode»,
  dep.«webp.DefaultOptions»,
  dep.«webp.cleanupTransparentAreaLossless»,
  dep.«webp.cleanupTransparentAreaLossyWith»,
  dep.«webp.const:MaxDimension»,
  dep.«webp.const:PresetDefault»,
  dep.«webp.const:PresetText»,
  dep.«webp.encodeLossless»,
  dep.«webp.encodeLossyWithAlpha»,
  dep.«webp.extractAlphaWith»,
  dep.«webp.flattenBlockNRGBA»,
  dep.«webp.imageHasAlpha»,
  dep.«webp.resolveAlphaCompression»,
  dep.«webp.resolveAlphaFiltering»,
  dep.«webp.resolveAlphaQuality»,
  dep.«webp.resolveQMax»,
  dep.«webp.rgbaIsOpaque»,
  dep.«webp.rgbaToNRGBA»,
  dep.«webp.sharpYUVConvert»,
  dep.«webp.smoothenBlockNRGBA»,
  dep.«webp.validNRGBA»,
  dep.«webp.validRGBA»,
  dep.«webp.validateConfig»,
  dep.«webp.var:argbPool»
]
-- END deps writer
def writer : List Entry := writer_roots ++ writer_deps

/-- Go side of suites vp8 / c05 / c17 against Webp/Spec/VP8 (RFC 6386 decoder): the lossy decoder functions not transcribed elsewhere -/
def vp8DecodeGo_roots : List Entry := [
  fp! "internal/lossy.Decoder.precomputeFilterStrengths" 0x29d12a0306b8f0b8,
  fp! "internal/lossy.Decoder.filterRowAt" 0xa49bddb16e72bb5b,
  fp! "internal/lossy.Decoder.doFilter" 0x03447b47c533beff,
  fp! "internal/lossy.fillBytes" 0x594b2a8e18fd6244,
  fp! "internal/lossy.simpleHFilter16At" 0x596cac6d0c0d91bd,
  fp! "internal/lossy.simpleHFilter16iAt" 0xfa2871718cfc819e,
  fp! "internal/lossy.filterLoop26VAt" 0x8641e5846e5fd956,
  fp! "internal/lossy.filterLoop26At" 0x7b8ca0156db01393,
  fp! "internal/lossy.filterLoop26HAt" 0xd97fd4e8a63bd7ba,
  fp! "internal/lossy.filterLoop24VAt" 0xef619ca4c2ef5f0f,
  fp! "internal/lossy.filterLoop24HAt" 0x354df9c0fac2b5a9,
  fp! "internal/lossy.vFilter16iAt" 0xd429393dc1187a5c,
  fp! "internal/lossy.hFilter16iAt" 0x6e021535365a9b9e,
  fp! "internal/lossy.vFilter8iAt" 0x9ea6de509720ae83,
  fp! "internal/lossy.hFilter8iAt" 0xfbd9d48eb2456fb6,
  fp! "internal/lossy.needsFilter2At" 0x08522ea7eeb7f81f,
  fp! "internal/lossy.isHEV" 0xa4727306f2449aab,
  fp! "internal/lossy.doSimpleFilter2" 0x01fa77a162aa75ee,
  fp! "internal/lossy.doSimpleFilter4" 0x5edfb78511bf3b06,
  fp! "internal/lossy.doSimpleFilter6" 0x960dee2a28f4e7ac,
  fp! "internal/lossy.abs" 0xdef51228dbb218b5,
  fp! "internal/lossy.sclip1" 0x67a706bf4f2f098e,
  fp! "internal/lossy.sclip2" 0x087f0052e012115d,
  fp! "internal/lossy.clamp255" 0x403f2acb84b0f5a7,
  fp! "internal/lossy.b2i" 0x00e39e6a050abcf5,
  fp! "internal/lossy.ReleaseDecoder" 0x5e51ca865e7dae59,
  fp! "webp.ycbcrToNRGBA" 0xcf2cd1bbf410183d,
  fp! "internal/dsp.PointSampleRow" 0x511ebabfc480f62d,
  fp! "internal/dsp.YUVToRGB" 0x8a31841169aa14ad,
  fp! "internal/dsp.VP8ClipUV" 0x1b20fa8b52a6a3dc
]
-- BEGIN deps vp8DecodeGo (written by tools/update_fingerprints.py — do not edit by hand)
def vp8DecodeGo_deps : List Entry := [
  dep.«internal/dsp.YUVToB»,
  dep.«internal/dsp.YUVToG»,
  dep.«internal/dsp.YUVToR»,
  dep.«internal/dsp.const:kBBias»,
  dep.«internal/dsp.const:kBCb»,
  dep.«internal/dsp.const:kGBias»,
  dep.«internal/dsp.const:kGCb»,
  dep.«internal/dsp.const:kGCr»,
  dep.«internal/dsp.const:kRBias»,
  dep.«internal/dsp.const:kRCr»,
  dep.«internal/dsp.const:kYScale»,
  dep.«internal/dsp.const:yuvFix»,
  dep.«internal/dsp.const:yuvFix2»,
  dep.«internal/dsp.const:yuvMask»,
  dep.«internal/dsp.multHi»,
  dep.«internal/dsp.var:vp8kClip»,
  dep.«internal/lossy.const:NumMBSegments»,
  dep.«internal/lossy.var:lossyDecoderPool»
]
-- END deps vp8DecodeGo
def vp8DecodeGo : List Entry := vp8DecodeGo_roots ++ vp8DecodeGo_deps

/-- Webp/Impl/Alpha.lean, decoder half (internal/lossy/alpha.go) -/
def alphaDec_roots : List Entry := [
  fp! "internal/lossy.DecodeAlpha" 0x47a5f28f4696d62a,
  fp! "internal/lossy.alphaUnfilterHorizontal" 0x534f02f0837cd3d7,
  fp! "internal/lossy.alphaUnfilterVertical" 0x35794c7cffaa3e56,
  fp! "internal/lossy.alphaUnfilterHorizontalRow" 0xe75d8bf9a7b354d3,
  fp! "internal/lossy.alphaUnfilterGradient" 0xeb24c3ac6f7e7536
]
-- BEGIN deps alphaDec (written by tools/update_fingerprints.py — do not edit by hand)
def alphaDec_deps : List Entry := [
  dep.«internal/lossy.alphaVP8LStream»,
  dep.«internal/lossy.const:AlphaFilterGradient»,
  dep.«internal/lossy.const:AlphaFilterHorizontal»,
  dep.«internal/lossy.const:AlphaFilterNone»,
  dep.«internal/lossy.const:AlphaFilterVertical»,
  dep.«internal/lossy.const:AlphaLosslessCompression»,
  dep.«internal/lossy.const:AlphaNoCompression»
]
-- END deps alphaDec
def alphaDec : List Entry := alphaDec_roots ++ alphaDec_deps

/-- Webp/Impl/Alpha.lean, encoder half (internal/lossy/alpha.go) -/
def alphaEnc_roots : List Entry := [
  fp! "internal/lossy.EncodeAlpha" 0x57c16f24275a189c,
  fp! "internal/lossy.getFilterMap" 0x62c1a443510d9045,
  fp! "internal/lossy.getNumColors" 0x0d8e03f4b2308019,
  fp! "internal/lossy.estimateBestFilter" 0x56d0674f09ae9eda,
  fp! "internal/lossy.alphaFilterHorizontal" 0x53e220a872d612a3,
  fp! "internal/lossy.alphaFilterVertical" 0x0c7596bdc21a3cc4,
  fp! "internal/lossy.alphaFilterGradient" 0x97d37373a2f7e8ad,
  fp! "internal/lossy.encodeAlphaInternal" 0xa1ef326af6d48a1a,
  fp! "internal/lossy.alphaVP8LStream" 0xa584bcb425594381,
  fp! "internal/lossy.applyFiltersAndEncode" 0xdd668cd15793ded6,
  fp! "internal/lossy.quantizeLevels" 0x4ed54d0e021222a7
]
-- BEGIN deps alphaEnc (written by tools/update_fingerprints.py — do not edit by hand)
def alphaEnc_deps : List Entry := [
  dep.«internal/lossy.const:AlphaFilterGradient»,
  dep.«internal/lossy.const:AlphaFilterHorizontal»,
  dep.«internal/lossy.const:AlphaFilterModeFast»,
  dep.«internal/lossy.const:AlphaFilterModeNone»,
  dep.«internal/lossy.const:AlphaFilterNone»,
  dep.«internal/lossy.const:AlphaFilterVertical»,
  dep.«internal/lossy.const:AlphaLosslessCompression»,
  dep.«internal/lossy.const:AlphaNoCompression»,
  dep.«internal/lossy.const:alphaFilterLast»,
  dep.«internal/lossy.const:alphaPreprocessedLevels»
]
-- END deps alphaEnc
def alphaEnc : List Entry := alphaEnc_roots ++ alphaEnc_deps

/-- Webp/Impl/Alpha.lean, glue section (encode.go / webp.go) -/
def alphaGlue_roots : List Entry := [
  fp! "webp.imageHasAlpha" 0xeb9a644ac8463430,
  fp! "webp.extractAlpha" 0xb83ecd90b2f5f73b,
  fp! "webp.extractAlphaWith" 0xc43ac4477c1543f8,
  fp! "webp.encodeLossyWithAlpha" 0x08226ead4703904f,
  fp! "webp.decodeLossy" 0x7eeae068373756e5,
  fp! "webp.writeRIFF" 0xd83298f126f9e0d2
]
-- BEGIN deps alphaGlue (written by tools/update_fingerprints.py — do not edit by hand)
def alphaGlue_deps : List Entry := [
  dep.«webp.buildNRGBA»,
  dep.«webp.buildYCbCr»,
  dep.«webp.cleanupTransparentAreaLossyWith»,
  dep.«webp.flattenBlockNRGBA»,
  dep.«webp.putLE24»,
  dep.«webp.resolveAlphaCompression»,
  dep.«webp.resolveAlphaFiltering»,
  dep.«webp.resolveAlphaQuality»,
  dep.«webp.resolveQMax»,
  dep.«webp.sharpYUVConvert»,
  dep.«webp.smoothenBlockNRGBA»,
  dep.«webp.validNRGBA»,
  dep.«webp.validRGBA»,
  dep.«webp.writeRIFFExtended»,
  dep.«webp.writeRIFFSimple»
]
-- END deps alphaGlue
def alphaGlue : List Entry := alphaGlue_roots ++ alphaGlue_deps

/-- Webp/Impl/LTransform.lean, forward transforms and LZ77 value codes of the encoder -/
def lTransformFwd_roots : List Entry := [
  fp! "internal/lossless.SubtractGreen" 0xb1e25eaccf6437c4,
  fp! "internal/lossless.applyColorTransformPixel" 0x151aa0caa0e8742c,
  fp! "internal/lossless.applyColorTransformTile" 0x183b5611471383a8,
  fp! "internal/lossless.encColorTransformDelta" 0xcfb6326e973d4aa6,
  fp! "internal/lossless.packMultipliers" 0x1b2251c455d9fd02,
  fp! "internal/lossless.copyImageWithPrediction" 0x15470999fec8cb33,
  fp! "internal/lossless.predictPixel" 0x41ab5a5cbec14002,
  fp! "internal/lossless.subPixels" 0xe1ddccfe20ad7518,
  fp! "internal/lossless.avg2" 0x446cbbd3b8ab6066,
  fp! "internal/lossless.selectPred" 0x232d2c75beb5800d,
  fp! "internal/lossless.clampByte" 0x7fb89861620bbad2,
  fp! "internal/lossless.clampAddSubFull" 0xa50ee7c1bbc5c807,
  fp! "internal/lossless.clampAddSubHalf" 0x3556d71e189fa4ca,
  fp! "internal/lossless.ApplyPaletteTransform" 0xc7e27aa2d709c02e,
  fp! "internal/lossless.ResidualImage" 0x61fc2ce633a8ff06,
  fp! "internal/lossless.ColorSpaceTransform" 0xafd9d90b258e6b34,
  fp! "internal/lossless.ColorIndexBuild" 0x4d7993d5f16e6e83,
  fp! "internal/lossless.PrefixEncodeNoLUT" 0x689d81e057d3da19,
  fp! "internal/lossless.PrefixEncodeBitsNoLUT" 0x0af82b408d6ee608,
  fp! "internal/lossless.bitsLog2Floor" 0xbe26fa8e08be8a28,
  fp! "internal/lossless.DistanceToPlaneCode" 0x7cbd05cd440a141d,
  fp! "internal/lossless.Encoder.applyTransforms" 0x3176f71390052bd5,
  fp! "internal/lossless.Encoder.applyPaletteTransform" 0xa9496cb913a7244b,
  fp! "internal/dsp.SubtractGreen" 0x997ff0db0994cb8c,
  fp! "internal/dsp.subtractGreenGo" 0xb067e37112d3aa78,
  fp! "webp.cleanupTransparentAreaLossless" 0xd627a929fac7ead8
]
-- BEGIN deps lTransformFwd (written by tools/update_fingerprints.py — do not edit by hand)
def lTransformFwd_deps : List Entry := [
  dep.«internal/dsp.var:SubtractGreenFunc»,
  dep.«internal/lossless.VP8LSubSampleSize»,
  dep.«internal/lossless.const:ARGBBlack»,
  dep.«internal/lossless.const:CodeToPlaneCodesCount»,
  dep.«internal/lossless.const:ColorIndexingTransform»,
  dep.«internal/lossless.const:CrossColorTransform»,
  dep.«internal/lossless.const:MaxPaletteSize»,
  dep.«internal/lossless.const:PredictorTransform»,
  dep.«internal/lossless.const:SubtractGreenTransform»,
  dep.«internal/lossless.const:fastSLog2LUTSize»,
  dep.«internal/lossless.const:numPredictors»,
  dep.«internal/lossless.estimateEntropy»,
  dep.«internal/lossless.fastSLog2»,
  dep.«internal/lossless.findBestMultiplier»,
  dep.«internal/lossless.findBestMultipliers»,
  dep.«internal/lossless.multiplierCost»,
  dep.«internal/lossless.paletteCodeBits»,
  dep.«internal/lossless.var:fastSLog2LUT»,
  dep.«internal/lossless.var:multiplierDeltaByteLUT»,
  dep.«internal/lossless.var:planeToCodeLUT»
]
-- END deps lTransformFwd
def lTransformFwd : List Entry := lTransformFwd_roots ++ lTransformFwd_deps

/-- Webp/Impl/LTransform.lean, inverse transforms and LZ77 value codes of the decoder -/
def lTransformInv_roots : List Entry := [
  fp! "internal/lossless.addPixels" 0x704384510638a805,
  fp! "internal/lossless.average2" 0xcea11dfd93a59559,
  fp! "internal/lossless.selectPredictor" 0xb9dc39b68ce06a4a,
  fp! "internal/lossless.clampedAddSubtractFull" 0xd4a39602197f4994,
  fp! "internal/lossless.clampedAddSubtractHalf" 0xdd4ffad4c57cc9b3,
  fp! "internal/lossless.predictorInverseTransform" 0xc6ecaa9431b511d5,
  fp! "internal/lossless.colorSpaceInverseTransform" 0xa54855962ec555e3,
  fp! "internal/lossless.colorSpaceInverseTransformParallel" 0xc8613aa706e393bc,
  fp! "internal/lossless.colorIndexInverseTransform" 0x44fadfc26c8ffbdc,
  fp! "internal/lossless.getARGBIndex" 0x6f127e20cbc8b78e,
  fp! "internal/lossless.inverseTransform" 0xf8d7cd3656e7c5a1,
  fp! "internal/lossless.addGreenToBlueAndRed" 0x6361e5bd3a956f60,
  fp! "internal/lossless.Decoder.applyInverseTransforms" 0x3d47c423f2c66f0b,
  fp! "internal/lossless.expandColorMap" 0x575a8cf50e270740,
  fp! "internal/lossless.PlaneCodeToDistance" 0xe80d0822bde0c387,
  fp! "internal/lossless.getCopyDistance" 0x3615c5bee94a5e3d,
  fp! "internal/lossless.getCopyLength" 0x24d9ba89d4802363,
  fp! "internal/dsp.AddGreenToBlueAndRed" 0xd524534fc735d3d4,
  fp! "internal/dsp.addGreenToBlueAndRedGo" 0x1bf73c4ae5f257d5
]
-- BEGIN deps lTransformInv (written by tools/update_fingerprints.py — do not edit by hand)
def lTransformInv_deps : List Entry := [
  dep.«internal/dsp.var:AddGreenToBlueAndRedFunc»,
  dep.«internal/lossless.VP8LSubSampleSize»,
  dep.«internal/lossless.argbSliceToBytes»,
  dep.«internal/lossless.bytesToARGBSlice»,
  dep.«internal/lossless.const:CodeToPlaneCodesCount»,
  dep.«internal/lossless.const:ColorIndexingTransform»,
  dep.«internal/lossless.const:CrossColorTransform»,
  dep.«internal/lossless.const:PredictorTransform»,
  dep.«internal/lossless.const:SubtractGreenTransform»,
  dep.«internal/lossless.const:minPixelsForParallel»,
  dep.«internal/lossless.var:CodeToPlane»
]
-- END deps lTransformInv
def lTransformInv : List Entry := lTransformInv_roots ++ lTransformInv_deps

/-- Webp/Impl/VP8LEntropy.lean, encoder half (canonical codes, code-length coding, token emission, bit writer) -/
def vp8lEntropyEnc_roots : List Entry := [
  fp! "internal/lossless.reverseBits" 0x8525511f268e229f,
  fp! "internal/lossless.generateCanonicalCodes" 0x17df4405d68ae7b3,
  fp! "internal/lossless.codeRepeatedZeros" 0x55981a7cb94cccaf,
  fp! "internal/lossless.codeRepeatedValues" 0x1b557168320610a7,
  fp! "internal/lossless.BuildCodeLengthTokens" 0x02444363aec74b2c,
  fp! "internal/lossless.BuildCodeLengthTokensScratch" 0x2472fd9408a4e98d,
  fp! "internal/lossless.StoreHuffmanTreeOfHuffmanTreeToBitMask" 0x2995672801320f58,
  fp! "internal/lossless.StoreHuffmanTreeToBitMask" 0xbb2846bdac905493,
  fp! "internal/lossless.storeSimpleHuffmanCode" 0xe14fe120e08ebf0f,
  fp! "internal/lossless.storeFullHuffmanCode" 0x18f3a5f1ff94d018,
  fp! "internal/lossless.storeFullHuffmanCodeScratch" 0x6bdbcd9cc72267cf,
  fp! "internal/lossless.StoreHuffmanCode" 0xe1d834417f1015d4,
  fp! "internal/lossless.StoreHuffmanCodeScratch" 0x8c95dfd72b2f0573,
  fp! "internal/lossless.clearHuffmanTreeIfOnlyOneSymbol" 0x91ad8901948000f8,
  fp! "internal/lossless.writeHuffmanCode" 0xbb743e63d829bc40,
  fp! "internal/lossless.Encoder.storeImageData" 0x8adbe784f4c4761c,
  fp! "internal/lossless.Encoder.encodeStream" 0xe6d4c65aa60c28aa,
  fp! "internal/lossless.Encoder.encodeSubImage" 0xb5bfcbe0fb0b68ea,
  fp! "internal/lossless.Encoder.storeSubImageData" 0xd8b82d725935bec2,
  fp! "internal/lossless.Encoder.writeTransformData" 0xf746e59ed5fac3af,
  fp! "internal/lossless.Encoder.encodePalette" 0x597a4fae4d3fb7c9,
  fp! "internal/lossless.Encoder.encodeHistogramImage" 0xd095dc83d375c1ce,
  fp! "internal/lossless.optimizeSampling" 0xc3a0d8d905430fc8,
  fp! "internal/lossless.BackwardReferences2DLocality" 0xa250f28edc484b32,
  fp! "internal/lossless.BackwardRefsWithLocalCache" 0x950f58ccc2bd21f0,
  fp! "internal/lossless.NewColorCache" 0x147e74f0fc609cca,
  fp! "internal/lossless.ColorCache.HashPix" 0xe1c3568b621396fa,
  fp! "internal/lossless.ColorCache.Insert" 0xbae54310ed06fa49,
  fp! "internal/lossless.ColorCache.Lookup" 0xa60743a9aeb8d6cf,
  fp! "internal/lossless.ColorCache.Contains" 0x1237de9d633fe048,
  fp! "internal/lossless.AlphabetSize" 0xb4d30bfe3292a7cb,
  fp! "internal/bitio.NewLosslessWriter" 0xb4cbc0c1942ada82,
  fp! "internal/bitio.NewLosslessWriterWithBuf" 0x306da51c3123e183,
  fp! "internal/bitio.LosslessWriter.WriteBits" 0xaf5289fc01eb0364,
  fp! "internal/bitio.LosslessWriter.flushBits" 0xf856a70bc0730fa4,
  fp! "internal/bitio.LosslessWriter.grow" 0xdb0d66ca7abd32f2,
  fp! "internal/bitio.LosslessWriter.Finish" 0x3e383d6c1ecba8ec,
  fp! "internal/lossless.GetHistoImageSymbols" 0xd86eb4566668ab72,
  fp! "internal/lossless.removeUnusedHistograms" 0xfb81932011c19abc,
  fp! "internal/lossless.histogramCombineEntropyBin" 0x264ebfc2d8159aec,
  fp! "internal/lossless.histogramCombineStochastic" 0x92242ba403bf0f68,
  fp! "internal/lossless.histogramCombineGreedy" 0x73e984e3ef951cbd,
  fp! "internal/lossless.histogramBuild" 0x72aae853e05f424f,
  fp! "internal/lossless.histogramRemap" 0x864f3b324bdf4c37
]
-- BEGIN deps vp8lEntropyEnc (written by tools/update_fingerprints.py — do not edit by hand)
def vp8lEntropyEnc_deps : List Entry := [
  dep.«internal/bitio.const:writerBits»,
  dep.«internal/bitio.const:writerBytes»,
  dep.«internal/lossless.BackwardReferencesLz77»,
  dep.«internal/lossless.BackwardReferencesLz77Box»,
  dep.«internal/lossless.BackwardReferencesRle»,
  dep.«internal/lossless.BackwardRefs.Add»,
  dep.«internal/lossless.BackwardRefs.Len»,
  dep.«internal/lossless.BackwardRefs.Refs»,
  dep.«internal/lossless.BackwardRefs.Reset»,
  dep.«internal/lossless.CachePixel»,
  dep.«internal/lossless.CalculateBestCacheSize»,
  dep.«internal/lossless.ColorCache.Reset»,
  dep.«internal/lossless.CopyPixel»,
  dep.«internal/lossless.CreateHuffmanTreeScratch»,
  dep.«internal/lossless.DistanceToPlaneCode»,
  dep.«internal/lossless.GetBackwardReferences»,
  dep.«internal/lossless.GetBackwardReferencesWithScratch»,
  dep.«internal/lossless.GetWindowSizeForHashChain»,
  dep.«internal/lossless.HashChain.Fill»,
  dep.«internal/lossless.HashChain.GetLength»,
  dep.«internal/lossless.HashChain.GetOffset»,
  dep.«internal/lossless.HashChain.fillParallel»,
  dep.«internal/lossless.HashChain.fillSerial»,
  dep.«internal/lossless.HistoSet.Get»,
  dep.«internal/lossless.HistoSet.Size»,
  dep.«internal/lossless.HistoSet.clearAll»,
  dep.«internal/lossless.HistoSet.remove»,
  dep.«internal/lossless.Histogram.AddRefs»,
  dep.«internal/lossless.Histogram.AddSingle»,
  dep.«internal/lossless.Histogram.Clear»,
  dep.«internal/lossless.Histogram.computeHistogramCost»,
  dep.«internal/lossless.Histogram.copyFrom»,
  dep.«internal/lossless.Histogram.population»,
  dep.«internal/lossless.Histogram.resetStats»,
  dep.«internal/lossless.HuffmanScratch.AllocTree»,
  dep.«internal/lossless.HuffmanScratch.ResetTreePool»,
  dep.«internal/lossless.LiteralPixel»,
  dep.«internal/lossless.NewBackwardRefs»,
  dep.«internal/lossless.NewHashChain»,
  dep.«internal/lossless.NewHistogram»,
  dep.«internal/lossless.PixOrCopy.Argb»,
  dep.«internal/lossless.PixOrCopy.CacheIndex»,
  dep.«internal/lossless.PixOrCopy.Distance»,
  dep.«internal/lossless.PixOrCopy.IsCacheIdx»,
  dep.«internal/lossless.PixOrCopy.IsCopy»,
  dep.«internal/lossless.PixOrCopy.IsLiteral»,
  dep.«internal/lossless.PixOrCopy.Length»,
  dep.«internal/lossless.PopulationCost»,
  dep.«internal/lossless.PrefixEncodeBitsNoLUT»,
  dep.«internal/lossless.PrefixEncodeNoLUT»,
  dep.«internal/lossless.ReuseColorCache»,
  dep.«internal/lossless.VP8LSubSampleSize»,
  dep.«internal/lossless.addSingleLiteralWithCostModel»,
  dep.«internal/lossless.allocateHistoSetReuse»,
  dep.«internal/lossless.assignCodeLengths»,
  dep.«internal/lossless.backwardReferencesHashChainDistanceOnly»,
  dep.«internal/lossless.backwardReferencesHashChainFollowChosenPath»,
  dep.«internal/lossless.backwardReferencesTraceBackwardsWithDist»,
  dep.«internal/lossless.bitsEntropyRefine»,
  dep.«internal/lossless.bitsLog2Floor»,
  dep.«internal/lossless.buildTreeAndExtractLengths»,
  dep.«internal/lossless.const:CodeLengthCodes»,
  dep.«internal/lossless.const:CodeLengthRepeatCode»,
  dep.«internal/lossless.const:CodeToPlaneCodesCount»,
  dep.«internal/lossless.const:ColorIndexingTransform»,
  dep.«internal/lossless.const:CrossColorTransform»,
  dep.«internal/lossless.const:HuffGreen»,
  dep.«internal/lossless.const:HuffmanCodesPerMetaCode»,
  dep.«internal/lossless.const:MaxAllowedCodeLength»,
  dep.«internal/lossless.const:MaxCacheBits»,
  dep.«internal/lossless.const:MinHuffmanBits»,
  dep.«internal/lossless.const:MinTransformBits»,
  dep.«internal/lossless.const:NumDistanceCodes»,
  dep.«internal/lossless.const:NumHuffmanBits»,
  dep.«internal/lossless.const:NumLengthCodes»,
  dep.«internal/lossless.const:NumLiteralCodes»,
  dep.«internal/lossless.const:NumTransformBits»,
  dep.«internal/lossless.const:PredictorTransform»,
  dep.«internal/lossless.const:SubtractGreenTransform»,
  dep.«internal/lossless.const:TransformPresent»,
  dep.«internal/lossless.const:VP8LImageSizeBits»,
  dep.«internal/lossless.const:VP8LMagicByte»,
  dep.«internal/lossless.const:VP8LVersion»,
  dep.«internal/lossless.const:VP8LVersionBits»,
  dep.«internal/lossless.const:binSize»,
  dep.«internal/lossless.const:costCacheIntervalSizeMax»,
  dep.«internal/lossless.const:fastSLog2LUTSize»,
  dep.«internal/lossless.const:hashBits»,
  dep.«internal/lossless.const:hashSize»,
  dep.«internal/lossless.const:histAlpha»,
  dep.«internal/lossless.const:histBlue»,
  dep.«internal/lossless.const:histDistance»,
  dep.«internal/lossless.const:histLiteral»,
  dep.«internal/lossless.const:histRed»,
  dep.«internal/lossless.const:kHashMul»,
  dep.«internal/lossless.const:kHashMultiplierHi»,
  dep.«internal/lossless.const:kHashMultiplierLo»,
  dep.«internal/lossless.const:kLZ77Box»,
  dep.«internal/lossless.const:kLZ77RLE»,
  dep.«internal/lossless.const:kLZ77Standard»,
  dep.«internal/lossless.const:maxHistoGreedy»,
  dep.«internal/lossless.const:maxHuffmanBits»,
  dep.«internal/lossless.const:maxLength»,
  dep.«internal/lossless.const:maxLengthBits»,
  dep.«internal/lossless.const:minLength»,
  dep.«internal/lossless.const:modeCacheIdx»,
  dep.«internal/lossless.const:modeCopy»,
  dep.«internal/lossless.const:modeLiteral»,
  dep.«internal/lossless.const:nonTrivialSym»,
  dep.«internal/lossless.const:numPartitions»,
  dep.«internal/lossless.const:windowOffsetsMaxSize»,
  dep.«internal/lossless.const:windowSize»,
  dep.«internal/lossless.const:windowSizeBits»,
  dep.«internal/lossless.convertPopulationCountToBitEstimates»,
  dep.«internal/lossless.costManager.allocInterval»,
  dep.«internal/lossless.costManager.connectIntervals»,
  dep.«internal/lossless.costManager.freeInterval»,
  dep.«internal/lossless.costManager.insertInterval»,
  dep.«internal/lossless.costManager.popInterval»,
  dep.«internal/lossless.costManager.positionOrphanInterval»,
  dep.«internal/lossless.costManager.pushInterval»,
  dep.«internal/lossless.costManager.updateCost»,
  dep.«internal/lossless.costManager.updateCostAtIndex»,
  dep.«internal/lossless.costManager.updateCostPerInterval»,
  dep.«internal/lossless.costModelTrace.build»,
  dep.«internal/lossless.costModelTrace.getCacheCost»,
  dep.«internal/lossless.costModelTrace.getDistanceCost»,
  dep.«internal/lossless.costModelTrace.getLengthCost»,
  dep.«internal/lossless.costModelTrace.getLiteralCost»,
  dep.«internal/lossless.dominantCostRange.update»,
  dep.«internal/lossless.extraCost»,
  dep.«internal/lossless.extractClusterCenters»,
  dep.«internal/lossless.fastSLog2»,
  dep.«internal/lossless.fillMatchRange»,
  dep.«internal/lossless.finalHuffmanCost»,
  dep.«internal/lossless.findMatchLength»,
  dep.«internal/lossless.fixPair»,
  dep.«internal/lossless.getBinIDForEntropy»,
  dep.«internal/lossless.getCombineCostFactor»,
  dep.«internal/lossless.getCombinedEntropy»,
  dep.«internal/lossless.getCombinedEntropyUnrefined»,
  dep.«internal/lossless.getCombinedHistogramEntropy»,
  dep.«internal/lossless.getEntropyUnrefined»,
  dep.«internal/lossless.getEntropyUnrefinedHelper»,
  dep.«internal/lossless.getHistoBinIndex»,
  dep.«internal/lossless.getMaxItersForQuality»,
  dep.«internal/lossless.getPixPairHash64»,
  dep.«internal/lossless.getPixPairHash64Values»,
  dep.«internal/lossless.histoQueue.popAt»,
  dep.«internal/lossless.histoQueue.push»,
  dep.«internal/lossless.histoQueue.size»,
  dep.«internal/lossless.histoQueue.updateHead»,
  dep.«internal/lossless.histogramAdd»,
  dep.«internal/lossless.histogramAddEvalThresh»,
  dep.«internal/lossless.histogramAddThresh»,
  dep.«internal/lossless.histogramEstimateBitsFromRefsScratch»,
  dep.«internal/lossless.histogramEstimateBitsUint64»,
  dep.«internal/lossless.histogramNumCodes»,
  dep.«internal/lossless.initialHuffmanCost»,
  dep.«internal/lossless.lehmerRand»,
  dep.«internal/lossless.maxFindCopyLength»,
  dep.«internal/lossless.newCostManager»,
  dep.«internal/lossless.newCostModelTrace»,
  dep.«internal/lossless.newDominantCostRange»,
  dep.«internal/lossless.nodeHeap.Len»,
  dep.«internal/lossless.nodeHeap.heapInit»,
  dep.«internal/lossless.nodeHeap.less»,
  dep.«internal/lossless.nodeHeap.pop»,
  dep.«internal/lossless.nodeHeap.push»,
  dep.«internal/lossless.nodeHeap.siftDown»,
  dep.«internal/lossless.nodeHeap.swap»,
  dep.«internal/lossless.parallelComputeHistogramCost»,
  dep.«internal/lossless.populationCost»,
  dep.«internal/lossless.subPixelsEnc»,
  dep.«internal/lossless.tileTracker.merge»,
  dep.«internal/lossless.tileTracker.swapRemove»,
  dep.«internal/lossless.traceBackwards»,
  dep.«internal/lossless.var:CodeLengthCodeOrder»,
  dep.«internal/lossless.var:CodeLengthExtraBits»,
  dep.«internal/lossless.var:KLiteralMap»,
  dep.«internal/lossless.var:fastSLog2LUT»,
  dep.«internal/lossless.var:kBaseAlphabetSize»,
  dep.«internal/lossless.var:planeToCodeLUT»
]
-- END deps vp8lEntropyEnc
def vp8lEntropyEnc : List Entry := vp8lEntropyEnc_roots ++ vp8lEntropyEnc_deps

/-- Webp/Impl/VP8LEntropy.lean, decoder half (table builder, bit reader, pixel loop) -/
def vp8lEntropyDec_roots : List Entry := [
  fp! "internal/lossless.getNextKey" 0xba42335c27534752,
  fp! "internal/lossless.replicateValue" 0x28110c4d4970dfaf,
  fp! "internal/lossless.nextTableBitSize" 0xe6faae51b535735f,
  fp! "internal/lossless.buildHuffmanTableSize" 0x053b6fa796c93b64,
  fp! "internal/lossless.BuildHuffmanTable" 0xbe247a88ff40dc84,
  fp! "internal/lossless.BuildHuffmanTableScratch" 0xeae64f6489ea4c1f,
  fp! "internal/lossless.ReadSymbol" 0x69e32bfcf8c46287,
  fp! "internal/lossless.copyBlock32" 0xf03c489b21d96299,
  fp! "internal/lossless.Decoder.getMetaIndex" 0x2a2f9ed793bef621,
  fp! "internal/lossless.Decoder.getHTreeGroup" 0xd26ef5b07d2865d8,
  fp! "internal/lossless.readSymbolFromTree" 0x2cb9873b24d1eb2b,
  fp! "internal/lossless.Decoder.decodeImageData" 0xface28a325742152,
  fp! "internal/lossless.Decoder.updateDecoder" 0x46a52b79ce2c17b8,
  fp! "internal/lossless.Decoder.readHuffmanCodeLengths" 0x03a76dff6b6d47d4,
  fp! "internal/lossless.Decoder.readHuffmanCode" 0x8f6b9bb571b5245d,
  fp! "internal/lossless.NewColorCache" 0x147e74f0fc609cca,
  fp! "internal/lossless.ColorCache.HashPix" 0xe1c3568b621396fa,
  fp! "internal/lossless.ColorCache.Insert" 0xbae54310ed06fa49,
  fp! "internal/lossless.ColorCache.Lookup" 0xa60743a9aeb8d6cf,
  fp! "internal/lossless.AlphabetSize" 0xb4d30bfe3292a7cb,
  fp! "internal/lossless.PlaneCodeToDistance" 0xe80d0822bde0c387,
  fp! "internal/bitio.NewLosslessReader" 0x645c6a36c5e9b48d,
  fp! "internal/bitio.LosslessReader.FillBitWindow" 0x6f1e0b1bdbd7d2d2,
  fp! "internal/bitio.LosslessReader.doFillBitWindow" 0xb177c888520fbd84,
  fp! "internal/bitio.LosslessReader.shiftBytes" 0x4198adfccfb0ebb7,
  fp! "internal/bitio.LosslessReader.setEndOfStream" 0xa63a7c6dc946d591,
  fp! "internal/bitio.LosslessReader.ReadBits" 0xbd7944ab83ba1053,
  fp! "internal/bitio.LosslessReader.PrefetchBits" 0x8e78ebb0f6d45615,
  fp! "internal/bitio.LosslessReader.SetBitPos" 0x3657e1a88b776ba5,
  fp! "internal/bitio.LosslessReader.BitPos" 0x1409c1e10c7c3d5d,
  fp! "internal/bitio.LosslessReader.IsEndOfStream" 0xbe3eb360ee02fc14
]
-- BEGIN deps vp8lEntropyDec (written by tools/update_fingerprints.py — do not edit by hand)
def vp8lEntropyDec_deps : List Entry := [
  dep.«internal/bitio.const:vp8lLBits»,
  dep.«internal/bitio.const:vp8lMaxNumBitRead»,
  dep.«internal/bitio.const:vp8lWBits»,
  dep.«internal/bitio.var:kBitMask»,
  dep.«internal/lossless.Decoder.huffTableScratch»,
  dep.«internal/lossless.VP8LSubSampleSize»,
  dep.«internal/lossless.const:CodeLengthCodes»,
  dep.«internal/lossless.const:CodeLengthLiterals»,
  dep.«internal/lossless.const:CodeLengthRepeatCode»,
  dep.«internal/lossless.const:CodeToPlaneCodesCount»,
  dep.«internal/lossless.const:DefaultCodeLength»,
  dep.«internal/lossless.const:HuffAlpha»,
  dep.«internal/lossless.const:HuffBlue»,
  dep.«internal/lossless.const:HuffDist»,
  dep.«internal/lossless.const:HuffGreen»,
  dep.«internal/lossless.const:HuffRed»,
  dep.«internal/lossless.const:HuffmanCodesPerMetaCode»,
  dep.«internal/lossless.const:HuffmanPackedBits»,
  dep.«internal/lossless.const:HuffmanPackedTableSize»,
  dep.«internal/lossless.const:HuffmanTableBits»,
  dep.«internal/lossless.const:HuffmanTableMask»,
  dep.«internal/lossless.const:LengthsTableBits»,
  dep.«internal/lossless.const:LengthsTableMask»,
  dep.«internal/lossless.const:MaxAllowedCodeLength»,
  dep.«internal/lossless.const:NumDistanceCodes»,
  dep.«internal/lossless.const:NumLengthCodes»,
  dep.«internal/lossless.const:NumLiteralCodes»,
  dep.«internal/lossless.const:bitsSpecialMarker»,
  dep.«internal/lossless.const:kHashMul»,
  dep.«internal/lossless.readPackedSymbols»,
  dep.«internal/lossless.var:CodeLengthCodeOrder»,
  dep.«internal/lossless.var:CodeLengthExtraBits»,
  dep.«internal/lossless.var:CodeLengthRepeatOffsets»,
  dep.«internal/lossless.var:CodeToPlane»,
  dep.«internal/lossless.var:ErrBitstream»,
  dep.«internal/lossless.var:ErrEmptyCodeLengths»,
  dep.«internal/lossless.var:ErrInvalidTree»,
  dep.«internal/lossless.var:KLiteralMap»,
  dep.«internal/lossless.var:kBaseAlphabetSize»
]
-- END deps vp8lEntropyDec
def vp8lEntropyDec : List Entry := vp8lEntropyDec_roots ++ vp8lEntropyDec_deps

/-- Webp/Impl/VP8Recon.lean, encoder side (quantisers, token recording, per-MB reconstruction, iterator, row-parallel copy) -/
def vp8ReconEnc_roots : List Entry := [
  fp! "internal/lossy.setupSegment" 0xb33f9725a187baec,
  fp! "internal/lossy.initSegmentQuant" 0x02944d529a02706f,
  fp! "internal/lossy.clampInt" 0x36557d74c015ad18,
  fp! "internal/lossy.VP8Encoder.buildSegmentHeader" 0xa416ac6b28b06792,
  fp! "internal/lossy.VP8Encoder.setSegmentParams" 0x256b7156d9832eb3,
  fp! "internal/lossy.VP8Encoder.simplifySegments" 0xc1fa716ea22faa5e,
  fp! "internal/lossy.VP8Encoder.setSegmentProbas" 0x8e2039b8659fab35,
  fp! "internal/lossy.assignSegments" 0x492f4798563e412d,
  fp! "internal/lossy.TokenBuffer.RecordCoeffs" 0x45cf37761670cddb,
  fp! "internal/lossy.TokenBuffer.recordLevelVP8" 0xb7bbfbf9bc688f4c,
  fp! "internal/lossy.TokenBuffer.RecordToken" 0x94c0a157b39ae2a2,
  fp! "internal/lossy.VP8Encoder.recordMBTokens" 0xb124212ca74aa0de,
  fp! "internal/lossy.VP8Encoder.encodeFrame" 0xbf531c0793dbc470,
  fp! "internal/lossy.VP8Encoder.recordAllTokens" 0x9e7fc64d34eab2a0,
  fp! "internal/lossy.VP8Encoder.rerecordAllTokens" 0x9234a00e5d1f2f2b,
  fp! "internal/lossy.VP8Encoder.reconstructMB" 0xc2ce2c0e619be98b,
  fp! "internal/lossy.VP8Encoder.encodeI4Residuals" 0x034aec3d5fce8103,
  fp! "internal/lossy.VP8Encoder.tryI4ModesRD" 0xb8289657481d219f,
  fp! "internal/lossy.reconstructMBParallel" 0x1dacbf3468390da3,
  fp! "internal/lossy.encodeI4ResidualsParallel" 0xdbbd159569019a37,
  fp! "internal/lossy.tryI4ModesRDParallel" 0xf85bb373d9b887a0,
  fp! "internal/lossy.VP8Encoder.InitIterator" 0xd00bb1f62f338cfc,
  fp! "internal/lossy.MBIterator.resetLeftContext" 0x99a24de84d3e2afe,
  fp! "internal/lossy.MBIterator.FillPredContext" 0xed7d04c4ee6376f0,
  fp! "internal/lossy.MBIterator.Export" 0x14019dfc824910e6,
  fp! "internal/lossy.MBIterator.Import" 0xea1f4e187ace3afa,
  fp! "internal/lossy.importBlock" 0xdd29a1cde692befc,
  fp! "internal/lossy.VP8Encoder.encodeRow" 0x785a17019aedc49a,
  fp! "internal/lossy.fillPredContextParallel" 0x2d12a6b9c1a3976a,
  fp! "internal/lossy.exportParallel" 0x09da722b8bc3a505,
  fp! "internal/lossy.importBlockParallel" 0xc7616111b493f6c8,
  fp! "internal/lossy.DequantCoeffs" 0x1561ef35b35a2eb8,
  fp! "internal/lossy.dequantCoeffsGo" 0x8f5bed0319984d42,
  fp! "internal/lossy.checkMode" 0x283fb73655e49092,
  fp! "internal/dsp.iTransformOne" 0x6129a3b298a8d380,
  fp! "internal/dsp.mul1" 0x4efa0e79c96d0476,
  fp! "internal/dsp.mul2" 0x3ccf5716eb7729b1,
  fp! "internal/dsp.store" 0x65471a5764d12578,
  fp! "internal/dsp.ITransformDirect" 0x21cda04f43bfc5d1,
  fp! "internal/dsp.PredLuma16Direct" 0xdc6b7230aea1766f,
  fp! "internal/dsp.PredChroma8Direct" 0xadba2b5cddfb75ff,
  fp! "internal/dsp.PredLuma4Direct" 0xdd52a9768b1f82fd,
  fp! "internal/lossy.TokenBuffer.MarkMBStart" 0xf124fe6f4541e3f9,
  fp! "internal/lossy.VP8Encoder.EncodeFrame" 0xa0bfd91be2c1e645,
  fp! "internal/lossy.VP8Encoder.statLoop" 0xcb7593ee62a0c4b8,
  fp! "internal/lossy.VP8Encoder.initPassStats" 0xbcd995291864d78f,
  fp! "internal/lossy.passStats.computeNextQ" 0xdd3b1d96e4276079,
  fp! "internal/lossy.VP8Encoder.adjustQuantForTarget" 0x973ba38679700ec3,
  fp! "internal/lossy.VP8Encoder.initSegments" 0x7cfa6a4d50323136,
  fp! "internal/lossy.VP8Encoder.setupFilterStrength" 0x4f5bf1f620ffbb1f,
  fp! "internal/lossy.qualityToCompression" 0x83de498f69336fe0,
  fp! "internal/lossy.qualityToQIndex" 0x8f3fd3be36d63d8f,
  fp! "internal/lossy.getPSNR" 0xb5a62c6b1424b80d
]
-- BEGIN deps vp8ReconEnc (written by tools/update_fingerprints.py — do not edit by hand)
def vp8ReconEnc_deps : List Entry := [
  dep.«internal/dsp.Clip8b»,
  dep.«internal/dsp.avg2»,
  dep.«internal/dsp.avg3»,
  dep.«internal/dsp.const:BPS»,
  dep.«internal/dsp.const:c1»,
  dep.«internal/dsp.const:c2»,
  dep.«internal/dsp.dc16»,
  dep.«internal/dsp.dc16NoLeft»,
  dep.«internal/dsp.dc16NoTop»,
  dep.«internal/dsp.dc16NoTopLeft»,
  dep.«internal/dsp.dc16asmNEON»,
  dep.«internal/dsp.dc16asmSSE2»,
  dep.«internal/dsp.dc4»,
  dep.«internal/dsp.dc8uv»,
  dep.«internal/dsp.dc8uvNoLeft»,
  dep.«internal/dsp.dc8uvNoTop»,
  dep.«internal/dsp.dc8uvNoTopLeft»,
  dep.«internal/dsp.dc8uvasmNEON»,
  dep.«internal/dsp.dc8uvasmSSE2»,
  dep.«internal/dsp.hd4»,
  dep.«internal/dsp.he16»,
  dep.«internal/dsp.he16asmNEON»,
  dep.«internal/dsp.he16asmSSE2»,
  dep.«internal/dsp.he4»,
  dep.«internal/dsp.he8uv»,
  dep.«internal/dsp.he8uvasmNEON»,
  dep.«internal/dsp.he8uvasmSSE2»,
  dep.«internal/dsp.hu4»,
  dep.«internal/dsp.iTransform»,
  dep.«internal/dsp.iTransformOneAVX2»,
  dep.«internal/dsp.iTransformOneSSE2»,
  dep.«internal/dsp.ld4»,
  dep.«internal/dsp.rd4»,
  dep.«internal/dsp.tm16»,
  dep.«internal/dsp.tm16asmNEON»,
  dep.«internal/dsp.tm16asmSSE2»,
  dep.«internal/dsp.tm4»,
  dep.«internal/dsp.tm8uv»,
  dep.«internal/dsp.tm8uvasmNEON»,
  dep.«internal/dsp.tm8uvasmSSE2»,
  dep.«internal/dsp.var:hasAVX2»,
  dep.«internal/dsp.ve16»,
  dep.«internal/dsp.ve16asmNEON»,
  dep.«internal/dsp.ve16asmSSE2»,
  dep.«internal/dsp.ve4»,
  dep.«internal/dsp.ve8uv»,
  dep.«internal/dsp.ve8uvasmNEON»,
  dep.«internal/dsp.ve8uvasmSSE2»,
  dep.«internal/dsp.vl4»,
  dep.«internal/dsp.vr4»,
  dep.«internal/lossy.MBIterator.FillPredictionContext»,
  dep.«internal/lossy.MBIterator.GetTopModes»,
  dep.«internal/lossy.MBIterator.IsDone»,
  dep.«internal/lossy.MBIterator.Next»,
  dep.«internal/lossy.MBIterator.SaveTopModes»,
  dep.«internal/lossy.PickBestI16Mode»,
  dep.«internal/lossy.PickBestI4Mode»,
  dep.«internal/lossy.PickBestUVMode»,
  dep.«internal/lossy.QuantizeCoeffs»,
  dep.«internal/lossy.RDScore»,
  dep.«internal/lossy.TokenBuffer.EmitTokens»,
  dep.«internal/lossy.TokenBuffer.EmitTokensPartitioned»,
  dep.«internal/lossy.TokenBuffer.Reset»,
  dep.«internal/lossy.TokenBuffer.addPage»,
  dep.«internal/lossy.TokenBuffer.tokenCount»,
  dep.«internal/lossy.TokenCostForCoeffs»,
  dep.«internal/lossy.TrellisQuantizeBlock»,
  dep.«internal/lossy.VP8Encoder.PickBestI16ModeRD»,
  dep.«internal/lossy.VP8Encoder.PickBestI4ModeRD»,
  dep.«internal/lossy.VP8Encoder.PickBestI4ModeRDTrellis»,
  dep.«internal/lossy.VP8Encoder.PickBestUVModeRD»,
  dep.«internal/lossy.VP8Encoder.analysis»,
  dep.«internal/lossy.VP8Encoder.assembleFrame»,
  dep.«internal/lossy.VP8Encoder.collectAllStats»,
  dep.«internal/lossy.VP8Encoder.collectMBStats»,
  dep.«internal/lossy.VP8Encoder.computeStats»,
  dep.«internal/lossy.VP8Encoder.correctDCValues»,
  dep.«internal/lossy.VP8Encoder.emitFrame»,
  dep.«internal/lossy.VP8Encoder.emitPartition0»,
  dep.«internal/lossy.VP8Encoder.emitTokenPartitions»,
  dep.«internal/lossy.VP8Encoder.encodeFrameParallel»,
  dep.«internal/lossy.VP8Encoder.encodeI16Residuals»,
  dep.«internal/lossy.VP8Encoder.encodeResiduals»,
  dep.«internal/lossy.VP8Encoder.encodeUVResiduals»,
  dep.«internal/lossy.VP8Encoder.pickBestMode»,
  dep.«internal/lossy.VP8Encoder.refreshProbas»,
  dep.«internal/lossy.VP8Encoder.restoreSourcePixels»,
  dep.«internal/lossy.VP8Encoder.saveSourcePixels»,
  dep.«internal/lossy.VP8Encoder.storeDiffusionErrors»,
  dep.«internal/lossy.VP8Encoder.tryI4Modes»,
  dep.«internal/lossy.VP8Encoder.updateNZContext»,
  dep.«internal/lossy.VP8Encoder.writeCoeffProba»,
  dep.«internal/lossy.VP8Encoder.writeFilterHeader»,
  dep.«internal/lossy.VP8Encoder.writeMBModes»,
  dep.«internal/lossy.VP8Encoder.writeQuantParams»,
  dep.«internal/lossy.VP8Encoder.writeSegmentHeader»,
  dep.«internal/lossy.abs»,
  dep.«internal/lossy.boolToIntEnc»,
  dep.«internal/lossy.branchCost»,
  dep.«internal/lossy.collectCoeffStats»,
  dep.«internal/lossy.collectHistogramAlphaWith»,
  dep.«internal/lossy.collectLevelStats»,
  dep.«internal/lossy.computeAlphas»,
  dep.«internal/lossy.computeAlphasSerial»,
  dep.«internal/lossy.computeMBAlphaDCT»,
  dep.«internal/lossy.computeMBAlphaDCTWith»,
  dep.«internal/lossy.computeMBAlphaDCTWorker»,
  dep.«internal/lossy.computeMBUVAlphaDCT»,
  dep.«internal/lossy.computeMBUVAlphaDCTWith»,
  dep.«internal/lossy.computeMBUVAlphaDCTWorker»,
  dep.«internal/lossy.const:BDCPred»,
  dep.«internal/lossy.const:BDCPredNoLeft»,
  dep.«internal/lossy.const:BDCPredNoTop»,
  dep.«internal/lossy.const:BDCPredNoTopLeft»,
  dep.«internal/lossy.const:BHDPred»,
  dep.«internal/lossy.const:BHEPred»,
  dep.«internal/lossy.const:BHUPred»,
  dep.«internal/lossy.const:BLDPred»,
  dep.«internal/lossy.const:BPS»,
  dep.«internal/lossy.const:BRDPred»,
  dep.«internal/lossy.const:BTMPred»,
  dep.«internal/lossy.const:BVEPred»,
  dep.«internal/lossy.const:BVLPred»,
  dep.«internal/lossy.const:BVRPred»,
  dep.«internal/lossy.const:DCPred»,
  dep.«internal/lossy.const:HPred»,
  dep.«internal/lossy.const:MBFeatureTreeProbs»,
  dep.«internal/lossy.const:NumBModes»,
  dep.«internal/lossy.const:NumBands»,
  dep.«internal/lossy.const:NumCTX»,
  dep.«internal/lossy.const:NumMBSegments»,
  dep.«internal/lossy.const:NumModeLFDeltas»,
  dep.«internal/lossy.const:NumPredModes»,
  dep.«internal/lossy.const:NumProbas»,
  dep.«internal/lossy.const:NumRefLFDeltas»,
  dep.«internal/lossy.const:NumTypes»,
  dep.«internal/lossy.const:TMPred»,
  dep.«internal/lossy.const:UOff»,
  dep.«internal/lossy.const:VOff»,
  dep.«internal/lossy.const:VPred»,
  dep.«internal/lossy.const:YOff»,
  dep.«internal/lossy.const:YUVSize»,
  dep.«internal/lossy.const:alphaScale»,
  dep.«internal/lossy.const:derrC1»,
  dep.«internal/lossy.const:derrC2»,
  dep.«internal/lossy.const:derrDScale»,
  dep.«internal/lossy.const:derrDShift»,
  dep.«internal/lossy.const:flatnessLimitI16»,
  dep.«internal/lossy.const:flatnessLimitI4»,
  dep.«internal/lossy.const:flatnessLimitUV»,
  dep.«internal/lossy.const:flatnessPenalty»,
  dep.«internal/lossy.const:fstrengthCutoff»,
  dep.«internal/lossy.const:maxAlpha»,
  dep.«internal/lossy.const:maxCoeffThresh»,
  dep.«internal/lossy.const:maxIntra16Mode»,
  dep.«internal/lossy.const:maxItersKMeans»,
  dep.«internal/lossy.const:maxPartition0Size»,
  dep.«internal/lossy.const:maxPartitionSize»,
  dep.«internal/lossy.const:minRefreshCount»,
  dep.«internal/lossy.const:rdDistoMult»,
  dep.«internal/lossy.const:tokenPageSize»,
  dep.«internal/lossy.dequantCoeffsSSE2»,
  dep.«internal/lossy.encodeI16ResidualsParallel»,
  dep.«internal/lossy.encodeResidualsParallel»,
  dep.«internal/lossy.encodeUVResidualsParallel»,
  dep.«internal/lossy.fastVariableLevelCost»,
  dep.«internal/lossy.filterStrengthFromDelta»,
  dep.«internal/lossy.generateI16Prediction»,
  dep.«internal/lossy.getBoolWriter»,
  dep.«internal/lossy.getMaxI4RDModes»,
  dep.«internal/lossy.getParallelState»,
  dep.«internal/lossy.i4SubtreeContains»,
  dep.«internal/lossy.initRowWorker»,
  dep.«internal/lossy.isFlat»,
  dep.«internal/lossy.isFlatSource16»,
  dep.«internal/lossy.maxInt»,
  dep.«internal/lossy.needsLeft4»,
  dep.«internal/lossy.needsTop4»,
  dep.«internal/lossy.newRowSync»,
  dep.«internal/lossy.nzCountACSSE2»,
  dep.«internal/lossy.optimizeProba»,
  dep.«internal/lossy.pickBestI16ModeRDParallel»,
  dep.«internal/lossy.pickBestI4ModeRDParallel»,
  dep.«internal/lossy.pickBestI4ModeRDTrellisParallel»,
  dep.«internal/lossy.pickBestModeParallel»,
  dep.«internal/lossy.pickBestUVModeRDParallel»,
  dep.«internal/lossy.putBoolWriter»,
  dep.«internal/lossy.putParallelState»,
  dep.«internal/lossy.quantizeACAVX2»,
  dep.«internal/lossy.quantizeACSSE2»,
  dep.«internal/lossy.quantizeCoeffsGo»,
  dep.«internal/lossy.quantizeSingle»,
  dep.«internal/lossy.rowSync.signal»,
  dep.«internal/lossy.rowSync.waitFor»,
  dep.«internal/lossy.smoothSegmentMap»,
  dep.«internal/lossy.tryI4ModesParallel»,
  dep.«internal/lossy.updateNZContextParallel»,
  dep.«internal/lossy.var:CoeffsProba0»,
  dep.«internal/lossy.var:CoeffsUpdateProba»,
  dep.«internal/lossy.var:ErrPartition0Overflow»,
  dep.«internal/lossy.var:ErrPartitionOverflow»,
  dep.«internal/lossy.var:KAcTable»,
  dep.«internal/lossy.var:KAcTable2»,
  dep.«internal/lossy.var:KBModesProba»,
  dep.«internal/lossy.var:KBands»,
  dep.«internal/lossy.var:KCat3»,
  dep.«internal/lossy.var:KCat4»,
  dep.«internal/lossy.var:KCat5»,
  dep.«internal/lossy.var:KCat6»,
  dep.«internal/lossy.var:KDcTable»,
  dep.«internal/lossy.var:KYModesIntra4»,
  dep.«internal/lossy.var:KZigzag»,
  dep.«internal/lossy.var:VP8FixedCostsI4»,
  dep.«internal/lossy.var:boolWriterPool»,
  dep.«internal/lossy.var:kBiasMatrices»,
  dep.«internal/lossy.var:kFreqSharpening»,
  dep.«internal/lossy.var:kLevelsFromDelta»,
  dep.«internal/lossy.var:kReverseZigzag»,
  dep.«internal/lossy.var:kWeightTrellis»,
  dep.«internal/lossy.var:modeFixedCost16»,
  dep.«internal/lossy.var:modeFixedCostUV»,
  dep.«internal/lossy.var:parallelPool»,
  dep.«internal/lossy.var:vp8LevelCodes»,
  dep.«internal/lossy.variableLevelCost»,
  dep.«internal/lossy.writeI16Mode»,
  dep.«internal/lossy.writeI4ModeBits»,
  dep.«internal/lossy.writeSegmentID»,
  dep.«internal/lossy.writeUVMode»
]
-- END deps vp8ReconEnc
def vp8ReconEnc : List Entry := vp8ReconEnc_roots ++ vp8ReconEnc_deps

/-- Webp/Impl/VP8Recon.lean, decoder side (quantiser parsing, residual tokens, modes, row reconstruction) -/
def vp8ReconDec_roots : List Entry := [
  fp! "internal/lossy.ParseQuant" 0x69547494a70a55c5,
  fp! "internal/lossy.clip" 0x123880c144584ac1,
  fp! "internal/lossy.getCoeffsInline" 0x4b5693d9ffcc7d97,
  fp! "internal/lossy.fastBit" 0xeec6feac2babb492,
  fp! "internal/lossy.fastSigned" 0x5def6b59201c8d4d,
  fp! "internal/lossy.brLoad" 0x56b6dc395b4072ec,
  fp! "internal/lossy.brSync" 0xd406afe22fd37e42,
  fp! "internal/lossy.Decoder.parseResiduals" 0x486cef17dab7b497,
  fp! "internal/lossy.nzCodeBits" 0xa0eb092d268c46ad,
  fp! "internal/lossy.Decoder.decodeMB" 0x14cd709595f4f4c0,
  fp! "internal/lossy.Decoder.parseIntraModeRow" 0x907d3df5a7487c5a,
  fp! "internal/lossy.Decoder.reconstructRow" 0xcd18bbb2eb4b0d25,
  fp! "internal/lossy.doTransform" 0x6410bfb238cc1c67,
  fp! "internal/lossy.doUVTransform" 0x6adc9120aa8de603,
  fp! "internal/lossy.doTransformDCBlock" 0x177a0bd4e1111ae1,
  fp! "internal/lossy.checkMode" 0x283fb73655e49092,
  fp! "internal/lossy.Decoder.parseFrame" 0xc7a933f1bc45e6e0,
  fp! "internal/lossy.Decoder.initScanline" 0x872a7fca75c3ed27,
  fp! "internal/lossy.Decoder.parseHeaders" 0x2d0b0a4e64fe87af,
  fp! "internal/dsp.transformOne" 0x865c0eca4b1fdf6c,
  fp! "internal/dsp.transformAC3" 0x3b85dbfac7c6d0b0,
  fp! "internal/dsp.transformWHT" 0x364717cdd07c6033,
  fp! "internal/dsp.transformDC" 0x237283ba7d39ad2e,
  fp! "internal/dsp.transformDCUV" 0x283cbfc993d54cf7,
  fp! "internal/dsp.transformUV" 0x91fc8c49c305a673,
  fp! "internal/dsp.transformTwo" 0x81fb1ad72015c2a3,
  fp! "internal/dsp.mul1" 0x4efa0e79c96d0476,
  fp! "internal/dsp.mul2" 0x3ccf5716eb7729b1,
  fp! "internal/dsp.store" 0x65471a5764d12578,
  fp! "internal/dsp.PredLuma4Direct" 0xdd52a9768b1f82fd
]
-- BEGIN deps vp8ReconDec (written by tools/update_fingerprints.py — do not edit by hand)
def vp8ReconDec_deps : List Entry := [
  dep.«internal/dsp.Clip8b»,
  dep.«internal/dsp.avg2»,
  dep.«internal/dsp.avg3»,
  dep.«internal/dsp.const:BPS»,
  dep.«internal/dsp.const:c1»,
  dep.«internal/dsp.const:c2»,
  dep.«internal/dsp.dc4»,
  dep.«internal/dsp.hd4»,
  dep.«internal/dsp.he4»,
  dep.«internal/dsp.hu4»,
  dep.«internal/dsp.ld4»,
  dep.«internal/dsp.rd4»,
  dep.«internal/dsp.tm4»,
  dep.«internal/dsp.ve4»,
  dep.«internal/dsp.vl4»,
  dep.«internal/dsp.vr4»,
  dep.«internal/lossy.Decoder.doFilter»,
  dep.«internal/lossy.Decoder.filterRowAt»,
  dep.«internal/lossy.Decoder.parseFilterHeader»,
  dep.«internal/lossy.Decoder.parsePartitions»,
  dep.«internal/lossy.Decoder.parseSegmentHeader»,
  dep.«internal/lossy.ResetProba»,
  dep.«internal/lossy.abs»,
  dep.«internal/lossy.b2i»,
  dep.«internal/lossy.clamp255»,
  dep.«internal/lossy.const:BDCPred»,
  dep.«internal/lossy.const:BDCPredNoLeft»,
  dep.«internal/lossy.const:BDCPredNoTop»,
  dep.«internal/lossy.const:BDCPredNoTopLeft»,
  dep.«internal/lossy.const:BHDPred»,
  dep.«internal/lossy.const:BHEPred»,
  dep.«internal/lossy.const:BHUPred»,
  dep.«internal/lossy.const:BLDPred»,
  dep.«internal/lossy.const:BPS»,
  dep.«internal/lossy.const:BRDPred»,
  dep.«internal/lossy.const:BTMPred»,
  dep.«internal/lossy.const:BVEPred»,
  dep.«internal/lossy.const:BVLPred»,
  dep.«internal/lossy.const:BVRPred»,
  dep.«internal/lossy.const:DCPred»,
  dep.«internal/lossy.const:HPred»,
  dep.«internal/lossy.const:MBFeatureTreeProbs»,
  dep.«internal/lossy.const:NumBModes»,
  dep.«internal/lossy.const:NumBands»,
  dep.«internal/lossy.const:NumCTX»,
  dep.«internal/lossy.const:NumMBSegments»,
  dep.«internal/lossy.const:NumModeLFDeltas»,
  dep.«internal/lossy.const:NumProbas»,
  dep.«internal/lossy.const:NumRefLFDeltas»,
  dep.«internal/lossy.const:NumTypes»,
  dep.«internal/lossy.const:TMPred»,
  dep.«internal/lossy.const:UOff»,
  dep.«internal/lossy.const:VOff»,
  dep.«internal/lossy.const:VPred»,
  dep.«internal/lossy.const:YOff»,
  dep.«internal/lossy.doSimpleFilter2»,
  dep.«internal/lossy.doSimpleFilter4»,
  dep.«internal/lossy.doSimpleFilter6»,
  dep.«internal/lossy.fillBytes»,
  dep.«internal/lossy.filterLoop24HAt»,
  dep.«internal/lossy.filterLoop24VAt»,
  dep.«internal/lossy.filterLoop26At»,
  dep.«internal/lossy.filterLoop26HAt»,
  dep.«internal/lossy.filterLoop26VAt»,
  dep.«internal/lossy.hFilter16iAt»,
  dep.«internal/lossy.hFilter8iAt»,
  dep.«internal/lossy.isHEV»,
  dep.«internal/lossy.needsFilter2At»,
  dep.«internal/lossy.parseProba»,
  dep.«internal/lossy.readOptionalSigned»,
  dep.«internal/lossy.sclip1»,
  dep.«internal/lossy.sclip2»,
  dep.«internal/lossy.simpleHFilter16At»,
  dep.«internal/lossy.simpleHFilter16iAt»,
  dep.«internal/lossy.vFilter16iAt»,
  dep.«internal/lossy.vFilter8iAt»,
  dep.«internal/lossy.var:CoeffsProba0»,
  dep.«internal/lossy.var:CoeffsUpdateProba»,
  dep.«internal/lossy.var:KAcTable»,
  dep.«internal/lossy.var:KBModesProba»,
  dep.«internal/lossy.var:KBands»,
  dep.«internal/lossy.var:KCat3»,
  dep.«internal/lossy.var:KCat4»,
  dep.«internal/lossy.var:KCat5»,
  dep.«internal/lossy.var:KCat6»,
  dep.«internal/lossy.var:KDcTable»,
  dep.«internal/lossy.var:KYModesIntra4»,
  dep.«internal/lossy.var:KZigzag»,
  dep.«internal/lossy.var:errPrematureEOF»,
  dep.«internal/lossy.var:kCat3456»,
  dep.«internal/lossy.var:kScan»,
  dep.«internal/lossy.var:kVP8Log2Range»,
  dep.«internal/lossy.var:kVP8NewRange»
]
-- END deps vp8ReconDec
def vp8ReconDec : List Entry := vp8ReconDec_roots ++ vp8ReconDec_deps

/-- Webp/Impl/VP8Recon.lean (syntax pass) and Webp/Impl/Writer.lean: what the lossy encoder writes -/
def vp8Syntax_roots : List Entry := [
  fp! "internal/lossy.VP8Encoder.emitFrame" 0x29a6d3bb1525df9f,
  fp! "internal/lossy.VP8Encoder.emitPartition0" 0xf6cfee7f08cd08d8,
  fp! "internal/lossy.VP8Encoder.emitTokenPartitions" 0x0431ab2920e6fedc,
  fp! "internal/lossy.VP8Encoder.assembleFrame" 0xb0fac7bd9270457e,
  fp! "internal/lossy.VP8Encoder.writeSegmentHeader" 0x9dfe319dafa87b7a,
  fp! "internal/lossy.VP8Encoder.writeFilterHeader" 0x41dff051abbc20ed,
  fp! "internal/lossy.VP8Encoder.writeQuantParams" 0xf5b9f864b6dc9f29,
  fp! "internal/lossy.VP8Encoder.writeCoeffProba" 0x18f5209870aa9d91,
  fp! "internal/lossy.VP8Encoder.writeMBModes" 0x2eda066cff52b8af,
  fp! "internal/lossy.writeSegmentID" 0xd048bfaf4181b193,
  fp! "internal/lossy.writeI16Mode" 0x308305ac2015ec98,
  fp! "internal/lossy.writeI4ModeBits" 0x9b0992e68d816d7f,
  fp! "internal/lossy.i4SubtreeContains" 0x404ad63d7c3d378b,
  fp! "internal/lossy.writeUVMode" 0x84ee91ef4dc0b073,
  fp! "internal/lossy.TokenBuffer.EmitTokens" 0xc4c419e2830f93db,
  fp! "internal/lossy.TokenBuffer.EmitTokensPartitioned" 0x615500966ad8cbfd
]
-- BEGIN deps vp8Syntax (written by tools/update_fingerprints.py — do not edit by hand)
def vp8Syntax_deps : List Entry := [
  dep.«internal/lossy.TokenBuffer.Reset»,
  dep.«internal/lossy.TokenBuffer.addPage»,
  dep.«internal/lossy.TokenBuffer.tokenCount»,
  dep.«internal/lossy.boolToIntEnc»,
  dep.«internal/lossy.const:BDCPred»,
  dep.«internal/lossy.const:BHDPred»,
  dep.«internal/lossy.const:BHEPred»,
  dep.«internal/lossy.const:BHUPred»,
  dep.«internal/lossy.const:BLDPred»,
  dep.«internal/lossy.const:BRDPred»,
  dep.«internal/lossy.const:BTMPred»,
  dep.«internal/lossy.const:BVEPred»,
  dep.«internal/lossy.const:BVLPred»,
  dep.«internal/lossy.const:BVRPred»,
  dep.«internal/lossy.const:DCPred»,
  dep.«internal/lossy.const:HPred»,
  dep.«internal/lossy.const:MBFeatureTreeProbs»,
  dep.«internal/lossy.const:NumBModes»,
  dep.«internal/lossy.const:NumBands»,
  dep.«internal/lossy.const:NumCTX»,
  dep.«internal/lossy.const:NumMBSegments»,
  dep.«internal/lossy.const:NumModeLFDeltas»,
  dep.«internal/lossy.const:NumProbas»,
  dep.«internal/lossy.const:NumRefLFDeltas»,
  dep.«internal/lossy.const:NumTypes»,
  dep.«internal/lossy.const:TMPred»,
  dep.«internal/lossy.const:VPred»,
  dep.«internal/lossy.const:maxPartition0Size»,
  dep.«internal/lossy.const:maxPartitionSize»,
  dep.«internal/lossy.const:tokenPageSize»,
  dep.«internal/lossy.getBoolWriter»,
  dep.«internal/lossy.putBoolWriter»,
  dep.«internal/lossy.var:CoeffsProba0»,
  dep.«internal/lossy.var:CoeffsUpdateProba»,
  dep.«internal/lossy.var:ErrPartition0Overflow»,
  dep.«internal/lossy.var:ErrPartitionOverflow»,
  dep.«internal/lossy.var:KBModesProba»,
  dep.«internal/lossy.var:KYModesIntra4»,
  dep.«internal/lossy.var:boolWriterPool»
]
-- END deps vp8Syntax
def vp8Syntax : List Entry := vp8Syntax_roots ++ vp8Syntax_deps

/-! ## properties -/

/-- named in the anchors of C01 (properties.jsonl) and not in one of its groups -/
def extra_C01_roots : List Entry := [
  fp! "webp.encodeLossless" 0x6c24a9390e67cfb9,
  fp! "webp.encodeLosslessToWriter" 0x8286e0b6f714af06,
  fp! "webp.decodeLossless" 0xb111a1f0359d1a1b,
  fp! "webp.decodeFrame" 0x4504283f57fb7308,
  fp! "internal/lossless.Encode" 0xc7e5c5025edd39bb,
  fp! "internal/lossless.EncodeToWriter" 0x5cc4843276807858,
  fp! "internal/lossless.argbHasAlpha" 0xab7003d387ee9714,
  fp! "asm:internal/dsp/lossless_amd64.s" 0xfca87935e80d42e5,
  fp! "asm:internal/dsp/lossless_avx2_amd64.s" 0x17932ab2009d5402
]
-- BEGIN deps extra_C01 (written by tools/update_fingerprints.py — do not edit by hand)
def extra_C01_deps : List Entry := [
  dep.«internal/lossless.ApplyNearLossless»,
  dep.«internal/lossless.ApplyPaletteTransform»,
  dep.«internal/lossless.BackwardReferences2DLocality»,
  dep.«internal/lossless.BackwardReferencesLz77»,
  dep.«internal/lossless.BackwardReferencesLz77Box»,
  dep.«internal/lossless.BackwardReferencesRle»,
  dep.«internal/lossless.BackwardRefs.Add»,
  dep.«internal/lossless.BackwardRefs.Len»,
  dep.«internal/lossless.BackwardRefs.Refs»,
  dep.«internal/lossless.BackwardRefs.Reset»,
  dep.«internal/lossless.BackwardRefsWithLocalCache»,
  dep.«internal/lossless.BuildCodeLengthTokens»,
  dep.«internal/lossless.BuildCodeLengthTokensScratch»,
  dep.«internal/lossless.CachePixel»,
  dep.«internal/lossless.CalculateBestCacheSize»,
  dep.«internal/lossless.ColorCache.Contains»,
  dep.«internal/lossless.ColorCache.HashPix»,
  dep.«internal/lossless.ColorCache.Insert»,
  dep.«internal/lossless.ColorCache.Lookup»,
  dep.«internal/lossless.ColorCache.Reset»,
  dep.«internal/lossless.ColorIndexBuild»,
  dep.«internal/lossless.ColorSpaceTransform»,
  dep.«internal/lossless.CopyPixel»,
  dep.«internal/lossless.CreateHuffmanTreeScratch»,
  dep.«internal/lossless.DefaultEncoderConfig»,
  dep.«internal/lossless.DistanceToPlaneCode»,
  dep.«internal/lossless.Encoder.analyze»,
  dep.«internal/lossless.Encoder.applyPaletteTransform»,
  dep.«internal/lossless.Encoder.applyTransforms»,
  dep.«internal/lossless.Encoder.encodePalette»,
  dep.«internal/lossless.Encoder.encodeStream»,
  dep.«internal/lossless.Encoder.encodeSubImage»,
  dep.«internal/lossless.Encoder.storeImageData»,
  dep.«internal/lossless.Encoder.storeSubImageData»,
  dep.«internal/lossless.Encoder.writeTransformData»,
  dep.«internal/lossless.GetBackwardReferences»,
  dep.«internal/lossless.GetBackwardReferencesWithScratch»,
  dep.«internal/lossless.GetHistoImageSymbols»,
  dep.«internal/lossless.GetWindowSizeForHashChain»,
  dep.«internal/lossless.HashChain.Fill»,
  dep.«internal/lossless.HashChain.GetLength»,
  dep.«internal/lossless.HashChain.GetOffset»,
  dep.«internal/lossless.HashChain.fillParallel»,
  dep.«internal/lossless.HashChain.fillSerial»,
  dep.«internal/lossless.HistoSet.Get»,
  dep.«internal/lossless.HistoSet.Size»,
  dep.«internal/lossless.HistoSet.clearAll»,
  dep.«internal/lossless.HistoSet.remove»,
  dep.«internal/lossless.Histogram.AddRefs»,
  dep.«internal/lossless.Histogram.AddSingle»,
  dep.«internal/lossless.Histogram.Clear»,
  dep.«internal/lossless.Histogram.computeHistogramCost»,
  dep.«internal/lossless.Histogram.copyFrom»,
  dep.«internal/lossless.Histogram.population»,
  dep.«internal/lossless.Histogram.resetStats»,
  dep.«internal/lossless.HuffmanScratch.AllocTree»,
  dep.«internal/lossless.HuffmanScratch.ResetTreePool»,
  dep.«internal/lossless.LiteralPixel»,
  dep.«internal/lossless.NearLosslessBits»,
  dep.«internal/lossless.NewBackwardRefs»,
  dep.«internal/lossless.NewColorCache»,
  dep.«internal/lossless.NewHashChain»,
  dep.«internal/lossless.NewHistogram»,
  dep.«internal/lossless.PixOrCopy.Argb»,
  dep.«internal/lossless.PixOrCopy.CacheIndex»,
  dep.«internal/lossless.PixOrCopy.Distance»,
  dep.«internal/lossless.PixOrCopy.IsCacheIdx»,
  dep.«internal/lossless.PixOrCopy.IsCopy»,
  dep.«internal/lossless.PixOrCopy.IsLiteral»,
  dep.«internal/lossless.PixOrCopy.Length»,
  dep.«internal/lossless.PopulationCost»,
  dep.«internal/lossless.PrefixEncodeBitsNoLUT»,
  dep.«internal/lossless.PrefixEncodeNoLUT»,
  dep.«internal/lossless.ResidualImage»,
  dep.«internal/lossless.ReuseColorCache»,
  dep.«internal/lossless.StoreHuffmanCodeScratch»,
  dep.«internal/lossless.StoreHuffmanTreeOfHuffmanTreeToBitMask»,
  dep.«internal/lossless.StoreHuffmanTreeToBitMask»,
  dep.«internal/lossless.SubtractGreen»,
  dep.«internal/lossless.VP8LSubSampleSize»,
  dep.«internal/lossless.acquireEncoder»,
  dep.«internal/lossless.addSingleLiteralWithCostModel»,
  dep.«internal/lossless.allocateHistoSetReuse»,
  dep.«internal/lossless.applyColorTransformPixel»,
  dep.«internal/lossless.applyColorTransformTile»,
  dep.«internal/lossless.assignCodeLengths»,
  dep.«internal/lossless.avg2»,
  dep.«internal/lossless.backwardReferencesHashChainDistanceOnly»,
  dep.«internal/lossless.backwardReferencesHashChainFollowChosenPath»,
  dep.«internal/lossless.backwardReferencesTraceBackwardsWithDist»,
  dep.«internal/lossless.bitsEntropyRefine»,
  dep.«internal/lossless.bitsLog2Floor»,
  dep.«internal/lossless.buildTreeAndExtractLengths»,
  dep.«internal/lossless.cacheBitsForEncoder»,
  dep.«internal/lossless.clampAddSubFull»,
  dep.«internal/lossless.clampAddSubHalf»,
  dep.«internal/lossless.clampBits»,
  dep.«internal/lossless.clampByte»,
  dep.«internal/lossless.clearHuffmanTreeIfOnlyOneSymbol»,
  dep.«internal/lossless.closestDiscretizedArgb»,
  dep.«internal/lossless.codeRepeatedValues»,
  dep.«internal/lossless.codeRepeatedZeros»,
  dep.«internal/lossless.const:ARGBBlack»,
  dep.«internal/lossless.const:CodeLengthCodes»,
  dep.«internal/lossless.const:CodeLengthRepeatCode»,
  dep.«internal/lossless.const:CodeToPlaneCodesCount»,
  dep.«internal/lossless.const:ColorIndexingTransform»,
  dep.«internal/lossless.const:CrossColorTransform»,
  dep.«internal/lossless.const:HuffmanCodesPerMetaCode»,
  dep.«internal/lossless.const:MaxAllowedCodeLength»,
  dep.«internal/lossless.const:MaxCacheBits»,
  dep.«internal/lossless.const:MaxPaletteSize»,
  dep.«internal/lossless.const:MinHuffmanBits»,
  dep.«internal/lossless.const:MinTransformBits»,
  dep.«internal/lossless.const:NumDistanceCodes»,
  dep.«internal/lossless.const:NumHuffmanBits»,
  dep.«internal/lossless.const:NumLengthCodes»,
  dep.«internal/lossless.const:NumLiteralCodes»,
  dep.«internal/lossless.const:NumTransformBits»,
  dep.«internal/lossless.const:PredictorTransform»,
  dep.«internal/lossless.const:SubtractGreenTransform»,
  dep.«internal/lossless.const:TransformPresent»,
  dep.«internal/lossless.const:VP8LImageSizeBits»,
  dep.«internal/lossless.const:VP8LMagicByte»,
  dep.«internal/lossless.const:VP8LVersion»,
  dep.«internal/lossless.const:VP8LVersionBits»,
  dep.«internal/lossless.const:binSize»,
  dep.«internal/lossless.const:costCacheIntervalSizeMax»,
  dep.«internal/lossless.const:fastSLog2LUTSize»,
  dep.«internal/lossless.const:hashBits»,
  dep.«internal/lossless.const:hashSize»,
  dep.«internal/lossless.const:histAlpha»,
  dep.«internal/lossless.const:histBlue»,
  dep.«internal/lossless.const:histDistance»,
  dep.«internal/lossless.const:histLiteral»,
  dep.«internal/lossless.const:histRed»,
  dep.«internal/lossless.const:kHashMul»,
  dep.«internal/lossless.const:kHashMultiplierHi»,
  dep.«internal/lossless.const:kHashMultiplierLo»,
  dep.«internal/lossless.const:kLZ77Box»,
  dep.«internal/lossless.const:kLZ77RLE»,
  dep.«internal/lossless.const:kLZ77Standard»,
  dep.«internal/lossless.const:maxColorCacheBitsEnc»,
  dep.«internal/lossless.const:maxHistoGreedy»,
  dep.«internal/lossless.const:maxHuffImageSize»,
  dep.«internal/lossless.const:maxHuffmanBits»,
  dep.«internal/lossless.const:maxLength»,
  dep.«internal/lossless.const:maxLengthBits»,
  dep.«internal/lossless.const:maxLimitBits»,
  dep.«internal/lossless.const:minDimForNearLossless»,
  dep.«internal/lossless.const:minLength»,
  dep.«internal/lossless.const:modeCacheIdx»,
  dep.«internal/lossless.const:modeCopy»,
  dep.«internal/lossless.const:modeLiteral»,
  dep.«internal/lossless.const:nonTrivialSym»,
  dep.«internal/lossless.const:numPartitions»,
  dep.«internal/lossless.const:numPredictors»,
  dep.«internal/lossless.const:windowOffsetsMaxSize»,
  dep.«internal/lossless.const:windowSize»,
  dep.«internal/lossless.const:windowSizeBits»,
  dep.«internal/lossless.convertPopulationCountToBitEstimates»,
  dep.«internal/lossless.copyImageWithPrediction»,
  dep.«internal/lossless.costManager.allocInterval»,
  dep.«internal/lossless.costManager.connectIntervals»,
  dep.«internal/lossless.costManager.freeInterval»,
  dep.«internal/lossless.costManager.insertInterval»,
  dep.«internal/lossless.costManager.popInterval»,
  dep.«internal/lossless.costManager.positionOrphanInterval»,
  dep.«internal/lossless.costManager.pushInterval»,
  dep.«internal/lossless.costManager.updateCost»,
  dep.«internal/lossless.costManager.updateCostAtIndex»,
  dep.«internal/lossless.costManager.updateCostPerInterval»,
  dep.«internal/lossless.costModelTrace.build»,
  dep.«internal/lossless.costModelTrace.getCacheCost»,
  dep.«internal/lossless.costModelTrace.getDistanceCost»,
  dep.«internal/lossless.costModelTrace.getLengthCost»,
  dep.«internal/lossless.costModelTrace.getLiteralCost»,
  dep.«internal/lossless.dominantCostRange.update»,
  dep.«internal/lossless.encColorTransformDelta»,
  dep.«internal/lossless.estimateEntropy»,
  dep.«internal/lossless.extraCost»,
  dep.«internal/lossless.extractClusterCenters»,
  dep.«internal/lossless.fastSLog2»,
  dep.«internal/lossless.fillMatchRange»,
  dep.«internal/lossless.finalHuffmanCost»,
  dep.«internal/lossless.findBestMultiplier»,
  dep.«internal/lossless.findBestMultipliers»,
  dep.«internal/lossless.findClosestDiscretized»,
  dep.«internal/lossless.findMatchLength»,
  dep.«internal/lossless.fixPair»,
  dep.«internal/lossless.generateCanonicalCodes»,
  dep.«internal/lossless.getBinIDForEntropy»,
  dep.«internal/lossless.getCombineCostFactor»,
  dep.«internal/lossless.getCombinedEntropy»,
  dep.«internal/lossless.getCombinedEntropyUnrefined»,
  dep.«internal/lossless.getCombinedHistogramEntropy»,
  dep.«internal/lossless.getEntropyUnrefined»,
  dep.«internal/lossless.getEntropyUnrefinedHelper»,
  dep.«internal/lossless.getHistoBinIndex»,
  dep.«internal/lossless.getHistoBits»,
  dep.«internal/lossless.getMaxItersForQuality»,
  dep.«internal/lossless.getPixPairHash64»,
  dep.«internal/lossless.getPixPairHash64Values»,
  dep.«internal/lossless.getTransformBits»,
  dep.«internal/lossless.histoQueue.popAt»,
  dep.«internal/lossless.histoQueue.push»,
  dep.«internal/lossless.histoQueue.size»,
  dep.«internal/lossless.histoQueue.updateHead»,
  dep.«internal/lossless.histogramAdd»,
  dep.«internal/lossless.histogramAddEvalThresh»,
  dep.«internal/lossless.histogramAddThresh»,
  dep.«internal/lossless.histogramBuild»,
  dep.«internal/lossless.histogramCombineEntropyBin»,
  dep.«internal/lossless.histogramCombineGreedy»,
  dep.«internal/lossless.histogramCombineStochastic»,
  dep.«internal/lossless.histogramEstimateBitsFromRefsScratch»,
  dep.«internal/lossless.histogramEstimateBitsUint64»,
  dep.«internal/lossless.histogramNumCodes»,
  dep.«internal/lossless.histogramRemap»,
  dep.«internal/lossless.initialHuffmanCost»,
  dep.«internal/lossless.isNear»,
  dep.«internal/lossless.isSmooth»,
  dep.«internal/lossless.lehmerRand»,
  dep.«internal/lossless.maxFindCopyLength»,
  dep.«internal/lossless.multiplierCost»,
  dep.«internal/lossless.nearLosslessPass»,
  dep.«internal/lossless.newCostManager»,
  dep.«internal/lossless.newCostModelTrace»,
  dep.«internal/lossless.newDominantCostRange»,
  dep.«internal/lossless.nodeHeap.Len»,
  dep.«internal/lossless.nodeHeap.heapInit»,
  dep.«internal/lossless.nodeHeap.less»,
  dep.«internal/lossless.nodeHeap.pop»,
  dep.«internal/lossless.nodeHeap.push»,
  dep.«internal/lossless.nodeHeap.siftDown»,
  dep.«internal/lossless.nodeHeap.swap»,
  dep.«internal/lossless.optimizeSampling»,
  dep.«internal/lossless.packMultipliers»,
  dep.«internal/lossless.paletteCodeBits»,
  dep.«internal/lossless.parallelComputeHistogramCost»,
  dep.«internal/lossless.populationCost»,
  dep.«internal/lossless.predictPixel»,
  dep.«internal/lossless.releaseEncoder»,
  dep.«internal/lossless.removeUnusedHistograms»,
  dep.«internal/lossless.reverseBits»,
  dep.«internal/lossless.selectPred»,
  dep.«internal/lossless.storeFullHuffmanCodeScratch»,
  dep.«internal/lossless.storeSimpleHuffmanCode»,
  dep.«internal/lossless.subPixels»,
  dep.«internal/lossless.subPixelsEnc»,
  dep.«internal/lossless.tileTracker.merge»,
  dep.«internal/lossless.tileTracker.swapRemove»,
  dep.«internal/lossless.traceBackwards»,
  dep.«internal/lossless.var:CodeLengthCodeOrder»,
  dep.«internal/lossless.var:CodeLengthExtraBits»,
  dep.«internal/lossless.var:ErrImageTooLarge»,
  dep.«internal/lossless.var:fastSLog2LUT»,
  dep.«internal/lossless.var:losslessEncoderPool»,
  dep.«internal/lossless.var:multiplierDeltaByteLUT»,
  dep.«internal/lossless.var:planeToCodeLUT»,
  dep.«internal/lossless.writeHuffmanCode»,
  dep.«webp.buildNRGBA»,
  dep.«webp.buildYCbCr»,
  dep.«webp.cleanupTransparentAreaLossless»,
  dep.«webp.decodeLossy»,
  dep.«webp.validNRGBA»,
  dep.«webp.validRGBA»,
  dep.«webp.var:argbPool»
]
-- END deps extra_C01
def extra_C01 : List Entry := extra_C01_roots ++ extra_C01_deps

def expected_C01 : List Entry :=
  lTransformFwd ++ lTransformInv ++ vp8lEntropyEnc ++ vp8lEntropyDec ++ vp8lFastPaths ++ codecFrontL ++ extra_C01

def stale_C01 : List String := stale expected_C01

/-- named in the anchors of C02 (properties.jsonl) and not in one of its groups -/
def extra_C02_roots : List Entry := [
  fp! "webp.encodeLossyWithAlpha" 0x08226ead4703904f,
  fp! "webp.encodeLossy" 0x008407f1596aa1cc,
  fp! "webp.encodeLossless" 0x6c24a9390e67cfb9,
  fp! "internal/container.FourCC" 0x64b4671b43fd1c8c,
  fp! "internal/lossless.argbHasAlpha" 0xab7003d387ee9714
]
-- BEGIN deps extra_C02 (written by tools/update_fingerprints.py — do not edit by hand)
def extra_C02_deps : List Entry := [
  dep.«webp.cleanupTransparentAreaLossless»,
  dep.«webp.cleanupTransparentAreaLossyWith»,
  dep.«webp.extractAlphaWith»,
  dep.«webp.flattenBlockNRGBA»,
  dep.«webp.imageHasAlpha»,
  dep.«webp.resolveAlphaCompression»,
  dep.«webp.resolveAlphaFiltering»,
  dep.«webp.resolveAlphaQuality»,
  dep.«webp.resolveQMax»,
  dep.«webp.sharpYUVConvert»,
  dep.«webp.smoothenBlockNRGBA»,
  dep.«webp.validNRGBA»,
  dep.«webp.validRGBA»,
  dep.«webp.var:argbPool»
]
-- END deps extra_C02
def extra_C02 : List Entry := extra_C02_roots ++ extra_C02_deps

def expected_C02 : List Entry :=
  writer ++ boolWriter ++ vp8Syntax ++ vp8lEntropyEnc ++ alphaEnc ++ codecFront ++ vp8ReconDec ++ codecFrontL ++ vp8lEntropyDec ++ vp8lFastPaths ++ lTransformInv ++ partition ++ vp8ReconEnc ++ extra_C02

def stale_C02 : List String := stale expected_C02

/-- named in the anchors of C03 (properties.jsonl) and not in one of its groups -/
def extra_C03_roots : List Entry := [
  fp! "webp.decodeLossless" 0xb111a1f0359d1a1b,
  fp! "webp.decodeFrame" 0x4504283f57fb7308,
  fp! "asm:internal/dsp/lossless_amd64.s" 0xfca87935e80d42e5,
  fp! "asm:internal/dsp/lossless_avx2_amd64.s" 0x17932ab2009d5402
]
-- BEGIN deps extra_C03 (written by tools/update_fingerprints.py — do not edit by hand)
def extra_C03_deps : List Entry := [
  dep.«webp.buildNRGBA»,
  dep.«webp.buildYCbCr»,
  dep.«webp.decodeLossy»
]
-- END deps extra_C03
def extra_C03 : List Entry := extra_C03_roots ++ extra_C03_deps

def expected_C03 : List Entry :=
  lTransformInv ++ vp8lEntropyDec ++ vp8lFastPaths ++ codecFrontL ++ extra_C03

def stale_C03 : List String := stale expected_C03

/-- named in the anchors of C04 (properties.jsonl) and not in one of its groups -/
def extra_C04_roots : List Entry := [
  fp! "webp.decodeFrame" 0x4504283f57fb7308,
  fp! "asm:internal/dsp/filter_amd64.s" 0x36127713c2b7fe6d,
  fp! "asm:internal/dsp/filter_avx2_amd64.s" 0x61255f5bdc52d65b,
  fp! "asm:internal/dsp/predict_amd64.s" 0xa38d4ad173f295d0,
  fp! "asm:internal/dsp/transforms_amd64.s" 0x2b5df04c02662792,
  fp! "asm:internal/dsp/transforms_avx2_amd64.s" 0x8d92fa93ebb73e80,
  fp! "asm:internal/dsp/upsample_amd64.s" 0x47d16d763c479650,
  fp! "asm:internal/dsp/upsample_avx2_amd64.s" 0x71f044c4b6b69406,
  fp! "webp.decodeLossless" 0xb111a1f0359d1a1b,
  fp! "webp.decodeLossy" 0x7eeae068373756e5,
  fp! "webp.buildYCbCr" 0x58eabdcf5af51de5
]
-- BEGIN deps extra_C04 (written by tools/update_fingerprints.py — do not edit by hand)
def extra_C04_deps : List Entry := [
  dep.«webp.buildNRGBA»
]
-- END deps extra_C04
def extra_C04 : List Entry := extra_C04_roots ++ extra_C04_deps

def expected_C04 : List Entry :=
  vp8Kernels ++ codecFront ++ vp8ReconDec ++ vp8DecodeGo ++ boolReader ++ alphaDec ++ extra_C04

def stale_C04 : List String := stale expected_C04

/-- named in the anchors of C05 (properties.jsonl) and not in one of its groups -/
def extra_C05_roots : List Entry := [
  fp! "animation.Decode" 0xb6c2ed2987896743,
  fp! "animation.DecodeBytes" 0x81d573a1cbad1e0d,
  fp! "animation.Animation.DecodeFrames" 0x4b216a8b4a7737e1,
  fp! "animation.Animation.DecodeFramesParallel" 0xc909414b1409d41b
]
-- BEGIN deps extra_C05 (written by tools/update_fingerprints.py — do not edit by hand)
def extra_C05_deps : List Entry := [
  dep.«animation.argbToNRGBA»,
  dep.«animation.const:maxInputSize»,
  dep.«animation.var:ErrNoDecoder»,
  dep.«animation.var:FrameDecoderFunc»
]
-- END deps extra_C05
def extra_C05 : List Entry := extra_C05_roots ++ extra_C05_deps

def expected_C05 : List Entry :=
  parser ++ demux ++ config ++ animDec ++ codecFront ++ codecFrontL ++ vp8ReconDec ++ vp8DecodeGo ++ boolReader ++ alphaDec ++ vp8lEntropyDec ++ vp8lFastPaths ++ lTransformInv ++ extra_C05

def stale_C05 : List String := stale expected_C05

/-- named in the anchors of C06 (properties.jsonl) and not in one of its groups -/
def extra_C06_roots : List Entry := [
  fp! "internal/lossy.NewEncoder" 0x242437fa11374545,
  fp! "internal/lossy.VP8Encoder.resetForReuse" 0x8c9d2f78b6de5265,
  fp! "internal/lossy.VP8Encoder.collectAllStats" 0x1d0299c8f5a665b8
]
-- BEGIN deps extra_C06 (written by tools/update_fingerprints.py — do not edit by hand)
def extra_C06_deps : List Entry := [
  dep.«internal/lossy.ResetProba»,
  dep.«internal/lossy.TokenBuffer.Init»,
  dep.«internal/lossy.TokenBuffer.Reset»,
  dep.«internal/lossy.TokenBuffer.addPage»,
  dep.«internal/lossy.VP8Encoder.allocateBuffers»,
  dep.«internal/lossy.VP8Encoder.importImage»,
  dep.«internal/lossy.VP8Encoder.initEncoderParams»,
  dep.«internal/lossy.VP8Encoder.initSegments»,
  dep.«internal/lossy.clampInt»,
  dep.«internal/lossy.collectCoeffStats»,
  dep.«internal/lossy.collectLevelStats»,
  dep.«internal/lossy.const:BPS»,
  dep.«internal/lossy.const:MaxNumPartitions»,
  dep.«internal/lossy.const:NumBands»,
  dep.«internal/lossy.const:NumCTX»,
  dep.«internal/lossy.const:NumMBSegments»,
  dep.«internal/lossy.const:NumProbas»,
  dep.«internal/lossy.const:NumTypes»,
  dep.«internal/lossy.const:YUVSize»,
  dep.«internal/lossy.getImportUVWorker»,
  dep.«internal/lossy.imageHasAlpha»,
  dep.«internal/lossy.initSegmentQuant»,
  dep.«internal/lossy.maxInt»,
  dep.«internal/lossy.qualityToCompression»,
  dep.«internal/lossy.qualityToQIndex»,
  dep.«internal/lossy.setupSegment»,
  dep.«internal/lossy.var:CoeffsProba0»,
  dep.«internal/lossy.var:KAcTable»,
  dep.«internal/lossy.var:KAcTable2»,
  dep.«internal/lossy.var:KBands»,
  dep.«internal/lossy.var:KDcTable»,
  dep.«internal/lossy.var:KZigzag»,
  dep.«internal/lossy.var:encoderPool»,
  dep.«internal/lossy.var:importUVWorkerPool»,
  dep.«internal/lossy.var:kBiasMatrices»,
  dep.«internal/lossy.var:kFreqSharpening»
]
-- END deps extra_C06
def extra_C06 : List Entry := extra_C06_roots ++ extra_C06_deps

def expected_C06 : List Entry :=
  vp8ReconEnc ++ vp8ReconDec ++ vp8Syntax ++ vp8Kernels ++ boolWriter ++ boolReader ++ extra_C06

def stale_C06 : List String := stale expected_C06

/-- named in the anchors of C07 (properties.jsonl) and not in one of its groups -/
def extra_C07_roots : List Entry := [
  fp! "webp.resolveAlphaCompression" 0x51fbf9804a5d9271,
  fp! "webp.resolveAlphaFiltering" 0x4f12e7e5864c74cd,
  fp! "webp.resolveAlphaQuality" 0xec83d6f3bf8a094e,
  fp! "webp.Encode" 0x8e4ded1f16dc5c62,
  fp! "webp.encodeLossy" 0x008407f1596aa1cc,
  fp! "webp.buildNRGBA" 0xd8549ce286e88cbd
]
-- BEGIN deps extra_C07 (written by tools/update_fingerprints.py — do not edit by hand)
def extra_C07_deps : List Entry := [
  dep.«webp.DefaultOptions»,
  dep.«webp.cleanupTransparentAreaLossless»,
  dep.«webp.cleanupTransparentAreaLossyWith»,
  dep.«webp.const:MaxDimension»,
  dep.«webp.const:PresetDefault»,
  dep.«webp.const:PresetText»,
  dep.«webp.encodeLossless»,
  dep.«webp.encodeLosslessToWriter»,
  dep.«webp.encodeLossyWithAlpha»,
  dep.«webp.extractAlphaWith»,
  dep.«webp.flattenBlockNRGBA»,
  dep.«webp.imageHasAlpha»,
  dep.«webp.putLE24»,
  dep.«webp.resolveQMax»,
  dep.«webp.rgbaIsOpaque»,
  dep.«webp.rgbaToNRGBA»,
  dep.«webp.sharpYUVConvert»,
  dep.«webp.smoothenBlockNRGBA»,
  dep.«webp.validNRGBA»,
  dep.«webp.validRGBA»,
  dep.«webp.validateConfig»,
  dep.«webp.var:argbPool»,
  dep.«webp.writeRIFF»,
  dep.«webp.writeRIFFExtended»,
  dep.«webp.writeRIFFSimple»
]
-- END deps extra_C07
def extra_C07 : List Entry := extra_C07_roots ++ extra_C07_deps

def expected_C07 : List Entry :=
  alphaDec ++ alphaEnc ++ alphaGlue ++ config ++ parser ++ vp8lEntropyEnc ++ lTransformFwd ++ partition ++ vp8lEntropyDec ++ lTransformInv ++ codecFrontL ++ vp8lFastPaths ++ extra_C07

def stale_C07 : List String := stale expected_C07

/-- named in the anchors of C08 (properties.jsonl) and not in one of its groups -/
def extra_C08_roots : List Entry := []
-- BEGIN deps extra_C08 (written by tools/update_fingerprints.py — do not edit by hand)
def extra_C08_deps : List Entry := []
-- END deps extra_C08
def extra_C08 : List Entry := extra_C08_roots ++ extra_C08_deps

def expected_C08 : List Entry :=
  animEnc ++ animDec ++ vp8lEntropyEnc ++ lTransformFwd ++ partition ++ extra_C08

def stale_C08 : List String := stale expected_C08

/-- named in the anchors of C09 (properties.jsonl) and not in one of its groups -/
def extra_C09_roots : List Entry := []
-- BEGIN deps extra_C09 (written by tools/update_fingerprints.py — do not edit by hand)
def extra_C09_deps : List Entry := []
-- END deps extra_C09
def extra_C09 : List Entry := extra_C09_roots ++ extra_C09_deps

def expected_C09 : List Entry :=
  animDec ++ extra_C09

def stale_C09 : List String := stale expected_C09

/-- named in the anchors of C10 (properties.jsonl) and not in one of its groups -/
def extra_C10_roots : List Entry := [
  fp! "internal/lossy.VP8Encoder.rerecordAllTokens" 0x9234a00e5d1f2f2b,
  fp! "internal/lossy.TokenBuffer.EmitTokensPartitioned" 0x615500966ad8cbfd,
  fp! "internal/lossy.TokenBuffer.MarkMBStart" 0xf124fe6f4541e3f9,
  fp! "internal/lossy.TokenBuffer.EmitTokens" 0xc4c419e2830f93db
]
-- BEGIN deps extra_C10 (written by tools/update_fingerprints.py — do not edit by hand)
def extra_C10_deps : List Entry := [
  dep.«internal/lossy.TokenBuffer.RecordCoeffs»,
  dep.«internal/lossy.TokenBuffer.RecordToken»,
  dep.«internal/lossy.TokenBuffer.Reset»,
  dep.«internal/lossy.TokenBuffer.addPage»,
  dep.«internal/lossy.TokenBuffer.recordLevelVP8»,
  dep.«internal/lossy.TokenBuffer.tokenCount»,
  dep.«internal/lossy.VP8Encoder.recordMBTokens»,
  dep.«internal/lossy.const:tokenPageSize»,
  dep.«internal/lossy.var:KCat3»,
  dep.«internal/lossy.var:KCat4»,
  dep.«internal/lossy.var:KCat5»,
  dep.«internal/lossy.var:KCat6»,
  dep.«internal/lossy.var:KZigzag»
]
-- END deps extra_C10
def extra_C10 : List Entry := extra_C10_roots ++ extra_C10_deps

def expected_C10 : List Entry :=
  rowPipe ++ partition ++ pool ++ codecFrontL ++ lTransformInv ++ vp8lEntropyDec ++ vp8lFastPaths ++ vp8DecodeGo ++ codecFront ++ vp8ReconDec ++ extra_C10

def stale_C10 : List String := stale expected_C10

/-- named in the anchors of C11 (properties.jsonl) and not in one of its groups -/
def extra_C11_roots : List Entry := [
  fp! "webp.decodeLossless" 0xb111a1f0359d1a1b,
  fp! "webp.decodeLossy" 0x7eeae068373756e5,
  fp! "webp.buildYCbCr" 0x58eabdcf5af51de5,
  fp! "webp.buildNRGBA" 0xd8549ce286e88cbd,
  fp! "internal/lossy.VP8Encoder.recordAllTokens" 0x9e7fc64d34eab2a0,
  fp! "internal/lossy.VP8Encoder.rerecordAllTokens" 0x9234a00e5d1f2f2b,
  fp! "internal/lossy.TokenBuffer.EmitTokensPartitioned" 0x615500966ad8cbfd,
  fp! "internal/lossy.TokenBuffer.EmitTokens" 0xc4c419e2830f93db,
  fp! "internal/lossy.TokenBuffer.MarkMBStart" 0xf124fe6f4541e3f9,
  fp! "internal/lossy.TokenBuffer.addPage" 0x5f03fb3db8db57b5,
  fp! "internal/lossy.TokenBuffer.RecordToken" 0x94c0a157b39ae2a2,
  fp! "internal/lossy.VP8Encoder.encodeFrame" 0xbf531c0793dbc470,
  fp! "internal/lossy.VP8Encoder.encodeFrameParallel" 0xe9284025720335ec,
  fp! "internal/lossy.VP8Encoder.collectAllStats" 0x1d0299c8f5a665b8,
  fp! "internal/lossy.MBIterator.Export" 0x14019dfc824910e6,
  fp! "internal/lossy.MBIterator.Import" 0xea1f4e187ace3afa,
  fp! "internal/lossy.MBIterator.GetNZContext" 0xac5b7007fb54ba2a,
  fp! "internal/lossy.MBIterator.SetNZ" 0x43b42bf91a633b82,
  fp! "internal/lossy.MBIterator.FillPredictionContext" 0xff60051e8bbcfb99,
  fp! "internal/lossy.VP8Encoder.InitIterator" 0xd00bb1f62f338cfc,
  fp! "internal/lossy.VP8Encoder.analysis" 0xbb3bd89f3141d0a2,
  fp! "internal/lossy.computeAlphas" 0x060c454d74a79b24,
  fp! "internal/lossy.computeMBAlphaDCTWith" 0xff5a35593297b89e,
  fp! "internal/lossy.generateI16Prediction" 0x59902b343665d52f,
  fp! "internal/lossy.isFlat" 0xcd516e60b0825361,
  fp! "internal/lossy.smoothSegmentMap" 0xe10fe5a56abbd66e,
  fp! "internal/lossy.fillPredContextParallel" 0x2d12a6b9c1a3976a,
  fp! "internal/lossy.importBlockParallel" 0xc7616111b493f6c8,
  fp! "internal/lossy.VP8Encoder.importImage" 0xdcbead9ae5c81b42,
  fp! "internal/lossy.VP8Encoder.importYCbCr" 0x2c90d78613403233,
  fp! "internal/lossy.PickBestI4Mode" 0xffb4274cba82a27a,
  fp! "internal/lossy.TrellisQuantizeBlock" 0xbd731a5b811c07b3,
  fp! "internal/lossy.QuantizeCoeffs" 0x9d5f204a89bc1ad4,
  fp! "internal/lossy.DequantCoeffs" 0x1561ef35b35a2eb8,
  fp! "internal/lossy.VP8Encoder.writeMBModes" 0x2eda066cff52b8af,
  fp! "internal/lossy.Decoder.parseHeaders" 0x2d0b0a4e64fe87af,
  fp! "internal/lossy.Decoder.parseSegmentHeader" 0x216c491ad5d42b6a,
  fp! "internal/lossy.Decoder.parseFilterHeader" 0xca9adfbba28d138f,
  fp! "internal/lossy.Decoder.parsePartitions" 0xf81891a20822b56c,
  fp! "internal/lossy.parseProba" 0x0e591a027be741c7,
  fp! "internal/lossy.ParseQuant" 0x69547494a70a55c5,
  fp! "internal/lossy.ResetProba" 0xd08825b0e929bd2b,
  fp! "internal/lossy.Decoder.precomputeFilterStrengths" 0x29d12a0306b8f0b8,
  fp! "internal/lossless.BackwardRefs.Add" 0x5c64d92ab558f780,
  fp! "internal/lossless.BackwardRefs.Reset" 0x55a8f1c5bddc9a43,
  fp! "internal/lossless.HuffmanScratch.AllocTree" 0x11fc7187e8bd268d,
  fp! "internal/lossless.BuildCodeLengthTokensScratch" 0x2472fd9408a4e98d,
  fp! "internal/lossless.CalculateBestCacheSize" 0x5028818c7ea2ec66,
  fp! "internal/lossless.Histogram.Clear" 0x712a0fd88ec2d1fe,
  fp! "internal/lossless.Histogram.copyFrom" 0x3b77a719785d9abc,
  fp! "internal/lossless.Histogram.resetStats" 0x9045c9dc8f5f9378,
  fp! "internal/lossless.HashChain.Fill" 0x31868e57d6b7da4b,
  fp! "internal/lossless.HashChain.fillParallel" 0x7faa9efe4e666803,
  fp! "internal/lossless.NewHashChain" 0x3e8fa35f52b5ac64,
  fp! "internal/lossless.NewHistogram" 0x294b27acd61f7987,
  fp! "internal/lossless.ColorCache.Reset" 0x37326803261a9758,
  fp! "internal/lossless.ReuseColorCache" 0xe6c53d899ae5bb95,
  fp! "internal/lossless.allocateHistoSetReuse" 0x64df1fc865a96456,
  fp! "internal/lossless.costModelTrace.build" 0x2ceb76cc9a240242,
  fp! "internal/lossless.HistoSet.clearAll" 0xb1e25516a20a93a9,
  fp! "internal/lossless.colorIndexInverseTransform" 0x44fadfc26c8ffbdc,
  fp! "internal/lossless.copyImageWithPrediction" 0x15470999fec8cb33,
  fp! "internal/lossless.histogramBuild" 0x72aae853e05f424f,
  fp! "internal/lossless.newCostManager" 0x8bd12dc544d6ec27,
  fp! "internal/lossless.paletteCodeBits" 0xca5341b0d315af09,
  fp! "internal/lossless.Decoder.readTransform" 0xa7604f17566de0d1,
  fp! "internal/lossless.traceBackwards" 0x1e9c5d626dec81b0,
  fp! "internal/lossy.VP8Encoder.EncodeFrame" 0xa0bfd91be2c1e645,
  fp! "internal/lossy.VP8Encoder.statLoop" 0xcb7593ee62a0c4b8,
  fp! "internal/lossy.VP8Encoder.initPassStats" 0xbcd995291864d78f,
  fp! "internal/lossy.passStats.computeNextQ" 0xdd3b1d96e4276079,
  fp! "internal/lossy.VP8Encoder.adjustQuantForTarget" 0x973ba38679700ec3
]
-- BEGIN deps extra_C11 (written by tools/update_fingerprints.py — do not edit by hand)
def extra_C11_deps : List Entry := [
  dep.«internal/lossless.BuildHuffmanTableScratch»,
  dep.«internal/lossless.ColorCache.HashPix»,
  dep.«internal/lossless.ColorCache.Insert»,
  dep.«internal/lossless.ColorCache.Lookup»,
  dep.«internal/lossless.Decoder.decodeImageData»,
  dep.«internal/lossless.Decoder.decodeImageStream»,
  dep.«internal/lossless.Decoder.decodeSubImage»,
  dep.«internal/lossless.Decoder.getHTreeGroup»,
  dep.«internal/lossless.Decoder.getMetaIndex»,
  dep.«internal/lossless.Decoder.huffTableScratch»,
  dep.«internal/lossless.Decoder.readHuffmanCode»,
  dep.«internal/lossless.Decoder.readHuffmanCodeLengths»,
  dep.«internal/lossless.Decoder.readHuffmanCodes»,
  dep.«internal/lossless.Decoder.updateDecoder»,
  dep.«internal/lossless.DistanceToPlaneCode»,
  dep.«internal/lossless.GetWindowSizeForHashChain»,
  dep.«internal/lossless.HashChain.fillSerial»,
  dep.«internal/lossless.Histogram.AddSingle»,
  dep.«internal/lossless.Histogram.population»,
  dep.«internal/lossless.NewColorCache»,
  dep.«internal/lossless.PixOrCopy.Argb»,
  dep.«internal/lossless.PixOrCopy.CacheIndex»,
  dep.«internal/lossless.PixOrCopy.Distance»,
  dep.«internal/lossless.PixOrCopy.IsCacheIdx»,
  dep.«internal/lossless.PixOrCopy.IsCopy»,
  dep.«internal/lossless.PixOrCopy.IsLiteral»,
  dep.«internal/lossless.PixOrCopy.Length»,
  dep.«internal/lossless.PlaneCodeToDistance»,
  dep.«internal/lossless.PopulationCost»,
  dep.«internal/lossless.PrefixEncodeBitsNoLUT»,
  dep.«internal/lossless.ReadSymbol»,
  dep.«internal/lossless.VP8LSubSampleSize»,
  dep.«internal/lossless.accumulateHCode»,
  dep.«internal/lossless.argbSliceToBytes»,
  dep.«internal/lossless.avg2»,
  dep.«internal/lossless.bitsEntropyRefine»,
  dep.«internal/lossless.bitsLog2Floor»,
  dep.«internal/lossless.buildHuffmanTableSize»,
  dep.«internal/lossless.buildPackedTable»,
  dep.«internal/lossless.bytesToARGBSlice»,
  dep.«internal/lossless.clampAddSubFull»,
  dep.«internal/lossless.clampAddSubHalf»,
  dep.«internal/lossless.clampByte»,
  dep.«internal/lossless.codeRepeatedValues»,
  dep.«internal/lossless.codeRepeatedZeros»,
  dep.«internal/lossless.const:ARGBBlack»,
  dep.«internal/lossless.const:CodeLengthCodes»,
  dep.«internal/lossless.const:CodeLengthLiterals»,
  dep.«internal/lossless.const:CodeLengthRepeatCode»,
  dep.«internal/lossless.const:CodeToPlaneCodesCount»,
  dep.«internal/lossless.const:ColorIndexingTransform»,
  dep.«internal/lossless.const:CrossColorTransform»,
  dep.«internal/lossless.const:DefaultCodeLength»,
  dep.«internal/lossless.const:HuffAlpha»,
  dep.«internal/lossless.const:HuffBlue»,
  dep.«internal/lossless.const:HuffDist»,
  dep.«internal/lossless.const:HuffGreen»,
  dep.«internal/lossless.const:HuffRed»,
  dep.«internal/lossless.const:HuffmanCodesPerMetaCode»,
  dep.«internal/lossless.const:HuffmanPackedBits»,
  dep.«internal/lossless.const:HuffmanPackedTableSize»,
  dep.«internal/lossless.const:HuffmanTableBits»,
  dep.«internal/lossless.const:HuffmanTableMask»,
  dep.«internal/lossless.const:LengthsTableBits»,
  dep.«internal/lossless.const:LengthsTableMask»,
  dep.«internal/lossless.const:MaxAllowedCodeLength»,
  dep.«internal/lossless.const:MaxCacheBits»,
  dep.«internal/lossless.const:MinHuffmanBits»,
  dep.«internal/lossless.const:MinTransformBits»,
  dep.«internal/lossless.const:NumDistanceCodes»,
  dep.«internal/lossless.const:NumHuffmanBits»,
  dep.«internal/lossless.const:NumLengthCodes»,
  dep.«internal/lossless.const:NumLiteralCodes»,
  dep.«internal/lossless.const:NumTransformBits»,
  dep.«internal/lossless.const:PredictorTransform»,
  dep.«internal/lossless.const:SubtractGreenTransform»,
  dep.«internal/lossless.const:bitsSpecialMarker»,
  dep.«internal/lossless.const:fastSLog2LUTSize»,
  dep.«internal/lossless.const:hashBits»,
  dep.«internal/lossless.const:hashSize»,
  dep.«internal/lossless.const:histAlpha»,
  dep.«internal/lossless.const:histBlue»,
  dep.«internal/lossless.const:histDistance»,
  dep.«internal/lossless.const:histLiteral»,
  dep.«internal/lossless.const:histRed»,
  dep.«internal/lossless.const:kHashMul»,
  dep.«internal/lossless.const:kHashMultiplierHi»,
  dep.«internal/lossless.const:kHashMultiplierLo»,
  dep.«internal/lossless.const:maxLength»,
  dep.«internal/lossless.const:maxLengthBits»,
  dep.«internal/lossless.const:modeCacheIdx»,
  dep.«internal/lossless.const:modeCopy»,
  dep.«internal/lossless.const:modeLiteral»,
  dep.«internal/lossless.const:nonTrivialSym»,
  dep.«internal/lossless.const:windowSize»,
  dep.«internal/lossless.const:windowSizeBits»,
  dep.«internal/lossless.convertPopulationCountToBitEstimates»,
  dep.«internal/lossless.copyBlock32»,
  dep.«internal/lossless.costModelTrace.getLengthCost»,
  dep.«internal/lossless.expandColorMap»,
  dep.«internal/lossless.extraCost»,
  dep.«internal/lossless.fastSLog2»,
  dep.«internal/lossless.fillMatchRange»,
  dep.«internal/lossless.finalHuffmanCost»,
  dep.«internal/lossless.findMatchLength»,
  dep.«internal/lossless.getARGBIndex»,
  dep.«internal/lossless.getEntropyUnrefined»,
  dep.«internal/lossless.getEntropyUnrefinedHelper»,
  dep.«internal/lossless.getMaxItersForQuality»,
  dep.«internal/lossless.getNextKey»,
  dep.«internal/lossless.getPixPairHash64»,
  dep.«internal/lossless.getPixPairHash64Values»,
  dep.«internal/lossless.histogramEstimateBitsUint64»,
  dep.«internal/lossless.histogramNumCodes»,
  dep.«internal/lossless.initialHuffmanCost»,
  dep.«internal/lossless.maxFindCopyLength»,
  dep.«internal/lossless.nextTableBitSize»,
  dep.«internal/lossless.populationCost»,
  dep.«internal/lossless.predictPixel»,
  dep.«internal/lossless.readPackedSymbols»,
  dep.«internal/lossless.replicateValue»,
  dep.«internal/lossless.selectPred»,
  dep.«internal/lossless.subPixels»,
  dep.«internal/lossless.var:CodeLengthCodeOrder»,
  dep.«internal/lossless.var:CodeLengthExtraBits»,
  dep.«internal/lossless.var:CodeLengthRepeatOffsets»,
  dep.«internal/lossless.var:CodeToPlane»,
  dep.«internal/lossless.var:ErrBitstream»,
  dep.«internal/lossless.var:ErrEmptyCodeLengths»,
  dep.«internal/lossless.var:ErrInvalidTree»,
  dep.«internal/lossless.var:KLiteralMap»,
  dep.«internal/lossless.var:fastSLog2LUT»,
  dep.«internal/lossless.var:kBaseAlphabetSize»,
  dep.«internal/lossless.var:planeToCodeLUT»,
  dep.«internal/lossy.MBIterator.FillPredContext»,
  dep.«internal/lossy.MBIterator.GetTopModes»,
  dep.«internal/lossy.MBIterator.IsDone»,
  dep.«internal/lossy.MBIterator.Next»,
  dep.«internal/lossy.MBIterator.SaveTopModes»,
  dep.«internal/lossy.MBIterator.resetLeftContext»,
  dep.«internal/lossy.PickBestI16Mode»,
  dep.«internal/lossy.PickBestUVMode»,
  dep.«internal/lossy.RDScore»,
  dep.«internal/lossy.TokenBuffer.RecordCoeffs»,
  dep.«internal/lossy.TokenBuffer.Reset»,
  dep.«internal/lossy.TokenBuffer.recordLevelVP8»,
  dep.«internal/lossy.TokenBuffer.tokenCount»,
  dep.«internal/lossy.TokenCostForCoeffs»,
  dep.«internal/lossy.VP8Encoder.PickBestI16ModeRD»,
  dep.«internal/lossy.VP8Encoder.PickBestI4ModeRD»,
  dep.«internal/lossy.VP8Encoder.PickBestI4ModeRDTrellis»,
  dep.«internal/lossy.VP8Encoder.PickBestUVModeRD»,
  dep.«internal/lossy.VP8Encoder.assembleFrame»,
  dep.«internal/lossy.VP8Encoder.buildSegmentHeader»,
  dep.«internal/lossy.VP8Encoder.collectMBStats»,
  dep.«internal/lossy.VP8Encoder.computeStats»,
  dep.«internal/lossy.VP8Encoder.correctDCValues»,
  dep.«internal/lossy.VP8Encoder.emitFrame»,
  dep.«internal/lossy.VP8Encoder.emitPartition0»,
  dep.«internal/lossy.VP8Encoder.emitTokenPartitions»,
  dep.«internal/lossy.VP8Encoder.encodeI16Residuals»,
  dep.«internal/lossy.VP8Encoder.encodeI4Residuals»,
  dep.«internal/lossy.VP8Encoder.encodeResiduals»,
  dep.«internal/lossy.VP8Encoder.encodeRow»,
  dep.«internal/lossy.VP8Encoder.encodeUVResiduals»,
  dep.«internal/lossy.VP8Encoder.pickBestMode»,
  dep.«internal/lossy.VP8Encoder.reconstructMB»,
  dep.«internal/lossy.VP8Encoder.recordMBTokens»,
  dep.«internal/lossy.VP8Encoder.refreshProbas»,
  dep.«internal/lossy.VP8Encoder.restoreSourcePixels»,
  dep.«internal/lossy.VP8Encoder.saveSourcePixels»,
  dep.«internal/lossy.VP8Encoder.setSegmentParams»,
  dep.«internal/lossy.VP8Encoder.setSegmentProbas»,
  dep.«internal/lossy.VP8Encoder.setupFilterStrength»,
  dep.«internal/lossy.VP8Encoder.simplifySegments»,
  dep.«internal/lossy.VP8Encoder.storeDiffusionErrors»,
  dep.«internal/lossy.VP8Encoder.tryI4Modes»,
  dep.«internal/lossy.VP8Encoder.tryI4ModesRD»,
  dep.«internal/lossy.VP8Encoder.updateNZContext»,
  dep.«internal/lossy.VP8Encoder.writeCoeffProba»,
  dep.«internal/lossy.VP8Encoder.writeFilterHeader»,
  dep.«internal/lossy.VP8Encoder.writeQuantParams»,
  dep.«internal/lossy.VP8Encoder.writeSegmentHeader»,
  dep.«internal/lossy.abs»,
  dep.«internal/lossy.assignSegments»,
  dep.«internal/lossy.boolToIntEnc»,
  dep.«internal/lossy.branchCost»,
  dep.«internal/lossy.checkMode»,
  dep.«internal/lossy.clampInt»,
  dep.«internal/lossy.clip»,
  dep.«internal/lossy.collectCoeffStats»,
  dep.«internal/lossy.collectHistogramAlphaWith»,
  dep.«internal/lossy.collectLevelStats»,
  dep.«internal/lossy.computeAlphasSerial»,
  dep.«internal/lossy.computeMBAlphaDCT»,
  dep.«internal/lossy.computeMBAlphaDCTWorker»,
  dep.«internal/lossy.computeMBUVAlphaDCT»,
  dep.«internal/lossy.computeMBUVAlphaDCTWith»,
  dep.«internal/lossy.computeMBUVAlphaDCTWorker»,
  dep.«internal/lossy.const:BDCPred»,
  dep.«internal/lossy.const:BDCPredNoLeft»,
  dep.«internal/lossy.const:BDCPredNoTop»,
  dep.«internal/lossy.const:BDCPredNoTopLeft»,
  dep.«internal/lossy.const:BHDPred»,
  dep.«internal/lossy.const:BHEPred»,
  dep.«internal/lossy.const:BHUPred»,
  dep.«internal/lossy.const:BLDPred»,
  dep.«internal/lossy.const:BPS»,
  dep.«internal/lossy.const:BRDPred»,
  dep.«internal/lossy.const:BTMPred»,
  dep.«internal/lossy.const:BVEPred»,
  dep.«internal/lossy.const:BVLPred»,
  dep.«internal/lossy.const:BVRPred»,
  dep.«internal/lossy.const:DCPred»,
  dep.«internal/lossy.const:HPred»,
  dep.«internal/lossy.const:MBFeatureTreeProbs»,
  dep.«internal/lossy.const:NumBModes»,
  dep.«internal/lossy.const:NumBands»,
  dep.«internal/lossy.const:NumCTX»,
  dep.«internal/lossy.const:NumMBSegments»,
  dep.«internal/lossy.const:NumModeLFDeltas»,
  dep.«internal/lossy.const:NumPredModes»,
  dep.«internal/lossy.const:NumProbas»,
  dep.«internal/lossy.const:NumRefLFDeltas»,
  dep.«internal/lossy.const:NumTypes»,
  dep.«internal/lossy.const:TMPred»,
  dep.«internal/lossy.const:UOff»,
  dep.«internal/lossy.const:VOff»,
  dep.«internal/lossy.const:VPred»,
  dep.«internal/lossy.const:YOff»,
  dep.«internal/lossy.const:YUVSize»,
  dep.«internal/lossy.const:alphaScale»,
  dep.«internal/lossy.const:derrC1»,
  dep.«internal/lossy.const:derrC2»,
  dep.«internal/lossy.const:derrDScale»,
  dep.«internal/lossy.const:derrDShift»,
  dep.«internal/lossy.const:flatnessLimitI16»,
  dep.«internal/lossy.const:flatnessLimitI4»,
  dep.«internal/lossy.const:flatnessLimitUV»,
  dep.«internal/lossy.const:flatnessPenalty»,
  dep.«internal/lossy.const:fstrengthCutoff»,
  dep.«internal/lossy.const:maxAlpha»,
  dep.«internal/lossy.const:maxCoeffThresh»,
  dep.«internal/lossy.const:maxIntra16Mode»,
  dep.«internal/lossy.const:maxItersKMeans»,
  dep.«internal/lossy.const:maxPartition0Size»,
  dep.«internal/lossy.const:maxPartitionSize»,
  dep.«internal/lossy.const:minRefreshCount»,
  dep.«internal/lossy.const:rdDistoMult»,
  dep.«internal/lossy.const:tokenPageSize»,
  dep.«internal/lossy.dequantCoeffsGo»,
  dep.«internal/lossy.dequantCoeffsSSE2»,
  dep.«internal/lossy.encodeI16ResidualsParallel»,
  dep.«internal/lossy.encodeI4ResidualsParallel»,
  dep.«internal/lossy.encodeResidualsParallel»,
  dep.«internal/lossy.encodeUVResidualsParallel»,
  dep.«internal/lossy.exportParallel»,
  dep.«internal/lossy.fastVariableLevelCost»,
  dep.«internal/lossy.filterStrengthFromDelta»,
  dep.«internal/lossy.getBoolWriter»,
  dep.«internal/lossy.getImportUVWorker»,
  dep.«internal/lossy.getMaxI4RDModes»,
  dep.«internal/lossy.getPSNR»,
  dep.«internal/lossy.getParallelState»,
  dep.«internal/lossy.i4SubtreeContains»,
  dep.«internal/lossy.imageHasAlpha»,
  dep.«internal/lossy.importBlock»,
  dep.«internal/lossy.initRowWorker»,
  dep.«internal/lossy.initSegmentQuant»,
  dep.«internal/lossy.isFlatSource16»,
  dep.«internal/lossy.maxInt»,
  dep.«internal/lossy.needsLeft4»,
  dep.«internal/lossy.needsTop4»,
  dep.«internal/lossy.newRowSync»,
  dep.«internal/lossy.nzCountACSSE2»,
  dep.«internal/lossy.optimizeProba»,
  dep.«internal/lossy.pickBestI16ModeRDParallel»,
  dep.«internal/lossy.pickBestI4ModeRDParallel»,
  dep.«internal/lossy.pickBestI4ModeRDTrellisParallel»,
  dep.«internal/lossy.pickBestModeParallel»,
  dep.«internal/lossy.pickBestUVModeRDParallel»,
  dep.«internal/lossy.putBoolWriter»,
  dep.«internal/lossy.putParallelState»,
  dep.«internal/lossy.qualityToCompression»,
  dep.«internal/lossy.quantizeACAVX2»,
  dep.«internal/lossy.quantizeACSSE2»,
  dep.«internal/lossy.quantizeCoeffsGo»,
  dep.«internal/lossy.quantizeSingle»,
  dep.«internal/lossy.readOptionalSigned»,
  dep.«internal/lossy.reconstructMBParallel»,
  dep.«internal/lossy.rowSync.signal»,
  dep.«internal/lossy.rowSync.waitFor»,
  dep.«internal/lossy.setupSegment»,
  dep.«internal/lossy.tryI4ModesParallel»,
  dep.«internal/lossy.tryI4ModesRDParallel»,
  dep.«internal/lossy.updateNZContextParallel»,
  dep.«internal/lossy.var:CoeffsProba0»,
  dep.«internal/lossy.var:CoeffsUpdateProba»,
  dep.«internal/lossy.var:ErrPartition0Overflow»,
  dep.«internal/lossy.var:ErrPartitionOverflow»,
  dep.«internal/lossy.var:KAcTable»,
  dep.«internal/lossy.var:KAcTable2»,
  dep.«internal/lossy.var:KBModesProba»,
  dep.«internal/lossy.var:KBands»,
  dep.«internal/lossy.var:KCat3»,
  dep.«internal/lossy.var:KCat4»,
  dep.«internal/lossy.var:KCat5»,
  dep.«internal/lossy.var:KCat6»,
  dep.«internal/lossy.var:KDcTable»,
  dep.«internal/lossy.var:KYModesIntra4»,
  dep.«internal/lossy.var:KZigzag»,
  dep.«internal/lossy.var:VP8FixedCostsI4»,
  dep.«internal/lossy.var:boolWriterPool»,
  dep.«internal/lossy.var:importUVWorkerPool»,
  dep.«internal/lossy.var:kBiasMatrices»,
  dep.«internal/lossy.var:kFreqSharpening»,
  dep.«internal/lossy.var:kLevelsFromDelta»,
  dep.«internal/lossy.var:kReverseZigzag»,
  dep.«internal/lossy.var:kWeightTrellis»,
  dep.«internal/lossy.var:modeFixedCost16»,
  dep.«internal/lossy.var:modeFixedCostUV»,
  dep.«internal/lossy.var:parallelPool»,
  dep.«internal/lossy.var:vp8LevelCodes»,
  dep.«internal/lossy.variableLevelCost»,
  dep.«internal/lossy.writeI16Mode»,
  dep.«internal/lossy.writeI4ModeBits»,
  dep.«internal/lossy.writeSegmentID»,
  dep.«internal/lossy.writeUVMode»
]
-- END deps extra_C11
def extra_C11 : List Entry := extra_C11_roots ++ extra_C11_deps

def expected_C11 : List Entry :=
  pool ++ codecFrontL ++ lTransformInv ++ vp8lEntropyDec ++ vp8lFastPaths ++ vp8DecodeGo ++ codecFront ++ vp8ReconDec ++ extra_C11

def stale_C11 : List String := stale expected_C11

/-- named in the anchors of C12 (properties.jsonl) and not in one of its groups -/
def extra_C12_roots : List Entry := []
-- BEGIN deps extra_C12 (written by tools/update_fingerprints.py — do not edit by hand)
def extra_C12_deps : List Entry := []
-- END deps extra_C12
def extra_C12 : List Entry := extra_C12_roots ++ extra_C12_deps

def expected_C12 : List Entry :=
  partition ++ rowPipe ++ extra_C12

def stale_C12 : List String := stale expected_C12

/-- named in the anchors of C13 (properties.jsonl) and not in one of its groups -/
def extra_C13_roots : List Entry := [
  fp! "internal/dsp.init" 0x1745b3604e07cb3f,
  fp! "internal/dsp.HasAVX2" 0xfb33f2f6d3357dbd,
  fp! "internal/dsp.InitRandom" 0x44af8b8668690db9,
  fp! "internal/dsp.RandomBits" 0x3ba30af3b22302b0,
  fp! "internal/dsp.RandomBits2" 0x6069485d3343bdb3,
  fp! "internal/dsp.TDisto16x16" 0xbc74386e0605c2e2,
  fp! "internal/dsp.tDisto16x16Go" 0x5593156b19e929ec,
  fp! "asm:internal/dsp/cpuid_amd64.s" 0x2fe79652af53cb33,
  fp! "asm:internal/dsp/filter_amd64.s" 0x36127713c2b7fe6d,
  fp! "asm:internal/dsp/filter_avx2_amd64.s" 0x61255f5bdc52d65b,
  fp! "asm:internal/dsp/lossless_amd64.s" 0xfca87935e80d42e5,
  fp! "asm:internal/dsp/lossless_avx2_amd64.s" 0x17932ab2009d5402,
  fp! "asm:internal/dsp/predict_amd64.s" 0xa38d4ad173f295d0,
  fp! "asm:internal/dsp/ssim_amd64.s" 0x8dec63197ce89cbb,
  fp! "asm:internal/dsp/ssim_avx2_amd64.s" 0xa71fa7672d83947c,
  fp! "asm:internal/dsp/transforms_amd64.s" 0x2b5df04c02662792,
  fp! "asm:internal/dsp/transforms_avx2_amd64.s" 0x8d92fa93ebb73e80,
  fp! "asm:internal/dsp/upsample_amd64.s" 0x47d16d763c479650,
  fp! "asm:internal/dsp/upsample_avx2_amd64.s" 0x71f044c4b6b69406,
  fp! "asm:internal/dsp/lossless_arm64.s" 0x992f1f559d17d178,
  fp! "asm:internal/dsp/predict_arm64.s" 0x7788907f560e52ef,
  fp! "asm:internal/dsp/ssim_arm64.s" 0x7ef2049766ddbedb,
  fp! "asm:internal/dsp/transforms_arm64.s" 0x860069992c62f3e7,
  fp! "asm:internal/lossy/encode_quant_amd64.s" 0x511faef626478e51,
  fp! "asm:internal/lossy/encode_quant_avx2_amd64.s" 0x99fd87f7f1939612,
  fp! "asmfiles:internal/dsp" 0x31a257cf7e19f9ad,
  fp! "asmfiles:internal/lossless" 0xe3b0c44298fc1c14,
  fp! "asmfiles:internal/lossy" 0x07b98268116a1ff5,
  fp! "mux.writeDataChunk" 0x22df9bd4c1606da2,
  fp! "mux.chunkTotalSize" 0x0a45fa5968fe1de3,
  fp! "mux.subChunkSize" 0x0973f4937abeb2ba,
  fp! "mux.frameSubChunksSize" 0xd6be2256e98a5d5b
]
-- BEGIN deps extra_C13 (written by tools/update_fingerprints.py — do not edit by hand)
def extra_C13_deps : List Entry := [
  dep.«internal/dsp.Clip8b»,
  dep.«internal/dsp.Init»,
  dep.«internal/dsp.abs»,
  dep.«internal/dsp.addGreenToBlueAndRedAVX2»,
  dep.«internal/dsp.addGreenToBlueAndRedGo»,
  dep.«internal/dsp.addGreenToBlueAndRedNEON»,
  dep.«internal/dsp.addGreenToBlueAndRedSSE2»,
  dep.«internal/dsp.avg2»,
  dep.«internal/dsp.avg3»,
  dep.«internal/dsp.b2i»,
  dep.«internal/dsp.const:BPS»,
  dep.«internal/dsp.const:abs0Offset»,
  dep.«internal/dsp.const:c1»,
  dep.«internal/dsp.const:c2»,
  dep.«internal/dsp.const:clip1Offset»,
  dep.«internal/dsp.const:sclip1Offset»,
  dep.«internal/dsp.const:sclip2Offset»,
  dep.«internal/dsp.const:vp8RandomDitherFix»,
  dep.«internal/dsp.const:vp8RandomTableSize»,
  dep.«internal/dsp.const:yuvFix2»,
  dep.«internal/dsp.const:yuvMask»,
  dep.«internal/dsp.cpuidAVX2Check»,
  dep.«internal/dsp.dc16»,
  dep.«internal/dsp.dc16NEON»,
  dep.«internal/dsp.dc16NoLeft»,
  dep.«internal/dsp.dc16NoTop»,
  dep.«internal/dsp.dc16NoTopLeft»,
  dep.«internal/dsp.dc16SSE2»,
  dep.«internal/dsp.dc16asmNEON»,
  dep.«internal/dsp.dc16asmSSE2»,
  dep.«internal/dsp.dc4»,
  dep.«internal/dsp.dc8uv»,
  dep.«internal/dsp.dc8uvNEON»,
  dep.«internal/dsp.dc8uvNoLeft»,
  dep.«internal/dsp.dc8uvNoTop»,
  dep.«internal/dsp.dc8uvNoTopLeft»,
  dep.«internal/dsp.dc8uvSSE2»,
  dep.«internal/dsp.dc8uvasmNEON»,
  dep.«internal/dsp.dc8uvasmSSE2»,
  dep.«internal/dsp.fTransform»,
  dep.«internal/dsp.fTransform2»,
  dep.«internal/dsp.fTransform2AVX2»,
  dep.«internal/dsp.fTransformAVX2»,
  dep.«internal/dsp.fTransformSSE2»,
  dep.«internal/dsp.fTransformWHT»,
  dep.«internal/dsp.fTransformWHTNEON»,
  dep.«internal/dsp.fTransformWHTSSE2»,
  dep.«internal/dsp.hd4»,
  dep.«internal/dsp.he16»,
  dep.«internal/dsp.he16NEON»,
  dep.«internal/dsp.he16SSE2»,
  dep.«internal/dsp.he16asmNEON»,
  dep.«internal/dsp.he16asmSSE2»,
  dep.«internal/dsp.he4»,
  dep.«internal/dsp.he8uv»,
  dep.«internal/dsp.he8uvNEON»,
  dep.«internal/dsp.he8uvSSE2»,
  dep.«internal/dsp.he8uvasmNEON»,
  dep.«internal/dsp.he8uvasmSSE2»,
  dep.«internal/dsp.hu4»,
  dep.«internal/dsp.iTransform»,
  dep.«internal/dsp.iTransformAVX2»,
  dep.«internal/dsp.iTransformNEON»,
  dep.«internal/dsp.iTransformOne»,
  dep.«internal/dsp.iTransformOneAVX2»,
  dep.«internal/dsp.iTransformOneNEON»,
  dep.«internal/dsp.iTransformOneSSE2»,
  dep.«internal/dsp.iTransformSSE2»,
  dep.«internal/dsp.initClipTables»,
  dep.«internal/dsp.initLevelCosts»,
  dep.«internal/dsp.initLosslessPredictors»,
  dep.«internal/dsp.initPredictors»,
  dep.«internal/dsp.initSSIM»,
  dep.«internal/dsp.initScanTable»,
  dep.«internal/dsp.initYUVTables»,
  dep.«internal/dsp.lAbs»,
  dep.«internal/dsp.lAverage2»,
  dep.«internal/dsp.lAverage3»,
  dep.«internal/dsp.lAverage4»,
  dep.«internal/dsp.lClamp»,
  dep.«internal/dsp.lClampedAddSubtractFull»,
  dep.«internal/dsp.lClampedAddSubtractHalf»,
  dep.«internal/dsp.lSelect»,
  dep.«internal/dsp.ld4»,
  dep.«internal/dsp.mul1»,
  dep.«internal/dsp.mul2»,
  dep.«internal/dsp.pred0»,
  dep.«internal/dsp.pred1»,
  dep.«internal/dsp.pred10»,
  dep.«internal/dsp.pred11»,
  dep.«internal/dsp.pred12»,
  dep.«internal/dsp.pred13»,
  dep.«internal/dsp.pred2»,
  dep.«internal/dsp.pred3»,
  dep.«internal/dsp.pred4»,
  dep.«internal/dsp.pred5»,
  dep.«internal/dsp.pred6»,
  dep.«internal/dsp.pred7»,
  dep.«internal/dsp.pred8»,
  dep.«internal/dsp.pred9»,
  dep.«internal/dsp.rd4»,
  dep.«internal/dsp.sse16x16»,
  dep.«internal/dsp.sse16x16AVX2»,
  dep.«internal/dsp.sse16x16NEON»,
  dep.«internal/dsp.sse16x16SSE2»,
  dep.«internal/dsp.sse4x4»,
  dep.«internal/dsp.sse4x4NEON»,
  dep.«internal/dsp.sse4x4SSE2»,
  dep.«internal/dsp.store»,
  dep.«internal/dsp.subtractGreenAVX2»,
  dep.«internal/dsp.subtractGreenGo»,
  dep.«internal/dsp.subtractGreenNEON»,
  dep.«internal/dsp.subtractGreenSSE2»,
  dep.«internal/dsp.tDisto4x4AVX2»,
  dep.«internal/dsp.tDisto4x4Go»,
  dep.«internal/dsp.tDisto4x4SSE2»,
  dep.«internal/dsp.tTransform»,
  dep.«internal/dsp.tm16»,
  dep.«internal/dsp.tm16NEON»,
  dep.«internal/dsp.tm16SSE2»,
  dep.«internal/dsp.tm16asmNEON»,
  dep.«internal/dsp.tm16asmSSE2»,
  dep.«internal/dsp.tm4»,
  dep.«internal/dsp.tm8uv»,
  dep.«internal/dsp.tm8uvNEON»,
  dep.«internal/dsp.tm8uvSSE2»,
  dep.«internal/dsp.tm8uvasmNEON»,
  dep.«internal/dsp.tm8uvasmSSE2»,
  dep.«internal/dsp.transformAC3»,
  dep.«internal/dsp.transformDC»,
  dep.«internal/dsp.transformDCUV»,
  dep.«internal/dsp.transformOne»,
  dep.«internal/dsp.transformTwo»,
  dep.«internal/dsp.transformTwoDecAVX2»,
  dep.«internal/dsp.transformTwoDecNEON»,
  dep.«internal/dsp.transformTwoDecSSE2»,
  dep.«internal/dsp.transformUV»,
  dep.«internal/dsp.transformUVAVX2»,
  dep.«internal/dsp.transformUVNEON»,
  dep.«internal/dsp.transformUVSSE2»,
  dep.«internal/dsp.transformWHT»,
  dep.«internal/dsp.transformWHTNEON»,
  dep.«internal/dsp.transformWHTSSE2»,
  dep.«internal/dsp.var:AddGreenToBlueAndRedFunc»,
  dep.«internal/dsp.var:DspScan»,
  dep.«internal/dsp.var:DspScanUV»,
  dep.«internal/dsp.var:FTransform»,
  dep.«internal/dsp.var:FTransform2»,
  dep.«internal/dsp.var:FTransformWHT»,
  dep.«internal/dsp.var:ITransform»,
  dep.«internal/dsp.var:LosslessPredictors»,
  dep.«internal/dsp.var:PredChroma8»,
  dep.«internal/dsp.var:PredLuma16»,
  dep.«internal/dsp.var:PredLuma4»,
  dep.«internal/dsp.var:SSE16x16»,
  dep.«internal/dsp.var:SSE4x4»,
  dep.«internal/dsp.var:SubtractGreenFunc»,
  dep.«internal/dsp.var:Transform»,
  dep.«internal/dsp.var:TransformAC3»,
  dep.«internal/dsp.var:TransformDC»,
  dep.«internal/dsp.var:TransformDCUV»,
  dep.«internal/dsp.var:TransformUV»,
  dep.«internal/dsp.var:TransformWHT»,
  dep.«internal/dsp.var:VP8LevelFixedCosts»,
  dep.«internal/dsp.var:abs0»,
  dep.«internal/dsp.var:clip1»,
  dep.«internal/dsp.var:hasAVX2»,
  dep.«internal/dsp.var:kRandomTable»,
  dep.«internal/dsp.var:kWeightY»,
  dep.«internal/dsp.var:sclip1»,
  dep.«internal/dsp.var:sclip2»,
  dep.«internal/dsp.var:vp8LevelFixedCostsTable»,
  dep.«internal/dsp.var:vp8kClip»,
  dep.«internal/dsp.var:vp8kClip4Bits»,
  dep.«internal/dsp.ve16»,
  dep.«internal/dsp.ve16NEON»,
  dep.«internal/dsp.ve16SSE2»,
  dep.«internal/dsp.ve16asmNEON»,
  dep.«internal/dsp.ve16asmSSE2»,
  dep.«internal/dsp.ve4»,
  dep.«internal/dsp.ve8uv»,
  dep.«internal/dsp.ve8uvNEON»,
  dep.«internal/dsp.ve8uvSSE2»,
  dep.«internal/dsp.ve8uvasmNEON»,
  dep.«internal/dsp.ve8uvasmSSE2»,
  dep.«internal/dsp.vl4»,
  dep.«internal/dsp.vr4»,
  dep.«mux.splitAlphaAndBitstream»,
  dep.«mux.var:FourCCALPH»,
  dep.«mux.writeChunkHeader»
]
-- END deps extra_C13
def extra_C13 : List Entry := extra_C13_roots ++ extra_C13_deps

def expected_C13 : List Entry :=
  vp8Kernels ++ extra_C13

def stale_C13 : List String := stale expected_C13

/-- named in the anchors of C14 (properties.jsonl) and not in one of its groups -/
def extra_C14_roots : List Entry := []
-- BEGIN deps extra_C14 (written by tools/update_fingerprints.py — do not edit by hand)
def extra_C14_deps : List Entry := []
-- END deps extra_C14
def extra_C14 : List Entry := extra_C14_roots ++ extra_C14_deps

def expected_C14 : List Entry :=
  muxer ++ demux ++ parser ++ extra_C14

def stale_C14 : List String := stale expected_C14

/-- named in the anchors of C15 (properties.jsonl) and not in one of its groups -/
def extra_C15_roots : List Entry := [
  fp! "webp.encodeLossless" 0x6c24a9390e67cfb9,
  fp! "webp.encodeLossyWithAlpha" 0x08226ead4703904f,
  fp! "webp.encodeLossy" 0x008407f1596aa1cc,
  fp! "animation.DecodeBytes" 0x81d573a1cbad1e0d,
  fp! "animation.AnimEncoder.SetICCProfile" 0x818fab8effcb7ac1,
  fp! "animation.AnimEncoder.SetEXIF" 0x8cfe270f3e27d53f,
  fp! "animation.AnimEncoder.SetXMP" 0x900f356589d3bce9,
  fp! "animation.AnimEncoder.Close" 0xb95353744d73d5ad
]
-- BEGIN deps extra_C15 (written by tools/update_fingerprints.py — do not edit by hand)
def extra_C15_deps : List Entry := [
  dep.«animation.argbToNRGBA»,
  dep.«animation.var:SimpleEncodeFunc»,
  dep.«webp.cleanupTransparentAreaLossless»,
  dep.«webp.cleanupTransparentAreaLossyWith»,
  dep.«webp.extractAlphaWith»,
  dep.«webp.flattenBlockNRGBA»,
  dep.«webp.imageHasAlpha»,
  dep.«webp.resolveAlphaCompression»,
  dep.«webp.resolveAlphaFiltering»,
  dep.«webp.resolveAlphaQuality»,
  dep.«webp.resolveQMax»,
  dep.«webp.sharpYUVConvert»,
  dep.«webp.smoothenBlockNRGBA»,
  dep.«webp.validNRGBA»,
  dep.«webp.validRGBA»,
  dep.«webp.var:argbPool»
]
-- END deps extra_C15
def extra_C15 : List Entry := extra_C15_roots ++ extra_C15_deps

def expected_C15 : List Entry :=
  muxer ++ demux ++ parser ++ writer ++ config ++ extra_C15

def stale_C15 : List String := stale expected_C15

/-- named in the anchors of C16 (properties.jsonl) and not in one of its groups -/
def extra_C16_roots : List Entry := [
  fp! "webp.decodeLossy" 0x7eeae068373756e5,
  fp! "animation.DecodeBytes" 0x81d573a1cbad1e0d,
  fp! "internal/lossless.argbHasAlpha" 0xab7003d387ee9714,
  fp! "internal/lossless.Decoder.decodeHeader" 0xf48ce041e0ec8c61,
  fp! "internal/lossy.DecodeFrame" 0x0cbe1247c056a9e7,
  fp! "webp.buildYCbCr" 0x58eabdcf5af51de5,
  fp! "webp.buildNRGBA" 0xd8549ce286e88cbd
]
-- BEGIN deps extra_C16 (written by tools/update_fingerprints.py — do not edit by hand)
def extra_C16_deps : List Entry := [
  dep.«animation.argbToNRGBA»,
  dep.«internal/lossless.const:VP8LHeaderSize»,
  dep.«internal/lossless.const:VP8LImageSizeBits»,
  dep.«internal/lossless.const:VP8LMagicByte»,
  dep.«internal/lossless.const:VP8LVersion»,
  dep.«internal/lossless.const:VP8LVersionBits»,
  dep.«internal/lossless.var:ErrBadSignature»,
  dep.«internal/lossless.var:ErrBadVersion»,
  dep.«internal/lossless.var:ErrBitstream»,
  dep.«internal/lossy.Decoder.decodeMB»,
  dep.«internal/lossy.Decoder.doFilter»,
  dep.«internal/lossy.Decoder.filterRowAt»,
  dep.«internal/lossy.Decoder.initFrame»,
  dep.«internal/lossy.Decoder.initScanline»,
  dep.«internal/lossy.Decoder.parseFilterHeader»,
  dep.«internal/lossy.Decoder.parseFrame»,
  dep.«internal/lossy.Decoder.parseHeaders»,
  dep.«internal/lossy.Decoder.parseIntraModeRow»,
  dep.«internal/lossy.Decoder.parsePartitions»,
  dep.«internal/lossy.Decoder.parseResiduals»,
  dep.«internal/lossy.Decoder.parseSegmentHeader»,
  dep.«internal/lossy.Decoder.precomputeFilterStrengths»,
  dep.«internal/lossy.Decoder.reconstructRow»,
  dep.«internal/lossy.ParseQuant»,
  dep.«internal/lossy.ReleaseDecoder»,
  dep.«internal/lossy.ResetProba»,
  dep.«internal/lossy.abs»,
  dep.«internal/lossy.acquireDecoder»,
  dep.«internal/lossy.b2i»,
  dep.«internal/lossy.brLoad»,
  dep.«internal/lossy.brSync»,
  dep.«internal/lossy.checkMode»,
  dep.«internal/lossy.clamp255»,
  dep.«internal/lossy.clip»,
  dep.«internal/lossy.const:BDCPred»,
  dep.«internal/lossy.const:BDCPredNoLeft»,
  dep.«internal/lossy.const:BDCPredNoTop»,
  dep.«internal/lossy.const:BDCPredNoTopLeft»,
  dep.«internal/lossy.const:BHDPred»,
  dep.«internal/lossy.const:BHEPred»,
  dep.«internal/lossy.const:BHUPred»,
  dep.«internal/lossy.const:BLDPred»,
  dep.«internal/lossy.const:BPS»,
  dep.«internal/lossy.const:BRDPred»,
  dep.«internal/lossy.const:BTMPred»,
  dep.«internal/lossy.const:BVEPred»,
  dep.«internal/lossy.const:BVLPred»,
  dep.«internal/lossy.const:BVRPred»,
  dep.«internal/lossy.const:DCPred»,
  dep.«internal/lossy.const:HPred»,
  dep.«internal/lossy.const:MBFeatureTreeProbs»,
  dep.«internal/lossy.const:NumBModes»,
  dep.«internal/lossy.const:NumBands»,
  dep.«internal/lossy.const:NumCTX»,
  dep.«internal/lossy.const:NumMBSegments»,
  dep.«internal/lossy.const:NumModeLFDeltas»,
  dep.«internal/lossy.const:NumProbas»,
  dep.«internal/lossy.const:NumRefLFDeltas»,
  dep.«internal/lossy.const:NumTypes»,
  dep.«internal/lossy.const:TMPred»,
  dep.«internal/lossy.const:UOff»,
  dep.«internal/lossy.const:VOff»,
  dep.«internal/lossy.const:VPred»,
  dep.«internal/lossy.const:YOff»,
  dep.«internal/lossy.const:YUVSize»,
  dep.«internal/lossy.doSimpleFilter2»,
  dep.«internal/lossy.doSimpleFilter4»,
  dep.«internal/lossy.doSimpleFilter6»,
  dep.«internal/lossy.doTransform»,
  dep.«internal/lossy.doTransformDCBlock»,
  dep.«internal/lossy.doUVTransform»,
  dep.«internal/lossy.fastBit»,
  dep.«internal/lossy.fastSigned»,
  dep.«internal/lossy.fillBytes»,
  dep.«internal/lossy.filterLoop24HAt»,
  dep.«internal/lossy.filterLoop24VAt»,
  dep.«internal/lossy.filterLoop26At»,
  dep.«internal/lossy.filterLoop26HAt»,
  dep.«internal/lossy.filterLoop26VAt»,
  dep.«internal/lossy.getCoeffsInline»,
  dep.«internal/lossy.hFilter16iAt»,
  dep.«internal/lossy.hFilter8iAt»,
  dep.«internal/lossy.isHEV»,
  dep.«internal/lossy.needsFilter2At»,
  dep.«internal/lossy.nzCodeBits»,
  dep.«internal/lossy.parseProba»,
  dep.«internal/lossy.readOptionalSigned»,
  dep.«internal/lossy.sclip1»,
  dep.«internal/lossy.sclip2»,
  dep.«internal/lossy.simpleHFilter16At»,
  dep.«internal/lossy.simpleHFilter16iAt»,
  dep.«internal/lossy.vFilter16iAt»,
  dep.«internal/lossy.vFilter8iAt»,
  dep.«internal/lossy.var:CoeffsProba0»,
  dep.«internal/lossy.var:CoeffsUpdateProba»,
  dep.«internal/lossy.var:KAcTable»,
  dep.«internal/lossy.var:KBModesProba»,
  dep.«internal/lossy.var:KBands»,
  dep.«internal/lossy.var:KCat3»,
  dep.«internal/lossy.var:KCat4»,
  dep.«internal/lossy.var:KCat5»,
  dep.«internal/lossy.var:KCat6»,
  dep.«internal/lossy.var:KDcTable»,
  dep.«internal/lossy.var:KYModesIntra4»,
  dep.«internal/lossy.var:KZigzag»,
  dep.«internal/lossy.var:errPrematureEOF»,
  dep.«internal/lossy.var:kCat3456»,
  dep.«internal/lossy.var:kScan»,
  dep.«internal/lossy.var:kVP8Log2Range»,
  dep.«internal/lossy.var:kVP8NewRange»,
  dep.«internal/lossy.var:lossyDecoderPool»
]
-- END deps extra_C16
def extra_C16 : List Entry := extra_C16_roots ++ extra_C16_deps

def expected_C16 : List Entry :=
  config ++ parser ++ demux ++ muxer ++ extra_C16

def stale_C16 : List String := stale expected_C16

/-- named in the anchors of C17 (properties.jsonl) and not in one of its groups -/
def extra_C17_roots : List Entry := [
  fp! "webp.decodeLossy" 0x7eeae068373756e5,
  fp! "internal/lossy.DecodeFrame" 0x0cbe1247c056a9e7,
  fp! "internal/lossy.Decoder.parseHeaders" 0x2d0b0a4e64fe87af,
  fp! "internal/lossy.Decoder.parsePartitions" 0xf81891a20822b56c,
  fp! "internal/lossy.Decoder.parseFrame" 0xc7a933f1bc45e6e0,
  fp! "internal/lossy.Decoder.decodeMB" 0x14cd709595f4f4c0,
  fp! "internal/lossy.Decoder.parseIntraModeRow" 0x907d3df5a7487c5a,
  fp! "internal/lossy.DecodeAlpha" 0x47a5f28f4696d62a,
  fp! "internal/bitio.BoolReader.EOF" 0x53aaa85314ac7b5c,
  fp! "internal/bitio.LosslessReader.IsEndOfStream" 0xbe3eb360ee02fc14,
  fp! "internal/lossless.DecodeVP8L" 0xc0cdc94041ff097c,
  fp! "internal/lossless.Decoder.decodeImageData" 0xface28a325742152,
  fp! "internal/lossless.Decoder.readHuffmanCode" 0x8f6b9bb571b5245d,
  fp! "internal/lossless.Decoder.readHuffmanCodes" 0x3635e6f7425b3c09
]
-- BEGIN deps extra_C17 (written by tools/update_fingerprints.py — do not edit by hand)
def extra_C17_deps : List Entry := [
  dep.«internal/bitio.const:vp8lLBits»,
  dep.«internal/lossless.BuildHuffmanTableScratch»,
  dep.«internal/lossless.ColorCache.HashPix»,
  dep.«internal/lossless.ColorCache.Insert»,
  dep.«internal/lossless.ColorCache.Lookup»,
  dep.«internal/lossless.Decoder.applyInverseTransforms»,
  dep.«internal/lossless.Decoder.decodeHeader»,
  dep.«internal/lossless.Decoder.decodeImageStream»,
  dep.«internal/lossless.Decoder.decodeSubImage»,
  dep.«internal/lossless.Decoder.getHTreeGroup»,
  dep.«internal/lossless.Decoder.getMetaIndex»,
  dep.«internal/lossless.Decoder.huffTableScratch»,
  dep.«internal/lossless.Decoder.readHuffmanCodeLengths»,
  dep.«internal/lossless.Decoder.readTransform»,
  dep.«internal/lossless.Decoder.updateDecoder»,
  dep.«internal/lossless.PlaneCodeToDistance»,
  dep.«internal/lossless.ReadSymbol»,
  dep.«internal/lossless.VP8LSubSampleSize»,
  dep.«internal/lossless.accumulateHCode»,
  dep.«internal/lossless.acquireDecoder»,
  dep.«internal/lossless.addGreenToBlueAndRed»,
  dep.«internal/lossless.addPixels»,
  dep.«internal/lossless.argbSliceToBytes»,
  dep.«internal/lossless.argbToNRGBA»,
  dep.«internal/lossless.argbToNRGBARows»,
  dep.«internal/lossless.average2»,
  dep.«internal/lossless.buildHuffmanTableSize»,
  dep.«internal/lossless.buildPackedTable»,
  dep.«internal/lossless.bytesToARGBSlice»,
  dep.«internal/lossless.clampedAddSubtractFull»,
  dep.«internal/lossless.clampedAddSubtractHalf»,
  dep.«internal/lossless.colorIndexInverseTransform»,
  dep.«internal/lossless.colorSpaceInverseTransform»,
  dep.«internal/lossless.colorSpaceInverseTransformParallel»,
  dep.«internal/lossless.const:CodeLengthCodes»,
  dep.«internal/lossless.const:CodeLengthLiterals»,
  dep.«internal/lossless.const:CodeLengthRepeatCode»,
  dep.«internal/lossless.const:CodeToPlaneCodesCount»,
  dep.«internal/lossless.const:ColorIndexingTransform»,
  dep.«internal/lossless.const:CrossColorTransform»,
  dep.«internal/lossless.const:DefaultCodeLength»,
  dep.«internal/lossless.const:HuffAlpha»,
  dep.«internal/lossless.const:HuffBlue»,
  dep.«internal/lossless.const:HuffDist»,
  dep.«internal/lossless.const:HuffGreen»,
  dep.«internal/lossless.const:HuffRed»,
  dep.«internal/lossless.const:HuffmanCodesPerMetaCode»,
  dep.«internal/lossless.const:HuffmanPackedBits»,
  dep.«internal/lossless.const:HuffmanPackedTableSize»,
  dep.«internal/lossless.const:HuffmanTableBits»,
  dep.«internal/lossless.const:HuffmanTableMask»,
  dep.«internal/lossless.const:LengthsTableBits»,
  dep.«internal/lossless.const:LengthsTableMask»,
  dep.«internal/lossless.const:MaxAllowedCodeLength»,
  dep.«internal/lossless.const:MaxCacheBits»,
  dep.«internal/lossless.const:MinHuffmanBits»,
  dep.«internal/lossless.const:MinTransformBits»,
  dep.«internal/lossless.const:NumDistanceCodes»,
  dep.«internal/lossless.const:NumHuffmanBits»,
  dep.«internal/lossless.const:NumLengthCodes»,
  dep.«internal/lossless.const:NumLiteralCodes»,
  dep.«internal/lossless.const:NumTransformBits»,
  dep.«internal/lossless.const:PredictorTransform»,
  dep.«internal/lossless.const:SubtractGreenTransform»,
  dep.«internal/lossless.const:VP8LHeaderSize»,
  dep.«internal/lossless.const:VP8LImageSizeBits»,
  dep.«internal/lossless.const:VP8LMagicByte»,
  dep.«internal/lossless.const:VP8LVersion»,
  dep.«internal/lossless.const:VP8LVersionBits»,
  dep.«internal/lossless.const:bitsSpecialMarker»,
  dep.«internal/lossless.const:kHashMul»,
  dep.«internal/lossless.const:minPixelsForParallel»,
  dep.«internal/lossless.const:numArgbCacheRows»,
  dep.«internal/lossless.copyBlock32»,
  dep.«internal/lossless.expandColorMap»,
  dep.«internal/lossless.getARGBIndex»,
  dep.«internal/lossless.getNextKey»,
  dep.«internal/lossless.inverseTransform»,
  dep.«internal/lossless.nextTableBitSize»,
  dep.«internal/lossless.predictorInverseTransform»,
  dep.«internal/lossless.readPackedSymbols»,
  dep.«internal/lossless.releaseDecoder»,
  dep.«internal/lossless.replicateValue»,
  dep.«internal/lossless.selectPredictor»,
  dep.«internal/lossless.var:CodeLengthCodeOrder»,
  dep.«internal/lossless.var:CodeLengthExtraBits»,
  dep.«internal/lossless.var:CodeLengthRepeatOffsets»,
  dep.«internal/lossless.var:CodeToPlane»,
  dep.«internal/lossless.var:ErrBadSignature»,
  dep.«internal/lossless.var:ErrBadVersion»,
  dep.«internal/lossless.var:ErrBitstream»,
  dep.«internal/lossless.var:ErrEmptyCodeLengths»,
  dep.«internal/lossless.var:ErrInvalidTree»,
  dep.«internal/lossless.var:KLiteralMap»,
  dep.«internal/lossless.var:kBaseAlphabetSize»,
  dep.«internal/lossless.var:losslessDecoderPool»,
  dep.«internal/lossy.Decoder.doFilter»,
  dep.«internal/lossy.Decoder.filterRowAt»,
  dep.«internal/lossy.Decoder.initFrame»,
  dep.«internal/lossy.Decoder.initScanline»,
  dep.«internal/lossy.Decoder.parseFilterHeader»,
  dep.«internal/lossy.Decoder.parseResiduals»,
  dep.«internal/lossy.Decoder.parseSegmentHeader»,
  dep.«internal/lossy.Decoder.precomputeFilterStrengths»,
  dep.«internal/lossy.Decoder.reconstructRow»,
  dep.«internal/lossy.ParseQuant»,
  dep.«internal/lossy.ReleaseDecoder»,
  dep.«internal/lossy.ResetProba»,
  dep.«internal/lossy.abs»,
  dep.«internal/lossy.acquireDecoder»,
  dep.«internal/lossy.alphaUnfilterGradient»,
  dep.«internal/lossy.alphaUnfilterHorizontal»,
  dep.«internal/lossy.alphaUnfilterHorizontalRow»,
  dep.«internal/lossy.alphaUnfilterVertical»,
  dep.«internal/lossy.alphaVP8LStream»,
  dep.«internal/lossy.b2i»,
  dep.«internal/lossy.brLoad»,
  dep.«internal/lossy.brSync»,
  dep.«internal/lossy.checkMode»,
  dep.«internal/lossy.clamp255»,
  dep.«internal/lossy.clip»,
  dep.«internal/lossy.const:AlphaFilterGradient»,
  dep.«internal/lossy.const:AlphaFilterHorizontal»,
  dep.«internal/lossy.const:AlphaFilterNone»,
  dep.«internal/lossy.const:AlphaFilterVertical»,
  dep.«internal/lossy.const:AlphaLosslessCompression»,
  dep.«internal/lossy.const:AlphaNoCompression»,
  dep.«internal/lossy.const:BDCPred»,
  dep.«internal/lossy.const:BDCPredNoLeft»,
  dep.«internal/lossy.const:BDCPredNoTop»,
  dep.«internal/lossy.const:BDCPredNoTopLeft»,
  dep.«internal/lossy.const:BHDPred»,
  dep.«internal/lossy.const:BHEPred»,
  dep.«internal/lossy.const:BHUPred»,
  dep.«internal/lossy.const:BLDPred»,
  dep.«internal/lossy.const:BPS»,
  dep.«internal/lossy.const:BRDPred»,
  dep.«internal/lossy.const:BTMPred»,
  dep.«internal/lossy.const:BVEPred»,
  dep.«internal/lossy.const:BVLPred»,
  dep.«internal/lossy.const:BVRPred»,
  dep.«internal/lossy.const:DCPred»,
  dep.«internal/lossy.const:HPred»,
  dep.«internal/lossy.const:MBFeatureTreeProbs»,
  dep.«internal/lossy.const:NumBModes»,
  dep.«internal/lossy.const:NumBands»,
  dep.«internal/lossy.const:NumCTX»,
  dep.«internal/lossy.const:NumMBSegments»,
  dep.«internal/lossy.const:NumModeLFDeltas»,
  dep.«internal/lossy.const:NumProbas»,
  dep.«internal/lossy.const:NumRefLFDeltas»,
  dep.«internal/lossy.const:NumTypes»,
  dep.«internal/lossy.const:TMPred»,
  dep.«internal/lossy.const:UOff»,
  dep.«internal/lossy.const:VOff»,
  dep.«internal/lossy.const:VPred»,
  dep.«internal/lossy.const:YOff»,
  dep.«internal/lossy.const:YUVSize»,
  dep.«internal/lossy.doSimpleFilter2»,
  dep.«internal/lossy.doSimpleFilter4»,
  dep.«internal/lossy.doSimpleFilter6»,
  dep.«internal/lossy.doTransform»,
  dep.«internal/lossy.doTransformDCBlock»,
  dep.«internal/lossy.doUVTransform»,
  dep.«internal/lossy.fastBit»,
  dep.«internal/lossy.fastSigned»,
  dep.«internal/lossy.fillBytes»,
  dep.«internal/lossy.filterLoop24HAt»,
  dep.«internal/lossy.filterLoop24VAt»,
  dep.«internal/lossy.filterLoop26At»,
  dep.«internal/lossy.filterLoop26HAt»,
  dep.«internal/lossy.filterLoop26VAt»,
  dep.«internal/lossy.getCoeffsInline»,
  dep.«internal/lossy.hFilter16iAt»,
  dep.«internal/lossy.hFilter8iAt»,
  dep.«internal/lossy.isHEV»,
  dep.«internal/lossy.needsFilter2At»,
  dep.«internal/lossy.nzCodeBits»,
  dep.«internal/lossy.parseProba»,
  dep.«internal/lossy.readOptionalSigned»,
  dep.«internal/lossy.sclip1»,
  dep.«internal/lossy.sclip2»,
  dep.«internal/lossy.simpleHFilter16At»,
  dep.«internal/lossy.simpleHFilter16iAt»,
  dep.«internal/lossy.vFilter16iAt»,
  dep.«internal/lossy.vFilter8iAt»,
  dep.«internal/lossy.var:CoeffsProba0»,
  dep.«internal/lossy.var:CoeffsUpdateProba»,
  dep.«internal/lossy.var:KAcTable»,
  dep.«internal/lossy.var:KBModesProba»,
  dep.«internal/lossy.var:KBands»,
  dep.«internal/lossy.var:KCat3»,
  dep.«internal/lossy.var:KCat4»,
  dep.«internal/lossy.var:KCat5»,
  dep.«internal/lossy.var:KCat6»,
  dep.«internal/lossy.var:KDcTable»,
  dep.«internal/lossy.var:KYModesIntra4»,
  dep.«internal/lossy.var:KZigzag»,
  dep.«internal/lossy.var:errPrematureEOF»,
  dep.«internal/lossy.var:kCat3456»,
  dep.«internal/lossy.var:kScan»,
  dep.«internal/lossy.var:kVP8Log2Range»,
  dep.«internal/lossy.var:kVP8NewRange»,
  dep.«internal/lossy.var:lossyDecoderPool»,
  dep.«webp.buildNRGBA»,
  dep.«webp.buildYCbCr»
]
-- END deps extra_C17
def extra_C17 : List Entry := extra_C17_roots ++ extra_C17_deps

def expected_C17 : List Entry :=
  config ++ parser ++ demux ++ muxer ++ extra_C17

def stale_C17 : List String := stale expected_C17

/-- named in the anchors of C18 (properties.jsonl) and not in one of its groups -/
def extra_C18_roots : List Entry := [
  fp! "webp.init" 0xff3433fac0c13526,
  fp! "webp.encodeLossy" 0x008407f1596aa1cc,
  fp! "webp.encodeLossyWithAlpha" 0x08226ead4703904f,
  fp! "webp.decodeLossy" 0x7eeae068373756e5,
  fp! "webp.buildNRGBA" 0xd8549ce286e88cbd,
  fp! "mux.Muxer.writeANMFChunk" 0xf123819aadca3c0d,
  fp! "mux.Muxer.hasAlpha" 0xd5d4b2f75b38fd5c,
  fp! "mux.Demuxer.parseANMF" 0x189cba55f7c02bf0
]
-- BEGIN deps extra_C18 (written by tools/update_fingerprints.py — do not edit by hand)
def extra_C18_deps : List Entry := [
  dep.«mux.ReadChunkHeader»,
  dep.«mux.chunkTotalSize»,
  dep.«mux.const:BlendAlpha»,
  dep.«mux.const:BlendNone»,
  dep.«mux.const:DisposeBackground»,
  dep.«mux.const:DisposeNone»,
  dep.«mux.const:maxFrames»,
  dep.«mux.detectBitstreamType»,
  dep.«mux.frameDataHasAlpha»,
  dep.«mux.frameDimensions»,
  dep.«mux.frameSubChunksSize»,
  dep.«mux.parseVP8Dimensions»,
  dep.«mux.parseVP8LDimensions»,
  dep.«mux.putLE24»,
  dep.«mux.splitAlphaAndBitstream»,
  dep.«mux.var:ErrChunkTooLarge»,
  dep.«mux.var:ErrInvalidANMF»,
  dep.«mux.var:ErrInvalidChunkHeader»,
  dep.«mux.var:ErrInvalidFrame»,
  dep.«mux.var:ErrTooManyFrames»,
  dep.«mux.var:FourCCALPH»,
  dep.«mux.var:FourCCANMF»,
  dep.«mux.var:FourCCVP8»,
  dep.«mux.var:FourCCVP8L»,
  dep.«mux.writeChunkHeader»,
  dep.«mux.writeDataChunk»,
  dep.«webp.Decode»,
  dep.«webp.DecodeConfig»,
  dep.«webp.DefaultOptions»,
  dep.«webp.Encode»,
  dep.«webp.buildYCbCr»,
  dep.«webp.cleanupTransparentAreaLossless»,
  dep.«webp.cleanupTransparentAreaLossyWith»,
  dep.«webp.const:MaxDimension»,
  dep.«webp.const:MaxInputSize»,
  dep.«webp.const:PresetDefault»,
  dep.«webp.const:PresetText»,
  dep.«webp.decodeBytes»,
  dep.«webp.decodeFrame»,
  dep.«webp.decodeFrameForAnimation»,
  dep.«webp.decodeLossless»,
  dep.«webp.encodeFrameForAnimation»,
  dep.«webp.encodeLossless»,
  dep.«webp.encodeLosslessToWriter»,
  dep.«webp.extractAlphaWith»,
  dep.«webp.flattenBlockNRGBA»,
  dep.«webp.imageHasAlpha»,
  dep.«webp.putLE24»,
  dep.«webp.readAll»,
  dep.«webp.resolveAlphaCompression»,
  dep.«webp.resolveAlphaFiltering»,
  dep.«webp.resolveAlphaQuality»,
  dep.«webp.resolveQMax»,
  dep.«webp.rgbaIsOpaque»,
  dep.«webp.rgbaToNRGBA»,
  dep.«webp.sharpYUVConvert»,
  dep.«webp.simpleEncodeForAnimation»,
  dep.«webp.smoothenBlockNRGBA»,
  dep.«webp.validNRGBA»,
  dep.«webp.validRGBA»,
  dep.«webp.validateConfig»,
  dep.«webp.var:ErrNoFrames»,
  dep.«webp.var:argbPool»,
  dep.«webp.writeRIFF»,
  dep.«webp.writeRIFFExtended»,
  dep.«webp.writeRIFFSimple»,
  dep.«webp.ycbcrToNRGBA»
]
-- END deps extra_C18
def extra_C18 : List Entry := extra_C18_roots ++ extra_C18_deps

def expected_C18 : List Entry :=
  animEnc ++ animDec ++ vp8lEntropyEnc ++ lTransformFwd ++ partition ++ alphaEnc ++ alphaDec ++ alphaGlue ++ extra_C18

def stale_C18 : List String := stale expected_C18

/-- named in the anchors of C19 (properties.jsonl) and not in one of its groups -/
def extra_C19_roots : List Entry := []
-- BEGIN deps extra_C19 (written by tools/update_fingerprints.py — do not edit by hand)
def extra_C19_deps : List Entry := []
-- END deps extra_C19
def extra_C19 : List Entry := extra_C19_roots ++ extra_C19_deps

def expected_C19 : List Entry :=
  importPix ++ extra_C19

def stale_C19 : List String := stale expected_C19

/-- named in the anchors of C20 (properties.jsonl) and not in one of its groups -/
def extra_C20_roots : List Entry := [
  fp! "internal/lossy.VP8Encoder.emitTokenPartitions" 0x0431ab2920e6fedc,
  fp! "internal/lossy.TokenBuffer.EmitTokensPartitioned" 0x615500966ad8cbfd,
  fp! "internal/lossy.VP8Encoder.EncodeFrame" 0xa0bfd91be2c1e645
]
-- BEGIN deps extra_C20 (written by tools/update_fingerprints.py — do not edit by hand)
def extra_C20_deps : List Entry := [
  dep.«internal/lossy.DequantCoeffs»,
  dep.«internal/lossy.MBIterator.Export»,
  dep.«internal/lossy.MBIterator.FillPredContext»,
  dep.«internal/lossy.MBIterator.FillPredictionContext»,
  dep.«internal/lossy.MBIterator.GetTopModes»,
  dep.«internal/lossy.MBIterator.Import»,
  dep.«internal/lossy.MBIterator.IsDone»,
  dep.«internal/lossy.MBIterator.Next»,
  dep.«internal/lossy.MBIterator.SaveTopModes»,
  dep.«internal/lossy.MBIterator.resetLeftContext»,
  dep.«internal/lossy.PickBestI16Mode»,
  dep.«internal/lossy.PickBestI4Mode»,
  dep.«internal/lossy.PickBestUVMode»,
  dep.«internal/lossy.QuantizeCoeffs»,
  dep.«internal/lossy.RDScore»,
  dep.«internal/lossy.TokenBuffer.EmitTokens»,
  dep.«internal/lossy.TokenBuffer.MarkMBStart»,
  dep.«internal/lossy.TokenBuffer.RecordCoeffs»,
  dep.«internal/lossy.TokenBuffer.RecordToken»,
  dep.«internal/lossy.TokenBuffer.Reset»,
  dep.«internal/lossy.TokenBuffer.addPage»,
  dep.«internal/lossy.TokenBuffer.recordLevelVP8»,
  dep.«internal/lossy.TokenBuffer.tokenCount»,
  dep.«internal/lossy.TokenCostForCoeffs»,
  dep.«internal/lossy.TrellisQuantizeBlock»,
  dep.«internal/lossy.VP8Encoder.InitIterator»,
  dep.«internal/lossy.VP8Encoder.PickBestI16ModeRD»,
  dep.«internal/lossy.VP8Encoder.PickBestI4ModeRD»,
  dep.«internal/lossy.VP8Encoder.PickBestI4ModeRDTrellis»,
  dep.«internal/lossy.VP8Encoder.PickBestUVModeRD»,
  dep.«internal/lossy.VP8Encoder.adjustQuantForTarget»,
  dep.«internal/lossy.VP8Encoder.analysis»,
  dep.«internal/lossy.VP8Encoder.assembleFrame»,
  dep.«internal/lossy.VP8Encoder.buildSegmentHeader»,
  dep.«internal/lossy.VP8Encoder.collectAllStats»,
  dep.«internal/lossy.VP8Encoder.collectMBStats»,
  dep.«internal/lossy.VP8Encoder.computeStats»,
  dep.«internal/lossy.VP8Encoder.correctDCValues»,
  dep.«internal/lossy.VP8Encoder.emitFrame»,
  dep.«internal/lossy.VP8Encoder.emitPartition0»,
  dep.«internal/lossy.VP8Encoder.encodeFrame»,
  dep.«internal/lossy.VP8Encoder.encodeFrameParallel»,
  dep.«internal/lossy.VP8Encoder.encodeI16Residuals»,
  dep.«internal/lossy.VP8Encoder.encodeI4Residuals»,
  dep.«internal/lossy.VP8Encoder.encodeResiduals»,
  dep.«internal/lossy.VP8Encoder.encodeRow»,
  dep.«internal/lossy.VP8Encoder.encodeUVResiduals»,
  dep.«internal/lossy.VP8Encoder.initPassStats»,
  dep.«internal/lossy.VP8Encoder.pickBestMode»,
  dep.«internal/lossy.VP8Encoder.reconstructMB»,
  dep.«internal/lossy.VP8Encoder.recordAllTokens»,
  dep.«internal/lossy.VP8Encoder.recordMBTokens»,
  dep.«internal/lossy.VP8Encoder.refreshProbas»,
  dep.«internal/lossy.VP8Encoder.rerecordAllTokens»,
  dep.«internal/lossy.VP8Encoder.restoreSourcePixels»,
  dep.«internal/lossy.VP8Encoder.saveSourcePixels»,
  dep.«internal/lossy.VP8Encoder.setSegmentParams»,
  dep.«internal/lossy.VP8Encoder.setSegmentProbas»,
  dep.«internal/lossy.VP8Encoder.setupFilterStrength»,
  dep.«internal/lossy.VP8Encoder.simplifySegments»,
  dep.«internal/lossy.VP8Encoder.statLoop»,
  dep.«internal/lossy.VP8Encoder.storeDiffusionErrors»,
  dep.«internal/lossy.VP8Encoder.tryI4Modes»,
  dep.«internal/lossy.VP8Encoder.tryI4ModesRD»,
  dep.«internal/lossy.VP8Encoder.updateNZContext»,
  dep.«internal/lossy.VP8Encoder.writeCoeffProba»,
  dep.«internal/lossy.VP8Encoder.writeFilterHeader»,
  dep.«internal/lossy.VP8Encoder.writeMBModes»,
  dep.«internal/lossy.VP8Encoder.writeQuantParams»,
  dep.«internal/lossy.VP8Encoder.writeSegmentHeader»,
  dep.«internal/lossy.abs»,
  dep.«internal/lossy.assignSegments»,
  dep.«internal/lossy.boolToIntEnc»,
  dep.«internal/lossy.branchCost»,
  dep.«internal/lossy.checkMode»,
  dep.«internal/lossy.clampInt»,
  dep.«internal/lossy.collectCoeffStats»,
  dep.«internal/lossy.collectHistogramAlphaWith»,
  dep.«internal/lossy.collectLevelStats»,
  dep.«internal/lossy.computeAlphas»,
  dep.«internal/lossy.computeAlphasSerial»,
  dep.«internal/lossy.computeMBAlphaDCT»,
  dep.«internal/lossy.computeMBAlphaDCTWith»,
  dep.«internal/lossy.computeMBAlphaDCTWorker»,
  dep.«internal/lossy.computeMBUVAlphaDCT»,
  dep.«internal/lossy.computeMBUVAlphaDCTWith»,
  dep.«internal/lossy.computeMBUVAlphaDCTWorker»,
  dep.«internal/lossy.const:BDCPred»,
  dep.«internal/lossy.const:BDCPredNoLeft»,
  dep.«internal/lossy.const:BDCPredNoTop»,
  dep.«internal/lossy.const:BDCPredNoTopLeft»,
  dep.«internal/lossy.const:BHDPred»,
  dep.«internal/lossy.const:BHEPred»,
  dep.«internal/lossy.const:BHUPred»,
  dep.«internal/lossy.const:BLDPred»,
  dep.«internal/lossy.const:BPS»,
  dep.«internal/lossy.const:BRDPred»,
  dep.«internal/lossy.const:BTMPred»,
  dep.«internal/lossy.const:BVEPred»,
  dep.«internal/lossy.const:BVLPred»,
  dep.«internal/lossy.const:BVRPred»,
  dep.«internal/lossy.const:DCPred»,
  dep.«internal/lossy.const:HPred»,
  dep.«internal/lossy.const:MBFeatureTreeProbs»,
  dep.«internal/lossy.const:NumBModes»,
  dep.«internal/lossy.const:NumBands»,
  dep.«internal/lossy.const:NumCTX»,
  dep.«internal/lossy.const:NumMBSegments»,
  dep.«internal/lossy.const:NumModeLFDeltas»,
  dep.«internal/lossy.const:NumPredModes»,
  dep.«internal/lossy.const:NumProbas»,
  dep.«internal/lossy.const:NumRefLFDeltas»,
  dep.«internal/lossy.const:NumTypes»,
  dep.«internal/lossy.const:TMPred»,
  dep.«internal/lossy.const:UOff»,
  dep.«internal/lossy.const:VOff»,
  dep.«internal/lossy.const:VPred»,
  dep.«internal/lossy.const:YOff»,
  dep.«internal/lossy.const:YUVSize»,
  dep.«internal/lossy.const:alphaScale»,
  dep.«internal/lossy.const:derrC1»,
  dep.«internal/lossy.const:derrC2»,
  dep.«internal/lossy.const:derrDScale»,
  dep.«internal/lossy.const:derrDShift»,
  dep.«internal/lossy.const:flatnessLimitI16»,
  dep.«internal/lossy.const:flatnessLimitI4»,
  dep.«internal/lossy.const:flatnessLimitUV»,
  dep.«internal/lossy.const:flatnessPenalty»,
  dep.«internal/lossy.const:fstrengthCutoff»,
  dep.«internal/lossy.const:maxAlpha»,
  dep.«internal/lossy.const:maxCoeffThresh»,
  dep.«internal/lossy.const:maxIntra16Mode»,
  dep.«internal/lossy.const:maxItersKMeans»,
  dep.«internal/lossy.const:maxPartition0Size»,
  dep.«internal/lossy.const:maxPartitionSize»,
  dep.«internal/lossy.const:minRefreshCount»,
  dep.«internal/lossy.const:rdDistoMult»,
  dep.«internal/lossy.const:tokenPageSize»,
  dep.«internal/lossy.dequantCoeffsGo»,
  dep.«internal/lossy.dequantCoeffsSSE2»,
  dep.«internal/lossy.encodeI16ResidualsParallel»,
  dep.«internal/lossy.encodeI4ResidualsParallel»,
  dep.«internal/lossy.encodeResidualsParallel»,
  dep.«internal/lossy.encodeUVResidualsParallel»,
  dep.«internal/lossy.exportParallel»,
  dep.«internal/lossy.fastVariableLevelCost»,
  dep.«internal/lossy.fillPredContextParallel»,
  dep.«internal/lossy.filterStrengthFromDelta»,
  dep.«internal/lossy.generateI16Prediction»,
  dep.«internal/lossy.getBoolWriter»,
  dep.«internal/lossy.getMaxI4RDModes»,
  dep.«internal/lossy.getPSNR»,
  dep.«internal/lossy.getParallelState»,
  dep.«internal/lossy.i4SubtreeContains»,
  dep.«internal/lossy.importBlock»,
  dep.«internal/lossy.importBlockParallel»,
  dep.«internal/lossy.initRowWorker»,
  dep.«internal/lossy.initSegmentQuant»,
  dep.«internal/lossy.isFlat»,
  dep.«internal/lossy.isFlatSource16»,
  dep.«internal/lossy.maxInt»,
  dep.«internal/lossy.needsLeft4»,
  dep.«internal/lossy.needsTop4»,
  dep.«internal/lossy.newRowSync»,
  dep.«internal/lossy.nzCountACSSE2»,
  dep.«internal/lossy.optimizeProba»,
  dep.«internal/lossy.passStats.computeNextQ»,
  dep.«internal/lossy.pickBestI16ModeRDParallel»,
  dep.«internal/lossy.pickBestI4ModeRDParallel»,
  dep.«internal/lossy.pickBestI4ModeRDTrellisParallel»,
  dep.«internal/lossy.pickBestModeParallel»,
  dep.«internal/lossy.pickBestUVModeRDParallel»,
  dep.«internal/lossy.putBoolWriter»,
  dep.«internal/lossy.putParallelState»,
  dep.«internal/lossy.qualityToCompression»,
  dep.«internal/lossy.quantizeACAVX2»,
  dep.«internal/lossy.quantizeACSSE2»,
  dep.«internal/lossy.quantizeCoeffsGo»,
  dep.«internal/lossy.quantizeSingle»,
  dep.«internal/lossy.reconstructMBParallel»,
  dep.«internal/lossy.rowSync.signal»,
  dep.«internal/lossy.rowSync.waitFor»,
  dep.«internal/lossy.setupSegment»,
  dep.«internal/lossy.smoothSegmentMap»,
  dep.«internal/lossy.tryI4ModesParallel»,
  dep.«internal/lossy.tryI4ModesRDParallel»,
  dep.«internal/lossy.updateNZContextParallel»,
  dep.«internal/lossy.var:CoeffsProba0»,
  dep.«internal/lossy.var:CoeffsUpdateProba»,
  dep.«internal/lossy.var:ErrPartition0Overflow»,
  dep.«internal/lossy.var:ErrPartitionOverflow»,
  dep.«internal/lossy.var:KAcTable»,
  dep.«internal/lossy.var:KAcTable2»,
  dep.«internal/lossy.var:KBModesProba»,
  dep.«internal/lossy.var:KBands»,
  dep.«internal/lossy.var:KCat3»,
  dep.«internal/lossy.var:KCat4»,
  dep.«internal/lossy.var:KCat5»,
  dep.«internal/lossy.var:KCat6»,
  dep.«internal/lossy.var:KDcTable»,
  dep.«internal/lossy.var:KYModesIntra4»,
  dep.«internal/lossy.var:KZigzag»,
  dep.«internal/lossy.var:VP8FixedCostsI4»,
  dep.«internal/lossy.var:boolWriterPool»,
  dep.«internal/lossy.var:kBiasMatrices»,
  dep.«internal/lossy.var:kFreqSharpening»,
  dep.«internal/lossy.var:kLevelsFromDelta»,
  dep.«internal/lossy.var:kReverseZigzag»,
  dep.«internal/lossy.var:kWeightTrellis»,
  dep.«internal/lossy.var:modeFixedCost16»,
  dep.«internal/lossy.var:modeFixedCostUV»,
  dep.«internal/lossy.var:parallelPool»,
  dep.«internal/lossy.var:vp8LevelCodes»,
  dep.«internal/lossy.variableLevelCost»,
  dep.«internal/lossy.writeI16Mode»,
  dep.«internal/lossy.writeI4ModeBits»,
  dep.«internal/lossy.writeSegmentID»,
  dep.«internal/lossy.writeUVMode»
]
-- END deps extra_C20
def extra_C20 : List Entry := extra_C20_roots ++ extra_C20_deps

def expected_C20 : List Entry :=
  opts ++ extra_C20

def stale_C20 : List String := stale expected_C20

end Webp.Impl.Transcribed
