import Generated.Fingerprints
/-
  Webp.Impl.Transcribed — which Go functions of /repo the hand-written models TRANSCRIBE (or, for
  the group `vp8DecodeGo`, which Go functions are the implementation side of a differential oracle
  whose reference is a spec model), each with the fingerprint its source text had when the model was
  last validated against it.  Core Lean only.  HAND-MAINTAINED.

  A fingerprint (see /verif/harness/cmd/extract/fingerprints.go) is the first 16 hex digits of
  SHA-256 over the function declaration with comments and layout removed and locals renamed
  v1, v2, … in declaration order; it is regenerated from /repo on every run into
  `Generated.Fingerprints` (`table` / `lookup` as strings, `fn.«key»` as numbers).  The theorems
  `model_current_Cxx` (Webp/Props/CxxCurrent.lean) state that no entry of `expected_Cxx` is stale.
  They say NOTHING about meaning: they record that the text a model was written from is still the
  text in /repo.  A harmless rewrite that goes beyond renaming locals or reformatting trips them
  too; the model then has to be re-validated and the expectation updated.

  An entry `fp! "pkg.Recv.Name" 0x<hash>` is the triple
  `("pkg.Recv.Name", Generated.Fingerprints.fn.«pkg.Recv.Name», 0x<hash>)`: key, fingerprint on this
  run (the generated constant of that name — an entry whose key is not in
  harness/cmd/extract/fingerprints_list.go does not elaborate), fingerprint at validation time.
  (Numbers, not strings: string equality is very slow in the kernel.  0 means "missing".)

  Layout: one list per model file ("group"), then per property `extra_Cxx` (functions named in the
  property's anchors in /verif/properties.jsonl that are not in one of its groups) and
  `expected_Cxx` = the groups of the models the property's theorem modules import or whose Go
  functions its anchors name, ++ `extra_Cxx`.

  Maintenance.  After an INTENDED change of a listed Go function: re-validate the model against the
  new text (read the diff, adapt the model, run the property's suites), then run
  /verif/tools/update_fingerprints.py, which rewrites the hashes below from the current
  Generated/Fingerprints.lean and prints what changed.  ./check never runs that tool.
  A newly transcribed function needs an entry here AND in harness/cmd/extract/fingerprints_list.go.
-/
namespace Webp.Impl.Transcribed

/-- key, fingerprint now, fingerprint when the model was validated -/
abbrev Entry := String × Nat × Nat

open Lean in
/-- `fp! "key" 0xHASH` = `("key", Generated.Fingerprints.fn.«key», 0xHASH)` -/
macro "fp!" k:str h:num : term =>
  `(($k, $(mkIdent (Name.str `Generated.Fingerprints.fn k.getString)), $h))

/-- keys of the entries whose current fingerprint differs from the recorded one -/
def stale (expected : List Entry) : List String :=
  (expected.filter (fun e => e.2.1 != e.2.2)).map (·.1)

/-! ## groups: one per model file -/

/-- Webp/Impl/AnimDec.lean (animation.AnimDecoder: playback) -/
def animDec : List Entry := [
  fp! "animation.NewAnimDecoder" 0xface9b38d3731f4b,
  fp! "animation.AnimDecoder.HasNext" 0xbe43a9a689206ae8,
  fp! "animation.AnimDecoder.isKeyFrame" 0xd2edb88c5b5ab08d,
  fp! "animation.AnimDecoder.NextFrame" 0xa50ac2585c3282a1,
  fp! "animation.AnimDecoder.Reset" 0xf7eee29af49ed6b3,
  fp! "animation.AnimDecoder.compositeFrame" 0xb53272c08c8b1261,
  fp! "animation.clearCanvas" 0x1bddb77d0df8b594,
  fp! "animation.frameWidth" 0xc4ab8a290d59a983,
  fp! "animation.frameHeight" 0x60aeef78220a4259,
  fp! "animation.applyDispose" 0xae715df68f01eb71,
  fp! "animation.fillRect" 0x35289ba0284d6fde,
  fp! "animation.alphaBlendNRGBA" 0x2dab353d7af36f6b,
  fp! "animation.Frame.Bounds" 0x2371a71e4d603889,
  fp! "animation.toNRGBA" 0x3a9203454c43ee91
]

/-- Webp/Impl/AnimEnc.lean (animation.AnimEncoder, the muxer as it sees it, frame codec glue) -/
def animEnc : List Entry := [
  fp! "animation.NewEncoder" 0x87445bda2a3edb65,
  fp! "animation.clampLoopCount" 0xda63291eb0d677a4,
  fp! "animation.sanitizeKeyframeOptions" 0x77eff691921a42b3,
  fp! "animation.AnimEncoder.AddFrame" 0x273b738d661fb4ef,
  fp! "animation.AnimEncoder.addOptimizedFrame" 0x7c929f628b7737f4,
  fp! "animation.AnimEncoder.encodeFrame" 0x0b51920d8216df86,
  fp! "animation.AnimEncoder.encodeKeyframe" 0x5f964d3b3b12a9bd,
  fp! "animation.AnimEncoder.encodeSubFrame" 0x72c2c4026f514f92,
  fp! "animation.AnimEncoder.increasePreviousDuration" 0xa5be56c86d2d45a8,
  fp! "animation.AnimEncoder.Close" 0xb95353744d73d5ad,
  fp! "animation.findChangedRect" 0x0d116b6af7726b62,
  fp! "animation.snapToEven" 0xd2d8736999cbf510,
  fp! "animation.extractSubImage" 0xac960fad5659f214,
  fp! "animation.cloneNRGBA" 0x360a8ec47b5bc2c6,
  fp! "animation.copyImageRect" 0x60807f8b7c5a3d13,
  fp! "animation.isCanvasIdentical" 0x80d87800545ec7ea,
  fp! "animation.isLosslessBlendingPossible" 0x411264892eea2eec,
  fp! "animation.isLossyBlendingPossible" 0x0a977c4abfe720a8,
  fp! "animation.qualityToMaxDiff" 0xcf40060cc4f5be81,
  fp! "animation.pixelsAreSimilar" 0x598b0c9a9c559ab3,
  fp! "animation.clearBlendedTranslucent" 0xd8f412c97ef1797c,
  fp! "animation.DecodeBytes" 0x81d573a1cbad1e0d,
  fp! "animation.Animation.DecodeFrames" 0x4b216a8b4a7737e1,
  fp! "webp.encodeFrameForAnimation" 0x02ee76939f088a51,
  fp! "webp.simpleEncodeForAnimation" 0xebb862eff8531dd0,
  fp! "webp.decodeFrameForAnimation" 0x5a3305f5ec7df470,
  fp! "mux.Muxer.AddFrame" 0xc94aac49361eb33a,
  fp! "mux.Muxer.SetFrameDisposeMode" 0xea99ac171ca7993d,
  fp! "mux.Muxer.SetFrameDuration" 0x852aef7dc0230135,
  fp! "mux.Muxer.FrameDuration" 0x1fc3dea3fb265410,
  fp! "mux.Muxer.NumFrames" 0x2a6c06d9445db642,
  fp! "mux.clampDuration" 0x5995aa90fb914945,
  fp! "mux.splitAlphaAndBitstream" 0x1007b96affd10327
]

/-- Webp/Impl/BoolCoder.lean, writer half (internal/bitio/writer_bool.go) -/
def boolWriter : List Entry := [
  fp! "internal/bitio.NewBoolWriter" 0x2f1f5e2dac597332,
  fp! "internal/bitio.BoolWriter.Reset" 0x5977808e724088b6,
  fp! "internal/bitio.BoolWriter.PutBit" 0xe5835ea59d32e8b9,
  fp! "internal/bitio.BoolWriter.PutBitUniform" 0x3539c79a5c3fe3de,
  fp! "internal/bitio.BoolWriter.PutBitBatchPacked" 0x8229f48db0db1b1c,
  fp! "internal/bitio.BoolWriter.PutBits" 0x2beeb9e4c3d9e52c,
  fp! "internal/bitio.BoolWriter.PutSignedBits" 0xcd0c989de32031be,
  fp! "internal/bitio.BoolWriter.flush" 0x4414c8c7954961f2,
  fp! "internal/bitio.BoolWriter.Finish" 0xf3c08fadfde4a0ab
]

/-- Webp/Impl/BoolCoder.lean, reader half (internal/bitio/reader_bool.go) -/
def boolReader : List Entry := [
  fp! "internal/bitio.NewBoolReader" 0x6ed19273fda561a9,
  fp! "internal/bitio.BoolReader.loadNewBytes" 0x10af2e4f1756fde4,
  fp! "internal/bitio.BoolReader.loadFinalBytes" 0x904d2f94cdfebb03,
  fp! "internal/bitio.BoolReader.GetBit" 0xc4e68d12354706da,
  fp! "internal/bitio.BoolReader.GetBitAlt" 0xa0f49bb2cc5d5ada,
  fp! "internal/bitio.BoolReader.GetSigned" 0x624debea8b8b9335,
  fp! "internal/bitio.BoolReader.GetValue" 0x78d059ec4149b964,
  fp! "internal/bitio.BoolReader.GetSignedValue" 0x498581157d2c94e5,
  fp! "internal/bitio.BoolReader.EOF" 0x53aaa85314ac7b5c
]

/-- Webp/Impl/CodecFront.lean (VP8 decoder front end, buffer arithmetic, row slicing of webp.go) -/
def codecFront : List Entry := [
  fp! "internal/lossy.DecodeFrame" 0x0cbe1247c056a9e7,
  fp! "internal/lossy.acquireDecoder" 0x150b38a57a16dc7e,
  fp! "internal/lossy.Decoder.parseHeaders" 0x2d0b0a4e64fe87af,
  fp! "internal/lossy.Decoder.parseSegmentHeader" 0x216c491ad5d42b6a,
  fp! "internal/lossy.Decoder.parseFilterHeader" 0xca9adfbba28d138f,
  fp! "internal/lossy.Decoder.parsePartitions" 0xf81891a20822b56c,
  fp! "internal/lossy.Decoder.initFrame" 0x690a8c48506f66ea,
  fp! "internal/lossy.ParseQuant" 0x69547494a70a55c5,
  fp! "internal/lossy.readOptionalSigned" 0xcaac2caa5c29b5c6,
  fp! "internal/lossy.parseProba" 0x0e591a027be741c7,
  fp! "internal/lossy.ResetProba" 0xd08825b0e929bd2b,
  fp! "webp.decodeLossy" 0x7eeae068373756e5,
  fp! "webp.buildYCbCr" 0x58eabdcf5af51de5,
  fp! "webp.buildNRGBA" 0xd8549ce286e88cbd,
  fp! "internal/dsp.UpsampleLinePairNRGBA" 0x64c0b8cef50f722c
]

/-- Webp/Impl/CodecFrontL.lean (VP8L decoder front end, allocation sizes, copy guards) -/
def codecFrontL : List Entry := [
  fp! "internal/lossless.DecodeVP8L" 0xc0cdc94041ff097c,
  fp! "internal/lossless.Decoder.decodeHeader" 0xf48ce041e0ec8c61,
  fp! "internal/lossless.Decoder.decodeImageStream" 0xa89562674f52d4c9,
  fp! "internal/lossless.Decoder.decodeSubImage" 0x8727b4c422d4cbc8,
  fp! "internal/lossless.Decoder.updateDecoder" 0x46a52b79ce2c17b8,
  fp! "internal/lossless.Decoder.readTransform" 0xa7604f17566de0d1,
  fp! "internal/lossless.expandColorMap" 0x575a8cf50e270740,
  fp! "internal/lossless.Decoder.readHuffmanCodes" 0x3635e6f7425b3c09,
  fp! "internal/lossless.Decoder.readHuffmanCode" 0x8f6b9bb571b5245d,
  fp! "internal/lossless.Decoder.readHuffmanCodeLengths" 0x03a76dff6b6d47d4,
  fp! "internal/lossless.Decoder.decodeImageData" 0xface28a325742152,
  fp! "internal/lossless.copyBlock32" 0xf03c489b21d96299,
  fp! "internal/lossless.getCopyDistance" 0x3615c5bee94a5e3d,
  fp! "internal/lossless.getCopyLength" 0x24d9ba89d4802363,
  fp! "internal/lossless.PlaneCodeToDistance" 0xe80d0822bde0c387,
  fp! "internal/lossless.VP8LSubSampleSize" 0x7be6781b6b955825,
  fp! "internal/lossless.Decoder.applyInverseTransforms" 0x3d47c423f2c66f0b,
  fp! "internal/lossless.argbSliceToBytes" 0x36df35b96ffe1f09,
  fp! "internal/lossless.bytesToARGBSlice" 0x8748b22b23a51d17,
  fp! "internal/lossless.argbToNRGBA" 0x83b414181bfe68b3,
  fp! "internal/lossless.argbToNRGBARows" 0xf8fd6c00764f6b0a,
  fp! "internal/bitio.LosslessReader.ReadBits" 0xbd7944ab83ba1053,
  fp! "internal/bitio.LosslessReader.IsEndOfStream" 0xbe3eb360ee02fc14
]

/-- Webp/Impl/Config.lean (header-query glue of webp.go) -/
def config : List Entry := [
  fp! "webp.GetFeatures" 0x3ef20086477bf4dd,
  fp! "webp.DecodeConfig" 0x1e80bfcb198757c8,
  fp! "webp.Decode" 0xbe238ad2ba062760,
  fp! "webp.decodeBytes" 0xf741524a9c987ae2,
  fp! "webp.decodeFrame" 0x4504283f57fb7308,
  fp! "webp.decodeLossless" 0xb111a1f0359d1a1b,
  fp! "webp.readAll" 0x5cacae5d8c177606,
  fp! "webp.init" 0xff3433fac0c13526
]

/-- Webp/Impl/Demux.lean (mux.NewDemuxer) -/
def demux : List Entry := [
  fp! "mux.ReadChunkHeader" 0xdc8bd880160b87ad,
  fp! "mux.ReadChunk" 0x68d92311e7e20f8e,
  fp! "mux.NewDemuxer" 0xd3b6ec9ff48e0cb1,
  fp! "mux.Demuxer.parse" 0x31bdb2d290464e5f,
  fp! "mux.Demuxer.parseSimpleVP8" 0x03e48e1a7e445a33,
  fp! "mux.Demuxer.parseSimpleVP8L" 0x47eaa26891360e5f,
  fp! "mux.Demuxer.parseExtended" 0x98370cb3cd4532ef,
  fp! "mux.Demuxer.parseANIM" 0x872f8ee713edbe88,
  fp! "mux.Demuxer.parseANMF" 0x189cba55f7c02bf0,
  fp! "mux.Demuxer.parseSingleExtendedFrame" 0x7571c52b6d8513ce,
  fp! "mux.parseVP8Dimensions" 0x268fdb7adff30e7b,
  fp! "mux.parseVP8LDimensions" 0x61f0c0845ea0b791,
  fp! "mux.frameDataHasAlpha" 0xcc46f13a018b857b,
  fp! "mux.frameDimensions" 0x38856e8b4f1fa706,
  fp! "mux.splitAlphaAndBitstream" 0x1007b96affd10327,
  fp! "mux.Demuxer.GetChunk" 0x02aa5b42e3c6e39c,
  fp! "mux.Demuxer.GetFeatures" 0x09b76449ab132c63,
  fp! "mux.Demuxer.NumFrames" 0x7d42e1587892098d,
  fp! "mux.Demuxer.Frame" 0x066de3b764574144,
  fp! "mux.Demuxer.LoopCount" 0xe9274ca29149cf17,
  fp! "mux.Demuxer.BackgroundColor" 0x6bbd28dd1c261792
]

/-- Webp/Impl/Import.lean (every place that reads pixels out of the caller's image) -/
def importPix : List Entry := [
  fp! "webp.validNRGBA" 0x0e2d86462118b20b,
  fp! "webp.validRGBA" 0x7abbe05cc21ac79f,
  fp! "webp.rgbaIsOpaque" 0x3ed934f2ea928e7c,
  fp! "webp.rgbaToNRGBA" 0x11f368d18243aaa2,
  fp! "webp.encodeLossless" 0x6c24a9390e67cfb9,
  fp! "webp.encodeLosslessToWriter" 0x8286e0b6f714af06,
  fp! "webp.imageHasAlpha" 0xeb9a644ac8463430,
  fp! "webp.extractAlphaWith" 0xc43ac4477c1543f8,
  fp! "webp.cleanupTransparentAreaLossy" 0x81a9e1b9dd4f1d8f,
  fp! "webp.cleanupTransparentAreaLossyWith" 0xcd1ba902115978a8,
  fp! "webp.smoothenBlockNRGBA" 0x01128043f846d8ed,
  fp! "webp.flattenBlockNRGBA" 0xe455778406f45ea6,
  fp! "webp.cleanupTransparentAreaLossless" 0xd627a929fac7ead8,
  fp! "webp.sharpYUVConvert" 0x890569e2b5163fdb,
  fp! "internal/lossy.imageHasAlpha" 0xe14937ed8e191b9a,
  fp! "internal/lossy.VP8Encoder.importImage" 0xdcbead9ae5c81b42,
  fp! "internal/lossy.VP8Encoder.importYCbCr" 0x2c90d78613403233,
  fp! "internal/lossy.getImportUVWorker" 0xa690f484de048da3,
  fp! "internal/dsp.RandomBits" 0x3ba30af3b22302b0,
  fp! "internal/dsp.RandomBits2" 0x6069485d3343bdb3
]

/-- Webp/Impl/Mux.lean (mux.Muxer as a state machine, Assemble) -/
def muxer : List Entry := [
  fp! "mux.NewMuxer" 0x9f13310eaba2db8d,
  fp! "mux.Muxer.SetICCProfile" 0x752fe4c0aeb73945,
  fp! "mux.Muxer.SetEXIF" 0x3b847c6a8f55c9bc,
  fp! "mux.Muxer.SetXMP" 0xaba8198155cf45d5,
  fp! "mux.Muxer.SetBackgroundColor" 0xfa764e2934455beb,
  fp! "mux.Muxer.SetLoopCount" 0xf5b506147117fcff,
  fp! "mux.Muxer.SetCanvasSize" 0x7f5e68691fc0b70b,
  fp! "mux.clampDuration" 0x5995aa90fb914945,
  fp! "mux.Muxer.AddFrame" 0xc94aac49361eb33a,
  fp! "mux.Muxer.SetFrameDisposeMode" 0xea99ac171ca7993d,
  fp! "mux.Muxer.SetFrameDuration" 0x852aef7dc0230135,
  fp! "mux.Muxer.FrameDuration" 0x1fc3dea3fb265410,
  fp! "mux.Muxer.FrameBlendMode" 0x1362300eb8bbd941,
  fp! "mux.Muxer.NumFrames" 0x2a6c06d9445db642,
  fp! "mux.Muxer.AddChunk" 0x1f2e59fd6f4305bc,
  fp! "mux.Muxer.isAnimated" 0x40f794617d816244,
  fp! "mux.Muxer.needsVP8X" 0x33e09b923f0d5577,
  fp! "mux.Muxer.hasDistinctCanvas" 0x4629156a5d39a06e,
  fp! "mux.Muxer.hasAlphaChunk" 0xecbfcd43a3afa5c6,
  fp! "mux.Muxer.Assemble" 0x205889e1f2db223c,
  fp! "mux.Muxer.validate" 0xe2839dbb341a026e,
  fp! "mux.Muxer.hasAlpha" 0xd5d4b2f75b38fd5c,
  fp! "mux.Muxer.assembleSimple" 0xdb809244c5194308,
  fp! "mux.Muxer.assembleExtended" 0xb697a6101778ff7c,
  fp! "mux.splitAlphaAndBitstream" 0x1007b96affd10327,
  fp! "mux.Muxer.writeANMFChunk" 0xf123819aadca3c0d,
  fp! "mux.Muxer.canvasSize" 0x8bd0cf6f9bfdae4b,
  fp! "mux.frameDimensions" 0x38856e8b4f1fa706,
  fp! "mux.detectBitstreamType" 0x30bcf9f9e1eb55d5,
  fp! "mux.frameSubChunksSize" 0xd6be2256e98a5d5b,
  fp! "mux.subChunkSize" 0x0973f4937abeb2ba,
  fp! "mux.chunkTotalSize" 0x0a45fa5968fe1de3,
  fp! "mux.writeDataChunk" 0x22df9bd4c1606da2,
  fp! "mux.putLE24" 0xa5105e69c50efca9,
  fp! "mux.writeChunkHeader" 0x4e4654c91c97dc4f
]

/-- Webp/Impl/Opts.lean (option handling of encode.go) -/
def opts : List Entry := [
  fp! "webp.DefaultOptions" 0x53d9fac968b32db8,
  fp! "webp.OptionsForPreset" 0x082ea38bd4fb5ca2,
  fp! "webp.validateConfig" 0xa6eaf5880aafb153,
  fp! "webp.resolveSNSStrength" 0xccc47825970bd500,
  fp! "webp.resolveFilterStrength" 0xdc0069e5d3a936a0,
  fp! "webp.resolveFilterType" 0xac74aaf65d2adcd0,
  fp! "webp.resolveSegments" 0xdbb85bbf36675ca9,
  fp! "webp.resolvePass" 0xec0c3faa6d05ecef,
  fp! "webp.resolveQMax" 0xdeb8bcc08bfa7566,
  fp! "webp.resolveAlphaCompression" 0x51fbf9804a5d9271,
  fp! "webp.resolveAlphaFiltering" 0x4f12e7e5864c74cd,
  fp! "webp.resolveAlphaQuality" 0xec83d6f3bf8a094e,
  fp! "webp.Encode" 0x8e4ded1f16dc5c62,
  fp! "webp.encodeLossyWithAlpha" 0x08226ead4703904f,
  fp! "webp.encodeLossy" 0x008407f1596aa1cc,
  fp! "webp.encodeLossless" 0x6c24a9390e67cfb9,
  fp! "webp.encodeLosslessToWriter" 0x8286e0b6f714af06,
  fp! "webp.imageHasAlpha" 0xeb9a644ac8463430,
  fp! "internal/lossy.DefaultConfig" 0x5a579fd3528df278,
  fp! "internal/lossy.NewEncoder" 0x242437fa11374545,
  fp! "internal/lossy.VP8Encoder.initEncoderParams" 0xa12e062c76e89079,
  fp! "internal/lossless.Encode" 0xc7e5c5025edd39bb,
  fp! "internal/lossless.EncodeToWriter" 0x5cc4843276807858,
  fp! "internal/lossless.DefaultEncoderConfig" 0xbc0fdbec252f99bf,
  fp! "animation.NewEncoder" 0x87445bda2a3edb65
]

/-- Webp/Impl/Parser.lean (container.NewParser) -/
def parser : List Entry := [
  fp! "internal/container.FourCC" 0x64b4671b43fd1c8c,
  fp! "internal/container.ReadLE16" 0x5fd0395e7048a4d2,
  fp! "internal/container.ReadLE32" 0x19f762b304399c71,
  fp! "internal/container.NewParser" 0x29a84977fccb746b,
  fp! "internal/container.Parser.parse" 0xbf20ea0cc00851ef,
  fp! "internal/container.Parser.parseSingleImage" 0xa414498f05508bb2,
  fp! "internal/container.Parser.parseVP8X" 0x3f10af3a5714ad57,
  fp! "internal/container.Parser.parseVP8XChunks" 0x9a25964109be743b,
  fp! "internal/container.Parser.parseExtSingleImage" 0xc520815921d9d0d6,
  fp! "internal/container.parseANMF" 0x5a4380b6a9e1f78c,
  fp! "internal/container.parseFrameSubChunks" 0xaa752e92b1a69f2a,
  fp! "internal/container.parseVP8Header" 0xf6c3e6531ba8cf28,
  fp! "internal/container.parseVP8LHeader" 0xb25f9677830bb2af,
  fp! "internal/container.readLE24" 0x7f1ec596bb0ea703,
  fp! "internal/container.copyBytes" 0x37f4be8a200ee277,
  fp! "internal/container.ParseRIFFHeader" 0x43925edc027086fc,
  fp! "internal/container.ReadChunkHeader" 0x22074fa78e232bc9,
  fp! "internal/container.PaddedSize" 0x8795090f2fd902f7
]

/-- Webp/Impl/Partition.lean + Webp/Impl/GomaxprocsSites.lean (WaitGroup fan-outs and their index ranges) -/
def partition : List Entry := [
  fp! "animation.Animation.DecodeFramesParallel" 0xc909414b1409d41b,
  fp! "internal/lossless.argbToNRGBA" 0x83b414181bfe68b3,
  fp! "internal/lossless.argbToNRGBARows" 0xf8fd6c00764f6b0a,
  fp! "internal/lossless.inverseTransform" 0xf8d7cd3656e7c5a1,
  fp! "internal/lossless.colorSpaceInverseTransformParallel" 0xc8613aa706e393bc,
  fp! "internal/lossless.colorSpaceInverseTransform" 0xa54855962ec555e3,
  fp! "internal/lossless.findBestMultipliers" 0xbfb0d6bef532050a,
  fp! "internal/lossless.findBestMultiplier" 0x136fd7681750614c,
  fp! "internal/lossless.multiplierCost" 0x816943bd0303281e,
  fp! "internal/lossless.histogramRemap" 0x864f3b324bdf4c37,
  fp! "internal/lossless.parallelComputeHistogramCost" 0x8dfdc93d537930ee,
  fp! "internal/lossless.ResidualImage" 0x61fc2ce633a8ff06,
  fp! "internal/lossless.ColorSpaceTransform" 0xafd9d90b258e6b34,
  fp! "internal/lossless.HashChain.Fill" 0x31868e57d6b7da4b,
  fp! "internal/lossless.HashChain.fillParallel" 0x7faa9efe4e666803,
  fp! "internal/lossless.HashChain.fillSerial" 0xdd3f8c0ca622e8a4,
  fp! "internal/lossy.VP8Encoder.importImage" 0xdcbead9ae5c81b42,
  fp! "internal/lossy.computeAlphas" 0x060c454d74a79b24,
  fp! "internal/lossy.computeAlphasSerial" 0xf39bf9017e8e2182,
  fp! "internal/lossy.VP8Encoder.encodeFrameParallel" 0xe9284025720335ec,
  fp! "internal/lossy.VP8Encoder.EncodeFrame" 0xa0bfd91be2c1e645
]

/-- Webp/Impl/Pool.lean + Webp/Impl/PoolFields.lean (object reuse: get / reset / work / put) -/
def pool : List Entry := [
  fp! "internal/lossless.Encode" 0xc7e5c5025edd39bb,
  fp! "internal/lossless.EncodeToWriter" 0x5cc4843276807858,
  fp! "internal/lossless.acquireEncoder" 0x731378e2e5d97c30,
  fp! "internal/lossless.releaseEncoder" 0x5d3cc46cbe294693,
  fp! "internal/lossless.DecodeVP8L" 0xc0cdc94041ff097c,
  fp! "internal/lossless.acquireDecoder" 0x73efacba07a27fb1,
  fp! "internal/lossless.releaseDecoder" 0x2a43743b8597d39e,
  fp! "internal/lossy.NewEncoder" 0x242437fa11374545,
  fp! "internal/lossy.NewEncoderFromYUV" 0xd84466fd678ed2de,
  fp! "internal/lossy.ReleaseEncoder" 0xa0324108bcd7d797,
  fp! "internal/lossy.VP8Encoder.resetForReuse" 0x8c9d2f78b6de5265,
  fp! "internal/lossy.VP8Encoder.allocateBuffers" 0xab291cd4210a78eb,
  fp! "internal/lossy.DecodeFrame" 0x0cbe1247c056a9e7,
  fp! "internal/lossy.acquireDecoder" 0x150b38a57a16dc7e,
  fp! "internal/lossy.ReleaseDecoder" 0x5e51ca865e7dae59,
  fp! "internal/lossy.Decoder.initFrame" 0x690a8c48506f66ea,
  fp! "internal/lossy.getParallelState" 0xf716f40f33a2e6cf,
  fp! "internal/lossy.putParallelState" 0x9bda47d7951dcb03,
  fp! "internal/lossy.newRowSync" 0xd025aa1d2e02ed81,
  fp! "internal/lossy.getBoolWriter" 0xa40ca9cffd8b79db,
  fp! "internal/lossy.putBoolWriter" 0xda087df5b1234e5b,
  fp! "internal/lossy.getImportUVWorker" 0xa690f484de048da3,
  fp! "internal/lossy.TokenBuffer.Reset" 0x338647bf305df811,
  fp! "internal/lossy.TokenBuffer.Init" 0x97bef2513558d2e3,
  fp! "webp.encodeLossless" 0x6c24a9390e67cfb9,
  fp! "webp.encodeLosslessToWriter" 0x8286e0b6f714af06,
  fp! "webp.decodeLossy" 0x7eeae068373756e5,
  fp! "webp.buildYCbCr" 0x58eabdcf5af51de5,
  fp! "internal/pool.bucketIndex" 0x46e07ac8366926da,
  fp! "internal/pool.Get" 0x08712f61db9cf5b3,
  fp! "internal/pool.Put" 0xe5c830665ac7c327,
  fp! "internal/bitio.BoolWriter.Reset" 0x5977808e724088b6
]

/-- Webp/Impl/RowPipe.lean + Webp/Impl/RowSync.lean (row-pipelined lossy encoder) -/
def rowPipe : List Entry := [
  fp! "internal/lossy.getParallelState" 0xf716f40f33a2e6cf,
  fp! "internal/lossy.putParallelState" 0x9bda47d7951dcb03,
  fp! "internal/lossy.newRowSync" 0xd025aa1d2e02ed81,
  fp! "internal/lossy.rowSync.waitFor" 0xa371ebe1e222cfce,
  fp! "internal/lossy.rowSync.signal" 0xd7c548f6ac951e4b,
  fp! "internal/lossy.initRowWorker" 0x815bf44952a33299,
  fp! "internal/lossy.VP8Encoder.encodeFrameParallel" 0xe9284025720335ec,
  fp! "internal/lossy.VP8Encoder.encodeRow" 0x785a17019aedc49a,
  fp! "internal/lossy.updateNZContextParallel" 0xdb7d41d3d19eccc6,
  fp! "internal/lossy.importBlockParallel" 0xc7616111b493f6c8,
  fp! "internal/lossy.fillPredContextParallel" 0x2d12a6b9c1a3976a,
  fp! "internal/lossy.pickBestModeParallel" 0xa8dcb31891d8bdc2,
  fp! "internal/lossy.exportParallel" 0x09da722b8bc3a505,
  fp! "internal/lossy.VP8Encoder.recordAllTokens" 0x9e7fc64d34eab2a0,
  fp! "internal/lossy.VP8Encoder.refreshProbas" 0xfab4488e65cba4a9
]

/-- Webp/Impl/VP8Kernels.lean (portable-Go DSP kernels and the quantiser) -/
def vp8Kernels : List Entry := [
  fp! "internal/dsp.Clip8b" 0x2149951e95093e83,
  fp! "internal/dsp.initClipTables" 0x788ac4af6caf3878,
  fp! "internal/dsp.mul1" 0x4efa0e79c96d0476,
  fp! "internal/dsp.mul2" 0x3ccf5716eb7729b1,
  fp! "internal/dsp.store" 0x65471a5764d12578,
  fp! "internal/dsp.transformOne" 0x865c0eca4b1fdf6c,
  fp! "internal/dsp.transformTwo" 0x81fb1ad72015c2a3,
  fp! "internal/dsp.transformDC" 0x237283ba7d39ad2e,
  fp! "internal/dsp.transformAC3" 0x3b85dbfac7c6d0b0,
  fp! "internal/dsp.transformUV" 0x91fc8c49c305a673,
  fp! "internal/dsp.transformDCUV" 0x283cbfc993d54cf7,
  fp! "internal/dsp.transformWHT" 0x364717cdd07c6033,
  fp! "internal/dsp.iTransform" 0x24afee0de2eaadd4,
  fp! "internal/dsp.iTransformOne" 0x6129a3b298a8d380,
  fp! "internal/dsp.fTransform" 0x5827adfade404d7b,
  fp! "internal/dsp.fTransform2" 0xbe1a9dcee59894d7,
  fp! "internal/dsp.fTransformWHT" 0x51990f7b8cb20757,
  fp! "internal/dsp.FTransformDirect" 0xd0bbbd5e3ed4f22b,
  fp! "internal/dsp.ITransformDirect" 0x21cda04f43bfc5d1,
  fp! "internal/dsp.needsFilter" 0xb232e377f927e8c8,
  fp! "internal/dsp.needsFilter2" 0xab54669107427b6e,
  fp! "internal/dsp.hev" 0xce8912b99f91c9bb,
  fp! "internal/dsp.doFilter2" 0x50276edf072ec0f2,
  fp! "internal/dsp.doFilter4" 0x003efc42094aaa21,
  fp! "internal/dsp.doFilter6" 0x3669a3f5e9c6dbb4,
  fp! "internal/dsp.simpleVFilter16Go" 0x2b1adfb4e1e089f9,
  fp! "internal/dsp.SimpleVFilter16" 0xe389d5e03228bdbc,
  fp! "internal/dsp.SimpleHFilter16" 0x5b97ad15c8a9706d,
  fp! "internal/dsp.filterLoop26" 0x7bd2dabd16941806,
  fp! "internal/dsp.filterLoop24" 0xe8b391ae33f75ee4,
  fp! "internal/dsp.avg3" 0xe5608bfda1e67715,
  fp! "internal/dsp.avg2" 0xaf10a2348114dbe0,
  fp! "internal/dsp.dc16" 0xc47849710a807d49,
  fp! "internal/dsp.tm16" 0x094a7601a2240172,
  fp! "internal/dsp.ve16" 0x6ac0cb7a72deabb6,
  fp! "internal/dsp.he16" 0xc097acc60b2dc055,
  fp! "internal/dsp.dc16NoTop" 0xefd9b73d9ba3fea7,
  fp! "internal/dsp.dc16NoLeft" 0x07e14eb07b9d6a4f,
  fp! "internal/dsp.dc16NoTopLeft" 0xce8c3fe59c56cb17,
  fp! "internal/dsp.dc8uv" 0x712ce9c72b182f61,
  fp! "internal/dsp.tm8uv" 0x9948e98674dbc3df,
  fp! "internal/dsp.ve8uv" 0xbee1191884022146,
  fp! "internal/dsp.he8uv" 0x1703537427f2cd41,
  fp! "internal/dsp.dc8uvNoTop" 0xa93ccb9d172f51e2,
  fp! "internal/dsp.dc8uvNoLeft" 0x7e537c9cc6adf5a1,
  fp! "internal/dsp.dc8uvNoTopLeft" 0xe1e95bd118325ef4,
  fp! "internal/dsp.dc4" 0x4ed2c997e867fff1,
  fp! "internal/dsp.tm4" 0x851e98d53c9232f8,
  fp! "internal/dsp.ve4" 0x865849e4d5c17bd5,
  fp! "internal/dsp.he4" 0xdb139959ca6b744d,
  fp! "internal/dsp.rd4" 0xbeabfa01f7722a97,
  fp! "internal/dsp.vr4" 0x10946fd14950043d,
  fp! "internal/dsp.ld4" 0xe588de0b7fc21991,
  fp! "internal/dsp.vl4" 0x155dbc72e1f219ef,
  fp! "internal/dsp.hd4" 0x0550b10e1848ee9f,
  fp! "internal/dsp.hu4" 0xa1a751a777816ff3,
  fp! "internal/dsp.PredLuma4Direct" 0xdd52a9768b1f82fd,
  fp! "internal/dsp.PredLuma16Direct" 0xdc6b7230aea1766f,
  fp! "internal/dsp.PredChroma8Direct" 0xadba2b5cddfb75ff,
  fp! "internal/dsp.initPredictors" 0x69800a57e922eb96,
  fp! "internal/dsp.multHi" 0x6a9d717a70bc843b,
  fp! "internal/dsp.initYUVTables" 0xbff96ccb66366ca0,
  fp! "internal/dsp.clip" 0xad032878a2d8d5f5,
  fp! "internal/dsp.YUVToR" 0x635996e7558f3f75,
  fp! "internal/dsp.YUVToG" 0x03fa375bcb49c523,
  fp! "internal/dsp.YUVToB" 0x45ef69afbb5169e4,
  fp! "internal/dsp.loadUV" 0xbaab60d134aec456,
  fp! "internal/dsp.UpsampleLinePair" 0x640449326daeee11,
  fp! "internal/dsp.upsampleLinePairNRGBAGo" 0x9aa0915e5ac814e4,
  fp! "internal/dsp.UpsampleLinePairNRGBA" 0x64c0b8cef50f722c,
  fp! "internal/dsp.SSE" 0x4e1195849a3d306f,
  fp! "internal/dsp.sse4x4" 0xb02f46cd7a724f6f,
  fp! "internal/dsp.sse16x16" 0xdbe928d33eb0548a,
  fp! "internal/dsp.SSE4x4Direct" 0xd48a5fe82d804a4b,
  fp! "internal/dsp.SSE16x16Direct" 0x30cc765c429ebfc5,
  fp! "internal/dsp.tTransform" 0x14873e5fa4134148,
  fp! "internal/dsp.tDisto4x4Go" 0x95c76ff88f253e73,
  fp! "internal/dsp.TDisto4x4" 0xecae6611e47e9417,
  fp! "internal/dsp.addGreenToBlueAndRedGo" 0x1bf73c4ae5f257d5,
  fp! "internal/dsp.subtractGreenGo" 0xb067e37112d3aa78,
  fp! "internal/dsp.AddGreenToBlueAndRed" 0xd524534fc735d3d4,
  fp! "internal/dsp.SubtractGreen" 0x997ff0db0994cb8c,
  fp! "internal/dsp.Init" 0x33f2eea4c9ebffa3,
  fp! "internal/lossy.nzCodeBits" 0xa0eb092d268c46ad,
  fp! "internal/lossy.doTransform" 0x6410bfb238cc1c67,
  fp! "internal/lossy.doTransformDCBlock" 0x177a0bd4e1111ae1,
  fp! "internal/lossy.doUVTransform" 0x6adc9120aa8de603,
  fp! "internal/lossy.quantizeCoeffsGo" 0x33c7d61f38ec3859,
  fp! "internal/lossy.dequantCoeffsGo" 0x8f5bed0319984d42,
  fp! "internal/lossy.QuantizeCoeffs" 0x9d5f204a89bc1ad4,
  fp! "internal/lossy.DequantCoeffs" 0x1561ef35b35a2eb8
]

/-- Webp/Impl/VP8LFastPaths.lean (literal fast paths of the VP8L pixel loop) -/
def vp8lFastPaths : List Entry := [
  fp! "internal/lossless.Decoder.readHuffmanCodes" 0x3635e6f7425b3c09,
  fp! "internal/lossless.buildPackedTable" 0xa1e27ca6a7bffe08,
  fp! "internal/lossless.accumulateHCode" 0xf44f68e817f52029,
  fp! "internal/lossless.readPackedSymbols" 0xcada2b847a2db7db,
  fp! "internal/lossless.Decoder.decodeImageData" 0xface28a325742152,
  fp! "internal/lossless.ReadSymbol" 0x69e32bfcf8c46287
]

/-- Webp/Impl/Writer.lean (RIFF writers of encode.go, lossless trailer, VP8 frame assembler) -/
def writer : List Entry := [
  fp! "webp.writeRIFF" 0xd83298f126f9e0d2,
  fp! "webp.writeRIFFSimple" 0x847d7dd7e0f78046,
  fp! "webp.writeRIFFExtended" 0x83c1a0beea12662f,
  fp! "webp.putLE24" 0x882766cad7dd57f2,
  fp! "webp.encodeLosslessToWriter" 0x8286e0b6f714af06,
  fp! "webp.Encode" 0x8e4ded1f16dc5c62,
  fp! "internal/lossless.EncodeToWriter" 0x5cc4843276807858,
  fp! "internal/lossless.Encode" 0xc7e5c5025edd39bb,
  fp! "internal/lossy.VP8Encoder.assembleFrame" 0xb0fac7bd9270457e,
  fp! "internal/lossy.VP8Encoder.emitFrame" 0x29a6d3bb1525df9f,
  fp! "internal/lossy.AssembleRIFF" 0xc94e9105c60d0f50,
  fp! "internal/container.PutLE16" 0x9321ff0e8ba7f277,
  fp! "internal/container.PutLE32" 0x02c4652ec0de62e6
]

/-- Go side of suites vp8 / c05 / c17 against Webp/Spec/VP8 (RFC 6386 decoder): the lossy decoder functions not transcribed elsewhere -/
def vp8DecodeGo : List Entry := [
  fp! "internal/lossy.Decoder.precomputeFilterStrengths" 0x29d12a0306b8f0b8,
  fp! "internal/lossy.Decoder.filterRowAt" 0xa49bddb16e72bb5b,
  fp! "internal/lossy.Decoder.doFilter" 0x03447b47c533beff,
  fp! "internal/lossy.fillBytes" 0x594b2a8e18fd6244,
  fp! "internal/lossy.simpleHFilter16At" 0x596cac6d0c0d91bd,
  fp! "internal/lossy.simpleHFilter16iAt" 0xfa2871718cfc819e,
  fp! "internal/lossy.filterLoop26VAt" 0x8641e5846e5fd956,
  fp! "internal/lossy.filterLoop26At" 0x7b8ca0156db01393,
  fp! "internal/lossy.filterLoop26HAt" 0xd97fd4e8a63bd7ba,
  fp! "internal/lossy.filterLoop24VAt" 0xef619ca4c2ef5f0f,
  fp! "internal/lossy.filterLoop24HAt" 0x354df9c0fac2b5a9,
  fp! "internal/lossy.vFilter16iAt" 0xd429393dc1187a5c,
  fp! "internal/lossy.hFilter16iAt" 0x6e021535365a9b9e,
  fp! "internal/lossy.vFilter8iAt" 0x9ea6de509720ae83,
  fp! "internal/lossy.hFilter8iAt" 0xfbd9d48eb2456fb6,
  fp! "internal/lossy.needsFilter2At" 0x08522ea7eeb7f81f,
  fp! "internal/lossy.isHEV" 0xa4727306f2449aab,
  fp! "internal/lossy.doSimpleFilter2" 0x01fa77a162aa75ee,
  fp! "internal/lossy.doSimpleFilter4" 0x5edfb78511bf3b06,
  fp! "internal/lossy.doSimpleFilter6" 0x960dee2a28f4e7ac,
  fp! "internal/lossy.abs" 0xdef51228dbb218b5,
  fp! "internal/lossy.sclip1" 0x67a706bf4f2f098e,
  fp! "internal/lossy.sclip2" 0x087f0052e012115d,
  fp! "internal/lossy.clamp255" 0x403f2acb84b0f5a7,
  fp! "internal/lossy.b2i" 0x00e39e6a050abcf5,
  fp! "internal/lossy.ReleaseDecoder" 0x5e51ca865e7dae59,
  fp! "webp.ycbcrToNRGBA" 0xcf2cd1bbf410183d,
  fp! "internal/dsp.PointSampleRow" 0x511ebabfc480f62d,
  fp! "internal/dsp.YUVToRGB" 0x8a31841169aa14ad,
  fp! "internal/dsp.VP8ClipUV" 0x1b20fa8b52a6a3dc
]

/-- Webp/Impl/Alpha.lean, decoder half (internal/lossy/alpha.go) -/
def alphaDec : List Entry := [
  fp! "internal/lossy.DecodeAlpha" 0x47a5f28f4696d62a,
  fp! "internal/lossy.alphaUnfilterHorizontal" 0x534f02f0837cd3d7,
  fp! "internal/lossy.alphaUnfilterVertical" 0x35794c7cffaa3e56,
  fp! "internal/lossy.alphaUnfilterHorizontalRow" 0xe75d8bf9a7b354d3,
  fp! "internal/lossy.alphaUnfilterGradient" 0xeb24c3ac6f7e7536
]

/-- Webp/Impl/Alpha.lean, encoder half (internal/lossy/alpha.go) -/
def alphaEnc : List Entry := [
  fp! "internal/lossy.EncodeAlpha" 0x57c16f24275a189c,
  fp! "internal/lossy.getFilterMap" 0x62c1a443510d9045,
  fp! "internal/lossy.getNumColors" 0x0d8e03f4b2308019,
  fp! "internal/lossy.estimateBestFilter" 0x56d0674f09ae9eda,
  fp! "internal/lossy.alphaFilterHorizontal" 0x53e220a872d612a3,
  fp! "internal/lossy.alphaFilterVertical" 0x0c7596bdc21a3cc4,
  fp! "internal/lossy.alphaFilterGradient" 0x97d37373a2f7e8ad,
  fp! "internal/lossy.encodeAlphaInternal" 0xa1ef326af6d48a1a,
  fp! "internal/lossy.alphaVP8LStream" 0xa584bcb425594381,
  fp! "internal/lossy.applyFiltersAndEncode" 0xdd668cd15793ded6,
  fp! "internal/lossy.quantizeLevels" 0x4ed54d0e021222a7
]

/-- Webp/Impl/Alpha.lean, glue section (encode.go / webp.go) -/
def alphaGlue : List Entry := [
  fp! "webp.imageHasAlpha" 0xeb9a644ac8463430,
  fp! "webp.extractAlpha" 0xb83ecd90b2f5f73b,
  fp! "webp.extractAlphaWith" 0xc43ac4477c1543f8,
  fp! "webp.encodeLossyWithAlpha" 0x08226ead4703904f,
  fp! "webp.decodeLossy" 0x7eeae068373756e5,
  fp! "webp.writeRIFF" 0xd83298f126f9e0d2
]

/-- Webp/Impl/LTransform.lean, forward transforms and LZ77 value codes of the encoder -/
def lTransformFwd : List Entry := [
  fp! "internal/lossless.SubtractGreen" 0xb1e25eaccf6437c4,
  fp! "internal/lossless.applyColorTransformPixel" 0x151aa0caa0e8742c,
  fp! "internal/lossless.applyColorTransformTile" 0x183b5611471383a8,
  fp! "internal/lossless.encColorTransformDelta" 0xcfb6326e973d4aa6,
  fp! "internal/lossless.packMultipliers" 0x1b2251c455d9fd02,
  fp! "internal/lossless.copyImageWithPrediction" 0x15470999fec8cb33,
  fp! "internal/lossless.predictPixel" 0x41ab5a5cbec14002,
  fp! "internal/lossless.subPixels" 0xe1ddccfe20ad7518,
  fp! "internal/lossless.avg2" 0x446cbbd3b8ab6066,
  fp! "internal/lossless.selectPred" 0x232d2c75beb5800d,
  fp! "internal/lossless.clampByte" 0x7fb89861620bbad2,
  fp! "internal/lossless.clampAddSubFull" 0xa50ee7c1bbc5c807,
  fp! "internal/lossless.clampAddSubHalf" 0x3556d71e189fa4ca,
  fp! "internal/lossless.ApplyPaletteTransform" 0xc7e27aa2d709c02e,
  fp! "internal/lossless.ResidualImage" 0x61fc2ce633a8ff06,
  fp! "internal/lossless.ColorSpaceTransform" 0xafd9d90b258e6b34,
  fp! "internal/lossless.ColorIndexBuild" 0x4d7993d5f16e6e83,
  fp! "internal/lossless.PrefixEncodeNoLUT" 0x689d81e057d3da19,
  fp! "internal/lossless.PrefixEncodeBitsNoLUT" 0x0af82b408d6ee608,
  fp! "internal/lossless.bitsLog2Floor" 0xbe26fa8e08be8a28,
  fp! "internal/lossless.DistanceToPlaneCode" 0x7cbd05cd440a141d,
  fp! "internal/lossless.Encoder.applyTransforms" 0x3176f71390052bd5,
  fp! "internal/lossless.Encoder.applyPaletteTransform" 0xa9496cb913a7244b,
  fp! "internal/dsp.SubtractGreen" 0x997ff0db0994cb8c,
  fp! "internal/dsp.subtractGreenGo" 0xb067e37112d3aa78,
  fp! "webp.cleanupTransparentAreaLossless" 0xd627a929fac7ead8
]

/-- Webp/Impl/LTransform.lean, inverse transforms and LZ77 value codes of the decoder -/
def lTransformInv : List Entry := [
  fp! "internal/lossless.addPixels" 0x704384510638a805,
  fp! "internal/lossless.average2" 0xcea11dfd93a59559,
  fp! "internal/lossless.selectPredictor" 0xb9dc39b68ce06a4a,
  fp! "internal/lossless.clampedAddSubtractFull" 0xd4a39602197f4994,
  fp! "internal/lossless.clampedAddSubtractHalf" 0xdd4ffad4c57cc9b3,
  fp! "internal/lossless.predictorInverseTransform" 0xc6ecaa9431b511d5,
  fp! "internal/lossless.colorSpaceInverseTransform" 0xa54855962ec555e3,
  fp! "internal/lossless.colorSpaceInverseTransformParallel" 0xc8613aa706e393bc,
  fp! "internal/lossless.colorIndexInverseTransform" 0x44fadfc26c8ffbdc,
  fp! "internal/lossless.getARGBIndex" 0x6f127e20cbc8b78e,
  fp! "internal/lossless.inverseTransform" 0xf8d7cd3656e7c5a1,
  fp! "internal/lossless.addGreenToBlueAndRed" 0x6361e5bd3a956f60,
  fp! "internal/lossless.Decoder.applyInverseTransforms" 0x3d47c423f2c66f0b,
  fp! "internal/lossless.expandColorMap" 0x575a8cf50e270740,
  fp! "internal/lossless.PlaneCodeToDistance" 0xe80d0822bde0c387,
  fp! "internal/lossless.getCopyDistance" 0x3615c5bee94a5e3d,
  fp! "internal/lossless.getCopyLength" 0x24d9ba89d4802363,
  fp! "internal/dsp.AddGreenToBlueAndRed" 0xd524534fc735d3d4,
  fp! "internal/dsp.addGreenToBlueAndRedGo" 0x1bf73c4ae5f257d5
]

/-- Webp/Impl/VP8LEntropy.lean, encoder half (canonical codes, code-length coding, token emission, bit writer) -/
def vp8lEntropyEnc : List Entry := [
  fp! "internal/lossless.reverseBits" 0x8525511f268e229f,
  fp! "internal/lossless.generateCanonicalCodes" 0x17df4405d68ae7b3,
  fp! "internal/lossless.codeRepeatedZeros" 0x55981a7cb94cccaf,
  fp! "internal/lossless.codeRepeatedValues" 0x1b557168320610a7,
  fp! "internal/lossless.BuildCodeLengthTokens" 0x02444363aec74b2c,
  fp! "internal/lossless.BuildCodeLengthTokensScratch" 0x2472fd9408a4e98d,
  fp! "internal/lossless.StoreHuffmanTreeOfHuffmanTreeToBitMask" 0x2995672801320f58,
  fp! "internal/lossless.StoreHuffmanTreeToBitMask" 0xbb2846bdac905493,
  fp! "internal/lossless.storeSimpleHuffmanCode" 0xe14fe120e08ebf0f,
  fp! "internal/lossless.storeFullHuffmanCode" 0x18f3a5f1ff94d018,
  fp! "internal/lossless.storeFullHuffmanCodeScratch" 0x6bdbcd9cc72267cf,
  fp! "internal/lossless.StoreHuffmanCode" 0xe1d834417f1015d4,
  fp! "internal/lossless.StoreHuffmanCodeScratch" 0x8c95dfd72b2f0573,
  fp! "internal/lossless.clearHuffmanTreeIfOnlyOneSymbol" 0x91ad8901948000f8,
  fp! "internal/lossless.writeHuffmanCode" 0xbb743e63d829bc40,
  fp! "internal/lossless.Encoder.storeImageData" 0x8adbe784f4c4761c,
  fp! "internal/lossless.Encoder.encodeStream" 0xe6d4c65aa60c28aa,
  fp! "internal/lossless.Encoder.encodeSubImage" 0xb5bfcbe0fb0b68ea,
  fp! "internal/lossless.Encoder.storeSubImageData" 0xd8b82d725935bec2,
  fp! "internal/lossless.Encoder.writeTransformData" 0xf746e59ed5fac3af,
  fp! "internal/lossless.Encoder.encodePalette" 0x597a4fae4d3fb7c9,
  fp! "internal/lossless.Encoder.encodeHistogramImage" 0xd095dc83d375c1ce,
  fp! "internal/lossless.optimizeSampling" 0xc3a0d8d905430fc8,
  fp! "internal/lossless.BackwardReferences2DLocality" 0xa250f28edc484b32,
  fp! "internal/lossless.BackwardRefsWithLocalCache" 0x950f58ccc2bd21f0,
  fp! "internal/lossless.NewColorCache" 0x147e74f0fc609cca,
  fp! "internal/lossless.ColorCache.HashPix" 0xe1c3568b621396fa,
  fp! "internal/lossless.ColorCache.Insert" 0xbae54310ed06fa49,
  fp! "internal/lossless.ColorCache.Lookup" 0xa60743a9aeb8d6cf,
  fp! "internal/lossless.ColorCache.Contains" 0x1237de9d633fe048,
  fp! "internal/lossless.AlphabetSize" 0xb4d30bfe3292a7cb,
  fp! "internal/bitio.NewLosslessWriter" 0xb4cbc0c1942ada82,
  fp! "internal/bitio.NewLosslessWriterWithBuf" 0x306da51c3123e183,
  fp! "internal/bitio.LosslessWriter.WriteBits" 0xaf5289fc01eb0364,
  fp! "internal/bitio.LosslessWriter.flushBits" 0xf856a70bc0730fa4,
  fp! "internal/bitio.LosslessWriter.grow" 0xdb0d66ca7abd32f2,
  fp! "internal/bitio.LosslessWriter.Finish" 0x3e383d6c1ecba8ec
]

/-- Webp/Impl/VP8LEntropy.lean, decoder half (table builder, bit reader, pixel loop) -/
def vp8lEntropyDec : List Entry := [
  fp! "internal/lossless.getNextKey" 0xba42335c27534752,
  fp! "internal/lossless.replicateValue" 0x28110c4d4970dfaf,
  fp! "internal/lossless.nextTableBitSize" 0xe6faae51b535735f,
  fp! "internal/lossless.buildHuffmanTableSize" 0x053b6fa796c93b64,
  fp! "internal/lossless.BuildHuffmanTable" 0xbe247a88ff40dc84,
  fp! "internal/lossless.BuildHuffmanTableScratch" 0xeae64f6489ea4c1f,
  fp! "internal/lossless.ReadSymbol" 0x69e32bfcf8c46287,
  fp! "internal/lossless.copyBlock32" 0xf03c489b21d96299,
  fp! "internal/lossless.Decoder.getMetaIndex" 0x2a2f9ed793bef621,
  fp! "internal/lossless.Decoder.getHTreeGroup" 0xd26ef5b07d2865d8,
  fp! "internal/lossless.readSymbolFromTree" 0x2cb9873b24d1eb2b,
  fp! "internal/lossless.Decoder.decodeImageData" 0xface28a325742152,
  fp! "internal/lossless.Decoder.updateDecoder" 0x46a52b79ce2c17b8,
  fp! "internal/lossless.Decoder.readHuffmanCodeLengths" 0x03a76dff6b6d47d4,
  fp! "internal/lossless.Decoder.readHuffmanCode" 0x8f6b9bb571b5245d,
  fp! "internal/lossless.NewColorCache" 0x147e74f0fc609cca,
  fp! "internal/lossless.ColorCache.HashPix" 0xe1c3568b621396fa,
  fp! "internal/lossless.ColorCache.Insert" 0xbae54310ed06fa49,
  fp! "internal/lossless.ColorCache.Lookup" 0xa60743a9aeb8d6cf,
  fp! "internal/lossless.AlphabetSize" 0xb4d30bfe3292a7cb,
  fp! "internal/lossless.PlaneCodeToDistance" 0xe80d0822bde0c387,
  fp! "internal/bitio.NewLosslessReader" 0x645c6a36c5e9b48d,
  fp! "internal/bitio.LosslessReader.FillBitWindow" 0x6f1e0b1bdbd7d2d2,
  fp! "internal/bitio.LosslessReader.doFillBitWindow" 0xb177c888520fbd84,
  fp! "internal/bitio.LosslessReader.shiftBytes" 0x4198adfccfb0ebb7,
  fp! "internal/bitio.LosslessReader.setEndOfStream" 0xa63a7c6dc946d591,
  fp! "internal/bitio.LosslessReader.ReadBits" 0xbd7944ab83ba1053,
  fp! "internal/bitio.LosslessReader.PrefetchBits" 0x8e78ebb0f6d45615,
  fp! "internal/bitio.LosslessReader.SetBitPos" 0x3657e1a88b776ba5,
  fp! "internal/bitio.LosslessReader.BitPos" 0x1409c1e10c7c3d5d,
  fp! "internal/bitio.LosslessReader.IsEndOfStream" 0xbe3eb360ee02fc14
]

/-- Webp/Impl/VP8Recon.lean, encoder side (quantisers, token recording, per-MB reconstruction, iterator, row-parallel copy) -/
def vp8ReconEnc : List Entry := [
  fp! "internal/lossy.setupSegment" 0xb33f9725a187baec,
  fp! "internal/lossy.initSegmentQuant" 0x02944d529a02706f,
  fp! "internal/lossy.clampInt" 0x36557d74c015ad18,
  fp! "internal/lossy.VP8Encoder.buildSegmentHeader" 0xa416ac6b28b06792,
  fp! "internal/lossy.VP8Encoder.setSegmentParams" 0x256b7156d9832eb3,
  fp! "internal/lossy.VP8Encoder.simplifySegments" 0xc1fa716ea22faa5e,
  fp! "internal/lossy.VP8Encoder.setSegmentProbas" 0x8e2039b8659fab35,
  fp! "internal/lossy.assignSegments" 0x492f4798563e412d,
  fp! "internal/lossy.TokenBuffer.RecordCoeffs" 0x45cf37761670cddb,
  fp! "internal/lossy.TokenBuffer.recordLevelVP8" 0xb7bbfbf9bc688f4c,
  fp! "internal/lossy.TokenBuffer.RecordToken" 0x94c0a157b39ae2a2,
  fp! "internal/lossy.VP8Encoder.recordMBTokens" 0xb124212ca74aa0de,
  fp! "internal/lossy.VP8Encoder.encodeFrame" 0xbf531c0793dbc470,
  fp! "internal/lossy.VP8Encoder.recordAllTokens" 0x9e7fc64d34eab2a0,
  fp! "internal/lossy.VP8Encoder.rerecordAllTokens" 0x9234a00e5d1f2f2b,
  fp! "internal/lossy.VP8Encoder.reconstructMB" 0xc2ce2c0e619be98b,
  fp! "internal/lossy.VP8Encoder.encodeI4Residuals" 0x034aec3d5fce8103,
  fp! "internal/lossy.VP8Encoder.tryI4ModesRD" 0xb8289657481d219f,
  fp! "internal/lossy.reconstructMBParallel" 0x1dacbf3468390da3,
  fp! "internal/lossy.encodeI4ResidualsParallel" 0xdbbd159569019a37,
  fp! "internal/lossy.tryI4ModesRDParallel" 0xf85bb373d9b887a0,
  fp! "internal/lossy.VP8Encoder.InitIterator" 0xd00bb1f62f338cfc,
  fp! "internal/lossy.MBIterator.resetLeftContext" 0x99a24de84d3e2afe,
  fp! "internal/lossy.MBIterator.FillPredContext" 0xed7d04c4ee6376f0,
  fp! "internal/lossy.MBIterator.Export" 0x14019dfc824910e6,
  fp! "internal/lossy.MBIterator.Import" 0xea1f4e187ace3afa,
  fp! "internal/lossy.importBlock" 0xdd29a1cde692befc,
  fp! "internal/lossy.VP8Encoder.encodeRow" 0x785a17019aedc49a,
  fp! "internal/lossy.fillPredContextParallel" 0x2d12a6b9c1a3976a,
  fp! "internal/lossy.exportParallel" 0x09da722b8bc3a505,
  fp! "internal/lossy.importBlockParallel" 0xc7616111b493f6c8,
  fp! "internal/lossy.DequantCoeffs" 0x1561ef35b35a2eb8,
  fp! "internal/lossy.dequantCoeffsGo" 0x8f5bed0319984d42,
  fp! "internal/lossy.checkMode" 0x283fb73655e49092,
  fp! "internal/dsp.iTransformOne" 0x6129a3b298a8d380,
  fp! "internal/dsp.mul1" 0x4efa0e79c96d0476,
  fp! "internal/dsp.mul2" 0x3ccf5716eb7729b1,
  fp! "internal/dsp.store" 0x65471a5764d12578,
  fp! "internal/dsp.ITransformDirect" 0x21cda04f43bfc5d1,
  fp! "internal/dsp.PredLuma16Direct" 0xdc6b7230aea1766f,
  fp! "internal/dsp.PredChroma8Direct" 0xadba2b5cddfb75ff,
  fp! "internal/dsp.PredLuma4Direct" 0xdd52a9768b1f82fd
]

/-- Webp/Impl/VP8Recon.lean, decoder side (quantiser parsing, residual tokens, modes, row reconstruction) -/
def vp8ReconDec : List Entry := [
  fp! "internal/lossy.ParseQuant" 0x69547494a70a55c5,
  fp! "internal/lossy.clip" 0x123880c144584ac1,
  fp! "internal/lossy.getCoeffsInline" 0x4b5693d9ffcc7d97,
  fp! "internal/lossy.fastBit" 0xeec6feac2babb492,
  fp! "internal/lossy.fastSigned" 0x5def6b59201c8d4d,
  fp! "internal/lossy.brLoad" 0x56b6dc395b4072ec,
  fp! "internal/lossy.brSync" 0xd406afe22fd37e42,
  fp! "internal/lossy.Decoder.parseResiduals" 0x486cef17dab7b497,
  fp! "internal/lossy.nzCodeBits" 0xa0eb092d268c46ad,
  fp! "internal/lossy.Decoder.decodeMB" 0x14cd709595f4f4c0,
  fp! "internal/lossy.Decoder.parseIntraModeRow" 0x907d3df5a7487c5a,
  fp! "internal/lossy.Decoder.reconstructRow" 0xcd18bbb2eb4b0d25,
  fp! "internal/lossy.doTransform" 0x6410bfb238cc1c67,
  fp! "internal/lossy.doUVTransform" 0x6adc9120aa8de603,
  fp! "internal/lossy.doTransformDCBlock" 0x177a0bd4e1111ae1,
  fp! "internal/lossy.checkMode" 0x283fb73655e49092,
  fp! "internal/lossy.Decoder.parseFrame" 0xc7a933f1bc45e6e0,
  fp! "internal/lossy.Decoder.initScanline" 0x872a7fca75c3ed27,
  fp! "internal/lossy.Decoder.parseHeaders" 0x2d0b0a4e64fe87af,
  fp! "internal/dsp.transformOne" 0x865c0eca4b1fdf6c,
  fp! "internal/dsp.transformAC3" 0x3b85dbfac7c6d0b0,
  fp! "internal/dsp.transformWHT" 0x364717cdd07c6033,
  fp! "internal/dsp.transformDC" 0x237283ba7d39ad2e,
  fp! "internal/dsp.transformDCUV" 0x283cbfc993d54cf7,
  fp! "internal/dsp.transformUV" 0x91fc8c49c305a673,
  fp! "internal/dsp.transformTwo" 0x81fb1ad72015c2a3,
  fp! "internal/dsp.mul1" 0x4efa0e79c96d0476,
  fp! "internal/dsp.mul2" 0x3ccf5716eb7729b1,
  fp! "internal/dsp.store" 0x65471a5764d12578,
  fp! "internal/dsp.PredLuma4Direct" 0xdd52a9768b1f82fd
]

/-- Webp/Impl/VP8Recon.lean (syntax pass) and Webp/Impl/Writer.lean: what the lossy encoder writes -/
def vp8Syntax : List Entry := [
  fp! "internal/lossy.VP8Encoder.emitFrame" 0x29a6d3bb1525df9f,
  fp! "internal/lossy.VP8Encoder.emitPartition0" 0xf6cfee7f08cd08d8,
  fp! "internal/lossy.VP8Encoder.emitTokenPartitions" 0x0431ab2920e6fedc,
  fp! "internal/lossy.VP8Encoder.assembleFrame" 0xb0fac7bd9270457e,
  fp! "internal/lossy.VP8Encoder.writeSegmentHeader" 0x9dfe319dafa87b7a,
  fp! "internal/lossy.VP8Encoder.writeFilterHeader" 0x41dff051abbc20ed,
  fp! "internal/lossy.VP8Encoder.writeQuantParams" 0xf5b9f864b6dc9f29,
  fp! "internal/lossy.VP8Encoder.writeCoeffProba" 0x18f5209870aa9d91,
  fp! "internal/lossy.VP8Encoder.writeMBModes" 0x2eda066cff52b8af,
  fp! "internal/lossy.writeSegmentID" 0xd048bfaf4181b193,
  fp! "internal/lossy.writeI16Mode" 0x308305ac2015ec98,
  fp! "internal/lossy.writeI4ModeBits" 0x9b0992e68d816d7f,
  fp! "internal/lossy.i4SubtreeContains" 0x404ad63d7c3d378b,
  fp! "internal/lossy.writeUVMode" 0x84ee91ef4dc0b073,
  fp! "internal/lossy.TokenBuffer.EmitTokens" 0xc4c419e2830f93db,
  fp! "internal/lossy.TokenBuffer.EmitTokensPartitioned" 0x615500966ad8cbfd
]

/-! ## properties -/

/-- named in the anchors of C01 (properties.jsonl) and not in one of its groups -/
def extra_C01 : List Entry := [
  fp! "webp.encodeLossless" 0x6c24a9390e67cfb9,
  fp! "webp.encodeLosslessToWriter" 0x8286e0b6f714af06,
  fp! "webp.decodeLossless" 0xb111a1f0359d1a1b,
  fp! "webp.decodeFrame" 0x4504283f57fb7308,
  fp! "internal/lossless.Encode" 0xc7e5c5025edd39bb,
  fp! "internal/lossless.EncodeToWriter" 0x5cc4843276807858,
  fp! "internal/lossless.argbHasAlpha" 0xab7003d387ee9714,
  fp! "asm:internal/dsp/lossless_amd64.s" 0xfca87935e80d42e5,
  fp! "asm:internal/dsp/lossless_avx2_amd64.s" 0x17932ab2009d5402
]

def expected_C01 : List Entry :=
  lTransformFwd ++ lTransformInv ++ vp8lEntropyEnc ++ vp8lEntropyDec ++ vp8lFastPaths ++ codecFrontL ++ extra_C01

def stale_C01 : List String := stale expected_C01

/-- named in the anchors of C02 (properties.jsonl) and not in one of its groups -/
def extra_C02 : List Entry := [
  fp! "webp.encodeLossyWithAlpha" 0x08226ead4703904f,
  fp! "webp.encodeLossy" 0x008407f1596aa1cc,
  fp! "webp.encodeLossless" 0x6c24a9390e67cfb9,
  fp! "internal/container.FourCC" 0x64b4671b43fd1c8c,
  fp! "internal/lossless.argbHasAlpha" 0xab7003d387ee9714
]

def expected_C02 : List Entry :=
  writer ++ boolWriter ++ vp8Syntax ++ vp8lEntropyEnc ++ alphaEnc ++ extra_C02

def stale_C02 : List String := stale expected_C02

/-- named in the anchors of C03 (properties.jsonl) and not in one of its groups -/
def extra_C03 : List Entry := [
  fp! "webp.decodeLossless" 0xb111a1f0359d1a1b,
  fp! "webp.decodeFrame" 0x4504283f57fb7308,
  fp! "asm:internal/dsp/lossless_amd64.s" 0xfca87935e80d42e5,
  fp! "asm:internal/dsp/lossless_avx2_amd64.s" 0x17932ab2009d5402
]

def expected_C03 : List Entry :=
  lTransformInv ++ vp8lEntropyDec ++ vp8lFastPaths ++ codecFrontL ++ extra_C03

def stale_C03 : List String := stale expected_C03

/-- named in the anchors of C04 (properties.jsonl) and not in one of its groups -/
def extra_C04 : List Entry := [
  fp! "webp.decodeFrame" 0x4504283f57fb7308,
  fp! "asm:internal/dsp/filter_amd64.s" 0x36127713c2b7fe6d,
  fp! "asm:internal/dsp/filter_avx2_amd64.s" 0x61255f5bdc52d65b,
  fp! "asm:internal/dsp/predict_amd64.s" 0xa38d4ad173f295d0,
  fp! "asm:internal/dsp/transforms_amd64.s" 0x2b5df04c02662792,
  fp! "asm:internal/dsp/transforms_avx2_amd64.s" 0x8d92fa93ebb73e80,
  fp! "asm:internal/dsp/upsample_amd64.s" 0x47d16d763c479650,
  fp! "asm:internal/dsp/upsample_avx2_amd64.s" 0x71f044c4b6b69406
]

def expected_C04 : List Entry :=
  vp8Kernels ++ codecFront ++ vp8ReconDec ++ vp8DecodeGo ++ boolReader ++ alphaDec ++ extra_C04

def stale_C04 : List String := stale expected_C04

/-- named in the anchors of C05 (properties.jsonl) and not in one of its groups -/
def extra_C05 : List Entry := [
  fp! "animation.Decode" 0xb6c2ed2987896743,
  fp! "animation.DecodeBytes" 0x81d573a1cbad1e0d,
  fp! "animation.Animation.DecodeFrames" 0x4b216a8b4a7737e1,
  fp! "animation.Animation.DecodeFramesParallel" 0xc909414b1409d41b
]

def expected_C05 : List Entry :=
  parser ++ demux ++ config ++ animDec ++ codecFront ++ codecFrontL ++ vp8ReconDec ++ vp8DecodeGo ++ boolReader ++ alphaDec ++ vp8lEntropyDec ++ vp8lFastPaths ++ lTransformInv ++ extra_C05

def stale_C05 : List String := stale expected_C05

/-- named in the anchors of C06 (properties.jsonl) and not in one of its groups -/
def extra_C06 : List Entry := []

def expected_C06 : List Entry :=
  vp8ReconEnc ++ vp8ReconDec ++ vp8Syntax ++ vp8Kernels ++ boolWriter ++ boolReader ++ extra_C06

def stale_C06 : List String := stale expected_C06

/-- named in the anchors of C07 (properties.jsonl) and not in one of its groups -/
def extra_C07 : List Entry := [
  fp! "webp.resolveAlphaCompression" 0x51fbf9804a5d9271,
  fp! "webp.resolveAlphaFiltering" 0x4f12e7e5864c74cd,
  fp! "webp.resolveAlphaQuality" 0xec83d6f3bf8a094e,
  fp! "webp.Encode" 0x8e4ded1f16dc5c62,
  fp! "webp.encodeLossy" 0x008407f1596aa1cc,
  fp! "webp.buildNRGBA" 0xd8549ce286e88cbd
]

def expected_C07 : List Entry :=
  alphaDec ++ alphaEnc ++ alphaGlue ++ config ++ parser ++ extra_C07

def stale_C07 : List String := stale expected_C07

/-- named in the anchors of C08 (properties.jsonl) and not in one of its groups -/
def extra_C08 : List Entry := []

def expected_C08 : List Entry :=
  animEnc ++ animDec ++ extra_C08

def stale_C08 : List String := stale expected_C08

/-- named in the anchors of C09 (properties.jsonl) and not in one of its groups -/
def extra_C09 : List Entry := []

def expected_C09 : List Entry :=
  animDec ++ extra_C09

def stale_C09 : List String := stale expected_C09

/-- named in the anchors of C10 (properties.jsonl) and not in one of its groups -/
def extra_C10 : List Entry := []

def expected_C10 : List Entry :=
  rowPipe ++ partition ++ pool ++ extra_C10

def stale_C10 : List String := stale expected_C10

/-- named in the anchors of C11 (properties.jsonl) and not in one of its groups -/
def extra_C11 : List Entry := []

def expected_C11 : List Entry :=
  pool ++ extra_C11

def stale_C11 : List String := stale expected_C11

/-- named in the anchors of C12 (properties.jsonl) and not in one of its groups -/
def extra_C12 : List Entry := []

def expected_C12 : List Entry :=
  partition ++ rowPipe ++ extra_C12

def stale_C12 : List String := stale expected_C12

/-- named in the anchors of C13 (properties.jsonl) and not in one of its groups -/
def extra_C13 : List Entry := [
  fp! "internal/dsp.init" 0x1745b3604e07cb3f,
  fp! "internal/dsp.HasAVX2" 0xfb33f2f6d3357dbd,
  fp! "internal/dsp.InitRandom" 0x44af8b8668690db9,
  fp! "internal/dsp.RandomBits" 0x3ba30af3b22302b0,
  fp! "internal/dsp.RandomBits2" 0x6069485d3343bdb3,
  fp! "internal/dsp.TDisto16x16" 0xbc74386e0605c2e2,
  fp! "internal/dsp.tDisto16x16Go" 0x5593156b19e929ec,
  fp! "asm:internal/dsp/cpuid_amd64.s" 0x2fe79652af53cb33,
  fp! "asm:internal/dsp/filter_amd64.s" 0x36127713c2b7fe6d,
  fp! "asm:internal/dsp/filter_avx2_amd64.s" 0x61255f5bdc52d65b,
  fp! "asm:internal/dsp/lossless_amd64.s" 0xfca87935e80d42e5,
  fp! "asm:internal/dsp/lossless_avx2_amd64.s" 0x17932ab2009d5402,
  fp! "asm:internal/dsp/predict_amd64.s" 0xa38d4ad173f295d0,
  fp! "asm:internal/dsp/ssim_amd64.s" 0x8dec63197ce89cbb,
  fp! "asm:internal/dsp/ssim_avx2_amd64.s" 0xa71fa7672d83947c,
  fp! "asm:internal/dsp/transforms_amd64.s" 0x2b5df04c02662792,
  fp! "asm:internal/dsp/transforms_avx2_amd64.s" 0x8d92fa93ebb73e80,
  fp! "asm:internal/dsp/upsample_amd64.s" 0x47d16d763c479650,
  fp! "asm:internal/dsp/upsample_avx2_amd64.s" 0x71f044c4b6b69406,
  fp! "asm:internal/dsp/lossless_arm64.s" 0x992f1f559d17d178,
  fp! "asm:internal/dsp/predict_arm64.s" 0x7788907f560e52ef,
  fp! "asm:internal/dsp/ssim_arm64.s" 0x7ef2049766ddbedb,
  fp! "asm:internal/dsp/transforms_arm64.s" 0x860069992c62f3e7,
  fp! "asm:internal/lossy/encode_quant_amd64.s" 0x511faef626478e51,
  fp! "asm:internal/lossy/encode_quant_avx2_amd64.s" 0x99fd87f7f1939612,
  fp! "asmfiles:internal/dsp" 0x31a257cf7e19f9ad,
  fp! "asmfiles:internal/lossless" 0xe3b0c44298fc1c14,
  fp! "asmfiles:internal/lossy" 0x07b98268116a1ff5
]

def expected_C13 : List Entry :=
  vp8Kernels ++ extra_C13

def stale_C13 : List String := stale expected_C13

/-- named in the anchors of C14 (properties.jsonl) and not in one of its groups -/
def extra_C14 : List Entry := []

def expected_C14 : List Entry :=
  muxer ++ demux ++ parser ++ extra_C14

def stale_C14 : List String := stale expected_C14

/-- named in the anchors of C15 (properties.jsonl) and not in one of its groups -/
def extra_C15 : List Entry := [
  fp! "webp.encodeLossless" 0x6c24a9390e67cfb9,
  fp! "webp.encodeLossyWithAlpha" 0x08226ead4703904f,
  fp! "webp.encodeLossy" 0x008407f1596aa1cc,
  fp! "animation.DecodeBytes" 0x81d573a1cbad1e0d,
  fp! "animation.AnimEncoder.SetICCProfile" 0x818fab8effcb7ac1,
  fp! "animation.AnimEncoder.SetEXIF" 0x8cfe270f3e27d53f,
  fp! "animation.AnimEncoder.SetXMP" 0x900f356589d3bce9,
  fp! "animation.AnimEncoder.Close" 0xb95353744d73d5ad
]

def expected_C15 : List Entry :=
  muxer ++ demux ++ parser ++ writer ++ config ++ extra_C15

def stale_C15 : List String := stale expected_C15

/-- named in the anchors of C16 (properties.jsonl) and not in one of its groups -/
def extra_C16 : List Entry := [
  fp! "webp.decodeLossy" 0x7eeae068373756e5,
  fp! "animation.DecodeBytes" 0x81d573a1cbad1e0d,
  fp! "internal/lossless.argbHasAlpha" 0xab7003d387ee9714,
  fp! "internal/lossless.Decoder.decodeHeader" 0xf48ce041e0ec8c61,
  fp! "internal/lossy.DecodeFrame" 0x0cbe1247c056a9e7
]

def expected_C16 : List Entry :=
  config ++ parser ++ demux ++ extra_C16

def stale_C16 : List String := stale expected_C16

/-- named in the anchors of C17 (properties.jsonl) and not in one of its groups -/
def extra_C17 : List Entry := [
  fp! "webp.decodeLossy" 0x7eeae068373756e5,
  fp! "internal/lossy.DecodeFrame" 0x0cbe1247c056a9e7,
  fp! "internal/lossy.Decoder.parseHeaders" 0x2d0b0a4e64fe87af,
  fp! "internal/lossy.Decoder.parsePartitions" 0xf81891a20822b56c,
  fp! "internal/lossy.Decoder.parseFrame" 0xc7a933f1bc45e6e0,
  fp! "internal/lossy.Decoder.decodeMB" 0x14cd709595f4f4c0,
  fp! "internal/lossy.Decoder.parseIntraModeRow" 0x907d3df5a7487c5a,
  fp! "internal/lossy.DecodeAlpha" 0x47a5f28f4696d62a,
  fp! "internal/bitio.BoolReader.EOF" 0x53aaa85314ac7b5c,
  fp! "internal/bitio.LosslessReader.IsEndOfStream" 0xbe3eb360ee02fc14,
  fp! "internal/lossless.DecodeVP8L" 0xc0cdc94041ff097c,
  fp! "internal/lossless.Decoder.decodeImageData" 0xface28a325742152,
  fp! "internal/lossless.Decoder.readHuffmanCode" 0x8f6b9bb571b5245d,
  fp! "internal/lossless.Decoder.readHuffmanCodes" 0x3635e6f7425b3c09
]

def expected_C17 : List Entry :=
  config ++ parser ++ demux ++ extra_C17

def stale_C17 : List String := stale expected_C17

/-- named in the anchors of C18 (properties.jsonl) and not in one of its groups -/
def extra_C18 : List Entry := [
  fp! "webp.init" 0xff3433fac0c13526,
  fp! "webp.encodeLossy" 0x008407f1596aa1cc,
  fp! "webp.encodeLossyWithAlpha" 0x08226ead4703904f,
  fp! "webp.decodeLossy" 0x7eeae068373756e5,
  fp! "webp.buildNRGBA" 0xd8549ce286e88cbd,
  fp! "mux.Muxer.writeANMFChunk" 0xf123819aadca3c0d,
  fp! "mux.Muxer.hasAlpha" 0xd5d4b2f75b38fd5c,
  fp! "mux.Demuxer.parseANMF" 0x189cba55f7c02bf0
]

def expected_C18 : List Entry :=
  animEnc ++ animDec ++ extra_C18

def stale_C18 : List String := stale expected_C18

/-- named in the anchors of C19 (properties.jsonl) and not in one of its groups -/
def extra_C19 : List Entry := []

def expected_C19 : List Entry :=
  importPix ++ extra_C19

def stale_C19 : List String := stale expected_C19

/-- named in the anchors of C20 (properties.jsonl) and not in one of its groups -/
def extra_C20 : List Entry := [
  fp! "internal/lossy.VP8Encoder.emitTokenPartitions" 0x0431ab2920e6fedc,
  fp! "internal/lossy.TokenBuffer.EmitTokensPartitioned" 0x615500966ad8cbfd,
  fp! "internal/lossy.VP8Encoder.EncodeFrame" 0xa0bfd91be2c1e645
]

def expected_C20 : List Entry :=
  opts ++ extra_C20

def stale_C20 : List String := stale expected_C20

end Webp.Impl.Transcribed
