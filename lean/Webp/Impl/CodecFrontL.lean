import Webp.Impl.CodecFront
import Webp.Spec.VP8L.Prefix
/-
  Implementation model of the VP8L (lossless) decoder *front end*
  (/repo/internal/lossless/decode.go, decode_transform.go, decode_image.go): header, transform
  list, sub-image recursion, Huffman group-count logic, every allocation-size expression, the
  backward-reference guards of `decodeImageData` with `copyBlock32`, `expandColorMap`, and the
  row slicing of `argbToNRGBA`.                                              Core Lean only.

  Not modelled (arbitrary oracle `LSrc`, every theorem quantifies over all of them):
    * the bits the reader returns (`readBits`, reduced mod 2^n by the model, and `eos`);
    * `readHuffmanCode` — the code-length reader and the table builder: only "error or new
      reader state" is visible here (`readCode`); its tables live in the 64 K-entry slab or in
      builder-sized `make`s that are NOT part of the allocation log below;
    * the pixels `decodeImageData` produces (`imageData`: any values, or an error) — but the
      *index arithmetic* of its copy branch is modelled separately (`copyStep`, `copyBlock32`).

  Go                                   model
  ---------------------------------    ----------------------------------------------------
  DecodeVP8L                           `decodeVP8L`
  decodeHeader                         `decodeHeader`
  decodeImageStream(x, y, isLevel0)    `imageStreamWith sub x y isLevel0`
  readTransform                        `readTransformWith sub`
  expandColorMap                       `expandColorMap`
  decodeSubImage                       `subImageWith stream`, knot tied by fuel in `subImageF`
  readHuffmanCodes                     `readHuffmanCodesWith sub`  (`groupScan`, `remapLoop`, `groupLoop`)
  PlaneCodeToDistance                  `planeCodeToDistance`
  copy branch of decodeImageData       `copyStep`;  copyBlock32 → `copyBlock32`
  argbToNRGBA / argbToNRGBARows        `argbToNRGBA`
-/
namespace Webp.Impl.CodecFrontL
open Webp.Go
open Webp.Impl.CodecFront (Mem alloc sliceLen reslice rowSlice)

inductive Err where
  | signature     -- ErrBadSignature
  | version       -- ErrBadVersion
  | bitstream     -- ErrBitstream (incl. the recursion-depth guard and the overflow guards)
  | code          -- any error of readHuffmanCode (ErrBitstream / ErrInvalidTree / ErrEmptyCodeLengths)
  | pixels        -- any error of decodeImageData
  | tooLarge      -- "lossless: image too large"
  | exhaust       -- model only: one `make` above `memCap`
  deriving Repr, DecidableEq, Inhabited

def Err.toString : Err → String
  | .signature => "signature" | .version => "version" | .bitstream => "bitstream" | .code => "code"
  | .pixels => "pixels" | .tooLarge => "toolarge" | .exhaust => "exhaust"

abbrev R := Res Err

/-- `alloc` of the lossy file with this file's error type -/
@[inline] def allocL (memCap : Nat) (m : Mem) (bytes : Nat) : R Mem :=
  if bytes ≤ memCap then .ok (bytes :: m) else .err .exhaust

@[inline] def sliceLenL (len a b : Nat) : R Nat :=
  if a ≤ b ∧ b ≤ len then .ok (b - a) else .panic

/-- `VP8LSubSampleSize(size, bits)` -/
@[inline] def subSampleSize (size bits : Nat) : Nat := (size + (1 <<< bits) - 1) >>> bits

/-! ## oracle -/

/-- per-level Huffman metadata (`metadata` in decode.go), as far as sizes and indices go -/
structure Meta where
  colorCacheBits : Nat := 0
  colorCacheSize : Nat := 0
  huffBits : Nat := 0
  huffXSize : Nat := 0
  /-- `hdr.huffmanImage` after the `(px >> 8) & 0xffff` / remap rewrite -/
  huffImage : Array Nat := #[]
  numGroups : Nat := 0
  /-- `numHTreeGroupsMax`: how many groups (×5 codes) were read from the stream -/
  numGroupsMax : Nat := 0
  /-- ghost: for each stored group, its index in stream order (identity without remapping) -/
  groupSel : Array Nat := #[]
  deriving Repr, Inhabited

structure LSrc (σ : Type) where
  new : Bytes → σ
  /-- `ReadBits(n)`; the model reduces the answer mod `2^n` -/
  readBits : σ → Nat → Nat × σ
  /-- `IsEndOfStream()` -/
  eos : σ → Bool
  /-- `readHuffmanCode(alphabetSize)`: `none` = error -/
  readCode : σ → Nat → Option σ
  /-- `decodeImageData(data, xsize, ysize, ysize)` under metadata `m`: pixel `i` of the result, or
      `none` = error.  (`data` has `xsize*ysize` elements whatever the oracle says.) -/
  imageData : σ → Nat → Nat → Meta → Option ((Nat → UInt32) × σ)

variable {σ : Type}

@[inline] def rd (L : LSrc σ) (s : σ) (n : Nat) : Nat × σ :=
  let r := L.readBits s n
  (r.1 % 2 ^ n, r.2)

/-! ## decoder state -/

structure Transform where
  /-- 0 predictor, 1 cross-colour, 2 subtract-green, 3 colour-indexing -/
  type : Nat
  xsize : Nat
  ysize : Nat
  bits : Nat := 0
  /-- `len(t.Data)` -/
  dataLen : Nat := 0
  deriving Repr, DecidableEq, Inhabited

structure St (σ : Type) where
  br : σ
  mem : Mem := []
  /-- `dec.recursionDepth` -/
  depth : Nat := 0
  /-- ghost: largest value `recursionDepth` ever had -/
  maxDepth : Nat := 0
  /-- `dec.transformsSeen` (bit `t` set = a transform of type `t` was read) -/
  seen : Nat := 0
  /-- `dec.transforms[:dec.nextTransform]` -/
  transforms : List Transform := []
  /-- `cap(dec.colorCacheBuf)`, `cap(dec.htreeGroupsBuf)` (pooled, arbitrary at entry) -/
  capCache : Nat := 0
  capGroups : Nat := 0

/-- `unsafe.Sizeof(HTreeGroup{})`: 5 slice headers (120) + flags/literal (16) + 64 × 16-byte
    packed entries -/
def szHTreeGroup : Nat := 1160

/-- checked `a[i]` -/
@[inline] def getU (a : Array UInt32) (i : Nat) : R UInt32 :=
  if h : i < a.size then .ok a[i] else .panic

/-! ## expandColorMap -/

/-- `for i := lo; i < hi; i++ { touch the indices `ix i` of slices of lengths `len` }` -/
def forIdx : (n : Nat) → (i : Nat) → (chk : Nat → Bool) → R Unit
  | 0, _, _ => .ok ()
  | n + 1, i, chk => if chk i then forIdx n (i + 1) chk else .panic

/-- `expandColorMap(numColors, bits, palette)`; returns `len(newMap)` -/
def expandColorMap (memCap : Nat) (numColors bits paletteLen : Nat) (m : Mem) : R (Nat × Mem) := do
  let finalNumColors := 1 <<< (8 >>> bits)
  let m ← allocL memCap m (4 * finalNumColors)                 -- newMap
  -- newMap[0] = palette[0]
  if paletteLen > 0 ∧ ¬ (0 < finalNumColors) then .panic else do
  let m ← allocL memCap m (4 * paletteLen)                     -- oldBytes := argbSliceToBytes(palette)
  let oldLen := 4 * paletteLen
  forIdx paletteLen 0 (fun i => i * 4 + 3 < oldLen)            -- b[i*4+0..3] = …
  let m ← allocL memCap m (4 * finalNumColors)                 -- newBytes := argbSliceToBytes(newMap)
  let newLen := 4 * finalNumColors
  forIdx finalNumColors 0 (fun i => i * 4 + 3 < newLen)
  let numColors := if paletteLen < numColors then paletteLen else numColors
  -- for i := 4; i < 4*numColors; i++ { newBytes[i] = (oldBytes[i] + newBytes[i-4]) & 0xff }
  forIdx (4 * numColors - 4) 4 (fun i => i < newLen ∧ i < oldLen ∧ 4 ≤ i)
  -- for i := 4*numColors; i < 4*finalNumColors; i++ { newBytes[i] = 0 }
  forIdx (4 * finalNumColors - 4 * numColors) (4 * numColors) (fun i => i < newLen)
  -- bytesToARGBSlice(newBytes, newMap)
  forIdx finalNumColors 0 (fun i => i * 4 + 3 < newLen)
  .ok (finalNumColors, m)

/-! ## the recursive part, open in the sub-image decoder -/

/-- colour-cache set-up of `decodeImageStream` (pooled buffer re-use) -/
def setupCache (memCap : Nat) (bits : Nat) (st : St σ) : R (Nat × St σ) :=
  if bits > 0 then
    let size := 1 <<< bits
    if st.capCache ≥ size then do
      let _ ← reslice' st.capCache size
      .ok (size, st)
    else do
      let m ← allocL memCap st.mem (4 * size)
      .ok (size, { st with mem := m, capCache := size })
  else .ok (0, st)
where
  reslice' (cap n : Nat) : R Nat := if n ≤ cap then .ok n else .panic

/-- first loop of readHuffmanCodes: `group := (subImage[i] >> 8) & 0xffff; subImage[i] = group;
    max` -/
def groupScan (img : Array UInt32) : (n : Nat) → (i : Nat) → (mx : Nat) → (acc : Array Nat) →
    R (Nat × Array Nat)
  | 0, _, mx, acc => .ok (mx, acc)
  | n + 1, i, mx, acc => do
    let px ← getU img i
    let group := ((px >>> 8) &&& 0xffff).toNat
    groupScan img n (i + 1) (if group + 1 > mx then group + 1 else mx) (acc.push group)

/-- the remapping loop (`mapping[g] == -1` ⇒ `none`) -/
def remapLoop (img : Array Nat) : (n : Nat) → (i : Nat) → (mapping : Array (Option Nat)) →
    (num : Nat) → (acc : Array Nat) → R (Array (Option Nat) × Nat × Array Nat)
  | 0, _, mapping, num, acc => .ok (mapping, num, acc)
  | n + 1, i, mapping, num, acc =>
    if h : i < img.size then
      let g := img[i]
      if g ≥ mapping.size then .err .bitstream        -- `g < 0 || g >= len(mapping)`
      else
        match mapping.getD g none with
        | none => remapLoop img n (i + 1) (mapping.setIfInBounds g (some num)) (num + 1) (acc.push num)
        | some v => remapLoop img n (i + 1) mapping num (acc.push v)
    else .panic

/-- five `readHuffmanCode` calls of one group (`j = 0` gets the colour-cache symbols) -/
def readFive (L : LSrc σ) (cacheBits : Nat) (s : σ) : R σ :=
  let a0 := 280 + (if cacheBits > 0 then 1 <<< cacheBits else 0)
  match L.readCode s a0 with
  | none => .err .code
  | some s => match L.readCode s 256 with
    | none => .err .code
    | some s => match L.readCode s 256 with
      | none => .err .code
      | some s => match L.readCode s 256 with
        | none => .err .code
        | some s => match L.readCode s 40 with
          | none => .err .code
          | some s => .ok s

/-- the group loop: `for i := 0; i < numHTreeGroupsMax; i++`; `mapping = none` ⇒ identity -/
def groupLoop (L : LSrc σ) (cacheBits : Nat) (mapping : Option (Array (Option Nat))) (numGroups : Nat) :
    (n : Nat) → (i : Nat) → σ → (sel : Array Nat) → R (σ × Array Nat)
  | 0, _, s, sel => .ok (s, sel)
  | n + 1, i, s, sel => do
    let mapped : Option Nat ← (match mapping with
      | some mp => if h : i < mp.size then (.ok mp[i] : R (Option Nat)) else .panic    -- mapping[i]
      | none => .ok (some i))
    match mapped with
    | none => do
      let s ← readFive L cacheBits s                    -- read and discard
      groupLoop L cacheBits mapping numGroups n (i + 1) s sel
    | some k =>
      if k ≥ numGroups then .panic                      -- htreeGroups[mapped]
      else do
        let s ← readFive L cacheBits s
        groupLoop L cacheBits mapping numGroups n (i + 1) s (sel.push i)

def mkMeta (bits : Nat) (img : Array Nat) (num mx : Nat) : Meta :=
  { huffBits := bits, huffImage := img, numGroups := num, numGroupsMax := mx }

/-- the meta-prefix block of `readHuffmanCodes`: returns the metadata so far, the remapping table
    (`none` = no remapping) and the state -/
def readMetaWith (L : LSrc σ) (memCap : Nat)
    (sub : Nat → Nat → St σ → R (Array UInt32 × St σ))
    (xsize ysize : Nat) (allowRecursion : Bool) (st : St σ) :
    R (Meta × Option (Array (Option Nat)) × St σ) :=
  let flag := if allowRecursion then rd L st.br 1 else (0, st.br)   -- `allowRecursion && ReadBits(1) == 1`
  if allowRecursion ∧ flag.1 = 1 then
    let pr := rd L flag.2 3
    let huffmanPrecision := 2 + pr.1
    let huffmanXSize := subSampleSize xsize huffmanPrecision
    let huffmanYSize := subSampleSize ysize huffmanPrecision
    if huffmanXSize > 0 ∧ huffmanYSize > 2 ^ 30 / huffmanXSize then .err .bitstream else do
    let huffmanPixs := huffmanXSize * huffmanYSize
    let r ← sub huffmanXSize huffmanYSize { st with br := pr.2 }
    let g ← groupScan r.1 huffmanPixs 0 1 #[]
    let mx := g.1
    if mx > 1000 ∨ mx > xsize * ysize then do
      let m ← allocL memCap r.2.mem (8 * mx)                   -- mapping = make([]int, mx)
      let rm ← remapLoop g.2 huffmanPixs 0 (Array.replicate mx none) 0 #[]
      .ok (mkMeta huffmanPrecision rm.2.2 rm.2.1 mx, some rm.1, { r.2 with mem := m })
    else
      .ok (mkMeta huffmanPrecision g.2 mx mx, none, r.2)
  else
    .ok (mkMeta 0 #[] 1 1, none, { st with br := flag.2 })

/-- `htreeGroups`: pooled re-use (`[:n]`) or `make([]HTreeGroup, n)` -/
def allocGroups (memCap : Nat) (n : Nat) (st : St σ) : R (St σ) :=
  if st.capGroups ≥ n then
    (if n ≤ st.capGroups then .ok st else .panic)
  else do
    let m ← allocL memCap st.mem (szHTreeGroup * n)
    .ok { st with mem := m, capGroups := n }

/-- `readHuffmanCodes(xsize, ysize, colorCacheBits, allowRecursion)`; `sub` = `decodeSubImage` -/
def readHuffmanCodesWith (L : LSrc σ) (memCap : Nat)
    (sub : Nat → Nat → St σ → R (Array UInt32 × St σ))
    (xsize ysize cacheBits : Nat) (allowRecursion : Bool) (st : St σ) : R (Meta × St σ) := do
  let r ← readMetaWith L memCap sub xsize ysize allowRecursion st
  let hdr := r.1
  let mapping := r.2.1
  let st := r.2.2
  if L.eos st.br then .err .bitstream else do
  let st ← allocGroups memCap hdr.numGroups st
  let g ← groupLoop L cacheBits mapping hdr.numGroups hdr.numGroupsMax 0 st.br #[]
  .ok ({ hdr with groupSel := g.2, colorCacheBits := cacheBits }, { st with br := g.1 })

/-- `readTransform(xsize, ysize)`; returns the new xsize -/
def readTransformWith (L : LSrc σ) (memCap : Nat)
    (sub : Nat → Nat → St σ → R (Array UInt32 × St σ))
    (xsize ysize : Nat) (st : St σ) : R (Nat × St σ) :=
  let t := rd L st.br 2
  let ty := t.1
  if st.seen / 2 ^ ty % 2 = 1 then .err .bitstream else   -- transformsSeen & (1 << type) != 0
  -- t := &dec.transforms[dec.nextTransform]   (array of NumTransforms = 4)
  if st.transforms.length ≥ 4 then .panic else
  let st := { st with br := t.2, seen := st.seen ||| (1 <<< ty) }
  if ty = 0 ∨ ty = 1 then do
    let b := rd L st.br 3
    let bits := 2 + b.1
    let subW := subSampleSize xsize bits
    let subH := subSampleSize ysize bits
    -- the transform slot is claimed (nextTransform++) before the sub-image is decoded
    let st := { st with br := b.2,
                        transforms := st.transforms ++ [{ type := ty, xsize, ysize, bits }] }
    let (data, st) ← sub subW subH st
    let ts := st.transforms.dropLast ++ [{ type := ty, xsize, ysize, bits, dataLen := data.size }]
    .ok (xsize, { st with transforms := ts })
  else if ty = 3 then do
    let n := rd L st.br 8
    let numColors := n.1 + 1
    let bits := if numColors > 16 then 0 else if numColors > 4 then 1 else if numColors > 2 then 2 else 3
    let st := { st with br := n.2,
                        transforms := st.transforms ++ [{ type := ty, xsize, ysize, bits }] }
    let (palette, st) ← sub numColors 1 st
    let (mapLen, m) ← expandColorMap memCap numColors bits palette.size st.mem
    let ts := st.transforms.dropLast ++ [{ type := ty, xsize, ysize, bits, dataLen := mapLen }]
    .ok (subSampleSize xsize bits, { st with mem := m, transforms := ts })
  else
    .ok (xsize, { st with transforms := st.transforms ++ [{ type := ty, xsize, ysize }] })

/-- `for dec.br.ReadBits(1) == 1 { transformXSize, err = dec.readTransform(…) }` -/
def transformLoop (L : LSrc σ) (memCap : Nat) (sub : Nat → Nat → St σ → R (Array UInt32 × St σ))
    (ysize : Nat) : (fuel : Nat) → (xsize : Nat) → St σ → R (Nat × St σ)
  | 0, _, _ => .hang
  | fuel + 1, xsize, st =>
    let f := rd L st.br 1
    if f.1 = 1 then do
      let (x, st) ← readTransformWith L memCap sub xsize ysize { st with br := f.2 }
      transformLoop L memCap sub ysize fuel x st
    else .ok (xsize, { st with br := f.2 })

/-- `decodeImageStream(xsize, ysize, isLevel0)`; returns (transformXSize, metadata) -/
def imageStreamWith (L : LSrc σ) (memCap : Nat) (sub : Nat → Nat → St σ → R (Array UInt32 × St σ))
    (xsize ysize : Nat) (isLevel0 : Bool) (st : St σ) : R ((Nat × Meta) × St σ) := do
  let (tx, st) ← (if isLevel0 then transformLoop L memCap sub ysize 5 xsize st else .ok (xsize, st))
  let c := rd L st.br 1
  let (cacheBits, s) ← (if c.1 = 1 then
      let b := rd L c.2 4
      if b.1 < 1 ∨ b.1 > 11 then (.err .bitstream : R (Nat × σ)) else .ok (b.1, b.2)
    else .ok (0, c.2))
  let (hdr, st) ← readHuffmanCodesWith L memCap sub tx ysize cacheBits isLevel0 { st with br := s }
  let (cacheSize, st) ← setupCache memCap cacheBits st
  -- updateDecoder(transformXSize, transformYSize)
  .ok ((tx, { hdr with colorCacheSize := cacheSize, huffXSize := subSampleSize tx hdr.huffBits }), st)

/-- `decodeSubImage(xsize, ysize)`; `stream` = `decodeImageStream(·, ·, false)` -/
def subImageWith (L : LSrc σ) (memCap : Nat)
    (stream : Nat → Nat → St σ → R ((Nat × Meta) × St σ))
    (xsize ysize : Nat) (st : St σ) : R (Array UInt32 × St σ) :=
  let d := st.depth + 1
  let st := { st with depth := d, maxDepth := if d > st.maxDepth then d else st.maxDepth }
  if d > 2 then .err .bitstream else do               -- (returns before the `defer` is registered)
  let ((_, hdr), st) ← stream xsize ysize st
  if xsize > 0 ∧ ysize > 2 ^ 30 / xsize then .err .bitstream else do
  let totalSize := xsize * ysize
  let m ← allocL memCap st.mem (4 * totalSize)
  match L.imageData st.br xsize ysize hdr with
  | none => .err .pixels
  | some (px, s) =>
    .ok (Array.ofFn (n := totalSize) (fun i => px i.val), { st with br := s, mem := m, depth := d - 1 })

/-- tying the knot: `fuel` bounds the nesting of `decodeSubImage` calls -/
def subImageF (L : LSrc σ) (memCap : Nat) : (fuel : Nat) → Nat → Nat → St σ → R (Array UInt32 × St σ)
  | 0 => fun _ _ _ => .hang
  | fuel + 1 => subImageWith L memCap
      (fun x y st => imageStreamWith L memCap (subImageF L memCap fuel) x y false st)

/-- the level-0 `decodeImageStream` -/
def imageStream0 (L : LSrc σ) (memCap : Nat) (xsize ysize : Nat) (st : St σ) :=
  imageStreamWith L memCap (subImageF L memCap 3) xsize ysize true st

/-! ## DecodeVP8L -/

structure Header where
  width : Nat
  height : Nat
  hasAlpha : Bool
  deriving Repr, DecidableEq, Inhabited

/-- `decodeHeader` -/
def decodeHeader (L : LSrc σ) (data : Bytes) : R (Header × σ) :=
  if data.length < 5 then .err .signature else do
  let b0 ← idx data 0
  if b0 ≠ 0x2f then .err .signature else do
  let rest ← sliceFrom data 1
  let s := L.new rest
  let w := rd L s 14
  let h := rd L w.2 14
  let a := rd L h.2 1
  let v := rd L a.2 3
  if v.1 ≠ 0 then .err .version
  else if L.eos v.2 then .err .bitstream
  else .ok ({ width := w.1 + 1, height := h.1 + 1, hasAlpha := a.1 ≠ 0 }, v.2)

/-- pooled capacities at entry (elements) -/
structure CapsL where
  tableSlab : Nat := 0
  pixels : Nat := 0
  transformBuf : Nat := 0
  colorCache : Nat := 0
  groups : Nat := 0
  deriving Repr, DecidableEq, Inhabited

/-- buffer lengths after the allocations of `DecodeVP8L`, before the pixel loop -/
structure BufsL where
  tw : Nat
  numPixOrig : Nat
  numPixTrans : Nat
  numAlloc : Nat
  needed : Nat
  pixels : Nat
  argbCache : Nat
  transformBuf : Nat
  deriving Repr, DecidableEq, Inhabited

def numArgbCacheRows : Nat := 16

/-- `if cap(buf) >= n { buf = buf[:n] } else { buf = make([]uint32, n) }` -/
def reuseOrGrowL (memCap : Nat) (m : Mem) (cap n elemSize : Nat) : R (Nat × Mem) :=
  if cap ≥ n then (if n ≤ cap then .ok (n, m) else .panic)
  else do
    let m ← allocL memCap m (n * elemSize)
    .ok (n, m)

/-- `argbToNRGBARows` row slices: `pixels[y*width : y*width+width]`, `pix[y*stride : y*stride+width*4]` -/
def argbRows (pixelsLen pixLen stride width : Nat) : (n : Nat) → (y : Nat) → R Unit
  | 0, _ => .ok ()
  | n + 1, y =>
    if y * width + width ≤ pixelsLen ∧ y * stride + width * 4 ≤ pixLen then
      argbRows pixelsLen pixLen stride width n (y + 1)
    else .panic

/-- `argbToNRGBA(out, width, height)`; returns (`len(img.Pix)`, `img.Stride`).  The goroutine
    fan-out partitions the same rows (`yStart..yEnd`), so the slices are the same set. -/
def argbToNRGBA (memCap : Nat) (outLen width height : Nat) (m : Mem) : R ((Nat × Nat) × Mem) :=
  if 4 * width * height > 9223372036854775807 then .panic else do
  let m ← allocL memCap m (4 * width * height)
  argbRows outLen (4 * width * height) (4 * width) width height 0
  .ok ((4 * width * height, 4 * width), m)

structure Front where
  hdr : Header
  transforms : List Transform
  md : Meta
  bufs : BufsL
  maxDepth : Nat
  deriving Inhabited

/-- `DecodeVP8L` up to (and including) the allocations; then the pixel loop and the inverse
    transforms as oracles (`pixOK`; they change no length), then `argbToNRGBA`. -/
def decodeVP8L (L : LSrc σ) (memCap : Nat) (caps : CapsL) (data : Bytes) (pixOK : Bool) :
    R ((Front × Nat × Nat) × Mem) := do
  let (h, s) ← decodeHeader L data
  -- huffSlabSize = 1 << 16 entries of 4 bytes
  let m ← (if caps.tableSlab < 65536 then allocL memCap [] (65536 * 4) else .ok [])
  let st : St σ := { br := s, mem := m, capCache := caps.colorCache, capGroups := caps.groups }
  let ((tw0, hdr), st) ← imageStream0 L memCap h.width h.height st
  let tw := if tw0 = 0 then h.width else tw0
  if h.width * h.height > 2 ^ 30 then .err .tooLarge else do
  let numPixOrig := h.width * h.height
  let numPixTrans := tw * h.height
  let numAlloc := if numPixTrans > numPixOrig then numPixTrans else numPixOrig
  let needed := numAlloc + h.width + h.width * numArgbCacheRows
  let (pixels, m) ← reuseOrGrowL memCap st.mem caps.pixels needed 4
  -- dec.argbCache = dec.pixels[numAlloc+dec.Width:]
  let argbCache ← sliceLenL pixels (numAlloc + h.width) pixels
  let (transformBuf, m) ← reuseOrGrowL memCap m caps.transformBuf numAlloc 4
  -- dec.pixels[:numPixTrans]
  let _ ← sliceLenL pixels 0 numPixTrans
  if !pixOK then .err .pixels else do
  -- dec.applyInverseTransforms(dec.pixels[:numPixOrig]); `out` is one of the two buffers, `[:numPix]`
  -- (`len(transformBuf) = numAlloc ≥ numPix`, so its `make` fallback is not taken; `rows[:numPix]`)
  let out ← sliceLenL pixels 0 numPixOrig
  let _ ← sliceLenL (if transformBuf < out then out else transformBuf) 0 out
  let ((pixLen, stride), m) ← argbToNRGBA memCap out h.width h.height m
  .ok (({ hdr := h, transforms := st.transforms, md := hdr,
          bufs := { tw, numPixOrig, numPixTrans, numAlloc, needed, pixels, argbCache, transformBuf },
          maxDepth := st.maxDepth }, pixLen, stride), m)

/-! ## decodeImageData: the copy branch -/

/-- `PlaneCodeToDistance(xsize, planeCode)` (`planeCode` is a Go int; the decoder passes ≥ 1) -/
def planeCodeToDistance (xsize : Nat) (planeCode : Int) : Int :=
  if planeCode ≤ 0 then 1
  else if planeCode > 120 then planeCode - 120
  else
    let distCode := Webp.Spec.VP8L.codeToPlane.getD (planeCode.toNat - 1) 0
    let yoffset : Int := distCode / 16
    let xoffset : Int := 8 - (distCode % 16 : Nat)
    if yoffset > 0 ∧ (xsize : Int) > 1073741824 / yoffset then 1
    else
      let dist := yoffset * xsize + xoffset
      if dist < 1 then 1 else dist

/-- the value a length / distance prefix symbol stands for (inlined `getCopyLength` /
    `getCopyDistance`): `sym + 1` below 4, else `((2 + (sym & 1)) << extraBits) + extra + 1` with
    `extraBits = (sym - 2) >> 1` and `extra` the `extraBits` bits read from the stream -/
def prefixValue (sym extra : Nat) : Nat :=
  if sym < 4 then sym + 1 else ((2 + sym % 2) <<< ((sym - 2) / 2)) + extra + 1

/-- one `copy(dst, src)` of `copyBlock32`: destination `[dlo, dlo+n)`, source `[slo, slo+n)` -/
structure Move where
  dlo : Nat
  slo : Nat
  n : Nat
  deriving Repr, DecidableEq, Inhabited

/-- the doubling loop: `for copied < length { n := min(copied, length-copied); copy(…); copied += n }` -/
def doubling (len pos length : Nat) : (fuel : Nat) → (copied : Nat) → (acc : List Move) → R (List Move)
  | 0, _, _ => .hang
  | fuel + 1, copied, acc =>
    if copied < length then
      let n := if copied > length - copied then length - copied else copied
      -- data[pos+copied : pos+copied+n], data[pos : pos+n]
      if pos + copied + n ≤ len ∧ pos + n ≤ len then
        doubling len pos length fuel (copied + n) (acc ++ [{ dlo := pos + copied, slo := pos, n }])
      else .panic
    else .ok acc

/-- `copyBlock32(data, pos, dist, length)` on a slice of length `len`, with Go `int` arguments;
    returns the block moves in order -/
def copyBlock32 (len : Nat) (pos dist length : Int) : R (List Move) :=
  let src := pos - dist
  if dist ≥ length then
    -- copy(data[pos:pos+length], data[src:src+length])
    if 0 ≤ pos ∧ pos ≤ pos + length ∧ pos + length ≤ len ∧ 0 ≤ src ∧ src ≤ src + length ∧ src + length ≤ len
    then .ok [{ dlo := pos.toNat, slo := src.toNat, n := length.toNat }] else .panic
  else if dist = 1 then
    -- val := data[src]; dst := data[pos:pos+length]; fill
    if 0 ≤ src ∧ src < len ∧ 0 ≤ pos ∧ pos ≤ pos + length ∧ pos + length ≤ len
    then .ok ((List.range length.toNat).map fun i => { dlo := pos.toNat + i, slo := src.toNat, n := 1 })
    else .panic
  else
    -- copy(data[pos:pos+dist], data[src:src+dist]); then the doubling loop
    if 0 ≤ pos ∧ pos ≤ pos + dist ∧ pos + dist ≤ len ∧ 0 ≤ src ∧ src ≤ src + dist ∧ src + dist ≤ len
    then doubling len pos.toNat length.toNat length.toNat dist.toNat
           [{ dlo := pos.toNat, slo := src.toNat, n := dist.toNat }]
    else .panic

/-- the backward-reference branch of `decodeImageData` from the guard on:
    `if pos < dist || srcEnd-pos < length { return ErrBitstream }; copyBlock32(…); pos += length`
    (`data` has `len` elements, `srcEnd = width*height`) -/
def copyStep (len srcEnd : Nat) (pos dist length : Int) : R (List Move × Int) :=
  if pos < dist ∨ (srcEnd : Int) - pos < length then .err .bitstream else do
  let mv ← copyBlock32 len pos dist length
  .ok (mv, pos + length)

end Webp.Impl.CodecFrontL
