/-
  Webp.Impl.Pool — the object-reuse discipline of deepteams/webp (eight `sync.Pool`s), as a small
  generic model.  Core Lean only.

  Every pooled call site of /repo has the same shape
  (lossless/encode.go:156 `Encode`, lossy/encode.go:452 `NewEncoder`, lossy/decode.go:205
  `DecodeFrame`, lossless/decode.go `DecodeVP8L`, lossy/encode_parallel.go:27 `getParallelState`,
  lossy/encode_syntax.go:12 `getBoolWriter`, lossy/encode.go:23 `getImportUVWorker`,
  encode.go:21 `argbPool`):

      o := pool.Get()                       -- nil / New()  → build a fresh object for these arguments
      if o == nil || !usable(o, args) {     --               (a rejected object is simply dropped)
          o = fresh(args)
      } else {
          reset(o, args)                    -- acquireEncoder / resetForReuse / acquireDecoder+initFrame / Reset …
      }
      r := work(o, args)                    -- the codec proper; mutates o
      pool.Put(o)                           -- possibly after nil-ing references; skipped on some paths
      return r

  `sync.Pool` as documented: "Get selects an arbitrary item from the Pool, removes it from the
  Pool, and returns it to the caller. … Any item stored in the Pool may be removed automatically
  at any time without notification."  So the *only* things a call may rely on are: the object it
  gets is either fresh or some object handed back earlier and not handed out since, and nobody
  else holds it.  Which one it gets (`Choice`) is outside the program's control; the theorems of
  `Webp.Props.C11` quantify over all choices.

  Two views of the same discipline:
  * `call`/`run` — sequential histories, the pool a list of idle objects (a multiset: the pick is
    an arbitrary position);
  * `Step` — a transition system with any number of concurrent borrowers; objects carry an
    identity (the Go pointer) so that "no object is held twice" is a statement.
  And a third, `MStep`, for the last sentence of C11 (returned memory is never written again).
-/
namespace Webp.Impl.Pool

/-- What the code supplies for one pooled type.
    `obs` is the *observable projection*: everything `work` may read before it has written it. -/
structure Kit (Obj Args Obs Res : Type) where
  /-- constructor used when the pool has nothing usable (`&T{…}` + allocate…) -/
  fresh : Args → Obj
  /-- the reuse path run on a pool hit -/
  reset : Obj → Args → Obj
  /-- the body of the call: its result and the object as it is handed back to the pool -/
  work  : Obj → Args → Res × Obj
  obs   : Obj → Obs

/-- The runtime's and the reuse branch's freedom at one call. -/
structure Choice where
  /-- positions of idle objects that vanish before the `Get` (GC, per-P cache miss) -/
  gc   : List Nat := []
  /-- `none`: `Get` returns nil/`New()`; `some i`: it returns the `i`-th idle object
      (a position past the end behaves like `none`) -/
  pick : Option Nat := none
  /-- the reuse branch accepts the object (`false`: e.g. `enc.mbW != mbW` — object dropped,
      a fresh one is built) -/
  keep : Bool := true
  /-- the object is handed back with `Put` (error paths of some wrappers do not) -/
  put  : Bool := true

variable {Obj Args Obs Res : Type}

/-- `Get` + reuse branch: the object the body will run on, and what stays idle -/
def acquire (K : Kit Obj Args Obs Res) (idle : List Obj) (c : Choice) (a : Args) :
    Obj × List Obj :=
  let idle := c.gc.foldl List.eraseIdx idle
  match c.pick with
  | none => (K.fresh a, idle)
  | some i =>
    match idle[i]? with
    | none => (K.fresh a, idle)
    | some o => if c.keep then (K.reset o a, idle.eraseIdx i) else (K.fresh a, idle.eraseIdx i)

/-- one pooled call: result and the idle objects afterwards -/
def call (K : Kit Obj Args Obs Res) (idle : List Obj) (c : Choice) (a : Args) :
    Res × List Obj :=
  let p := acquire K idle c a
  let q := K.work p.1 a
  (q.1, if c.put then q.2 :: p.2 else p.2)

/-- a history of calls, starting from any idle set; results in call order -/
def run (K : Kit Obj Args Obs Res) : List Obj → List (Args × Choice) → List Res × List Obj
  | idle, [] => ([], idle)
  | idle, (a, c) :: h =>
    let p := call K idle c a
    let q := run K p.2 h
    (p.1 :: q.1, q.2)

/-- the result of the same call as the first call of a fresh process -/
def freshResult (K : Kit Obj Args Obs Res) (a : Args) : Res := (K.work (K.fresh a) a).1

/-- the reuse path restores the observable state of a fresh object -/
def ResetComplete (K : Kit Obj Args Obs Res) : Prop := ∀ o a, K.obs (K.reset o a) = K.obs (K.fresh a)

/-- `obs` really is everything the body reads: equal observables give equal results -/
def ObsSufficient (K : Kit Obj Args Obs Res) : Prop :=
  ∀ o o' a, K.obs o = K.obs o' → (K.work o a).1 = (K.work o' a).1

/-! ### concurrent borrowers -/

/-- an object out of the pool: who holds it, its identity, its state after acquire, the
    arguments of the call it serves -/
structure Held (Obj Args : Type) where
  who  : Nat
  id   : Nat
  obj  : Obj
  args : Args

structure State (Obj Args Res : Type) where
  idle : List (Nat × Obj) := []
  held : List (Held Obj Args) := []
  /-- identities `≥ next` have never been allocated -/
  next : Nat := 0
  /-- completed calls, most recent first: borrower, arguments, result -/
  out  : List (Nat × Args × Res) := []

/-- all identities currently alive, idle ones first -/
def State.ids (s : State Obj Args Res) : List Nat := s.idle.map (·.1) ++ s.held.map (·.id)

/-- One event.  Borrowers are arbitrary and unsynchronised; the only atomic things are the
    pool's own `Get`/`Put` (the runtime's contract) — the body of a call runs between its
    acquire and its `finish` on an object no other event can touch (`pool_exclusive`), which is
    why it may be folded into `finish`. -/
inductive Step (K : Kit Obj Args Obs Res) : State Obj Args Res → State Obj Args Res → Prop
  /-- `Get` finds nothing: a fresh object with a new identity -/
  | miss (s : State Obj Args Res) (b : Nat) (a : Args) :
      Step K s { s with held := ⟨b, s.next, K.fresh a, a⟩ :: s.held, next := s.next + 1 }
  /-- `Get` returns the `i`-th idle object; the reuse path runs on it -/
  | hit (s : State Obj Args Res) (b : Nat) (a : Args) (i id : Nat) (o : Obj)
      (h : s.idle[i]? = some (id, o)) :
      Step K s { s with idle := s.idle.eraseIdx i, held := ⟨b, id, K.reset o a, a⟩ :: s.held }
  /-- an idle object disappears (GC, or a `Get` whose reuse branch rejects it) -/
  | drop (s : State Obj Args Res) (i : Nat) :
      Step K s { s with idle := s.idle.eraseIdx i }
  /-- the holder of the `j`-th held object completes its call and (if `put`) hands it back -/
  | finish (s : State Obj Args Res) (j : Nat) (h : Held Obj Args) (put : Bool)
      (hj : s.held[j]? = some h) :
      Step K s { s with
        held := s.held.eraseIdx j
        idle := if put then (h.id, (K.work h.obj h.args).2) :: s.idle else s.idle
        out  := (h.who, h.args, (K.work h.obj h.args).1) :: s.out }

/-- reachable from the empty pool of a fresh process -/
inductive Reachable (K : Kit Obj Args Obs Res) : State Obj Args Res → Prop
  | init : Reachable K {}
  | step {s t : State Obj Args Res} : Reachable K s → Step K s t → Reachable K t

/-! ### the shape of the known defect: one field not reset

`CalculateBestCacheSize` (lossless/encode_backward.go:406) re-uses a slab of histograms kept in
the pooled encoder; on reuse the `Literal` counts are zeroed and the cached statistics reset
(`resetStats`), the `Red/Blue/Alpha/Distance` counts are not: they keep accumulating over calls
and feed the cost estimate that selects the colour-cache size.  Abstractly: an object with two
fields of which the reuse path resets one. -/

/-- `cfg`: set from the arguments on both paths; `acc`: scratch the body accumulates into -/
structure Obj2 where
  cfg : Nat
  acc : Nat
deriving DecidableEq, Repr

/-- the body adds the argument into `acc` (assuming it starts at 0) and reports `cfg + acc` -/
def work2 (o : Obj2) (a : Nat) : Nat × Obj2 := (o.cfg + (o.acc + a), { o with acc := o.acc + a })

/-- reuse path forgets to clear `acc` -/
def staleKit : Kit Obj2 Nat Obj2 Nat where
  fresh := fun a => ⟨a, 0⟩
  reset := fun o a => { o with cfg := a }
  work  := work2
  obs   := id

/-- the repaired reuse path -/
def fixedKit : Kit Obj2 Nat Obj2 Nat where
  fresh := fun a => ⟨a, 0⟩
  reset := fun _ a => ⟨a, 0⟩
  work  := work2
  obs   := id

/-! ### returned memory

A flat memory; a call writes some cells and returns some addresses to its caller.  `owned` are
the cells of objects the library keeps (idle pooled objects and whatever they point to). -/

structure MState where
  mem   : Nat → Nat
  /-- allocation frontier: addresses `≥ next` are unused -/
  next  : Nat
  owned : List Nat
  /-- cells handed to callers so far -/
  given : List Nat

/-- what one call does to memory -/
structure MCall where
  /-- writes `(address, value)` in program order -/
  writes : List (Nat × Nat)
  /-- addresses of the returned image / byte slice -/
  ret    : List Nat
  /-- cells the library keeps after the call -/
  owned' : List Nat
  /-- new allocation frontier -/
  next'  : Nat

def applyWrites (m : Nat → Nat) : List (Nat × Nat) → Nat → Nat
  | [] => m
  | (a, v) :: ws => applyWrites (fun x => if x = a then v else m x) ws

/-- the discipline the code follows (`Encode` copies the bitstream out of `writerBuf`,
    `decodeLossy` converts out of the decoder's cache planes before `ReleaseDecoder`, …):
    a call writes only cells the library owns or cells it allocates now; what it returns and what
    it keeps are disjoint; both lie below the new frontier; it keeps nothing that was already
    given away. -/
structure MCall.Ok (s : MState) (c : MCall) : Prop where
  wr    : ∀ p ∈ c.writes, p.1 ∈ s.owned ∨ s.next ≤ p.1
  mono  : s.next ≤ c.next'
  ret   : ∀ x ∈ c.ret, x < c.next' ∧ x ∉ c.owned'
  own   : ∀ x ∈ c.owned', x ∈ s.owned ∨ (s.next ≤ x ∧ x < c.next')

def MState.after (s : MState) (c : MCall) : MState :=
  { mem := applyWrites s.mem c.writes, next := c.next', owned := c.owned', given := c.ret ++ s.given }

/-- a history of calls each of which follows the discipline in the state it starts from -/
inductive MRun : MState → List MCall → MState → Prop
  | nil (s : MState) : MRun s [] s
  | cons {s t : MState} {c : MCall} {cs : List MCall} : c.Ok s → MRun (s.after c) cs t → MRun s (c :: cs) t

/-- well-formed start: nothing given to a caller is owned, everything lies below the frontier -/
structure MState.Wf (s : MState) : Prop where
  givenFree : ∀ x ∈ s.given, x ∉ s.owned
  givenLow  : ∀ x ∈ s.given, x < s.next
  ownedLow  : ∀ x ∈ s.owned, x < s.next

end Webp.Impl.Pool
