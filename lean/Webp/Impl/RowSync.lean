import Webp.Impl.RowPipe
/-
  Webp.Impl.RowSync — implementation-level model of one `rowState` of
  /repo/internal/lossy/encode_parallel.go (`rowSync.waitFor`, `rowSync.signal`,
  the reset in `getParallelState`).  Core Lean only.

      func (rs *rowSync) waitFor(y int, needed int32) {          program points of a waiter
          r := &rs.rows[y]
          if r.done.Load() >= needed {                             chk    (atomic load)
              return                                               ret
          }
          r.waiters.Add(1)                                         inc    (atomic add)
          r.mu.Lock()                                              lock   (blocks while mu is held)
          for r.done.Load() < needed {                             loop   (atomic load, holds mu)
              r.cond.Wait()                                        wait   (holds mu) → sleep → woken
          }
          r.mu.Unlock()                                            unlock
          r.waiters.Add(-1)                                        dec
      }                                                            ret

      func (rs *rowSync) signal(y int, done int32) {             program points of the signaller
          r := &rs.rows[y]
          r.done.Store(done)                                       store
          if r.waiters.Load() > 0 {                                ldw
              r.mu.Lock()                                          lock
              r.mu.Unlock()                                        unlock
              r.cond.Broadcast()                                   bcast
          }
      }

  Assumed semantics of the Go primitives (the runtime itself is not modelled):
  * `sync/atomic` operations are sequentially consistent: each is one step on the shared state.
  * `sync.Mutex`: `Lock` is enabled only while nobody holds the mutex.
  * `sync.Cond` as documented: "Wait atomically unlocks c.L and suspends execution of the
    calling goroutine.  After later resuming execution, Wait locks c.L before returning.
    Wait cannot return unless awoken by Broadcast or Signal."  `wait → sleep` is therefore one
    step (enqueue on the notify list + unlock); `Broadcast` moves *every* sleeper to `woken`;
    a `woken` thread re-locks (`relock`) and re-evaluates the loop condition.
    (runtime: `t := notifyListAdd; c.L.Unlock(); notifyListWait(t)` — the ticket is taken while
    the mutex is still held, which is what makes the atomic reading sound.)

  Threads.  Any number `T` of waiter threads, each performing any sequence of `waitFor` calls
  with arbitrary `needed` (in the encoder: the worker of row y+1 and the Phase-B recorder).
  One signaller per row (the worker that claimed row y — `RowPipe.Inv.hUniq`), performing any
  sequence of `signal` calls with non-decreasing values (`signal(y, x+1)` for x = 0,1,…).
  `reset` is `ps.rs.rows[i].done.Store(0)` in `getParallelState`, executed when the pooled state
  is taken out of the pool, i.e. when no thread is inside `waitFor`/`signal`.  Note that the Go
  code resets `done` only — `waiters`, `mu`, the notify list are reused as they are.
-/
namespace Webp.Impl.RowSync
open Webp.Impl.RowPipe (upd)

/-- program counter of a waiter thread; the argument is `needed` of the current call -/
inductive WPc where
  | idle
  | chk (n : Nat)
  | inc (n : Nat)
  | lock (n : Nat)
  | loop (n : Nat)
  | wait (n : Nat)
  | sleep (n : Nat)
  | woken (n : Nat)
  | unlock (n : Nat)
  | dec (n : Nat)
  | ret (n : Nat)
  deriving Repr, DecidableEq

/-- program counter of the signaller; the argument is the value being signalled -/
inductive SPc where
  | idle
  | store (v : Nat)
  | ldw (v : Nat)
  | lock (v : Nat)
  | unlock (v : Nat)
  | bcast (v : Nat)
  deriving Repr, DecidableEq

inductive Owner where
  | sig
  | w (t : Nat)
  deriving Repr, DecidableEq

structure State where
  /-- `r.done` -/
  done : Nat
  /-- `r.waiters` (an `atomic.Int32`; `Add(-1)` is a real subtraction here) -/
  waiters : Int
  /-- `r.mu`: current holder -/
  mu : Option Owner
  pc : Nat → WPc
  spc : SPc

def init : State where
  done := 0
  waiters := 0
  mu := none
  pc := fun _ => .idle
  spc := .idle

/-- `Broadcast`: everybody on the notify list is made runnable -/
def wake : WPc → WPc
  | .sleep n => .woken n
  | p => p

inductive Label where
  /-- a waiter thread enters `waitFor` (environment step) -/
  | wcall (t : Nat)
  /-- a step inside `waitFor` -/
  | w (t : Nat)
  /-- the signaller enters `signal` (environment step) -/
  | scall
  /-- a step inside `signal` -/
  | sig
  /-- `getParallelState` reuse -/
  | reset
  deriving Repr, DecidableEq

inductive Step (T : Nat) : State → Label → State → Prop where
  | wCall {s : State} {t : Nat} (n : Nat) : t < T → s.pc t = .idle →
      Step T s (.wcall t) { s with pc := upd s.pc t (.chk n) }
  | wChkFast {s : State} {t n : Nat} : s.pc t = .chk n → n ≤ s.done →
      Step T s (.w t) { s with pc := upd s.pc t (.ret n) }
  | wChkSlow {s : State} {t n : Nat} : s.pc t = .chk n → s.done < n →
      Step T s (.w t) { s with pc := upd s.pc t (.inc n) }
  | wInc {s : State} {t n : Nat} : s.pc t = .inc n →
      Step T s (.w t) { s with waiters := s.waiters + 1, pc := upd s.pc t (.lock n) }
  | wLock {s : State} {t n : Nat} : s.pc t = .lock n → s.mu = none →
      Step T s (.w t) { s with mu := some (.w t), pc := upd s.pc t (.loop n) }
  | wLoopWait {s : State} {t n : Nat} : s.pc t = .loop n → s.done < n →
      Step T s (.w t) { s with pc := upd s.pc t (.wait n) }
  | wLoopExit {s : State} {t n : Nat} : s.pc t = .loop n → n ≤ s.done →
      Step T s (.w t) { s with pc := upd s.pc t (.unlock n) }
  | wWait {s : State} {t n : Nat} : s.pc t = .wait n →
      Step T s (.w t) { s with mu := none, pc := upd s.pc t (.sleep n) }
  | wRelock {s : State} {t n : Nat} : s.pc t = .woken n → s.mu = none →
      Step T s (.w t) { s with mu := some (.w t), pc := upd s.pc t (.loop n) }
  | wUnlock {s : State} {t n : Nat} : s.pc t = .unlock n →
      Step T s (.w t) { s with mu := none, pc := upd s.pc t (.dec n) }
  | wDec {s : State} {t n : Nat} : s.pc t = .dec n →
      Step T s (.w t) { s with waiters := s.waiters - 1, pc := upd s.pc t (.ret n) }
  | wRet {s : State} {t n : Nat} : s.pc t = .ret n →
      Step T s (.w t) { s with pc := upd s.pc t .idle }
  | sCall {s : State} (v : Nat) : s.spc = .idle → s.done ≤ v →
      Step T s .scall { s with spc := .store v }
  | sStore {s : State} {v : Nat} : s.spc = .store v →
      Step T s .sig { s with done := v, spc := .ldw v }
  | sLdwSlow {s : State} {v : Nat} : s.spc = .ldw v → 0 < s.waiters →
      Step T s .sig { s with spc := .lock v }
  | sLdwFast {s : State} {v : Nat} : s.spc = .ldw v → s.waiters ≤ 0 →
      Step T s .sig { s with spc := .idle }
  | sLock {s : State} {v : Nat} : s.spc = .lock v → s.mu = none →
      Step T s .sig { s with mu := some .sig, spc := .unlock v }
  | sUnlock {s : State} {v : Nat} : s.spc = .unlock v →
      Step T s .sig { s with mu := none, spc := .bcast v }
  | sBcast {s : State} {v : Nat} : s.spc = .bcast v →
      Step T s .sig { s with pc := fun t => wake (s.pc t), spc := .idle }
  | reset {s : State} : (∀ t, t < T → s.pc t = .idle) → s.spc = .idle →
      Step T s .reset { s with done := 0 }

inductive Reachable (T : Nat) : State → Prop where
  | init : Reachable T init
  | step {s s' : State} {a : Label} : Reachable T s → Step T s a s' → Reachable T s'

/-- the signaller is past its store and has not yet executed `Broadcast` -/
def pending : SPc → Bool
  | .ldw _ | .lock _ | .unlock _ | .bcast _ => true
  | _ => false

/-- distance of the signaller to the completion of its `Broadcast` -/
def sigRank : SPc → Nat
  | .ldw _ => 4
  | .lock _ => 3
  | .unlock _ => 2
  | .bcast _ => 1
  | _ => 0

end Webp.Impl.RowSync
