import Webp.Go.Basic
/-
  Implementation model of /repo/internal/lossy/alpha.go (ALPH chunk codec of lossy WebP) and of the
  alpha part of the glue in /repo/encode.go / /repo/webp.go.           Core Lean only.

  Go                                         model
  ---------------------------------------    -------------------------------------------------
  alphaFilter{Horizontal,Vertical,Gradient}  `filter f w h a`      (out[i] = in[i] - pred(in, i))
  alphaUnfilter{Horizontal,Vertical,Gradient}`unfilter f w h d`    (in place: d[i] += pred(d, i), i ascending)
  header byte `method | filter<<2 | pre<<4`  `packHeader`, `unpackHeader`
  DecodeAlpha                                `decodeAlpha`         (VP8L decoder = oracle `Codec.dec`)
  alphaVP8LStream                            `alphaVP8LStream`
  encodeAlphaInternal                        `encodeAlphaInternal` (VP8L encoder = oracle `Codec.enc`)
  getNumColors / estimateBestFilter / getFilterMap / applyFiltersAndEncode / EncodeAlpha
                                             `numColors`, `estimateBestFilter`, `getFilterMap`,
                                             `applyFiltersAndEncode`, `encodeAlpha`     (exact)
  quality → level count                      `alphaLevels`
  quantizeLevels (float64 k-means)           `quantizeLevels num …`   (numeric model `num : Num`, below)
  imageHasAlpha / extractAlphaWith           `hasAlpha`, `extractAlpha`   (on the 8-bit alpha samples)
  decodeLossy's `len(alphaData) > 0` test    `decodedHasAlpha`

  Planes are `Array UInt8` with explicit `w h`; every function below is used with
  `a.size = w*h` (EncodeAlpha copies exactly `width*height` bytes into `quantAlpha`,
  DecodeAlpha allocates `raw` with `planeSize` bytes).

  The shape of the three prediction filters is one predictor `pred f w g i` (`g` = the plane the
  neighbours are read from, `i` = row-major index):
    first pixel            : 0                         (`out[0] = in[0]`)
    rest of the first row  : left                      (all three filters)
    first column, row > 0  : above                     (H: `dst[0] = src[0]-prev[0]`; G the same; V: above anyway)
    elsewhere              : H left | V above | G clip(left + above - aboveLeft, 0..255)
  The forward filters read the neighbours from the *input* plane, the inverse filters from the
  *same buffer* they are writing (already restored values: indices `i-1`, `i-w`, `i-w-1` are all
  `< i`).  In `alphaUnfilterGradient` the running variables `left/top/topLeft` hold exactly
  `curr[x-1]`, `prev[x]`, `prev[x-1]`; for `x = 0` all three start as `prev[0]`, so the predictor
  is `prev[0]` (the clamp is a no-op).
-/
namespace Webp.Impl.Alpha
open Webp.Go

abbrev Plane := Array UInt8

/-! ## Filters -/

inductive Filter where
  | none | horizontal | vertical | gradient
  deriving Repr, DecidableEq, Inhabited

def Filter.code : Filter → Nat
  | .none => 0 | .horizontal => 1 | .vertical => 2 | .gradient => 3

/-- the 2-bit filter field of the header; `n % 4` because the field is `(header >> 2) & 3` -/
def Filter.ofField (n : Nat) : Filter :=
  match n % 4 with
  | 0 => .none | 1 => .horizontal | 2 => .vertical | _ => .gradient

def Filter.all : List Filter := [.none, .horizontal, .vertical, .gradient]

/-- `pred := int(a)+int(b)-int(c); if pred < 0 {0} else if pred > 255 {255}; byte(pred)` -/
def gradPred (a b c : UInt8) : UInt8 :=
  let p : Int := (a.toNat : Int) + (b.toNat : Int) - (c.toNat : Int)
  if p < 0 then 0 else if p > 255 then 255 else UInt8.ofNat p.toNat

/-- predictor of pixel `i` from the plane `g` (row width `w`) -/
@[inline] def pred (f : Filter) (w : Nat) (g : Plane) (i : Nat) : UInt8 :=
  match f with
  | .none => 0
  | .horizontal =>
    if i = 0 then 0 else if i % w = 0 then g.getD (i - w) 0 else g.getD (i - 1) 0
  | .vertical =>
    if i < w then (if i = 0 then 0 else g.getD (i - 1) 0) else g.getD (i - w) 0
  | .gradient =>
    if i < w then (if i = 0 then 0 else g.getD (i - 1) 0)
    else if i % w = 0 then g.getD (i - w) 0
    else gradPred (g.getD (i - 1) 0) (g.getD (i - w) 0) (g.getD (i - w - 1) 0)

/-- forward filter.  `.none`: encodeAlphaInternal uses `data` itself (`alphaSrc = data`). -/
def filter (f : Filter) (w h : Nat) (a : Plane) : Plane :=
  match f with
  | .none => a
  | f => Array.ofFn (n := w * h) fun i => a.getD i.val 0 - pred f w a i.val

/-- one statement `data[i] += pred` of the inverse filters -/
@[inline] def unfilterStep (f : Filter) (w : Nat) (d : Plane) (i : Nat) : Plane :=
  let p := pred f w d i
  d.setIfInBounds i (d.getD i 0 + p)

/-- inverse filter, in place, pixel index ascending.  `.none`: DecodeAlpha does nothing. -/
def unfilter (f : Filter) (w h : Nat) (d : Plane) : Plane :=
  match f with
  | .none => d
  | f => (List.range (w * h)).foldl (unfilterStep f w) d

/-! ## Header byte -/

/-- `header := byte(method) | byte(filter<<2); if reduceLevels { header |= byte(1 << 4) }` -/
def packHeader (method filter pre : Nat) : UInt8 :=
  UInt8.ofNat method ||| UInt8.ofNat (filter <<< 2) ||| UInt8.ofNat (pre <<< 4)

structure Header where
  method : Nat
  filter : Nat
  pre : Nat
  rsrv : Nat
  deriving Repr, DecidableEq, Inhabited

def unpackHeader (b : UInt8) : Header :=
  { method := (b &&& 3).toNat, filter := ((b >>> 2) &&& 3).toNat,
    pre := ((b >>> 4) &&& 3).toNat, rsrv := (b >>> 6).toNat }

/-- What DecodeAlpha rejects: **only** `compression > 1`.  The filter field has two bits and all
    four values are filters; the pre-processing field is read and dropped (`_ = …`); the two
    reserved bits are never looked at.  (libwebp's `ALPHInit` also rejects `pre_processing > 1`
    and `rsrv > 1`; the container specification says readers MUST ignore the reserved field.) -/
def headerAccepted (b : UInt8) : Bool := (unpackHeader b).method ≤ 1

/-! ## Codec oracle and DecodeAlpha -/

inductive Err where
  | empty | dims | tooLarge | truncated | vp8l | small | oob | method
  | encDims | encShort | encMethod | encVP8L | encTrunc
  deriving Repr, DecidableEq, Inhabited

def Err.toString : Err → String
  | .empty => "empty" | .dims => "dims" | .tooLarge => "toolarge" | .truncated => "truncated"
  | .vp8l => "vp8l" | .small => "small" | .oob => "oob" | .method => "method"
  | .encDims => "dims" | .encShort => "short" | .encMethod => "method" | .encVP8L => "vp8l"
  | .encTrunc => "trunc"

/-- image returned by `lossless.DecodeVP8L`, as packed ARGB (`px.size = w*h` for every image the
    decoder builds; DecodeAlpha nevertheless re-checks every offset) -/
structure Img where
  w : Nat
  h : Nat
  px : Array UInt32
  deriving Repr, DecidableEq, Inhabited

/-- The VP8L codec, as far as alpha.go is concerned — an arbitrary parameter of the model.
    `enc w h argb quality method` = `lossless.Encode(argb, w, h, {quality, method, 100})`
    (`none` = error); `dec` = `lossless.DecodeVP8L` (`none` = error). -/
structure Codec where
  enc : Nat → Nat → Array UInt32 → Nat → Nat → Option Bytes
  dec : Bytes → Option Img

/-- `stream[0] = 0x2f; PutUint32(stream[1:5], uint32(w-1) | uint32(h-1)<<14); copy(stream[5:], payload)`
    (`putLE32` reduces mod 2^32 like the `uint32` conversions do) -/
def alphaVP8LStream (payload : Bytes) (w h : Nat) : Bytes :=
  (0x2f : UInt8) :: (putLE32 ((w - 1) ||| ((h - 1) <<< 14)) ++ payload)

/-- green channel → alpha (`0xff000000 | a<<8`) -/
def embedGreen (a : UInt8) : UInt32 := (0xff000000 : UInt32) ||| (a.toUInt32 <<< 8)

/-- green of one decoded pixel (`pix[off+1]` of the NRGBA image) -/
def greenOf (p : UInt32) : UInt8 := (p >>> 8).toUInt8

/-- the extraction loop of DecodeAlpha: `raw[y*w+x] = pix[PixOffset(x,y)+1]`; every failing
    bounds check gives the same error, so only the largest offset matters -/
def extractGreen (img : Img) (w h : Nat) : Res Err Plane :=
  if (h - 1) * img.w + w > img.px.size then .err .oob
  else .ok (Array.ofFn (n := w * h) fun i => greenOf (img.px.getD ((i.val / w) * img.w + i.val % w) 0))

/-- `DecodeAlpha(data, width, height)`.  Domain of the model: `width, height < 2^32`, so that the
    `uint64` product is exact (every caller passes the 14-bit VP8 frame dimensions). -/
def decodeAlpha (c : Codec) (data : Bytes) (width height : Int) : Res Err Plane :=
  match data with
  | [] => .err .empty
  | header :: payload =>
    if width ≤ 0 ∨ height ≤ 0 then .err .dims
    else
      let w := width.toNat
      let h := height.toNat
      let area := w * h
      if area > 2 ^ 30 then .err .tooLarge
      else
        let compression := (header &&& 3).toNat
        let filtering := ((header >>> 2) &&& 3).toNat
        let raw : Res Err Plane :=
          if compression = 0 then
            if payload.length < area then .err .truncated else .ok (payload.take area).toArray
          else if compression = 1 then
            match c.dec (alphaVP8LStream payload w h) with
            | none => .err .vp8l
            | some img =>
              if img.w < w ∨ img.h < h then .err .small else extractGreen img w h
          else .err .method
        match raw with
        | .ok raw => .ok (unfilter (Filter.ofField filtering) w h raw)
        | .err e => .err e
        | .panic => .panic
        | .hang => .hang

/-! ## Level quantisation -/

/-- "Quality:[0, 70] -> Levels:[2, 16];  Quality:]70, 100] -> Levels:]16, 256]" -/
def alphaLevels (q : Nat) : Nat := if q ≤ 70 then 2 + q / 5 else 16 + (q - 70) * 8

/-- Numeric model of the `float64` arithmetic in `quantizeLevels`: `rnd` is applied to the exact
    rational result of every floating-point operation; the two constants are what the numeric
    model takes `1e-4` and `1e38` to be.
    * `Num.exact` — no rounding (ℚ arithmetic).  The theorems of C07 are proved for every `num`
      whose rounding is monotone and fixes the half-integers up to 1024 (`Proofs.AlphaQuant.RndOK`);
      `Num.exact` and `Num.f64` both qualify.
    * `Num.f64` — IEEE-754 binary64 round-to-nearest-even, one rounding per Go operation, no
      fused multiply-add: the arithmetic of the amd64 Go compiler (arm64/ppc64/s390x may fuse
      `err += f*e*e`, which can change only the early-exit test of the k-means loop).
    Integer-valued operands (`float64(s)`, `float64(freq[s])`, `qSum`, `qCount`, products of two
    of them) are exact in binary64 as long as they stay below 2^53 (planes below 2^45 pixels);
    they are kept as naturals. -/
structure Num where
  rnd : Rat → Rat
  errThreshold : Rat
  bigErr : Rat

def Num.exact : Num := { rnd := id, errThreshold := 1 / 10000, bigErr := 10 ^ 38 }

def pow2 (e : Int) : Rat :=
  if 0 ≤ e then ((2 ^ e.toNat : Nat) : Rat) else 1 / ((2 ^ (-e).toNat : Nat) : Rat)

/-- round half to even -/
def roundHalfEven (m : Rat) : Int :=
  let f := m.floor
  let r := m - (f : Rat)
  if r < 1 / 2 then f else if 1 / 2 < r then f + 1 else if f % 2 = 0 then f else f + 1

/-- `⌊log₂ q⌋` for `q > 0` -/
def ilog2 (q : Rat) : Int :=
  let e0 : Int := (Nat.log2 q.num.natAbs : Int) - (Nat.log2 q.den : Int)
  if q < pow2 e0 then e0 - 1 else e0

/-- nearest binary64 (53-bit significand, ties to even); exponent range not modelled (all
    magnitudes in `quantizeLevels` are 0 or within [2^-200, 2^200]) -/
def rndF64 (q : Rat) : Rat :=
  if q = 0 then 0
  else
    let a := if q < 0 then -q else q
    let u := pow2 (ilog2 a - 52)
    let r := ((roundHalfEven (a / u) : Int) : Rat) * u
    if q < 0 then -r else r

/-- `1e-4` and `1e38` as binary64 values -/
def Num.f64 : Num :=
  { rnd := rndF64
    errThreshold := (7378697629483821 : Rat) / 73786976294838206464
    bigErr := 99999999999999997748809823456034029568 }

def minOf (l : List UInt8) : Nat := l.foldl (fun m v => if v.toNat < m then v.toNat else m) 255
def maxOf (l : List UInt8) : Nat := l.foldl (fun m v => if v.toNat > m then v.toNat else m) 0

/-- `freq[s]` for `s = 0..255` -/
def freqTable (l : List UInt8) : List Nat := (List.range 256).map fun s => l.count (UInt8.ofNat s)

/-- `numLevelsIn` -/
def numLevelsIn (fr : List Nat) : Nat := (fr.filter (0 < ·)).length

/-- `invQLevel[i] = float64(minS) + float64(maxS-minS)*float64(i)/float64(numLevels-1)` -/
def initInv (num : Num) (minS maxS n : Nat) : List Rat :=
  (List.range n).map fun i =>
    num.rnd ((minS : Rat) + num.rnd ((((maxS - minS) * i : Nat) : Rat) / ((n - 1 : Nat) : Rat)))

/-- `for slot < numLevels-1 && 2*float64(s) > invQLevel[slot]+invQLevel[slot+1] { slot++ }`
    (`fuel ≥ numLevels` always suffices: `slot` only grows and stops at `numLevels-1`) -/
def advance (num : Num) (inv : List Rat) (n s : Nat) : Nat → Nat → Nat
  | 0, slot => slot
  | fuel + 1, slot =>
    if slot + 1 < n ∧ num.rnd (inv.getD slot 0 + inv.getD (slot + 1) 0) < ((2 * s : Nat) : Rat)
    then advance num inv n s fuel (slot + 1) else slot

/-- `qLevel[s]` for the symbols `ss` (ascending), `slot` carried from symbol to symbol -/
def slotsFrom (num : Num) (inv : List Rat) (n : Nat) : List Nat → Nat → List Nat
  | [], _ => []
  | s :: ss, slot =>
    let sl := advance num inv n s n slot
    sl :: slotsFrom num inv n ss sl

/-- `qSum[j]` / `qCount[j]` after the assignment loop, written as sums over the symbols assigned
    to slot `j` (`freq[s] = 0` contributes 0, as the `if freq[s] > 0` guard does) -/
def qSum (fr : List Nat) (syms lv : List Nat) (j : Nat) : Nat :=
  ((syms.zip lv).map fun p => if p.2 = j then p.1 * fr.getD p.1 0 else 0).sum

def qCount (fr : List Nat) (syms lv : List Nat) (j : Nat) : Nat :=
  ((syms.zip lv).map fun p => if p.2 = j then fr.getD p.1 0 else 0).sum

/-- the centroid update: `for slot = 1; slot < numLevels-1; slot++ { if qCount[slot] > 0 {…} }` -/
def update (num : Num) (fr syms lv : List Nat) (n : Nat) (inv : List Rat) : List Rat :=
  (List.range n).map fun j =>
    if 0 < j ∧ j + 1 < n ∧ 0 < qCount fr syms lv j
    then num.rnd (((qSum fr syms lv j : Nat) : Rat) / ((qCount fr syms lv j : Nat) : Rat))
    else inv.getD j 0

/-- `err += float64(freq[s]) * e * e` with `e := float64(s) - invQLevel[qLevel[s]]` -/
def kerr (num : Num) (fr syms lv : List Nat) (inv : List Rat) : Rat :=
  (syms.zip lv).foldl (fun err p =>
    let e := num.rnd ((p.1 : Rat) - inv.getD p.2 0)
    num.rnd (err + num.rnd (num.rnd ((fr.getD p.1 0 : Rat) * e) * e))) 0

/-- the k-means loop (`iters` = iterations left; Go: `maxIter = 6`); returns the final
    `invQLevel` and `qLevel` (the latter for the symbols `syms`) -/
def kmeans (num : Num) (fr syms : List Nat) (n : Nat) (thr : Rat) :
    Nat → List Rat → Rat → List Nat → List Rat × List Nat
  | 0, inv, _, lv => (inv, lv)
  | iters + 1, inv, lastErr, _ =>
    let lv := slotsFrom num inv n syms 0
    let inv' := update num fr syms lv n inv
    let err := kerr num fr syms lv inv'
    if num.rnd (lastErr - err) < thr then (inv', lv)
    else kmeans num fr syms n thr iters inv' err lv

/-- `byte(x)` for a non-negative float below 256 -/
def toByte (x : Rat) : UInt8 := UInt8.ofNat x.floor.toNat

/-- `remap[s] = byte(invQLevel[qLevel[s]] + 0.5)` -/
def remapOf (num : Num) (inv : List Rat) (lv : List Nat) (minS : Nat) (v : UInt8) : UInt8 :=
  toByte (num.rnd (inv.getD (lv.getD (v.toNat - minS) 0) 0 + 1 / 2))

/-- `quantizeLevels(data, width, height, numLevels)` (in place in Go; `a.size = w*h`) -/
def quantizeLevels (num : Num) (a : Plane) (w h n : Nat) : Plane :=
  if n < 2 ∨ n > 256 then a
  else if w * h = 0 then a
  else
    let l := a.toList
    let fr := freqTable l
    if numLevelsIn fr ≤ n then a
    else
      let minS := minOf l
      let maxS := maxOf l
      let syms := List.range' minS (maxS + 1 - minS)
      let thr := num.rnd (num.errThreshold * ((w * h : Nat) : Rat))
      let r := kmeans num fr syms n thr 6 (initInv num minS maxS n) num.bigErr []
      a.map (remapOf num r.1 r.2 minS)

/-! ## Encoder -/

/-- `getNumColors` -/
def numColors (a : Plane) : Nat := numLevelsIn (freqTable a.toList)

def evens (lo hi : Nat) : List Nat := (List.range hi).filter fun k => lo ≤ k ∧ k % 2 = 0

/-- `sdiff := func(a, b int) int { d := |a-b|; return d >> 4 }` -/
def sdiff (a b : Nat) : Nat := (if a ≥ b then a - b else b - a) >>> 4

/-- `estimateBestFilter`: the four `bins[f][0..15]` rows as bit masks -/
def estimateBestFilter (a : Plane) (w h : Nat) : Nat :=
  let g (k : Nat) : Nat := (a.getD k 0).toNat
  let bins : Nat × Nat × Nat × Nat :=
    (evens 2 (h - 1)).foldl (fun bins j =>
      let off := j * w
      ((evens 2 (w - 1)).foldl (fun (st : (Nat × Nat × Nat × Nat) × Nat) i =>
        let (b, mean) := st
        let cur := g (off + i)
        let d0 := sdiff cur mean
        let d1 := sdiff cur (g (off + i - 1))
        let d2 := sdiff cur (g (off + i - w))
        let gp := (gradPred (a.getD (off + i - 1) 0) (a.getD (off + i - w) 0) (a.getD (off + i - w - 1) 0)).toNat
        let d3 := sdiff cur gp
        ((b.1 ||| (1 <<< d0), b.2.1 ||| (1 <<< d1), b.2.2.1 ||| (1 <<< d2), b.2.2.2 ||| (1 <<< d3)),
         (3 * mean + cur + 2) >>> 2)) (bins, g off)).1) (0, 0, 0, 0)
  let score (m : Nat) : Nat := ((List.range 16).map fun i => if m.testBit i then i else 0).sum
  let scores := [score bins.1, score bins.2.1, score bins.2.2.1, score bins.2.2.2]
  -- first minimum
  ((List.range 4).foldl (fun (best : Nat × Nat) f =>
      if scores.getD f 0 < best.2 then (f, scores.getD f 0) else best) (0, 2147483647)).1

/-- `getFilterMap(alpha, width, height, filter, effortLevel)`; `filter` is the *mode*
    (0 none, 4 fast, 5 best, anything else: try all) -/
def getFilterMap (a : Plane) (w h : Nat) (filter : Int) (effort : Nat) : Nat :=
  if filter = 4 then
    let nc := numColors a
    let f := if nc ≤ 16 then 0 else estimateBestFilter a w h
    let bm := 1 <<< f
    if effort > 3 ∨ nc > 192 then bm ||| 1 else bm
  else if filter = 0 then 1
  else 15

/-- `encodeAlphaInternal` (method already validated ∈ {0,1}): `(chunk payload, score)` -/
def encodeAlphaInternal (c : Codec) (data : Plane) (w h : Nat) (method : Nat) (f : Filter)
    (reduce : Bool) (effort : Nat) : Res Err Bytes :=
  let src := filter f w h data
  let pre := if reduce then 1 else 0
  if method = 1 then
    let argb := src.map embedGreen
    let q := if !reduce ∧ effort = 6 then 100 else 8 * effort
    let q := if q > 100 then 100 else q
    match c.enc w h argb q effort with
    | none => .err .encVP8L
    | some s =>
      if s.length < 5 then .err .encTrunc
      else
        let payload := s.drop 5
        if payload.length > w * h then .ok (packHeader 0 f.code pre :: src.toList)
        else .ok (packHeader 1 f.code pre :: payload)
  else .ok (packHeader 0 f.code pre :: src.toList)

/-- one round of the trial loop of `applyFiltersAndEncode` (`best.data == nil` ⇔ `none`) -/
def trialStep (c : Codec) (a : Plane) (w h : Nat) (method : Nat) (reduce : Bool) (effort : Nat)
    (tryMap : Nat) (acc : Res Err (Option Bytes)) (f : Filter) : Res Err (Option Bytes) :=
  match acc with
  | .ok best =>
    if tryMap.testBit f.code then
      match encodeAlphaInternal c a w h method f reduce effort with
      | .ok res =>
        (match best with
         | none => .ok (some res)
         | some b => if res.length < b.length then .ok (some res) else .ok (some b))
      | .err e => .err e
      | .panic => .panic
      | .hang => .hang
    else .ok best
  | other => other

/-- `applyFiltersAndEncode`: the trials of the filters in `tryMap`, first strictly smallest wins;
    an error of any trial is returned at once -/
def applyFiltersAndEncode (c : Codec) (a : Plane) (w h : Nat) (method : Nat) (filter : Int)
    (reduce : Bool) (effort : Nat) : Res Err Bytes :=
  match Filter.all.foldl
      (trialStep c a w h method reduce effort (getFilterMap a w h filter effort)) (.ok none) with
  | .ok (some b) => .ok b
  | .ok none => encodeAlphaInternal c a w h method .none reduce effort
  | .err e => .err e
  | .panic => .panic
  | .hang => .hang

/-- lossy.AlphaEncoderConfig -/
structure EncCfg where
  quality : Int
  method : Int
  filter : Int
  effort : Int
  deriving Repr, DecidableEq, Inhabited

def clampInt (v lo hi : Int) : Int := if v < lo then lo else if v > hi then hi else v

/-- `EncodeAlpha(alpha, width, height, cfg)` -/
def encodeAlpha (num : Num) (c : Codec) (alpha : Plane) (width height : Int) (cfg : EncCfg) :
    Res Err Bytes :=
  if width ≤ 0 ∨ height ≤ 0 then .err .encDims
  else
    let w := width.toNat
    let h := height.toNat
    if alpha.size < w * h then .err .encShort
    else
      let quality := (clampInt cfg.quality 0 100).toNat
      if cfg.method < 0 ∨ cfg.method > 1 then .err .encMethod
      else
        let method := cfg.method.toNat
        let effort := (clampInt cfg.effort 0 6).toNat
        let filter := if method = 0 then 0 else cfg.filter
        let qa := alpha.extract 0 (w * h)
        let reduce := quality < 100
        let qa := if reduce then quantizeLevels num qa w h (alphaLevels quality) else qa
        applyFiltersAndEncode c qa w h method filter reduce effort

/-! ## Glue (encode.go / webp.go), on the 8-bit alpha samples of the source pixels

  `al` = the alpha samples of the image in row-major order.  For `*image.NRGBA`, `*image.RGBA`
  and every image whose `At` returns 8-bit colours the three code paths of `imageHasAlpha` /
  `extractAlphaWith` read exactly these bytes (`a != 0xFFFF` on `A*0x101` is `A != 255`). -/

/-- `imageHasAlpha` -/
def hasAlpha (al : Plane) : Bool := al.any (· != 255)

/-- `extractAlphaWith(img, imageHasAlpha(img))`; `none` = Go `nil` -/
def extractAlpha (al : Plane) : Option Plane := if hasAlpha al then some al else none

/-- alpha part of `encodeLossyWithAlpha`: `none` = no `alphaData` (simple VP8 file) -/
def alphaChunk (num : Num) (c : Codec) (al : Plane) (w h : Int) (cfg : EncCfg) :
    Res Err (Option Bytes) :=
  match extractAlpha al with
  | none => .ok none
  | some a =>
    match encodeAlpha num c a w h cfg with
    | .ok b => .ok (some b)
    | .err e => .err e
    | .panic => .panic
    | .hang => .hang

/-- `writeRIFF`: an ALPH chunk is written iff `len(alphaData) > 0` -/
def writesALPH (alphaData : Option Bytes) : Bool := 0 < (alphaData.getD []).length

/-- `decodeLossy`: `len(alphaData) > 0` ⇒ DecodeAlpha + `*image.NRGBA`, otherwise `*image.YCbCr` -/
def decodedHasAlpha (alphaData : Bytes) : Bool := 0 < alphaData.length

end Webp.Impl.Alpha
