import Webp.Impl.VP8Kernels
/-
  Implementation model of the VP8 decoder's per-macroblock loop filter (/repo/internal/lossy/decode_frame.go):

    doFilter                      which edges of a macroblock are filtered, in which order, with which thresholds
    simpleHFilter16At / …16iAt    simple filter, vertical edges (samples across the edge are 1 apart)
    dsp.SimpleVFilter16 / …16i    simple filter, horizontal edges (samples `bps` apart)      [portable Go version]
    filterLoop26At / filterLoop26VAt / filterLoop26HAt     normal filter on macroblock edges
    filterLoop24HAt / filterLoop24VAt, hFilter16iAt, vFilter16iAt, hFilter8iAt, vFilter8iAt   normal filter on inner edges
    needsFilter2At, isHEV, doSimpleFilter2/4/6             = `Webp.Impl.VP8Kernels.needsFilter2`, `hev`, `doFilter2/4/6`
                                                              on the eight samples across the edge (clip tables)

  statement by statement, on byte buffers with explicit offsets.  Core Lean only.  One regrouping: Go interleaves
  the three planes (left edges of Y, U, V, then the inner edges, …); `cacheY`, `cacheU`, `cacheV` are disjoint
  buffers, so `doFilter` here runs the four groups plane by plane (`filterPlane`), in the same order per plane.

  Domain in which the model is exact: every index the Go code forms is inside the buffer (`off ≥ 4·step`, and
  the samples after the edge exist); Go would panic otherwise, the model reads 0 / skips the store.  `doFilter` is
  only called with such offsets: the left / top macroblock edges are filtered for `mbX > 0` / `mbY > 0` only.
  A clip-table index out of range (Go: panic) leaves the buffer unchanged here; `Webp.Props.C04Kernels` proves it
  cannot happen on byte samples.
-/
namespace Webp.Impl.VP8DecEdges
open Webp.Impl.VP8Kernels

/-- `int(p[i])` -/
def rd8 (p : ByteArray) (i : Nat) : Int := ((p.get! i).toNat : Int)
/-- `p[i] = byte(v)` for `v` in 0..255 (what `clamp255` returns) -/
def wr8 (p : ByteArray) (i : Nat) (v : Int) : ByteArray := p.set! i v.toNat.toUInt8

/-- the eight samples across the edge at `off`, `step` apart -/
def readSeg (p : ByteArray) (off step : Nat) : Seg :=
  { p3 := rd8 p (off - 4 * step), p2 := rd8 p (off - 3 * step), p1 := rd8 p (off - 2 * step), p0 := rd8 p (off - step)
    q0 := rd8 p off, q1 := rd8 p (off + step), q2 := rd8 p (off + 2 * step), q3 := rd8 p (off + 3 * step) }

/-- `doSimpleFilter2(p, off, step)` -/
def store2 (p : ByteArray) (off step : Nat) : ByteArray :=
  match doFilter2 (readSeg p off step) with
  | some g => wr8 (wr8 p (off - step) g.p0) off g.q0
  | none => p

/-- `doSimpleFilter4(p, off, step)` -/
def store4 (p : ByteArray) (off step : Nat) : ByteArray :=
  match doFilter4 (readSeg p off step) with
  | some g => wr8 (wr8 (wr8 (wr8 p (off - 2 * step) g.p1) (off - step) g.p0) off g.q0) (off + step) g.q1
  | none => p

/-- `doSimpleFilter6(p, off, step)` -/
def store6 (p : ByteArray) (off step : Nat) : ByteArray :=
  match doFilter6 (readSeg p off step) with
  | some g =>
    wr8 (wr8 (wr8 (wr8 (wr8 (wr8 p (off - 3 * step) g.p2) (off - 2 * step) g.p1) (off - step) g.p0) off g.q0)
      (off + step) g.q1) (off + 2 * step) g.q2
  | none => p

/-- one position of the simple filter (`simpleHFilter16At` body / `simpleVFilter16Go` body) -/
def simpleStep (thresh : Nat) (p : ByteArray) (off step : Nat) : ByteArray :=
  let s := readSeg p off step
  match needsFilter s.p1 s.p0 s.q0 s.q1 (2 * (thresh : Int) + 1) with
  | some true => store2 p off step
  | _ => p

/-- one position of `filterLoop26…At` -/
def mbStep (thresh ithresh hevT : Nat) (p : ByteArray) (off step : Nat) : ByteArray :=
  let s := readSeg p off step
  match needsFilter2 s.p3 s.p2 s.p1 s.p0 s.q0 s.q1 s.q2 s.q3 (2 * (thresh : Int) + 1) ithresh with
  | some true =>
    (match hev s.p1 s.p0 s.q0 s.q1 hevT with
     | some true => store2 p off step
     | some false => store6 p off step
     | none => p)
  | _ => p

/-- one position of `filterLoop24…At` -/
def subStep (thresh ithresh hevT : Nat) (p : ByteArray) (off step : Nat) : ByteArray :=
  let s := readSeg p off step
  match needsFilter2 s.p3 s.p2 s.p1 s.p0 s.q0 s.q1 s.q2 s.q3 (2 * (thresh : Int) + 1) ithresh with
  | some true =>
    (match hev s.p1 s.p0 s.q0 s.q1 hevT with
     | some true => store2 p off step
     | some false => store4 p off step
     | none => p)
  | _ => p

/-- `for k := 0; k < n; k++ { f(p, base + k*along, across) }` -/
def edgeLoop (f : ByteArray → Nat → Nat → ByteArray) (p : ByteArray) (base along across n : Nat) : ByteArray :=
  (List.range n).foldl (fun p k => f p (base + k * along) across) p

/-- `for k := 1; k <= m; k++ { g(p, base + k*gap) }` -/
def innerLoop (g : ByteArray → Nat → ByteArray) (p : ByteArray) (base gap m : Nat) : ByteArray :=
  (List.range m).foldl (fun p k => g p (base + (k + 1) * gap)) p

/-- `FInfo` as `doFilter` reads it -/
structure FParams where
  limit : Nat
  ilevel : Nat
  hevT : Nat
  inner : Bool
  deriving Repr, DecidableEq, Inhabited

/-- one plane of `doFilter`: block size `n` (16 luma, 8 chroma), stride `bps`, origin `off`.
    `simple`: the simple filter (luma only) -/
def filterPlane (simple : Bool) (f : FParams) (mbX mbY n bps off : Nat) (p : ByteArray) : ByteArray :=
  let mbf := if simple then simpleStep (f.limit + 4) else mbStep (f.limit + 4) f.ilevel f.hevT
  let inf := if simple then simpleStep f.limit else subStep f.limit f.ilevel f.hevT
  -- left macroblock edge: positions down the column, samples 1 apart
  let p := if mbX > 0 then edgeLoop mbf p off bps 1 n else p
  -- inner vertical edges at x = 4, 8, 12 (chroma: 4)
  let p := if f.inner then innerLoop (fun p b => edgeLoop inf p b bps 1 n) p off 4 (n / 4 - 1) else p
  -- top macroblock edge: positions along the row, samples `bps` apart
  let p := if mbY > 0 then edgeLoop mbf p off 1 bps n else p
  -- inner horizontal edges at y = 4, 8, 12
  if f.inner then innerLoop (fun p b => edgeLoop inf p b 1 bps n) p off (4 * bps) (n / 4 - 1) else p

/-- **`doFilter(mbX, mbY)`** on the three cache planes (`filterType` 1 = simple: luma only; 2 = normal) -/
def doFilter (filterType : Nat) (f : FParams) (mbX mbY yBPS uvBPS : Nat) (y u v : ByteArray) :
    ByteArray × ByteArray × ByteArray :=
  if f.limit = 0 then (y, u, v)
  else if filterType = 1 then (filterPlane true f mbX mbY 16 yBPS (mbY * 16 * yBPS + mbX * 16) y, u, v)
  else
    (filterPlane false f mbX mbY 16 yBPS (mbY * 16 * yBPS + mbX * 16) y,
     filterPlane false f mbX mbY 8 uvBPS (mbY * 8 * uvBPS + mbX * 8) u,
     filterPlane false f mbX mbY 8 uvBPS (mbY * 8 * uvBPS + mbX * 8) v)

end Webp.Impl.VP8DecEdges
