import Webp.Impl.VP8LEntropy
/-
  Implementation model of `encodeStream` (/repo/internal/lossless/encode.go:501-679) INCLUDING the
  meta prefix image ("histogram image", several prefix-code groups) — property C01.

  `Webp.Impl.VP8LEntropy.encodeStream` is the special case of one histogram.  Here the plan carries
  what `GetHistoImageSymbols` + `optimizeSampling` + `CreateHuffmanTree` decided:

      numHistos := histoSet.Size()                                      encode.go:593   → `groups.length`
      huffCodes[i][0..4] = CreateHuffmanTreeScratch(h.Literal | Red | Blue | Alpha | Distance, 15)
                                                                        encode.go:600-607 → `groups[i].lens5`
      if numHistos > 1 {                                                encode.go:619
          bw.WriteBits(1, 1)                                            encode.go:644   use_meta_huffman
          bw.WriteBits(uint32(optimizedBits-MinHuffmanBits), NumHuffmanBits)       :645   (bits − 2, 3)
          enc.encodeSubImage(bw, histoImage[:newTxSize*newTySize], newTxSize, newTySize)  :650
          … symbols[i] = uint16(histoImage[i] >> 8); histoBits = optimizedBits            :653-660
      } else { bw.WriteBits(0, 1) }                                     encode.go:661-663
      for i := 0; i < numHistos; i++ { for j := 0; j < 5; j++ {         encode.go:666-671
          StoreHuffmanCodeScratch(bw, huffCodes[i][j], …); clearHuffmanTreeIfOnlyOneSymbol(huffCodes[i][j]) } }
      enc.storeImageData(bw, refs, symbols, huffCodes, currentWidth, histoBits, cacheBits)   :674

  and `storeImageData` (encode.go:952-1046) selects the histogram AT THE START POSITION of a token:

      histoIdx := 0
      if len(huffCodes) > 1 && histoBits > 0 {
          tx := x >> histoBits; ty := y >> histoBits; txSize := VP8LSubSampleSize(width, histoBits)
          symIdx := ty*txSize + tx
          if symIdx < len(symbols) { histoIdx = int(symbols[symIdx]) } }
      if histoIdx >= len(huffCodes) { histoIdx = 0 }
      codes := huffCodes[histoIdx]

  which is `Webp.Impl.VP8LEntropy.storeImageDataLoop` (already written for several histograms).
  The decoder side (decode.go `readHuffmanCodes`: `numHTreeGroupsMax = max(huffmanImage)+1` groups are
  read in index order; `getMetaIndex`: `image[xsize*(y>>bits) + (x>>bits)]`) is the specification's
  `readMetaPrefix` / `groupIndexAt`.

  Core Lean only.
-/
namespace Webp.Impl.VP8LEntropy
open Webp.Spec.VP8L (subSampleSize)

/-- the five code-length vectors `CreateHuffmanTree` returned for one histogram, and the five
    code-length-code vectors it returned inside `storeFullHuffmanCode` -/
structure GroupPlan where
  lens5 : List (Array Nat)
  cl5 : List (Array Nat)
  deriving Repr, Inhabited

/-- the transformed ARGB image with its histograms -/
structure MainPlan where
  width : Nat
  height : Nat
  /-- backward references with pixel distances (before `BackwardReferences2DLocality`) -/
  refs : List PixOrCopy
  /-- one entry per histogram of `histoSet`; `numHistos = groups.length` -/
  groups : List GroupPlan
  /-- `histoBits` as `storeImageData` receives it (= the written `optimizedBits` when `numHistos > 1`) -/
  histoBits : Nat := 0
  /-- `symbols` as `storeImageData` receives it -/
  symbols : Array Nat := #[0]
  /-- the (possibly subsampled) histogram image `encodeSubImage` writes when `numHistos > 1`;
      unused otherwise -/
  entropy : ImagePlan := { width := 0, height := 0, refs := [], lens5 := [], cl5 := [] }
  deriving Repr, Inhabited

/-- `for j := 0; j < 5; j++ { StoreHuffmanCodeScratch(bw, huffCodes[i][j]) }` -/
def storeGroup (g : GroupPlan) : List Call :=
  (g.lens5.zip g.cl5).flatMap (fun lc => storeHuffmanCode lc.1 lc.2)

/-- `huffCodes[i]` after `clearHuffmanTreeIfOnlyOneSymbol` -/
def groupTrees (g : GroupPlan) : TreeGroup := (g.lens5.map effTree).toArray

/-- meta bit (+ bits field + histogram image), all groups' codes in index order, pixel data -/
def encodeMainBody (p : MainPlan) : List Call :=
  (if p.groups.length > 1 then (1, 1) :: (p.histoBits - 2, 3) :: encodeSubImage p.entropy else [(0, 1)]) ++
  p.groups.flatMap storeGroup ++
  storeImageData (locality2D p.width p.refs) p.symbols (p.groups.map groupTrees).toArray p.width p.histoBits

structure StreamPlanMeta where
  width : Nat
  height : Nat
  hasAlpha : Bool
  transforms : List XfPlan
  cacheBits : Nat
  main : MainPlan
  deriving Repr, Inhabited

/-- `encodeStream`: header, transforms, `0`, colour-cache info, meta prefix, codes, pixel data -/
def encodeStreamMeta (p : StreamPlanMeta) : List Call :=
  [(0x2f, 8), (p.width - 1, 14), (p.height - 1, 14), (if p.hasAlpha then 1 else 0, 1), (0, 3)] ++
  p.transforms.flatMap writeTransform ++ [(0, 1)] ++
  storeColorCacheInfo p.cacheBits ++ encodeMainBody p.main

/-- the bytes `bw.Finish()` returns -/
def streamBytesMeta (p : StreamPlanMeta) : ByteArray := ByteArray.mk (runCalls (encodeStreamMeta p)).finish

/-- a single-histogram plan as a general plan -/
def ImagePlan.toMain (p : ImagePlan) : MainPlan :=
  { width := p.width, height := p.height, refs := p.refs, groups := [{ lens5 := p.lens5, cl5 := p.cl5 }] }

def StreamPlan.toMeta (p : StreamPlan) : StreamPlanMeta :=
  { width := p.width, height := p.height, hasAlpha := p.hasAlpha, transforms := p.transforms,
    cacheBits := p.cacheBits, main := p.main.toMain }

/-- the image part of a main plan (pixel semantics only) -/
def MainPlan.asImage (p : MainPlan) : ImagePlan :=
  { width := p.width, height := p.height, refs := p.refs, lens5 := [], cl5 := [] }

/-- the histogram index `storeImageData` computes for a token starting at pixel `pos`
    (`x = pos % width`, `y = pos / width`), before the `>= len(huffCodes)` fallback -/
def MainPlan.histoIdxAt (p : MainPlan) (pos : Nat) : Nat :=
  if p.groups.length > 1 ∧ p.histoBits > 0 then
    p.symbols.getD (((pos / p.width) >>> p.histoBits) * subSampleSize p.width p.histoBits +
      ((pos % p.width) >>> p.histoBits)) 0
  else 0

end Webp.Impl.VP8LEntropy
