import Webp.Impl.VP8LFastPaths
/-
  Implementation model of ONE TOKEN READ of the VP8L pixel loop INCLUDING THE REFILL CALLS
  (property C03; the "window budget" of `decodeImageData`).

  Transcribed statement by statement from /repo/internal/lossless/decode_image.go,
  `func (dec *Decoder) decodeImageData` (the body of `for pos < srcLast`, lines 478–700) and
  `readPackedSymbols`, over the window reader of /repo/internal/bitio/reader_lossless.go
  (`Webp.Impl.VP8LEntropy.Reader`: `fillBitWindow`, `prefetchBits`, `advance` = `SetBitPos(BitPos()+n)`,
  `isEndOfStream`).  The Go lines are quoted in the comments.

  What is NOT here (it does not touch the reader): what the loop does with the token (`data[pos] = …`,
  `copyBlock32`, colour cache, row/col bookkeeping) — that is `Webp.Impl.VP8LEntropy.stepToken`;
  in particular the split `code < colorCacheLimit … else return ErrBitstream` of the cache branch is
  `stepToken`'s test `key < cache.size` (`colorCacheLimit = lenCodeLimit + len(colorCache.Colors)`).

  The transcription is written ONCE, over an abstract reader interface `RdOps ρ`, and used twice:
    * `goOps`    : the real window reader                      → `readTokenGo`   (the theorems of Props/C03Window)
    * `traceOps` : a reader that only records which calls are made → `callShape` (compared by `rfl` with the call
                   sequences the go/ast extractor regenerates from /repo on every run: `Generated/Fills.lean`)
  so the refill discipline the theorems are about is, definitionally, the one that is compared with
  the Go source.  `FillSites` makes the six places where a `br.FillBitWindow()` stands (or could
  stand) explicit; `goFills` is what the Go source has, `noDistFills` is the seeded change C03_4.

  Go `int` is 64 bit; `(2 + (sym & 1)) << extraBits` and `1 << extraBits` are exact here for
  `extraBits < 61`, i.e. for every prefix symbol `< 124` (valid tables give symbols `< 40`).

  Core Lean only.
-/
namespace Webp.Impl.VP8LWindow
open Webp.Go (Res)
open Webp.Spec.VP8L (Err Token)
open Webp.Impl.VP8LEntropy
open Webp.Impl.VP8LFastPaths (HTreeGroup huffmanTableBits huffmanPackedTableSize bitsSpecialMarker)

/-- the reader calls `decodeImageData` makes (`br *bitio.LosslessReader`).  The observers return the
    reader too so that an instrumented reader can record them. -/
structure RdOps (ρ : Type) where
  /-- `br.FillBitWindow()` -/
  fill : ρ → ρ
  /-- `br.PrefetchBits()` -/
  prefetch : ρ → UInt32 × ρ
  /-- `br.SetBitPos(br.BitPos() + n)` -/
  advance : ρ → Nat → ρ
  /-- `br.IsEndOfStream()` -/
  eos : ρ → Bool × ρ
  /-- a pure call worth recording (`ReadSymbol(htreeGroup.HTrees[…], prefetch)`): no effect on the reader -/
  note : String → ρ → ρ

/-- where a `br.FillBitWindow()` stands in the loop body -/
structure FillSites where
  /-- line 503, before the green / packed lookup -/
  top : Bool
  /-- before red (Go: "After green (≤15 bits), ≥17 bits remain — no fill needed.") -/
  red : Bool
  /-- line 564, "Fill before blue+alpha (green+red consumed ≤30 bits)." -/
  blue : Bool
  /-- before alpha (Go: "After blue (≤15 bits), ≥17 bits remain — no fill needed.") -/
  alpha : Bool
  /-- line 613, before the length extra bits -/
  lenExtra : Bool
  /-- line 619, before the distance symbol -/
  dist : Bool
  /-- line 635, before the distance extra bits -/
  distExtra : Bool
  deriving Repr, DecidableEq, Inhabited

/-- the refills of the Go source -/
def goFills : FillSites :=
  { top := true, red := false, blue := true, alpha := false, lenExtra := true, dist := true, distExtra := true }

/-- seeded change C03_4: the two refills of the distance part removed -/
def noDistFills : FillSites := { goFills with dist := false, distExtra := false }

section generic
variable {ρ : Type} (ops : RdOps ρ)

/-- `br.FillBitWindow()` if the site has one -/
def fillIf (b : Bool) (r : ρ) : ρ := if b then ops.fill r else r

/-- "Inline readSymbolFromTree":
    ```
    prefetch := br.PrefetchBits()
    val, bits := ReadSymbol(htreeGroup.HTrees[int(HuffX)], prefetch)
    if bits < 0 { return ErrBitstream }
    br.SetBitPos(br.BitPos() + bits)
    ```
    (`readSymbolRaw`: `none` is the `-1` sentinel; an index outside the table slice panics) -/
def readSym (tree : String) (table : Table) (r : ρ) : Res Err (Nat × ρ) :=
  let (prefetch, r) := ops.prefetch r
  let r := ops.note ("ReadSymbol(" ++ tree ++ ")") r
  match readSymbolRaw huffmanTableBits table prefetch.toNat with
  | .ok (some (val, bits)) => .ok (val, ops.advance r bits)
  | .ok none => .err .noSymbol
  | .err _ => .err .noSymbol
  | .panic => .panic
  | .hang => .hang

/-- "Inline getCopyLength (= getCopyDistance encoding)":
    ```
    if lengthSym < 4 { length = lengthSym + 1 } else {
      extraBits := (lengthSym - 2) >> 1
      offset := (2 + (lengthSym & 1)) << extraBits
      br.FillBitWindow()
      length = offset + int(br.PrefetchBits()&uint32((1<<extraBits)-1)) + 1
      br.SetBitPos(br.BitPos() + extraBits)
    }
    ``` -/
def readExtra (fill : Bool) (sym : Nat) (r : ρ) : Nat × ρ :=
  if sym < 4 then (sym + 1, r)
  else
    let extraBits := (sym - 2) >>> 1
    let offset := (2 + (sym &&& 1)) <<< extraBits
    let r := fillIf ops fill r
    let (prefetch, r) := ops.prefetch r
    let value := offset + (prefetch &&& UInt32.ofNat ((1 <<< extraBits) - 1)).toNat + 1
    (value, ops.advance r extraBits)

/-- `readPackedSymbols(group, br)`:
    ```
    bits := br.PrefetchBits() & (HuffmanPackedTableSize - 1)
    code := group.PackedTable[bits]
    if code.Bits < bitsSpecialMarker { br.SetBitPos(br.BitPos() + code.Bits); return code.Value, 0, true }
    br.SetBitPos(br.BitPos() + code.Bits - bitsSpecialMarker)
    return 0, int(code.Value), false
    ```
    returns `(argb, greenCode, isLiteral)` -/
def readPacked (g : HTreeGroup) (r : ρ) : (UInt32 × Nat × Bool) × ρ :=
  let (prefetch, r) := ops.prefetch r
  let bits := prefetch.toNat &&& (huffmanPackedTableSize - 1)
  let code := g.packedTable.getD bits (0, 0)
  if code.1 < bitsSpecialMarker then ((code.2, 0, true), ops.advance r code.1)
  else ((0, code.2.toNat, false), ops.advance r (code.1 - bitsSpecialMarker))

/-! The literal branch after green, general case (cut into its three lookups; Go lines 553–587):
    ```
    prefetch := br.PrefetchBits(); redVal, redBits := ReadSymbol(HTrees[HuffRed], prefetch); …; br.SetBitPos(…)
    // Fill before blue+alpha (green+red consumed ≤30 bits).
    br.FillBitWindow()
    … blue … ; … alpha …
    if br.IsEndOfStream() { break }
    data[pos] = (uint32(alphaVal) << 24) | (uint32(redVal) << 16) | (uint32(code) << 8) | uint32(blueVal)
    ``` -/

/-- alpha, the end-of-stream test and the pixel -/
def readA (fs : FillSites) (g : HTreeGroup) (code redVal blueVal : Nat) (r : ρ) : Res Err (Token × ρ) :=
  let r := fillIf ops fs.alpha r
  match readSym ops "HuffAlpha" g.alpha r with
  | .ok (alphaVal, r) =>
    let (e, r) := ops.eos r
    if e then .err .eos
    else
      .ok (.literal ((UInt32.ofNat alphaVal <<< 24) ||| (UInt32.ofNat redVal <<< 16) |||
                     (UInt32.ofNat code <<< 8) ||| UInt32.ofNat blueVal), r)
  | .err e => .err e
  | .panic => .panic
  | .hang => .hang

/-- `br.FillBitWindow()`, blue, then `readA` -/
def readBA (fs : FillSites) (g : HTreeGroup) (code redVal : Nat) (r : ρ) : Res Err (Token × ρ) :=
  let r := fillIf ops fs.blue r
  match readSym ops "HuffBlue" g.blue r with
  | .ok (blueVal, r) => readA ops fs g code redVal blueVal r
  | .err e => .err e
  | .panic => .panic
  | .hang => .hang

/-- red, then `readBA` -/
def readRBA (fs : FillSites) (g : HTreeGroup) (code : Nat) (r : ρ) : Res Err (Token × ρ) :=
  let r := fillIf ops fs.red r
  match readSym ops "HuffRed" g.red r with
  | .ok (redVal, r) => readBA ops fs g code redVal r
  | .err e => .err e
  | .panic => .panic
  | .hang => .hang

/-! The backward-reference branch after green (cut after the length; Go lines 602–642):
    ```
    lengthSym := code - NumLiteralCodes
    … length (readExtra) …
    br.FillBitWindow()
    prefetch := br.PrefetchBits(); distVal, distBits := ReadSymbol(HTrees[HuffDist], prefetch); …; br.SetBitPos(…)
    distSymbol := int(distVal)
    … distCode (readExtra) …
    dist := PlaneCodeToDistance(width, distCode)
    if br.IsEndOfStream() { break }
    ``` -/

/-- the distance symbol, its extra bits, `PlaneCodeToDistance` and the end-of-stream test -/
def readDist (fs : FillSites) (g : HTreeGroup) (width : Nat) (length : Nat) (r : ρ) : Res Err (Token × ρ) :=
  let r := fillIf ops fs.dist r
  match readSym ops "HuffDist" g.dist r with
  | .ok (distSymbol, r) =>
    let (distCode, r) := readExtra ops fs.distExtra distSymbol r
    let dist := Webp.Impl.LTransform.planeCodeToDistance width (distCode : Int)
    let (e, r) := ops.eos r
    if e then .err .eos else .ok (.copy length dist, r)
  | .err e => .err e
  | .panic => .panic
  | .hang => .hang

/-- the length, then `readDist` -/
def readCopy (fs : FillSites) (g : HTreeGroup) (width : Nat) (code : Nat) (r : ρ) : Res Err (Token × ρ) :=
  let lengthSym := code - 256
  let (length, r) := readExtra ops fs.lenExtra lengthSym r
  readDist ops fs g width length r

/-- everything after `code` is known:
    ```
    if br.IsEndOfStream() { break }                                   // 8.7: EOS check after GREEN symbol
    if code < NumLiteralCodes {
      if htreeGroup.IsTrivialLiteral { data[pos] = htreeGroup.LiteralARB | (uint32(code) << 8) } else { … readRBA … }
    } else if code < lenCodeLimit { … readCopy … }
    else if code < colorCacheLimit { key := code - lenCodeLimit; … } else { return ErrBitstream }
    ``` -/
def afterGreen (fs : FillSites) (g : HTreeGroup) (width : Nat) (code : Nat) (r : ρ) : Res Err (Token × ρ) :=
  let (e, r) := ops.eos r
  if e then .err .eos
  else if code < 256 then
    if g.isTrivialLiteral then .ok (.literal (g.literalARB ||| (UInt32.ofNat code <<< 8)), r)
    else readRBA ops fs g code r
  else if code < 256 + 24 then readCopy ops fs g width code r
  else .ok (.cache (code - (256 + 24)), r)

/-- One iteration of `for pos < srcLast` as far as the bit reader is concerned: the token and the
    reader afterwards.  `break` with the end-of-stream flag is `err eos` (after the loop:
    `if br.IsEndOfStream() && pos < srcEnd { return ErrBitstream }`).
    ```
    if htreeGroup.IsTrivialCode { data[pos] = htreeGroup.LiteralARB; …; continue }
    br.FillBitWindow()
    if htreeGroup.UsePackedTable {
      argb, gc, isLit := readPackedSymbols(htreeGroup, br)
      if br.IsEndOfStream() { break }
      if isLit { data[pos] = argb; …; continue }
      code = gc
    } else { … green (readSym) …; code = int(val) }
    … afterGreen …
    ``` -/
def readTokenAt (fs : FillSites) (g : HTreeGroup) (width : Nat) (r : ρ) : Res Err (Token × ρ) :=
  if g.isTrivialCode then .ok (.literal g.literalARB, r)
  else
    let r := fillIf ops fs.top r
    if g.usePackedTable then
      let ((argb, gc, isLit), r) := readPacked ops g r
      let (e, r) := ops.eos r
      if e then .err .eos
      else if isLit then .ok (.literal argb, r)
      else afterGreen ops fs g width gc r
    else
      match readSym ops "HuffGreen" g.green r with
      | .ok (code, r) => afterGreen ops fs g width code r
      | .err e => .err e
      | .panic => .panic
      | .hang => .hang

end generic

/-! ## the real reader -/

/-- `*bitio.LosslessReader` -/
def goOps : RdOps Reader where
  fill r := r.fillBitWindow
  prefetch r := (r.prefetchBits, r)
  advance r n := r.advance n
  eos r := (r.isEndOfStream, r)
  note _ r := r

/-- **one token read of `decodeImageData`**, refills included -/
def readTokenGo (g : HTreeGroup) (width : Nat) (r : Reader) : Res Err (Token × Reader) :=
  readTokenAt goOps goFills g width r

/-- the same loop body with the refills of `fs` (for the counterexample: `noDistFills`) -/
def readTokenWith (fs : FillSites) (g : HTreeGroup) (width : Nat) (r : Reader) : Res Err (Token × Reader) :=
  readTokenAt goOps fs g width r

/-- the token source of the real decoder: group `gi` of `gs`, the window reader as state
    (`getHTreeGroup` has already mapped an out-of-range index to 0; `LoopParams.numGroups = gs.size`) -/
def goSource (gs : Array HTreeGroup) (width : Nat) : TokenSource Reader where
  next := fun gi r => if h : gi < gs.size then readTokenGo gs[gi] width r else .err .groupIndex

/-! ## the recording reader: which calls, in which order -/

/-- a reader that records its calls; `PrefetchBits()` is 0 and `IsEndOfStream()` is false, so the
    path through the loop body is chosen by the tables alone -/
def traceOps : RdOps (List String) where
  fill l := l ++ ["FillBitWindow"]
  prefetch l := (0, l ++ ["PrefetchBits"])
  advance l _ := l ++ ["SetBitPos"]
  eos l := (false, l ++ ["IsEndOfStream"])
  note s l := l ++ [s]

/-- a table whose every lookup gives `sym` with 0 bits (a single-symbol code) -/
def constTable (sym : Nat) : Table := Array.replicate 256 { bits := 0, value := sym }

/-- a group that steers the recording reader: green symbol `green`, distance symbol `dist`;
    with `packed` every packed entry is the non-literal `green` (`Bits = bitsSpecialMarker + 0`) -/
def steer (packed trivialLit : Bool) (green dist : Nat) : HTreeGroup :=
  { green := constTable green, red := constTable 0, blue := constTable 0, alpha := constTable 0,
    dist := constTable dist, isTrivialLiteral := trivialLit, usePackedTable := packed,
    packedTable := Array.replicate 64 (bitsSpecialMarker, UInt32.ofNat green) }

/-- the calls of one trip through the loop body -/
def traceOf (fs : FillSites) (g : HTreeGroup) : List String :=
  match readTokenAt traceOps fs g 1 [] with
  | .ok (_, l) => l
  | _ => ["<no result>"]

/-- the paths after `code` is known, named by the decisions taken -/
def tailPaths (fs : FillSites) (p : String) (packed : Bool) : List (String × List String) :=
  [ (p ++ " code < NumLiteralCodes=T htreeGroup.IsTrivialLiteral=T", traceOf fs (steer packed true 0 0)),
    (p ++ " code < NumLiteralCodes=T htreeGroup.IsTrivialLiteral=F", traceOf fs (steer packed false 0 0)),
    (p ++ " code < NumLiteralCodes=F code < lenCodeLimit=T lengthSym < 4=T distSymbol < 4=T",
      traceOf fs (steer packed false 256 0)),
    (p ++ " code < NumLiteralCodes=F code < lenCodeLimit=T lengthSym < 4=T distSymbol < 4=F",
      traceOf fs (steer packed false 256 4)),
    (p ++ " code < NumLiteralCodes=F code < lenCodeLimit=T lengthSym < 4=F distSymbol < 4=T",
      traceOf fs (steer packed false 260 0)),
    (p ++ " code < NumLiteralCodes=F code < lenCodeLimit=T lengthSym < 4=F distSymbol < 4=F",
      traceOf fs (steer packed false 260 4)),
    (p ++ " code < NumLiteralCodes=F code < lenCodeLimit=F", traceOf fs (steer packed false 280 0)) ]

/-- the paths through the loop body that differ in their reader calls, named by the decisions
    taken (the `if`s of the Go source whose branches contain reader calls or end in `continue`),
    in source order — the enumeration rule of harness/cmd/extract/fills.go -/
def pathsOf (fs : FillSites) : List (String × List String) :=
  [ ("htreeGroup.IsTrivialCode=T", traceOf fs { steer false false 0 0 with isTrivialCode := true }),
    ("htreeGroup.IsTrivialCode=F htreeGroup.UsePackedTable=T code.Bits < bitsSpecialMarker=T isLit=T",
      traceOf fs { steer true false 0 0 with packedTable := Array.replicate 64 (0, 0) }) ] ++
  tailPaths fs "htreeGroup.IsTrivialCode=F htreeGroup.UsePackedTable=T code.Bits < bitsSpecialMarker=F isLit=F" true ++
  tailPaths fs "htreeGroup.IsTrivialCode=F htreeGroup.UsePackedTable=F" false

/-- number of `br.FillBitWindow()` call sites -/
def FillSites.count (fs : FillSites) : Nat :=
  [fs.top, fs.red, fs.blue, fs.alpha, fs.lenExtra, fs.dist, fs.distExtra].count true

/-- **the call shape of `decodeImageData`** as the model has it: per path, the ordered reader calls.
    `Webp.Props.C03Window.fills_match` : this is what the extractor reads off the Go source. -/
def callShape : List (String × List String) := pathsOf goFills

end Webp.Impl.VP8LWindow
