import Webp.Go.Basic
import Webp.Impl.Parser
import Webp.Impl.Demux
/-
  Implementation model of /repo/mux/mux.go — `mux.Muxer` as a state machine.

  * every public mutator is a constructor of `MuxOp`; `step` is one call, `run` a call history;
  * Go `int` values that can be negative or huge (`FrameOptions` fields, loop count, canvas size,
    frame indices) are `Int`; the two places where Go's 64-bit addition can wrap
    (`canvasSize`, `validate`: `OffsetX + fw`) use `wrap64`;
  * `uint32(len(..))`, `uint16(loopCount)`, `byte(v >> k)` truncations are explicit;
  * `nil` vs empty metadata slices are `Option Bytes` (`needsVP8X` and the flag byte test `!= nil`);
  * `BlendMode` / `DisposeMode` are Go `int` types: any value can be stored, `isAnimated`
    compares the whole option struct with its zero value, `writeANMFChunk` tests `== 1`.

  `assemble` is the byte string `Muxer.Assemble` writes (the writer is an append-only buffer;
  write errors of the `io.Writer` are not modelled).
-/
namespace Webp.Impl.Mux
open Webp.Go
open Webp.Impl.Parser (ccRIFF ccWEBP ccVP8 ccVP8L ccVP8X ccALPH ccANIM ccANMF ccICCP ccEXIF ccXMP
  chunkHeaderSize riffHeaderSize anmfChunkSize animChunkSize vp8xChunkSize maxFrames maxMetadataSize)
open Webp.Impl.Demux (splitAlphaAndBitstream frameDimensions parseVP8LDimensions)

/-- what `errors.Is` can tell apart on the muxer side -/
inductive Err where
  | noFrames      -- ErrNoFrames
  | validation    -- ErrMuxValidation
  | frameEmpty    -- ErrFrameEmpty
  | other         -- fmt.Errorf without sentinel: too many frames, chunk too large, RIFF > 4 GiB
  deriving Repr, DecidableEq, Inhabited

def Err.toString : Err → String
  | .noFrames => "noFrames" | .validation => "validation" | .frameEmpty => "frameEmpty"
  | .other => "other"

abbrev R := Res Err

/-- mux.FrameOptions.  `blendMode`/`disposeMode` are the raw `int` values
    (`BlendNone = 1`, `DisposeBackground = 1`). -/
structure FrameOptions where
  duration : Int := 0
  offsetX : Int := 0
  offsetY : Int := 0
  blendMode : Int := 0
  disposeMode : Int := 0
  deriving Repr, DecidableEq, Inhabited

structure MuxFrame where
  data : Bytes
  opts : FrameOptions
  deriving Repr, DecidableEq, Inhabited

structure MuxState where
  frames : List MuxFrame := []
  iccData : Option Bytes := none
  exifData : Option Bytes := none
  xmpData : Option Bytes := none
  bgColor : Nat := 0          -- uint32
  loopCount : Int := 0
  canvasWidth : Int := 0
  canvasHeight : Int := 0
  deriving Repr, DecidableEq, Inhabited

def maxDuration : Int := 0xFFFFFF
def maxLoopCount : Int := 0xFFFF
def maxCanvasSize : Int := 16777216      -- container.MaxCanvasSize = 1 << 24
def maxPositionOff : Int := 16777216     -- container.MaxPositionOff = 1 << 24
def maxInt : Int := 9223372036854775807  -- math.MaxInt on 64-bit

/-- two's-complement wrap of a 64-bit Go `int` -/
def wrap64 (x : Int) : Int := (x + 9223372036854775808) % 18446744073709551616 - 9223372036854775808

/-- every public mutator of `*Muxer` -/
inductive MuxOp where
  | addFrame (data : Bytes) (opts : Option FrameOptions)
  | setFrameDisposeMode (index mode : Int)
  | setFrameDuration (index ms : Int)
  | setLoopCount (n : Int)
  | setCanvasSize (w h : Int)
  | setBackgroundColor (c : Nat)
  | setICCProfile (d : Option Bytes)
  | setEXIF (d : Option Bytes)
  | setXMP (d : Option Bytes)
  | addChunk (id : Nat) (d : Option Bytes)
  deriving Repr, DecidableEq, Inhabited

def clampDuration (d : Int) : Int :=
  if d < 0 then 0 else if d > maxDuration then maxDuration else d

/-- `m.frames[index].opts.X = v` under `index >= 0 && index < len(m.frames)` -/
def modifyFrame (fs : List MuxFrame) (index : Int) (f : MuxFrame → MuxFrame) : List MuxFrame :=
  if 0 ≤ index ∧ index < fs.length then fs.modify index.toNat f else fs

/-- one call; the second component is the error the call returned (`none` for the void setters
    and for a nil error). -/
def step (s : MuxState) : MuxOp → MuxState × Option Err
  | .addFrame data opts =>
    if data.length = 0 then (s, some .frameEmpty)
    else if s.frames.length ≥ maxFrames then (s, some .other)
    else
      let fo := opts.getD {}
      let fo := { fo with duration := clampDuration fo.duration }
      ({ s with frames := s.frames ++ [⟨data, fo⟩] }, none)
  | .setFrameDisposeMode i m =>
    ({ s with frames := modifyFrame s.frames i fun f => { f with opts := { f.opts with disposeMode := m } } }, none)
  | .setFrameDuration i ms =>
    ({ s with frames := modifyFrame s.frames i fun f =>
        { f with opts := { f.opts with duration := clampDuration ms } } }, none)
  | .setLoopCount n =>
    ({ s with loopCount := if n < 0 then 0 else if n > maxLoopCount then maxLoopCount else n }, none)
  | .setCanvasSize w h =>
    ({ s with canvasWidth := if w > maxCanvasSize then maxCanvasSize else w
              canvasHeight := if h > maxCanvasSize then maxCanvasSize else h }, none)
  | .setBackgroundColor c => ({ s with bgColor := c % 4294967296 }, none)   -- parameter type uint32
  | .setICCProfile d => ({ s with iccData := d }, none)
  | .setEXIF d => ({ s with exifData := d }, none)
  | .setXMP d => ({ s with xmpData := d }, none)
  | .addChunk id d =>
    if (d.getD []).length > maxMetadataSize then (s, some .other)
    else if id = ccICCP then ({ s with iccData := d }, none)
    else if id = ccEXIF then ({ s with exifData := d }, none)
    else if id = ccXMP then ({ s with xmpData := d }, none)
    else (s, none)

/-- a call history on a fresh `NewMuxer()` -/
def runFrom (s : MuxState) (ops : List MuxOp) : MuxState := ops.foldl (fun s op => (step s op).1) s
def run (ops : List MuxOp) : MuxState := runFrom {} ops

/-- the per-call error results of a history (for the correspondence line) -/
def runErrs : MuxState → List MuxOp → List (Option Err)
  | _, [] => []
  | s, op :: ops => (step s op).2 :: runErrs (step s op).1 ops

/-- mux.go isAnimated -/
def isAnimated (s : MuxState) : Bool :=
  decide (s.frames.length > 1) || s.frames.any fun f => decide (f.opts ≠ {})

/-- mux.go hasAlphaChunk -/
def hasAlphaChunk (s : MuxState) : Bool :=
  s.frames.any fun f => (splitAlphaAndBitstream f.data).1.isSome

/-- `frameDimensions` as Go `int`s -/
def frameDims (data : Bytes) : Int × Int :=
  let d := frameDimensions data
  ((d.1 : Int), (d.2 : Int))

/-- mux.go hasDistinctCanvas -/
def hasDistinctCanvas (s : MuxState) : Bool :=
  match s.frames with
  | [] => false
  | f :: _ =>
    if s.canvasWidth ≤ 0 ∨ s.canvasHeight ≤ 0 then false
    else decide ((frameDims f.data).1 ≠ s.canvasWidth ∨ (frameDims f.data).2 ≠ s.canvasHeight)

/-- mux.go needsVP8X -/
def needsVP8X (s : MuxState) : Bool :=
  isAnimated s || s.iccData.isSome || s.exifData.isSome || s.xmpData.isSome || hasAlphaChunk s ||
    hasDistinctCanvas s

/-- needsVP8X before commit 217045d (pinned: an explicit canvas did not force the extended format) -/
def needsVP8XPinned (s : MuxState) : Bool :=
  isAnimated s || s.iccData.isSome || s.exifData.isSome || s.xmpData.isSome || hasAlphaChunk s

/-- mux.go canvasSize -/
def canvasSize (s : MuxState) : Int × Int :=
  if s.canvasWidth > 0 ∧ s.canvasHeight > 0 then (s.canvasWidth, s.canvasHeight)
  else if s.frames.length = 0 then (1, 1)
  else
    let m := s.frames.foldl (fun (acc : Int × Int) f =>
      let fw := (frameDims f.data).1
      let fh := (frameDims f.data).2
      let endX := wrap64 (f.opts.offsetX + fw)
      let endY := wrap64 (f.opts.offsetY + fh)
      let endX := if fw > 0 ∧ endX < f.opts.offsetX then maxInt else endX
      let endY := if fh > 0 ∧ endY < f.opts.offsetY then maxInt else endY
      (if endX > acc.1 then endX else acc.1, if endY > acc.2 then endY else acc.2)) (0, 0)
    (if m.1 = 0 then 1 else m.1, if m.2 = 0 then 1 else m.2)

/-- mux.go detectBitstreamType -/
def detectBitstreamType (data : Bytes) : Nat :=
  if data.length > 0 ∧ byteAt data 0 = 0x2f then ccVP8L else ccVP8

/-- the per-frame loop of `validate`; `alphL` = the ALPH-before-VP8L check of commit dac085e is present -/
def validateFramesWith (alphL : Bool) (canvasW canvasH : Int) : List MuxFrame → R Unit
  | [] => .ok ()
  | f :: rest =>
    if alphL ∧ (splitAlphaAndBitstream f.data).1.isSome ∧
        detectBitstreamType (splitAlphaAndBitstream f.data).2 = ccVP8L then .err .validation
    -- Go `/` truncates toward zero; the operands are known non-negative when it is evaluated
    else if f.opts.offsetX < 0 ∨ f.opts.offsetY < 0 ∨
       Int.tdiv f.opts.offsetX 2 ≥ maxPositionOff ∨ Int.tdiv f.opts.offsetY 2 ≥ maxPositionOff then
      .err .validation
    else
      let fw := (frameDims f.data).1
      let fh := (frameDims f.data).2
      if fw = 0 ∨ fh = 0 then validateFramesWith alphL canvasW canvasH rest
      else
        let endX := wrap64 (f.opts.offsetX + fw)
        let endY := wrap64 (f.opts.offsetY + fh)
        if (fw > 0 ∧ endX ≤ f.opts.offsetX) ∨ (fh > 0 ∧ endY ≤ f.opts.offsetY) then .err .validation
        else if endX > canvasW ∨ endY > canvasH then .err .validation
        else validateFramesWith alphL canvasW canvasH rest

def validateFrames := validateFramesWith true

/-- `uint64(x)` of a Go `int` -/
def u64 (x : Int) : Nat := (x % 18446744073709551616).toNat

/-- `container.MaxChunkPayload - container.RIFFHeaderSize` = 2^32 − 22: the largest frame data `validate` lets through -/
def maxFrameData : Nat := 4294967286 - 12

/-- mux.go validate.  Pins (all `true` = the current code): `limits` = the metadata-size and
    frame-data-size checks of commits b6500d8 / faa5452, `area` = the canvas-area check of 73510c8,
    `alphL` = the ALPH-before-VP8L check of dac085e. -/
def validateWith (limits area alphL : Bool) (s : MuxState) : R Unit :=
  if s.frames.length = 0 then .err .noFrames
  else if limits ∧ ((s.iccData.getD []).length > maxMetadataSize ∨ (s.exifData.getD []).length > maxMetadataSize ∨
      (s.xmpData.getD []).length > maxMetadataSize) then .err .validation
  else if limits ∧ (s.frames.any fun f => decide (f.data.length > maxFrameData)) = true then .err .validation
  else if isAnimated s ∧ s.frames.length < 1 then .err .validation
  else if ¬ isAnimated s ∧ s.frames.length ≠ 1 then .err .validation
  else
    let canvasW := (canvasSize s).1
    let canvasH := (canvasSize s).2
    if canvasW > maxCanvasSize ∨ canvasH > maxCanvasSize then .err .validation
    else if area ∧ (u64 canvasW * u64 canvasH) % 18446744073709551616 ≥ Webp.Impl.Parser.maxImageArea then
      .err .validation
    else validateFramesWith alphL canvasW canvasH s.frames

def validate := validateWith true true true

/-- mux.go hasAlpha -/
def hasAlpha (s : MuxState) : Bool :=
  s.frames.any fun f =>
    (decide (f.data.length ≥ 12) && decide (le32 f.data 0 = ccALPH)) ||
    (decide (f.data.length ≥ 5) && decide (byteAt f.data 0 = 0x2f) &&
      (match parseVP8LDimensions f.data with
       | .ok (_, _, alpha) => alpha
       | _ => false))

/-- `uint32(x)` -/
def u32 (x : Nat) : Nat := x % 4294967296

/-- mux.go chunkTotalSize (uint32 arithmetic) -/
def chunkTotalSize (payloadSize : Nat) : Nat :=
  let total := u32 (chunkHeaderSize + payloadSize)
  if payloadSize % 2 ≠ 0 then u32 (total + 1) else total

/-- mux.go frameSubChunksSize -/
def frameSubChunksSize (alphaData : Option Bytes) (bitstream : Bytes) : Nat :=
  let size := match alphaData with
    | some a => u32 (0 + chunkTotalSize (u32 a.length))
    | none => 0
  u32 (size + chunkTotalSize (u32 bitstream.length))

/-- mux.go subChunkSize -/
def subChunkSize (data : Bytes) : Nat :=
  frameSubChunksSize (splitAlphaAndBitstream data).1 (splitAlphaAndBitstream data).2

/-- chunk.go writeChunkHeader -/
def writeChunkHeader (id size : Nat) : Bytes := putLE32 id ++ putLE32 size

/-- mux.go writeDataChunk -/
def writeDataChunk (id : Nat) (data : Bytes) : Bytes :=
  writeChunkHeader id (u32 data.length) ++ data ++ (if data.length % 2 ≠ 0 then [0] else [])

def optChunk (id : Nat) : Option Bytes → Bytes
  | some d => writeDataChunk id d
  | none => []

/-- mux.go putLE24 on a Go `int`: `byte(v)`, `byte(v>>8)`, `byte(v>>16)` (arithmetic shifts) -/
def putLE24I (v : Int) : Bytes :=
  [UInt8.ofNat (v % 256).toNat, UInt8.ofNat (v / 256 % 256).toNat, UInt8.ofNat (v / 65536 % 256).toNat]

/-- mux.go writeANMFChunk -/
def writeANMFChunk (f : MuxFrame) : Bytes :=
  let alphaData := (splitAlphaAndBitstream f.data).1
  let bitstream := (splitAlphaAndBitstream f.data).2
  let subSize := frameSubChunksSize alphaData bitstream
  let anmfPayload := u32 (anmfChunkSize + subSize)
  let fw := (frameDims f.data).1
  let fh := (frameDims f.data).2
  let dims := if fw > 0 ∧ fh > 0 then putLE24I (fw - 1) ++ putLE24I (fh - 1) else [0, 0, 0, 0, 0, 0]
  let flagByte : Nat := (if f.opts.disposeMode = 1 then 1 else 0) + (if f.opts.blendMode = 1 then 2 else 0)
  let hdr := writeChunkHeader ccANMF anmfPayload ++
    putLE24I (Int.tdiv f.opts.offsetX 2) ++ putLE24I (Int.tdiv f.opts.offsetY 2) ++ dims ++
    putLE24I f.opts.duration ++ [UInt8.ofNat flagByte]
  hdr ++
  optChunk ccALPH alphaData ++
  writeDataChunk (detectBitstreamType bitstream) bitstream ++
  (if anmfPayload % 2 ≠ 0 then [0] else [])

/-- mux.go assembleSimple -/
def assembleSimple (s : MuxState) : R Bytes :=
  match s.frames with
  | [] => .panic                        -- m.frames[0]
  | frame :: _ =>
    let chunkID := detectBitstreamType frame.data
    let chunkSize := u32 frame.data.length
    let paddedChunkSize := if chunkSize % 2 ≠ 0 then u32 (chunkSize + 1) else chunkSize
    let riffPayload := u32 (4 + chunkHeaderSize + paddedChunkSize)
    .ok (putLE32 ccRIFF ++ putLE32 riffPayload ++ putLE32 ccWEBP ++
         writeChunkHeader chunkID chunkSize ++ frame.data ++
         (if chunkSize % 2 ≠ 0 then [0] else []))

/-- the VP8X flag byte built by assembleExtended -/
def vp8xFlags (s : MuxState) : Nat :=
  (if isAnimated s then 2 else 0) + (if s.iccData.isSome then 32 else 0) +
  (if s.exifData.isSome then 8 else 0) + (if s.xmpData.isSome then 4 else 0) +
  (if hasAlpha s then 16 else 0)

def optChunkSize : Option Bytes → Nat
  | some d => chunkTotalSize (u32 d.length)
  | none => 0

/-- the uint64 running total `riffPayload64` of assembleExtended -/
def riffPayload64 (s : MuxState) : Nat :=
  let animated := isAnimated s
  4 + (chunkHeaderSize + vp8xChunkSize) + optChunkSize s.iccData +
  (if animated then chunkHeaderSize + animChunkSize else 0) +
  (s.frames.foldl (fun acc f =>
    if animated then
      let anmfPayload := u32 (anmfChunkSize + subChunkSize f.data)
      acc + (chunkHeaderSize + anmfPayload) + (if anmfPayload % 2 ≠ 0 then 1 else 0)
    else acc + subChunkSize f.data) 0) +
  optChunkSize s.exifData + optChunkSize s.xmpData

/-- the bytes one frame contributes to an extended file -/
def writeFrame (animated : Bool) (f : MuxFrame) : Bytes :=
  if animated then writeANMFChunk f
  else
    let alphaData := (splitAlphaAndBitstream f.data).1
    let bitstream := (splitAlphaAndBitstream f.data).2
    optChunk ccALPH alphaData ++ writeDataChunk (detectBitstreamType bitstream) bitstream

/-- the `anmf64 > MaxChunkPayload` check in the size loop of assembleExtended (commit 03d14c3): some
    animation frame's ANMF payload (bounded by 16 + 2·8 + |alpha| + |bitstream| + 2) does not fit a
    chunk size field -/
def anmfTooLarge (s : MuxState) : Bool :=
  isAnimated s && s.frames.any fun f =>
    decide (anmfChunkSize + 2 * chunkHeaderSize + (((splitAlphaAndBitstream f.data).1).getD []).length +
      (splitAlphaAndBitstream f.data).2.length + 2 > 4294967286)

/-- mux.go assembleExtended; `sizeFix` = commit 03d14c3 is present (ANMF size check, and the total is
    compared with MaxChunkPayload instead of MaxUint32) -/
def assembleExtendedWith (sizeFix : Bool) (s : MuxState) : R Bytes :=
  let animated := isAnimated s
  let flags := vp8xFlags s
  let canvasW := (canvasSize s).1
  let canvasH := (canvasSize s).2
  let total := riffPayload64 s
  if sizeFix ∧ anmfTooLarge s = true then .err .other
  else if total > (if sizeFix then 4294967286 else 4294967295) then .err .other
  else
    .ok (putLE32 ccRIFF ++ putLE32 (u32 total) ++ putLE32 ccWEBP ++
         (writeChunkHeader ccVP8X vp8xChunkSize ++ [UInt8.ofNat flags, 0, 0, 0] ++
            putLE24I (canvasW - 1) ++ putLE24I (canvasH - 1)) ++
         optChunk ccICCP s.iccData ++
         (if animated then
            writeChunkHeader ccANIM animChunkSize ++ putLE32 s.bgColor ++
              putLE16 (s.loopCount % 65536).toNat      -- uint16(m.loopCount)
          else []) ++
         (s.frames.map (writeFrame animated)).flatten ++
         optChunk ccEXIF s.exifData ++ optChunk ccXMP s.xmpData)

def assembleExtended := assembleExtendedWith true

/-- mux.go (*Muxer).Assemble -/
def assemble (s : MuxState) : R Bytes := do
  validate s
  if !needsVP8X s then assembleSimple s else assembleExtended s

/-- `Assemble` as it was at 9b3d913, before the repairs 217045d / 73510c8 / dac085e / b6500d8 / faa5452 / 03d14c3
    (pinned variant, used only by
    the counterexample theorems of C14).  `assembleExtendedWith false` is the extended writer without the size checks of 03d14c3. -/
def assemblePinned (s : MuxState) : R Bytes := do
  validateWith false false false s
  if !needsVP8XPinned s then assembleSimple s else assembleExtendedWith false s

end Webp.Impl.Mux
