import Webp.Impl.VP8LWindow
/-
  Concrete data for the counterexample `window_overrun_without_refill` (Props/C03Window.lean):
  the situation of seeded change C03_4 — a backward reference whose length symbol and distance
  symbol both have 15-bit code words and whose distance has 18 extra bits, starting at register
  position 31.  Core Lean only (the data are also used by the driver self-test).
-/
namespace Webp.Impl.VP8LWindowCex
open Webp.Go (Res)
open Webp.Spec.VP8L (Err Token Code Group)
open Webp.Impl.VP8LEntropy
open Webp.Impl.VP8LWindow
open Webp.Impl.VP8LFastPaths (HTreeGroup)

/-- a complete code with lengths 1, 2, …, 14, 15, 15 on the listed symbols of an alphabet of `n` -/
def ladder (n : Nat) (syms : List Nat) : Array Nat :=
  (syms.zip ((List.range 14).map (· + 1) ++ [15, 15])).foldl
    (fun a (sl : Nat × Nat) => a.setIfInBounds sl.1 sl.2) (Array.replicate n 0)

/-- green: literals 0…14 have 1…15 bits, length symbol 256 (length 1, no extra bits) has 15 bits -/
def greenLens : Array Nat := ladder 280 (List.range 15 ++ [256])
/-- distance: symbols 0…13 have 1…14 bits, symbols 38 and 39 (18 extra bits) have 15 bits -/
def distLens : Array Nat := ladder 40 (List.range 14 ++ [38, 39])
/-- red, blue, alpha: the single symbol 0 -/
def oneLens : Array Nat := (Array.replicate 256 0).setIfInBounds 0 1

def tableOf (l : Array Nat) : Table := match buildTable 8 l with | .ok t => t | _ => #[]
def codeOf (l : Array Nat) : Code := match Webp.Spec.VP8L.buildCode l with | .ok c => c | _ => default

/-- number of trailing one bits among the low `n` bits of `k` -/
def trailingOnes : (n : Nat) → Nat → Nat
  | 0, _ => 0
  | n + 1, k => if k % 2 = 1 then 1 + trailingOnes n (k / 2) else 0

/-- The two-level table (root 8 bits) of the ladder code 1, 2, …, 14, 15, 15 over the 16 symbols
    `syms`, in closed form: the code word of the `i`-th symbol is `i` ones and a zero (LSB first),
    the last one is 15 ones.  Root entry 255 points to the 128-entry second-level table at 256.
    (`tableOf greenLens = ladderTable …` and `tableOf distLens = ladderTable …` are checked natively
    by the driver op `vwcex` on every run of suite `vp8lwindow`; evaluating `BuildHuffmanTable` in
    the kernel takes minutes.) -/
def ladderTable (syms : Array Nat) : Table :=
  ((List.range 256).map fun k =>
    let t := trailingOnes 8 k
    if t < 8 then ({ bits := t + 1, value := syms.getD t 0 } : HCode) else { bits := 15, value := 256 }).toArray ++
  ((List.range 128).map fun j =>
    let t := trailingOnes 7 j
    if t < 6 then ({ bits := t + 1, value := syms.getD (8 + t) 0 } : HCode)
    else if t = 6 then { bits := 7, value := syms.getD 14 0 } else { bits := 7, value := syms.getD 15 0 }).toArray

def greenSyms : Array Nat := (List.range 15 ++ [256]).toArray
def distSyms : Array Nat := (List.range 14 ++ [38, 39]).toArray

/-- the group as the Go decoder holds it (`BuildHuffmanTable(8, ·)` of the five length vectors),
    no fast path -/
def group : HTreeGroup :=
  { green := ladderTable greenSyms, red := constTable 0, blue := constTable 0, alpha := constTable 0,
    dist := ladderTable distSyms }

/-- the canonical code of a ladder: one code word of each length 1…14, two of length 15 -/
def ladderCode (syms : Array Nat) : Code :=
  { counts := #[0, 1, 1, 1, 1, 1, 1, 1, 1, 1, 1, 1, 1, 1, 1, 2], symbols := syms }

/-- the single symbol 0 (length 1 in the length vector; a zero-bit code) -/
def oneCode : Code := { counts := #[0, 1, 0, 0, 0, 0, 0, 0, 0, 0, 0, 0, 0, 0, 0, 0], symbols := #[0] }

/-- the same group for the specification (`buildCode` of the five length vectors) -/
def codes : Group :=
  { green := ladderCode greenSyms, red := oneCode, blue := oneCode, alpha := oneCode, dist := ladderCode distSyms }

def sameCode (a b : Code) : Bool := a.counts == b.counts && a.symbols == b.symbols

/-- `codes` is what the specification's `buildCode` returns (evaluated natively) -/
def codesAreBuilt : Bool :=
  sameCode (codeOf greenLens) (ladderCode greenSyms) && sameCode (codeOf distLens) (ladderCode distSyms) &&
  sameCode (codeOf oneLens) oneCode

/-- `group` is what `BuildHuffmanTable` returns (evaluated natively) -/
def groupIsBuilt : Bool :=
  tableOf greenLens == ladderTable greenSyms && tableOf distLens == ladderTable distSyms &&
  tableOf oneLens == constTable 0

/-- 31 filler bits; the 15-bit code word of green symbol 256 (`0x7fff`); the 15-bit code word of
    distance symbol 39 (`0x7fff`); 18 extra bits `0x2aaaa`; zero padding
    (= `(runCalls [(0,16),(0,15),(0x7fff,15),(0x7fff,15),(0x2aaaa,18),(0,32),(0,32),(0,32)]).finish`) -/
def stream : Array UInt8 := #[0, 0, 0, 128, 255, 255, 255, 95, 85, 85, 0, 0, 0, 0, 0, 0, 0, 0, 0, 0, 0, 0]

def tokOf {α : Type} : Res Err (Token × α) → Option Token
  | .ok (t, _) => some t
  | _ => none

end Webp.Impl.VP8LWindowCex
