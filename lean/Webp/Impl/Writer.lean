import Webp.Go.Basic
import Webp.Impl.Parser
import Webp.Impl.Demux
/-
  Implementation model of the container *writers* of the public encoder
  (/repo/encode.go: `writeRIFF`, `writeRIFFSimple`, `writeRIFFExtended`, `putLE24`, the
  header callback of `encodeLosslessToWriter` together with the trailer written by
  /repo/internal/lossless/encode.go `EncodeToWriter`) and of the VP8 frame assembler
  (/repo/internal/lossy/encode_syntax.go `(*VP8Encoder).assembleFrame`).

  Transcribed statement by statement.  The two buffered writers allocate `make([]byte, n)` and
  then write at explicit offsets; this is modelled literally (`zeros`, `putAt`, `copyAt`,
  `setAt`, each with Go's bounds checks), *not* as a concatenation, so that the `uint32`
  truncations (`uint32(len(bitstream))`, `8+riffSize` in `uint32`) and the `uint64` size
  computation of the extended writer have exactly the consequences they have in Go (a buffer
  that is too small makes a later slice expression panic).  The concatenation form is a
  *theorem* (`Webp.Proofs.WriterBasic`: `writeRIFFSimple_eq`, `writeRIFFExtended_eq`) under the
  size hypotheses.

  What is not modelled: the `io.Writer` (the result is the byte string handed to `w.Write`; a
  failing writer is outside the properties), and `nil` vs. empty slices — the writers only ever
  test `len(x) > 0`, so both are the empty list here.
-/
namespace Webp.Impl.Writer
open Webp.Go
open Webp.Impl.Parser (ccRIFF ccWEBP ccVP8 ccVP8L ccVP8X ccALPH ccICCP ccEXIF ccXMP
  chunkHeaderSize vp8xChunkSize)

/-- the only error the writers produce themselves: `"webp: RIFF payload too large"` -/
inductive Err where
  | tooLarge
  deriving Repr, DecidableEq, Inhabited

def Err.toString : Err → String
  | .tooLarge => "tooLarge"

abbrev R := Res Err

/-- Go `uint32(x)` for a non-negative `x` -/
@[inline] def u32 (n : Nat) : Nat := n % 4294967296
/-- Go `uint64(x)` for a non-negative `x` -/
@[inline] def u64 (n : Nat) : Nat := n % 18446744073709551616
/-- Go `uint32(i)` for an `int` (two's complement) -/
@[inline] def u32OfInt (i : Int) : Nat := (i % 4294967296).toNat

/-- `make([]byte, n)` -/
def zeros (n : Nat) : Bytes := List.replicate n 0

/-- a fixed-width store into `buf[off:]` (`binary.LittleEndian.PutUint32(buf[off:], v)`,
    `PutUint32(buf[a:a+4], v)`, `putLE24(buf[off:], v)`): panics unless the whole field fits -/
def putAt (buf : Bytes) (off : Nat) (src : Bytes) : R Bytes :=
  if off + src.length ≤ buf.length then .ok (buf.take off ++ src ++ buf.drop (off + src.length))
  else .panic

/-- `copy(buf[off:], src)`: panics if `off > len(buf)`, copies `min(len(buf)-off, len(src))` bytes -/
def copyAt (buf : Bytes) (off : Nat) (src : Bytes) : R Bytes :=
  if off ≤ buf.length then
    .ok (buf.take off ++ src.take (min (buf.length - off) src.length)
          ++ buf.drop (off + min (buf.length - off) src.length))
  else .panic

/-- `buf[i] = v` -/
def setAt (buf : Bytes) (i : Nat) (v : UInt8) : R Bytes :=
  if i < buf.length then .ok (buf.set i v) else .panic

/-! ## writeRIFFSimple -/

/-- encode.go writeRIFFSimple (`fourcc` is a `uint32`; only its low 32 bits are written) -/
def writeRIFFSimple (fourcc : Nat) (bitstream : Bytes) : R Bytes := do
  let payloadSize := u32 bitstream.length
  let paddedPayload := u32 (payloadSize + payloadSize % 2)
  let riffSize := u32 (4 + chunkHeaderSize + paddedPayload)
  let buf := zeros (u32 (8 + riffSize))
  let buf ← putAt buf 0 (putLE32 ccRIFF)
  let buf ← putAt buf 4 (putLE32 riffSize)
  let buf ← putAt buf 8 (putLE32 ccWEBP)
  let buf ← putAt buf 12 (putLE32 fourcc)
  let buf ← putAt buf 16 (putLE32 payloadSize)
  let buf ← copyAt buf 20 bitstream
  if payloadSize % 2 ≠ 0 then
    setAt buf (u32 (20 + payloadSize)) 0
  else pure buf

/-! ## the streaming path of `encodeLosslessToWriter` -/

/-- the 20 bytes the header callback writes, as a function of `bitstreamSize` -/
def streamingHeader (bitstreamSize : Nat) : Bytes :=
  let payloadSize := u32 bitstreamSize
  let paddedPayload := u32 (payloadSize + payloadSize % 2)
  let riffSize := u32 (4 + chunkHeaderSize + paddedPayload)
  putLE32 ccRIFF ++ putLE32 riffSize ++ putLE32 ccWEBP ++ putLE32 ccVP8L ++ putLE32 payloadSize

/-- lossless.EncodeToWriter after `encodeStream`: header callback, bitstream, pad byte when
    `len(bs)&1 != 0` -/
def streamingWrite (bs : Bytes) : Bytes :=
  streamingHeader bs.length ++ bs ++ (if bs.length % 2 ≠ 0 then [0] else [])

/-! ## writeRIFFExtended -/

/-- the closure `paddedChunkSize64` -/
def paddedChunkSize64 (dataLen : Nat) : Nat :=
  u64 (u64 (chunkHeaderSize + u64 dataLen) + u64 dataLen % 2)

/-- the VP8L header's `alpha_is_used` bit as writeRIFFExtended reads it -/
def vp8lAlphaBit (fourcc : Nat) (bs : Bytes) : Bool :=
  fourcc = ccVP8L ∧ bs.length ≥ 5 ∧ byteAt bs 0 = 0x2f ∧ le32 bs 1 / 268435456 % 2 ≠ 0

/-- `flags` of writeRIFFExtended -/
def vp8xFlags (fourcc : Nat) (bs alpha icc exif xmp : Bytes) : Nat :=
  let flags := 0
  let flags := if alpha.length > 0 then flags ||| 0x10 else flags
  let flags := if vp8lAlphaBit fourcc bs then flags ||| 0x10 else flags
  let flags := if icc.length > 0 then flags ||| 0x20 else flags
  let flags := if exif.length > 0 then flags ||| 0x08 else flags
  let flags := if xmp.length > 0 then flags ||| 0x04 else flags
  flags

/-- `riffSize64` of writeRIFFExtended (every `+=` is a `uint64` addition) -/
def riffSize64 (bs alpha icc exif xmp : Bytes) : Nat :=
  let s := u64 (u64 (4 + chunkHeaderSize) + vp8xChunkSize)
  let s := if icc.length > 0 then u64 (s + paddedChunkSize64 icc.length) else s
  let s := if alpha.length > 0 then u64 (s + paddedChunkSize64 alpha.length) else s
  let s := u64 (s + paddedChunkSize64 bs.length)
  let s := if exif.length > 0 then u64 (s + paddedChunkSize64 exif.length) else s
  let s := if xmp.length > 0 then u64 (s + paddedChunkSize64 xmp.length) else s
  s

/-- the buffer and the running `off` of writeRIFFExtended -/
structure W where
  buf : Bytes
  off : Nat
  deriving Repr, DecidableEq, Inhabited

/-- `binary.LittleEndian.PutUint32(buf[off:], v); off += 4` -/
def W.put32 (s : W) (v : Nat) : R W := do
  let b ← putAt s.buf s.off (putLE32 v)
  pure ⟨b, s.off + 4⟩

/-- `putLE24(buf[off:], v); off += 3` -/
def W.put24 (s : W) (v : Nat) : R W := do
  let b ← putAt s.buf s.off (putLE24 v)
  pure ⟨b, s.off + 3⟩

/-- the closure `writeChunk` -/
def W.chunk (s : W) (fcc : Nat) (data : Bytes) : R W := do
  let s ← s.put32 fcc
  let s ← s.put32 (u32 data.length)
  let b ← copyAt s.buf s.off data
  let s : W := ⟨b, s.off + data.length⟩
  if data.length % 2 ≠ 0 then
    let b ← setAt s.buf s.off 0
    pure ⟨b, s.off + 1⟩
  else pure s

/-- `if len(data) > 0 { writeChunk(fcc, data) }` -/
def W.optChunk (s : W) (fcc : Nat) (data : Bytes) : R W :=
  if data.length > 0 then s.chunk fcc data else pure s

/-- encode.go writeRIFFExtended.  `width`, `height` are Go `int`s. -/
def writeRIFFExtended (fourcc : Nat) (bitstreamData alphaData : Bytes) (width height : Int)
    (icc exif xmp : Bytes) : R Bytes :=
  let flags := vp8xFlags fourcc bitstreamData alphaData icc exif xmp
  let riffSize64 := riffSize64 bitstreamData alphaData icc exif xmp
  if riffSize64 > 4294967295 - 8 then .err .tooLarge
  else do
    let riffSize := u32 riffSize64
    let totalSize := u32 (8 + riffSize)
    let s : W := ⟨zeros totalSize, 0⟩
    let s ← s.put32 ccRIFF
    let s ← s.put32 riffSize
    let s ← s.put32 ccWEBP
    let s ← s.put32 ccVP8X
    let s ← s.put32 vp8xChunkSize
    let s ← s.put32 flags
    let s ← s.put24 (u32OfInt (width - 1))
    let s ← s.put24 (u32OfInt (height - 1))
    let s ← s.optChunk ccICCP icc
    let s ← s.optChunk ccALPH alphaData
    let s ← s.chunk fourcc bitstreamData
    let s ← s.optChunk ccEXIF exif
    let s ← s.optChunk ccXMP xmp
    pure s.buf

/-! ## writeRIFF and the dispatch in `Encode` -/

/-- the three metadata blobs of `EncoderOptions` -/
structure Meta where
  icc : Bytes := []
  exif : Bytes := []
  xmp : Bytes := []
  deriving Repr, DecidableEq, Inhabited

/-- `len(opts.ICC) > 0 || len(opts.EXIF) > 0 || len(opts.XMP) > 0` -/
def Meta.any (m : Meta) : Bool := m.icc.length > 0 || m.exif.length > 0 || m.xmp.length > 0

/-- `opts != nil && (len(opts.ICC) > 0 || …)` -/
def hasMetadata : Option Meta → Bool
  | some m => m.any
  | none => false

/-- `if opts != nil { icc, exif, xmp = opts.ICC, opts.EXIF, opts.XMP }` -/
def metaOf : Option Meta → Meta
  | some m => m
  | none => {}

/-- encode.go writeRIFF (`opts = none` is a nil `*EncoderOptions`) -/
def writeRIFF (fourcc : Nat) (bitstream alphaData : Bytes) (width height : Int)
    (opts : Option Meta) : R Bytes :=
  if alphaData.length > 0 ∨ hasMetadata opts = true then
    writeRIFFExtended fourcc bitstream alphaData width height
      (metaOf opts).icc (metaOf opts).exif (metaOf opts).xmp
  else writeRIFFSimple fourcc bitstream

/-- The container part of `Encode` (after validation, with `opts` non-nil): given what the codec
    returned (`bitstream`, and for lossy the ALPH payload), which bytes reach the writer.
    Lossless without metadata takes the streaming path; lossless with metadata passes
    `alphaData = nil`. -/
def encodeContainer (lossless : Bool) (bitstream alphaData : Bytes) (width height : Int)
    (m : Meta) : R Bytes :=
  if lossless then
    if !m.any then .ok (streamingWrite bitstream)
    else writeRIFF ccVP8L bitstream [] width height (some m)
  else writeRIFF ccVP8 bitstream alphaData width height (some m)

/-! ## reading metadata back: mux.(*Demuxer).GetChunk -/

/-- mux/demux.go GetChunk on a parsed demuxer state (`none` = `ErrChunkNotFound`).  ICCP, EXIF
    and XMP are served from the dedicated fields, every other id from the chunk list (first
    match). -/
def getChunk (s : Webp.Impl.Demux.State) (id : Nat) : Option Bytes :=
  if id = ccICCP then s.iccData
  else if id = ccEXIF then s.exifData
  else if id = ccXMP then s.xmpData
  else (s.chunks.find? (fun c => c.id = id)).map (·.data)

/-! ## lossy.assembleFrame -/

/-- the three bytes `byte(v), byte(v>>8), byte(v>>16)` -/
def low24 (v : Nat) : Bytes :=
  [UInt8.ofNat (v % 256), UInt8.ofNat (v / 256 % 256), UInt8.ofNat (v / 65536 % 256)]

/-- `tag` of assembleFrame: key frame, profile 0, show = 1, `uint32(len(part0)) << 5` -/
def frameTag (part0Len : Nat) : Nat := (0 ||| (0 <<< 1) ||| (1 <<< 4)) ||| u32 (u32 part0Len <<< 5)

/-- the `N-1` three-byte partition sizes (`byte(sz), byte(sz>>8), byte(sz>>16)`) -/
def partSizeTable : List Bytes → Bytes
  | [] => []
  | [_] => []
  | p :: q :: rest => low24 p.length ++ partSizeTable (q :: rest)

/-- internal/lossy/encode_syntax.go assembleFrame (`w`, `h` are `enc.width`, `enc.height`, which
    `NewEncoder` guarantees to be positive).  The function has no failure path: the result is
    always `ok`.  Nothing checks `len(part0) < 2^19` or `len(tokenParts[i]) < 2^24`. -/
def assembleFrame (w h : Nat) (part0 : Bytes) (tokenParts : List Bytes) : R Bytes :=
  let tag := frameTag part0.length
  .ok (low24 tag ++ [0x9d, 0x01, 0x2a] ++ putLE16 (w % 16384) ++ putLE16 (h % 16384)
        ++ part0 ++ partSizeTable tokenParts ++ tokenParts.flatten)

end Webp.Impl.Writer
