import Webp.Spec.VP8L.Decode
import Webp.Impl.LTransform
/-
  Implementation models of the ENTROPY layer of the VP8L codec (properties C01 / C03).

  Transcribed statement by statement from /repo:

   (a) internal/lossless/huffman.go        `getNextKey`, `replicateValue`, `nextTableBitSize`,
                                            `buildHuffmanTableSize`, `BuildHuffmanTableScratch`, `ReadSymbol`
   (b) internal/lossless/encode_huffman.go `reverseBits`, `generateCanonicalCodes` (libwebp: ConvertBitDepthsToSymbols)
   (c) internal/lossless/encode_huffman.go `codeRepeatedZeros`, `codeRepeatedValues`, `BuildCodeLengthTokens`,
                                            `StoreHuffmanTreeOfHuffmanTreeToBitMask`, `StoreHuffmanTreeToBitMask`,
                                            `storeSimpleHuffmanCode`, `storeFullHuffmanCode`, `StoreHuffmanCode`,
                                            `clearHuffmanTreeIfOnlyOneSymbol`
   (d) internal/bitio/writer_lossless.go   `WriteBits`, `flushBits`, `Finish`
       internal/bitio/reader_lossless.go   `NewLosslessReader`, `shiftBytes`, `ReadBits`, `FillBitWindow`,
                                            `PrefetchBits`, `SetBitPos`, `IsEndOfStream`
   (e) internal/lossless/decode_image.go   `copyBlock32`, `getMetaIndex`/`getHTreeGroup`, the pixel loop of
                                            `decodeImageData` (deferred colour-cache insertion, row/col bookkeeping)
   (f) internal/lossless/encode.go         `writeHuffmanCode`, `storeImageData` (token emission)
       internal/lossless/encode_backward.go `BackwardReferences2DLocality`, `BackwardRefsWithLocalCache`
                                            (only the REPRESENTATION of the references, not the search)

  Core Lean only.  Bits are `List Bool` in stream order (first bit first).  Heuristic inputs
  (`CreateHuffmanTree`'s length vectors, the backward-reference search) are parameters.
-/
namespace Webp.Impl.VP8LEntropy
open Webp.Go (Res)
open Webp.Spec.VP8L (BitReader Err Token Code)

/-! ## bits -/

/-- the `n` low bits of `v`, least significant first (the order `WriteBits(v, n)` emits them) -/
def bitsLE (v : Nat) : Nat → List Bool
  | 0 => []
  | n + 1 => (v % 2 == 1) :: bitsLE (v / 2) n

/-- value of a bit list read LSB-first (`ReadBits`) -/
def ofBitsLE : List Bool → Nat
  | [] => 0
  | b :: r => b.toNat + 2 * ofBitsLE r

/-- bits of a byte string in stream order -/
def bytesToBits : List UInt8 → List Bool
  | [] => []
  | b :: r => bitsLE b.toNat 8 ++ bytesToBits r

/-- the unread bits of a spec reader -/
def restBits (br : BitReader) : List Bool := (bytesToBits br.data.data.toList).drop br.pos

/-- `PrefetchBits` without the window: the next `n` bits as a number, zeros past the end -/
def peekBits (br : BitReader) (n : Nat) : Nat := ofBitsLE ((restBits br).take n)

/-! ## (a) two-level lookup tables (huffman.go) -/

/-- `HuffmanCode` -/
structure HCode where
  bits : Nat := 0
  value : Nat := 0
  deriving Repr, DecidableEq, Inhabited

abbrev Table := Array HCode

/-- errors of `BuildHuffmanTable` -/
inductive TErr where
  | emptyCodeLengths    -- ErrEmptyCodeLengths
  | invalidTree         -- ErrInvalidTree
  deriving Repr, DecidableEq, Inhabited

def maxLen : Nat := 15

/-- `for key&step != 0 { step >>= 1 }` -/
def nextKeyStep (key : Nat) : (fuel : Nat) → (step : Nat) → Nat
  | 0, step => step
  | f + 1, step => if key &&& step ≠ 0 then nextKeyStep key f (step >>> 1) else step

/-- `getNextKey(key, length)`; `length ≥ 1` -/
def getNextKey (key len : Nat) : Nat :=
  let step := nextKeyStep key len (1 <<< (len - 1))
  if step ≠ 0 then (key &&& (step - 1)) + step else key

/-- `for i := end - step; i >= 0; i -= step { table[i] = code }` on `table = t[base:]`;
    an index outside the slice panics -/
def replicateLoop (base step : Nat) (c : HCode) : (fuel : Nat) → (i : Nat) → Table → Res TErr Table
  | 0, _, _ => .hang
  | f + 1, i, t =>
    if base + i < t.size then
      let t := t.setIfInBounds (base + i) c
      if i ≥ step then replicateLoop base step c f (i - step) t else .ok t
    else .panic

def replicateValue (t : Table) (base step end_ : Nat) (c : HCode) : Res TErr Table :=
  if base > t.size then .panic            -- `table[off:]`
  else if end_ < step then .ok t          -- `end - step < 0`: no iteration
  else if step = 0 then .hang
  else replicateLoop base step c (end_ / step + 1) (end_ - step) t

/-- `nextTableBitSize(count, length, rootBits)`; `left` is a Go `int` -/
def nextTableBitSizeLoop (count : Array Nat) : (fuel : Nat) → (len : Nat) → (left : Int) → Nat
  | 0, len, _ => len
  | f + 1, len, left =>
    if len < maxLen then
      let left := left - (count.getD len 0 : Nat)
      if left ≤ 0 then len else nextTableBitSizeLoop count f (len + 1) (left * 2)
    else len

def nextTableBitSize (count : Array Nat) (len rootBits : Nat) : Nat :=
  nextTableBitSizeLoop count maxLen len ((1 <<< (len - rootBits) : Nat) : Int) - rootBits

/-- `count[cl]++` over the code lengths (all `≤ 15` here) -/
def countLengths (lens : Array Nat) : Array Nat := Webp.Spec.VP8L.lengthCounts lens

/-- `offset[1] = 0; for l := 1; l < 15; l++ { if count[l] > 1<<l → invalid; offset[l+1] = offset[l] + count[l] }` -/
def offsetsLoop (count : Array Nat) : (fuel : Nat) → (l : Nat) → (offs : Array Nat) → Option (Array Nat)
  | 0, _, offs => some offs
  | f + 1, l, offs =>
    if count.getD l 0 > 1 <<< l then none
    else offsetsLoop count f (l + 1) (offs.setIfInBounds (l + 1) (offs.getD l 0 + count.getD l 0))

def offsets (count : Array Nat) : Option (Array Nat) :=
  offsetsLoop count (maxLen - 1) 1 (Array.replicate (maxLen + 1) 0)

/-- the sorting pass: `if cl > 0 { if offset[cl] >= n → invalid; sorted[offset[cl]] = symbol; offset[cl]++ }` -/
def sortLoop (lens : Array Nat) : (fuel : Nat) → (symbol : Nat) → (sorted offs : Array Nat) →
    Option (Array Nat × Array Nat)
  | 0, _, sorted, offs => some (sorted, offs)
  | f + 1, symbol, sorted, offs =>
    let cl := lens.getD symbol 0
    if cl > 0 then
      let o := offs.getD cl 0
      if o ≥ lens.size then none
      else sortLoop lens f (symbol + 1) (sorted.setIfInBounds o symbol) (offs.setIfInBounds cl (o + 1))
    else sortLoop lens f (symbol + 1) sorted offs

/-- state of the tree walk shared by the two passes -/
structure Walk where
  count : Array Nat
  key : Nat := 0
  numNodes : Int := 1
  numOpen : Int := 1
  deriving Repr, Inhabited

/-! ### first pass: `buildHuffmanTableSize` -/

/-- `for ; count[l] > 0; count[l]-- { key = getNextKey(key, l) }` -/
def sizeRootInner (l : Nat) : (n : Nat) → Walk → Walk
  | 0, w => w
  | n + 1, w =>
    sizeRootInner l n { w with key := getNextKey w.key l, count := w.count.setIfInBounds l n }

/-- `for l := 1; l <= rootBits; l++ { … }`; `none` = `return 0` -/
def sizeRootOuter (rootBits : Nat) : (fuel : Nat) → (l : Nat) → Walk → Option Walk
  | 0, _, w => some w
  | f + 1, l, w =>
    if l ≤ rootBits then
      let numOpen := w.numOpen * 2
      let numNodes := w.numNodes + numOpen
      let numOpen := numOpen - (w.count.getD l 0 : Nat)
      if numOpen < 0 then none
      else sizeRootOuter rootBits f (l + 1)
        (sizeRootInner l (w.count.getD l 0) { w with numOpen, numNodes })
    else some w

/-- second-level state of the size pass -/
structure SizeSt where
  w : Walk
  low : Nat            -- `0xffffffff` initially
  totalSize : Nat
  deriving Repr, Inhabited

def noLow : Nat := 0xffffffff

def sizeSubInner (rootBits l : Nat) : (n : Nat) → SizeSt → SizeSt
  | 0, s => s
  | n + 1, s =>
    let mask := (1 <<< rootBits) - 1
    let s :=
      if s.w.key &&& mask ≠ s.low then
        { s with totalSize := s.totalSize + (1 <<< nextTableBitSize s.w.count l rootBits),
                 low := s.w.key &&& mask }
      else s
    sizeSubInner rootBits l n
      { s with w := { s.w with key := getNextKey s.w.key l, count := s.w.count.setIfInBounds l n } }

def sizeSubOuter (rootBits : Nat) : (fuel : Nat) → (l : Nat) → SizeSt → Option SizeSt
  | 0, _, s => some s
  | f + 1, l, s =>
    if l ≤ maxLen then
      let numOpen := s.w.numOpen * 2
      let numNodes := s.w.numNodes + numOpen
      let numOpen := numOpen - (s.w.count.getD l 0 : Nat)
      if numOpen < 0 then none
      else sizeSubOuter rootBits f (l + 1)
        (sizeSubInner rootBits l (s.w.count.getD l 0) { s with w := { s.w with numOpen, numNodes } })
    else some s

/-- `buildHuffmanTableSize(rootBits, codeLengths)`; 0 = invalid -/
def buildTableSize (rootBits : Nat) (lens : Array Nat) : Nat :=
  if lens.any (· > maxLen) then 0
  else
    let count := countLengths lens
    if count.getD 0 0 = lens.size then 0
    else
      match offsets count with
      | none => 0
      | some offs =>
        match sortLoop lens lens.size 0 (Array.replicate lens.size 0) offs with
        | none => 0
        | some (_, offs) =>
          if offs.getD maxLen 0 = 1 then 1 <<< rootBits
          else
            match sizeRootOuter rootBits rootBits 1 { count } with
            | none => 0
            | some w =>
              match sizeSubOuter rootBits (maxLen - rootBits) (rootBits + 1)
                  { w, low := noLow, totalSize := 1 <<< rootBits } with
              | none => 0
              | some s =>
                if s.w.numNodes ≠ 2 * (offs.getD maxLen 0 : Nat) - 1 then 0 else s.totalSize

/-! ### second pass: `BuildHuffmanTableScratch` -/

structure BuildSt where
  w : Walk
  table : Table
  symbol : Nat := 0
  low : Nat := noLow
  tableOff : Nat := 0
  tableBits : Nat
  tableSize : Nat
  deriving Repr, Inhabited

/-- root table: `for ; count[l] > 0; count[l]-- { replicateValue(rootTable[key:], step, tableSize, code); key = getNextKey(key, l) }` -/
def buildRootInner (sorted : Array Nat) (l step : Nat) : (n : Nat) → BuildSt → Res TErr BuildSt
  | 0, s => .ok s
  | n + 1, s =>
    let code : HCode := { bits := l, value := sorted.getD s.symbol 0 }
    match replicateValue s.table s.w.key step s.tableSize code with
    | .ok t =>
      buildRootInner sorted l step n
        { s with table := t, symbol := s.symbol + 1,
                 w := { s.w with key := getNextKey s.w.key l, count := s.w.count.setIfInBounds l n } }
    | .err e => .err e
    | .panic => .panic
    | .hang => .hang

def buildRootOuter (sorted : Array Nat) (rootBits : Nat) : (fuel : Nat) → (l step : Nat) → BuildSt → Res TErr BuildSt
  | 0, _, _, s => .ok s
  | f + 1, l, step, s =>
    if l ≤ rootBits then
      let numOpen := s.w.numOpen * 2
      let numNodes := s.w.numNodes + numOpen
      let numOpen := numOpen - (s.w.count.getD l 0 : Nat)
      if numOpen < 0 then .err .invalidTree
      else
        match buildRootInner sorted l step (s.w.count.getD l 0) { s with w := { s.w with numOpen, numNodes } } with
        | .ok s => buildRootOuter sorted rootBits f (l + 1) (step * 2) s
        | .err e => .err e
        | .panic => .panic
        | .hang => .hang
    else .ok s

/-- second level: the body of `for ; count[l] > 0; count[l]--` -/
def buildSubInner (sorted : Array Nat) (rootBits totalSize l step : Nat) : (n : Nat) → BuildSt → Res TErr BuildSt
  | 0, s => .ok s
  | n + 1, s =>
    let mask := (1 <<< rootBits) - 1
    let opened : Res TErr BuildSt :=
      if s.w.key &&& mask ≠ s.low then
        let tableOff := s.tableOff + s.tableSize
        let tableBits := nextTableBitSize s.w.count l rootBits
        let tableSize := 1 <<< tableBits
        if tableOff + tableSize > totalSize then .err .invalidTree
        else
          let low := s.w.key &&& mask
          if low < s.table.size then
            .ok { s with tableOff, tableBits, tableSize, low,
                         table := s.table.setIfInBounds low { bits := tableBits + rootBits, value := tableOff } }
          else .panic
      else .ok s
    match opened with
    | .ok s =>
      let code : HCode := { bits := l - rootBits, value := sorted.getD s.symbol 0 }
      let off := s.tableOff + (s.w.key >>> rootBits)
      if off ≥ totalSize then .err .invalidTree
      else
        match replicateValue s.table off step s.tableSize code with
        | .ok t =>
          buildSubInner sorted rootBits totalSize l step n
            { s with table := t, symbol := s.symbol + 1,
                     w := { s.w with key := getNextKey s.w.key l, count := s.w.count.setIfInBounds l n } }
        | .err e => .err e
        | .panic => .panic
        | .hang => .hang
    | .err e => .err e
    | .panic => .panic
    | .hang => .hang

def buildSubOuter (sorted : Array Nat) (rootBits totalSize : Nat) :
    (fuel : Nat) → (l step : Nat) → BuildSt → Res TErr BuildSt
  | 0, _, _, s => .ok s
  | f + 1, l, step, s =>
    if l ≤ maxLen then
      let numOpen := s.w.numOpen * 2
      let numNodes := s.w.numNodes + numOpen
      let numOpen := numOpen - (s.w.count.getD l 0 : Nat)
      if numOpen < 0 then .err .invalidTree
      else
        match buildSubInner sorted rootBits totalSize l step (s.w.count.getD l 0)
            { s with w := { s.w with numOpen, numNodes } } with
        | .ok s => buildSubOuter sorted rootBits totalSize f (l + 1) (step * 2) s
        | .err e => .err e
        | .panic => .panic
        | .hang => .hang
    else .ok s

/-- `BuildHuffmanTableScratch(rootBits, codeLengths, _)` (the scratch buffers only change where
    the zeroed table and `sorted` live).  `rootBits ≥ 1`. -/
def buildTable (rootBits : Nat) (lens : Array Nat) : Res TErr Table :=
  if lens.size = 0 then .err .emptyCodeLengths
  else
    let totalSize := buildTableSize rootBits lens
    if totalSize = 0 then .err .invalidTree
    else
      let table : Table := Array.replicate totalSize {}
      if lens.any (· > maxLen) then .err .invalidTree
      else
        let count := countLengths lens
        if count.getD 0 0 = lens.size then .err .emptyCodeLengths
        else
          match offsets count with
          | none => .err .invalidTree
          | some offs =>
            match sortLoop lens lens.size 0 (Array.replicate lens.size 0) offs with
            | none => .err .invalidTree
            | some (sorted, offs) =>
              if offs.getD maxLen 0 = 1 then
                replicateValue table 0 1 totalSize { bits := 0, value := sorted.getD 0 0 }
              else
                -- "Re-compute count histogram"
                let count := countLengths lens
                let s0 : BuildSt := { w := { count }, table, tableBits := rootBits, tableSize := 1 <<< rootBits }
                match buildRootOuter sorted rootBits rootBits 1 2 s0 with
                | .ok s =>
                  match buildSubOuter sorted rootBits totalSize (maxLen - rootBits) (rootBits + 1) 2 s with
                  | .ok s =>
                    if s.w.numNodes ≠ 2 * (offs.getD maxLen 0 : Nat) - 1 then .err .invalidTree
                    else .ok s.table
                  | .err e => .err e
                  | .panic => .panic
                  | .hang => .hang
                | .err e => .err e
                | .panic => .panic
                | .hang => .hang

/-- `ReadSymbol(table, prefetchBits)` with root size `rootBits` (Go: the constant 8):
    `(value, bitsUsed)`; `none` is the `-1` sentinel; an index outside the table panics -/
def readSymbolRaw (rootBits : Nat) (table : Table) (prefetch : Nat) : Res TErr (Option (Nat × Nat)) :=
  let i := prefetch &&& ((1 <<< rootBits) - 1)
  if h : i < table.size then
    let entry := table[i]
    if entry.bits > rootBits then
      let nbits := entry.bits - rootBits
      let idx := entry.value + ((prefetch >>> rootBits) &&& ((1 <<< nbits) - 1))
      if h2 : idx < table.size then
        .ok (some (table[idx].value, rootBits + table[idx].bits))
      else .ok none
    else .ok (some (entry.value, entry.bits))
  else .panic

/-- `readSymbolFromTree` on the specification's reader: look at the next 32 bits (zeros past the
    end — what the window holds after `FillBitWindow`), look the symbol up, `SetBitPos`; the
    callers' `IsEndOfStream` test is the `eos` branch.  The `-1` sentinel is `ErrBitstream`. -/
def readSymbol (rootBits : Nat) (table : Table) (br : BitReader) : Res Err (Nat × BitReader) :=
  match readSymbolRaw rootBits table (peekBits br 32) with
  | .ok (some (v, used)) =>
    if br.pos + used > 8 * br.data.size then .err .eos
    else .ok (v, { br with pos := br.pos + used })
  | .ok none => .err .noSymbol
  | .err _ => .err .noSymbol
  | .panic => .panic
  | .hang => .hang

/-! ## (b) canonical code assignment of the encoder (encode_huffman.go `generateCanonicalCodes`) -/

/-- `reverseBits(v, nBits)`: `for i < nBits { result = (result << 1) | (v & 1); v >>= 1 }; uint16(result)` -/
def reverseLoop : (n : Nat) → (v result : Nat) → Nat
  | 0, _, result => result
  | n + 1, v, result => reverseLoop n (v >>> 1) ((result <<< 1) ||| (v &&& 1))

def reverseBits (v nBits : Nat) : Nat := reverseLoop nBits v 0 % 65536

/-- `for bits := 1; bits <= maxLen; bits++ { code = (code + blCount[bits-1]) << 1; nextCode[bits] = code }` -/
def nextCodeLoop (blCount : Array Nat) : (fuel : Nat) → (bits code : Nat) → (next : Array Nat) → Array Nat
  | 0, _, _, next => next
  | f + 1, bits, code, next =>
    let code := (code + blCount.getD (bits - 1) 0) <<< 1
    nextCodeLoop blCount f (bits + 1) code (next.setIfInBounds bits code)

/-- `for i < n { cl := CodeLengths[i]; if cl > 0 { Codes[i] = reverseBits(nextCode[cl], cl); nextCode[cl]++ } }` -/
def assignLoop (lens : Array Nat) : (fuel : Nat) → (i : Nat) → (next codes : Array Nat) → Array Nat
  | 0, _, _, codes => codes
  | f + 1, i, next, codes =>
    let cl := lens.getD i 0
    if cl > 0 then
      assignLoop lens f (i + 1) (next.setIfInBounds cl (next.getD cl 0 + 1))
        (codes.setIfInBounds i (reverseBits (next.getD cl 0) cl))
    else assignLoop lens f (i + 1) next codes

/-- `generateCanonicalCodes`: `tree.Codes` (initially zero) for code lengths `≤ 15`
    (a larger length indexes `blCount` out of range: Go panics; `CreateHuffmanTree` never
    produces one).  Codes are bit-reversed, i.e. ready for LSB-first emission. -/
def canonicalCodes (lens : Array Nat) : Array Nat :=
  let codes := Array.replicate lens.size 0
  let maxL := lens.foldl max 0
  if maxL = 0 then codes
  else
    -- `blCount[cl]++` for `cl > 0`, then `blCount[0] = 0`
    let blCount := (Webp.Spec.VP8L.lengthCounts lens).setIfInBounds 0 0
    let next := nextCodeLoop blCount maxL 1 0 (Array.replicate (maxLen + 1) 0)
    assignLoop lens lens.size 0 next codes

/-- `HuffmanTreeCode`: code lengths and (bit-reversed) codes, `NumSymbols = lens.size` -/
structure HuffTree where
  lens : Array Nat
  codes : Array Nat
  deriving Repr, DecidableEq, Inhabited

/-- what `CreateHuffmanTree` returns for a chosen length vector -/
def HuffTree.ofLens (lens : Array Nat) : HuffTree := { lens, codes := canonicalCodes lens }

/-- `clearHuffmanTreeIfOnlyOneSymbol` -/
def HuffTree.clearIfOne (t : HuffTree) : HuffTree :=
  if (t.lens.toList.filter (· ≠ 0)).length > 1 then t
  else { lens := Array.replicate t.lens.size 0, codes := Array.replicate t.codes.size 0 }

/-! ## (c) code-length RLE tokens and the prefix-code header writer -/

/-- one `WriteBits(v, nBits)` call -/
abbrev Call := Nat × Nat

/-- the bits a call sequence puts on the wire, provided every `v < 2^nBits`
    (`WriteBits` does not mask `v`; see `Writer.writeBits`) -/
def callsBits (cs : List Call) : List Bool := cs.flatMap fun c => bitsLE c.1 c.2

/-- `HuffmanTreeToken` -/
structure CLToken where
  code : Nat
  extra : Nat
  deriving Repr, DecidableEq, Inhabited

/-- `codeRepeatedZeros(tokens, repetitions)` -/
def codeRepeatedZeros : (fuel : Nat) → Array CLToken → (reps : Nat) → Array CLToken
  | 0, tokens, _ => tokens
  | f + 1, tokens, reps =>
    if reps ≥ 1 then
      if reps < 3 then
        (List.range reps).foldl (fun t _ => t.push { code := 0, extra := 0 }) tokens
      else if reps < 11 then tokens.push { code := 17, extra := reps - 3 }
      else if reps < 139 then tokens.push { code := 18, extra := reps - 11 }
      else codeRepeatedZeros f (tokens.push { code := 18, extra := 0x7f }) (reps - 138)
    else tokens

def codeRepeatedValuesLoop (value : Nat) : (fuel : Nat) → Array CLToken → (reps : Nat) → Array CLToken
  | 0, tokens, _ => tokens
  | f + 1, tokens, reps =>
    if reps ≥ 1 then
      if reps < 3 then
        (List.range reps).foldl (fun t _ => t.push { code := value, extra := 0 }) tokens
      else if reps < 7 then tokens.push { code := 16, extra := reps - 3 }
      else codeRepeatedValuesLoop value f (tokens.push { code := 16, extra := 3 }) (reps - 6)
    else tokens

/-- `codeRepeatedValues(tokens, repetitions, value, prevValue)` -/
def codeRepeatedValues (tokens : Array CLToken) (reps value prev : Nat) : Array CLToken :=
  if value ≠ prev then
    codeRepeatedValuesLoop value reps (tokens.push { code := value, extra := 0 }) (reps - 1)
  else codeRepeatedValuesLoop value (reps + 1) tokens reps

/-- `for k < n && codeLengths[k] == value { k++ }` -/
def runEnd (lens : Array Nat) (value : Nat) : (fuel : Nat) → (k : Nat) → Nat
  | 0, k => k
  | f + 1, k => if k < lens.size ∧ lens.getD k 0 = value then runEnd lens value f (k + 1) else k

def buildTokensLoop (lens : Array Nat) : (fuel : Nat) → (i prev : Nat) → Array CLToken → Array CLToken
  | 0, _, _, tokens => tokens
  | f + 1, i, prev, tokens =>
    if i < lens.size then
      let value := lens.getD i 0
      let k := runEnd lens value lens.size (i + 1)
      let runs := k - i
      if value = 0 then buildTokensLoop lens f k prev (codeRepeatedZeros (runs + 1) tokens runs)
      else buildTokensLoop lens f k value (codeRepeatedValues tokens runs value prev)
    else tokens

/-- `BuildCodeLengthTokens(codeLengths)`; `prevValue` starts at 8 -/
def buildCodeLengthTokens (lens : Array Nat) : Array CLToken :=
  buildTokensLoop lens (lens.size + 1) 0 8 #[]

def codeLengthCodeOrder : Array Nat := Webp.Spec.VP8L.codeLengthCodeOrder

/-- `for i := 18; i >= 4; i-- { if depth[order[i]] != 0 { numCodes = i + 1; break } }` -/
def numCodesLoop (depth : Array Nat) : (fuel : Nat) → (i : Nat) → Nat
  | 0, _ => 4
  | f + 1, i =>
    if i ≥ 4 then
      if depth.getD (codeLengthCodeOrder.getD i 0) 0 ≠ 0 then i + 1 else numCodesLoop depth f (i - 1)
    else 4

/-- `StoreHuffmanTreeOfHuffmanTreeToBitMask(bw, codeLengthBitDepth)` -/
def storeTreeOfTree (depth : Array Nat) : List Call :=
  let numCodes := numCodesLoop depth 15 18
  (numCodes - 4, 4) :: (List.range numCodes).map fun i => (depth.getD (codeLengthCodeOrder.getD i 0) 0, 3)

/-- `writeHuffmanCode(bw, tree, symbol)` -/
def writeHuffmanCode (t : HuffTree) (symbol : Nat) : List Call :=
  if symbol ≥ t.lens.size then [] else [(t.codes.getD symbol 0, t.lens.getD symbol 0)]

/-- `StoreHuffmanTreeToBitMask(bw, tokens, numTokens, codeLengthTree)` -/
def storeTokens (tokens : List CLToken) (clTree : HuffTree) : List Call :=
  tokens.flatMap fun tok =>
    (clTree.codes.getD tok.code 0, clTree.lens.getD tok.code 0) ::
      (if tok.code ≥ 16 then [(tok.extra, if tok.code = 16 then 2 else if tok.code = 17 then 3 else 7)] else [])

/-- `storeSimpleHuffmanCode(bw, numSymbols, sym0, sym1)` -/
def storeSimpleHuffmanCode (numSymbols sym0 sym1 : Nat) : List Call :=
  if numSymbols = 0 then [(1, 1), (0, 1), (0, 1), (0, 1)]
  else if numSymbols = 1 then
    if sym0 < 2 then [(1, 1), (0, 1), (0, 1), (sym0, 1)] else [(1, 1), (0, 1), (1, 1), (sym0, 8)]
  else
    let (sym0, sym1) := if sym0 > sym1 then (sym1, sym0) else (sym0, sym1)
    (if sym0 ≤ 1 then [(1, 1), (1, 1), (0, 1), (sym0, 1)] else [(1, 1), (1, 1), (1, 1), (sym0, 8)]) ++ [(sym1, 8)]

/-- trailing-zero trimming of `storeFullHuffmanCode`: scan from the last token while the token is
    0 / 17 / 18; returns `(trimmedLength, trailingZeroBits)` -/
def trimLoop (tokens : Array CLToken) (clLens : Array Nat) : (i : Nat) → (trimmed bits : Nat) → Nat × Nat
  | 0, trimmed, bits => (trimmed, bits)
  | i + 1, trimmed, bits =>
    let ix := (tokens.getD i default).code
    if ix = 0 ∨ ix = 17 ∨ ix = 18 then
      trimLoop tokens clLens i (trimmed - 1)
        (bits + clLens.getD ix 0 + (if ix = 17 then 3 else if ix = 18 then 7 else 0))
    else (trimmed, bits)

/-- `storeFullHuffmanCode(bw, tree)`.  `clLens` is what `CreateHuffmanTree(tokenHistogram, 7)`
    returned (a heuristic: a parameter here). -/
def storeFullHuffmanCode (lens : Array Nat) (clLens : Array Nat) : List Call :=
  let tokens := buildCodeLengthTokens lens
  let numTokens := tokens.size
  let clTree := HuffTree.ofLens clLens
  let header := storeTreeOfTree clTree.lens
  let clTree := clTree.clearIfOne
  let (trimmedLength, trailingZeroBits) := trimLoop tokens clTree.lens numTokens numTokens 0
  let writeTrimmed := trimmedLength > 1 ∧ trailingZeroBits > 12
  let length := if writeTrimmed then trimmedLength else numTokens
  let lenCalls : List Call :=
    if writeTrimmed then
      if trimmedLength = 2 then [(1, 1), (0, 3 + 2)]
      else
        let nbits := Webp.Impl.LTransform.bitsLog2Floor (trimmedLength - 2)
        let nbitpairs := nbits / 2 + 1
        [(1, 1), (nbitpairs - 1, 3), (trimmedLength - 2, nbitpairs * 2)]
    else [(0, 1)]
  (0, 1) :: header ++ lenCalls ++ storeTokens (tokens.toList.take length) clTree

/-- first two used symbols and the number of used symbols (`StoreHuffmanCode`'s counting loop) -/
def usedSymbols (lens : Array Nat) : Nat × Nat × Nat :=
  (List.range lens.size).foldl (fun (acc : Nat × Nat × Nat) i =>
    let (sym0, sym1, n) := acc
    if lens.getD i 0 > 0 then
      (if n = 0 then i else sym0, if n = 1 then i else sym1, n + 1)
    else acc) (0, 0, 0)

/-- `StoreHuffmanCode(bw, tree)` -/
def storeHuffmanCode (lens : Array Nat) (clLens : Array Nat) : List Call :=
  let (sym0, sym1, numUnique) := usedSymbols lens
  if numUnique = 0 then storeSimpleHuffmanCode 0 0 0
  else if numUnique ≤ 2 ∧ sym0 < 256 ∧ (numUnique < 2 ∨ sym1 < 256) then
    storeSimpleHuffmanCode numUnique sym0 sym1
  else storeFullHuffmanCode lens clLens

/-! ## (f) token emission (encode.go `storeImageData`, encode_backward.go) -/

/-- `PixOrCopy`; in a `copy`, `dist` is a pixel distance before `BackwardReferences2DLocality`
    and a plane code after it -/
inductive PixOrCopy where
  | literal (argb : UInt32)
  | cacheIdx (idx : Nat)
  | copy (len dist : Nat)
  deriving Repr, DecidableEq, Inhabited

def PixOrCopy.length : PixOrCopy → Nat
  | .copy len _ => len
  | _ => 1

/-- `BackwardReferences2DLocality(xsize, refs)` -/
def locality2D (xsize : Nat) (refs : List PixOrCopy) : List PixOrCopy :=
  refs.map fun
    | .copy len dist => .copy len (Webp.Impl.LTransform.distanceToPlaneCode xsize dist)
    | v => v

/-- colour cache of the encoder (colorcache.go): `HashPix`, `Insert`, `Contains` -/
def ccHash (bits : Nat) (argb : UInt32) : Nat := ((argb * 0x1e35a7bd) >>> (32 - bits).toUInt32).toNat

def ccInsert (bits : Nat) (colors : Array UInt32) (argb : UInt32) : Array UInt32 :=
  colors.setIfInBounds (ccHash bits argb) argb

/-- `for k < length { cc.Insert(argb[pixelIndex]); pixelIndex++ }` -/
def ccInsertRun (bits : Nat) (argb : Array UInt32) : (n : Nat) → (pixelIndex : Nat) → Array UInt32 → Array UInt32
  | 0, _, colors => colors
  | n + 1, i, colors => ccInsertRun bits argb n (i + 1) (ccInsert bits colors (argb.getD i 0))

/-- `BackwardRefsWithLocalCache(argb, cacheBits, refs)`: literals already in the cache become
    cache indices; every pixel is inserted (a hit leaves the cache unchanged) -/
def localCacheLoop (bits : Nat) (argb : Array UInt32) :
    List PixOrCopy → (pixelIndex : Nat) → (colors : Array UInt32) → List PixOrCopy
  | [], _, _ => []
  | .literal a :: rest, i, colors =>
    let key := ccHash bits a
    if colors.getD key 0 = a then .cacheIdx key :: localCacheLoop bits argb rest (i + 1) colors
    else .literal a :: localCacheLoop bits argb rest (i + 1) (ccInsert bits colors a)
  | v :: rest, i, colors =>
    v :: localCacheLoop bits argb rest (i + v.length) (ccInsertRun bits argb v.length i colors)

def refsWithLocalCache (argb : Array UInt32) (cacheBits : Nat) (refs : List PixOrCopy) : List PixOrCopy :=
  if cacheBits = 0 then refs
  else localCacheLoop cacheBits argb refs 0 (Array.replicate (1 <<< cacheBits) 0)

/-- the five trees of one histogram: green, red, blue, alpha, distance -/
abbrev TreeGroup := Array HuffTree

/-- the calls `storeImageData` makes for one token with the trees `codes` -/
def emitRef (codes : TreeGroup) : PixOrCopy → List Call
  | .literal argb =>
    writeHuffmanCode (codes.getD 0 default) ((argb >>> 8) &&& 0xff).toNat ++
    writeHuffmanCode (codes.getD 1 default) ((argb >>> 16) &&& 0xff).toNat ++
    writeHuffmanCode (codes.getD 2 default) (argb &&& 0xff).toNat ++
    writeHuffmanCode (codes.getD 3 default) ((argb >>> 24) &&& 0xff).toNat
  | .cacheIdx idx => writeHuffmanCode (codes.getD 0 default) (256 + 24 + idx)
  | .copy len dist =>
    let (lenCode, lenExtraBits, lenExtraVal) := Webp.Impl.LTransform.prefixEncode len
    let (distCode, distExtraBits, distExtraVal) := Webp.Impl.LTransform.prefixEncode dist
    writeHuffmanCode (codes.getD 0 default) (256 + lenCode) ++
    (if lenExtraBits > 0 then [(lenExtraVal, lenExtraBits)] else []) ++
    writeHuffmanCode (codes.getD 4 default) distCode ++
    (if distExtraBits > 0 then [(distExtraVal, distExtraBits)] else [])

/-- `for x >= width { x -= width; y++ }` -/
def wrapXY (width : Nat) : (fuel : Nat) → (x y : Nat) → Nat × Nat
  | 0, x, y => (x, y)
  | f + 1, x, y => if x ≥ width then wrapXY width f (x - width) (y + 1) else (x, y)

/-- `storeImageData(bw, refs, symbols, huffCodes, width, histoBits, cacheBits)`.  The colour cache
    the Go function also maintains never influences what is written and is omitted. -/
def storeImageDataLoop (symbols : Array Nat) (huffCodes : Array TreeGroup) (width histoBits : Nat) :
    List PixOrCopy → (x y : Nat) → List Call
  | [], _, _ => []
  | v :: rest, x, y =>
    let histoIdx :=
      if huffCodes.size > 1 ∧ histoBits > 0 then
        let symIdx := (y >>> histoBits) * Webp.Spec.VP8L.subSampleSize width histoBits + (x >>> histoBits)
        if symIdx < symbols.size then symbols.getD symIdx 0 else 0
      else 0
    let histoIdx := if histoIdx ≥ huffCodes.size then 0 else histoIdx
    let (x', y') := wrapXY width (v.length + 1) (x + v.length) y
    emitRef (huffCodes.getD histoIdx default) v ++ storeImageDataLoop symbols huffCodes width histoBits rest x' y'

def storeImageData (refs : List PixOrCopy) (symbols : Array Nat) (huffCodes : Array TreeGroup)
    (width histoBits : Nat) : List Call :=
  storeImageDataLoop symbols huffCodes width histoBits refs 0 0

/-! ## (d) the bit writer (bitio/writer_lossless.go) -/

/-- `LosslessWriter`: accumulator, number of used bits, output so far (`buf[:cur]`) -/
structure Writer where
  bits : UInt64 := 0
  used : Nat := 0
  out : Array UInt8 := #[]
  deriving Repr, Inhabited

/-- `flushBits`: 4 bytes little-endian from the low 32 bits; `bits >>= 32; used -= 32` -/
def Writer.flushBits (w : Writer) : Writer :=
  { bits := w.bits >>> 32, used := w.used - 32,
    out := (((w.out.push w.bits.toUInt8).push (w.bits >>> 8).toUInt8).push (w.bits >>> 16).toUInt8).push
      (w.bits >>> 24).toUInt8 }

/-- Go `uint64(v) << uint(used)` (a shift count `≥ 64` gives 0) -/
def shl64 (x : UInt64) (n : Nat) : UInt64 := if n ≥ 64 then 0 else x <<< n.toUInt64

/-- `WriteBits(v, nBits)`: `v` is NOT masked to `nBits` bits -/
def Writer.writeBits (w : Writer) (v : UInt32) (nBits : Nat) : Writer :=
  if nBits = 0 then w
  else
    let w := if w.used ≥ 32 then w.flushBits else w
    { w with bits := w.bits ||| shl64 v.toUInt64 w.used, used := w.used + nBits }

/-- `for bw.used > 0 { buf[cur] = byte(bits); cur++; bits >>= 8; used -= 8 }` (`used` is a Go int) -/
def Writer.finishBytes : (fuel : Nat) → (bits : UInt64) → (used : Int) → Array UInt8 → Array UInt8
  | 0, _, _, out => out
  | f + 1, bits, used, out =>
    if used > 0 then Writer.finishBytes f (bits >>> 8) (used - 8) (out.push bits.toUInt8) else out

def Writer.flushAll : (fuel : Nat) → Writer → Writer
  | 0, w => w
  | f + 1, w => if w.used ≥ 32 then Writer.flushAll f w.flushBits else w

/-- `Finish()` -/
def Writer.finish (w : Writer) : Array UInt8 :=
  let w := Writer.flushAll (w.used / 32 + 1) w
  Writer.finishBytes 8 w.bits w.used w.out

/-- run a sequence of `WriteBits` calls on a fresh writer -/
def runCalls (cs : List Call) : Writer := cs.foldl (fun w c => w.writeBits c.1.toUInt32 c.2) {}

/-! ## (d) the window reader (bitio/reader_lossless.go) -/

/-- `LosslessReader` -/
structure Reader where
  val : UInt64
  buf : Array UInt8
  pos : Nat
  bitPos : Nat := 0
  eos : Bool := false
  deriving Repr, Inhabited

/-- `for i < n { value |= uint64(data[i]) << (8*i) }` -/
def loadInitial (buf : Array UInt8) : (n : Nat) → (i : Nat) → UInt64 → UInt64
  | 0, _, v => v
  | n + 1, i, v => loadInitial buf n (i + 1) (v ||| ((buf.getD i 0).toUInt64 <<< (8 * i).toUInt64))

/-- `NewLosslessReader(data)` -/
def Reader.new (buf : Array UInt8) : Reader :=
  let n := min buf.size 8
  { val := loadInitial buf n 0 0, buf, pos := n }

/-- `IsEndOfStream()` -/
def Reader.isEndOfStream (r : Reader) : Bool := r.eos || (r.pos == r.buf.size && r.bitPos > 64)

/-- `setEndOfStream()` -/
def Reader.setEndOfStream (r : Reader) : Reader := { r with eos := true, bitPos := 0 }

/-- the loop of `shiftBytes` -/
def Reader.shiftLoop : (fuel : Nat) → Reader → Reader
  | 0, r => r
  | f + 1, r =>
    if r.bitPos ≥ 8 ∧ r.pos < r.buf.size then
      Reader.shiftLoop f { r with val := (r.val >>> 8) ||| ((r.buf.getD r.pos 0).toUInt64 <<< 56),
                                  pos := r.pos + 1, bitPos := r.bitPos - 8 }
    else r

/-- `shiftBytes()` -/
def Reader.shiftBytes (r : Reader) : Reader :=
  let r := Reader.shiftLoop (r.bitPos / 8 + 1) r
  if r.isEndOfStream then r.setEndOfStream else r

/-- `PrefetchBits()`: `uint32(val >> (bitPos & 63))` -/
def Reader.prefetchBits (r : Reader) : UInt32 := (r.val >>> (r.bitPos &&& 63).toUInt64).toUInt32

/-- `ReadBits(nBits)` (`nBits ≥ 0`) -/
def Reader.readBits (r : Reader) (nBits : Nat) : UInt32 × Reader :=
  if !r.eos ∧ nBits ≤ 24 then
    let v := r.prefetchBits &&& ((1 <<< nBits.toUInt32) - 1)      -- `kBitMask[nBits]`
    (v, Reader.shiftBytes { r with bitPos := r.bitPos + nBits })
  else (0, r.setEndOfStream)

/-- `doFillBitWindow()` -/
def Reader.doFillBitWindow (r : Reader) : Reader :=
  if r.pos + 4 ≤ r.buf.size then
    let w : UInt64 := (r.buf.getD r.pos 0).toUInt64 ||| ((r.buf.getD (r.pos + 1) 0).toUInt64 <<< 8) |||
      ((r.buf.getD (r.pos + 2) 0).toUInt64 <<< 16) ||| ((r.buf.getD (r.pos + 3) 0).toUInt64 <<< 24)
    { r with val := (r.val >>> 32) ||| (w <<< 32), bitPos := r.bitPos - 32, pos := r.pos + 4 }
  else r.shiftBytes

/-- `FillBitWindow()` -/
def Reader.fillBitWindow (r : Reader) : Reader := if r.bitPos ≥ 32 then r.doFillBitWindow else r

/-- `SetBitPos(BitPos() + n)` -/
def Reader.advance (r : Reader) (n : Nat) : Reader := { r with bitPos := r.bitPos + n }

/-! ## (e) the pixel loop of `decodeImageData` (decode_image.go) -/

/-- `copy(dst[d:d+n], src[s:s+n])` on one array: memmove semantics (the source is read before
    anything is written) -/
def memmove (data : Array UInt32) (d s n : Nat) : Array UInt32 :=
  let src := data.extract s (s + n)
  (List.range n).foldl (fun (a : Array UInt32) i => a.setIfInBounds (d + i) (src.getD i 0)) data

/-- `for copied < length { n := min(copied, length-copied); copy(data[pos+copied:…], data[pos:pos+n]); copied += n }` -/
def doublingLoop (pos length : Nat) : (fuel : Nat) → (copied : Nat) → Array UInt32 → Array UInt32
  | 0, _, data => data
  | f + 1, copied, data =>
    if copied < length then
      let n := if copied > length - copied then length - copied else copied
      doublingLoop pos length f (copied + n) (memmove data (pos + copied) pos n)
    else data

/-- `copyBlock32(data, pos, dist, length)`; the caller has checked `pos ≥ dist` and
    `pos + length ≤ len(data)`.  (`dist = 0` with `length > 0` cannot occur — `PlaneCodeToDistance`
    returns ≥ 1 — and is NOT modelled faithfully: Go's doubling loop would spin forever, the model
    runs out of fuel and returns the buffer unchanged.) -/
def copyBlock32 (data : Array UInt32) (pos dist length : Nat) : Array UInt32 :=
  let src := pos - dist
  if dist ≥ length then memmove data pos src length
  else if dist = 1 then
    let v := data.getD src 0
    (List.range length).foldl (fun (a : Array UInt32) i => a.setIfInBounds (pos + i) v) data
  else
    doublingLoop pos length (length + 1) dist (memmove data pos src dist)

/-- what the loop needs from the header -/
structure LoopParams where
  width : Nat
  height : Nat
  cacheBits : Nat                 -- 0 = `colorCache == nil`
  subsampleBits : Nat := 0        -- `huffmanSubsampleBits`
  huffmanXSize : Nat := 0
  huffmanImage : Array Nat := #[]
  numGroups : Nat := 1            -- `len(htreeGroups)`
  deriving Repr, Inhabited

/-- `getMetaIndex(x, y)` followed by the range fallback of `getHTreeGroup`; `none` = no groups -/
def getHTreeGroup (p : LoopParams) (x y : Nat) : Option Nat :=
  if p.numGroups = 0 then none
  else
    let idx :=
      if p.subsampleBits = 0 then 0
      else
        let i := p.huffmanXSize * (y >>> p.subsampleBits) + (x >>> p.subsampleBits)
        if i ≥ p.huffmanImage.size then 0 else p.huffmanImage.getD i 0
    some (if idx ≥ p.numGroups then 0 else idx)

/-- `col & mask == 0` with `mask = ^0` when there is no meta image -/
def colMaskZero (p : LoopParams) (col : Nat) : Bool :=
  if p.subsampleBits = 0 then col == 0 else col &&& ((1 <<< p.subsampleBits) - 1) == 0

/-- `for lastCached < pos { colorCache.Insert(data[lastCached]); lastCached++ }` (`colorCache != nil`) -/
def flushCache (bits : Nat) (data : Array UInt32) : (n : Nat) → (lastCached : Nat) → (cache : Array UInt32) →
    Array UInt32
  | 0, _, cache => cache
  | n + 1, i, cache => flushCache bits data n (i + 1) (Webp.Spec.VP8L.cacheInsert bits cache (data.getD i 0))

structure LoopSt where
  data : Array UInt32
  pos : Nat := 0
  lastCached : Nat := 0
  row : Nat := 0
  col : Nat := 0
  cache : Array UInt32
  group : Nat
  deriving Repr, Inhabited

/-- flush everything pending (no-op without a cache) -/
def LoopSt.flush (p : LoopParams) (s : LoopSt) : LoopSt :=
  if p.cacheBits = 0 then s
  else { s with cache := flushCache p.cacheBits s.data (s.pos - s.lastCached) s.lastCached s.cache,
                lastCached := max s.lastCached s.pos }

/-- `pos++; col++; if col >= width { col = 0; row++; flush }` -/
def LoopSt.advanceByOne (p : LoopParams) (s : LoopSt) : LoopSt :=
  let s := { s with pos := s.pos + 1, col := s.col + 1 }
  if s.col ≥ p.width then LoopSt.flush p { s with col := 0, row := s.row + 1 } else s

/-- a source of tokens: `next group state` reads one token with the codes of `group`
    (bit reader + five table lookups in Go) -/
structure TokenSource (σ : Type) where
  next : Nat → σ → Res Err (Token × σ)

/-- One iteration of `for pos < srcLast` for the token `t` (general path; the trivial-code and
    packed-table shortcuts are separate, `trivial_paths_eq_general`). -/
def stepToken (p : LoopParams) (t : Token) (s : LoopSt) : Res Err LoopSt :=
  let srcEnd := p.width * p.height
  match t with
  | .literal argb =>
    .ok (LoopSt.advanceByOne p { s with data := s.data.setIfInBounds s.pos argb })
  | .copy length dist =>
    if s.pos < dist then .err .copyBeforeStart
    else if srcEnd - s.pos < length then .err .copyPastEnd
    else
      let data := copyBlock32 s.data s.pos dist length
      let (col, row) := wrapXY p.width (length + 1) (s.col + length) s.row
      let s := { s with data, pos := s.pos + length, col, row }
      -- `if col&mask != 0 { htreeGroup = getHTreeGroup(col, row) }`
      let s := if colMaskZero p col then s else { s with group := (getHTreeGroup p col row).getD 0 }
      .ok (LoopSt.flush p s)
  | .cache key =>
    -- reachable only with a cache (`code < colorCacheLimit`)
    let s := LoopSt.flush p s
    if h : key < s.cache.size then
      .ok (LoopSt.advanceByOne p { s with data := s.data.setIfInBounds s.pos s.cache[key] })
    else .err .cacheIndex

/-- the loop; `wrapXY` is the same `for col >= width` idiom as in the encoder -/
def pixelLoop {σ : Type} (src : TokenSource σ) (p : LoopParams) :
    (fuel : Nat) → LoopSt → σ → Res Err (LoopSt × σ)
  | 0, _, _ => .hang
  | fuel + 1, s, st =>
    if s.pos < p.width * p.height then
      -- `if (col & mask) == 0 { htreeGroup = getHTreeGroup(col, row) }`
      let s := if colMaskZero p s.col then { s with group := (getHTreeGroup p s.col s.row).getD 0 } else s
      match src.next s.group st with
      | .ok (t, st) =>
        match stepToken p t s with
        | .ok s => pixelLoop src p fuel s st
        | .err e => .err e
        | .panic => .panic
        | .hang => .hang
      | .err e => .err e
      | .panic => .panic
      | .hang => .hang
    else .ok (s, st)

/-- `decodeImageData(data, width, height, height)` on a zeroed `data` of `width*height` pixels -/
def decodePixelLoop {σ : Type} (src : TokenSource σ) (p : LoopParams) (st : σ) : Res Err (Array UInt32 × σ) :=
  let npix := p.width * p.height
  if npix > 0 ∧ p.numGroups = 0 then .err .groupIndex
  else
    let s0 : LoopSt := { data := Array.replicate npix 0, cache := Webp.Spec.VP8L.cacheNew p.cacheBits,
                         group := (getHTreeGroup p 0 0).getD 0 }
    match pixelLoop src p (npix + 1) s0 st with
    | .ok (s, st) => .ok (s.data, st)
    | .err e => .err e
    | .panic => .panic
    | .hang => .hang

/-- tokens from a list (driver / tests); running out of tokens is `eos` -/
def listSource : TokenSource (List Token) where
  next := fun _ ts => match ts with
    | [] => .err .eos
    | t :: r => .ok (t, r)

/-- tokens read with the specification's `readToken` from the groups of `ep` -/
def specSource (ep : Webp.Spec.VP8L.EntropyParams) : TokenSource BitReader where
  next := fun g br =>
    if h : g < ep.groups.size then Webp.Spec.VP8L.readToken ep.groups[g] ep.width br else .err .groupIndex

/-- the loop parameters the decoder derives from `EntropyParams` (decode.go `updateDecoder`) -/
def LoopParams.ofSpec (ep : Webp.Spec.VP8L.EntropyParams) : LoopParams :=
  { width := ep.width, height := ep.height, cacheBits := ep.cacheBits, subsampleBits := ep.prefixBits,
    huffmanXSize := Webp.Spec.VP8L.subSampleSize ep.width ep.prefixBits,
    huffmanImage := ep.entropy, numGroups := ep.groups.size }

/-! ## the specification's pixel loop over an abstract token source

`Webp.Spec.VP8L.decodePixelsLoop` with `readToken` replaced by `src.next` (it is that loop for
`src = specSource ep`, `groupAt = groupIndexAt ep`: `Proofs.VP8LEntropyLoop.refLoop_spec`). -/

def refLoop {σ : Type} (src : TokenSource σ) (groupAt : Nat → Nat) (npix cacheBits : Nat) :
    (fuel : Nat) → (out cache : Array UInt32) → σ → Res Err (Array UInt32 × σ)
  | 0, _, _, _ => .hang
  | fuel + 1, out, cache, st =>
    if out.size ≥ npix then .ok (out, st)
    else
      match src.next (groupAt out.size) st with
      | .ok (t, st) =>
        match Webp.Spec.VP8L.execToken npix cacheBits t out cache with
        | .ok (out, cache) => refLoop src groupAt npix cacheBits fuel out cache st
        | .err e => .err e
        | .panic => .panic
        | .hang => .hang
      | .err e => .err e
      | .panic => .panic
      | .hang => .hang

def refDecode {σ : Type} (src : TokenSource σ) (groupAt : Nat → Nat) (width height cacheBits : Nat) (st : σ) :
    Res Err (Array UInt32 × σ) :=
  refLoop src groupAt (width * height) cacheBits (width * height + 1) #[] (Webp.Spec.VP8L.cacheNew cacheBits) st

/-! ## plan-parametrised stream emitter (encode.go `encodeStream`, `encodeSubImage`, `writeTransformData`)

Everything the heuristics decide is a field of the plan: the backward references, the code
lengths `CreateHuffmanTree` returned for the five histograms, and the code-length-code lengths it
returned inside `storeFullHuffmanCode`.  Single histogram (no meta prefix image). -/

/-- one entropy-coded image -/
structure ImagePlan where
  width : Nat
  height : Nat
  /-- backward references with pixel distances (before `BackwardReferences2DLocality`) -/
  refs : List PixOrCopy
  /-- code lengths of green(+length+cache), red, blue, alpha, distance -/
  lens5 : List (Array Nat)
  /-- code-length-code lengths for each of them (used only by non-simple codes) -/
  cl5 : List (Array Nat)
  deriving Repr, Inhabited

/-- `use_color_cache` bit and the 4-bit size -/
def storeColorCacheInfo (cacheBits : Nat) : List Call :=
  if cacheBits > 0 then [(1, 1), (cacheBits, 4)] else [(0, 1)]

/-- the tree `storeImageData` writes symbols with: `CreateHuffmanTree`'s, after
    `clearHuffmanTreeIfOnlyOneSymbol` -/
def effTree (lens : Array Nat) : HuffTree := (HuffTree.ofLens lens).clearIfOne

/-- `StoreHuffmanCode` for the five trees, then `storeImageData` with one histogram -/
def encodeImageBody (p : ImagePlan) : List Call :=
  (p.lens5.zip p.cl5).flatMap (fun lc => storeHuffmanCode lc.1 lc.2) ++
  storeImageData (locality2D p.width p.refs) #[0] #[(p.lens5.map effTree).toArray] p.width 0

/-- `encodeSubImage`: no colour cache, no meta codes -/
def encodeSubImage (p : ImagePlan) : List Call := (0, 1) :: encodeImageBody p

/-- colour-cache info, codes and pixels of an entropy-coded image with cache (what `encodeStream`
    writes after the meta bit; `veemit` of the driver) -/
def encodeEntropyImage (cacheBits : Nat) (p : ImagePlan) : List Call :=
  storeColorCacheInfo cacheBits ++ encodeImageBody p

inductive XfPlan where
  | predictor (bits : Nat) (data : ImagePlan)
  | crossColor (bits : Nat) (data : ImagePlan)
  | subtractGreen
  | colorIndexing (numColors : Nat) (data : ImagePlan)     -- `data`: the delta-coded palette, `numColors × 1`
  deriving Repr, Inhabited

/-- `bw.WriteBits(TransformPresent, 1); bw.WriteBits(type, 2); writeTransformData` -/
def writeTransform : XfPlan → List Call
  | .predictor bits data => (1, 1) :: (0, 2) :: (bits - 2, 3) :: encodeSubImage data
  | .crossColor bits data => (1, 1) :: (1, 2) :: (bits - 2, 3) :: encodeSubImage data
  | .subtractGreen => [(1, 1), (2, 2)]
  | .colorIndexing n data => (1, 1) :: (3, 2) :: (n - 1, 8) :: encodeSubImage data

structure StreamPlan where
  width : Nat
  height : Nat
  hasAlpha : Bool
  transforms : List XfPlan
  cacheBits : Nat
  /-- the transformed ARGB image (its width is the packed width after a colour-indexing transform) -/
  main : ImagePlan
  deriving Repr, Inhabited

/-- `encodeStream` with a single histogram: header, transforms, `0`, cache info, `0` (no meta
    codes), five codes, pixel data -/
def encodeStream (p : StreamPlan) : List Call :=
  [(0x2f, 8), (p.width - 1, 14), (p.height - 1, 14), (if p.hasAlpha then 1 else 0, 1), (0, 3)] ++
  p.transforms.flatMap writeTransform ++ [(0, 1)] ++
  storeColorCacheInfo p.cacheBits ++ [(0, 1)] ++ encodeImageBody p.main

end Webp.Impl.VP8LEntropy
