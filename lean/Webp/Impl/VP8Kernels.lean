/-
  VP8 / VP8L DSP kernels of `internal/dsp` (and the quantiser of `internal/lossy`) as pure
  functions: the *portable Go* variants, statement by statement, next to the reference formulas
  they are compared with.  This is the common reference of the C13 differential (AVX2 / SSE2 /
  portable Go are all compared with it through `Driver/Kernels.lean`) and the subject of the
  kernel theorems of C04 and C13.  No assembly semantics is modelled here.

  Conventions
  * A 4x4 block is an accessor `Nat → Int` on raster positions `k = 4*row + col` (`0 ≤ k < 16`);
    pixels are `Int`s in `[0,255]`, coefficients are `Int`s in the `int16` range.
  * Go's `x >> k` on a signed `int` is an arithmetic shift, i.e. `⌊x / 2^k⌋`; it is written
    `x / 2^k` with Lean's `Int` division (floor for a positive divisor; `shr_eq_div`).
    Go's `int` is 64-bit on the platforms the harness runs on; every intermediate of every
    kernel is far below 2^63 for inputs of the stated ranges, so `Int` arithmetic is exact.
    (On 32-bit Go platforms `int` is 32 bits: `Props/C13.lean` states the range for which the
    same holds there.)
  * `int16(x)`, `int8(x)`, `uint8(x)` conversions are `toI16`, `toI8`, `toU8`.
  * A table lookup that Go would bounds-check is an `Option`: `none` = run-time panic.
-/
namespace Webp.Impl.VP8Kernels

/-! ## Scalar helpers -/

theorem shr_eq_div (a : Int) (k : Nat) : a >>> k = a / 2 ^ k := Int.shiftRight_eq_div_pow a k

/-- Go `int16(x)` -/
def toI16 (x : Int) : Int := (x + 32768) % 65536 - 32768
/-- Go `int8(x)` -/
def toI8 (x : Int) : Int := (x + 128) % 256 - 128
/-- Go `uint8(x)` -/
def toU8 (x : Int) : Int := x % 256

/-- `clamp v lo hi` — the RFC's saturation -/
def clamp (v lo hi : Int) : Int := if v < lo then lo else if v > hi then hi else v

/-- `dsp.Clip8b`: `uint(v) <= 255 ? v : ^(v>>63) & 255` (`v>>63` is `0` or `-1`) -/
def clip8b (v : Int) : Int := if 0 ≤ v ∧ v ≤ 255 then v else if v < 0 then 0 else 255

/-- `mul1(a) = ((a * 20091) >> 16) + a` -/
def mul1 (a : Int) : Int := (a * 20091) / 65536 + a
/-- `mul2(a) = (a * 35468) >> 16` -/
def mul2 (a : Int) : Int := (a * 35468) / 65536

/-- accessor of an `Array Int` (0 outside) -/
def acc (a : Array Int) : Nat → Int := fun i => a.getD i 0
/-- tabulate an accessor on `[0,n)` -/
def tab (n : Nat) (f : Nat → Int) : Array Int := Array.ofFn (n := n) fun i => f i.val

/-! ## Inverse DCT (`transforms.go`) -/

/-- vertical pass of `transformOne` / `iTransformOne`: `tmp[k]`, `k = 4*r + col`; column `col`
    reads `in[col], in[4+col], in[8+col], in[12+col]` and writes `tmp[col], tmp[4+col], …` -/
def vtmp (c : Nat → Int) (k : Nat) : Int :=
  let col := k % 4
  let a := c col + c (8 + col)
  let b := c col - c (8 + col)
  let cc := mul2 (c (4 + col)) - mul1 (c (12 + col))
  let d := mul1 (c (4 + col)) + mul2 (c (12 + col))
  match k / 4 with
  | 0 => a + d
  | 1 => b + cc
  | 2 => b - cc
  | _ => a - d

/-- horizontal pass: the value that is shifted by 3 and added to pixel `k = 4*row + x` -/
def hres (t : Nat → Int) (k : Nat) : Int :=
  let r := 4 * (k / 4)
  let dc := t r + 4
  let a := dc + t (r + 2)
  let b := dc - t (r + 2)
  let cc := mul2 (t (r + 1)) - mul1 (t (r + 3))
  let d := mul1 (t (r + 1)) + mul2 (t (r + 3))
  match k % 4 with
  | 0 => a + d
  | 1 => b + cc
  | 2 => b - cc
  | _ => a - d

/-- `store(dst, off, x)`: `dst[off] = Clip8b(int(dst[off]) + (x >> 3))` -/
def store (p x : Int) : Int := clip8b (p + x / 8)

/-- the residual `transformOne` adds at position `k` -/
def idctResidual (c : Nat → Int) (k : Nat) : Int := hres (vtmp c) k / 8

/-- `transformOne(in, dst)` — full 4x4 inverse DCT added to the prediction `p` (decoder).
    `iTransformOne(ref, in, dst)` (encoder) is the same function with `p := ref`. -/
def transformOne (c p : Nat → Int) (k : Nat) : Int := store (p k) (hres (vtmp c) k)

/-- `transformDC(in, dst)`: `dc := int(in[0]) + 4; store(dst, ·, dc)` at all 16 positions -/
def transformDC (c p : Nat → Int) (k : Nat) : Int := store (p k) (c 0 + 4)

/-- `transformAC3(in, dst)` -/
def transformAC3 (c p : Nat → Int) (k : Nat) : Int :=
  let a := c 0 + 4
  let c4 := mul2 (c 4)
  let d4 := mul1 (c 4)
  let c1v := mul2 (c 1)
  let d1v := mul1 (c 1)
  let rowv := match k / 4 with
    | 0 => a + d4
    | 1 => a + c4
    | 2 => a - c4
    | _ => a - d4
  let x := match k % 4 with
    | 0 => rowv + d1v
    | 1 => rowv + c1v
    | 2 => rowv - c1v
    | _ => rowv - d1v
  store (p k) x

/-- inline DC path of `doTransform` / `doTransformDCBlock` (decode_frame.go):
    `add := (int(src[0]) + 4) >> 3; dst = Clip8b(dst + add)` -/
def dcInline (c p : Nat → Int) (k : Nat) : Int := clip8b (p k + (c 0 + 4) / 8)

/-! ### The decoder's dispatch (`decode_mb.go nzCodeBits`, `decode_frame.go doTransform`) -/

/-- `nzCodeBits`' 2-bit code for one block: `nz` = zig-zag position after the last coefficient
    `getCoeffs` wrote, `dcNz = (dst[0] != 0)` -/
def nzCode (nz : Nat) (dcNz : Bool) : Nat :=
  if nz > 3 then 3 else if nz > 1 then 2 else if dcNz then 1 else 0

/-- `nzCodeBits(nzCoeffs, nz, dcNz)` on the packed word (uint32) -/
def nzCodeBits (nzCoeffs : UInt32) (nz : Nat) (dcNz : Bool) : UInt32 :=
  (nzCoeffs <<< 2) ||| (UInt32.ofNat (nzCode nz dcNz))

/-- `doTransform(bits, src, dst)` given `code = bits >> 30` -/
def doTransform (code : Nat) (c p : Nat → Int) (k : Nat) : Int :=
  match code with
  | 3 => transformOne c p k
  | 2 => transformAC3 c p k
  | 1 => dcInline c p k
  | _ => p k

/-- zig-zag scan: position → raster index (`KZigzag`) -/
def zigzag : Array Nat := #[0, 1, 4, 8, 5, 2, 3, 6, 9, 12, 13, 10, 7, 11, 14, 15]
/-- `kReverseZigzag`: raster index → zig-zag position -/
def reverseZigzag : Array Nat := #[0, 1, 5, 6, 2, 4, 7, 12, 3, 8, 11, 13, 9, 10, 14, 15]

/-- what `getCoeffsInline` guarantees about a block it returned `nz` for: the coefficient
    array was zeroed before and only zig-zag positions `< nz` were written -/
def ZeroFrom (c : Nat → Int) (nz : Nat) : Prop := ∀ n, nz ≤ n → n < 16 → c (zigzag.getD n 0) = 0

/-- `doUVTransform(bits, src, dst)` for the four 4x4 blocks of one chroma plane: `codes b` is the
    2-bit code of block `b`, `c b` / `p b` its coefficients / prediction -/
def doUVTransform (codes : Nat → Nat) (c p : Nat → Nat → Int) (b k : Nat) : Int :=
  if codes 0 = 0 ∧ codes 1 = 0 ∧ codes 2 = 0 ∧ codes 3 = 0 then p b k            -- bits&0xff == 0
  else if codes 0 ≥ 2 ∨ codes 1 ≥ 2 ∨ codes 2 ≥ 2 ∨ codes 3 ≥ 2 then                -- bits&0xaa != 0
    transformOne (c b) (p b) k                                                       -- dsp.TransformUV
  else if c b 0 ≠ 0 then dcInline (c b) (p b) k else p b k

/-- `transformDCUV` for block `b` -/
def transformDCUV (c p : Nat → Nat → Int) (b k : Nat) : Int :=
  if c b 0 ≠ 0 then transformDC (c b) (p b) k else p b k

/-! ## Walsh–Hadamard transforms -/

/-- vertical pass of `transformWHT`: `tmp[k]`, `k = 4*r + i` -/
def iwhtTmp (c : Nat → Int) (k : Nat) : Int :=
  let i := k % 4
  let a0 := c i + c (12 + i)
  let a1 := c (4 + i) + c (8 + i)
  let a2 := c (4 + i) - c (8 + i)
  let a3 := c i - c (12 + i)
  match k / 4 with
  | 0 => a0 + a1
  | 1 => a3 + a2
  | 2 => a0 - a1
  | _ => a3 - a2

/-- `transformWHT(in, out)`: value written to `out[16*k]`, `k = 4*i + j` -/
def transformWHT (c : Nat → Int) (k : Nat) : Int :=
  let t := iwhtTmp c
  let r := 4 * (k / 4)
  let dc := t r + 3
  let a0 := dc + t (r + 3)
  let a1 := t (r + 1) + t (r + 2)
  let a2 := t (r + 1) - t (r + 2)
  let a3 := dc - t (r + 3)
  match k % 4 with
  | 0 => toI16 ((a0 + a1) / 8)
  | 1 => toI16 ((a3 + a2) / 8)
  | 2 => toI16 ((a0 - a1) / 8)
  | _ => toI16 ((a3 - a2) / 8)

/-- the decoder's DC-only shortcut in `parseResiduals` (`nz <= 1`):
    `dc0 := int16((int(dc[0]) + 3) >> 3)` stored in all 16 blocks -/
def whtDCOnly (c : Nat → Int) (_k : Nat) : Int := toI16 ((c 0 + 3) / 8)

/-- first pass of `fTransformWHT`: `tmp[k]`, `k = 4*i + j` -/
def fwhtTmp (c : Nat → Int) (k : Nat) : Int :=
  let r := 4 * (k / 4)
  let a0 := c r + c (r + 2)
  let a1 := c (r + 1) + c (r + 3)
  let a2 := c (r + 1) - c (r + 3)
  let a3 := c r - c (r + 2)
  match k % 4 with
  | 0 => a0 + a1
  | 1 => a3 + a2
  | 2 => a3 - a2
  | _ => a0 - a1

/-- `fTransformWHT(in, out)`: `out[k]`, `k = 4*r + i` -/
def fTransformWHT (c : Nat → Int) (k : Nat) : Int :=
  let t := fwhtTmp c
  let i := k % 4
  let a0 := t i + t (8 + i)
  let a1 := t (4 + i) + t (12 + i)
  let a2 := t (4 + i) - t (12 + i)
  let a3 := t i - t (8 + i)
  match k / 4 with
  | 0 => toI16 ((a0 + a1) / 2)
  | 1 => toI16 ((a3 + a2) / 2)
  | 2 => toI16 ((a3 - a2) / 2)
  | _ => toI16 ((a0 - a1) / 2)

/-! ## Forward DCT (`fTransform`) -/

/-- horizontal pass: `tmp[k]`, `k = 4*row + j`, on the difference block `d = src - ref` -/
def fdctTmp (d : Nat → Int) (k : Nat) : Int :=
  let r := 4 * (k / 4)
  let a0 := d r + d (r + 3)
  let a1 := d (r + 1) + d (r + 2)
  let a2 := d (r + 1) - d (r + 2)
  let a3 := d r - d (r + 3)
  match k % 4 with
  | 0 => (a0 + a1) * 8
  | 1 => (a2 * 2217 + a3 * 5352 + 1812) / 512
  | 2 => (a0 - a1) * 8
  | _ => (a3 * 2217 - a2 * 5352 + 937) / 512

/-- `fTransform(src, ref, out)`: `out[k]`, `k = 4*r + col` -/
def fTransform (src ref : Nat → Int) (k : Nat) : Int :=
  let t := fdctTmp (fun i => src i - ref i)
  let i := k % 4
  let a0 := t i + t (12 + i)
  let a1 := t (4 + i) + t (8 + i)
  let a2 := t (4 + i) - t (8 + i)
  let a3 := t i - t (12 + i)
  match k / 4 with
  | 0 => toI16 ((a0 + a1 + 7) / 16)
  | 1 => toI16 ((a2 * 2217 + a3 * 5352 + 12000) / 65536 + (if a3 ≠ 0 then 1 else 0))
  | 2 => toI16 ((a0 - a1 + 7) / 16)
  | _ => toI16 ((a3 * 2217 - a2 * 5352 + 51000) / 65536)

/-! ## Clip tables (`cliptables.go`) -/

/-- `initClipTables`, one loop per table: `for i := lo; i <= hi; i++ { v := clamp…; t[off+i] = conv(v) }` -/
def sclip1Table : Array Int :=
  ((List.range 1786).map fun (k : Nat) =>
    let i : Int := (k : Int) - 893
    toI8 (if i < -128 then -128 else if i > 127 then 127 else i)).toArray
def sclip2Table : Array Int :=
  ((List.range 225).map fun (k : Nat) =>
    let i : Int := (k : Int) - 112
    toI8 (if i < -16 then -16 else if i > 15 then 15 else i)).toArray
def clip1Table : Array Int :=
  ((List.range 767).map fun (k : Nat) =>
    let i : Int := (k : Int) - 255
    toU8 (if i < 0 then 0 else if i > 255 then 255 else i)).toArray
def abs0Table : Array Int :=
  ((List.range 511).map fun (k : Nat) =>
    let i : Int := (k : Int) - 255
    toU8 (if i < 0 then -i else i)).toArray

/-- bounds-checked Go index `t[i]` -/
def tblGet (t : Array Int) (i : Int) : Option Int := if i < 0 then none else t[i.toNat]?

def ksclip1 (v : Int) : Option Int := tblGet sclip1Table (893 + v)
def ksclip2 (v : Int) : Option Int := tblGet sclip2Table (112 + v)
def kclip1 (v : Int) : Option Int := tblGet clip1Table (255 + v)
def kabs0 (v : Int) : Option Int := tblGet abs0Table (255 + v)

/-! ## Loop filters as coded (`filter.go`), with table lookups -/

/-- `needsFilter(p1, p0, q0, q1, thresh)`: `4*abs0[p0-q0] + abs0[p1-q1] <= thresh` -/
def needsFilter (p1 p0 q0 q1 thresh : Int) : Option Bool := do
  let a ← kabs0 (p0 - q0)
  let b ← kabs0 (p1 - q1)
  pure (decide (4 * a + b ≤ thresh))

/-- `needsFilter2` (short-circuit order as coded) -/
def needsFilter2 (p3 p2 p1 p0 q0 q1 q2 q3 thresh ithresh : Int) : Option Bool := do
  if !(← needsFilter p1 p0 q0 q1 thresh) then return false
  if !(decide ((← kabs0 (p3 - p2)) ≤ ithresh)) then return false
  if !(decide ((← kabs0 (p2 - p1)) ≤ ithresh)) then return false
  if !(decide ((← kabs0 (p1 - p0)) ≤ ithresh)) then return false
  if !(decide ((← kabs0 (q3 - q2)) ≤ ithresh)) then return false
  if !(decide ((← kabs0 (q2 - q1)) ≤ ithresh)) then return false
  return decide ((← kabs0 (q1 - q0)) ≤ ithresh)

/-- `hev(p1, p0, q0, q1, hevThresh)` -/
def hev (p1 p0 q0 q1 t : Int) : Option Bool := do
  if decide ((← kabs0 (p1 - p0)) > t) then return true
  return decide ((← kabs0 (q1 - q0)) > t)

/-- eight samples across an edge, `p3 p2 p1 p0 | q0 q1 q2 q3` -/
structure Seg where
  p3 : Int
  p2 : Int
  p1 : Int
  p0 : Int
  q0 : Int
  q1 : Int
  q2 : Int
  q3 : Int
deriving Repr, DecidableEq, Inhabited

/-- `doFilter2` -/
def doFilter2 (s : Seg) : Option Seg := do
  let a := 3 * (s.q0 - s.p0) + (← ksclip1 (s.p1 - s.q1))
  let a1 ← ksclip2 ((a + 4) / 8)
  let a2 ← ksclip2 ((a + 3) / 8)
  let p0' ← kclip1 (s.p0 + a2)
  let q0' ← kclip1 (s.q0 - a1)
  pure { s with p0 := p0', q0 := q0' }

/-- `doFilter4` -/
def doFilter4 (s : Seg) : Option Seg := do
  let a := 3 * (s.q0 - s.p0)
  let a1 ← ksclip2 ((a + 4) / 8)
  let a2 ← ksclip2 ((a + 3) / 8)
  let a3 := (a1 + 1) / 2
  let p1' ← kclip1 (s.p1 + a3)
  let p0' ← kclip1 (s.p0 + a2)
  let q0' ← kclip1 (s.q0 - a1)
  let q1' ← kclip1 (s.q1 - a3)
  pure { s with p1 := p1', p0 := p0', q0 := q0', q1 := q1' }

/-- `doFilter6` -/
def doFilter6 (s : Seg) : Option Seg := do
  let a ← ksclip1 (3 * (s.q0 - s.p0) + (← ksclip1 (s.p1 - s.q1)))
  let a1 := (27 * a + 63) / 128
  let a2 := (18 * a + 63) / 128
  let a3 := (9 * a + 63) / 128
  let p2' ← kclip1 (s.p2 + a3)
  let p1' ← kclip1 (s.p1 + a2)
  let p0' ← kclip1 (s.p0 + a1)
  let q0' ← kclip1 (s.q0 - a1)
  let q1' ← kclip1 (s.q1 - a2)
  let q2' ← kclip1 (s.q2 - a3)
  pure { s with p2 := p2', p1 := p1', p0 := p0', q0 := q0', q1 := q1', q2 := q2' }

/-- one sample position of `simpleVFilter16Go` / `SimpleHFilter16` (`thresh2 := 2*thresh + 1`) -/
def simpleFilterGo (thresh : Int) (s : Seg) : Option Seg := do
  if (← needsFilter s.p1 s.p0 s.q0 s.q1 (2 * thresh + 1)) then doFilter2 s else pure s

/-- one sample position of `filterLoop26` (macroblock edges) -/
def filterLoop26Go (thresh ithresh hevT : Int) (s : Seg) : Option Seg := do
  if (← needsFilter2 s.p3 s.p2 s.p1 s.p0 s.q0 s.q1 s.q2 s.q3 (2 * thresh + 1) ithresh) then
    if (← hev s.p1 s.p0 s.q0 s.q1 hevT) then doFilter2 s else doFilter6 s
  else pure s

/-- one sample position of `filterLoop24` (inner edges) -/
def filterLoop24Go (thresh ithresh hevT : Int) (s : Seg) : Option Seg := do
  if (← needsFilter2 s.p3 s.p2 s.p1 s.p0 s.q0 s.q1 s.q2 s.q3 (2 * thresh + 1) ithresh) then
    if (← hev s.p1 s.p0 s.q0 s.q1 hevT) then doFilter2 s else doFilter4 s
  else pure s

/-! ## Loop filters as RFC 6386 §15 writes them (signed values, `c` = clamp to `[-128,127]`) -/

namespace RFC
def c (v : Int) : Int := clamp v (-128) 127
def u2s (v : Int) : Int := v - 128
def s2u (v : Int) : Int := c v + 128
def iabs (v : Int) : Int := if v < 0 then -v else v

/-- `common_adjust(use_outer_taps, P1, P0, Q0, Q1)`: returns (`a`, new P0, new Q0) -/
def commonAdjust (outer : Bool) (P1 P0 Q0 Q1 : Int) : Int × Int × Int :=
  let p1 := u2s P1
  let p0 := u2s P0
  let q0 := u2s Q0
  let q1 := u2s Q1
  let a := c ((if outer then c (p1 - q1) else 0) + 3 * (q0 - p0))
  let b := c (a + 3) / 8
  let a := c (a + 4) / 8
  (a, s2u (p0 + b), s2u (q0 - a))

/-- `simple_segment`'s test; also the first conjunct of `filter_yes` -/
def edgeTest (E P1 P0 Q0 Q1 : Int) : Bool := decide (iabs (P0 - Q0) * 2 + iabs (P1 - Q1) / 2 ≤ E)

def simpleSegment (E : Int) (s : Seg) : Seg :=
  if edgeTest E s.p1 s.p0 s.q0 s.q1 then
    let r := commonAdjust true s.p1 s.p0 s.q0 s.q1
    { s with p0 := r.2.1, q0 := r.2.2 }
  else s

def filterYes (I E : Int) (s : Seg) : Bool :=
  edgeTest E s.p1 s.p0 s.q0 s.q1 && decide (iabs (s.p3 - s.p2) ≤ I) && decide (iabs (s.p2 - s.p1) ≤ I)
    && decide (iabs (s.p1 - s.p0) ≤ I) && decide (iabs (s.q3 - s.q2) ≤ I)
    && decide (iabs (s.q2 - s.q1) ≤ I) && decide (iabs (s.q1 - s.q0) ≤ I)

def hevTest (t : Int) (s : Seg) : Bool := decide (iabs (s.p1 - s.p0) > t) || decide (iabs (s.q1 - s.q0) > t)

/-- `subblock_filter(hev_threshold, interior_limit, edge_limit, …)` -/
def subblockFilter (hevT I E : Int) (s : Seg) : Seg :=
  if filterYes I E s then
    let hv := hevTest hevT s
    let r := commonAdjust hv s.p1 s.p0 s.q0 s.q1
    let a := (r.1 + 1) / 2
    if hv then { s with p0 := r.2.1, q0 := r.2.2 }
    else { s with p0 := r.2.1, q0 := r.2.2, q1 := s2u (u2s s.q1 - a), p1 := s2u (u2s s.p1 + a) }
  else s

/-- `MBfilter(hev_threshold, interior_limit, edge_limit, …)` -/
def mbFilter (hevT I E : Int) (s : Seg) : Seg :=
  if filterYes I E s then
    if !hevTest hevT s then
      let p2 := u2s s.p2
      let p1 := u2s s.p1
      let p0 := u2s s.p0
      let q0 := u2s s.q0
      let q1 := u2s s.q1
      let q2 := u2s s.q2
      let w := c (c (p1 - q1) + 3 * (q0 - p0))
      let a1 := c ((27 * w + 63) / 128)
      let a2 := c ((18 * w + 63) / 128)
      let a3 := c ((9 * w + 63) / 128)
      { s with q0 := s2u (q0 - a1), p0 := s2u (p0 + a1), q1 := s2u (q1 - a2), p1 := s2u (p1 + a2),
               q2 := s2u (q2 - a3), p2 := s2u (p2 + a3) }
    else
      let r := commonAdjust true s.p1 s.p0 s.q0 s.q1
      { s with p0 := r.2.1, q0 := r.2.2 }
  else s
end RFC

/-! ## Intra predictors (`predict_lossy.go`) as functions of the edge samples

  `top i` = `buf[off - BPS + i]`, `left j` = `buf[off - 1 + j*BPS]`, `tl` = `buf[off - 1 - BPS]`;
  the result is the predicted sample at column `x`, row `y`.  Mode numbering as in Go:
  16x16 / chroma: 0 DC, 1 TM, 2 VE, 3 HE, 4 DC-no-top, 5 DC-no-left, 6 DC-no-top-left;
  4x4: 0 DC, 1 TM, 2 VE, 3 HE, 4 RD, 5 VR, 6 LD, 7 VL, 8 HD, 9 HU. -/

def sumTo (n : Nat) (f : Nat → Int) : Int := (List.range n).foldl (fun s i => s + f i) 0

def avg3 (a b c : Int) : Int := toU8 ((a + 2 * b + c + 2) / 4)
def avg2 (a b : Int) : Int := toU8 ((a + b + 1) / 2)

/-- 16x16 (`n = 16`, `sh = 5`) and 8x8 chroma (`n = 8`, `sh = 4`) share their code shape -/
def predBig (n : Nat) (mode : Nat) (top left : Nat → Int) (tl : Int) (x y : Nat) : Int :=
  let full : Int := if n = 16 then 32 else 16      -- `>> 5` / `>> 4`
  let half : Int := full / 2
  match mode with
  | 0 => toU8 ((sumTo n top + sumTo n left + half) / full)
  | 1 => clip8b (left y - tl + top x)
  | 2 => top x
  | 3 => left y
  | 4 => toU8 ((sumTo n left + half / 2) / half)
  | 5 => toU8 ((sumTo n top + half / 2) / half)
  | _ => 128

def pred16 := predBig 16
def pred8 := predBig 8

/-- the ten 4x4 predictors; `top` has 8 entries (4..7 = top-right) -/
def pred4 (mode : Nat) (top left : Nat → Int) (tl : Int) (x y : Nat) : Int :=
  let t := top
  let l := left
  let A := t 0; let B := t 1; let C := t 2; let D := t 3
  let E := t 4; let F := t 5; let G := t 6; let H := t 7
  let tp (i : Nat) : Int := if i = 0 then tl else t (i - 1)      -- top row with the corner at 0
  let pick (rows : List (List Int)) : Int := (rows.getD y []).getD x 0
  match mode with
  | 0 => toU8 ((sumTo 4 top + sumTo 4 left + 4) / 8)
  | 1 => clip8b (l y + t x - tl)
  | 2 => avg3 (tp x) (tp (x + 1)) (tp (x + 2))
  | 3 => match y with
    | 0 => avg3 tl (l 0) (l 1)
    | 1 => avg3 (l 0) (l 1) (l 2)
    | 2 => avg3 (l 1) (l 2) (l 3)
    | _ => avg3 (l 2) (l 3) (l 3)
  | 4 => -- RD: edge `l3 l2 l1 l0 tl t0 t1 t2 t3`, pixel = avg3 of three consecutive entries from 3 - y + x
    let e (i : Nat) : Int := if i < 4 then l (3 - i) else if i = 4 then tl else t (i - 5)
    let i := 3 + x - y
    avg3 (e i) (e (i + 1)) (e (i + 2))
  | 5 => -- VR
    let r0 := [avg2 tl A, avg2 A B, avg2 B C, avg2 C D]
    let r1 := [avg3 (l 0) tl A, avg3 tl A B, avg3 A B C, avg3 B C D]
    pick [r0, r1,
          [avg3 (l 1) (l 0) tl, r0.getD 0 0, r0.getD 1 0, r0.getD 2 0],
          [avg3 (l 2) (l 1) (l 0), r1.getD 0 0, r1.getD 1 0, r1.getD 2 0]]
  | 6 => -- LD
    let e (i : Nat) : Int := if i < 8 then t i else H
    avg3 (e (x + y)) (e (x + y + 1)) (e (x + y + 2))
  | 7 => -- VL
    pick [[avg2 A B, avg2 B C, avg2 C D, avg2 D E],
          [avg3 A B C, avg3 B C D, avg3 C D E, avg3 D E F],
          [avg2 B C, avg2 C D, avg2 D E, avg3 E F G],
          [avg3 B C D, avg3 C D E, avg3 D E F, avg3 F G H]]
  | 8 => -- HD
    let r0 := [avg2 tl (l 0), avg3 (l 0) tl A, avg3 tl A B, avg3 A B C]
    let r1 := [avg2 (l 0) (l 1), avg3 tl (l 0) (l 1), r0.getD 0 0, r0.getD 1 0]
    let r2 := [avg2 (l 1) (l 2), avg3 (l 0) (l 1) (l 2), r1.getD 0 0, r1.getD 1 0]
    pick [r0, r1, r2, [avg2 (l 2) (l 3), avg3 (l 1) (l 2) (l 3), r2.getD 0 0, r2.getD 1 0]]
  | _ => -- HU
    let r0 := [avg2 (l 0) (l 1), avg3 (l 0) (l 1) (l 2), avg2 (l 1) (l 2), avg3 (l 1) (l 2) (l 3)]
    let r1 := [r0.getD 2 0, r0.getD 3 0, avg2 (l 2) (l 3), avg3 (l 2) (l 3) (l 3)]
    pick [r0, r1, [r1.getD 2 0, r1.getD 3 0, l 3, l 3], [l 3, l 3, l 3, l 3]]

/-! ## Quantisation (`internal/lossy/encode_quant.go quantizeCoeffsGo`) -/

def u32 (x : Int) : Int := x % 4294967296

/-- one coefficient: returns (`coeff` = the unsigned level, `out[n]`).
    `sign`/`abs`, `+ sharpen`, clamp at 0, `int(uint32(v)*iq + bias) >> 17` (QFIX = 17; `int` is
    64-bit so the `uint32` value stays non-negative), clamp at 2047 (MAX_LEVEL) -/
def quantOne (v sharpen iq bias : Int) : Int × Int :=
  let sign : Int := if v < 0 then -1 else 1
  let a := if v < 0 then -v else v
  let a := a + sharpen
  let a := if a < 0 then 0 else a
  let coeff := u32 (u32 a * u32 iq + u32 bias) / 131072
  let coeff := if coeff > 2047 then 2047 else coeff
  (coeff, toI16 (sign * coeff))

structure QParams where
  iq : Int        -- IQuant
  bias : Int      -- Bias
  dciq : Int      -- DCIQuant
  dcbias : Int    -- DCBias
  sharpen : Nat → Int

/-- `out[n]` of `quantizeCoeffsGo(in, out, sq, firstCoeff)` (raster order) -/
def quantLevel (q : QParams) (first : Nat) (c : Nat → Int) (n : Nat) : Int :=
  if n = 0 then (if first = 0 then (quantOne (c 0) (q.sharpen 0) q.dciq q.dcbias).2 else 0)
  else (quantOne (c n) (q.sharpen n) q.iq q.bias).2

def quantMag (q : QParams) (first : Nat) (c : Nat → Int) (n : Nat) : Int :=
  if n = 0 then (if first = 0 then (quantOne (c 0) (q.sharpen 0) q.dciq q.dcbias).1 else 0)
  else (quantOne (c n) (q.sharpen n) q.iq q.bias).1

/-- the return value: `maxZZ + 1`, the zig-zag position after the last non-zero level -/
def quantNz (q : QParams) (first : Nat) (c : Nat → Int) : Nat :=
  (List.range 16).foldl (fun m n =>
    if quantMag q first c n ≠ 0 then max m (reverseZigzag.getD n 0 + 1) else m) 0

/-- `dequantCoeffsGo`: `out[0] = int16(in[0]*DCQuant)`, `out[n] = int16(in[n]*Quant)` -/
def dequant (dcq q : Int) (c : Nat → Int) (n : Nat) : Int :=
  if n = 0 then toI16 (c 0 * dcq) else toI16 (c n * q)

/-! ## YUV → RGB (`yuv.go`), 14-bit fixed point -/

def multHi (v coeff : Int) : Int := (v * coeff) / 256

/-- `vp8kClip[i]` as `initYUVTables` fills it (`i` in `[0, 16383]`) -/
def yuvClipTable : Array Int :=
  ((List.range 16384).map fun (i : Nat) =>
    let v : Int := (i : Int) / 64
    toU8 (if v < 0 then 0 else if v > 255 then 255 else v)).toArray

/-- the three-way branch shared by `YUVToR/G/B`: `val < 0 → 0`, `val > yuvMask → 255`, else table -/
def yuvClip (val : Int) : Option Int :=
  if val < 0 then some 0 else if val > 16383 then some 255 else tblGet yuvClipTable val

def yuvToR (y v : Int) : Option Int := yuvClip (multHi y 19077 + multHi v 26149 - 14234)
def yuvToG (y u v : Int) : Option Int := yuvClip (multHi y 19077 - multHi u 6419 - multHi v 13320 + 8708)
def yuvToB (y u : Int) : Option Int := yuvClip (multHi y 19077 + multHi u 33050 - 17685)

/-- libwebp's `VP8Clip8`: `((v & ~YUV_MASK2) == 0) ? (v >> 6) : (v < 0) ? 0 : 255` as a clamp -/
def clip8Ref (val : Int) : Int := clamp (val / 64) 0 255

/-! ## Fancy upsampler (`upsample.go`): packed 32-bit arithmetic -/

/-- `loadUV(u, v) = uint32(u) | uint32(v) << 16` -/
def loadUV (u v : UInt8) : UInt32 := u.toUInt32 ||| (v.toUInt32 <<< 16)

/-- first / last pixel: `(3*a + b + 0x00020002) >> 2` on packed words -/
def packedEdge (a b : UInt32) : UInt32 := (3 * a + b + 0x00020002) >>> 2

/-- the interior diamond kernel on packed words: returns (top-left, top-right, bottom-left,
    bottom-right) = (`(diag12+tl)>>1`, `(diag03+t)>>1`, `(diag03+l)>>1`, `(diag12+cur)>>1`) -/
def packedDiamond (tl t l cur : UInt32) : UInt32 × UInt32 × UInt32 × UInt32 :=
  let avg := tl + t + l + cur + 0x00080008
  let diag12 := (avg + 2 * (t + l)) >>> 3
  let diag03 := (avg + 2 * (tl + cur)) >>> 3
  ((diag12 + tl) >>> 1, (diag03 + t) >>> 1, (diag03 + l) >>> 1, (diag12 + cur) >>> 1)

/-- the extraction `uv & 0xff`, `(uv >> 16) & 0xff` -/
def lanes (uv : UInt32) : Nat × Nat := ((uv &&& 0xff).toNat, ((uv >>> 16) &&& 0xff).toNat)

/-- per-channel reference formulas of the 9-3-3-1 kernel -/
def edgeRef (a b : Nat) : Nat := (3 * a + b + 2) / 4
def diamondRef (a b c d : Nat) : Nat := (9 * a + 3 * b + 3 * c + d + 8) / 16

def yuvToRGB! (y u v : Int) : List Int :=
  [(yuvToR y v).getD 0, (yuvToG y u v).getD 0, (yuvToB y u).getD 0]

/-- `upsampleLinePairNRGBAGo` / `UpsampleLinePair` chroma phase: the packed UV value for every
    pixel of the top and (if present) bottom row, as coded -/
def upsampleUV (topU topV botU botV : ByteArray) (width : Nat) (hasBot : Bool) :
    Array UInt32 × Array UInt32 := Id.run do
  let mut tUV : Array UInt32 := Array.replicate width 0
  let mut bUV : Array UInt32 := Array.replicate width 0
  if width = 0 then return (tUV, bUV)
  let lastPixelPair := (width - 1) / 2
  let mut tlUV := loadUV (topU.get! 0) (topV.get! 0)
  let mut lUV := loadUV (botU.get! 0) (botV.get! 0)
  tUV := tUV.set! 0 (packedEdge tlUV lUV)
  if hasBot then bUV := bUV.set! 0 (packedEdge lUV tlUV)
  for x in [1:lastPixelPair + 1] do
    let tC := loadUV (topU.get! x) (topV.get! x)
    let bC := loadUV (botU.get! x) (botV.get! x)
    let d := packedDiamond tlUV tC lUV bC
    tUV := (tUV.set! (2 * x - 1) d.1).set! (2 * x) d.2.1
    if hasBot then bUV := (bUV.set! (2 * x - 1) d.2.2.1).set! (2 * x) d.2.2.2
    tlUV := tC
    lUV := bC
  if width % 2 = 0 then
    tUV := tUV.set! (width - 1) (packedEdge tlUV lUV)
    if hasBot then bUV := bUV.set! (width - 1) (packedEdge lUV tlUV)
  return (tUV, bUV)

/-- one NRGBA output row from luma + packed chroma (+ optional alpha) -/
def nrgbaRow (y : ByteArray) (uv : Array UInt32) (alpha : Option ByteArray) (width : Nat) : ByteArray := Id.run do
  let mut out := ByteArray.emptyWithCapacity (4 * width)
  for x in [0:width] do
    let l := lanes (uv.getD x 0)
    let rgb := yuvToRGB! (y.get! x).toNat l.1 l.2
    for ch in rgb do out := out.push (UInt8.ofNat ch.toNat)
    out := out.push (match alpha with | some a => a.get! x | none => 255)
  return out

/-! ## Distortion metrics (`ssim.go`) -/

/-- `sse4x4` / `sse16x16` / `SSE`: Σ (a-b)² -/
def sse (a b : Nat → Int) (n : Nat) : Int := sumTo n fun i => (a i - b i) * (a i - b i)

def kWeightY : Array Int := #[38, 32, 20, 9, 32, 28, 17, 7, 20, 17, 10, 4, 9, 7, 4, 2]

def iabs (v : Int) : Int := if v < 0 then -v else v

/-- `tTransform(in, kWeightY)` on a 4x4 block -/
def tTransform (p : Nat → Int) : Int :=
  let t := fwhtTmp p      -- the horizontal Hadamard pass is the same butterfly as `fTransformWHT`'s first pass
  sumTo 4 fun i =>
    let a0 := t i + t (8 + i)
    let a1 := t (4 + i) + t (12 + i)
    let a2 := t (4 + i) - t (12 + i)
    let a3 := t i - t (8 + i)
    kWeightY.getD i 0 * iabs (a0 + a1) + kWeightY.getD (4 + i) 0 * iabs (a3 + a2)
      + kWeightY.getD (8 + i) 0 * iabs (a3 - a2) + kWeightY.getD (12 + i) 0 * iabs (a0 - a1)

/-- `tDisto4x4Go(a, b) = |tTransform(b) - tTransform(a)| >> 5` -/
def tDisto4x4 (a b : Nat → Int) : Int := iabs (tTransform b - tTransform a) / 32

/-! ## Lossless green transforms (`lossless_dsp.go`) -/

def addGreen (p : UInt32) : UInt32 :=
  let green := (p >>> 8) &&& 0xff
  let redBlue := ((p &&& 0x00ff00ff) + green * 0x00010001) &&& 0x00ff00ff
  (p &&& 0xff00ff00) ||| redBlue

def subGreen (p : UInt32) : UInt32 :=
  let green := (p >>> 8) &&& 0xff
  let r : UInt32 := ((p >>> 16) &&& 0xff) - green
  let b : UInt32 := (p &&& 0xff) - green
  (p &&& 0xff00ff00) ||| ((r &&& (0xff : UInt32)) <<< (16 : UInt32)) ||| (b &&& (0xff : UInt32))

end Webp.Impl.VP8Kernels
