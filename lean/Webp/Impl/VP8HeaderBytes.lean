import Webp.Impl.VP8SyntaxBytes
/-
  The first-partition header of a VP8 key frame (C06): what `emitPartition0` writes before the
  macroblock modes (encode_syntax.go: colour-space and clamp bits, `writeSegmentHeader`,
  `writeFilterHeader`, the partition count, `writeQuantParams`, the refresh bit, `writeCoeffProba`,
  the skip flag and probability) as the list of `BoolWriter` calls, and what `parseHeaders`
  (decode.go: the two key-frame bits, `parseSegmentHeader`, `parseFilterHeader`, the partition count
  of `parsePartitions`, `ParseQuant`'s six fields, the update_proba bit, `parseProba`) reads, as a
  decision tree over the fixed-probability slots (`GetBit(0x80)` = `rd (.fixed 128)`, `GetValue(n)` =
  `T.getValue n`, `GetBit(CoeffsUpdateProba[…])` = `rd (.fixed u)`).  Core Lean only.

  State carried over by the decoder: a field the stream does not update keeps what the `Decoder`
  held (`prev`): `acquireDecoder` zeroes the segment and filter headers, `parseHeaders` resets the
  probabilities (`ResetProba`) and `AbsoluteDelta`.
-/
namespace Webp.Impl.VP8HeaderBytes
open Webp.Go (Bytes)
open Webp.Impl.VP8Recon Webp.Impl.VP8SyntaxBytes Webp.Impl.BoolCoder
open Webp.Spec.VP8 (Tables.defaultCoeffProbs Tables.coeffUpdateProbs Tables.coeffBands Tables.kfBModeProbs)

/-! ## header state -/

/-- `SegmentHeader` + `proba.Segments` -/
structure SegHdr where
  useSegment : Bool
  updateMap : Bool
  absoluteDelta : Bool
  /-- `Quantizer[i]` (`int8`) -/
  quantizer : Fin 4 → Int
  /-- `FilterStrength[i]` (`int8`) -/
  filterStrength : Fin 4 → Int
  /-- `proba.Segments[i]` -/
  segProbs : Fin 3 → UInt8

/-- `FilterHeader` -/
structure FilterHdr where
  simple : Bool
  level : Nat
  sharpness : Nat
  useLFDelta : Bool
  refLFDelta : Fin 4 → Int
  modeLFDelta : Fin 4 → Int

/-- the encoder state `emitPartition0` writes the header from -/
structure EncHeader where
  seg : SegHdr
  filt : FilterHdr
  /-- `enc.numParts` -/
  numParts : Nat
  /-- `enc.dqm[0].Quant` -/
  baseQ : Nat
  dqY1DC : Int
  dqY2DC : Int
  dqY2AC : Int
  dqUVDC : Int
  dqUVAC : Int
  /-- `enc.proba.Bands[t][b].Probas[c][p]`, flattened `((t·8 + b)·3 + c)·11 + p` -/
  coef : List UInt8
  /-- `enc.numSkip > 0` -/
  useSkip : Bool
  skipProba : UInt8

/-- the decoder state after `parseHeaders` -/
structure DecHeader where
  colorspace : Bool
  clampType : Bool
  seg : SegHdr
  filt : FilterHdr
  numPartsMinusOne : Nat
  baseQ0 : Nat
  dqY1DC : Int
  dqY2DC : Int
  dqY2AC : Int
  dqUVDC : Int
  dqUVAC : Int
  coef : List UInt8
  useSkipProba : Bool
  skipP : UInt8

/-! ## tables -/

/-- `(CoeffsUpdateProba[t][b][c][p], CoeffsProba0[t][b][c][p])` in loop order -/
def updDef : List (Nat × UInt8) :=
  (List.range 1056).map fun i => (Tables.coeffUpdateProbs.getD i 0, UInt8.ofNat (Tables.defaultCoeffProbs.getD i 0))

/-- `CoeffsProba0`, flattened (what `ResetProba` installs) -/
def defaultCoef : List UInt8 := updDef.map (·.2)

/-! ## the encoder's calls -/

/-- `if v != 0 { PutBitUniform(1); PutBits(|v|, n); PutBitUniform(sign) } else { PutBitUniform(0) }` -/
def optMagOps (v : Int) (n : Nat) : List Op :=
  if v ≠ 0 then [.ubit true, .bits v.natAbs n, .ubit (decide (v < 0))] else [.ubit false]

def ops4 (f : Fin 4 → List Op) : List Op := f 0 ++ f 1 ++ f 2 ++ f 3

/-- `writeSegmentHeader` -/
def segHdrOps (h : SegHdr) : List Op :=
  .ubit h.useSegment ::
  (if h.useSegment then
    [.ubit h.updateMap, .ubit true, .ubit h.absoluteDelta] ++
    ops4 (fun i => optMagOps (h.quantizer i) 7) ++
    ops4 (fun i => optMagOps (h.filterStrength i) 6) ++
    (if h.updateMap then
      ([0, 1, 2] : List (Fin 3)).flatMap fun i =>
        if h.segProbs i ≠ 255 then [.ubit true, .bits (h.segProbs i).toNat 8] else [.ubit false]
     else [])
   else [])

/-- `writeFilterHeader` -/
def filterHdrOps (h : FilterHdr) : List Op :=
  [.ubit h.simple, .bits h.level 6, .bits h.sharpness 3, .ubit h.useLFDelta] ++
  (if h.useLFDelta then
    let needUpdate : Bool := decide (∃ i, h.refLFDelta i ≠ 0) || decide (∃ i, h.modeLFDelta i ≠ 0)
    .ubit needUpdate ::
    (if needUpdate then
      ops4 (fun i => optMagOps (h.refLFDelta i) 6) ++ ops4 (fun i => optMagOps (h.modeLFDelta i) 6)
     else [])
   else [])

/-- the `switch enc.numParts` of `emitPartition0` -/
def log2Parts (numParts : Nat) : Nat :=
  if numParts = 2 then 1 else if numParts = 4 then 2 else if numParts = 8 then 3 else 0

/-- `writeQuantParams` -/
def quantOps (h : EncHeader) : List Op :=
  [.bits h.baseQ 7, .sbits h.dqY1DC 4, .sbits h.dqY2DC 4, .sbits h.dqY2AC 4, .sbits h.dqUVDC 4, .sbits h.dqUVAC 4]

/-- `writeCoeffProba`: the four nested loops in order -/
def probaOps : List UInt8 → List (Nat × UInt8) → List Op
  | p :: ps, (u, d) :: uds =>
    (if p ≠ d then [.bit true u, .bits p.toNat 8] else [.bit false u]) ++ probaOps ps uds
  | _, _ => []

/-- the skip flag and probability -/
def skipOps (h : EncHeader) : List Op :=
  if h.useSkip then [.ubit true, .bits h.skipProba.toNat 8] else [.ubit false]

/-- **everything `emitPartition0` writes before `writeMBModes`** -/
def headerOps (h : EncHeader) : List Op :=
  [.ubit false, .ubit false] ++ segHdrOps h.seg ++ filterHdrOps h.filt ++ [.bits (log2Parts h.numParts) 2] ++
    quantOps h ++ [.ubit false] ++ probaOps h.coef updDef ++ skipOps h

/-! ## writer calls as decisions -/

/-- bits `i-1 … 0` of `v`, most significant first, at probability 1/2 -/
def msbS (v : Nat) : Nat → Stream
  | 0 => []
  | i + 1 => ⟨.fixed 128, v.testBit i⟩ :: msbS v i

/-- the decisions of one writer call -/
def opStream : Op → Stream
  | .bit b p => [⟨.fixed p, b⟩]
  | .ubit b => [⟨.fixed 128, b⟩]
  | .bits v n => msbS v n
  | .sbits v n =>
    ⟨.fixed 128, v != 0⟩ :: (if v = 0 then [] else msbS (v.natAbs * 2 + (if v < 0 then 1 else 0)) (n + 1))

def opsStream (ops : List Op) : Stream := ops.flatMap opStream

/-- the header as a decision stream -/
def headerStream (h : EncHeader) : Stream := opsStream (headerOps h)

/-! ## the decoder's reads as decision trees -/
namespace T
open Webp.Impl.VP8SyntaxBytes (P rd)

/-- `GetBit(0x80)` -/
def flag : P Bool := rd (.fixed 128)

/-- the loop of `GetValue`: `v |= uint32(GetBit(0x80)) << i` for `i` from `n-1` down to 0 -/
def getValueLoop (v : Nat) : Nat → P Nat
  | 0 => pure v
  | i + 1 => flag >>= fun b => getValueLoop (v ||| wrap32 ((if b then 1 else 0) <<< i)) i

/-- `GetValue(n)` -/
def getValue (n : Nat) : P Nat := getValueLoop 0 n

/-- `GetSignedValue(n)` -/
def getSignedValue (n : Nat) : P Int :=
  getValue n >>= fun v =>
  flag >>= fun s =>
  let value : Int := if v ≥ 2^31 then (v : Int) - 2^32 else v
  pure (if s then (if value = -2^31 then value else -value) else value)

/-- `if GetBit(0x80) != 0 { x = int8(GetSignedValue(n)) } else { x = 0 }` -/
def optSigned0 (n : Nat) : P Int :=
  flag >>= fun b => if b then getSignedValue n >>= fun v => pure (wrap8 v) else pure 0

/-- `if GetBit(0x80) != 0 { x = GetSignedValue(n) }` (keeps the old value otherwise) -/
def optSignedKeep (n : Nat) (old : Int) : P Int :=
  flag >>= fun b => if b then getSignedValue n else pure old

/-- `readOptionalSigned(br, n)` -/
def readOptionalSigned (n : Nat) : P Int :=
  flag >>= fun b => if b then getSignedValue n else pure 0

/-- `uint8(GetValue(8))` -/
def byte8 : P UInt8 := getValue 8 >>= fun v => pure (UInt8.ofNat v)

/-- `if GetBit(0x80) != 0 { p = uint8(GetValue(8)) } else { p = 255 }` -/
def segProb : P UInt8 := flag >>= fun b => if b then byte8 else pure 255

def fn4 (a b c d : Int) : Fin 4 → Int := fun i => if i.val = 0 then a else if i.val = 1 then b else if i.val = 2 then c else d

/-- `parseSegmentHeader` -/
def parseSegmentHeader (prev : SegHdr) : P SegHdr :=
  flag >>= fun useSegment =>
  if useSegment then
    flag >>= fun updateMap =>
    flag >>= fun updateData =>
    (if updateData then
      flag >>= fun absDelta =>
      optSigned0 7 >>= fun q0 => optSigned0 7 >>= fun q1 => optSigned0 7 >>= fun q2 => optSigned0 7 >>= fun q3 =>
      optSigned0 6 >>= fun f0 => optSigned0 6 >>= fun f1 => optSigned0 6 >>= fun f2 => optSigned0 6 >>= fun f3 =>
      pure (absDelta, fn4 q0 q1 q2 q3, fn4 f0 f1 f2 f3)
     else pure (prev.absoluteDelta, prev.quantizer, prev.filterStrength)) >>= fun d =>
    (if updateMap then
      segProb >>= fun p0 => segProb >>= fun p1 => segProb >>= fun p2 =>
      pure (fun i : Fin 3 => if i.val = 0 then p0 else if i.val = 1 then p1 else p2)
     else pure prev.segProbs) >>= fun sp =>
    pure { useSegment := true, updateMap := updateMap, absoluteDelta := d.1, quantizer := d.2.1,
           filterStrength := d.2.2, segProbs := sp }
  else
    pure { prev with useSegment := false, updateMap := false }

/-- `parseFilterHeader` -/
def parseFilterHeader (prev : FilterHdr) : P FilterHdr :=
  flag >>= fun simple =>
  getValue 6 >>= fun level =>
  getValue 3 >>= fun sharpness =>
  flag >>= fun useLFDelta =>
  (if useLFDelta then
    flag >>= fun upd =>
    if upd then
      optSignedKeep 6 (prev.refLFDelta 0) >>= fun r0 => optSignedKeep 6 (prev.refLFDelta 1) >>= fun r1 =>
      optSignedKeep 6 (prev.refLFDelta 2) >>= fun r2 => optSignedKeep 6 (prev.refLFDelta 3) >>= fun r3 =>
      optSignedKeep 6 (prev.modeLFDelta 0) >>= fun m0 => optSignedKeep 6 (prev.modeLFDelta 1) >>= fun m1 =>
      optSignedKeep 6 (prev.modeLFDelta 2) >>= fun m2 => optSignedKeep 6 (prev.modeLFDelta 3) >>= fun m3 =>
      pure (fn4 r0 r1 r2 r3, fn4 m0 m1 m2 m3)
    else pure (prev.refLFDelta, prev.modeLFDelta)
   else pure (prev.refLFDelta, prev.modeLFDelta)) >>= fun d =>
  pure { simple := simple, level := level, sharpness := sharpness, useLFDelta := useLFDelta,
         refLFDelta := d.1, modeLFDelta := d.2 }

/-- the loops of `parseProba` over `(CoeffsUpdateProba, CoeffsProba0)` in order -/
def parseProbaLoop : List (Nat × UInt8) → P (List UInt8)
  | [] => pure []
  | (u, d) :: uds =>
    rd (.fixed u) >>= fun b =>
    (if b then byte8 else pure d) >>= fun x =>
    parseProbaLoop uds >>= fun xs => pure (x :: xs)

/-- **`parseHeaders` from the first boolean of partition 0 to the end of `parseProba`** -/
def parseHeader (prev : DecHeader) : P DecHeader :=
  flag >>= fun colorspace =>
  flag >>= fun clampType =>
  parseSegmentHeader prev.seg >>= fun seg =>
  parseFilterHeader prev.filt >>= fun filt =>
  getValue 2 >>= fun lg =>
  getValue 7 >>= fun baseQ0 =>
  readOptionalSigned 4 >>= fun d1 => readOptionalSigned 4 >>= fun d2 => readOptionalSigned 4 >>= fun d3 =>
  readOptionalSigned 4 >>= fun d4 => readOptionalSigned 4 >>= fun d5 =>
  flag >>= fun _ =>
  parseProbaLoop updDef >>= fun coef =>
  flag >>= fun useSkip =>
  (if useSkip then byte8 else pure prev.skipP) >>= fun skipP =>
  pure { colorspace := colorspace, clampType := clampType, seg := seg, filt := filt
         numPartsMinusOne := (1 <<< lg) - 1, baseQ0 := baseQ0
         dqY1DC := d1, dqY2DC := d2, dqY2AC := d3, dqUVDC := d4, dqUVAC := d5
         coef := coef, useSkipProba := useSkip, skipP := skipP }

end T

/-! ## from the header state to the syntax parameters -/

/-- what `ParseQuant` computes the dequantisation factors from -/
def DecHeader.qidx (d : DecHeader) : QuantIdx :=
  { useSegment := d.seg.useSegment, absolute := d.seg.absoluteDelta, segQ := d.seg.quantizer, base := d.baseQ0
    dqY1DC := d.dqY1DC, dqY2DC := d.dqY2DC, dqY2AC := d.dqY2AC, dqUVDC := d.dqUVDC, dqUVAC := d.dqUVAC }

/-- Go's numbering of the sub-block modes (`B_DC_PRED 0, B_TM_PRED 1, B_VE_PRED 2, B_HE_PRED 3,
    B_RD_PRED 4, B_VR_PRED 5, B_LD_PRED 6, B_VL_PRED 7, B_HD_PRED 8, B_HU_PRED 9`) to RFC 6386's
    (`… B_LD_PRED 4, B_RD_PRED 5, B_VR_PRED 6 …`): the order of `Tables.kfBModeProbs` -/
def bmodeRFC : Nat → Nat
  | 4 => 5 | 5 => 6 | 6 => 4 | n => n

/-- **`KBModesProba[top][left][i]`** (constants.go), Go mode numbers: the RFC's `kf_bmode_probs` under
    the renumbering of both contexts (an index outside the 10·10·9 table — never formed by the Go
    code, which would panic — answers 128 like `Webp.Spec.VP8`'s lookup) -/
def kBModesProba (top left i : Nat) : Nat :=
  Tables.kfBModeProbs.getD ((bmodeRFC top * 10 + bmodeRFC left) * 9 + i) 128

/-- the byte a slot resolves to, from transported tables: `BandsPtr[t][n] = &Bands[t][KBands[n]]`,
    `KBModesProba`, the constants; the segment-map and skip probabilities only while in use -/
def probOfTables (coef : List UInt8) (updateMap : Bool) (segProbs : Fin 3 → UInt8) (useSkip : Bool) (skipP : UInt8) :
    Slot → UInt8
  | .coef t n ctx i => coef.getD (((t * 8 + Tables.coeffBands.getD n 0) * 3 + ctx) * 11 + i) 0
  | .fixed p => UInt8.ofNat p
  | .bmode top left i => UInt8.ofNat (kBModesProba top left i)
  | .seg i => if updateMap then (if h : i < 3 then segProbs ⟨i, h⟩ else 255) else 255
  | .skip => if useSkip then skipP else 0

def DecHeader.prob (d : DecHeader) : Slot → UInt8 :=
  probOfTables d.coef d.seg.updateMap d.seg.segProbs d.useSkipProba d.skipP

def EncHeader.prob (h : EncHeader) : Slot → UInt8 :=
  probOfTables h.coef (h.seg.useSegment && h.seg.updateMap) h.seg.segProbs h.useSkip h.skipProba

/-- a probability function for the header alone (it reads fixed-probability slots only) -/
def fixedProb : Slot → UInt8
  | .fixed p => UInt8.ofNat p
  | _ => 0

/-! ## the whole frame -/

/-- everything the encoder's `emitFrame` starts from -/
structure EncFull where
  f : EncFrame
  hdr : EncHeader

def EncFull.updateMap (e : EncFull) : Bool := e.hdr.seg.useSegment && e.hdr.seg.updateMap

/-- partition 0 and the token partitions as bytes -/
structure FrameBytes where
  w : Nat
  h : Nat
  part0 : Bytes
  parts : Nat → Bytes

/-- **`emitFrame`**: `emitPartition0` (header calls, then `writeMBModes`) and `emitTokenPartitions` -/
def emitFrameFull (e : EncFull) : FrameBytes :=
  let ef := emitFrame e.f e.hdr.numParts e.updateMap
  { w := ef.w, h := ef.h
    part0 := emitPartitionBytes e.hdr.prob (headerOps e.hdr) ef.streams.part0
    parts := fun p => emitPartitionBytes e.hdr.prob [] (ef.streams.parts p) }

/-- **the decoder before the loop filter, from the partitions' bytes alone**: `parseHeaders` on the
    reader of partition 0, then `parseFrame` without `filterRowAt` with everything derived from the
    parsed header; also returns the header state (filter parameters) and whether a reader hit `eof` -/
def decodeFrameFull (K : Kernels) (fb : FrameBytes) (prev : DecHeader) (col0 : ColData) :
    Option (Frame × DecHeader × Bool) :=
  (runR fixedProb (T.parseHeader prev) (newReader fb.part0)).bind fun (hd, r0) =>
  let mbW := mbCount fb.w
  let mbH := mbCount fb.h
  let fs : FrameSyntax :=
    { mbW := mbW, numParts := hd.numPartsMinusOne + 1, updateMap := hd.seg.updateMap, useSkip := hd.useSkipProba }
  let dflt : MBModes × ResData :=
    ({ isI4 := false, imodes := fun _ => 0, uvmode := 0, segment := 0, skip := false },
     { coeffs := fun _ => Coeffs.zero, nonZeroY := 0, nonZeroUV := 0 })
  (parseMBsBytes K (decQuantMatrix hd.qidx) fs hd.prob (List.range (mbW * mbH)) TokCtx.init r0
      (fun p => newReader (fb.parts p)) col0 (fun _ => dflt)).map
    fun res =>
      let st := (List.range (mbW * mbH)).foldl (decStep K mbW mbH res.1)
        { y := DecPlane.init, u := DecPlane.init, v := DecPlane.init }
      ({ w := fb.w, h := fb.h, y := cropPlane fb.w fb.h st.y.cache
         u := cropPlane ((fb.w + 1) / 2) ((fb.h + 1) / 2) st.u.cache
         v := cropPlane ((fb.w + 1) / 2) ((fb.h + 1) / 2) st.v.cache },
       hd,
       res.2.1.eof || (List.range (hd.numPartsMinusOne + 1)).any fun p => (res.2.2 p).eof)

end Webp.Impl.VP8HeaderBytes
