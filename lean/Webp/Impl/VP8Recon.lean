import Webp.Spec.VP8.Tables
/-
  Implementation model for property C06 — "lossy decode equals the encoder's own reconstruction".

  What is transcribed (Go package /repo/internal/lossy unless said otherwise):

    quantisers   encode.go `setupSegment` / `initSegmentQuant` (dequantisation factors only),
                 encode_analysis.go `buildSegmentHeader`, encode_syntax.go `writeSegmentHeader` /
                 `writeQuantParams` (the *values* the header carries), decode_quant.go `ParseQuant`
    tokens       encode_token.go `RecordCoeffs` / `recordLevelVP8`, encode_frame.go `recordMBTokens`
                 and the skip branch of `encodeFrame` / `recordAllTokens` / `rerecordAllTokens`,
                 decode_mb.go `getCoeffsInline` / `parseResiduals` / `nzCodeBits` / `decodeMB`
    modes        encode_syntax.go `writeMBModes`, `writeI16Mode`, `writeI4ModeBits`, `writeUVMode`,
                 `writeSegmentID`; decode_tree.go `parseIntraModeRow`
    per-MB recon encode_frame.go `reconstructMB` + the in-loop reconstruction of `encodeI4Residuals`
                 (and of `tryI4ModesRD` for the trellis path: `tmpBestDQ` is `DequantCoeffs(tmpBestQ)`),
                 encode_parallel.go `reconstructMBParallel` + `encodeI4ResidualsParallel`,
                 decode_frame.go `reconstructRow` (per-macroblock body), `doTransform`,
                 `doUVTransform`, `doTransformDCBlock`, `checkMode`
    frame        encode_iterator.go `InitIterator` / `resetLeftContext` / `FillPredContext` / `Export`,
                 encode_parallel.go `encodeRow` / `fillPredContextParallel` / `exportParallel`,
                 decode_frame.go `reconstructRow` (borders, left rotation, `yuvT`, top-right, output)

  What is a PARAMETER:

    * the DSP kernels (`Kernels`): inverse DCT in its encoder and decoder variants, the AC3 fast
      path, `TransformUV`, the inverse WHT, the 16×16 / 8×8 / 4×4 predictors.  Every theorem of
      C06 holds for all kernels; the few facts needed about them are the named fields of
      `KernelFacts` (to be discharged by `Webp.Impl.VP8Kernels`);
    * every encoder heuristic: what the encoder decided for a macroblock is a `MBDesc` (modes,
      segment, quantised levels) and is universally quantified;
    * the boolean coder: a stream is a list of decisions `(probability slot, bit)`; reading with the
      slot that was written returns the bit, reading with another slot fails (`readBit`).

  Samples of the work buffers are addressed by (row + 1, column + 1) of the Go buffer relative to the
  block origin (`YOff`, `UOff`, `VOff`; stride `BPS` = 32), so the row above the block is row 0 and
  the column to its left is column 0.  Cells of the Go buffers that are never read before being
  written (stale data of the previous macroblock) are 0 here.

  Mode numbering is the Go/libwebp one: DC 0, TM 1, V 2, H 3 (16×16 and chroma; 4 NoTop, 5 NoLeft,
  6 NoTopLeft after `checkMode`), B_DC 0, B_TM 1, B_VE 2, B_HE 3, B_RD 4, B_VR 5, B_LD 6, B_VL 7,
  B_HD 8, B_HU 9.
-/
namespace Webp.Impl.VP8Recon
open Webp.Spec.VP8 (Tables.dcQLookup Tables.acQLookup Tables.zigzag Tables.coeffBands)

/-! ## basic types -/

/-- Go `int16(x)` -/
@[inline] def wrap16 (x : Int) : Int := (x + 32768) % 65536 - 32768
/-- Go `int8(x)` -/
@[inline] def wrap8 (x : Int) : Int := (x + 128) % 256 - 128

/-- 16 coefficients (or quantised levels) of a 4×4 block, raster order -/
abbrev Coeffs := Fin 16 → Int
abbrev Blk4 := Fin 16 → UInt8
abbrev Blk8 := Fin 64 → UInt8
abbrev Blk16 := Fin 256 → UInt8

def Coeffs.zero : Coeffs := fun _ => 0
/-- `c[i] = v` -/
def Coeffs.set (c : Coeffs) (i : Fin 16) (v : Int) : Coeffs := fun j => if j = i then v else c j

def Int16Range (c : Coeffs) : Prop := ∀ i, -32768 ≤ c i ∧ c i ≤ 32767

/-- `KZigzag` -/
def zzNat (n : Nat) : Nat := Tables.zigzag.getD n 0
theorem zzNat_lt (n : Fin 16) : zzNat n.val < 16 := by revert n; decide
def zz (n : Fin 16) : Fin 16 := ⟨zzNat n.val, zzNat_lt n⟩

/-- `dsp.Clip8b` -/
def clip8 (v : Int) : UInt8 := if v < 0 then 0 else if v > 255 then 255 else v.toNat.toUInt8

/-! ## quantisers -/

structure QuantMatrix where
  y1dc : Int
  y1ac : Int
  y2dc : Int
  y2ac : Int
  uvdc : Int
  uvac : Int
  deriving DecidableEq, Repr, Inhabited

/-- `KAcTable2` (constants.go): the encoder's table for the Y2 AC factor -/
def kAcTable2 : Array Nat := #[
  8, 8, 9, 10, 12, 13, 15, 17, 18, 20, 21, 23, 24, 26, 27,
  29, 31, 32, 34, 35, 37, 38, 40, 41, 43, 44, 46, 48, 49, 51,
  52, 54, 55, 57, 58, 60, 62, 63, 65, 66, 68, 69, 71, 72, 74,
  75, 77, 79, 80, 82, 83, 85, 86, 88, 89, 93, 96, 99, 102, 105,
  108, 111, 114, 117, 120, 124, 127, 130, 133, 136, 139, 142, 145, 148, 151,
  155, 158, 161, 164, 167, 170, 173, 176, 179, 184, 189, 193, 198, 203, 207,
  212, 217, 221, 226, 230, 235, 240, 244, 249, 254, 258, 263, 268, 274, 280,
  286, 292, 299, 305, 311, 317, 323, 330, 336, 342, 348, 354, 362, 370, 379,
  385, 393, 401, 409, 416, 424, 432, 440]

/-- `KDcTable[i]`, `KAcTable[i]`, `KAcTable2[i]` for an index already clipped to 0..127 -/
def dcTab (i : Int) : Int := (Tables.dcQLookup.getD i.toNat 0 : Nat)
def acTab (i : Int) : Int := (Tables.acQLookup.getD i.toNat 0 : Nat)
def acTab2 (i : Int) : Int := (kAcTable2.getD i.toNat 0 : Nat)

/-- encode.go `clampInt(v, lo, hi)` -/
def clampInt (v lo hi : Int) : Int := if v < lo then lo else if v > hi then hi else v
/-- decode_quant.go `clip(v, max)` -/
def clip (v max : Int) : Int := if v < 0 then 0 else if v > max then max else v

/-- What the frame header carries about quantisation: the segment header (`use_segment`,
    absolute/delta, the four `Quantizer` values, an `int8` each) and the six values `ParseQuant`
    reads (base index, five deltas). -/
structure QuantIdx where
  useSegment : Bool
  absolute : Bool
  segQ : Fin 4 → Int
  base : Int
  dqY1DC : Int
  dqY2DC : Int
  dqY2AC : Int
  dqUVDC : Int
  dqUVAC : Int

/-- the quantiser index `ParseQuant` computes for segment `s` -/
def decSegQ (idx : QuantIdx) (s : Fin 4) : Int :=
  if idx.useSegment then
    (if idx.absolute then idx.segQ s else idx.segQ s + idx.base)
  else idx.base

/-- decode_quant.go `ParseQuant`: `dqm[s]` (without segmentation `dqm[s] = dqm[0]`, computed from
    the base index) -/
def decQuantMatrix (idx : QuantIdx) (s : Fin 4) : QuantMatrix :=
  let q := decSegQ idx s
  { y1dc := dcTab (clip (q + idx.dqY1DC) 127)
    y1ac := acTab (clip q 127)
    y2dc := dcTab (clip (q + idx.dqY2DC) 127) * 2
    y2ac :=
      let v := (acTab (clip (q + idx.dqY2AC) 127) * 101581) >>> 16
      if v < 8 then 8 else v
    uvdc := dcTab (clip (q + idx.dqUVDC) 117)
    uvac := acTab (clip (q + idx.dqUVAC) 127) }

/-- The part of the encoder's state that determines its dequantisation factors and what it writes
    about them. -/
structure EncQuant where
  /-- `enc.numSegments` after `simplifySegments` (1..4) -/
  numSegs : Nat
  /-- `enc.dqm[i].Quant` -/
  quant : Fin 4 → Int
  dqY1DC : Int
  dqY2DC : Int
  dqY2AC : Int
  dqUVDC : Int
  dqUVAC : Int
  /-- `segmentHdr.Quantizer[i]` for `i ≥ numSegs`: `buildSegmentHeader` does not write these
      entries, so they keep whatever an earlier call (or a pooled encoder) left there -/
  staleQ : Fin 4 → Int

/-- encode.go `setupSegment(enc, s, enc.dqm[s].Quant)`: the factors `DequantCoeffs` multiplies by
    (`seg.Y1.DCQuant`, `seg.Y1.Quant`, `seg.Y2.…`, `seg.UV.…`) -/
def encQuantMatrix (st : EncQuant) (s : Fin 4) : QuantMatrix :=
  let q := st.quant s
  { y1dc := dcTab (clampInt (q + st.dqY1DC) 0 127)
    y1ac := acTab (clampInt q 0 127)
    y2dc :=
      let v := dcTab (clampInt (q + st.dqY2DC) 0 127) * 2
      if v < 8 then 8 else v
    y2ac := acTab2 (clampInt (q + st.dqY2AC) 0 127)
    uvdc := dcTab (clampInt (q + st.dqUVDC) 0 117)
    uvac := acTab (clampInt (q + st.dqUVAC) 0 127) }

/-- the value a reader gets back from `PutSignedBits(v, n)` / the `present, PutBits(|v|, n), sign`
    sequence of `writeSegmentHeader`: the magnitude is cut to `n` bits -/
def signedField (n : Nat) (v : Int) : Int :=
  if v = 0 then 0 else if v < 0 then -((v.natAbs % 2 ^ n : Nat) : Int) else ((v.natAbs % 2 ^ n : Nat) : Int)

/-- What the encoder writes: `buildSegmentHeader` (`UseSegment = numSegs > 1`, always absolute,
    `Quantizer[i] = int8(clampInt(dqm[i].Quant, -127, 127))` for `i < numSegs`),
    `writeSegmentHeader` (7 magnitude bits + sign), `writeQuantParams` (`PutBits(dqm[0].Quant, 7)`,
    five `PutSignedBits(·, 4)`). -/
def encHeader (st : EncQuant) : QuantIdx :=
  { useSegment := decide (st.numSegs > 1)
    absolute := true
    segQ := fun i =>
      signedField 7 (if i.val < st.numSegs then wrap8 (clampInt (st.quant i) (-127) 127) else st.staleQ i)
    base := st.quant 0 % 128
    dqY1DC := signedField 4 st.dqY1DC
    dqY2DC := signedField 4 st.dqY2DC
    dqY2AC := signedField 4 st.dqY2AC
    dqUVDC := signedField 4 st.dqUVDC
    dqUVAC := signedField 4 st.dqUVAC }

/-- What `setSegmentParams` guarantees: indices in 0..127, deltas that fit four bits. -/
structure EncQuant.WF (st : EncQuant) : Prop where
  segs : 1 ≤ st.numSegs ∧ st.numSegs ≤ 4
  quant : ∀ i, 0 ≤ st.quant i ∧ st.quant i ≤ 127
  d1 : -15 ≤ st.dqY1DC ∧ st.dqY1DC ≤ 15
  d2 : -15 ≤ st.dqY2DC ∧ st.dqY2DC ≤ 15
  d3 : -15 ≤ st.dqY2AC ∧ st.dqY2AC ≤ 15
  d4 : -15 ≤ st.dqUVDC ∧ st.dqUVDC ≤ 15
  d5 : -15 ≤ st.dqUVAC ∧ st.dqUVAC ≤ 15

/-! ## a macroblock as the encoder decided it -/

/-- Everything the encoder decided for one macroblock.  `levels b` are the quantised levels
    (`MBEncInfo.Coeffs[16·b …]`, raster order inside the block) of block `b`: 0–15 luma, 16–19 U,
    20–23 V, 24 the Y2 block (offset 384). -/
structure MBDesc where
  isI4 : Bool
  i16mode : Nat
  i4modes : Fin 16 → Nat
  uvmode : Nat
  segment : Nat
  levels : Nat → Coeffs

/-- scan of the zig-zag positions `k-1, k-2, …, first` for the last non-zero level -/
def nzScan (first : Nat) (c : Coeffs) : Nat → Nat
  | 0 => 0
  | k + 1 => if h : k < 16 then (if first ≤ k ∧ c (zz ⟨k, h⟩) ≠ 0 then k + 1 else nzScan first c k) else nzScan first c k

/-- `quantizeCoeffsGo` / `TrellisQuantizeBlock` return value: one past the last zig-zag position
    `≥ first` that holds a non-zero level; 0 if there is none.  (With `first = 1` both functions
    store 0 at position 0 and do not look at it.  Go computes it as a running maximum over the
    raster positions via `kReverseZigzag`, the SSE2 version with `nzCountACSSE2`; suite
    `reconmodel` compares all of them with this function.) -/
def nzCountFrom (first : Nat) (c : Coeffs) : Nat := nzScan first c 16

/-- `info.NzY[b]`, `info.NzUV[b-16]`, `info.NzDC` -/
def MBDesc.nz (d : MBDesc) (b : Nat) : Nat :=
  nzCountFrom (if !d.isI4 ∧ b < 16 then 1 else 0) (d.levels b)

/-- `info.Skip = (info.NonZeroY == 0 && info.NonZeroUV == 0)`: bit `b` of `NonZeroY` is `NzY[b] > 0`,
    bit 24 is `NzDC > 0` (I16 only), the bits of `NonZeroUV` are `NzUV[k] > 0`. -/
def MBDesc.skip (d : MBDesc) : Bool :=
  (List.range 24).all (fun b => d.nz b = 0) && (d.isI4 || d.nz 24 = 0)

/-- levels the token syntax can carry: `recordLevelVP8` writes at most 11 extra bits above 67.
    (`quantizeCoeffsGo` and the trellis clamp to 2047 = MAX_LEVEL.) -/
def LevelsInRange (c : Coeffs) : Prop := ∀ i, (c i).natAbs ≤ 2114

structure MBDesc.WF (d : MBDesc) : Prop where
  i16 : d.i16mode < 4
  i4 : ∀ b, d.i4modes b < 10
  uv : d.uvmode < 4
  seg : d.segment < 4
  lev : ∀ b, LevelsInRange (d.levels b)

/-! ## dequantisation on both sides -/

/-- encode_quant.go `dequantCoeffsGo` (= the SSE2 `DequantCoeffs`): `out[i] = int16(in[i]·q)` with
    `DCQuant` at index 0 -/
def dequant (dcq acq : Int) (lv : Coeffs) : Coeffs :=
  fun i => wrap16 (lv i * (if i.val = 0 then dcq else acq))

/-! ## kernels -/

structure Edge16 where
  tl : UInt8
  top : Fin 16 → UInt8
  left : Fin 16 → UInt8

structure Edge8 where
  tl : UInt8
  top : Fin 8 → UInt8
  left : Fin 8 → UInt8

structure Edge4 where
  tl : UInt8
  top : Fin 8 → UInt8
  left : Fin 4 → UInt8

/-- The DSP functions the two reconstructions call, as pure functions of what they read. -/
structure Kernels where
  /-- `dsp.ITransformDirect(ref, in, dst, false)` with `ref` and `dst` the same 4×4 block -/
  encIdct : Coeffs → Blk4 → Blk4
  /-- `dsp.Transform(src, dst, false)` -/
  decIdct : Coeffs → Blk4 → Blk4
  /-- `dsp.TransformAC3` -/
  decAC3 : Coeffs → Blk4 → Blk4
  /-- `dsp.TransformUV(src, dst)`: four coefficient blocks, one 8×8 plane -/
  decIdctUV : (Fin 4 → Coeffs) → Blk8 → Blk8
  /-- `dsp.TransformWHT(in, out)`: `out[16·b]` for `b = 0..15` -/
  iwht : Coeffs → Coeffs
  /-- `dsp.PredLuma16Direct(mode, buf, YOff)`, modes 0..6 -/
  encPred16 : Nat → Edge16 → Blk16
  /-- `dsp.PredLuma16[mode](buf, yBase)` -/
  decPred16 : Nat → Edge16 → Blk16
  /-- `dsp.PredChroma8Direct(mode, buf, off)` -/
  encPred8 : Nat → Edge8 → Blk8
  /-- `dsp.PredChroma8[mode](buf, off)` -/
  decPred8 : Nat → Edge8 → Blk8
  /-- `dsp.PredLuma4Direct(mode, buf, off)` (both sides) -/
  pred4 : Nat → Edge4 → Blk4

/-- decode_frame.go `doTransform` case 1 / `doTransformDCBlock`: the inlined DC-only transform -/
def dcAdd (dc : Int) (p : Blk4) : Blk4 :=
  fun i => clip8 (((p i).toNat : Int) + ((dc + 4) >>> 3))

def sub8 (p : Blk8) (k : Fin 4) : Blk4 :=
  fun i => p ⟨(4 * (k.val / 2) + i.val / 4) * 8 + 4 * (k.val % 2) + i.val % 4, by omega⟩

def join8 (f : Fin 4 → Blk4) : Blk8 :=
  fun i => f ⟨(i.val / 8 / 4) * 2 + i.val % 8 / 4, by omega⟩ ⟨(i.val / 8 % 4) * 4 + i.val % 8 % 4, by omega⟩

/-- every coefficient within `[-B, B]` -/
def Bounded (B : Int) (c : Coeffs) : Prop := ∀ i, -B ≤ c i ∧ c i ≤ B

/-- The facts about the kernels that C06 needs, for coefficient blocks within `[-B, B]` (inverse
    DCT) and Y2 blocks within `[-Bw, Bw]` (inverse WHT).

    For the pure-Go kernels they hold with `B = Bw = 32767`, i.e. for everything an `int16` slice can
    hold.  The SSE2/AVX2/NEON kernels compute in 16-bit lanes and satisfy them only below a
    threshold: measured on the amd64 build (suite `reconmodel`), `idct_dc` fails for
    `dc ∈ 32764..32767`, `wht_dc` for `dc ∈ 32765..32767`, `idct_ac3` once `|c0| + 1.31·(|c1| + |c4|)`
    leaves 16 bits (first failures near ±9100); `idct_same`/`idct_uv`(full) never. -/
structure KernelFacts (K : Kernels) (B Bw : Int) : Prop where
  /-- the decoder's full inverse DCT is the encoder's -/
  idct_same : ∀ c p, Bounded B c → K.decIdct c p = K.encIdct c p
  /-- all-zero coefficients leave the prediction unchanged -/
  idct_zero : ∀ p, K.encIdct Coeffs.zero p = p
  /-- DC-only block: the full transform is the inlined `(dc + 4) >> 3` add -/
  idct_dc : ∀ c p, Bounded B c → (∀ i : Fin 16, i.val ≠ 0 → c i = 0) → K.encIdct c p = dcAdd (c 0) p
  /-- coefficients only at raster 0, 1, 4: `TransformAC3` is the full transform -/
  idct_ac3 : ∀ c p, Bounded B c → (∀ i : Fin 16, i.val ≠ 0 → i.val ≠ 1 → i.val ≠ 4 → c i = 0) →
    K.decAC3 c p = K.encIdct c p
  /-- `TransformUV` is the full transform on each of the four blocks -/
  idct_uv : ∀ cs p, (∀ k, Bounded B (cs k)) → K.decIdctUV cs p = join8 (fun k => K.encIdct (cs k) (sub8 p k))
  /-- DC-only Y2 block: the inverse WHT is `(dc + 3) >> 3` everywhere -/
  wht_dc : ∀ c, Bounded Bw c → (∀ i : Fin 16, i.val ≠ 0 → c i = 0) → K.iwht c = fun _ => wrap16 ((c 0 + 3) >>> 3)
  pred16_same : ∀ m e, m < 7 → K.decPred16 m e = K.encPred16 m e
  pred8_same : ∀ m e, m < 7 → K.decPred8 m e = K.encPred8 m e

/-! ## the work buffers -/

/-- a work buffer around one block: cell `(R, C)` is row `R-1`, column `C-1` of the Go buffer
    relative to the block origin -/
abbrev Grid := Nat → Nat → UInt8

structure Ctx where
  y : Edge16
  /-- the four samples above and to the right of the macroblock -/
  topRight : Fin 4 → UInt8
  u : Edge8
  v : Edge8

/-- `FillPredContext` (Y part) / the state of `yuvB` before luma prediction: top-left, 16 top
    samples, 4 top-right samples — replicated to rows 3, 7, 11 —, 16 left samples -/
def loadY (c : Ctx) : Grid := fun R C =>
  if R = 0 then
    (if C = 0 then c.y.tl
     else if h : C ≤ 16 then c.y.top ⟨C - 1, by omega⟩
     else if h2 : C ≤ 20 then c.topRight ⟨C - 17, by omega⟩
     else 0)
  else if h : R ≤ 16 then
    (if C = 0 then c.y.left ⟨R - 1, by omega⟩
     else if h2 : (R = 4 ∨ R = 8 ∨ R = 12) ∧ 17 ≤ C ∧ C ≤ 20 then c.topRight ⟨C - 17, by omega⟩
     else 0)
  else 0

def loadUV (e : Edge8) : Grid := fun R C =>
  if R = 0 then
    (if C = 0 then e.tl else if h : C ≤ 8 then e.top ⟨C - 1, by omega⟩ else 0)
  else if h : R ≤ 8 then
    (if C = 0 then e.left ⟨R - 1, by omega⟩ else 0)
  else 0

def edge16 (G : Grid) : Edge16 :=
  { tl := G 0 0, top := fun i => G 0 (i.val + 1), left := fun j => G (j.val + 1) 0 }

def edge8 (G : Grid) : Edge8 :=
  { tl := G 0 0, top := fun i => G 0 (i.val + 1), left := fun j => G (j.val + 1) 0 }

/-- what `PredLuma4Direct(mode, buf, off)` can read for sub-block `(bx, by)` -/
def edge4 (G : Grid) (bx by' : Nat) : Edge4 :=
  { tl := G (4 * by') (4 * bx)
    top := fun i => G (4 * by') (4 * bx + 1 + i.val)
    left := fun j => G (4 * by' + 1 + j.val) (4 * bx) }

def readBlk4 (G : Grid) (bx by' : Nat) : Blk4 := fun i => G (4 * by' + 1 + i.val / 4) (4 * bx + 1 + i.val % 4)

def writeBlk4 (G : Grid) (bx by' : Nat) (b : Blk4) : Grid := fun R C =>
  if h : 4 * by' + 1 ≤ R ∧ R < 4 * by' + 5 ∧ 4 * bx + 1 ≤ C ∧ C < 4 * bx + 5 then
    b ⟨(R - (4 * by' + 1)) * 4 + (C - (4 * bx + 1)), by omega⟩
  else G R C

/-- an in-place 4×4 operation on the buffer (`f(buf[off:], …, buf[off:])`) -/
def xfAt (G : Grid) (bx by' : Nat) (f : Blk4 → Blk4) : Grid := writeBlk4 G bx by' (f (readBlk4 G bx by'))

def write16 (G : Grid) (b : Blk16) : Grid := fun R C =>
  if h : 1 ≤ R ∧ R ≤ 16 ∧ 1 ≤ C ∧ C ≤ 16 then b ⟨(R - 1) * 16 + (C - 1), by omega⟩ else G R C

def write8 (G : Grid) (b : Blk8) : Grid := fun R C =>
  if h : 1 ≤ R ∧ R ≤ 8 ∧ 1 ≤ C ∧ C ≤ 8 then b ⟨(R - 1) * 8 + (C - 1), by omega⟩ else G R C

def read16 (G : Grid) : Blk16 := fun i => G (i.val / 16 + 1) (i.val % 16 + 1)
def read8 (G : Grid) : Blk8 := fun i => G (i.val / 8 + 1) (i.val % 8 + 1)

/-- the reconstruction of one macroblock -/
structure Blocks where
  y : Blk16
  u : Blk8
  v : Blk8

/-- decode_frame.go `checkMode` -/
def checkMode (mbX mbY mode : Nat) : Nat :=
  if mode = 0 then
    (if mbX = 0 then (if mbY = 0 then 6 else 5) else if mbY = 0 then 4 else mode)
  else mode

/-! ## the encoder's reconstruction of one macroblock -/

/-- the dequantised coefficients `reconstructMB` hands to `ITransformDirect` for luma block `b` of
    an I16 macroblock: `DequantCoeffs(levels, Y1)` with index 0 replaced by output `b` of
    `TransformWHT(DequantCoeffs(levels₂₄, Y2))` -/
def encCoeffsY16 (K : Kernels) (qm : QuantMatrix) (d : MBDesc) (b : Fin 16) : Coeffs :=
  (dequant qm.y1dc qm.y1ac (d.levels b.val)).set 0 (K.iwht (dequant qm.y2dc qm.y2ac (d.levels 24)) b)

/-- luma, I16: `PredLuma16Direct(checkMode(…))`, then per block dequantise and `ITransformDirect` in
    place (encode_frame.go `reconstructMB`) -/
def encLuma16 (K : Kernels) (qm : QuantMatrix) (mbX mbY : Nat) (c : Ctx) (d : MBDesc) : Grid :=
  let G0 := loadY c
  let G1 := write16 G0 (K.encPred16 (checkMode mbX mbY d.i16mode) (edge16 G0))
  (List.finRange 16).foldl
    (fun G b => xfAt G (b.val % 4) (b.val / 4) (K.encIdct (encCoeffsY16 K qm d b))) G1

/-- luma, I4: per sub-block `PredLuma4Direct`, dequantise, `ITransformDirect` in place
    (encode_frame.go `encodeI4Residuals`; for Method ≥ 4 the same steps inside `tryI4ModesRD` on
    `yuvOut2`, copied to `yuvOut` by `pickBestMode`) -/
def encLuma4 (K : Kernels) (qm : QuantMatrix) (c : Ctx) (d : MBDesc) : Grid :=
  (List.finRange 16).foldl
    (fun G b =>
      let G' := writeBlk4 G (b.val % 4) (b.val / 4) (K.pred4 (d.i4modes b) (edge4 G (b.val % 4) (b.val / 4)))
      xfAt G' (b.val % 4) (b.val / 4) (K.encIdct (dequant qm.y1dc qm.y1ac (d.levels b.val))))
    (loadY c)

/-- one chroma plane: `PredChroma8Direct(checkMode(…))`, then four blocks (`base` = 16 for U, 20 for V) -/
def encChroma (K : Kernels) (qm : QuantMatrix) (mbX mbY : Nat) (e : Edge8) (d : MBDesc) (base : Nat) : Grid :=
  let G0 := loadUV e
  let G1 := write8 G0 (K.encPred8 (checkMode mbX mbY d.uvmode) (edge8 G0))
  (List.finRange 4).foldl
    (fun G k => xfAt G (k.val % 2) (k.val / 2) (K.encIdct (dequant qm.uvdc qm.uvac (d.levels (base + k.val))))) G1

/-- **`encRecon`** — what `yuvOut` holds after `reconstructMB` (serial path) -/
def encRecon (K : Kernels) (qm : QuantMatrix) (mbX mbY : Nat) (c : Ctx) (d : MBDesc) : Blocks :=
  { y := read16 (if d.isI4 then encLuma4 K qm c d else encLuma16 K qm mbX mbY c d)
    u := read8 (encChroma K qm mbX mbY c.u d 16)
    v := read8 (encChroma K qm mbX mbY c.v d 20) }

/-! ### the row-parallel copy (encode_parallel.go) -/

/-- `reconstructMBParallel`, I16 branch -/
def encLuma16Par (K : Kernels) (qm : QuantMatrix) (mbX mbY : Nat) (c : Ctx) (d : MBDesc) : Grid :=
  let G0 := loadY c
  let G1 := write16 G0 (K.encPred16 (checkMode mbX mbY d.i16mode) (edge16 G0))
  let dcs := K.iwht (dequant qm.y2dc qm.y2ac (d.levels 24))
  (List.finRange 16).foldl
    (fun G b =>
      xfAt G (b.val % 4) (b.val / 4)
        (K.encIdct ((dequant qm.y1dc qm.y1ac (d.levels b.val)).set 0 (dcs b)))) G1

/-- `encodeI4ResidualsParallel` (and `tryI4ModesRDParallel` for Method ≥ 4) -/
def encLuma4Par (K : Kernels) (qm : QuantMatrix) (c : Ctx) (d : MBDesc) : Grid :=
  (List.finRange 16).foldl
    (fun G b =>
      let bx := b.val % 4
      let by' := b.val / 4
      let G' := writeBlk4 G bx by' (K.pred4 (d.i4modes b) (edge4 G bx by'))
      xfAt G' bx by' (K.encIdct (dequant qm.y1dc qm.y1ac (d.levels b.val))))
    (loadY c)

/-- `reconstructMBParallel`, chroma part -/
def encChromaPar (K : Kernels) (qm : QuantMatrix) (mbX mbY : Nat) (e : Edge8) (d : MBDesc) (base : Nat) : Grid :=
  let G0 := loadUV e
  let G1 := write8 G0 (K.encPred8 (checkMode mbX mbY d.uvmode) (edge8 G0))
  (List.finRange 4).foldl
    (fun G k => xfAt G (k.val % 2) (k.val / 2) (K.encIdct (dequant qm.uvdc qm.uvac (d.levels (base + k.val))))) G1

/-- **`encReconPar`** — what the worker's `yuvOut` holds after `reconstructMBParallel` -/
def encReconPar (K : Kernels) (qm : QuantMatrix) (mbX mbY : Nat) (c : Ctx) (d : MBDesc) : Blocks :=
  { y := read16 (if d.isI4 then encLuma4Par K qm c d else encLuma16Par K qm mbX mbY c d)
    u := read8 (encChromaPar K qm mbX mbY c.u d 16)
    v := read8 (encChromaPar K qm mbX mbY c.v d 20) }

/-! ## what the decoder stores for a macroblock, and its reconstruction -/

/-- decode_mb.go `nzCodeBits`: the 2-bit code appended for a block whose token parse returned `nz` -/
def nzCode (nz : Nat) (dcNz : Nat) : Nat := if nz > 3 then 3 else if nz > 1 then 2 else dcNz

def nzCodeBits (nzCoeffs : Nat) (nz : Nat) (dcNz : Nat) : Nat :=
  ((nzCoeffs <<< 2) ||| nzCode nz dcNz) % 4294967296

/-- what partition 0 told the decoder about a macroblock (`MBData.IsI4x4`, `IModes`, `UVMode`,
    `Segment`, `Skip`).  For I16 only `IModes[0]` is written; the other entries keep their old
    values. -/
structure MBModes where
  isI4 : Bool
  imodes : Fin 16 → Nat
  uvmode : Nat
  segment : Nat
  skip : Bool

/-- what the token partition contributed: `block.Coeffs[16·b …]` (b = 0..23), `block.NonZeroY`,
    `block.NonZeroUV` (both uint32) -/
structure ResData where
  coeffs : Nat → Coeffs
  nonZeroY : Nat
  nonZeroUV : Nat

/-- what `getCoeffsInline` returns for a block whose exact count is `n`: the position of the
    end-of-block token, which is `first` for a block without coefficients -/
def decNz (first n : Nat) : Nat := if n ≤ first then first else n

/-- the 16 per-block DC values `parseResiduals` derives from the Y2 block -/
def decWht (K : Kernels) (qm : QuantMatrix) (lv24 : Coeffs) : Coeffs :=
  let dc := dequant qm.y2dc qm.y2ac lv24
  if nzCountFrom 0 lv24 > 1 then K.iwht dc
  else fun _ => wrap16 ((dc 0 + 3) >>> 3)

/-- coefficient block `b` as `parseResiduals` leaves it, given the levels (`int16(v · dq)` at the
    positions the tokens cover; for I16 luma position 0 comes from the WHT step) -/
def decBlock (K : Kernels) (qm : QuantMatrix) (d : MBDesc) (b : Nat) : Coeffs :=
  if h : b < 16 then
    (if d.isI4 then dequant qm.y1dc qm.y1ac (d.levels b)
     else (dequant qm.y1dc qm.y1ac (d.levels b)).set 0 (decWht K qm (d.levels 24) ⟨b, h⟩))
  else if b < 24 then dequant qm.uvdc qm.uvac (d.levels b)
  else Coeffs.zero

/-- The dequantised coefficients of the macroblock stay within the range the kernel facts cover:
    every block handed to an inverse DCT within `[-B, B]` (for I16 this includes the DC values that
    come out of the inverse WHT), the dequantised Y2 block within `[-Bw, Bw]`.  With
    `B = Bw = 32767` this only says that `TransformWHT` wrote `int16`s. -/
def CoeffsWithin (K : Kernels) (qm : QuantMatrix) (d : MBDesc) (B Bw : Int) : Prop :=
  (∀ b, b < 24 → Bounded B (decBlock K qm d b)) ∧
  (d.isI4 = false → Bounded Bw (dequant qm.y2dc qm.y2ac (d.levels 24)))

/-- the 2-bit code of block `b < 24` -/
def decCode (K : Kernels) (qm : QuantMatrix) (d : MBDesc) (b : Nat) : Nat :=
  nzCode (decNz (if !d.isI4 ∧ b < 16 then 1 else 0) (d.nz b)) (if decBlock K qm d b 0 ≠ 0 then 1 else 0)

/-- eight bits: the codes of four consecutive blocks, first block highest -/
def packRow (code : Nat → Nat) (b0 : Nat) : Nat :=
  [0, 1, 2, 3].foldl (fun acc x => nzCodeBitsRaw acc (code (b0 + x))) 0
where nzCodeBitsRaw (acc c : Nat) : Nat := ((acc <<< 2) ||| c) % 4294967296

/-- **`decCoeffs`** — what `parseResiduals` stores for a macroblock that is not skipped: the
    dequantised coefficients (with the WHT step for I16) and the two words of 2-bit codes. -/
def decCoeffs (K : Kernels) (qm : QuantMatrix) (d : MBDesc) : ResData :=
  let code := decCode K qm d
  { coeffs := decBlock K qm d
    nonZeroY := [0, 4, 8, 12].foldl (fun acc b0 => ((acc <<< 8) ||| packRow code b0) % 4294967296) 0
    nonZeroUV := (packRow code 16 <<< 0) % 4294967296 ||| (packRow code 20 <<< 8) % 4294967296 }

/-- what `decodeMB` leaves for a macroblock with the skip flag: no codes; the coefficient array keeps
    the previous macroblock's values (`stale`) -/
def decSkipped (stale : Nat → Coeffs) : ResData := { coeffs := stale, nonZeroY := 0, nonZeroUV := 0 }

/-- decode_frame.go `doTransform(bits, src, dst)`: dispatch on `bits >> 30` -/
def doTransform (K : Kernels) (bits : Nat) (c : Coeffs) (p : Blk4) : Blk4 :=
  match bits >>> 30 with
  | 3 => K.decIdct c p
  | 2 => K.decAC3 c p
  | 1 => dcAdd (c 0) p
  | _ => p

/-- luma loop of `reconstructRow`: `doTransform(bits, …); bits <<= 2` over the 16 blocks, after an
    optional prediction step for the block -/
def decLumaLoop (K : Kernels) (m : MBModes) (r : ResData) (pred : Bool) : List (Fin 16) → Grid → Nat → Grid
  | [], G, _ => G
  | b :: bs, G, bits =>
    let bx := b.val % 4
    let by' := b.val / 4
    let G' := if pred then writeBlk4 G bx by' (K.pred4 (m.imodes b) (edge4 G bx by')) else G
    decLumaLoop K m r pred bs (xfAt G' bx by' (doTransform K bits (r.coeffs b.val))) ((bits <<< 2) % 4294967296)

def decLuma (K : Kernels) (mbX mbY : Nat) (c : Ctx) (m : MBModes) (r : ResData) : Grid :=
  let G0 := loadY c
  if m.isI4 then decLumaLoop K m r true (List.finRange 16) G0 r.nonZeroY
  else
    let G1 := write16 G0 (K.decPred16 (checkMode mbX mbY (m.imodes 0)) (edge16 G0))
    if r.nonZeroY ≠ 0 then decLumaLoop K m r false (List.finRange 16) G1 r.nonZeroY else G1

/-- decode_frame.go `doUVTransform(bits, src, dst)` on one chroma plane whose coefficient blocks
    are `cs 0 … cs 3` -/
def doUVTransform (K : Kernels) (bits : Nat) (cs : Fin 4 → Coeffs) (G : Grid) : Grid :=
  if bits &&& 0xff ≠ 0 then
    (if bits &&& 0xaa ≠ 0 then write8 G (K.decIdctUV cs (read8 G))
     else
      (List.finRange 4).foldl
        (fun G k => if cs k 0 ≠ 0 then xfAt G (k.val % 2) (k.val / 2) (dcAdd (cs k 0)) else G) G)
  else G

def decChroma (K : Kernels) (mbX mbY : Nat) (e : Edge8) (m : MBModes) (r : ResData) (base shift : Nat) : Grid :=
  let G0 := loadUV e
  let G1 := write8 G0 (K.decPred8 (checkMode mbX mbY m.uvmode) (edge8 G0))
  doUVTransform K (r.nonZeroUV >>> shift) (fun k => r.coeffs (base + k.val)) G1

/-- **`decRecon`** — the per-macroblock body of `reconstructRow`: what `yuvB` holds before the
    samples are copied to the output cache -/
def decRecon (K : Kernels) (mbX mbY : Nat) (c : Ctx) (m : MBModes) (r : ResData) : Blocks :=
  { y := read16 (decLuma K mbX mbY c m r)
    u := read8 (decChroma K mbX mbY c.u m r 16 0)
    v := read8 (decChroma K mbX mbY c.v m r 20 8) }

/-! ## the token layer -/

/-- a probability the boolean coder is driven with, named by where it comes from -/
inductive Slot where
  /-- `proba.BandsPtr[t][n].Probas[ctx][i]`: type `t`, coefficient position `n` (band `KBands[n]`) -/
  | coef (t n ctx i : Nat)
  /-- a constant -/
  | fixed (p : Nat)
  /-- `KBModesProba[top][left][i]` -/
  | bmode (top left i : Nat)
  /-- `proba.Segments[i]` -/
  | seg (i : Nat)
  /-- `skipProba` -/
  | skip
  deriving DecidableEq, Repr

structure Decision where
  slot : Slot
  bit : Bool
  deriving DecidableEq, Repr

abbrev Stream := List Decision

/-- the exact channel: the reader names the slot it decodes with -/
def readBit (sl : Slot) : Stream → Option (Bool × Stream)
  | [] => none
  | d :: rest => if d.slot = sl then some (d.bit, rest) else none

def b2n (b : Bool) : Nat := if b then 1 else 0

/-- `KCat3 … KCat6` without the terminating 0 -/
def catTab : Nat → List Nat
  | 0 => [173, 148, 140]
  | 1 => [176, 155, 140, 135]
  | 2 => [180, 157, 141, 134, 130]
  | _ => [254, 254, 243, 230, 196, 177, 153, 140, 133, 130, 129]

/-- the extra bits of a category, most significant first: `(v >> (nbits-1-i)) & 1` with `tab[i]` -/
def extraBits (v : Nat) : List Nat → Stream
  | [] => []
  | p :: ps => ⟨.fixed p, decide ((v >>> ps.length) &&& 1 = 1)⟩ :: extraBits v ps

/-- encode_token.go `recordLevelVP8(level, p)`; `p i` is the slot of `p[i]` -/
def recordLevel (p : Nat → Slot) (level : Nat) : Stream :=
  if level = 1 then [⟨p 2, false⟩]
  else
    ⟨p 2, true⟩ ::
    (if level ≤ 4 then
      ⟨p 3, false⟩ ::
        (if level = 2 then [⟨p 4, false⟩]
         else [⟨p 4, true⟩, ⟨p 5, decide (level ≠ 3)⟩])
    else if level ≤ 10 then
      ⟨p 3, true⟩ :: ⟨p 6, false⟩ ::
        (if level ≤ 6 then [⟨p 7, false⟩, ⟨.fixed 159, decide ((level - 5) &&& 1 = 1)⟩]
         else
          [⟨p 7, true⟩, ⟨.fixed 165, decide (((level - 7) >>> 1) &&& 1 = 1)⟩,
           ⟨.fixed 145, decide ((level - 7) &&& 1 = 1)⟩])
    else
      let cat := if level ≤ 18 then 0 else if level ≤ 34 then 1 else if level ≤ 66 then 2 else 3
      let bit1 := cat >>> 1
      let bit0 := cat &&& 1
      ⟨p 3, true⟩ :: ⟨p 6, true⟩ :: ⟨p 8, decide (bit1 = 1)⟩ :: ⟨p (9 + bit1), decide (bit0 = 1)⟩ ::
        extraBits (level - (3 + (8 <<< cat))) (catTab cat))

def coefSlot (t n ctx : Nat) (i : Nat) : Slot := .coef t n ctx i

/-- encode_token.go `RecordCoeffs`, the two nested loops as one state machine: `inner = false` is
    the top of `for n < 16`, `inner = true` the top of the zero-run loop (`p` is the row of position
    `n`, context `ctx`).  `fuel` 34 covers 16 positions. -/
def recordLoop (c : Coeffs) (nCoeffs t : Nat) : (fuel n ctx : Nat) → (inner : Bool) → Stream
  | 0, _, _, _ => []
  | fuel + 1, n, ctx, false =>
    if n ≥ 16 then []
    else if n ≥ nCoeffs then [⟨coefSlot t n ctx 0, false⟩]
    else ⟨coefSlot t n ctx 0, true⟩ :: recordLoop c nCoeffs t fuel n ctx true
  | fuel + 1, n, ctx, true =>
    if h : n < 16 then
      let v := c (zz ⟨n, h⟩)
      if v = 0 then
        ⟨coefSlot t n ctx 1, false⟩ ::
          (if n + 1 ≥ 16 then [] else recordLoop c nCoeffs t fuel (n + 1) 0 true)
      else
        ⟨coefSlot t n ctx 1, true⟩ ::
          (recordLevel (coefSlot t n ctx) v.natAbs ++
            ⟨.fixed 128, decide (v < 0)⟩ ::
              recordLoop c nCoeffs t fuel (n + 1) (if v.natAbs = 1 then 1 else 2) false)
    else []

/-- **`RecordCoeffs(coeffs, nCoeffs, ctxType, proba, first, ctx)`** -/
def recordCoeffs (c : Coeffs) (nCoeffs t first ctx : Nat) : Stream :=
  if nCoeffs ≤ first then [⟨coefSlot t first ctx 0, false⟩]
  else recordLoop c nCoeffs t 34 first ctx false

/-- MSB-first extra bits: `v = v + v + bit` -/
def readExtra : List Nat → Nat → Stream → Option (Nat × Stream)
  | [], v, s => some (v, s)
  | p :: ps, v, s =>
    (readBit (.fixed p) s).bind fun (b, s) => readExtra ps (v + v + b2n b) s

/-- the value tree of `getCoeffsInline` from `p[2]` on -/
def readLevel (p : Nat → Slot) (s : Stream) : Option (Nat × Stream) :=
  (readBit (p 2) s).bind fun (b2, s) =>
  if !b2 then some (1, s) else
  (readBit (p 3) s).bind fun (b3, s) =>
  if !b3 then
    (readBit (p 4) s).bind fun (b4, s) =>
    if !b4 then some (2, s) else
    (readBit (p 5) s).bind fun (b5, s) => some (3 + b2n b5, s)
  else
    (readBit (p 6) s).bind fun (b6, s) =>
    if !b6 then
      (readBit (p 7) s).bind fun (b7, s) =>
      if !b7 then (readBit (.fixed 159) s).bind fun (b, s) => some (5 + b2n b, s)
      else
        (readBit (.fixed 165) s).bind fun (bh, s) =>
        (readBit (.fixed 145) s).bind fun (bl, s) => some (7 + 2 * b2n bh + b2n bl, s)
    else
      (readBit (p 8) s).bind fun (bit1, s) =>
      (readBit (p (9 + b2n bit1)) s).bind fun (bit0, s) =>
      let cat := 2 * b2n bit1 + b2n bit0
      (readExtra (catTab cat) 0 s).bind fun (v, s) => some (v + (3 + (8 <<< cat)), s)

/-- decode_mb.go `getCoeffsInline(br, bands, ctx, dq0, dq1, n, out)` as the same state machine;
    returns the position it stopped at, the updated `out`, the rest of the stream -/
def getLoop (t : Nat) (dq0 dq1 : Int) :
    (fuel n ctx : Nat) → (inner : Bool) → Coeffs → Stream → Option (Nat × Coeffs × Stream)
  | 0, _, _, _, _, _ => none
  | fuel + 1, n, ctx, false, out, s =>
    if n ≥ 16 then some (16, out, s)
    else
      (readBit (coefSlot t n ctx 0) s).bind fun (b, s) =>
      if !b then some (n, out, s) else getLoop t dq0 dq1 fuel n ctx true out s
  | fuel + 1, n, ctx, true, out, s =>
    if h : n < 16 then
      (readBit (coefSlot t n ctx 1) s).bind fun (b, s) =>
      if !b then
        (if n + 1 = 16 then some (16, out, s) else getLoop t dq0 dq1 fuel (n + 1) 0 true out s)
      else
        (readLevel (coefSlot t n ctx) s).bind fun (v, s) =>
        (readBit (.fixed 128) s).bind fun (neg, s) =>
        let sv : Int := if neg then -(v : Int) else (v : Int)
        let dq := if n = 0 then dq0 else dq1
        getLoop t dq0 dq1 fuel (n + 1) (if v = 1 then 1 else 2) false
          (out.set (zz ⟨n, h⟩) (wrap16 (sv * dq))) s
    else none

def getCoeffs (t : Nat) (ctx : Nat) (dq0 dq1 : Int) (first : Nat) (out : Coeffs) (s : Stream) :
    Option (Nat × Coeffs × Stream) :=
  getLoop t dq0 dq1 34 first ctx false out s

/-! ### one macroblock's residual tokens -/

/-- the non-zero context a macroblock sees and leaves: `topNz[x]` / `mb.Nz`, `leftNz` / `left.Nz`,
    and the two Y2 flags -/
structure NzCtx where
  tnz : Nat
  lnz : Nat
  tnzDC : Nat
  lnzDC : Nat
  deriving DecidableEq, Repr

def NzCtx.WF (n : NzCtx) : Prop := n.tnz < 256 ∧ n.lnz < 256 ∧ n.tnzDC ≤ 1 ∧ n.lnzDC ≤ 1

def min2 (c : Nat) : Nat := if c > 2 then 2 else c

/-- one row of luma blocks in `recordMBTokens`: returns tokens, `tnz`, `l` -/
def encYRow (d : MBDesc) (t first y : Nat) : List Nat → Nat → Nat → Stream × Nat × Nat
  | [], tnz, l => ([], tnz, l)
  | x :: xs, tnz, l =>
    let b := 4 * y + x
    let ctx := min2 (l + (tnz &&& 1))
    let toks := recordCoeffs (d.levels b) (d.nz b) t first ctx
    let l' := if d.nz b > first then 1 else 0
    let r := encYRow d t first y xs ((tnz >>> 1) ||| (l' <<< 7)) l'
    (toks ++ r.1, r.2.1, r.2.2)

/-- the four luma rows: returns tokens, `tnz`, `lnz` -/
def encYRows (d : MBDesc) (t first : Nat) : List Nat → Nat → Nat → Stream × Nat × Nat
  | [], tnz, lnz => ([], tnz, lnz)
  | y :: ys, tnz, lnz =>
    let r := encYRow d t first y [0, 1, 2, 3] tnz (lnz &&& 1)
    let r2 := encYRows d t first ys (r.2.1 >>> 4) ((lnz >>> 1) ||| (r.2.2 <<< 7))
    (r.1 ++ r2.1, r2.2.1, r2.2.2)

def encUVRow (d : MBDesc) (base y : Nat) : List Nat → Nat → Nat → Stream × Nat × Nat
  | [], tnz, l => ([], tnz, l)
  | x :: xs, tnz, l =>
    let b := base + 2 * y + x
    let ctx := min2 (l + (tnz &&& 1))
    let toks := recordCoeffs (d.levels b) (d.nz b) 2 0 ctx
    let l' := if d.nz b > 0 then 1 else 0
    let r := encUVRow d base y xs ((tnz >>> 1) ||| (l' <<< 3)) l'
    (toks ++ r.1, r.2.1, r.2.2)

def encUVRows (d : MBDesc) (base : Nat) : List Nat → Nat → Nat → Stream × Nat × Nat
  | [], tnz, lnz => ([], tnz, lnz)
  | y :: ys, tnz, lnz =>
    let r := encUVRow d base y [0, 1] tnz (lnz &&& 1)
    let r2 := encUVRows d base ys (r.2.1 >>> 2) ((lnz >>> 1) ||| (r.2.2 <<< 5))
    (r.1 ++ r2.1, r2.2.1, r2.2.2)

/-- **`recordMBTokens`** (encode_frame.go): tokens of a macroblock that is not skipped, and the
    context it leaves -/
def recordMBTokens (d : MBDesc) (n : NzCtx) : Stream × NzCtx :=
  let dcToks :=
    if d.isI4 then []
    else recordCoeffs (d.levels 24) (d.nz 24) 1 0 (min2 (n.tnzDC + n.lnzDC))
  let dcFlag := if d.nz 24 > 0 then 1 else 0
  let yr := encYRows d (if d.isI4 then 3 else 0) (if d.isI4 then 0 else 1) [0, 1, 2, 3] (n.tnz &&& 0x0f) (n.lnz &&& 0x0f)
  let outTNz := yr.2.1
  let outLNz := yr.2.2 >>> 4
  let ur := encUVRows d 16 [0, 1] ((n.tnz >>> 4) &&& 0x0f) ((n.lnz >>> 4) &&& 0x0f)
  let vr := encUVRows d 20 [0, 1] ((n.tnz >>> 6) &&& 0x0f) ((n.lnz >>> 6) &&& 0x0f)
  let outTNz := (outTNz ||| ((ur.2.1 <<< 4) <<< 0)) ||| ((vr.2.1 <<< 4) <<< 2)
  let outLNz := (outLNz ||| ((ur.2.2 &&& 0xf0) <<< 0)) ||| ((vr.2.2 &&& 0xf0) <<< 2)
  (dcToks ++ yr.1 ++ ur.1 ++ vr.1,
   { tnz := outTNz, lnz := outLNz
     tnzDC := if d.isI4 then n.tnzDC else dcFlag
     lnzDC := if d.isI4 then n.lnzDC else dcFlag })

/-- the skip branch of `encodeFrame` / `recordAllTokens` / `rerecordAllTokens` -/
def skipNz (isI4 : Bool) (n : NzCtx) : NzCtx :=
  { tnz := 0, lnz := 0, tnzDC := if isI4 then n.tnzDC else 0, lnzDC := if isI4 then n.lnzDC else 0 }

/-- tokens and context for one macroblock as the encoder's token pass produces them -/
def emitTokens (d : MBDesc) (n : NzCtx) : Stream × NzCtx :=
  if d.skip then ([], skipNz d.isI4 n) else recordMBTokens d n

/-! ### the decoder's side of the residuals -/

/-- the parse state of `parseResiduals`' luma loops -/
structure YSt where
  tnz : Nat
  l : Nat
  nzCoeffs : Nat
  store : Nat → Coeffs
  s : Stream

def decYRow (t first : Nat) (qm : QuantMatrix) (y : Nat) : List Nat → YSt → Option YSt
  | [], st => some st
  | x :: xs, st =>
    let b := 4 * y + x
    let ctx := st.l + (st.tnz &&& 1)
    (getCoeffs t ctx qm.y1dc qm.y1ac first (st.store b) st.s).bind fun (nz, out, s) =>
    let l := if nz > first then 1 else 0
    let dcNz := if out 0 ≠ 0 then 1 else 0
    decYRow t first qm y xs
      { tnz := (st.tnz >>> 1) ||| (l <<< 7), l := l, nzCoeffs := nzCodeBits st.nzCoeffs nz dcNz
        store := fun b' => if b' = b then out else st.store b', s := s }

structure YSt2 where
  tnz : Nat
  lnz : Nat
  nonZeroY : Nat
  store : Nat → Coeffs
  s : Stream

def decYRows (t first : Nat) (qm : QuantMatrix) : List Nat → YSt2 → Option YSt2
  | [], st => some st
  | y :: ys, st =>
    (decYRow t first qm y [0, 1, 2, 3]
      { tnz := st.tnz, l := st.lnz &&& 1, nzCoeffs := 0, store := st.store, s := st.s }).bind fun r =>
    decYRows t first qm ys
      { tnz := r.tnz >>> 4, lnz := (st.lnz >>> 1) ||| (r.l <<< 7)
        nonZeroY := ((st.nonZeroY <<< 8) ||| r.nzCoeffs) % 4294967296, store := r.store, s := r.s }

def decUVRow (qm : QuantMatrix) (base y : Nat) : List Nat → YSt → Option YSt
  | [], st => some st
  | x :: xs, st =>
    let b := base + 2 * y + x
    let ctx := st.l + (st.tnz &&& 1)
    (getCoeffs 2 ctx qm.uvdc qm.uvac 0 (st.store b) st.s).bind fun (nz, out, s) =>
    let l := if nz > 0 then 1 else 0
    let dcNz := if out 0 ≠ 0 then 1 else 0
    decUVRow qm base y xs
      { tnz := (st.tnz >>> 1) ||| (l <<< 3), l := l, nzCoeffs := nzCodeBits st.nzCoeffs nz dcNz
        store := fun b' => if b' = b then out else st.store b', s := s }

/-- state of one chroma plane's loop: `tnz`, `lnz`, `nzCoeffs` (not reset between the two rows) -/
structure UVSt where
  tnz : Nat
  lnz : Nat
  nzCoeffs : Nat
  store : Nat → Coeffs
  s : Stream

def decUVRows (qm : QuantMatrix) (base : Nat) : List Nat → UVSt → Option UVSt
  | [], st => some st
  | y :: ys, st =>
    (decUVRow qm base y [0, 1]
      { tnz := st.tnz, l := st.lnz &&& 1, nzCoeffs := st.nzCoeffs, store := st.store, s := st.s }).bind fun r =>
    decUVRows qm base ys
      { tnz := r.tnz >>> 2, lnz := (st.lnz >>> 1) ||| (r.l <<< 5), nzCoeffs := r.nzCoeffs
        store := r.store, s := r.s }

/-- what the residual parse of one macroblock yields -/
structure Residuals where
  coeffs : Nat → Coeffs
  nonZeroY : Nat
  nonZeroUV : Nat
  nz : NzCtx
  rest : Stream

/-- **`parseResiduals`** (decode_mb.go) for a macroblock of type `isI4` -/
def parseResiduals (K : Kernels) (qm : QuantMatrix) (isI4 : Bool) (n : NzCtx) (s : Stream) : Option Residuals :=
  let store0 : Nat → Coeffs := fun _ => Coeffs.zero
  -- Y2 block and the WHT step
  let r0 : Option ((Nat → Coeffs) × NzCtx × Stream) :=
    if isI4 then some (store0, n, s)
    else
      (getCoeffs 1 (n.tnzDC + n.lnzDC) qm.y2dc qm.y2ac 0 Coeffs.zero s).bind fun (nz, dc, s) =>
      let flag := if nz > 0 then 1 else 0
      let dcs : Coeffs := if nz > 1 then K.iwht dc else fun _ => wrap16 ((dc 0 + 3) >>> 3)
      some (fun b => if h : b < 16 then Coeffs.zero.set 0 (dcs ⟨b, h⟩) else Coeffs.zero,
            { n with tnzDC := flag, lnzDC := flag }, s)
  r0.bind fun (store, n1, s) =>
  (decYRows (if isI4 then 3 else 0) (if isI4 then 0 else 1) qm [0, 1, 2, 3]
    { tnz := n.tnz &&& 0x0f, lnz := n.lnz &&& 0x0f, nonZeroY := 0, store := store, s := s }).bind fun yr =>
  let outTNz := yr.tnz
  let outLNz := yr.lnz >>> 4
  (decUVRows qm 16 [0, 1]
    { tnz := n.tnz >>> 4, lnz := n.lnz >>> 4, nzCoeffs := 0, store := yr.store, s := yr.s }).bind fun ur =>
  (decUVRows qm 20 [0, 1]
    { tnz := n.tnz >>> 6, lnz := n.lnz >>> 6, nzCoeffs := 0, store := ur.store, s := ur.s }).bind fun vr =>
  some
    { coeffs := vr.store
      nonZeroY := yr.nonZeroY
      nonZeroUV := (ur.nzCoeffs <<< 0) % 4294967296 ||| (vr.nzCoeffs <<< 8) % 4294967296
      nz :=
        { tnz := (outTNz ||| ((ur.tnz <<< 4) <<< 0)) ||| ((vr.tnz <<< 4) <<< 2)
          lnz := (outLNz ||| ((ur.lnz &&& 0xf0) <<< 0)) ||| ((vr.lnz &&& 0xf0) <<< 2)
          tnzDC := n1.tnzDC, lnzDC := n1.lnzDC }
      rest := vr.s }

/-- **`parseTokens`** — decode_mb.go `decodeMB` (without the filter bookkeeping): `skip` is
    `useSkipProba && block.Skip` -/
def parseTokens (K : Kernels) (qm : QuantMatrix) (isI4 skipFlag useSkip : Bool) (stale : Nat → Coeffs)
    (n : NzCtx) (s : Stream) : Option (ResData × NzCtx × Stream) :=
  if useSkip && skipFlag then some (decSkipped stale, skipNz isI4 n, s)
  else
    (parseResiduals K qm isI4 n s).bind fun r =>
    some ({ coeffs := r.coeffs, nonZeroY := r.nonZeroY, nonZeroUV := r.nonZeroUV }, r.nz, r.rest)

/-! ## intra modes in partition 0 -/

/-- `KYModesIntra4` -/
def kYModesIntra4 : Array Int := #[0, 1, -1, 2, -2, 3, 4, 6, -3, 5, -4, -5, -6, 7, -7, 8, -8, -9]
def treeAt (i : Nat) : Int := kYModesIntra4.getD i 0

/-- encode_syntax.go `i4SubtreeContains` (the tree has depth 8) -/
def i4SubtreeContains : Nat → Int → Nat → Bool
  | 0, _, _ => false
  | fuel + 1, nodeOrLeaf, mode =>
    if nodeOrLeaf ≤ 0 then decide ((-nodeOrLeaf).toNat = mode)
    else
      i4SubtreeContains fuel (treeAt (2 * nodeOrLeaf.toNat)) mode ||
      i4SubtreeContains fuel (treeAt (2 * nodeOrLeaf.toNat + 1)) mode

/-- the loop of `writeI4ModeBits` after the first bit -/
def writeI4Loop (top left mode : Nat) : Nat → Int → Stream
  | 0, _ => []
  | fuel + 1, i =>
    if i > 0 then
      let l := treeAt (2 * i.toNat)
      let bit := !i4SubtreeContains 10 l mode
      ⟨.bmode top left i.toNat, bit⟩ :: writeI4Loop top left mode fuel (treeAt (2 * i.toNat + b2n bit))
    else []

/-- encode_syntax.go `writeI4ModeBits(bw, mode, &KBModesProba[top][left])` -/
def writeI4Mode (top left mode : Nat) : Stream :=
  let bit := !i4SubtreeContains 10 (treeAt 0) mode
  ⟨.bmode top left 0, bit⟩ :: writeI4Loop top left mode 10 (treeAt (b2n bit))

def readI4Loop (top left : Nat) : Nat → Int → Stream → Option (Nat × Stream)
  | 0, _, _ => none
  | fuel + 1, i, s =>
    if i > 0 then
      (readBit (.bmode top left i.toNat) s).bind fun (b, s) =>
      readI4Loop top left fuel (treeAt (2 * i.toNat + b2n b)) s
    else some ((-i).toNat, s)

/-- the tree walk of `parseIntraModeRow` for one sub-block (rejects values ≥ 10) -/
def readI4Mode (top left : Nat) (s : Stream) : Option (Nat × Stream) :=
  (readBit (.bmode top left 0) s).bind fun (b, s) =>
  (readI4Loop top left 10 (treeAt (b2n b)) s).bind fun (m, s) =>
  if m ≥ 10 then none else some (m, s)

/-- encode_syntax.go `writeI16Mode` (DC 0, TM 1, V 2, H 3) -/
def writeI16Mode (mode : Nat) : Stream :=
  if mode = 0 then [⟨.fixed 156, false⟩, ⟨.fixed 163, false⟩]
  else if mode = 2 then [⟨.fixed 156, false⟩, ⟨.fixed 163, true⟩]
  else if mode = 3 then [⟨.fixed 156, true⟩, ⟨.fixed 128, false⟩]
  else if mode = 1 then [⟨.fixed 156, true⟩, ⟨.fixed 128, true⟩]
  else []

def readI16Mode (s : Stream) : Option (Nat × Stream) :=
  (readBit (.fixed 156) s).bind fun (b, s) =>
  if b then (readBit (.fixed 128) s).bind fun (b, s) => some (if b then 1 else 3, s)
  else (readBit (.fixed 163) s).bind fun (b, s) => some (if b then 2 else 0, s)

/-- encode_syntax.go `writeUVMode` -/
def writeUVMode (mode : Nat) : Stream :=
  if mode = 0 then [⟨.fixed 142, false⟩]
  else if mode = 2 then [⟨.fixed 142, true⟩, ⟨.fixed 114, false⟩]
  else if mode = 3 then [⟨.fixed 142, true⟩, ⟨.fixed 114, true⟩, ⟨.fixed 183, false⟩]
  else if mode = 1 then [⟨.fixed 142, true⟩, ⟨.fixed 114, true⟩, ⟨.fixed 183, true⟩]
  else []

def readUVMode (s : Stream) : Option (Nat × Stream) :=
  (readBit (.fixed 142) s).bind fun (b, s) =>
  if !b then some (0, s) else
  (readBit (.fixed 114) s).bind fun (b, s) =>
  if !b then some (2, s) else
  (readBit (.fixed 183) s).bind fun (b, s) => some (if b then 1 else 3, s)

/-- encode_syntax.go `writeSegmentID` -/
def writeSegmentID (id : Nat) : Stream :=
  [⟨.seg 0, decide ((id >>> 1) &&& 1 = 1)⟩,
   if id ≥ 2 then ⟨.seg 2, decide (id &&& 1 = 1)⟩ else ⟨.seg 1, decide (id &&& 1 = 1)⟩]

def readSegmentID (s : Stream) : Option (Nat × Stream) :=
  (readBit (.seg 0) s).bind fun (b, s) =>
  if !b then (readBit (.seg 1) s).bind fun (b, s) => some (b2n b, s)
  else (readBit (.seg 2) s).bind fun (b, s) => some (b2n b + 2, s)

/-- the intra-mode context of one macroblock: the four modes above (`intraT[4x..]`, `topModes`) and
    to the left (`intraL`, `leftModes`) -/
structure ModeCtx where
  top : Fin 4 → Nat
  left : Fin 4 → Nat

/-- one row of sub-block modes in `writeMBModes`: returns tokens, the updated `top`, the last mode -/
def encI4Row (d : MBDesc) (y : Nat) : List (Fin 4) → (Fin 4 → Nat) → Nat → Stream × (Fin 4 → Nat) × Nat
  | [], top, ymode => ([], top, ymode)
  | x :: xs, top, ymode =>
    if h : 4 * y + x.val < 16 then
      let mode := d.i4modes ⟨4 * y + x.val, h⟩
      let r := encI4Row d y xs (fun x' => if x' = x then mode else top x') mode
      (writeI4Mode (top x) ymode mode ++ r.1, r.2.1, r.2.2)
    else ([], top, ymode)

def encI4Rows (d : MBDesc) : List (Fin 4) → ModeCtx → Stream × ModeCtx
  | [], m => ([], m)
  | y :: ys, m =>
    let r := encI4Row d y.val (List.finRange 4) m.top (m.left y)
    let r2 := encI4Rows d ys { top := r.2.1, left := fun y' => if y' = y then r.2.2 else m.left y' }
    (r.1 ++ r2.1, r2.2)

/-- **`writeMBModes`**, body for one macroblock -/
def emitModes (d : MBDesc) (updateMap useSkip : Bool) (m : ModeCtx) : Stream × ModeCtx :=
  let segToks := if updateMap then writeSegmentID d.segment else []
  let skipToks := if useSkip then [⟨Slot.skip, d.skip⟩] else []
  if !d.isI4 then
    (segToks ++ skipToks ++ (⟨.fixed 145, true⟩ :: writeI16Mode d.i16mode) ++ writeUVMode d.uvmode,
     { top := fun _ => d.i16mode, left := fun _ => d.i16mode })
  else
    let r := encI4Rows d (List.finRange 4) m
    (segToks ++ skipToks ++ (⟨.fixed 145, false⟩ :: r.1) ++ writeUVMode d.uvmode, r.2)

def decI4Row (y : Nat) : List (Fin 4) → (Fin 4 → Nat) → Nat → (Fin 16 → Nat) → Stream →
    Option ((Fin 4 → Nat) × Nat × (Fin 16 → Nat) × Stream)
  | [], top, ymode, modes, s => some (top, ymode, modes, s)
  | x :: xs, top, ymode, modes, s =>
    if h : 4 * y + x.val < 16 then
      (readI4Mode (top x) ymode s).bind fun (mode, s) =>
      decI4Row y xs (fun x' => if x' = x then mode else top x') mode
        (fun b => if b = ⟨4 * y + x.val, h⟩ then mode else modes b) s
    else none

def decI4Rows : List (Fin 4) → ModeCtx → (Fin 16 → Nat) → Stream → Option (ModeCtx × (Fin 16 → Nat) × Stream)
  | [], m, modes, s => some (m, modes, s)
  | y :: ys, m, modes, s =>
    (decI4Row y.val (List.finRange 4) m.top (m.left y) modes s).bind fun (top, ymode, modes, s) =>
    decI4Rows ys { top := top, left := fun y' => if y' = y then ymode else m.left y' } modes s

/-- **`parseIntraModeRow`**, body for one macroblock; `prevModes` is what `block.IModes` held -/
def parseModes (updateMap useSkip : Bool) (prevModes : Fin 16 → Nat) (m : ModeCtx) (s : Stream) :
    Option (MBModes × ModeCtx × Stream) :=
  (if updateMap then readSegmentID s else some (0, s)).bind fun (segment, s) =>
  (if useSkip then readBit .skip s else some (false, s)).bind fun (skip, s) =>
  (readBit (.fixed 145) s).bind fun (b, s) =>
  if b then
    (readI16Mode s).bind fun (ymode, s) =>
    (readUVMode s).bind fun (uvmode, s) =>
    some ({ isI4 := false, imodes := fun b => if b.val = 0 then ymode else prevModes b
            uvmode := uvmode, segment := segment, skip := skip },
          { top := fun _ => ymode, left := fun _ => ymode }, s)
  else
    (decI4Rows (List.finRange 4) m prevModes s).bind fun (m', modes, s) =>
    (readUVMode s).bind fun (uvmode, s) =>
    some ({ isI4 := true, imodes := modes, uvmode := uvmode, segment := segment, skip := skip },
          m', s)

/-! ## the frame: syntax pass -/

/-- `(n + 15) >> 4` -/
def mbCount (n : Nat) : Nat := (n + 15) / 16

/-- index into `dqm`: the encoder uses `info.Segment` (< 4), the decoder `block.Segment & 3` -/
def segFin (s : Nat) : Fin 4 := ⟨s % 4, Nat.mod_lt _ (by decide)⟩

/-- the running contexts of the syntax passes (`topNz`/`leftNz`/`topNzDC`/`leftNzDC` and
    `topModes`/`leftModes` of the encoder; `mbInfo[x+1]`/`mbInfo[0]` and `intraT`/`intraL` of the
    decoder) -/
structure TokCtx where
  topNz : Nat → Nat
  topNzDC : Nat → Nat
  leftNz : Nat
  leftNzDC : Nat
  topModes : Nat → (Fin 4 → Nat)
  leftModes : Fin 4 → Nat

def TokCtx.init : TokCtx :=
  { topNz := fun _ => 0, topNzDC := fun _ => 0, leftNz := 0, leftNzDC := 0
    topModes := fun _ _ => 0, leftModes := fun _ => 0 }

/-- start of a macroblock row (`leftNz = 0`, `leftModes = {}`; decoder `initScanline`) -/
def TokCtx.rowStart (c : TokCtx) : TokCtx := { c with leftNz := 0, leftNzDC := 0, leftModes := fun _ => 0 }

def TokCtx.nz (c : TokCtx) (x : Nat) : NzCtx :=
  { tnz := c.topNz x, lnz := c.leftNz, tnzDC := c.topNzDC x, lnzDC := c.leftNzDC }

def TokCtx.setNz (c : TokCtx) (x : Nat) (n : NzCtx) : TokCtx :=
  { c with topNz := fun x' => if x' = x then n.tnz else c.topNz x'
           topNzDC := fun x' => if x' = x then n.tnzDC else c.topNzDC x'
           leftNz := n.lnz, leftNzDC := n.lnzDC }

def TokCtx.modes (c : TokCtx) (x : Nat) : ModeCtx := { top := c.topModes x, left := c.leftModes }

def TokCtx.setModes (c : TokCtx) (x : Nat) (m : ModeCtx) : TokCtx :=
  { c with topModes := fun x' => if x' = x then m.top else c.topModes x', leftModes := m.left }

/-- the decision streams of a frame: partition 0 (per-macroblock part) and the token partitions -/
structure Streams where
  part0 : Stream
  parts : Nat → Stream

/-- the frame-level parameters both sides share through the header -/
structure FrameSyntax where
  mbW : Nat
  /-- `enc.numParts` (1, 2, 4 or 8) -/
  numParts : Nat
  /-- `segmentHdr.UseSegment && segmentHdr.UpdateMap` -/
  updateMap : Bool
  /-- `enc.numSkip > 0` / `dec.useSkipProba` -/
  useSkip : Bool

/-- What the encoder's syntax passes emit for the macroblocks `ks` (raster indices): `writeMBModes`
    into partition 0, the token pass (`encodeFrame` / `recordAllTokens` / `rerecordAllTokens`) into
    partition `mbY & (numParts-1)` (`EmitTokensPartitioned`).  The stream of a partition is the
    concatenation of its macroblocks' decisions in raster order. -/
def emitMBs (descs : Nat → MBDesc) (fs : FrameSyntax) : List Nat → TokCtx → Streams
  | [], _ => { part0 := [], parts := fun _ => [] }
  | k :: ks, c =>
    let x := k % fs.mbW
    let y := k / fs.mbW
    let c := if x = 0 then c.rowStart else c
    let d := descs k
    let mt := emitModes d fs.updateMap fs.useSkip (c.modes x)
    let tt := emitTokens d (c.nz x)
    let rest := emitMBs descs fs ks ((c.setModes x mt.2).setNz x tt.2)
    { part0 := mt.1 ++ rest.part0
      parts := fun p => if p = y &&& (fs.numParts - 1) then tt.1 ++ rest.parts p else rest.parts p }

/-- the decoder's per-column leftovers: `mbData[x].IModes` and `mbData[x].Coeffs` -/
structure ColData where
  imodes : Nat → (Fin 16 → Nat)
  coeffs : Nat → (Nat → Coeffs)

/-- `parseFrame` without the reconstruction: `parseIntraModeRow` + `decodeMB` for the macroblocks
    `ks`; `dqm s` are the dequantisation factors of segment `s`.  Returns the record of every
    macroblock by raster index. -/
def parseMBs (K : Kernels) (dqm : Fin 4 → QuantMatrix) (fs : FrameSyntax) :
    List Nat → TokCtx → Streams → ColData → (Nat → MBModes × ResData) → Option (Nat → MBModes × ResData)
  | [], _, _, _, out => some out
  | k :: ks, c, s, col, out =>
    let x := k % fs.mbW
    let y := k / fs.mbW
    let c := if x = 0 then c.rowStart else c
    (parseModes fs.updateMap fs.useSkip (col.imodes x) (c.modes x) s.part0).bind fun (m, mc, p0) =>
    let pi := y &&& (fs.numParts - 1)
    (parseTokens K (dqm (segFin m.segment)) m.isI4 m.skip fs.useSkip (col.coeffs x) (c.nz x) (s.parts pi)).bind
      fun (r, nc, ps) =>
    parseMBs K dqm fs ks ((c.setModes x mc).setNz x nc)
      { part0 := p0, parts := fun p => if p = pi then ps else s.parts p }
      { imodes := fun x' => if x' = x then m.imodes else col.imodes x'
        coeffs := fun x' => if x' = x then r.coeffs else col.coeffs x' }
      (fun k' => if k' = k then (m, r) else out k')

/-! ## the frame: reconstruction -/

abbrev Plane := Nat → Nat → UInt8
abbrev Row := Nat → UInt8

/-- sample `(c, r)` of a block; 0 outside -/
def get16 (b : Blk16) (c r : Nat) : UInt8 := if h : c < 16 ∧ r < 16 then b ⟨r * 16 + c, by omega⟩ else 0
def get8 (b : Blk8) (c r : Nat) : UInt8 := if h : c < 8 ∧ r < 8 then b ⟨r * 8 + c, by omega⟩ else 0

/-- one plane of the encoder's iterator: `topY`/`leftY`/`topLeftY`/`yPlane` (or U, V) -/
structure EncPlane where
  top : Row
  left : Nat → UInt8
  tl : UInt8
  plane : Plane

/-- `InitIterator` -/
def EncPlane.init (src : Plane) : EncPlane :=
  { top := fun _ => 127, left := fun _ => 129, tl := 127, plane := src }

/-- `resetLeftContext` -/
def EncPlane.resetLeft (p : EncPlane) : EncPlane := { p with left := fun _ => 129, tl := 127 }

/-- `FillPredContext`, one plane of width-`n` blocks -/
def EncPlane.tlOf (p : EncPlane) (x y : Nat) : UInt8 :=
  if x > 0 ∧ y > 0 then p.tl else if y > 0 then 129 else 127
def EncPlane.topOf (p : EncPlane) (n x y i : Nat) : UInt8 := if y > 0 then p.top (n * x + i) else 127
def EncPlane.leftOf (p : EncPlane) (x j : Nat) : UInt8 := if x > 0 then p.left j else 129
/-- the top-right extension (luma only) -/
def EncPlane.topRightOf (p : EncPlane) (x y mbW i : Nat) : UInt8 :=
  if y > 0 then (if x < mbW - 1 then p.top (16 * (x + 1) + i) else p.top (16 * x + 15)) else 127

/-- `Export`, one plane: `blk c r` is the reconstructed sample of column `c`, row `r`; `W × H` is the
    extent of the plane that is written (`width × height` for luma, all of the padded plane for
    chroma) -/
def EncPlane.export (p : EncPlane) (n x y W H : Nat) (blk : Nat → Nat → UInt8) : EncPlane :=
  let wv := if n * x + n > W then W - n * x else n
  let hv := if n * y + n > H then H - n * y else n
  { plane := fun px py =>
      if n * x ≤ px ∧ px < n * x + wv ∧ n * y ≤ py ∧ py < n * y + hv then blk (px - n * x) (py - n * y)
      else p.plane px py
    tl := p.top (n * x + (n - 1))
    top := fun i => if n * x ≤ i ∧ i < n * x + n then blk (i - n * x) (n - 1) else p.top i
    left := fun j => blk (n - 1) j }

structure EncSt where
  y : EncPlane
  u : EncPlane
  v : EncPlane

/-- `FillPredContext` -/
def encFillCtx (st : EncSt) (x y mbW : Nat) : Ctx :=
  { y := { tl := st.y.tlOf x y, top := fun i => st.y.topOf 16 x y i.val, left := fun j => st.y.leftOf x j.val }
    topRight := fun i => st.y.topRightOf x y mbW i.val
    u := { tl := st.u.tlOf x y, top := fun i => st.u.topOf 8 x y i.val, left := fun j => st.u.leftOf x j.val }
    v := { tl := st.v.tlOf x y, top := fun i => st.v.topOf 8 x y i.val, left := fun j => st.v.leftOf x j.val } }

/-- the frame-level constants of an encode -/
structure EncFrame where
  w : Nat
  h : Nat
  /-- what the encoder decided, by raster index (modes, segments, levels: all heuristics) -/
  descs : Nat → MBDesc
  quant : EncQuant

def EncFrame.mbW (f : EncFrame) : Nat := mbCount f.w
def EncFrame.mbH (f : EncFrame) : Nat := mbCount f.h

/-- one iteration of `encodeFrame` as far as the reconstruction is concerned: (reset of the left
    context at a row start,) `FillPredContext`, `reconstructMB`, `Export` -/
def encStep (K : Kernels) (f : EncFrame) (st : EncSt) (k : Nat) : EncSt :=
  let x := k % f.mbW
  let y := k / f.mbW
  let st := if x = 0 then { y := st.y.resetLeft, u := st.u.resetLeft, v := st.v.resetLeft } else st
  let d := f.descs k
  let b := encRecon K (encQuantMatrix f.quant (segFin d.segment)) x y (encFillCtx st x y f.mbW) d
  { y := st.y.export 16 x y f.w f.h (get16 b.y)
    u := st.u.export 8 x y (8 * f.mbW) (8 * f.mbH) (get8 b.u)
    v := st.v.export 8 x y (8 * f.mbW) (8 * f.mbH) (get8 b.v) }

/-- **the serial encoder's planes after `encodeFrame`** (`srcY`, … are the imported source planes) -/
def encodeFrameRecon (K : Kernels) (f : EncFrame) (srcY srcU srcV : Plane) : EncSt :=
  (List.range (f.mbW * f.mbH)).foldl (encStep K f)
    { y := EncPlane.init srcY, u := EncPlane.init srcU, v := EncPlane.init srcV }

/-! ### the row-parallel encoder (encode_parallel.go) -/

/-- the state shared by the row workers: `topY`/`topU`/`topV` and the planes -/
structure ParShared where
  topY : Row
  topU : Row
  topV : Row
  yPlane : Plane
  uPlane : Plane
  vPlane : Plane

/-- the locals of `encodeRow` -/
structure ParRow where
  leftY : Nat → UInt8
  leftU : Nat → UInt8
  leftV : Nat → UInt8
  tlY : UInt8
  tlU : UInt8
  tlV : UInt8

def ParRow.init : ParRow :=
  { leftY := fun _ => 129, leftU := fun _ => 129, leftV := fun _ => 129, tlY := 127, tlU := 127, tlV := 127 }

/-- `fillPredContextParallel` -/
def parFillCtx (sh : ParShared) (r : ParRow) (x y mbW : Nat) : Ctx :=
  let tlOf (tl : UInt8) : UInt8 := if x > 0 ∧ y > 0 then tl else if y > 0 then 129 else 127
  { y := { tl := tlOf r.tlY
           top := fun i => if y > 0 then sh.topY (16 * x + i.val) else 127
           left := fun j => if x > 0 then r.leftY j.val else 129 }
    topRight := fun i =>
      if y > 0 then (if x < mbW - 1 then sh.topY (16 * (x + 1) + i.val) else sh.topY (16 * x + 15)) else 127
    u := { tl := tlOf r.tlU
           top := fun i => if y > 0 then sh.topU (8 * x + i.val) else 127
           left := fun j => if x > 0 then r.leftU j.val else 129 }
    v := { tl := tlOf r.tlV
           top := fun i => if y > 0 then sh.topV (8 * x + i.val) else 127
           left := fun j => if x > 0 then r.leftV j.val else 129 } }

/-- `exportParallel` -/
def parExport (f : EncFrame) (sh : ParShared) (x y : Nat) (b : Blocks) : ParShared × ParRow :=
  let wY := if 16 * x + 16 > f.w then f.w - 16 * x else 16
  let hY := if 16 * y + 16 > f.h then f.h - 16 * y else 16
  let wUV := if 8 * x + 8 > 8 * f.mbW then 8 * f.mbW - 8 * x else 8
  let hUV := if 8 * y + 8 > 8 * f.mbH then 8 * f.mbH - 8 * y else 8
  ({ yPlane := fun px py =>
       if 16 * x ≤ px ∧ px < 16 * x + wY ∧ 16 * y ≤ py ∧ py < 16 * y + hY then get16 b.y (px - 16 * x) (py - 16 * y)
       else sh.yPlane px py
     uPlane := fun px py =>
       if 8 * x ≤ px ∧ px < 8 * x + wUV ∧ 8 * y ≤ py ∧ py < 8 * y + hUV then get8 b.u (px - 8 * x) (py - 8 * y)
       else sh.uPlane px py
     vPlane := fun px py =>
       if 8 * x ≤ px ∧ px < 8 * x + wUV ∧ 8 * y ≤ py ∧ py < 8 * y + hUV then get8 b.v (px - 8 * x) (py - 8 * y)
       else sh.vPlane px py
     topY := fun i => if 16 * x ≤ i ∧ i < 16 * x + 16 then get16 b.y (i - 16 * x) 15 else sh.topY i
     topU := fun i => if 8 * x ≤ i ∧ i < 8 * x + 8 then get8 b.u (i - 8 * x) 7 else sh.topU i
     topV := fun i => if 8 * x ≤ i ∧ i < 8 * x + 8 then get8 b.v (i - 8 * x) 7 else sh.topV i },
   { tlY := sh.topY (16 * x + 15), tlU := sh.topU (8 * x + 7), tlV := sh.topV (8 * x + 7)
     leftY := fun j => get16 b.y 15 j, leftU := fun j => get8 b.u 7 j, leftV := fun j => get8 b.v 7 j })

/-- `encodeRow`: one macroblock row with a fresh left context -/
def parRow (K : Kernels) (f : EncFrame) (y : Nat) (sh : ParShared) : ParShared :=
  ((List.range f.mbW).foldl
    (fun (s : ParShared × ParRow) x =>
      let d := f.descs (y * f.mbW + x)
      let b := encReconPar K (encQuantMatrix f.quant (segFin d.segment)) x y (parFillCtx s.1 s.2 x y f.mbW) d
      parExport f s.1 x y b)
    (sh, ParRow.init)).1

/-- **the row-parallel encoder's planes** (`encodeFrameParallel`, phase A).  Rows are taken in order;
    that every schedule the row pipeline allows gives the same values is property C10
    (`Webp.Impl.RowPipe`): row `y` reads `topY[16(x+1) ..]` only after row `y-1` has signalled `x+2`. -/
def encodeFrameReconPar (K : Kernels) (f : EncFrame) (srcY srcU srcV : Plane) : ParShared :=
  (List.range f.mbH).foldl (fun sh y => parRow K f y sh)
    { topY := fun _ => 127, topU := fun _ => 127, topV := fun _ => 127, yPlane := srcY, uPlane := srcU, vPlane := srcV }

/-! ### the decoder -/

/-- one plane of the decoder: `yuvT[·].Y` flattened, the work buffer as the previous macroblock
    left it, the output cache -/
structure DecPlane where
  yuvT : Row
  buf : Grid
  cache : Plane

/-- what `reconstructRow` puts around the block before predicting (block width `n`): the left
    column is 129 at `mbX = 0` and otherwise the previous block's last column (the "rotate" copy),
    the corner likewise (127 in the first row), the top row comes from `yuvT` (row 0: the 127s
    written at `mbX = 0` are never overwritten) -/
def DecPlane.tlOf (p : DecPlane) (n x y : Nat) : UInt8 :=
  if x = 0 then (if y > 0 then 129 else 127) else p.buf 0 n
def DecPlane.leftOf (p : DecPlane) (n x j : Nat) : UInt8 := if x = 0 then 129 else p.buf (j + 1) n
def DecPlane.topOf (p : DecPlane) (n x y i : Nat) : UInt8 :=
  if y > 0 then p.yuvT (n * x + i) else if x = 0 then 127 else p.buf 0 (i + 1)
/-- the top-right samples.  (Go fills them in only for I4 macroblocks; the 16×16 predictors do not
    read these cells, `Webp.Proofs` shows `decLuma` of an I16 macroblock does not depend on them.) -/
def DecPlane.topRightOf (p : DecPlane) (x y mbW i : Nat) : UInt8 :=
  if y > 0 then (if x ≥ mbW - 1 then p.yuvT (16 * x + 15) else p.yuvT (16 * (x + 1) + i))
  else if x = 0 then 127 else p.buf 0 (17 + i)

/-- after the block: stash the bottom row (`if mbY < mbH-1`), keep the buffer, copy to the cache -/
def DecPlane.finish (p : DecPlane) (n x y mbH : Nat) (G : Grid) : DecPlane :=
  { yuvT := if y + 1 < mbH then (fun i => if n * x ≤ i ∧ i < n * x + n then G n (i - n * x + 1) else p.yuvT i) else p.yuvT
    buf := G
    cache := fun px py =>
      if n * x ≤ px ∧ px < n * x + n ∧ n * y ≤ py ∧ py < n * y + n then G (py - n * y + 1) (px - n * x + 1)
      else p.cache px py }

structure DecSt where
  y : DecPlane
  u : DecPlane
  v : DecPlane

def decCtx (st : DecSt) (x y mbW : Nat) : Ctx :=
  { y := { tl := st.y.tlOf 16 x y, top := fun i => st.y.topOf 16 x y i.val, left := fun j => st.y.leftOf 16 x j.val }
    topRight := fun i => st.y.topRightOf x y mbW i.val
    u := { tl := st.u.tlOf 8 x y, top := fun i => st.u.topOf 8 x y i.val, left := fun j => st.u.leftOf 8 x j.val }
    v := { tl := st.v.tlOf 8 x y, top := fun i => st.v.topOf 8 x y i.val, left := fun j => st.v.leftOf 8 x j.val } }

/-- the per-macroblock body of `reconstructRow` on the decoder's state -/
def decStep (K : Kernels) (mbW mbH : Nat) (parsed : Nat → MBModes × ResData) (st : DecSt) (k : Nat) : DecSt :=
  let x := k % mbW
  let y := k / mbW
  let c := decCtx st x y mbW
  let m := (parsed k).1
  let r := (parsed k).2
  { y := st.y.finish 16 x y mbH (decLuma K x y c m r)
    u := st.u.finish 8 x y mbH (decChroma K x y c.u m r 16 0)
    v := st.v.finish 8 x y mbH (decChroma K x y c.v m r 20 8) }

def DecPlane.init : DecPlane := { yuvT := fun _ => 0, buf := fun _ _ => 0, cache := fun _ _ => 0 }

/-- a picture: `w × h` luma, `⌈w/2⌉ × ⌈h/2⌉` chroma; samples outside are 0 -/
structure Frame where
  w : Nat
  h : Nat
  y : Plane
  u : Plane
  v : Plane

def cropPlane (w h : Nat) (p : Plane) : Plane := fun x y => if x < w ∧ y < h then p x y else 0

/-- what the frame header and the partitions carry -/
structure EncodedFrame where
  /-- the 14-bit width and height fields -/
  w : Nat
  h : Nat
  qidx : QuantIdx
  numParts : Nat
  updateMap : Bool
  useSkip : Bool
  streams : Streams

/-- **`emitFrame`** (encode_syntax.go): `enc.width & 0x3FFF`, the quantiser fields, the skip flag
    `numSkip > 0`, partition 0 and the token partitions -/
def emitFrame (f : EncFrame) (numParts : Nat) (updateMap : Bool) : EncodedFrame :=
  let n := f.mbW * f.mbH
  let useSkip := (List.range n).any fun k => (f.descs k).skip
  { w := f.w % 16384, h := f.h % 16384, qidx := encHeader f.quant, numParts := numParts
    updateMap := updateMap, useSkip := useSkip
    streams := emitMBs f.descs { mbW := f.mbW, numParts := numParts, updateMap := updateMap, useSkip := useSkip }
      (List.range n) TokCtx.init }

/-- **the decoder before the loop filter** (`parseHeaders` dimensions, `parseFrame` without
    `filterRowAt`, cropping to `w × h` as the public API exposes the planes); `col0` is what the
    pooled decoder's `mbData` held before -/
def decodeFrameUnfiltered (K : Kernels) (e : EncodedFrame) (col0 : ColData) : Option Frame :=
  let mbW := mbCount e.w
  let mbH := mbCount e.h
  let fs : FrameSyntax := { mbW := mbW, numParts := e.numParts, updateMap := e.updateMap, useSkip := e.useSkip }
  let dflt : MBModes × ResData :=
    ({ isI4 := false, imodes := fun _ => 0, uvmode := 0, segment := 0, skip := false },
     { coeffs := fun _ => Coeffs.zero, nonZeroY := 0, nonZeroUV := 0 })
  (parseMBs K (decQuantMatrix e.qidx) fs (List.range (mbW * mbH)) TokCtx.init e.streams col0 (fun _ => dflt)).map
    fun parsed =>
      let st := (List.range (mbW * mbH)).foldl (decStep K mbW mbH parsed)
        { y := DecPlane.init, u := DecPlane.init, v := DecPlane.init }
      { w := e.w, h := e.h, y := cropPlane e.w e.h st.y.cache
        u := cropPlane ((e.w + 1) / 2) ((e.h + 1) / 2) st.u.cache
        v := cropPlane ((e.w + 1) / 2) ((e.h + 1) / 2) st.v.cache }

/-- the visible part of the encoder's planes: the reconstruction it used as prediction reference -/
def encoderReconFrame (f : EncFrame) (y u v : Plane) : Frame :=
  { w := f.w, h := f.h, y := cropPlane f.w f.h y
    u := cropPlane ((f.w + 1) / 2) ((f.h + 1) / 2) u
    v := cropPlane ((f.w + 1) / 2) ((f.h + 1) / 2) v }

/-! ## reference kernels (internal/dsp/transforms.go, the pure-Go versions)

  Used by the driver (the WHT step of `decCoeffs` needs *a* kernel) and as the witness that
  `KernelFacts` is satisfiable.  The kernel module `Webp.Impl.VP8Kernels` models all variants. -/

/-- `mul1(a) = ((a·20091) >> 16) + a`, `mul2(a) = (a·35468) >> 16` -/
def mul1 (a : Int) : Int := ((a * 20091) >>> 16) + a
def mul2 (a : Int) : Int := (a * 35468) >>> 16

def cAt (c : Coeffs) (k : Nat) : Int := if h : k < 16 then c ⟨k, h⟩ else 0

/-- `transformWHT`: vertical pass into `tmp`, horizontal pass with `(x + 3) >> 3`, stored as `int16` -/
def iwhtTmp (c : Coeffs) (k : Nat) : Int :=
  let i := k % 4
  let a0 := cAt c i + cAt c (12 + i)
  let a1 := cAt c (4 + i) + cAt c (8 + i)
  let a2 := cAt c (4 + i) - cAt c (8 + i)
  let a3 := cAt c i - cAt c (12 + i)
  match k / 4 with
  | 0 => a0 + a1
  | 1 => a3 + a2
  | 2 => a0 - a1
  | _ => a3 - a2

def iwhtRef (c : Coeffs) : Coeffs := fun o =>
  let r := o.val / 4
  let dc := iwhtTmp c (4 * r) + 3
  let a0 := dc + iwhtTmp c (4 * r + 3)
  let a1 := iwhtTmp c (4 * r + 1) + iwhtTmp c (4 * r + 2)
  let a2 := iwhtTmp c (4 * r + 1) - iwhtTmp c (4 * r + 2)
  let a3 := dc - iwhtTmp c (4 * r + 3)
  match o.val % 4 with
  | 0 => wrap16 ((a0 + a1) >>> 3)
  | 1 => wrap16 ((a3 + a2) >>> 3)
  | 2 => wrap16 ((a0 - a1) >>> 3)
  | _ => wrap16 ((a3 - a2) >>> 3)

/-- `transformOne` / `iTransformOne`, vertical pass: `tmp[k]` -/
def idctTmp (c : Coeffs) (k : Nat) : Int :=
  let i := k % 4
  let a := cAt c i + cAt c (8 + i)
  let b := cAt c i - cAt c (8 + i)
  let cc := mul2 (cAt c (4 + i)) - mul1 (cAt c (12 + i))
  let d := mul1 (cAt c (4 + i)) + mul2 (cAt c (12 + i))
  match k / 4 with
  | 0 => a + d
  | 1 => b + cc
  | 2 => b - cc
  | _ => a - d

/-- `transformOne(in, dst)` = `iTransformOne(ref, in, dst)` with `ref = dst`: horizontal pass,
    `dst = clip8(dst + (x >> 3))` -/
def idctRef (c : Coeffs) (p : Blk4) : Blk4 := fun o =>
  let r := o.val / 4
  let dc := idctTmp c (4 * r) + 4
  let a := dc + idctTmp c (4 * r + 2)
  let b := dc - idctTmp c (4 * r + 2)
  let cc := mul2 (idctTmp c (4 * r + 1)) - mul1 (idctTmp c (4 * r + 3))
  let d := mul1 (idctTmp c (4 * r + 1)) + mul2 (idctTmp c (4 * r + 3))
  let x : Int := match o.val % 4 with
    | 0 => a + d
    | 1 => b + cc
    | 2 => b - cc
    | _ => a - d
  clip8 (((p o).toNat : Int) + (x >>> 3))

/-- `transformAC3` -/
def ac3Ref (c : Coeffs) (p : Blk4) : Blk4 := fun o =>
  let a := c 0 + 4
  let c4 := mul2 (c 4)
  let d4 := mul1 (c 4)
  let c1 := mul2 (c 1)
  let d1 := mul1 (c 1)
  let rowv : Int := match o.val / 4 with
    | 0 => a + d4
    | 1 => a + c4
    | 2 => a - c4
    | _ => a - d4
  let x : Int := match o.val % 4 with
    | 0 => rowv + d1
    | 1 => rowv + c1
    | 2 => rowv - c1
    | _ => rowv - d1
  clip8 (((p o).toNat : Int) + (x >>> 3))

/-- pure-Go kernels on both sides; the predictors are left abstract (`pred16`, `pred8`, `pred4` are
    the same Go functions for encoder and decoder in the portable build) -/
def refKernels (pred16 : Nat → Edge16 → Blk16) (pred8 : Nat → Edge8 → Blk8) (pred4 : Nat → Edge4 → Blk4) : Kernels :=
  { encIdct := idctRef, decIdct := idctRef, decAC3 := ac3Ref
    decIdctUV := fun cs p => join8 (fun k => idctRef (cs k) (sub8 p k))
    iwht := iwhtRef
    encPred16 := pred16, decPred16 := pred16, encPred8 := pred8, decPred8 := pred8, pred4 := pred4 }

end Webp.Impl.VP8Recon
