import Webp.Go.Basic
/-
  Implementation model of /repo/internal/container/{riff,parser}.go — `container.NewParser`.

  Transcribed statement by statement; Go's `buf[a:b]` is `slice` (can panic), every loop
  has fuel equal to the length of the buffer it walks (each iteration consumes ≥ 8 bytes),
  and `nil` vs. empty slices are kept apart (`alphaData : Option Bytes`) because
  `webp.DecodeConfig` tests `== nil` while `decodeLossy` tests `len(..) > 0`.
-/
namespace Webp.Impl.Parser
open Webp.Go

/-- error classes of package `container` (what `errors.Is` can distinguish) -/
inductive Err where
  | truncated | invalidRIFF | invalidWebP | tooLarge | invalidVP8X | invalidFlags
  | unsupported | invalidImage | invalidChunk | other
  deriving Repr, DecidableEq, Inhabited

def Err.toString : Err → String
  | .truncated => "truncated" | .invalidRIFF => "invalidRIFF" | .invalidWebP => "invalidWebP"
  | .tooLarge => "tooLarge" | .invalidVP8X => "invalidVP8X" | .invalidFlags => "invalidFlags"
  | .unsupported => "unsupported" | .invalidImage => "invalidImage"
  | .invalidChunk => "invalidChunk" | .other => "other"

abbrev R := Res Err

-- constants.go
def ccRIFF := fourCC "RIFF"
def ccWEBP := fourCC "WEBP"
def ccVP8  := fourCC "VP8 "
def ccVP8L := fourCC "VP8L"
def ccVP8X := fourCC "VP8X"
def ccALPH := fourCC "ALPH"
def ccANIM := fourCC "ANIM"
def ccANMF := fourCC "ANMF"
def ccICCP := fourCC "ICCP"
def ccEXIF := fourCC "EXIF"
def ccXMP  := fourCC "XMP "

def chunkHeaderSize : Nat := 8
def riffHeaderSize : Nat := 12
def anmfChunkSize : Nat := 16
def animChunkSize : Nat := 6
def vp8xChunkSize : Nat := 10
def maxChunkPayload : Nat := 4294967286
def maxImageArea : Nat := 1073741824
def maxFrames : Nat := 10000
def maxChunks : Nat := 1000
def maxMetadataSize : Nat := 104857600

inductive Format where | undefined | vp8 | vp8l | vp8x
  deriving Repr, DecidableEq, Inhabited

structure Features where
  width : Nat := 0
  height : Nat := 0
  hasAlpha : Bool := false
  hasAnim : Bool := false
  hasICCP : Bool := false
  hasEXIF : Bool := false
  hasXMP : Bool := false
  format : Format := .undefined
  loopCount : Nat := 0
  bgColor : Nat := 0
  canvasWidth : Nat := 0
  canvasHeight : Nat := 0
  deriving Repr, DecidableEq, Inhabited

structure FrameInfo where
  xOffset : Nat := 0
  yOffset : Nat := 0
  width : Nat := 0
  height : Nat := 0
  duration : Nat := 0
  disposeBG : Bool := false
  blendNone : Bool := false
  hasAlpha : Bool := false
  isLossless : Bool := false
  payload : Option Bytes := none      -- nil until an image chunk is seen
  alphaData : Option Bytes := none    -- nil if no ALPH chunk; `some []` for a zero-length one
  deriving Repr, DecidableEq, Inhabited

structure Chunk where
  fourcc : Nat
  payload : Bytes
  deriving Repr, DecidableEq, Inhabited

structure State where
  features : Features := {}
  frames : List FrameInfo := []      -- in order
  chunks : List Chunk := []          -- in order
  deriving Repr, DecidableEq, Inhabited

/-- riff.go ParseRIFFHeader: returns FileSize -/
def parseRIFFHeader (data : Bytes) : R Nat :=
  if data.length < riffHeaderSize then .err .truncated
  else if le32 data 0 ≠ ccRIFF then .err .invalidRIFF
  else
    let fileSize := le32 data 4
    if fileSize < chunkHeaderSize then .err .invalidRIFF
    else if fileSize > maxChunkPayload then .err .tooLarge
    else if le32 data 8 ≠ ccWEBP then .err .invalidWebP
    else .ok fileSize

/-- riff.go ReadChunkHeader -/
def readChunkHeader (data : Bytes) : R (Nat × Nat) :=
  if data.length < chunkHeaderSize then .err .truncated
  else
    let payloadSize := le32 data 4
    if payloadSize > maxChunkPayload then .err .tooLarge
    else .ok (le32 data 0, payloadSize)

/-- parser.go parseVP8Header -/
def parseVP8Header (data : Bytes) : R (Nat × Nat) :=
  if data.length < 10 then .err .truncated
  else if byteAt data 0 % 2 ≠ 0 then .err .other
  else if byteAt data 3 * 65536 + byteAt data 4 * 256 + byteAt data 5 ≠ 0x9d012a then .err .other
  else
    let w := le16 data 6 % 16384
    let h := le16 data 8 % 16384
    if w = 0 ∨ h = 0 then .err .invalidImage else .ok (w, h)

/-- parser.go parseVP8LHeader -/
def parseVP8LHeader (data : Bytes) : R (Nat × Nat × Bool) :=
  if data.length < 5 then .err .truncated
  else if byteAt data 0 ≠ 0x2f then .err .other
  else
    let bits := le32 data 1
    let w := bits % 16384 + 1
    let h := bits / 16384 % 16384 + 1
    let alpha := bits / 268435456 % 2 ≠ 0
    let version := bits / 536870912 % 8
    if version ≠ 0 then .err .other
    else .ok (w, h, alpha)

/-- one step of the common "read chunk header, bounds-check, slice payload" prologue used by
    every loop in parser.go.  Returns (fourcc, payloadSize, chunkTotal, payload). -/
def chunkAt (buf : Bytes) : R (Nat × Nat × Nat × Bytes) := do
  let (fourcc, payloadSize) ← readChunkHeader buf
  let padded := payloadSize + payloadSize % 2
  let chunkTotal := chunkHeaderSize + padded
  if chunkTotal > buf.length then .err .truncated
  else
    let payload ← slice buf chunkHeaderSize (chunkHeaderSize + payloadSize)
    pure (fourcc, payloadSize, chunkTotal, payload)

/-- parser.go parseSingleImage -/
def parseSingleImage (st : State) (buf : Bytes) : R State := do
  let (fourcc, payloadSize) ← readChunkHeader buf
  let padded := payloadSize + payloadSize % 2
  if chunkHeaderSize + padded > buf.length then .err .truncated
  else
    let payload ← slice buf chunkHeaderSize (chunkHeaderSize + payloadSize)
    if fourcc = ccVP8L then
      let (w, h, alpha) ← parseVP8LHeader payload
      let frame : FrameInfo := { payload := some payload, isLossless := true,
                                 width := w, height := h, hasAlpha := alpha }
      pure { st with
        features := { st.features with hasAlpha := alpha, width := w, height := h,
                                       canvasWidth := w, canvasHeight := h }
        frames := st.frames ++ [frame] }
    else
      let (w, h) ← parseVP8Header payload
      let frame : FrameInfo := { payload := some payload, isLossless := false,
                                 width := w, height := h }
      pure { st with
        features := { st.features with width := w, height := h,
                                       canvasWidth := w, canvasHeight := h }
        frames := st.frames ++ [frame] }

/-- parser.go parseExtSingleImage (loop with fuel) -/
def parseExtSingleImage (fuel : Nat) (st : State) (frame : FrameInfo) (alph : Option Bytes)
    (buf : Bytes) : R State :=
  match fuel with
  | 0 => .hang
  | fuel + 1 =>
    if buf.length < chunkHeaderSize then .err .invalidChunk
    else do
      let (fourcc, _, chunkTotal, payload) ← chunkAt buf
      if fourcc = ccALPH then
        let rest ← sliceFrom buf chunkTotal
        parseExtSingleImage fuel
          { st with features := { st.features with hasAlpha := true } }
          { frame with hasAlpha := true } (some payload) rest
      else if fourcc = ccVP8L then
        if alph.isSome then .err .invalidChunk
        else
          let (w, h, alpha) ← parseVP8LHeader payload
          let frame := { frame with width := w, height := h, isLossless := true,
                                    hasAlpha := frame.hasAlpha || alpha, payload := some payload }
          pure { st with
            features := { st.features with hasAlpha := st.features.hasAlpha || alpha,
                                           width := w, height := h }
            frames := st.frames ++ [frame] }
      else if fourcc = ccVP8 then
        let (w, h) ← parseVP8Header payload
        let frame := { frame with width := w, height := h, isLossless := false,
                                  payload := some payload, alphaData := alph }
        pure { st with
          features := { st.features with width := w, height := h }
          frames := st.frames ++ [frame] }
      else .err .invalidChunk

/-- parser.go parseFrameSubChunks -/
def parseFrameSubChunks (fuel : Nat) (frame : FrameInfo) (alph : Option Bytes) (buf : Bytes) :
    R FrameInfo :=
  match fuel with
  | 0 => .hang
  | fuel + 1 =>
    if buf.length < chunkHeaderSize then
      (if alph.isSome then .err .invalidChunk else .ok frame)
    else do
      let (fourcc, _, chunkTotal, payload) ← chunkAt buf
      if fourcc = ccALPH then
        let rest ← sliceFrom buf chunkTotal
        parseFrameSubChunks fuel { frame with hasAlpha := true } (some payload) rest
      else if fourcc = ccVP8L then
        if alph.isSome then .err .invalidChunk
        else
          let (_, _, alpha) ← parseVP8LHeader payload
          pure { frame with isLossless := true, hasAlpha := frame.hasAlpha || alpha,
                            payload := some payload }
      else if fourcc = ccVP8 then
        pure { frame with isLossless := false, payload := some payload, alphaData := alph }
      else
        (if alph.isSome then .err .invalidChunk else .ok frame)

/-- parser.go parseANMF -/
def parseANMF (payload : Bytes) : R FrameInfo :=
  if payload.length < anmfChunkSize then .err .invalidChunk
  else
    let frame : FrameInfo := {
      xOffset := 2 * le24 payload 0, yOffset := 2 * le24 payload 3,
      width := 1 + le24 payload 6, height := 1 + le24 payload 9,
      duration := le24 payload 12 }
    -- offsets are non-negative on 64-bit `int` (2*(2^24-1) < 2^63)
    let bits := byteAt payload 15
    let frame := { frame with disposeBG := bits % 2 ≠ 0, blendNone := bits / 2 % 2 ≠ 0 }
    if frame.width * frame.height ≥ maxImageArea then .err .invalidImage
    else do
      let sub ← sliceFrom payload anmfChunkSize
      parseFrameSubChunks (sub.length + 1) frame none sub

/-- parser.go parseVP8XChunks -/
def parseVP8XChunks (fuel : Nat) (st : State) (animChunks : Nat) (buf : Bytes) : R State :=
  match fuel with
  | 0 => .hang
  | fuel + 1 =>
    if buf.length < chunkHeaderSize then .ok st
    else do
      let (fourcc, payloadSize, chunkTotal, payload) ← chunkAt buf
      let isAnim := st.features.hasAnim
      if fourcc = ccVP8X then .err .invalidChunk
      else if fourcc = ccANIM then
        if !isAnim then
          -- ignored when the VP8X animation flag is not set
          let rest ← sliceFrom buf chunkTotal
          parseVP8XChunks fuel st animChunks rest
        else if payloadSize < animChunkSize then .err .invalidChunk
        else
          let st := { st with features := { st.features with
                        bgColor := le32 payload 0, loopCount := le16 payload 4 } }
          let rest ← sliceFrom buf chunkTotal
          parseVP8XChunks fuel st (animChunks + 1) rest
      else if fourcc = ccANMF then
        if animChunks = 0 then .err .invalidChunk
        else if st.frames.length ≥ maxFrames then .err .invalidChunk
        else
          let frame ← parseANMF payload
          let rest ← sliceFrom buf chunkTotal
          parseVP8XChunks fuel { st with frames := st.frames ++ [frame] } animChunks rest
      else if fourcc = ccVP8 ∨ fourcc = ccVP8L ∨ fourcc = ccALPH then
        if animChunks > 0 ∨ isAnim then .err .invalidChunk
        else parseExtSingleImage (buf.length + 1) st {} none buf
      else if fourcc = ccICCP ∨ fourcc = ccEXIF ∨ fourcc = ccXMP then
        let flag := if fourcc = ccICCP then st.features.hasICCP
                    else if fourcc = ccEXIF then st.features.hasEXIF else st.features.hasXMP
        if flag then
          if payloadSize > maxMetadataSize then .err .invalidChunk
          else
            let rest ← sliceFrom buf chunkTotal
            parseVP8XChunks fuel { st with chunks := st.chunks ++ [⟨fourcc, payload⟩] } animChunks rest
        else
          let rest ← sliceFrom buf chunkTotal
          parseVP8XChunks fuel st animChunks rest
      else
        if st.chunks.length ≥ maxChunks then .err .invalidChunk
        else if payloadSize > maxMetadataSize then .err .invalidChunk
        else
          let rest ← sliceFrom buf chunkTotal
          parseVP8XChunks fuel { st with chunks := st.chunks ++ [⟨fourcc, payload⟩] } animChunks rest

/-- parser.go parseVP8X -/
def parseVP8X (buf : Bytes) : R State := do
  let (_, payloadSize) ← readChunkHeader buf
  if payloadSize ≠ vp8xChunkSize then .err .invalidVP8X
  else
    let padded := payloadSize + payloadSize % 2
    if chunkHeaderSize + padded > buf.length then .err .truncated
    else
      let payload ← slice buf chunkHeaderSize (chunkHeaderSize + payloadSize)
      let flags ← idx payload 0
      let flags := flags.toNat
      -- flags & ^0x3e != 0
      if flags / 64 ≠ 0 ∨ flags % 2 ≠ 0 then .err .invalidFlags
      else
        let p47 ← slice payload 4 7
        let p710 ← slice payload 7 10
        let cw := 1 + le24 p47 0
        let ch := 1 + le24 p710 0
        let feat : Features := {
          format := .vp8x
          hasAnim := flags / 2 % 2 ≠ 0, hasXMP := flags / 4 % 2 ≠ 0, hasEXIF := flags / 8 % 2 ≠ 0,
          hasAlpha := flags / 16 % 2 ≠ 0, hasICCP := flags / 32 % 2 ≠ 0,
          canvasWidth := cw, canvasHeight := ch, width := cw, height := ch }
        if cw * ch ≥ maxImageArea then .err .invalidImage
        else
          let pos := chunkHeaderSize + padded
          let feat := { feat with loopCount := 0, bgColor := 0xFFFFFFFF }
          let rest ← sliceFrom buf pos
          parseVP8XChunks (rest.length + 1) { features := feat } 0 rest

/-- parser.go (*Parser).parse -/
def parse (data : Bytes) : R State := do
  let fileSize ← parseRIFFHeader data
  let riffEnd := if fileSize + chunkHeaderSize > data.length then data.length
                 else fileSize + chunkHeaderSize
  let buf ← slice data riffHeaderSize riffEnd
  if buf.length < chunkHeaderSize then .err .truncated
  else
    let first := le32 buf 0
    if first = ccVP8X then parseVP8X buf
    else if first = ccVP8 then parseSingleImage { features := { format := .vp8 } } buf
    else if first = ccVP8L then parseSingleImage { features := { format := .vp8l } } buf
    else .err .unsupported

end Webp.Impl.Parser
