/-
  The Go statements that the hand-written synchronisation models stand for.

  `Webp/Impl/RowSync.lean` models `waitFor` / `signal` with one program point per statement
  below (waitFor: fast-path load; waiters.Add(1); Lock; loop { load; Wait }; Unlock;
  waiters.Add(-1) — signal: Store; load waiters; Lock; Unlock; Broadcast) and
  `Webp/Impl/RowPipe.lean` models the ticket loop (`nextRow.Add(1) - 1`, stop at `y >= mbH`),
  the wait `rs.waitFor(y-1, min(x+2, mbW))` before every macroblock of rows y > 0, the
  `rs.signal(y, x+1)` after it, the recorder's `waitFor(it.Y, mbW)` and the reuse reset of
  `done` / `nextRow`.  `Webp/Props/C10Shape.lean` proves that the extractor's view of the
  current sources (`Generated/Shapes.lean`) is literally this text: if the code is edited or
  reordered, the models no longer describe it and a C10 proof obligation breaks (the hook
  calls `verifSched(...)` are part of the text: they are no-ops without the build tag).
-/
namespace Webp.Impl.RowSyncShape


/-- waitFor (internal/lossy/encode_parallel.go) -/
def waitFor : List String := [
  "r := &rs.rows[y]",
  "if r.done.Load() >= needed { return }",
  "verifSched(verifEvSlowWait, nil, y, int(needed))",
  "r.waiters.Add(1)",
  "r.mu.Lock()",
  "for r.done.Load() < needed { r.cond.Wait() }",
  "r.mu.Unlock()",
  "r.waiters.Add(-1)"
]

/-- signal (internal/lossy/encode_parallel.go) -/
def signal : List String := [
  "r := &rs.rows[y]",
  "r.done.Store(done)",
  "if r.waiters.Load() > 0 { r.mu.Lock() r.mu.Unlock() r.cond.Broadcast() }"
]

/-- encodeFrameParallel (internal/lossy/encode_parallel.go) -/
def workerLoop : List String := [
  "defer wg.Done()",
  "for { y := int(ps.nextRow.Add(1) - 1) verifSched(verifEvClaim, w, y, 0) if y >= mbH { return } enc.encodeRow(w, y, topY, topU, topV, topModes, topNz, topNzDC, rs) }"
]

/-- encodeFrameParallel (internal/lossy/encode_parallel.go) -/
def frameSync : List String := [
  "numWorkers := runtime.GOMAXPROCS(0)",
  "if numWorkers > 6 { numWorkers = 6",
  "if numWorkers > mbH { numWorkers = mbH",
  "if numWorkers < 1 { numWorkers = 1",
  "ps := getParallelState(numWorkers, mbW, mbH, enc.useDerr)",
  "defer putParallelState(ps)",
  "workers := ps.workers[:numWorkers]",
  "var wg sync.WaitGroup",
  "ps.nextRow.Store(0)",
  "for wi := 0; wi < numWorkers; wi++ { wg.Add(1)",
  "for wi := 0; wi < numWorkers; wi++ { go func(w *RowWorker) { defer wg.Done() for { y := int(ps.nextRow.Add(1) - 1) verifSched(verifEvClaim, w, y, 0) if y >= mbH { return } enc.encodeRow(w, y, topY, topU, topV, topModes, topNz, topNzDC, rs) } }(&workers[wi])",
  "enc.parallelRS = rs",
  "enc.parallelRS = nil",
  "wg.Wait()"
]

/-- encodeRow (internal/lossy/encode_parallel.go) -/
def rowSyncUse : List String := [
  "for x := 0; x < mbW; x++ { if y > 0 { waitX := int32(x + 2)",
  "for x := 0; x < mbW; x++ { if y > 0 { if waitX > int32(mbW) { waitX = int32(mbW)",
  "for x := 0; x < mbW; x++ { if y > 0 { rs.waitFor(y-1, waitX)",
  "for x := 0; x < mbW; x++ { rs.signal(y, int32(x+1))"
]

/-- recordAllTokens (internal/lossy/encode_parallel.go) -/
def recorderWait : List String := [
  "for !it.IsDone() { if it.X == 0 { if enc.parallelRS != nil { enc.parallelRS.waitFor(it.Y, int32(enc.mbW))"
]

/-- getParallelState (internal/lossy/encode_parallel.go) -/
def poolReset : List String := [
  "if v != nil { if len(ps.workers) >= numWorkers && len(ps.rs.rows) >= mbH && len(ps.topY) >= mbW*16 && len(ps.topNz) >= mbW { for i := 0; i < mbH; i++ { ps.rs.rows[i].done.Store(0)",
  "if v != nil { if len(ps.workers) >= numWorkers && len(ps.rs.rows) >= mbH && len(ps.topY) >= mbW*16 && len(ps.topNz) >= mbW { ps.nextRow.Store(0)"
]

end Webp.Impl.RowSyncShape
